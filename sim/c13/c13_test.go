//go:build verif

// Harness for C13: n real dkg/bcast Components over the simulated network; honest members broadcast
// through the honest client, one faulty member talks to the two protocol handlers directly
// (equivocation, withholding, signature-list manipulation, cross-id / cross-session replay, relay of
// another sender's fully signed message).
package c13

import (
	"context"
	"crypto/sha256"
	"encoding/binary"
	"fmt"
	"strings"
	"sync"
	"testing"
	"time"

	k1 "github.com/decred/dcrd/dcrec/secp256k1/v4"
	"github.com/libp2p/go-libp2p/core/peer"
	"github.com/libp2p/go-libp2p/core/protocol"
	"github.com/libp2p/go-msgio/pbio"
	"google.golang.org/protobuf/proto"
	"google.golang.org/protobuf/types/known/anypb"
	"google.golang.org/protobuf/types/known/wrapperspb"

	"github.com/obolnetwork/charon/app/k1util"
	"github.com/obolnetwork/charon/dkg/bcast"
	pb "github.com/obolnetwork/charon/dkg/dkgpb/v1"
	"github.com/obolnetwork/charon/p2p"
	"github.com/obolnetwork/charon/verifrt"

	"verifsim/kernel"
	"verifsim/simnet"
)

const (
	protoSig = protocol.ID("/charon/dkg/bcast/2.0.0/sig")
	protoMsg = protocol.ID("/charon/dkg/bcast/2.0.0/msg")
)

func TestSim(t *testing.T) {
	kernel.Main(t, kernel.Harness{Name: "c13", Horizon: 30 * time.Minute, Body: body})
}

// hashAny restates the protocol's signed digest from its description: sha256 over the length-
// prefixed session hash, message id, payload type URL and payload bytes.
func hashAny(session []byte, id string, a *anypb.Any) []byte {
	h := sha256.New()
	for _, f := range [][]byte{session, []byte(id), []byte(a.GetTypeUrl()), a.GetValue()} {
		_ = binary.Write(h, binary.BigEndian, uint64(len(f)))
		h.Write(f)
	}
	return h.Sum(nil)
}

func frame(m proto.Message) []byte {
	var buf writerBuf
	_ = pbio.NewDelimitedWriter(&buf).WriteMsg(m)
	return buf.b
}

type writerBuf struct{ b []byte }

func (w *writerBuf) Write(p []byte) (int, error) { w.b = append(w.b, p...); return len(p), nil }

type readerBuf struct{ b []byte }

func (r *readerBuf) Read(p []byte) (int, error) {
	if len(r.b) == 0 {
		return 0, fmt.Errorf("EOF")
	}
	n := copy(p, r.b)
	r.b = r.b[n:]
	return n, nil
}

func unframe(b []byte, m proto.Message) error {
	return pbio.NewDelimitedReader(&readerBuf{b}, 1<<20).ReadMsg(m)
}

type delivery struct {
	receiver int
	sender   peer.ID
	id       string
	payload  string
	at       time.Duration
}

type world struct {
	c          *kernel.Ctx
	n          int
	keys       []*k1.PrivateKey
	ids        []peer.ID
	idx        map[peer.ID]int
	faulty     int // -1: none
	urlVariant int
	session    []byte

	mu         sync.Mutex
	signed     []map[string]bool // per member: digests (hex) it produced a signature for in this session
	deliveries []delivery
	observed   []*pb.BCastMessage  // fully signed messages the faulty member received (relay material)
	sigs       map[string][][]byte // digest -> signatures by member index collected by the faulty member
}

func key(i int) *k1.PrivateKey {
	var b [32]byte
	for j := range b {
		b[j] = byte(0x11*(i+1) + j)
	}
	return k1.PrivKeyFromBytes(b[:])
}

func body(c *kernel.Ctx) {
	ctx, cancel := context.WithCancel(context.Background())
	defer cancel()

	w := &world{c: c, faulty: -1, session: []byte("session-A-0123456789abcdef"), sigs: map[string][][]byte{}, idx: map[peer.ID]int{}}
	w.n = 3 + verifrt.Intn("cfg", 4)
	if verifrt.Intn("cfg", 4) != 0 {
		w.faulty = verifrt.Intn("cfg", w.n)
	}
	for i := 0; i < w.n; i++ {
		k := key(i)
		id, err := p2p.PeerIDFromKey(k.PubKey())
		if err != nil {
			panic(err)
		}
		w.keys = append(w.keys, k)
		w.ids = append(w.ids, id)
		w.idx[id] = i
		w.signed = append(w.signed, map[string]bool{})
	}
	msgIDs := []string{"round1", "round2"}
	maxDelay := 1 + verifrt.Intn("cfg", 50)
	dropPct := []int{0, 0, 5}[verifrt.Intn("cfg", 3)]
	dupPct := []int{0, 5, 20}[verifrt.Intn("cfg", 3)]

	checkYields := verifrt.Intn("cfg", 4)
	checkSleep := time.Duration([]int{0, 0, 5, 25}[verifrt.Intn("cfg", 4)]) * time.Millisecond
	lateIDs := []int{0, 0, 6, 14}[verifrt.Intn("cfg", 4)]
	w.urlVariant = []int{0, 0, 1, 2}[verifrt.Intn("cfg", 4)]
	mkNet := func(session []byte, record bool) (*simnet.Net, []*bcast.Component, *simnet.Host) {
		net := simnet.New()
		net.Fate = func(e *simnet.Envelope) simnet.Fate {
			f := simnet.Fate{Delay: time.Duration(verifrt.Intn("n", maxDelay)) * time.Millisecond}
			r := verifrt.Intn("n", 100)
			if r >= 100-dropPct {
				f.Drop = true
				verifrt.Fault("drop")
			} else if r >= 100-dropPct-dupPct && !e.Response {
				f.Duplicate = true
				f.DupDelay = time.Duration(verifrt.Intn("n", 4*maxDelay)) * time.Millisecond
				verifrt.Fault("duplicate")
			}
			return f
		}
		if record {
			net.Tap = func(e *simnet.Envelope) {
				if !e.Response || e.Proto != protoSig {
					return
				}
				signer, ok := w.idx[e.From]
				if !ok || signer == w.faulty {
					return
				}
				var req pb.BCastSigRequest
				var resp pb.BCastSigResponse
				if unframe(e.Request, &req) != nil || unframe(e.Payload, &resp) != nil {
					return
				}
				d := hashAny(session, req.GetId(), req.GetMessage())
				okSig, err := k1util.Verify65(w.keys[signer].PubKey(), d, resp.GetSignature())
				if err != nil || !okSig {
					c.Violate("C13", "signature-mismatch", "sig-response-not-over-requested-payload", "member %d answered a signature request for id %q with a signature that does not verify for (session, id, payload)", signer, req.GetId())
					return
				}
				w.mu.Lock()
				w.signed[signer][string(d)] = true
				w.mu.Unlock()
			}
		}
		comps := make([]*bcast.Component, w.n)
		var fh *simnet.Host
		for i := 0; i < w.n; i++ {
			h := net.NewHost(w.ids[i], fmt.Sprintf("n%d", i))
			if i == w.faulty {
				fh = h
				continue
			}
			comp := bcast.New(h, w.ids, w.keys[i], session)
			me := i
			for _, mid := range msgIDs {
				comp.RegisterMessageIDFuncs(mid,
					func(_ context.Context, pID peer.ID, msgID string, m proto.Message) error {
						if !record {
							return nil
						}
						sv, ok := m.(*wrapperspb.StringValue)
						if !ok {
							c.Violate("C13", "callback-type", "callback-with-unexpected-type", "member %d callback got %T", me, m)
							return nil
						}
						w.onDeliver(me, pID, msgID, sv.GetValue())
						return nil
					},
					func(_ context.Context, _ peer.ID, a *anypb.Any) error {
						// the application's content check takes a while (scheduling points): other requests
						// and registrations of further message ids interleave with it
						for k := checkYields; k > 0; k-- {
							verifrt.Yield()
						}
						if checkSleep > 0 {
							verifrt.Sleep(time.Duration(1+verifrt.Intn("w", int(checkSleep/time.Millisecond))) * time.Millisecond)
						}
						var sv wrapperspb.StringValue
						return a.UnmarshalTo(&sv)
					})
			}
			if record && lateIDs > 0 {
				// as dkg.Run does: further message ids (of later ceremony steps) are registered one after
				// the other on the component while it is already serving requests
				verifrt.GoNode(fmt.Sprintf("n%d", me), func() {
					for k := 0; k < lateIDs; k++ {
						verifrt.Sleep(time.Duration(verifrt.Intn("w", 25)) * time.Millisecond)
						comp.RegisterMessageIDFuncs(fmt.Sprintf("late-step-%d", k),
							func(context.Context, peer.ID, string, proto.Message) error { return nil },
							func(context.Context, peer.ID, *anypb.Any) error { return nil })
						verifrt.Probe("message-id-registered-while-serving")
					}
				})
			}
			comps[i] = comp
		}
		return net, comps, fh
	}

	netA, compsA, fhA := mkNet(w.session, true)
	_ = checkYields
	sessionB := []byte("session-B-fedcba9876543210")
	var netB *simnet.Net
	var fhB *simnet.Host
	twoSessions := w.faulty >= 0 && verifrt.Intn("cfg", 3) == 0
	if twoSessions {
		netB, _, fhB = mkNet(sessionB, false)
	}
	c.Set("n", w.n)
	c.Set("faulty", w.faulty)
	c.Set("two_sessions", twoSessions)

	// The faulty member's own handlers in session A: answer signature requests (so that honest
	// broadcasts can complete) and record fully signed messages it receives (relay material).
	if w.faulty >= 0 {
		answer := verifrt.Intn("a", 4) != 3
		p2p.RegisterHandler("adv", fhA, protoSig, func() proto.Message { return new(pb.BCastSigRequest) },
			func(_ context.Context, _ peer.ID, m proto.Message) (proto.Message, bool, error) {
				req := m.(*pb.BCastSigRequest)
				if !answer {
					return nil, false, nil
				}
				sig, _ := k1util.Sign(w.keys[w.faulty], hashAny(w.session, req.GetId(), req.GetMessage()))
				return &pb.BCastSigResponse{Id: req.GetId(), Signature: sig}, true, nil
			})
		p2p.RegisterHandler("adv", fhA, protoMsg, func() proto.Message { return new(pb.BCastMessage) },
			func(_ context.Context, _ peer.ID, m proto.Message) (proto.Message, bool, error) {
				w.mu.Lock()
				w.observed = append(w.observed, proto.Clone(m).(*pb.BCastMessage))
				w.mu.Unlock()
				return nil, false, nil
			})
	}

	// Honest members broadcast (at most one payload per id each).
	var wg sync.WaitGroup
	for i := 0; i < w.n; i++ {
		if i == w.faulty {
			continue
		}
		me := i
		wg.Add(1)
		verifrt.GoNode(fmt.Sprintf("n%d", me), func() {
			defer wg.Done()
			for _, mid := range msgIDs {
				if verifrt.Intn("w", 4) == 3 {
					continue
				}
				verifrt.Sleep(time.Duration(verifrt.Intn("w", 30)) * time.Millisecond)
				payload := fmt.Sprintf("honest-%d-%s", me, mid)
				a, _ := anypb.New(wrapperspb.String(payload))
				w.mu.Lock()
				w.signed[me][string(hashAny(w.session, mid, a))] = true // the sender signs its own message locally
				w.mu.Unlock()
				bctx, bcancel := context.WithTimeout(ctx, 20*time.Second)
				err := compsA[me].Broadcast(bctx, mid, wrapperspb.String(payload))
				bcancel()
				verifrt.Note("n%d broadcast %s ok=%v", me, mid, err == nil)
				if err == nil {
					c.Progress()
				}
			}
		})
	}
	if w.faulty >= 0 {
		wg.Add(1)
		verifrt.GoNode("adv", func() {
			defer wg.Done()
			w.adversary(ctx, netA, fhA, netB, fhB, sessionB, msgIDs)
		})
	}
	if verifrt.Intn("cfg", 3) == 2 {
		// connection churn: links between members (any pair) lose their connections during the run and are
		// re-dialled by the next stream between the two
		wg.Add(1)
		verifrt.Go(func() {
			defer wg.Done()
			for k := 1 + verifrt.Intn("f", 4); k > 0 && ctx.Err() == nil; k-- {
				verifrt.Sleep(time.Duration(verifrt.Intn("f", 60)) * time.Millisecond)
				a, b := verifrt.Intn("f", w.n), verifrt.Intn("f", w.n)
				if a != b {
					netA.Disconnect(w.ids[a], w.ids[b])
				}
			}
		})
	}
	verifrt.WGWait(&wg)
	verifrt.Sleep(3 * time.Minute) // quiescence: every in-flight message handled (receive timeout is 1 minute)
	w.finalCheck()
	cancel()
}

func (w *world) onDeliver(receiver int, sender peer.ID, id, payload string) {
	c := w.c
	// the callback sees the decoded payload; on the wire it may have travelled under any type-URL prefix that
	// decodes to it: a member "signed exactly that payload" if it signed one of those wire forms
	var ds []string
	for _, u := range []string{"type.googleapis.com/google.protobuf.StringValue", "dkg.example.org/google.protobuf.StringValue", "google.protobuf.StringValue"} {
		a, _ := anypb.New(wrapperspb.String(payload))
		a.TypeUrl = u
		ds = append(ds, string(hashAny(w.session, id, a)))
	}
	w.mu.Lock()
	defer w.mu.Unlock()
	verifrt.Note("deliver r=%d sender=%d id=%s payload=%s", receiver, w.idx[sender], id, payload)
	c.Progress()
	// there must be ONE wire form that every member signed
	best, missing := -1, -1
	for f := range ds {
		miss, n := -1, 0
		for i := 0; i < w.n; i++ {
			if i == w.faulty {
				continue
			}
			if w.signed[i][ds[f]] {
				n++
			} else if miss < 0 {
				miss = i
			}
		}
		if miss < 0 {
			best, missing = f, -1
			break
		}
		if n > best {
			best, missing = n, miss
		}
	}
	if missing >= 0 {
		who := "member"
		if missing == receiver {
			who = "the receiver itself,"
		}
		c.Violate("C13", "delivered-unsigned", "delivered-payload-not-signed-by-every-member", "member %d delivered (sender %d, id %s, payload %q) although %s %d never signed exactly that payload for that id in this session", receiver, w.idx[sender], id, payload, who, missing)
	}
	for _, o := range w.deliveries {
		if o.sender == sender && o.id == id && o.payload != payload {
			kind := "equivocation"
			if len(payload) > 6 && payload[:6] == "honest" || len(o.payload) > 6 && o.payload[:6] == "honest" {
				kind = "relayed-honest-message"
			}
			c.Violate("C13", "different-payloads-same-sender-id", kind, "for sender %d and id %s member %d delivered %q but member %d delivered %q", w.idx[sender], id, o.receiver, o.payload, receiver, payload)
			break
		}
	}
	w.deliveries = append(w.deliveries, delivery{receiver, sender, id, payload, verifrt.Now()})
}

func (w *world) finalCheck() {
	w.mu.Lock()
	defer w.mu.Unlock()
	w.c.Set("deliveries", len(w.deliveries))
}

// ---- the faulty member --------------------------------------------------------------------------

// askSig sends a signature request to one member and returns its signature (nil if none).
func (w *world) askSig(net *simnet.Net, to int, id string, a *anypb.Any) []byte {
	return w.askSigAt(net, to, id, a, time.Duration(verifrt.Intn("a", 20))*time.Millisecond)
}

func (w *world) askSigAt(net *simnet.Net, to int, id string, a *anypb.Any, delay time.Duration) []byte {
	ch := net.Inject(w.ids[w.faulty], w.ids[to], protoSig, frame(&pb.BCastSigRequest{Id: id, Message: a}), delay)
	b, st := verifrt.RecvTimeout(ch, nil, 90*time.Second)
	if st != 0 || b == nil {
		return nil
	}
	var resp pb.BCastSigResponse
	if unframe(b, &resp) != nil {
		return nil
	}
	return resp.GetSignature()
}

// advAny wraps a payload of the faulty member. In a seeded third of the runs its second payload ("...-v2") is
// wrapped under another type-URL prefix (or none): decoding only looks at the name after the last slash, so the
// envelope stays well-formed while its bytes - and whatever is keyed by them - differ.
func (w *world) advAny(payload string) *anypb.Any {
	a, _ := anypb.New(wrapperspb.String(payload))
	if w.urlVariant > 0 && strings.HasSuffix(payload, "-v2") {
		a.TypeUrl = []string{"", "dkg.example.org/google.protobuf.StringValue", "google.protobuf.StringValue"}[w.urlVariant]
		verifrt.Probe("adv:type-url-variant")
	}
	return a
}

func (w *world) collect(net *simnet.Net, session []byte, id string, payload string, who []int) (*anypb.Any, [][]byte) {
	return w.collectAs(net, session, id, id, payload, who)
}

// collectAs asks for signatures under the spelling askID of a message id while counting on signatures over id
// (a member that treats two spellings as one id must also remember what it signed under either).
func (w *world) collectAs(net *simnet.Net, session []byte, askID, id string, payload string, who []int) (*anypb.Any, [][]byte) {
	a := w.advAny(payload)
	sigs := make([][]byte, w.n)
	own, _ := k1util.Sign(w.keys[w.faulty], hashAny(session, id, a))
	sigs[w.faulty] = own
	for _, to := range who {
		if to == w.faulty {
			continue
		}
		sigs[to] = w.askSig(net, to, askID, a)
		if sigs[to] != nil && session != nil && string(session) == string(w.session) {
			// Inject bypasses the Tap's response leg: record what the member signed, after verifying it.
			d := hashAny(session, id, a)
			if ok, _ := k1util.Verify65(w.keys[to].PubKey(), d, sigs[to]); ok {
				w.mu.Lock()
				w.signed[to][string(d)] = true
				w.mu.Unlock()
			}
		}
	}
	return a, sigs
}

// collectParallel asks every member at once (one request goroutine per member).
func (w *world) collectParallel(net *simnet.Net, session []byte, id string, payload string, who []int, delay time.Duration) (*anypb.Any, [][]byte) {
	a := w.advAny(payload)
	sigs := make([][]byte, w.n)
	own, _ := k1util.Sign(w.keys[w.faulty], hashAny(session, id, a))
	sigs[w.faulty] = own
	var mu sync.Mutex
	var wg sync.WaitGroup
	for _, to := range who {
		if to == w.faulty {
			continue
		}
		to := to
		wg.Add(1)
		verifrt.Go(func() {
			defer wg.Done()
			sg := w.askSigAt(net, to, id, a, delay)
			if sg == nil {
				return
			}
			d := hashAny(session, id, a)
			if ok, _ := k1util.Verify65(w.keys[to].PubKey(), d, sg); ok {
				w.mu.Lock()
				w.signed[to][string(d)] = true
				w.mu.Unlock()
			}
			mu.Lock()
			sigs[to] = sg
			mu.Unlock()
		})
	}
	verifrt.WGWait(&wg)
	return a, sigs
}

func (w *world) sendMsg(net *simnet.Net, to int, m *pb.BCastMessage) {
	if to == w.faulty {
		return
	}
	verifrt.Fault("byz:msg")
	net.Inject(w.ids[w.faulty], w.ids[to], protoMsg, frame(m), time.Duration(verifrt.Intn("a", 30))*time.Millisecond)
}

func (w *world) others() []int {
	var o []int
	for i := 0; i < w.n; i++ {
		if i != w.faulty {
			o = append(o, i)
		}
	}
	return o
}

func shuffled(xs []int) []int {
	o := append([]int(nil), xs...)
	for i := 0; i < len(o)-1; i++ {
		j := i + verifrt.Intn("a", len(o)-i)
		o[i], o[j] = o[j], o[i]
	}
	return o
}

func (w *world) adversary(ctx context.Context, netA *simnet.Net, fhA *simnet.Host, netB *simnet.Net, fhB *simnet.Host, sessionB []byte, msgIDs []string) {
	moves := 1 + verifrt.Intn("a", 6)
	others := w.others()
	var otherSession [][]byte
	for i := 0; i < moves && ctx.Err() == nil; i++ {
		verifrt.Sleep(time.Duration(verifrt.Intn("a", 40)) * time.Millisecond)
		id := msgIDs[verifrt.Intn("a", len(msgIDs))]
		p1 := fmt.Sprintf("byz-%s-v1", id)
		p2 := fmt.Sprintf("byz-%s-v2", id)
		switch verifrt.Intn("a", 10) {
		case 9: // stalled members: a repeated request is caught by a pause of its handler's node that
			// outlasts the receive timeout; afterwards a conflicting payload is requested under the same id
			verifrt.Probe("adv:stall-during-repeat")
			a1, s1 := w.collect(netA, w.session, id, p1, shuffled(others))
			for _, to := range others {
				steps := verifrt.Intn("a", 16)
				netA.Inject(w.ids[w.faulty], w.ids[to], protoSig, frame(&pb.BCastSigRequest{Id: id, Message: a1}), 0)
				for k := 0; k < steps; k++ {
					verifrt.Yield()
				}
				verifrt.Stall(fmt.Sprintf("n%d", to), 62*time.Second)
			}
			verifrt.Sleep(70 * time.Second)
			a2, s2 := w.collect(netA, w.session, id, p2, shuffled(others))
			for _, to := range others {
				if verifrt.Intn("a", 2) == 0 {
					w.sendMsg(netA, to, &pb.BCastMessage{Id: id, Message: a1, Signatures: s1})
				} else {
					w.sendMsg(netA, to, &pb.BCastMessage{Id: id, Message: a2, Signatures: s2})
				}
			}
		case 8: // concurrent equivocation: signature requests for two payloads of one id are in flight
			// at the same time at every member (the once-per-(peer,id) rule must hold under concurrency)
			verifrt.Probe("adv:concurrent-equivocation")
			var a1, a2 *anypb.Any
			var s1, s2 [][]byte
			o1, o2 := shuffled(others), shuffled(others)
			var cw sync.WaitGroup
			cw.Add(2)
			at := time.Duration(verifrt.Intn("a", 10)) * time.Millisecond // both requests reach a member in the same instant
			verifrt.Go(func() { defer cw.Done(); a1, s1 = w.collectParallel(netA, w.session, id, p1, o1, at) })
			verifrt.Go(func() { defer cw.Done(); a2, s2 = w.collectParallel(netA, w.session, id, p2, o2, at) })
			verifrt.WGWait(&cw)
			for _, to := range others {
				if verifrt.Intn("a", 2) == 0 {
					w.sendMsg(netA, to, &pb.BCastMessage{Id: id, Message: a1, Signatures: s1})
				} else {
					w.sendMsg(netA, to, &pb.BCastMessage{Id: id, Message: a2, Signatures: s2})
				}
			}
		case 0: // behave: one payload, full signature set, everyone
			a, sigs := w.collect(netA, w.session, id, p1, shuffled(others))
			for _, to := range others {
				w.sendMsg(netA, to, &pb.BCastMessage{Id: id, Message: a, Signatures: sigs})
			}
		case 1: // equivocate: ask for signatures on two payloads (any order, repeated), send whichever to whomever
			verifrt.Probe("adv:equivocate")
			a1, s1 := w.collect(netA, w.session, id, p1, shuffled(others))
			if verifrt.Intn("a", 2) == 1 {
				// the faulty member drops all its connections and comes back before asking again (whatever a
				// member remembers about a requester must survive the requester's reconnecting)
				verifrt.Probe("adv:reconnect-between-requests")
				for _, to := range others {
					netA.Disconnect(w.ids[w.faulty], w.ids[to])
				}
				verifrt.Sleep(time.Duration(verifrt.Intn("a", 6)) * time.Millisecond)
			}
			askID := id
			if verifrt.Intn("a", 3) == 2 {
				// the second round of requests names the same message id in another spelling
				askID = []string{id + "/", id + "/.", "./" + id, "x/../" + id, strings.Replace(id, "/", "//", 1), " " + id, strings.ToUpper(id)}[verifrt.Intn("a", 7)]
				verifrt.Probe("adv:message-id-in-another-spelling")
			}
			a2, s2 := w.collectAs(netA, w.session, askID, id, p2, shuffled(others))
			if verifrt.Intn("a", 2) == 0 {
				a1, s1 = w.collect(netA, w.session, id, p1, shuffled(others))
			}
			for _, to := range others {
				if verifrt.Intn("a", 2) == 0 {
					w.sendMsg(netA, to, &pb.BCastMessage{Id: id, Message: a1, Signatures: s1})
				} else {
					mid := id
					if askID != id && verifrt.Intn("a", 2) == 1 {
						mid = askID
					}
					w.sendMsg(netA, to, &pb.BCastMessage{Id: mid, Message: a2, Signatures: s2})
				}
			}
		case 2: // split requests: payload 1 to one half of the signers, payload 2 to the other, then mix lists
			verifrt.Probe("adv:split-signers")
			half := shuffled(others)
			a1, s1 := w.collect(netA, w.session, id, p1, half[:len(half)/2])
			a2, s2 := w.collect(netA, w.session, id, p2, half[len(half)/2:])
			mixed := make([][]byte, w.n)
			for k := range mixed {
				mixed[k] = s1[k]
				if mixed[k] == nil {
					mixed[k] = s2[k]
				}
			}
			for _, to := range others {
				if verifrt.Intn("a", 2) == 0 {
					w.sendMsg(netA, to, &pb.BCastMessage{Id: id, Message: a1, Signatures: mixed})
				} else {
					w.sendMsg(netA, to, &pb.BCastMessage{Id: id, Message: a2, Signatures: mixed})
				}
			}
		case 3: // signature list manipulation: permuted, truncated, own signature substituted, signatures of another id
			verifrt.Probe("adv:sig-list")
			a, sigs := w.collect(netA, w.session, id, p1, shuffled(others))
			bad := append([][]byte(nil), sigs...)
			switch verifrt.Intn("a", 5) {
			case 0:
				perm := shuffled([]int{0, 1, 2, 3, 4, 5}[:w.n])
				for k, j := range perm {
					bad[k] = sigs[j]
				}
			case 1:
				bad = bad[:w.n-1]
			case 2:
				for k := range bad {
					bad[k] = sigs[w.faulty]
				}
			case 3:
				oid := msgIDs[(verifrt.Intn("a", len(msgIDs)))]
				_, bad = w.collect(netA, w.session, oid, p2, shuffled(others))
			case 4:
				bad = append(bad, sigs[0])
			}
			for _, to := range others {
				w.sendMsg(netA, to, &pb.BCastMessage{Id: id, Message: a, Signatures: bad})
			}
		case 4: // withhold: full set, but only some members get the message
			a, sigs := w.collect(netA, w.session, id, p1, shuffled(others))
			for _, to := range others {
				if verifrt.Intn("a", 2) == 0 {
					w.sendMsg(netA, to, &pb.BCastMessage{Id: id, Message: a, Signatures: sigs})
				}
			}
		case 5: // cross-session replay: a full signature set legitimately obtained in another session
			if netB == nil {
				continue
			}
			verifrt.Probe("adv:cross-session")
			a, sigs := w.collect(netB, sessionB, id, p1, shuffled(others))
			otherSession = sigs
			for _, to := range others {
				w.sendMsg(netA, to, &pb.BCastMessage{Id: id, Message: a, Signatures: otherSession})
			}
		case 6: // relay: another sender's fully signed message, sent on under the faulty member's identity
			w.mu.Lock()
			obs := append([]*pb.BCastMessage(nil), w.observed...)
			w.mu.Unlock()
			if len(obs) == 0 {
				continue
			}
			verifrt.Probe("adv:relay")
			m := obs[verifrt.Intn("a", len(obs))]
			for _, to := range others {
				if verifrt.Intn("a", 2) == 0 {
					w.sendMsg(netA, to, m)
				}
			}
		case 7: // unsigned / self-signed only
			a := w.advAny(p1)
			own, _ := k1util.Sign(w.keys[w.faulty], hashAny(w.session, id, a))
			sigs := make([][]byte, w.n)
			for k := range sigs {
				sigs[k] = own
			}
			for _, to := range others {
				w.sendMsg(netA, to, &pb.BCastMessage{Id: id, Message: a, Signatures: sigs})
			}
		}
	}
}
