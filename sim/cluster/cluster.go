//go:build verif

// Package cluster builds a simulated charon cluster: n full nodes made of the repository's real
// components (QBFT consensus component, DutyDB, ValidatorAPI, ParSigDB, ParSigEx, SigAgg, AggSigDB,
// Fetcher) stitched by the real core.Wire (with the real async retryer), on the simulated network
// and beacon nodes, with a triggering scheduler stub, a simulated validator client per node and a
// recording broadcaster. Used by the C01, C05 and C10 harnesses.
package cluster

import (
	"context"
	"fmt"
	"math"
	"sync"
	"testing"
	"time"

	eth2api "github.com/attestantio/go-eth2-client/api"
	eth2v1 "github.com/attestantio/go-eth2-client/api/v1"
	eth2spec "github.com/attestantio/go-eth2-client/spec"
	eth2p0 "github.com/attestantio/go-eth2-client/spec/phase0"
	k1 "github.com/decred/dcrd/dcrec/secp256k1/v4"
	"github.com/libp2p/go-libp2p/core/peer"
	"github.com/OffchainLabs/go-bitfield"

	"github.com/obolnetwork/charon/app/eth2wrap"
	"github.com/obolnetwork/charon/app/retry"
	"github.com/obolnetwork/charon/core"
	"github.com/obolnetwork/charon/core/aggsigdb"
	qbftcons "github.com/obolnetwork/charon/core/consensus/qbft"
	pbv1 "github.com/obolnetwork/charon/core/corepb/v1"
	"github.com/obolnetwork/charon/core/dutydb"
	"github.com/obolnetwork/charon/core/fetcher"
	"github.com/obolnetwork/charon/core/parsigdb"
	"github.com/obolnetwork/charon/core/parsigex"
	"github.com/obolnetwork/charon/core/sigagg"
	"github.com/obolnetwork/charon/core/validatorapi"
	"github.com/obolnetwork/charon/p2p"
	"github.com/obolnetwork/charon/tbls"
	"github.com/obolnetwork/charon/tbls/tblsconv"
	"github.com/obolnetwork/charon/verifrt"

	"verifsim/simbeacon"
	"verifsim/simnet"
)

// detReader is a deterministic byte stream for key generation.
type detReader struct{ x uint64 }

func (r *detReader) Read(p []byte) (int, error) {
	for i := range p {
		r.x = r.x*6364136223846793005 + 1442695040888963407
		p[i] = byte(r.x >> 33)
	}
	return len(p), nil
}

// Validator is one distributed validator of the cluster.
type Validator struct {
	Index     eth2p0.ValidatorIndex
	Secret    tbls.PrivateKey
	PubKey    tbls.PublicKey
	CorePK    core.PubKey
	Shares    map[int]tbls.PrivateKey // share index (1-based) -> secret share
	PubShares map[int]tbls.PublicKey
	Committee eth2p0.CommitteeIndex
	CommPos   uint64 // validator committee index
}

// Broadcast is one fully signed object handed to the (recording) broadcaster.
type Broadcast struct {
	Node   int
	Duty   core.Duty
	PubKey core.PubKey
	Data   core.SignedData
	At     time.Duration
}

// Config of a cluster.
type Config struct {
	N                   int
	Validators          int
	SlotsPerEpoch       uint64
	SlotDuration        time.Duration
	StartSlot           uint64 // the slot that begins at simulated time 0
	CompareAttestations bool
	AggSigDBV2          bool
	// BuilderAPI is the node's --builder-api flag: passed to validatorapi.NewComponent and fetcher.New
	// (the fetcher then asks the beacon node for builder blocks: BuilderBoostFactor = max). false = as before.
	BuilderAPI bool
}

// Cluster is the simulated cluster.
type Cluster struct {
	T         *testing.T
	Cfg       Config
	Ctx       context.Context
	Chain     *simbeacon.Chain
	Net       *simnet.Net
	Threshold int
	Keys      []*k1.PrivateKey
	Peers     []p2p.Peer
	PeerIDs   []peer.ID
	Vals      []*Validator
	AllShares map[core.PubKey]map[int]tbls.PublicKey
	Nodes     []*Node

	mu         sync.Mutex
	Broadcasts []Broadcast
	OnBcast    func(b Broadcast)
	// View returns node i's beacon view (0,1,…) for a slot; different views yield different
	// attestation data (head root always, source/target roots when view >= 2).
	View func(node int, slot uint64) int
	// BeaconErr, if set, may fail node i's k-th attestation-data call with a transient error.
	BeaconErr func(node int, call int) error
	// WireOpts, if set, returns extra core.Wire options for node i, applied before the async-retry
	// option (e.g. core.WithTracking with a recording tracker, as production wiring does).
	WireOpts func(node int) []core.WireOption
	// BeaconSetup, if set, is called with every freshly built node (its Beacon stub is complete, no
	// other component exists yet): a harness can install further beacon endpoints (simbeacon.Client.
	// ProposalFn) or wrap the existing ones (Beacon.AttData). nil = today's beacon stub.
	BeaconSetup func(n *Node)
	// WrapBeacon, if set, returns the eth2wrap.Client handed to every component of node n instead of
	// n.Beacon itself (e.g. a wrapper that adds the duties / validators / submission endpoints and the
	// production cache plumbing). Called after BeaconSetup.
	WrapBeacon func(n *Node) eth2wrap.Client
	// NewScheduler, if set, builds node n's scheduler (e.g. the real core/scheduler, started by the
	// hook) over the node's beacon client; nil = the triggering stub n.Sched.
	NewScheduler func(n *Node, eth2Cl eth2wrap.Client) core.Scheduler
	// NewBroadcaster, if set, builds node n's broadcaster (e.g. the real core/bcast submitting to the
	// node's beacon client); nil = the recording broadcaster.
	NewBroadcaster func(n *Node, eth2Cl eth2wrap.Client) core.Broadcaster
	// WithGraffiti makes every node's fetcher use a real (default-graffiti) GraffitiBuilder, which the
	// proposer path dereferences; false = nil builder as before (attester-only harnesses).
	WithGraffiti bool
}

// Node is one charon node.
type Node struct {
	Idx      int
	Tag      string
	C        *Cluster
	Ctx      context.Context
	Cancel   context.CancelFunc
	Host     *simnet.Host
	Beacon   *simbeacon.Client
	Cons     *qbftcons.Consensus
	DutyDB   *dutydb.MemDB
	VAPI     *validatorapi.Component
	ParSigDB *parsigdb.MemDB
	ParSigEx *parsigex.ParSigEx
	SigAgg   *sigagg.Aggregator
	AggSigDB core.AggSigDB
	Sched    *Sched
	Sniffed  []*pbv1.SniffedConsensusInstance
	calls    int
	Incarnation int
}

// Sched is the triggering scheduler stub (the real scheduler has its own check, C15).
type Sched struct {
	mu   sync.Mutex
	subs []func(context.Context, core.Duty, core.DutyDefinitionSet) error
	defs map[core.Duty]core.DutyDefinitionSet
}

func (s *Sched) SubscribeDuties(fn func(context.Context, core.Duty, core.DutyDefinitionSet) error) {
	s.subs = append(s.subs, fn)
}
func (s *Sched) SubscribeSlots(func(context.Context, core.Slot) error) {}
func (s *Sched) RegisterFetcherFetchOnly(func(context.Context, core.Duty, core.DutyDefinitionSet, string, eth2p0.Root) error) {
}
func (s *Sched) GetDutyDefinition(_ context.Context, d core.Duty) (core.DutyDefinitionSet, error) {
	s.mu.Lock()
	defer s.mu.Unlock()
	set, ok := s.defs[d]
	if !ok {
		return nil, core.ErrNotFound
	}
	return set.Clone()
}

// SetDef makes GetDutyDefinition resolve a duty without triggering it.
func (s *Sched) SetDef(d core.Duty, set core.DutyDefinitionSet) {
	s.mu.Lock()
	s.defs[d] = set
	s.mu.Unlock()
}

// Trigger resolves and triggers a duty like the scheduler does: one clone per subscriber.
func (s *Sched) Trigger(ctx context.Context, d core.Duty, set core.DutyDefinitionSet) {
	s.mu.Lock()
	s.defs[d] = set
	subs := s.subs
	s.mu.Unlock()
	for _, sub := range subs {
		clone, err := set.Clone()
		if err != nil {
			panic(err)
		}
		_ = sub(ctx, d, clone)
	}
}

type recorder struct {
	n *Node
}

func (r recorder) Broadcast(_ context.Context, duty core.Duty, set core.SignedDataSet) error {
	c := r.n.C
	// deterministic order
	var pks []core.PubKey
	for _, v := range c.Vals {
		if _, ok := set[v.CorePK]; ok {
			pks = append(pks, v.CorePK)
		}
	}
	for pk := range set {
		known := false
		for _, p := range pks {
			if p == pk {
				known = true
			}
		}
		if !known {
			pks = append(pks, pk)
		}
	}
	for _, pk := range pks {
		b := Broadcast{Node: r.n.Idx, Duty: duty, PubKey: pk, Data: set[pk], At: verifrt.Now()}
		c.mu.Lock()
		c.Broadcasts = append(c.Broadcasts, b)
		cb := c.OnBcast
		c.mu.Unlock()
		if cb != nil {
			cb(b)
		}
	}
	return nil
}

// Recorder returns node n's recording broadcaster (the one StartNode wires when NewBroadcaster is
// nil), so that a NewBroadcaster hook can put it in front of another broadcaster: Broadcasts and
// OnBcast then keep seeing every call.
func (c *Cluster) Recorder(n *Node) core.Broadcaster { return recorder{n} }

// P2PKey returns node i's deterministic p2p key.
func P2PKey(i int) *k1.PrivateKey {
	var b [32]byte
	for j := range b {
		b[j] = byte(0x17*(i+1) + 3*j)
	}
	return k1.PrivKeyFromBytes(b[:])
}

// New builds the cluster description (keys, validators, chain); nodes are started with StartNode.
func New(ctx context.Context, t *testing.T, cfg Config) *Cluster {
	c := &Cluster{T: t, Cfg: cfg, Ctx: ctx, Net: simnet.New(), AllShares: map[core.PubKey]map[int]tbls.PublicKey{}}
	c.Threshold = int(math.Ceil(float64(2*cfg.N) / 3))
	c.Chain = &simbeacon.Chain{
		GenesisTime:           time.Now().Add(-time.Duration(cfg.StartSlot) * cfg.SlotDuration),
		SlotDuration:          cfg.SlotDuration,
		SlotsPerEpoch:         cfg.SlotsPerEpoch,
		ForkVersion:           eth2p0.Version{0x00, 0x00, 0x10, 0x20},
		GenesisValidatorsRoot: eth2p0.Root{0x47, 0x11},
	}
	for i := 0; i < cfg.N; i++ {
		k := P2PKey(i)
		id, err := p2p.PeerIDFromKey(k.PubKey())
		if err != nil {
			panic(err)
		}
		c.Keys = append(c.Keys, k)
		c.PeerIDs = append(c.PeerIDs, id)
		c.Peers = append(c.Peers, p2p.Peer{ID: id, Index: i, Name: fmt.Sprintf("node%d", i)})
	}
	rd := &detReader{x: 0x5eed}
	for v := 0; v < cfg.Validators; v++ {
		secret, err := tbls.GenerateInsecureKey(t, rd)
		if err != nil {
			panic(err)
		}
		pub, _ := tbls.SecretToPublicKey(secret)
		shares, err := tbls.ThresholdSplitInsecure(t, secret, uint(cfg.N), uint(c.Threshold), rd)
		if err != nil {
			panic(err)
		}
		val := &Validator{Index: eth2p0.ValidatorIndex(100 + v), Secret: secret, PubKey: pub, Shares: shares, PubShares: map[int]tbls.PublicKey{},
			Committee: eth2p0.CommitteeIndex(1 + v%2), CommPos: uint64(v)}
		val.CorePK, _ = core.PubKeyFromBytes(pub[:])
		for idx, s := range shares {
			val.PubShares[idx], _ = tbls.SecretToPublicKey(s)
		}
		c.AllShares[val.CorePK] = val.PubShares
		c.Vals = append(c.Vals, val)
	}
	c.Nodes = make([]*Node, cfg.N)
	return c
}

// SlotStart is the simulated start time of a slot.
func (c *Cluster) SlotStart(slot uint64) time.Time {
	return c.Chain.GenesisTime.Add(time.Duration(slot) * c.Chain.SlotDuration)
}

// AttData is the attestation data of a beacon view for (slot, committee).
func (c *Cluster) AttData(view int, slot eth2p0.Slot, comm eth2p0.CommitteeIndex) *eth2p0.AttestationData {
	epoch := eth2p0.Epoch(uint64(slot) / c.Chain.SlotsPerEpoch)
	d := &eth2p0.AttestationData{
		Slot:            slot,
		Index:           comm,
		BeaconBlockRoot: eth2p0.Root{0xb0, byte(slot), byte(view)},
		Source:          &eth2p0.Checkpoint{Epoch: epoch - 1, Root: eth2p0.Root{0x50, byte(epoch)}},
		Target:          &eth2p0.Checkpoint{Epoch: epoch, Root: eth2p0.Root{0x70, byte(epoch)}},
	}
	if view >= 2 { // a view on another fork: other checkpoints as well
		d.Source.Root[2] = byte(view)
		d.Target.Root[2] = byte(view)
	}
	return d
}

// DefSet is the attester definition set of a slot for all cluster validators.
func (c *Cluster) DefSet(slot uint64) core.DutyDefinitionSet {
	set := core.DutyDefinitionSet{}
	for _, v := range c.Vals {
		pk := eth2p0.BLSPubKey(v.PubKey)
		set[v.CorePK] = core.NewAttesterDefinition(&eth2v1.AttesterDuty{
			PubKey: pk, Slot: eth2p0.Slot(slot), ValidatorIndex: v.Index, CommitteeIndex: v.Committee,
			CommitteeLength: 8, CommitteesAtSlot: 4, ValidatorCommitteeIndex: v.CommPos,
		})
	}
	return set
}

// StartNode constructs node i from scratch (a restart with amnesia is a second call) and starts it.
func (c *Cluster) StartNode(i int) *Node {
	inc := 0
	if old := c.Nodes[i]; old != nil {
		inc = old.Incarnation + 1
	}
	tag := fmt.Sprintf("n%d.%d", i, inc)
	prev := verifrt.Node()
	verifrt.SetNode(tag)
	defer verifrt.SetNode(prev)

	ctx, cancel := context.WithCancel(c.Ctx)
	n := &Node{Idx: i, Tag: tag, C: c, Ctx: ctx, Cancel: cancel, Incarnation: inc}
	n.Host = c.Net.NewHost(c.PeerIDs[i], tag)
	n.Beacon = &simbeacon.Client{Chain: c.Chain, Label: tag}
	n.Beacon.AttData = func(_ context.Context, slot eth2p0.Slot, comm eth2p0.CommitteeIndex) (*eth2p0.AttestationData, error) {
		n.calls++
		if c.BeaconErr != nil {
			if err := c.BeaconErr(i, n.calls); err != nil {
				verifrt.Fault("beacon-error")
				return nil, err
			}
		}
		view := 0
		if c.View != nil {
			view = c.View(i, uint64(slot))
		}
		return c.AttData(view, slot, comm), nil
	}
	n.Beacon.Vals = func() eth2wrap.ActiveValidators {
		m := eth2wrap.ActiveValidators{}
		for _, v := range c.Vals {
			m[v.Index] = eth2p0.BLSPubKey(v.PubKey)
		}
		return m
	}
	if c.BeaconSetup != nil {
		c.BeaconSetup(n)
	}
	var eth2Cl eth2wrap.Client = n.Beacon
	if c.WrapBeacon != nil {
		eth2Cl = c.WrapBeacon(n)
	}

	deadlineFunc, err := core.NewDutyDeadlineFunc(ctx, eth2Cl)
	must(err)
	deadliner := func(label string) core.Deadliner { return core.NewDeadliner(ctx, label, deadlineFunc) }
	gater, err := core.NewDutyGater(ctx, eth2Cl)
	must(err)

	sender := new(p2p.Sender)
	n.Cons, err = qbftcons.NewConsensus(ctx, eth2Cl, n.Host, sender, c.Peers, c.Keys[i], deadliner("consensus"), gater,
		func(s *pbv1.SniffedConsensusInstance) { c.mu.Lock(); n.Sniffed = append(n.Sniffed, s); c.mu.Unlock() }, c.Cfg.CompareAttestations)
	must(err)
	n.DutyDB = dutydb.NewMemDB(deadliner("dutydb"))
	n.VAPI, err = validatorapi.NewComponent(eth2Cl, c.AllShares, i+1, func(core.PubKey) string { return "0x0000000000000000000000000000000000000000" }, c.Cfg.BuilderAPI, 30000000)
	must(err)
	n.ParSigDB = parsigdb.NewMemDB(c.Threshold, deadliner("parsigdb"), parsigdb.NewMemDBMetadata(uint64(c.Chain.SlotDuration/time.Second), c.Chain.GenesisTime))
	verify, err := parsigex.NewEth2Verifier(eth2Cl, c.AllShares)
	must(err)
	n.ParSigEx = parsigex.NewParSigEx(n.Host, sender.SendAsync, i, c.PeerIDs, verify, gater)
	n.SigAgg, err = sigagg.New(c.Threshold, sigagg.NewVerifier(eth2Cl))
	must(err)
	if c.Cfg.AggSigDBV2 {
		n.AggSigDB = aggsigdb.NewMemDBV2(deadliner("aggsigdb"))
	} else {
		n.AggSigDB = aggsigdb.NewMemDB(deadliner("aggsigdb"))
	}
	var graffiti *fetcher.GraffitiBuilder
	if c.WithGraffiti {
		var pks []core.PubKey
		for _, v := range c.Vals {
			pks = append(pks, v.CorePK)
		}
		graffiti, err = fetcher.NewGraffitiBuilder(pks, nil, false, eth2Cl) // nil graffiti: the default one, no beacon call
		must(err)
	}
	fetch, err := fetcher.New(eth2Cl, func(core.PubKey) string { return "" }, c.Cfg.BuilderAPI, graffiti, eth2p0.Slot(math.MaxInt64), false)
	must(err)
	n.Sched = &Sched{defs: map[core.Duty]core.DutyDefinitionSet{}}

	// the production retryer with a deterministic backoff (the real one adds random jitter)
	retryer := retry.NewForT(c.T,
		func(ctx context.Context, d core.Duty) (context.Context, context.CancelFunc) {
			dl, ok := deadlineFunc(d)
			if !ok {
				return ctx, func() {}
			}
			return context.WithDeadline(ctx, dl)
		},
		func() func(int) *time.Timer {
			return func(i int) *time.Timer { return time.NewTimer(time.Duration(250*(i+1)) * time.Millisecond) }
		})
	var wireOpts []core.WireOption
	if c.WireOpts != nil {
		wireOpts = append(wireOpts, c.WireOpts(i)...)
	}
	wireOpts = append(wireOpts, core.WithAsyncRetry(retryer))
	var sched core.Scheduler = n.Sched
	if c.NewScheduler != nil {
		sched = c.NewScheduler(n, eth2Cl)
	}
	var bcaster core.Broadcaster = recorder{n}
	if c.NewBroadcaster != nil {
		bcaster = c.NewBroadcaster(n, eth2Cl)
	}
	core.Wire(sched, fetch, n.Cons, n.DutyDB, n.VAPI, n.ParSigDB, n.ParSigEx, n.SigAgg, n.AggSigDB, bcaster, wireOpts...)

	n.Cons.Start(ctx)
	verifrt.Go(func() { n.ParSigDB.Trim(ctx) })
	if r, ok := n.AggSigDB.(interface{ Run(context.Context) }); ok {
		verifrt.Go(func() { r.Run(ctx) })
	}
	done := ctx.Done()
	verifrt.Go(func() { verifrt.Recv(done); n.DutyDB.Shutdown() })
	c.Nodes[i] = n
	return n
}

func must(err error) {
	if err != nil {
		panic(err)
	}
}

// Crash stops node i at its current scheduling point: its goroutines never run again, inbound
// streams are refused.
func (c *Cluster) Crash(i int) {
	n := c.Nodes[i]
	n.Host.SetDown(true)
	verifrt.Crash(n.Tag)
}

// SignAttestation makes node i's validator client sign the attestation data for validator v.
func (c *Cluster) SignAttestation(share tbls.PrivateKey, v *Validator, data *eth2p0.AttestationData) *eth2spec.VersionedAttestation {
	root, err := data.HashTreeRoot()
	must(err)
	dom := simbeacon.ComputeDomain(simbeacon.DomainTypes["DOMAIN_BEACON_ATTESTER"], c.Chain.ForkVersion, c.Chain.GenesisValidatorsRoot)
	sr := simbeacon.SigningRoot(root, dom)
	sig, err := tbls.Sign(share, sr[:])
	must(err)
	bits := bitfield.NewBitlist(8)
	bits.SetBitAt(v.CommPos, true)
	return &eth2spec.VersionedAttestation{Version: eth2spec.DataVersionDeneb, Deneb: &eth2p0.Attestation{
		AggregationBits: bits, Data: data, Signature: eth2p0.BLSSignature(sig),
	}}
}

// RunVC is node i's validator client for one slot and validator: fetch the agreed attestation data
// from the node's validator API, sign it with the node's key share and submit it.
func (c *Cluster) RunVC(n *Node, slot uint64, v *Validator) error {
	resp, err := n.VAPI.AttestationData(n.Ctx, &eth2api.AttestationDataOpts{Slot: eth2p0.Slot(slot), CommitteeIndex: v.Committee})
	if err != nil {
		return err
	}
	att := c.SignAttestation(v.Shares[n.Idx+1], v, resp.Data)
	return n.VAPI.SubmitAttestations(n.Ctx, &eth2api.SubmitAttestationsOpts{Attestations: []*eth2spec.VersionedAttestation{att}})
}

// GroupPubKey converts a core pubkey.
func GroupPubKey(pk core.PubKey) tbls.PublicKey {
	p, err := tblsconv.PubkeyFromCore(pk)
	must(err)
	return p
}
