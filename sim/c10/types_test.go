//go:build verif

package c10

// Signed object types of the C10 enumeration. For every core.Eth2SignedData type the harness restates
// from the consensus specification (NOT from core/eth2signeddata.go):
//
//	type (duty)                                   domain                                  epoch rule                    signed object root
//	VersionedAttestation (attester)               DOMAIN_BEACON_ATTESTER                  data.target.epoch             hash_tree_root(AttestationData)
//	SignedRandao (randao)                         DOMAIN_RANDAO                           the revealed epoch            hash_tree_root(uint64 epoch)
//	SignedVoluntaryExit (exit)                    DOMAIN_VOLUNTARY_EXIT                   exit.epoch                    hash_tree_root(VoluntaryExit)
//	VersionedSignedValidatorRegistration (builder) DOMAIN_APPLICATION_BUILDER             genesis fork version, zero genesis_validators_root  hash_tree_root(ValidatorRegistration)
//	BeaconCommitteeSelection (prepare aggregator) DOMAIN_SELECTION_PROOF                  epoch(slot)                   hash_tree_root(uint64 slot)
//	SignedSyncMessage (sync message)              DOMAIN_SYNC_COMMITTEE                   epoch(slot)                   beacon_block_root
//	SyncCommitteeSelection (prepare sync contrib) DOMAIN_SYNC_COMMITTEE_SELECTION_PROOF   epoch(slot)                   hash_tree_root(SyncAggregatorSelectionData)
//	(Versioned)SignedAggregateAndProof (aggregator) DOMAIN_AGGREGATE_AND_PROOF            epoch(aggregate.data.slot)    hash_tree_root(AggregateAndProof)
//	SignedSyncContributionAndProof (sync contrib) DOMAIN_CONTRIBUTION_AND_PROOF           epoch(contribution.slot)      hash_tree_root(ContributionAndProof)
//	VersionedSignedProposal (proposer)            DOMAIN_BEACON_PROPOSER                  epoch(block.slot)             hash_tree_root(BeaconBlock)
//
// signing_root = hash_tree_root(SigningData{object_root, compute_domain(domain_type, fork_version_at(epoch), genesis_validators_root)}).

import (
	"context"
	"encoding/binary"
	"time"

	"github.com/OffchainLabs/go-bitfield"
	eth2api "github.com/attestantio/go-eth2-client/api"
	eth2v1 "github.com/attestantio/go-eth2-client/api/v1"
	eth2spec "github.com/attestantio/go-eth2-client/spec"
	"github.com/attestantio/go-eth2-client/spec/altair"
	"github.com/attestantio/go-eth2-client/spec/bellatrix"
	"github.com/attestantio/go-eth2-client/spec/capella"
	"github.com/attestantio/go-eth2-client/spec/electra"
	eth2p0 "github.com/attestantio/go-eth2-client/spec/phase0"

	"github.com/obolnetwork/charon/core"
	"github.com/obolnetwork/charon/tbls"

	"verifsim/cluster"
)

// field is one signed (or carried) field of an object and a mutation that changes its value.
type field struct {
	name string
	flip func()
}

// inst is one concrete, mutable object of a type together with the harness' restatement of how it is signed.
type inst struct {
	duty   core.Duty
	root   func() eth2p0.Root                            // signed object root (spec)
	epoch  func() eth2p0.Epoch                           // epoch whose fork version the domain uses (spec)
	wrap   func(sig eth2p0.BLSSignature) core.SignedData // the wire object carrying sig, from the current field values
	fields []field
	// setEpoch (nil = not expressible) rewrites, before signing, the field the spec derives the domain epoch
	// from when that field is independent of the duty's slot (attestation: data.target.epoch)
	setEpoch func(eth2p0.Epoch)

	// validator-client path (nil submit = the type has no VC submission endpoint)
	prep    func(n *cluster.Node) error                                               // dutydb / scheduler state the endpoint needs
	submit  func(ctx context.Context, n *cluster.Node, sig eth2p0.BLSSignature) error // the real validatorapi.Component call
	named   func() *cluster.Validator                                                 // validator the object names (how the endpoint resolves the key); nil = none of the cluster
	unknown func()                                                                    // make the object name a validator outside the cluster; nil = not expressible
	blocks  bool                                                                      // the endpoint blocks after admitting (needs a context timeout)
	// multi-entry submissions (nil = the endpoint takes one object): item is this object's entry carrying
	// sig, many submits several entries (of instances of the same type) in ONE validatorapi call
	item func(sig eth2p0.BLSSignature) any
	many func(ctx context.Context, n *cluster.Node, items []any) error
}

type params struct {
	v    *cluster.Validator
	slot uint64
	salt uint64
}

type typeSpec struct {
	name    string
	dt      core.DutyType
	domain  string
	genesis bool // builder domain: genesis fork version and zero genesis validators root
	json    bool // wire encoding is JSON (signature can be truncated on the wire)
	mk      func(e *env, p params) *inst
}

func rootOf(tag byte, a, b uint64) (r eth2p0.Root) {
	r[0] = tag
	binary.LittleEndian.PutUint64(r[1:], a)
	binary.LittleEndian.PutUint64(r[9:], b)
	for i := 17; i < 32; i++ {
		r[i] = byte(int(tag)*7 + i*13 + int(a) + int(b)*3)
	}
	return r
}

func bytesOf(tag byte, a, b uint64) []byte { r := rootOf(tag, a, b); return r[:] }

func sigOf(tag byte, a uint64) (s eth2p0.BLSSignature) {
	for i := range s {
		s[i] = byte(int(tag) + i*5 + int(a)*11 + 1)
	}
	return s
}

// htrUint64 is hash_tree_root of a uint64 basic value.
func htrUint64(x uint64) (r eth2p0.Root) {
	binary.LittleEndian.PutUint64(r[:8], x)
	return r
}

func must(err error) {
	if err != nil {
		panic(err)
	}
}

func (e *env) epochOf(slot eth2p0.Slot) eth2p0.Epoch {
	return eth2p0.Epoch(uint64(slot) / e.cl.Chain.SlotsPerEpoch)
}

func (e *env) valByIndex(idx eth2p0.ValidatorIndex) *cluster.Validator {
	for _, v := range e.cl.Vals {
		if v.Index == idx {
			return v
		}
	}
	return nil
}

func (e *env) attData(p params) *eth2p0.AttestationData {
	d := e.cl.AttData(0, eth2p0.Slot(p.slot), p.v.Committee)
	d.BeaconBlockRoot = rootOf(0xb0, p.slot, p.salt)
	return d
}

func attFields(d *eth2p0.AttestationData) []field {
	return []field{
		{"data.slot", func() { d.Slot++ }},
		{"data.index", func() { d.Index += 3 }},
		{"data.block_root", func() { d.BeaconBlockRoot[7] ^= 1 }},
		{"data.source.epoch", func() { d.Source.Epoch++ }},
		{"data.source.root", func() { d.Source.Root[31] ^= 0x80 }},
		{"data.target.epoch", func() { d.Target.Epoch++ }},
		{"data.target.root", func() { d.Target.Root[0] ^= 2 }},
	}
}

// prepAttester stores the slot's attester duty in the scheduler stub and the unsigned data in the DutyDB.
func (e *env) prepAttester(slot uint64) func(n *cluster.Node) error {
	return func(n *cluster.Node) error {
		duty := core.NewAttesterDuty(slot)
		n.Sched.SetDef(duty, e.cl.DefSet(slot))
		set := core.UnsignedDataSet{}
		for _, v := range e.cl.Vals {
			set[v.CorePK] = core.AttestationData{Data: *e.cl.AttData(0, eth2p0.Slot(slot), v.Committee), Duty: eth2v1.AttesterDuty{
				PubKey: eth2p0.BLSPubKey(v.PubKey), Slot: eth2p0.Slot(slot), ValidatorIndex: v.Index, CommitteeIndex: v.Committee,
				CommitteeLength: 8, CommitteesAtSlot: 4, ValidatorCommitteeIndex: v.CommPos}}
		}
		return n.DutyDB.Store(n.Ctx, duty, set)
	}
}

// attOf puts a phase0-format attestation into the field of the given (pre-Electra) version, or an
// electra-format attestation into the Electra / Fulu field.
func attOf(ver eth2spec.DataVersion, pre *eth2p0.Attestation, post *electra.Attestation, vidx *eth2p0.ValidatorIndex) *eth2spec.VersionedAttestation {
	va := &eth2spec.VersionedAttestation{Version: ver, ValidatorIndex: vidx}
	switch ver {
	case eth2spec.DataVersionPhase0:
		va.Phase0 = pre
	case eth2spec.DataVersionAltair:
		va.Altair = pre
	case eth2spec.DataVersionBellatrix:
		va.Bellatrix = pre
	case eth2spec.DataVersionCapella:
		va.Capella = pre
	case eth2spec.DataVersionDeneb:
		va.Deneb = pre
	case eth2spec.DataVersionElectra:
		va.Electra = post
	case eth2spec.DataVersionFulu:
		va.Fulu = post
	default:
		panic("c10 harness: attestation version")
	}
	return va
}

func submitAtts(in *inst, att func(sig eth2p0.BLSSignature) *eth2spec.VersionedAttestation) {
	in.wrap = func(sig eth2p0.BLSSignature) core.SignedData {
		a, err := core.NewVersionedAttestation(att(sig))
		must(err)
		return a
	}
	in.submit = func(ctx context.Context, n *cluster.Node, sig eth2p0.BLSSignature) error {
		return n.VAPI.SubmitAttestations(ctx, &eth2api.SubmitAttestationsOpts{Attestations: []*eth2spec.VersionedAttestation{att(sig)}})
	}
	in.item = func(sig eth2p0.BLSSignature) any { return att(sig) }
	in.many = func(ctx context.Context, n *cluster.Node, items []any) error {
		var l []*eth2spec.VersionedAttestation
		for _, it := range items {
			l = append(l, it.(*eth2spec.VersionedAttestation))
		}
		return n.VAPI.SubmitAttestations(ctx, &eth2api.SubmitAttestationsOpts{Attestations: l})
	}
}

// mkAttPre: the phase0 attestation format (Phase0, Altair, Bellatrix, Capella, Deneb fields of VersionedAttestation).
func mkAttPre(ver eth2spec.DataVersion) func(e *env, p params) *inst {
	return func(e *env, p params) *inst {
		d := e.attData(p)
		bits := bitfield.NewBitlist(8)
		bits.SetBitAt(p.v.CommPos, true)
		att := func(sig eth2p0.BLSSignature) *eth2spec.VersionedAttestation {
			return attOf(ver, &eth2p0.Attestation{AggregationBits: bits, Data: d, Signature: sig}, nil, nil)
		}
		in := &inst{duty: core.NewAttesterDuty(p.slot), fields: attFields(d)}
		in.root = func() eth2p0.Root { r, err := d.HashTreeRoot(); must(err); return r }
		in.epoch = func() eth2p0.Epoch { return d.Target.Epoch }
		in.setEpoch = func(ep eth2p0.Epoch) { d.Target.Epoch = ep }
		submitAtts(in, att)
		in.prep = e.prepAttester(p.slot)
		in.named = func() *cluster.Validator { // the endpoint resolves the validator by (slot, committee, position in committee)
			if uint64(d.Slot) != p.slot {
				return nil
			}
			for _, v := range e.cl.Vals {
				if v.Committee == d.Index && bits.BitAt(v.CommPos) && bits.Count() == 1 {
					return v
				}
			}
			return nil
		}
		in.unknown = func() { bits = bitfield.NewBitlist(8); bits.SetBitAt(6, true) }
		return in
	}
}

// mkAttPost: the electra attestation format (Electra, Fulu fields; the validator index travels beside the attestation).
func mkAttPost(ver eth2spec.DataVersion) func(e *env, p params) *inst {
	return func(e *env, p params) *inst {
		d := e.attData(p)
		d.Index = 0
		bits := bitfield.NewBitlist(8)
		bits.SetBitAt(p.v.CommPos, true)
		cbits := bitfield.NewBitvector64()
		cbits.SetBitAt(uint64(p.v.Committee), true)
		vidx := p.v.Index
		att := func(sig eth2p0.BLSSignature) *eth2spec.VersionedAttestation {
			vi := vidx
			return attOf(ver, nil, &electra.Attestation{AggregationBits: bits, Data: d, Signature: sig, CommitteeBits: cbits}, &vi)
		}
		in := &inst{duty: core.NewAttesterDuty(p.slot), fields: attFields(d)}
		in.root = func() eth2p0.Root { r, err := d.HashTreeRoot(); must(err); return r }
		in.epoch = func() eth2p0.Epoch { return d.Target.Epoch }
		in.setEpoch = func(ep eth2p0.Epoch) { d.Target.Epoch = ep }
		submitAtts(in, att)
		in.prep = e.prepAttester(p.slot)
		in.named = func() *cluster.Validator {
			if uint64(d.Slot) != p.slot {
				return nil
			}
			return e.valByIndex(vidx)
		}
		in.unknown = func() { vidx = 9999 }
		return in
	}
}

func (e *env) proposerDef(v *cluster.Validator, slot uint64) core.DutyDefinitionSet {
	return core.DutyDefinitionSet{v.CorePK: core.NewProposerDefinition(&eth2v1.ProposerDuty{PubKey: eth2p0.BLSPubKey(v.PubKey), Slot: eth2p0.Slot(slot), ValidatorIndex: v.Index})}
}

func mkRandao(e *env, p params) *inst {
	spe := e.cl.Chain.SlotsPerEpoch
	ep := e.epochOf(eth2p0.Slot(p.slot))
	vcSlot := p.slot
	in := &inst{duty: core.NewRandaoDuty(p.slot), blocks: true}
	in.fields = []field{{"epoch", func() { ep++; vcSlot += spe }}}
	in.root = func() eth2p0.Root { return htrUint64(uint64(ep)) }
	in.epoch = func() eth2p0.Epoch { return ep }
	in.wrap = func(sig eth2p0.BLSSignature) core.SignedData { return core.NewSignedRandao(ep, sig) }
	in.prep = func(n *cluster.Node) error {
		n.Sched.SetDef(core.NewProposerDuty(p.slot), e.proposerDef(p.v, p.slot))
		n.Sched.SetDef(core.NewProposerDuty(p.slot+spe), e.proposerDef(p.v, p.slot+spe))
		return nil
	}
	in.submit = func(ctx context.Context, n *cluster.Node, sig eth2p0.BLSSignature) error {
		_, err := n.VAPI.Proposal(ctx, &eth2api.ProposalOpts{Slot: eth2p0.Slot(vcSlot), RandaoReveal: sig})
		return err
	}
	in.named = func() *cluster.Validator { return p.v }
	return in
}

func mkExit(e *env, p params) *inst {
	spe := e.cl.Chain.SlotsPerEpoch
	x := &eth2p0.VoluntaryExit{Epoch: eth2p0.Epoch(p.slot / spe), ValidatorIndex: p.v.Index}
	in := &inst{duty: core.NewVoluntaryExit(p.slot / spe * spe)}
	in.fields = []field{{"epoch", func() { x.Epoch++ }}, {"validator_index", func() { x.ValidatorIndex += 5 }}}
	in.root = func() eth2p0.Root { r, err := x.HashTreeRoot(); must(err); return r }
	in.epoch = func() eth2p0.Epoch { return x.Epoch }
	signed := func(sig eth2p0.BLSSignature) *eth2p0.SignedVoluntaryExit {
		c := *x
		return &eth2p0.SignedVoluntaryExit{Message: &c, Signature: sig}
	}
	in.wrap = func(sig eth2p0.BLSSignature) core.SignedData { return core.NewSignedVoluntaryExit(signed(sig)) }
	in.submit = func(ctx context.Context, n *cluster.Node, sig eth2p0.BLSSignature) error {
		return n.VAPI.SubmitVoluntaryExit(ctx, signed(sig))
	}
	in.named = func() *cluster.Validator { return e.valByIndex(x.ValidatorIndex) }
	in.unknown = func() { x.ValidatorIndex = 9999 }
	return in
}

func mkRegistration(e *env, p params) *inst {
	r := &eth2v1.ValidatorRegistration{GasLimit: 30_000_000 + p.salt, Timestamp: time.Unix(1_700_000_000+int64(p.salt), 0), Pubkey: eth2p0.BLSPubKey(p.v.PubKey)}
	copy(r.FeeRecipient[:], bytesOf(0xfe, p.slot, p.salt)[:20])
	in := &inst{duty: core.NewBuilderRegistrationDuty(p.slot)}
	in.fields = []field{
		{"fee_recipient", func() { r.FeeRecipient[3] ^= 4 }},
		{"gas_limit", func() { r.GasLimit++ }},
		{"timestamp", func() { r.Timestamp = r.Timestamp.Add(time.Second) }},
		{"pubkey", func() { r.Pubkey[47] ^= 1 }},
	}
	in.root = func() eth2p0.Root { h, err := r.HashTreeRoot(); must(err); return h }
	in.epoch = func() eth2p0.Epoch { return 0 }
	in.wrap = func(sig eth2p0.BLSSignature) core.SignedData {
		c := *r
		w, err := core.NewVersionedSignedValidatorRegistration(&eth2api.VersionedSignedValidatorRegistration{Version: eth2spec.BuilderVersionV1,
			V1: &eth2v1.SignedValidatorRegistration{Message: &c, Signature: sig}})
		must(err)
		return w
	}
	return in
}

func mkBeaconSelection(e *env, p params) *inst {
	s := &eth2v1.BeaconCommitteeSelection{ValidatorIndex: p.v.Index, Slot: eth2p0.Slot(p.slot)}
	in := &inst{duty: core.NewPrepareAggregatorDuty(p.slot), blocks: true}
	in.fields = []field{{"slot", func() { s.Slot++ }}, {"validator_index", func() { s.ValidatorIndex += 5 }}}
	in.root = func() eth2p0.Root { return htrUint64(uint64(s.Slot)) }
	in.epoch = func() eth2p0.Epoch { return e.epochOf(s.Slot) }
	sel := func(sig eth2p0.BLSSignature) *eth2v1.BeaconCommitteeSelection {
		c := *s
		c.SelectionProof = sig
		return &c
	}
	in.wrap = func(sig eth2p0.BLSSignature) core.SignedData { return core.NewBeaconCommitteeSelection(sel(sig)) }
	in.submit = func(ctx context.Context, n *cluster.Node, sig eth2p0.BLSSignature) error {
		_, err := n.VAPI.BeaconCommitteeSelections(ctx, &eth2api.BeaconCommitteeSelectionsOpts{Selections: []*eth2v1.BeaconCommitteeSelection{sel(sig)}})
		return err
	}
	in.item = func(sig eth2p0.BLSSignature) any { return sel(sig) }
	in.many = func(ctx context.Context, n *cluster.Node, items []any) error {
		var l []*eth2v1.BeaconCommitteeSelection
		for _, it := range items {
			l = append(l, it.(*eth2v1.BeaconCommitteeSelection))
		}
		_, err := n.VAPI.BeaconCommitteeSelections(ctx, &eth2api.BeaconCommitteeSelectionsOpts{Selections: l})
		return err
	}
	in.named = func() *cluster.Validator { return e.valByIndex(s.ValidatorIndex) }
	in.unknown = func() { s.ValidatorIndex = 9999 }
	return in
}

func mkSyncMessage(e *env, p params) *inst {
	m := &altair.SyncCommitteeMessage{Slot: eth2p0.Slot(p.slot), BeaconBlockRoot: rootOf(0x5c, p.slot, p.salt), ValidatorIndex: p.v.Index}
	in := &inst{duty: core.NewSyncMessageDuty(p.slot)}
	in.fields = []field{{"slot", func() { m.Slot++ }}, {"beacon_block_root", func() { m.BeaconBlockRoot[9] ^= 8 }}, {"validator_index", func() { m.ValidatorIndex += 5 }}}
	in.root = func() eth2p0.Root { return m.BeaconBlockRoot }
	in.epoch = func() eth2p0.Epoch { return e.epochOf(m.Slot) }
	msg := func(sig eth2p0.BLSSignature) *altair.SyncCommitteeMessage { c := *m; c.Signature = sig; return &c }
	in.wrap = func(sig eth2p0.BLSSignature) core.SignedData { return core.NewSignedSyncMessage(msg(sig)) }
	in.submit = func(ctx context.Context, n *cluster.Node, sig eth2p0.BLSSignature) error {
		return n.VAPI.SubmitSyncCommitteeMessages(ctx, []*altair.SyncCommitteeMessage{msg(sig)})
	}
	in.item = func(sig eth2p0.BLSSignature) any { return msg(sig) }
	in.many = func(ctx context.Context, n *cluster.Node, items []any) error {
		var l []*altair.SyncCommitteeMessage
		for _, it := range items {
			l = append(l, it.(*altair.SyncCommitteeMessage))
		}
		return n.VAPI.SubmitSyncCommitteeMessages(ctx, l)
	}
	in.named = func() *cluster.Validator { return e.valByIndex(m.ValidatorIndex) }
	in.unknown = func() { m.ValidatorIndex = 9999 }
	return in
}

func syncSelRoot(slot eth2p0.Slot, sub uint64) eth2p0.Root {
	r, err := (&altair.SyncAggregatorSelectionData{Slot: slot, SubcommitteeIndex: sub}).HashTreeRoot()
	must(err)
	return r
}

func mkSyncSelection(e *env, p params) *inst {
	s := &eth2v1.SyncCommitteeSelection{ValidatorIndex: p.v.Index, Slot: eth2p0.Slot(p.slot), SubcommitteeIndex: p.salt % 4}
	in := &inst{duty: core.NewPrepareSyncContributionDuty(p.slot), blocks: true}
	in.fields = []field{{"slot", func() { s.Slot++ }}, {"subcommittee_index", func() { s.SubcommitteeIndex = (s.SubcommitteeIndex + 1) % 4 }}, {"validator_index", func() { s.ValidatorIndex += 5 }}}
	in.root = func() eth2p0.Root { return syncSelRoot(s.Slot, s.SubcommitteeIndex) }
	in.epoch = func() eth2p0.Epoch { return e.epochOf(s.Slot) }
	sel := func(sig eth2p0.BLSSignature) *eth2v1.SyncCommitteeSelection {
		c := *s
		c.SelectionProof = sig
		return &c
	}
	in.wrap = func(sig eth2p0.BLSSignature) core.SignedData { return core.NewSyncCommitteeSelection(sel(sig)) }
	in.submit = func(ctx context.Context, n *cluster.Node, sig eth2p0.BLSSignature) error {
		_, err := n.VAPI.SyncCommitteeSelections(ctx, &eth2api.SyncCommitteeSelectionsOpts{Selections: []*eth2v1.SyncCommitteeSelection{sel(sig)}})
		return err
	}
	in.item = func(sig eth2p0.BLSSignature) any { return sel(sig) }
	in.many = func(ctx context.Context, n *cluster.Node, items []any) error {
		var l []*eth2v1.SyncCommitteeSelection
		for _, it := range items {
			l = append(l, it.(*eth2v1.SyncCommitteeSelection))
		}
		_, err := n.VAPI.SyncCommitteeSelections(ctx, &eth2api.SyncCommitteeSelectionsOpts{Selections: l})
		return err
	}
	in.named = func() *cluster.Validator { return e.valByIndex(s.ValidatorIndex) }
	in.unknown = func() { s.ValidatorIndex = 9999 }
	return in
}

// groupSign signs with the validator's full (group) secret: inner selection proofs are complete signatures.
func (e *env) groupSign(v *cluster.Validator, domain string, ep eth2p0.Epoch, root eth2p0.Root) eth2p0.BLSSignature {
	sr := e.signingRoot(root, domain, e.versionAt(ep), e.cl.Chain.GenesisValidatorsRoot)
	sig, err := tbls.Sign(v.Secret, sr[:])
	must(err)
	return eth2p0.BLSSignature(sig)
}

// aggOf puts a signed aggregate-and-proof into the field of the given version.
func aggOf(ver eth2spec.DataVersion, pre *eth2p0.SignedAggregateAndProof, post *electra.SignedAggregateAndProof) *eth2spec.VersionedSignedAggregateAndProof {
	va := &eth2spec.VersionedSignedAggregateAndProof{Version: ver}
	switch ver {
	case eth2spec.DataVersionPhase0:
		va.Phase0 = pre
	case eth2spec.DataVersionAltair:
		va.Altair = pre
	case eth2spec.DataVersionBellatrix:
		va.Bellatrix = pre
	case eth2spec.DataVersionCapella:
		va.Capella = pre
	case eth2spec.DataVersionDeneb:
		va.Deneb = pre
	case eth2spec.DataVersionElectra:
		va.Electra = post
	case eth2spec.DataVersionFulu:
		va.Fulu = post
	default:
		panic("c10 harness: aggregate-and-proof version")
	}
	return va
}

func submitAggs(in *inst, ver func(sig eth2p0.BLSSignature) *eth2spec.VersionedSignedAggregateAndProof) {
	in.wrap = func(sig eth2p0.BLSSignature) core.SignedData {
		return core.NewVersionedSignedAggregateAndProof(ver(sig))
	}
	in.submit = func(ctx context.Context, n *cluster.Node, sig eth2p0.BLSSignature) error {
		return n.VAPI.SubmitAggregateAttestations(ctx, &eth2api.SubmitAggregateAttestationsOpts{SignedAggregateAndProofs: []*eth2spec.VersionedSignedAggregateAndProof{ver(sig)}})
	}
	in.item = func(sig eth2p0.BLSSignature) any { return ver(sig) }
	in.many = func(ctx context.Context, n *cluster.Node, items []any) error {
		var l []*eth2spec.VersionedSignedAggregateAndProof
		for _, it := range items {
			l = append(l, it.(*eth2spec.VersionedSignedAggregateAndProof))
		}
		return n.VAPI.SubmitAggregateAttestations(ctx, &eth2api.SubmitAggregateAttestationsOpts{SignedAggregateAndProofs: l})
	}
}

// mkAggProof: phase0-format aggregate-and-proof. legacy = the unversioned core.SignedAggregateAndProof (peer path
// only), otherwise the Phase0/Altair/Bellatrix/Capella/Deneb field of VersionedSignedAggregateAndProof.
func mkAggProof(legacy bool, version eth2spec.DataVersion) func(e *env, p params) *inst {
	return func(e *env, p params) *inst {
		d := e.attData(p)
		bits := bitfield.NewBitlist(8)
		bits.SetBitAt(p.v.CommPos, true)
		bits.SetBitAt(7, true)
		ap := &eth2p0.AggregateAndProof{AggregatorIndex: p.v.Index,
			Aggregate:      &eth2p0.Attestation{AggregationBits: bits, Data: d, Signature: sigOf(0xa6, p.salt)},
			SelectionProof: e.groupSign(p.v, "DOMAIN_SELECTION_PROOF", e.epochOf(d.Slot), htrUint64(uint64(d.Slot)))}
		in := &inst{duty: core.NewAggregatorDuty(p.slot)}
		in.fields = []field{
			{"aggregator_index", func() { ap.AggregatorIndex += 5 }},
			{"selection_proof", func() { ap.SelectionProof[40] ^= 1 }},
			{"agg.data.slot", func() { d.Slot++ }},
			{"agg.data.block_root", func() { d.BeaconBlockRoot[2] ^= 1 }},
			{"agg.data.target_root", func() { d.Target.Root[4] ^= 1 }},
			{"agg.bits", func() { bits.SetBitAt(3, true) }},
			{"agg.signature", func() { ap.Aggregate.Signature[0] ^= 1 }},
		}
		in.root = func() eth2p0.Root { r, err := ap.HashTreeRoot(); must(err); return r }
		in.epoch = func() eth2p0.Epoch { return e.epochOf(d.Slot) }
		signed := func(sig eth2p0.BLSSignature) *eth2p0.SignedAggregateAndProof {
			return &eth2p0.SignedAggregateAndProof{Message: ap, Signature: sig}
		}
		if legacy {
			in.wrap = func(sig eth2p0.BLSSignature) core.SignedData { return core.NewSignedAggregateAndProof(signed(sig)) }
			return in
		}
		submitAggs(in, func(sig eth2p0.BLSSignature) *eth2spec.VersionedSignedAggregateAndProof {
			return aggOf(version, signed(sig), nil)
		})
		in.named = func() *cluster.Validator { return e.valByIndex(ap.AggregatorIndex) }
		in.unknown = func() { ap.AggregatorIndex = 9999 }
		return in
	}
}

// mkAggPost: electra-format aggregate-and-proof (electra.AggregateAndProof around an electra.Attestation with
// committee bits; Electra and Fulu fields). signed object root = hash_tree_root(electra.AggregateAndProof).
func mkAggPost(version eth2spec.DataVersion) func(e *env, p params) *inst {
	return func(e *env, p params) *inst {
		d := e.attData(p)
		d.Index = 0
		bits := bitfield.NewBitlist(8)
		bits.SetBitAt(p.v.CommPos, true)
		bits.SetBitAt(7, true)
		cbits := bitfield.NewBitvector64()
		cbits.SetBitAt(uint64(p.v.Committee), true)
		ap := &electra.AggregateAndProof{AggregatorIndex: p.v.Index,
			Aggregate:      &electra.Attestation{AggregationBits: bits, Data: d, Signature: sigOf(0xa8, p.salt), CommitteeBits: cbits},
			SelectionProof: e.groupSign(p.v, "DOMAIN_SELECTION_PROOF", e.epochOf(d.Slot), htrUint64(uint64(d.Slot)))}
		in := &inst{duty: core.NewAggregatorDuty(p.slot)}
		in.fields = []field{
			{"aggregator_index", func() { ap.AggregatorIndex += 5 }},
			{"selection_proof", func() { ap.SelectionProof[40] ^= 1 }},
			{"agg.data.slot", func() { d.Slot++ }},
			{"agg.data.block_root", func() { d.BeaconBlockRoot[2] ^= 1 }},
			{"agg.data.target_root", func() { d.Target.Root[4] ^= 1 }},
			{"agg.bits", func() { bits.SetBitAt(3, true) }},
			{"agg.committee_bits", func() { cbits.SetBitAt(uint64(p.v.Committee)+9, true) }},
			{"agg.signature", func() { ap.Aggregate.Signature[0] ^= 1 }},
		}
		in.root = func() eth2p0.Root { r, err := ap.HashTreeRoot(); must(err); return r }
		in.epoch = func() eth2p0.Epoch { return e.epochOf(d.Slot) }
		submitAggs(in, func(sig eth2p0.BLSSignature) *eth2spec.VersionedSignedAggregateAndProof {
			return aggOf(version, nil, &electra.SignedAggregateAndProof{Message: ap, Signature: sig})
		})
		in.named = func() *cluster.Validator { return e.valByIndex(ap.AggregatorIndex) }
		in.unknown = func() { ap.AggregatorIndex = 9999 }
		return in
	}
}

func mkContribution(e *env, p params) *inst {
	c := &altair.SyncCommitteeContribution{Slot: eth2p0.Slot(p.slot), BeaconBlockRoot: rootOf(0xcb, p.slot, p.salt), SubcommitteeIndex: p.salt % 4,
		AggregationBits: bitfield.NewBitvector128(), Signature: sigOf(0xc5, p.salt)}
	c.AggregationBits.SetBitAt(p.salt%128, true)
	cp := &altair.ContributionAndProof{AggregatorIndex: p.v.Index, Contribution: c,
		SelectionProof: e.groupSign(p.v, "DOMAIN_SYNC_COMMITTEE_SELECTION_PROOF", e.epochOf(c.Slot), syncSelRoot(c.Slot, c.SubcommitteeIndex))}
	in := &inst{duty: core.NewSyncContributionDuty(p.slot)}
	in.fields = []field{
		{"aggregator_index", func() { cp.AggregatorIndex += 5 }},
		{"selection_proof", func() { cp.SelectionProof[17] ^= 1 }},
		{"contrib.slot", func() { c.Slot++ }},
		{"contrib.block_root", func() { c.BeaconBlockRoot[30] ^= 1 }},
		{"contrib.subcommittee", func() { c.SubcommitteeIndex = (c.SubcommitteeIndex + 1) % 4 }},
		{"contrib.bits", func() { c.AggregationBits.SetBitAt((p.salt+1)%128, true) }},
		{"contrib.signature", func() { c.Signature[95] ^= 1 }},
	}
	in.root = func() eth2p0.Root { r, err := cp.HashTreeRoot(); must(err); return r }
	in.epoch = func() eth2p0.Epoch { return e.epochOf(c.Slot) }
	signed := func(sig eth2p0.BLSSignature) *altair.SignedContributionAndProof {
		return &altair.SignedContributionAndProof{Message: cp, Signature: sig}
	}
	in.wrap = func(sig eth2p0.BLSSignature) core.SignedData {
		return core.NewSignedSyncContributionAndProof(signed(sig))
	}
	in.submit = func(ctx context.Context, n *cluster.Node, sig eth2p0.BLSSignature) error {
		return n.VAPI.SubmitSyncCommitteeContributions(ctx, []*altair.SignedContributionAndProof{signed(sig)})
	}
	in.item = func(sig eth2p0.BLSSignature) any { return signed(sig) }
	in.many = func(ctx context.Context, n *cluster.Node, items []any) error {
		var l []*altair.SignedContributionAndProof
		for _, it := range items {
			l = append(l, it.(*altair.SignedContributionAndProof))
		}
		return n.VAPI.SubmitSyncCommitteeContributions(ctx, l)
	}
	in.named = func() *cluster.Validator { return e.valByIndex(cp.AggregatorIndex) }
	in.unknown = func() { cp.AggregatorIndex = 9999 }
	return in
}

// capellaBlock is a complete Capella beacon block whose every byte is a function of (slot, salt, validator).
func capellaBlock(p params) *capella.BeaconBlock {
	ep := &capella.ExecutionPayload{ParentHash: eth2p0.Hash32(rootOf(0xe1, p.slot, p.salt)), StateRoot: rootOf(0xe2, p.slot, p.salt), ReceiptsRoot: rootOf(0xe3, p.slot, p.salt),
		PrevRandao: rootOf(0xe4, p.slot, p.salt), BlockNumber: p.slot, GasLimit: 30_000_000, GasUsed: p.salt, Timestamp: 1_700_000_000 + p.slot*12,
		ExtraData: []byte{0xc1, 0x0, byte(p.salt)}, BaseFeePerGas: rootOf(0xe5, 7, p.salt), BlockHash: eth2p0.Hash32(rootOf(0xe6, p.slot, p.salt)),
		Transactions: []bellatrix.Transaction{{0x02, byte(p.salt), 0x01}},
		Withdrawals:  []*capella.Withdrawal{{Index: capella.WithdrawalIndex(p.salt), ValidatorIndex: p.v.Index, Amount: 1}}}
	copy(ep.FeeRecipient[:], bytesOf(0xe7, p.slot, p.salt)[:20])
	sa := &altair.SyncAggregate{SyncCommitteeBits: bitfield.NewBitvector512(), SyncCommitteeSignature: sigOf(0x5a, p.salt)}
	sa.SyncCommitteeBits.SetBitAt(p.salt%512, true)
	bits := bitfield.NewBitlist(8)
	bits.SetBitAt(1, true)
	return &capella.BeaconBlock{Slot: eth2p0.Slot(p.slot), ProposerIndex: p.v.Index, ParentRoot: rootOf(0xb1, p.slot, p.salt), StateRoot: rootOf(0xb2, p.slot, p.salt),
		Body: &capella.BeaconBlockBody{RANDAOReveal: sigOf(0x4a, p.salt), ETH1Data: &eth2p0.ETH1Data{DepositRoot: rootOf(0xd0, 1, p.salt), DepositCount: 3, BlockHash: bytesOf(0xd1, 2, p.salt)},
			Graffiti: rootOf(0x67, p.slot, p.salt), ProposerSlashings: []*eth2p0.ProposerSlashing{}, AttesterSlashings: []*eth2p0.AttesterSlashing{},
			Attestations: []*eth2p0.Attestation{{AggregationBits: bits, Data: &eth2p0.AttestationData{Slot: eth2p0.Slot(p.slot - 1), Index: 1, BeaconBlockRoot: rootOf(0xb3, p.slot, p.salt),
				Source: &eth2p0.Checkpoint{Epoch: 1, Root: rootOf(0xb4, 1, 1)}, Target: &eth2p0.Checkpoint{Epoch: 2, Root: rootOf(0xb5, 2, 2)}}, Signature: sigOf(0xa7, p.salt)}},
			Deposits: []*eth2p0.Deposit{}, VoluntaryExits: []*eth2p0.SignedVoluntaryExit{}, SyncAggregate: sa, ExecutionPayload: ep,
			BLSToExecutionChanges: []*capella.SignedBLSToExecutionChange{}}}
}

func mkProposalCapella(e *env, p params) *inst {
	b := capellaBlock(p)
	in := &inst{duty: core.NewProposerDuty(p.slot)}
	in.fields = []field{
		{"slot", func() { b.Slot++ }},
		{"proposer_index", func() { b.ProposerIndex += 5 }},
		{"parent_root", func() { b.ParentRoot[11] ^= 1 }},
		{"state_root", func() { b.StateRoot[12] ^= 1 }},
		{"body.graffiti", func() { b.Body.Graffiti[13] ^= 1 }},
		{"body.randao_reveal", func() { b.Body.RANDAOReveal[14] ^= 1 }},
		{"body.exec.block_hash", func() { b.Body.ExecutionPayload.BlockHash[15] ^= 1 }},
		{"body.exec.txs", func() { b.Body.ExecutionPayload.Transactions[0][1] ^= 1 }},
	}
	in.root = func() eth2p0.Root { r, err := b.HashTreeRoot(); must(err); return r }
	in.epoch = func() eth2p0.Epoch { return e.epochOf(b.Slot) }
	signed := func(sig eth2p0.BLSSignature) *eth2api.VersionedSignedProposal {
		return &eth2api.VersionedSignedProposal{Version: eth2spec.DataVersionCapella, Capella: &capella.SignedBeaconBlock{Message: b, Signature: sig}}
	}
	in.wrap = func(sig eth2p0.BLSSignature) core.SignedData {
		w, err := core.NewVersionedSignedProposal(signed(sig))
		must(err)
		return w
	}
	in.prep = func(n *cluster.Node) error { // the agreed unsigned block is in the DutyDB (stored as a clone, before any alteration)
		duty := core.NewProposerDuty(p.slot)
		n.Sched.SetDef(duty, e.proposerDef(p.v, p.slot))
		up, err := core.NewVersionedProposal(&eth2api.VersionedProposal{Version: eth2spec.DataVersionCapella, Capella: b})
		if err != nil {
			return err
		}
		return n.DutyDB.Store(n.Ctx, duty, core.UnsignedDataSet{p.v.CorePK: up})
	}
	in.submit = func(ctx context.Context, n *cluster.Node, sig eth2p0.BLSSignature) error {
		return n.VAPI.SubmitProposal(ctx, &eth2api.SubmitProposalOpts{Proposal: signed(sig)})
	}
	in.named = func() *cluster.Validator { return p.v }
	return in
}

var allTypes = []*typeSpec{
	{name: "att-deneb", dt: core.DutyAttester, domain: "DOMAIN_BEACON_ATTESTER", mk: mkAttPre(eth2spec.DataVersionDeneb)},
	{name: "att-electra", dt: core.DutyAttester, domain: "DOMAIN_BEACON_ATTESTER", mk: mkAttPost(eth2spec.DataVersionElectra)},
	{name: "randao", dt: core.DutyRandao, domain: "DOMAIN_RANDAO", json: true, mk: mkRandao},
	{name: "exit", dt: core.DutyExit, domain: "DOMAIN_VOLUNTARY_EXIT", json: true, mk: mkExit},
	{name: "registration", dt: core.DutyBuilderRegistration, domain: "DOMAIN_APPLICATION_BUILDER", genesis: true, json: true, mk: mkRegistration},
	{name: "beacon-selection", dt: core.DutyPrepareAggregator, domain: "DOMAIN_SELECTION_PROOF", json: true, mk: mkBeaconSelection},
	{name: "sync-message", dt: core.DutySyncMessage, domain: "DOMAIN_SYNC_COMMITTEE", mk: mkSyncMessage},
	{name: "sync-selection", dt: core.DutyPrepareSyncContribution, domain: "DOMAIN_SYNC_COMMITTEE_SELECTION_PROOF", json: true, mk: mkSyncSelection},
	{name: "aggproof-deneb", dt: core.DutyAggregator, domain: "DOMAIN_AGGREGATE_AND_PROOF", mk: mkAggProof(false, eth2spec.DataVersionDeneb)},
	{name: "aggproof-legacy", dt: core.DutyAggregator, domain: "DOMAIN_AGGREGATE_AND_PROOF", mk: mkAggProof(true, 0)},
	{name: "contribution", dt: core.DutySyncContribution, domain: "DOMAIN_CONTRIBUTION_AND_PROOF", mk: mkContribution},
	{name: "proposal-capella", dt: core.DutyProposer, domain: "DOMAIN_BEACON_PROPOSER", mk: mkProposalCapella},
}
