//go:build verif

package c10

// Version variants of the signed object types (beyond the one version per type in allTypes). A run enumerates
// allTypes plus ONE seeded variant of each family below (chooseVariants). The signing rules are restated from the
// consensus specification exactly as for allTypes:
//
//	type (duty)                                             domain                     epoch rule                  signed object root
//	VersionedAttestation, any version (attester)            DOMAIN_BEACON_ATTESTER     data.target.epoch           hash_tree_root(AttestationData)
//	VersionedSignedAggregateAndProof pre-Electra (aggregator) DOMAIN_AGGREGATE_AND_PROOF epoch(aggregate.data.slot)  hash_tree_root(phase0 AggregateAndProof)
//	VersionedSignedAggregateAndProof Electra/Fulu (aggregator) DOMAIN_AGGREGATE_AND_PROOF epoch(aggregate.data.slot) hash_tree_root(electra AggregateAndProof)
//	VersionedSignedProposal, full block / block contents (proposer) DOMAIN_BEACON_PROPOSER epoch(block.slot)       hash_tree_root(BeaconBlock) - NOT of the contents wrapper: KZG proofs and blobs are unsigned
//	VersionedSignedProposal, blinded block (proposer)       DOMAIN_BEACON_PROPOSER     epoch(block.slot)           hash_tree_root(BlindedBeaconBlock)
//
// Neither validatorapi.SubmitProposal nor SubmitBlindedProposal looks at the node's builder mode
// (Component.builderEnabled is only read by the HTTP router's proposeBlockV3), so full and blinded proposals are
// enumerated in the same cluster configuration.

import (
	"context"

	"github.com/OffchainLabs/go-bitfield"
	eth2api "github.com/attestantio/go-eth2-client/api"
	apiv1bellatrix "github.com/attestantio/go-eth2-client/api/v1/bellatrix"
	apiv1capella "github.com/attestantio/go-eth2-client/api/v1/capella"
	apiv1deneb "github.com/attestantio/go-eth2-client/api/v1/deneb"
	apiv1electra "github.com/attestantio/go-eth2-client/api/v1/electra"
	apiv1fulu "github.com/attestantio/go-eth2-client/api/v1/fulu"
	eth2spec "github.com/attestantio/go-eth2-client/spec"
	"github.com/attestantio/go-eth2-client/spec/bellatrix"
	"github.com/attestantio/go-eth2-client/spec/capella"
	"github.com/attestantio/go-eth2-client/spec/deneb"
	"github.com/attestantio/go-eth2-client/spec/electra"
	eth2p0 "github.com/attestantio/go-eth2-client/spec/phase0"
	"github.com/holiman/uint256"

	"github.com/obolnetwork/charon/core"
	"github.com/obolnetwork/charon/verifrt"

	"verifsim/cluster"
)

func bytes48(tag byte, a, b uint64) (out [48]byte) {
	r1, r2 := rootOf(tag, a, b), rootOf(tag+1, b, a)
	copy(out[:32], r1[:])
	copy(out[32:], r2[:16])
	return out
}

// ---- deterministic blocks of the other versions, all derived from capellaBlock(p) ------------------------

func bellatrixBlock(p params) *bellatrix.BeaconBlock {
	c := capellaBlock(p)
	cb, cp := c.Body, c.Body.ExecutionPayload
	ep := &bellatrix.ExecutionPayload{ParentHash: cp.ParentHash, FeeRecipient: cp.FeeRecipient, StateRoot: cp.StateRoot, ReceiptsRoot: cp.ReceiptsRoot,
		LogsBloom: cp.LogsBloom, PrevRandao: cp.PrevRandao, BlockNumber: cp.BlockNumber, GasLimit: cp.GasLimit, GasUsed: cp.GasUsed, Timestamp: cp.Timestamp,
		ExtraData: cp.ExtraData, BaseFeePerGas: cp.BaseFeePerGas, BlockHash: cp.BlockHash, Transactions: cp.Transactions}
	return &bellatrix.BeaconBlock{Slot: c.Slot, ProposerIndex: c.ProposerIndex, ParentRoot: c.ParentRoot, StateRoot: c.StateRoot,
		Body: &bellatrix.BeaconBlockBody{RANDAOReveal: cb.RANDAOReveal, ETH1Data: cb.ETH1Data, Graffiti: cb.Graffiti, ProposerSlashings: cb.ProposerSlashings,
			AttesterSlashings: cb.AttesterSlashings, Attestations: cb.Attestations, Deposits: cb.Deposits, VoluntaryExits: cb.VoluntaryExits,
			SyncAggregate: cb.SyncAggregate, ExecutionPayload: ep}}
}

func denebPayload(p params, cp *capella.ExecutionPayload) *deneb.ExecutionPayload {
	return &deneb.ExecutionPayload{ParentHash: cp.ParentHash, FeeRecipient: cp.FeeRecipient, StateRoot: cp.StateRoot, ReceiptsRoot: cp.ReceiptsRoot,
		LogsBloom: cp.LogsBloom, PrevRandao: cp.PrevRandao, BlockNumber: cp.BlockNumber, GasLimit: cp.GasLimit, GasUsed: cp.GasUsed, Timestamp: cp.Timestamp,
		ExtraData: cp.ExtraData, BaseFeePerGas: uint256.NewInt(7 + p.salt), BlockHash: cp.BlockHash, Transactions: cp.Transactions, Withdrawals: cp.Withdrawals,
		BlobGasUsed: 131072, ExcessBlobGas: p.salt}
}

func denebBlock(p params) *deneb.BeaconBlock {
	c := capellaBlock(p)
	cb := c.Body
	return &deneb.BeaconBlock{Slot: c.Slot, ProposerIndex: c.ProposerIndex, ParentRoot: c.ParentRoot, StateRoot: c.StateRoot,
		Body: &deneb.BeaconBlockBody{RANDAOReveal: cb.RANDAOReveal, ETH1Data: cb.ETH1Data, Graffiti: cb.Graffiti, ProposerSlashings: cb.ProposerSlashings,
			AttesterSlashings: cb.AttesterSlashings, Attestations: cb.Attestations, Deposits: cb.Deposits, VoluntaryExits: cb.VoluntaryExits,
			SyncAggregate: cb.SyncAggregate, ExecutionPayload: denebPayload(p, cb.ExecutionPayload), BLSToExecutionChanges: cb.BLSToExecutionChanges,
			BlobKZGCommitments: []deneb.KZGCommitment{deneb.KZGCommitment(bytes48(0xc0, p.slot, p.salt))}}}
}

func electraAtts(p params) []*electra.Attestation {
	bits := bitfield.NewBitlist(8)
	bits.SetBitAt(1, true)
	cbits := bitfield.NewBitvector64()
	cbits.SetBitAt(1, true)
	return []*electra.Attestation{{AggregationBits: bits, CommitteeBits: cbits, Signature: sigOf(0xa9, p.salt),
		Data: &eth2p0.AttestationData{Slot: eth2p0.Slot(p.slot - 1), Index: 0, BeaconBlockRoot: rootOf(0xb3, p.slot, p.salt),
			Source: &eth2p0.Checkpoint{Epoch: 1, Root: rootOf(0xb4, 1, 1)}, Target: &eth2p0.Checkpoint{Epoch: 2, Root: rootOf(0xb5, 2, 2)}}}}
}

func electraRequests(p params) *electra.ExecutionRequests {
	w := &electra.WithdrawalRequest{ValidatorPubkey: eth2p0.BLSPubKey(p.v.PubKey), Amount: eth2p0.Gwei(1_000_000 + p.salt)}
	copy(w.SourceAddress[:], bytesOf(0xea, p.slot, p.salt)[:20])
	return &electra.ExecutionRequests{Deposits: []*electra.DepositRequest{}, Withdrawals: []*electra.WithdrawalRequest{w}, Consolidations: []*electra.ConsolidationRequest{}}
}

// electraBlock is also the block of Fulu block contents (fulu.SignedBlockContents wraps an electra.SignedBeaconBlock).
func electraBlock(p params) *electra.BeaconBlock {
	d := denebBlock(p)
	db := d.Body
	return &electra.BeaconBlock{Slot: d.Slot, ProposerIndex: d.ProposerIndex, ParentRoot: d.ParentRoot, StateRoot: d.StateRoot,
		Body: &electra.BeaconBlockBody{RANDAOReveal: db.RANDAOReveal, ETH1Data: db.ETH1Data, Graffiti: db.Graffiti, ProposerSlashings: db.ProposerSlashings,
			AttesterSlashings: []*electra.AttesterSlashing{}, Attestations: electraAtts(p), Deposits: db.Deposits, VoluntaryExits: db.VoluntaryExits,
			SyncAggregate: db.SyncAggregate, ExecutionPayload: db.ExecutionPayload, BLSToExecutionChanges: db.BLSToExecutionChanges,
			BlobKZGCommitments: db.BlobKZGCommitments, ExecutionRequests: electraRequests(p)}}
}

// sidecars: one KZG proof and one (sparse) blob beside the block; they are not part of the signed block.
func sidecars(p params) ([]deneb.KZGProof, []deneb.Blob) {
	proofs, blobs := []deneb.KZGProof{deneb.KZGProof(bytes48(0xd4, p.slot, p.salt))}, make([]deneb.Blob, 1)
	copy(blobs[0][:], bytesOf(0xbb, p.slot, p.salt))
	blobs[0][len(blobs[0])-1] = byte(p.salt + 1)
	return proofs, blobs
}

// the execution payload headers of the blinded blocks: the builder's payload (another one than the local payload)
func bellatrixHeader(p params) *bellatrix.ExecutionPayloadHeader {
	h := &bellatrix.ExecutionPayloadHeader{ParentHash: eth2p0.Hash32(rootOf(0xe1, p.slot, p.salt)), StateRoot: rootOf(0xf2, p.slot, p.salt), ReceiptsRoot: rootOf(0xf3, p.slot, p.salt),
		PrevRandao: rootOf(0xe4, p.slot, p.salt), BlockNumber: p.slot, GasLimit: 30_000_000, GasUsed: 21_000 + p.salt, Timestamp: 1_700_000_000 + p.slot*12,
		ExtraData: []byte{0xb1, 0x1d, byte(p.salt)}, BaseFeePerGas: rootOf(0xf5, 7, p.salt), BlockHash: eth2p0.Hash32(rootOf(0xf6, p.slot, p.salt)),
		TransactionsRoot: rootOf(0xf8, p.slot, p.salt)}
	copy(h.FeeRecipient[:], bytesOf(0xf7, 0, 0)[:20])
	return h
}

func capellaHeader(p params) *capella.ExecutionPayloadHeader {
	b := bellatrixHeader(p)
	return &capella.ExecutionPayloadHeader{ParentHash: b.ParentHash, FeeRecipient: b.FeeRecipient, StateRoot: b.StateRoot, ReceiptsRoot: b.ReceiptsRoot, LogsBloom: b.LogsBloom,
		PrevRandao: b.PrevRandao, BlockNumber: b.BlockNumber, GasLimit: b.GasLimit, GasUsed: b.GasUsed, Timestamp: b.Timestamp, ExtraData: b.ExtraData,
		BaseFeePerGas: b.BaseFeePerGas, BlockHash: b.BlockHash, TransactionsRoot: b.TransactionsRoot, WithdrawalsRoot: rootOf(0xf9, p.slot, p.salt)}
}

func denebHeader(p params) *deneb.ExecutionPayloadHeader {
	b := capellaHeader(p)
	return &deneb.ExecutionPayloadHeader{ParentHash: b.ParentHash, FeeRecipient: b.FeeRecipient, StateRoot: b.StateRoot, ReceiptsRoot: b.ReceiptsRoot, LogsBloom: b.LogsBloom,
		PrevRandao: b.PrevRandao, BlockNumber: b.BlockNumber, GasLimit: b.GasLimit, GasUsed: b.GasUsed, Timestamp: b.Timestamp, ExtraData: b.ExtraData,
		BaseFeePerGas: uint256.NewInt(9 + p.salt), BlockHash: b.BlockHash, TransactionsRoot: b.TransactionsRoot, WithdrawalsRoot: b.WithdrawalsRoot,
		BlobGasUsed: 131072, ExcessBlobGas: p.salt}
}

// ---- proposals ---------------------------------------------------------------------------------------------

// blockHead points at the four header fields every block version has.
type blockHead struct {
	slot     *eth2p0.Slot
	proposer *eth2p0.ValidatorIndex
	parent   *eth2p0.Root
	state    *eth2p0.Root
}

// mkProposal assembles the instance of a proposer-duty object: root is hash_tree_root of the (blinded) beacon
// block, signed builds the versioned signed proposal around the current block, unsigned the matching agreed
// unsigned proposal the DutyDB holds. blinded objects go through SubmitBlindedProposal.
func mkProposal(e *env, p params, h blockHead, root func() ([32]byte, error), fields []field,
	signed func(sig eth2p0.BLSSignature) *eth2api.VersionedSignedProposal, unsigned func() *eth2api.VersionedProposal) *inst {
	in := &inst{duty: core.NewProposerDuty(p.slot)}
	in.fields = append([]field{
		{"slot", func() { *h.slot++ }},
		{"proposer_index", func() { *h.proposer += 5 }},
		{"parent_root", func() { h.parent[11] ^= 1 }},
		{"state_root", func() { h.state[12] ^= 1 }},
	}, fields...)
	in.root = func() eth2p0.Root { r, err := root(); must(err); return r }
	in.epoch = func() eth2p0.Epoch { return e.epochOf(*h.slot) }
	blinded := signed(eth2p0.BLSSignature{}).Blinded
	toBlinded := func(sp *eth2api.VersionedSignedProposal) *eth2api.VersionedSignedBlindedProposal {
		return &eth2api.VersionedSignedBlindedProposal{Version: sp.Version, Bellatrix: sp.BellatrixBlinded, Capella: sp.CapellaBlinded,
			Deneb: sp.DenebBlinded, Electra: sp.ElectraBlinded, Fulu: sp.FuluBlinded}
	}
	in.wrap = func(sig eth2p0.BLSSignature) core.SignedData {
		if blinded {
			w, err := core.NewVersionedSignedProposalFromBlindedProposal(toBlinded(signed(sig)))
			must(err)
			return w
		}
		w, err := core.NewVersionedSignedProposal(signed(sig))
		must(err)
		return w
	}
	in.prep = func(n *cluster.Node) error { // the agreed unsigned block is in the DutyDB (stored as a clone, before any alteration)
		duty := core.NewProposerDuty(p.slot)
		n.Sched.SetDef(duty, e.proposerDef(p.v, p.slot))
		up, err := core.NewVersionedProposal(unsigned())
		if err != nil {
			return err
		}
		return n.DutyDB.Store(n.Ctx, duty, core.UnsignedDataSet{p.v.CorePK: up})
	}
	in.submit = func(ctx context.Context, n *cluster.Node, sig eth2p0.BLSSignature) error {
		if blinded {
			return n.VAPI.SubmitBlindedProposal(ctx, &eth2api.SubmitBlindedProposalOpts{Proposal: toBlinded(signed(sig))})
		}
		return n.VAPI.SubmitProposal(ctx, &eth2api.SubmitProposalOpts{Proposal: signed(sig)})
	}
	in.named = func() *cluster.Validator { return p.v }
	return in
}

func mkPropBellatrix(e *env, p params) *inst {
	b := bellatrixBlock(p)
	return mkProposal(e, p, blockHead{&b.Slot, &b.ProposerIndex, &b.ParentRoot, &b.StateRoot}, b.HashTreeRoot, []field{
		{"body.graffiti", func() { b.Body.Graffiti[13] ^= 1 }},
		{"body.randao_reveal", func() { b.Body.RANDAOReveal[14] ^= 1 }},
		{"body.eth1.deposit_count", func() { b.Body.ETH1Data.DepositCount++ }},
		{"body.sync_aggregate.bits", func() { b.Body.SyncAggregate.SyncCommitteeBits.SetBitAt(511-p.salt%512, true) }},
		{"body.exec.block_hash", func() { b.Body.ExecutionPayload.BlockHash[15] ^= 1 }},
		{"body.exec.gas_used", func() { b.Body.ExecutionPayload.GasUsed++ }},
		{"body.exec.txs", func() { b.Body.ExecutionPayload.Transactions[0][1] ^= 1 }},
	}, func(sig eth2p0.BLSSignature) *eth2api.VersionedSignedProposal {
		return &eth2api.VersionedSignedProposal{Version: eth2spec.DataVersionBellatrix, Bellatrix: &bellatrix.SignedBeaconBlock{Message: b, Signature: sig}}
	}, func() *eth2api.VersionedProposal {
		return &eth2api.VersionedProposal{Version: eth2spec.DataVersionBellatrix, Bellatrix: b}
	})
}

// sidecarFields: alterations of what travels beside the signed block (the reference verdict says: still valid).
func sidecarFields(proofs []deneb.KZGProof, blobs []deneb.Blob) []field {
	return []field{
		{"kzg_proof", func() { proofs[0][5] ^= 1 }},
		{"blob", func() { blobs[0][100_000] ^= 1 }},
	}
}

func mkPropDeneb(e *env, p params) *inst {
	b := denebBlock(p)
	proofs, blobs := sidecars(p)
	return mkProposal(e, p, blockHead{&b.Slot, &b.ProposerIndex, &b.ParentRoot, &b.StateRoot}, b.HashTreeRoot, append([]field{
		{"body.graffiti", func() { b.Body.Graffiti[13] ^= 1 }},
		{"body.randao_reveal", func() { b.Body.RANDAOReveal[14] ^= 1 }},
		{"body.exec.block_hash", func() { b.Body.ExecutionPayload.BlockHash[15] ^= 1 }},
		{"body.exec.base_fee", func() { b.Body.ExecutionPayload.BaseFeePerGas = uint256.NewInt(8 + p.salt) }},
		{"body.exec.excess_blob_gas", func() { b.Body.ExecutionPayload.ExcessBlobGas++ }},
		{"body.exec.withdrawal", func() { b.Body.ExecutionPayload.Withdrawals[0].Amount++ }},
		{"body.exec.txs", func() { b.Body.ExecutionPayload.Transactions[0][1] ^= 1 }},
		{"body.kzg_commitment", func() { b.Body.BlobKZGCommitments[0][47] ^= 1 }},
	}, sidecarFields(proofs, blobs)...), func(sig eth2p0.BLSSignature) *eth2api.VersionedSignedProposal {
		return &eth2api.VersionedSignedProposal{Version: eth2spec.DataVersionDeneb,
			Deneb: &apiv1deneb.SignedBlockContents{SignedBlock: &deneb.SignedBeaconBlock{Message: b, Signature: sig}, KZGProofs: proofs, Blobs: blobs}}
	}, func() *eth2api.VersionedProposal {
		return &eth2api.VersionedProposal{Version: eth2spec.DataVersionDeneb, Deneb: &apiv1deneb.BlockContents{Block: b, KZGProofs: proofs, Blobs: blobs}}
	})
}

func electraBlockFields(p params, b *electra.BeaconBlock) []field {
	return []field{
		{"body.graffiti", func() { b.Body.Graffiti[13] ^= 1 }},
		{"body.randao_reveal", func() { b.Body.RANDAOReveal[14] ^= 1 }},
		{"body.att.committee_bits", func() { b.Body.Attestations[0].CommitteeBits.SetBitAt(40, true) }},
		{"body.exec.block_hash", func() { b.Body.ExecutionPayload.BlockHash[15] ^= 1 }},
		{"body.exec.blob_gas_used", func() { b.Body.ExecutionPayload.BlobGasUsed++ }},
		{"body.exec.txs", func() { b.Body.ExecutionPayload.Transactions[0][1] ^= 1 }},
		{"body.kzg_commitment", func() { b.Body.BlobKZGCommitments[0][0] ^= 1 }},
		{"body.requests.withdrawal", func() { b.Body.ExecutionRequests.Withdrawals[0].Amount++ }},
	}
}

func mkPropElectra(e *env, p params) *inst {
	b := electraBlock(p)
	proofs, blobs := sidecars(p)
	return mkProposal(e, p, blockHead{&b.Slot, &b.ProposerIndex, &b.ParentRoot, &b.StateRoot}, b.HashTreeRoot,
		append(electraBlockFields(p, b), sidecarFields(proofs, blobs)...), func(sig eth2p0.BLSSignature) *eth2api.VersionedSignedProposal {
			return &eth2api.VersionedSignedProposal{Version: eth2spec.DataVersionElectra,
				Electra: &apiv1electra.SignedBlockContents{SignedBlock: &electra.SignedBeaconBlock{Message: b, Signature: sig}, KZGProofs: proofs, Blobs: blobs}}
		}, func() *eth2api.VersionedProposal {
			return &eth2api.VersionedProposal{Version: eth2spec.DataVersionElectra, Electra: &apiv1electra.BlockContents{Block: b, KZGProofs: proofs, Blobs: blobs}}
		})
}

func mkPropFulu(e *env, p params) *inst {
	b := electraBlock(p)
	proofs, blobs := sidecars(p)
	return mkProposal(e, p, blockHead{&b.Slot, &b.ProposerIndex, &b.ParentRoot, &b.StateRoot}, b.HashTreeRoot,
		append(electraBlockFields(p, b), sidecarFields(proofs, blobs)...), func(sig eth2p0.BLSSignature) *eth2api.VersionedSignedProposal {
			return &eth2api.VersionedSignedProposal{Version: eth2spec.DataVersionFulu,
				Fulu: &apiv1fulu.SignedBlockContents{SignedBlock: &electra.SignedBeaconBlock{Message: b, Signature: sig}, KZGProofs: proofs, Blobs: blobs}}
		}, func() *eth2api.VersionedProposal {
			return &eth2api.VersionedProposal{Version: eth2spec.DataVersionFulu, Fulu: &apiv1fulu.BlockContents{Block: b, KZGProofs: proofs, Blobs: blobs}}
		})
}

// ---- blinded proposals -----------------------------------------------------------------------------------------

func mkBlindedBellatrix(e *env, p params) *inst {
	c := capellaBlock(p)
	cb := c.Body
	h := bellatrixHeader(p)
	b := &apiv1bellatrix.BlindedBeaconBlock{Slot: c.Slot, ProposerIndex: c.ProposerIndex, ParentRoot: c.ParentRoot, StateRoot: rootOf(0xf1, p.slot, p.salt),
		Body: &apiv1bellatrix.BlindedBeaconBlockBody{RANDAOReveal: cb.RANDAOReveal, ETH1Data: cb.ETH1Data, Graffiti: cb.Graffiti, ProposerSlashings: cb.ProposerSlashings,
			AttesterSlashings: cb.AttesterSlashings, Attestations: cb.Attestations, Deposits: cb.Deposits, VoluntaryExits: cb.VoluntaryExits,
			SyncAggregate: cb.SyncAggregate, ExecutionPayloadHeader: h}}
	return mkProposal(e, p, blockHead{&b.Slot, &b.ProposerIndex, &b.ParentRoot, &b.StateRoot}, b.HashTreeRoot, []field{
		{"body.graffiti", func() { b.Body.Graffiti[13] ^= 1 }},
		{"body.randao_reveal", func() { b.Body.RANDAOReveal[14] ^= 1 }},
		{"body.att.data.slot", func() { b.Body.Attestations[0].Data.Slot++ }},
		{"hdr.block_hash", func() { h.BlockHash[15] ^= 1 }},
		{"hdr.fee_recipient", func() { h.FeeRecipient[19] ^= 1 }},
		{"hdr.txs_root", func() { h.TransactionsRoot[16] ^= 1 }},
	}, func(sig eth2p0.BLSSignature) *eth2api.VersionedSignedProposal {
		return &eth2api.VersionedSignedProposal{Version: eth2spec.DataVersionBellatrix, Blinded: true,
			BellatrixBlinded: &apiv1bellatrix.SignedBlindedBeaconBlock{Message: b, Signature: sig}}
	}, func() *eth2api.VersionedProposal {
		return &eth2api.VersionedProposal{Version: eth2spec.DataVersionBellatrix, Blinded: true, BellatrixBlinded: b}
	})
}

func mkBlindedCapella(e *env, p params) *inst {
	c := capellaBlock(p)
	cb := c.Body
	h := capellaHeader(p)
	b := &apiv1capella.BlindedBeaconBlock{Slot: c.Slot, ProposerIndex: c.ProposerIndex, ParentRoot: c.ParentRoot, StateRoot: rootOf(0xf1, p.slot, p.salt),
		Body: &apiv1capella.BlindedBeaconBlockBody{RANDAOReveal: cb.RANDAOReveal, ETH1Data: cb.ETH1Data, Graffiti: cb.Graffiti, ProposerSlashings: cb.ProposerSlashings,
			AttesterSlashings: cb.AttesterSlashings, Attestations: cb.Attestations, Deposits: cb.Deposits, VoluntaryExits: cb.VoluntaryExits,
			SyncAggregate: cb.SyncAggregate, ExecutionPayloadHeader: h, BLSToExecutionChanges: cb.BLSToExecutionChanges}}
	return mkProposal(e, p, blockHead{&b.Slot, &b.ProposerIndex, &b.ParentRoot, &b.StateRoot}, b.HashTreeRoot, []field{
		{"body.graffiti", func() { b.Body.Graffiti[13] ^= 1 }},
		{"body.randao_reveal", func() { b.Body.RANDAOReveal[14] ^= 1 }},
		{"body.sync_aggregate.sig", func() { b.Body.SyncAggregate.SyncCommitteeSignature[95] ^= 1 }},
		{"hdr.block_hash", func() { h.BlockHash[15] ^= 1 }},
		{"hdr.extra_data", func() { h.ExtraData[0] ^= 1 }},
		{"hdr.txs_root", func() { h.TransactionsRoot[16] ^= 1 }},
		{"hdr.wd_root", func() { h.WithdrawalsRoot[17] ^= 1 }},
	}, func(sig eth2p0.BLSSignature) *eth2api.VersionedSignedProposal {
		return &eth2api.VersionedSignedProposal{Version: eth2spec.DataVersionCapella, Blinded: true,
			CapellaBlinded: &apiv1capella.SignedBlindedBeaconBlock{Message: b, Signature: sig}}
	}, func() *eth2api.VersionedProposal {
		return &eth2api.VersionedProposal{Version: eth2spec.DataVersionCapella, Blinded: true, CapellaBlinded: b}
	})
}

func mkBlindedDeneb(e *env, p params) *inst {
	c := capellaBlock(p)
	cb := c.Body
	h := denebHeader(p)
	b := &apiv1deneb.BlindedBeaconBlock{Slot: c.Slot, ProposerIndex: c.ProposerIndex, ParentRoot: c.ParentRoot, StateRoot: rootOf(0xf1, p.slot, p.salt),
		Body: &apiv1deneb.BlindedBeaconBlockBody{RANDAOReveal: cb.RANDAOReveal, ETH1Data: cb.ETH1Data, Graffiti: cb.Graffiti, ProposerSlashings: cb.ProposerSlashings,
			AttesterSlashings: cb.AttesterSlashings, Attestations: cb.Attestations, Deposits: cb.Deposits, VoluntaryExits: cb.VoluntaryExits,
			SyncAggregate: cb.SyncAggregate, ExecutionPayloadHeader: h, BLSToExecutionChanges: cb.BLSToExecutionChanges,
			BlobKZGCommitments: []deneb.KZGCommitment{deneb.KZGCommitment(bytes48(0xc2, p.slot, p.salt))}}}
	return mkProposal(e, p, blockHead{&b.Slot, &b.ProposerIndex, &b.ParentRoot, &b.StateRoot}, b.HashTreeRoot, []field{
		{"body.graffiti", func() { b.Body.Graffiti[13] ^= 1 }},
		{"body.randao_reveal", func() { b.Body.RANDAOReveal[14] ^= 1 }},
		{"body.kzg_commitment", func() { b.Body.BlobKZGCommitments[0][24] ^= 1 }},
		{"hdr.block_hash", func() { h.BlockHash[15] ^= 1 }},
		{"hdr.base_fee", func() { h.BaseFeePerGas = uint256.NewInt(10 + p.salt) }},
		{"hdr.wd_root", func() { h.WithdrawalsRoot[17] ^= 1 }},
		{"hdr.blob_gas_used", func() { h.BlobGasUsed++ }},
	}, func(sig eth2p0.BLSSignature) *eth2api.VersionedSignedProposal {
		return &eth2api.VersionedSignedProposal{Version: eth2spec.DataVersionDeneb, Blinded: true,
			DenebBlinded: &apiv1deneb.SignedBlindedBeaconBlock{Message: b, Signature: sig}}
	}, func() *eth2api.VersionedProposal {
		return &eth2api.VersionedProposal{Version: eth2spec.DataVersionDeneb, Blinded: true, DenebBlinded: b}
	})
}

// mkBlindedElectra: the electra blinded block; fulu = the same structure in the Fulu fields.
func mkBlindedElectra(fulu bool) func(e *env, p params) *inst {
	return func(e *env, p params) *inst {
		c := capellaBlock(p)
		cb := c.Body
		h := denebHeader(p)
		b := &apiv1electra.BlindedBeaconBlock{Slot: c.Slot, ProposerIndex: c.ProposerIndex, ParentRoot: c.ParentRoot, StateRoot: rootOf(0xf1, p.slot, p.salt),
			Body: &apiv1electra.BlindedBeaconBlockBody{RANDAOReveal: cb.RANDAOReveal, ETH1Data: cb.ETH1Data, Graffiti: cb.Graffiti, ProposerSlashings: cb.ProposerSlashings,
				AttesterSlashings: []*electra.AttesterSlashing{}, Attestations: electraAtts(p), Deposits: cb.Deposits, VoluntaryExits: cb.VoluntaryExits,
				SyncAggregate: cb.SyncAggregate, ExecutionPayloadHeader: h, BLSToExecutionChanges: cb.BLSToExecutionChanges,
				BlobKZGCommitments: []deneb.KZGCommitment{deneb.KZGCommitment(bytes48(0xc2, p.slot, p.salt))}, ExecutionRequests: electraRequests(p)}}
		fields := []field{
			{"body.graffiti", func() { b.Body.Graffiti[13] ^= 1 }},
			{"body.randao_reveal", func() { b.Body.RANDAOReveal[14] ^= 1 }},
			{"body.att.bits", func() { b.Body.Attestations[0].AggregationBits.SetBitAt(5, true) }},
			{"body.kzg_commitment", func() { b.Body.BlobKZGCommitments[0][24] ^= 1 }},
			{"body.requests.withdrawal", func() { b.Body.ExecutionRequests.Withdrawals[0].SourceAddress[0] ^= 1 }},
			{"hdr.block_hash", func() { h.BlockHash[15] ^= 1 }},
			{"hdr.txs_root", func() { h.TransactionsRoot[16] ^= 1 }},
			{"hdr.excess_blob_gas", func() { h.ExcessBlobGas++ }},
		}
		head := blockHead{&b.Slot, &b.ProposerIndex, &b.ParentRoot, &b.StateRoot}
		if fulu {
			return mkProposal(e, p, head, b.HashTreeRoot, fields, func(sig eth2p0.BLSSignature) *eth2api.VersionedSignedProposal {
				return &eth2api.VersionedSignedProposal{Version: eth2spec.DataVersionFulu, Blinded: true,
					FuluBlinded: &apiv1electra.SignedBlindedBeaconBlock{Message: b, Signature: sig}}
			}, func() *eth2api.VersionedProposal {
				return &eth2api.VersionedProposal{Version: eth2spec.DataVersionFulu, Blinded: true, FuluBlinded: b}
			})
		}
		return mkProposal(e, p, head, b.HashTreeRoot, fields, func(sig eth2p0.BLSSignature) *eth2api.VersionedSignedProposal {
			return &eth2api.VersionedSignedProposal{Version: eth2spec.DataVersionElectra, Blinded: true,
				ElectraBlinded: &apiv1electra.SignedBlindedBeaconBlock{Message: b, Signature: sig}}
		}, func() *eth2api.VersionedProposal {
			return &eth2api.VersionedProposal{Version: eth2spec.DataVersionElectra, Blinded: true, ElectraBlinded: b}
		})
	}
}

// ---- the families; a run takes one member of each (tape value 0 = the first) -------------------------------------

const (
	domAtt  = "DOMAIN_BEACON_ATTESTER"
	domAgg  = "DOMAIN_AGGREGATE_AND_PROOF"
	domProp = "DOMAIN_BEACON_PROPOSER"
)

var variantFamilies = [][]*typeSpec{
	{
		{name: "att-p0", dt: core.DutyAttester, domain: domAtt, mk: mkAttPre(eth2spec.DataVersionPhase0)},
		{name: "att-altair", dt: core.DutyAttester, domain: domAtt, mk: mkAttPre(eth2spec.DataVersionAltair)},
		{name: "att-bella", dt: core.DutyAttester, domain: domAtt, mk: mkAttPre(eth2spec.DataVersionBellatrix)},
		{name: "att-capella", dt: core.DutyAttester, domain: domAtt, mk: mkAttPre(eth2spec.DataVersionCapella)},
		{name: "att-fulu", dt: core.DutyAttester, domain: domAtt, mk: mkAttPost(eth2spec.DataVersionFulu)},
	},
	{
		{name: "agg-electra", dt: core.DutyAggregator, domain: domAgg, mk: mkAggPost(eth2spec.DataVersionElectra)},
		{name: "agg-fulu", dt: core.DutyAggregator, domain: domAgg, mk: mkAggPost(eth2spec.DataVersionFulu)},
		{name: "agg-capella", dt: core.DutyAggregator, domain: domAgg, mk: mkAggProof(false, eth2spec.DataVersionCapella)},
		{name: "agg-bella", dt: core.DutyAggregator, domain: domAgg, mk: mkAggProof(false, eth2spec.DataVersionBellatrix)},
		{name: "agg-altair", dt: core.DutyAggregator, domain: domAgg, mk: mkAggProof(false, eth2spec.DataVersionAltair)},
		{name: "agg-p0", dt: core.DutyAggregator, domain: domAgg, mk: mkAggProof(false, eth2spec.DataVersionPhase0)},
	},
	{
		{name: "prop-deneb", dt: core.DutyProposer, domain: domProp, mk: mkPropDeneb},
		{name: "prop-bella", dt: core.DutyProposer, domain: domProp, mk: mkPropBellatrix},
		{name: "prop-electra", dt: core.DutyProposer, domain: domProp, mk: mkPropElectra},
		{name: "prop-fulu", dt: core.DutyProposer, domain: domProp, mk: mkPropFulu},
	},
	{
		{name: "bprop-capella", dt: core.DutyProposer, domain: domProp, mk: mkBlindedCapella},
		{name: "bprop-bella", dt: core.DutyProposer, domain: domProp, mk: mkBlindedBellatrix},
		{name: "bprop-deneb", dt: core.DutyProposer, domain: domProp, mk: mkBlindedDeneb},
		{name: "bprop-electra", dt: core.DutyProposer, domain: domProp, mk: mkBlindedElectra(false)},
		{name: "bprop-fulu", dt: core.DutyProposer, domain: domProp, mk: mkBlindedElectra(true)},
	},
}

// chooseVariants: the types of this run = allTypes plus one seeded member of every variant family.
func chooseVariants() (types []*typeSpec, names []string) {
	types = append(types, allTypes...)
	for _, fam := range variantFamilies {
		ts := fam[verifrt.Intn("cfg", len(fam))]
		types, names = append(types, ts), append(names, ts.name)
	}
	return types, names
}
