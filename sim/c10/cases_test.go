//go:build verif

package c10

import (
	"bytes"
	"context"
	"encoding/hex"
	"encoding/json"
	"sort"
	"strings"
	"time"

	eth2p0 "github.com/attestantio/go-eth2-client/spec/phase0"

	"github.com/obolnetwork/charon/core"
	pbv1 "github.com/obolnetwork/charon/core/corepb/v1"
	"github.com/obolnetwork/charon/tbls"
	"github.com/obolnetwork/charon/verifrt"

	"verifsim/cluster"
	"verifsim/simbeacon"
)

type caseDef struct {
	path string // "peer" (parsigex wire message) or "vc" (validatorapi.Component call)
	ts   *typeSpec
	alt  string
	fld  int
}

var peerAlts = []string{
	"sig-by-other-share", "other-share-index", "other-validator-key", "sig-by-group-key",
	"wrong-domain-type", "wrong-fork-version", "wrong-gvr", "unknown-validator",
	"share-index-0", "share-index-n+1", "share-index-huge", "share-index-negative",
	"zero-signature", "sig-only-in-proto-field", "garbage-signature", "infinity-signature",
	"duty-beyond-gater-window",
	// duty slots whose start time overflows 64-bit nanosecond / slot arithmetic (the duty on the wire is
	// far outside the window, the signed object itself is an ordinary valid one)
	"duty-slot-max-uint64", "duty-slot-2^63", "duty-slot-overflows-int64-ns", "duty-slot-huge-seeded",
}

// pairAlts are two-entry submissions (two validators, one duty, one message / one validatorapi call).
var pairAlts = []string{"pair-control", "pair-swapped-signatures", "pair-sum-preserving-shift", "pair-one-valid-one-by-other-share"}

var dutyTypeAlts = []string{"duty-type-unknown", "duty-type-out-of-range", "duty-type-builder-proposer", "duty-type-info-sync", "duty-type-signature"}

var vcAlts = []string{
	"sig-by-other-share", "sig-by-other-validator", "sig-by-group-key",
	"wrong-domain-type", "wrong-fork-version", "wrong-gvr",
	"zero-signature", "garbage-signature", "infinity-signature",
}

// primable alterations leave the signed content unchanged, so that threshold-1 valid partials already
// held by the target for the same duty and validator would complete a threshold if the altered one were stored.
var primable = map[string]bool{
	"control": true, "sig-by-other-share": true, "other-share-index": true, "other-validator-key": true,
	"sig-by-other-validator": true, "sig-by-group-key": true, "wrong-domain-type": true, "wrong-fork-version": true, "epoch-field-in-other-fork": true,
	"wrong-gvr": true, "share-index-0": true, "share-index-n+1": true, "share-index-huge": true,
	"share-index-negative": true, "zero-signature": true, "sig-only-in-proto-field": true, "garbage-signature": true, "infinity-signature": true,
}

func (e *env) enumerate() []caseDef {
	var out []caseDef
	for _, ts := range e.types {
		sample := ts.mk(e, params{v: e.cl.Vals[0], slot: 1000, salt: 0})
		out = append(out, caseDef{"peer", ts, "control", -1}, caseDef{"peer", ts, "control-last-slot-in-gater-window", -1})
		for _, a := range peerAlts {
			out = append(out, caseDef{"peer", ts, a, -1})
		}
		if ts.json {
			out = append(out, caseDef{"peer", ts, "truncated-signature", -1})
		}
		if ts.name == "att-deneb" {
			for _, a := range dutyTypeAlts {
				out = append(out, caseDef{"peer", ts, a, -1})
			}
		}
		for i, f := range sample.fields {
			out = append(out, caseDef{"peer", ts, "flip:" + f.name, i})
		}
		for _, a := range pairAlts {
			out = append(out, caseDef{"peer", ts, a, -1})
			if sample.many != nil {
				out = append(out, caseDef{"vc", ts, a, -1})
			}
		}
		if sample.setEpoch != nil {
			out = append(out, caseDef{"peer", ts, "epoch-field-in-other-fork", -1})
			if sample.submit != nil {
				out = append(out, caseDef{"vc", ts, "epoch-field-in-other-fork", -1})
			}
		}
		if sample.submit == nil {
			continue
		}
		out = append(out, caseDef{"vc", ts, "control", -1})
		for _, a := range vcAlts {
			out = append(out, caseDef{"vc", ts, a, -1})
		}
		if sample.unknown != nil {
			out = append(out, caseDef{"vc", ts, "unknown-validator-index", -1})
		}
		for i, f := range sample.fields {
			out = append(out, caseDef{"vc", ts, "flip:" + f.name, i})
		}
	}
	// replay files are named by the first 60 characters of "<oracleTag>-<sig>": keep them distinct
	seen := map[string]string{}
	for _, cd := range out {
		full := "aggregated-invalid-" + cd.path + "/" + cd.ts.name + "/" + cd.alt
		k := full
		if len(k) > 60 {
			k = k[:60]
		}
		if prev, ok := seen[k]; ok && prev != full {
			panic("c10 harness: violation signatures collide in replay file names: " + prev + " / " + full)
		}
		seen[k] = full
	}
	return out
}

func domainNames() []string {
	var ns []string
	for k := range simbeacon.DomainTypes {
		ns = append(ns, k)
	}
	sort.Strings(ns)
	return ns
}

func (e *env) peerMsg(duty core.Duty, pk core.PubKey, pb *pbv1.ParSignedData) []byte {
	return frame(&pbv1.ParSigExMsg{Duty: core.DutyToProto(duty), DataSet: &pbv1.ParSignedDataSet{Set: map[string]*pbv1.ParSignedData{string(pk): pb}}})
}

func (e *env) sender() int {
	n := e.cl.Cfg.N
	return (e.target + 1 + verifrt.Intn("w", n-1)) % n
}

// sign signs root with sk and records which public key the signature belongs to: the registry is the
// harness' reference for "this signature was produced by that key share" at the admission boundaries.
func (e *env) sign(sk tbls.PrivateKey, root [32]byte) eth2p0.BLSSignature {
	s, err := tbls.Sign(sk, root[:])
	must(err)
	pk, ok := e.pkOf[sk]
	if !ok {
		pk, err = tbls.SecretToPublicKey(sk)
		must(err)
		e.pkOf[sk] = pk
	}
	e.mu.Lock()
	e.signedBy[eth2p0.BLSSignature(s)] = pk
	e.mu.Unlock()
	return eth2p0.BLSSignature(s)
}

// checkAdmitted is evaluated at the two admission boundaries of the target (ParSigEx subscriber, ValidatorAPI
// subscriber) for EVERY entry of EVERY set, whatever case is running: the entry's signature must be one the
// harness produced with the key share the lock records for (entry's validator, entry's share index).
func (e *env) checkAdmitted(path string, d core.Duty, set core.ParSignedDataSet) {
	pks := make([]string, 0, len(set))
	for pk := range set {
		pks = append(pks, string(pk))
	}
	sort.Strings(pks)
	for _, k := range pks {
		psd := set[core.PubKey(k)]
		var sig eth2p0.BLSSignature
		copy(sig[:], psd.Signature())
		e.mu.Lock()
		by, known := e.signedBy[sig]
		e.cnt.entries[d]++
		e.mu.Unlock()
		want, inLock := e.cl.AllShares[core.PubKey(k)][psd.ShareIdx]
		switch {
		case !inLock:
			e.violate("admitted-invalid", path+"/entry/"+d.Type.String()+"/no-such-share-in-lock", "%v: an entry for validator %s share %d passed verification; the lock records no such public share", d, short(core.PubKey(k)), psd.ShareIdx)
		case !known:
			e.violate("admitted-invalid", path+"/entry/"+d.Type.String()+"/signature-by-no-key", "%v: the entry for validator %s share %d passed verification with a signature that no key produced (altered or combined signature bytes)", d, short(core.PubKey(k)), psd.ShareIdx)
		case by != want:
			e.violate("admitted-invalid", path+"/entry/"+d.Type.String()+"/signature-by-other-key", "%v: the entry for validator %s share %d passed verification with a signature produced by another key than the lock's public share for that validator and share index", d, short(core.PubKey(k)), psd.ShareIdx)
		default:
			verifrt.Probe("admitted-entry-by-claimed-share")
		}
	}
}

// negSig is the additive inverse of a compressed BLS12-381 G2 point: the sign flag of the y coordinate flipped.
func negSig(s eth2p0.BLSSignature) eth2p0.BLSSignature { s[0] ^= 0x20; return s }

func addSig(a, b eth2p0.BLSSignature) eth2p0.BLSSignature {
	s, err := tbls.Aggregate([]tbls.Signature{tbls.Signature(a), tbls.Signature(b)})
	must(err)
	return eth2p0.BLSSignature(s)
}

// runPair: two validators' entries for one duty in ONE submission (one parsigex message, or one validatorapi
// call). Both objects are built from the same (slot, salt), so that for types whose signed root does not name
// the validator (sync messages, selections, electra attestations) the two signing roots are equal.
func (e *env) runPair(cd caseDef) {
	cl, ts := e.cl, cd.ts
	n := cl.Cfg.N
	name := cd.path + "/" + ts.name + "/" + cd.alt
	e.c.State(hash(name))
	e.matrix[cd.path+"/"+ts.name] = append(e.matrix[cd.path+"/"+ts.name], cd.alt)
	e.salt++
	ai := verifrt.Intn("w", 2)
	A, B := cl.Vals[ai], cl.Vals[1-ai]
	idx := e.target + 1
	if cd.path == "peer" {
		idx = 1 + verifrt.Intn("w", n)
	}
	other := (idx+verifrt.Intn("w", n-1))%n + 1
	slot := e.fresh(ts.dt)
	inA := ts.mk(e, params{v: A, slot: slot, salt: e.salt})
	inB := ts.mk(e, params{v: B, slot: slot, salt: e.salt})
	duty := inA.duty
	e.used[duty] = true
	if cd.path == "vc" && inA.prep != nil {
		if err := inA.prep(e.tn); err != nil {
			e.violate("control-rejected", cd.path+"/"+ts.name+"/prepare", "preparing dutydb/scheduler state failed: %v", err)
			return
		}
	}
	verA, gvrA := e.correct(ts, inA)
	verB, gvrB := e.correct(ts, inB)
	srA := e.signingRoot(inA.root(), ts.domain, verA, gvrA)
	srB := e.signingRoot(inB.root(), ts.domain, verB, gvrB)
	if srA == srB {
		verifrt.Probe("pair-same-signing-root")
	}
	sigA, sigB := e.sign(A.Shares[idx], srA), e.sign(B.Shares[idx], srB)
	cA, cB := sigA, sigB
	bothInvalid := true
	switch cd.alt {
	case "pair-control":
		bothInvalid = false
	case "pair-swapped-signatures":
		cA, cB = sigB, sigA
	case "pair-sum-preserving-shift":
		// sigA + D and sigB - D: each is invalid for its entry, their sum is the sum of the valid ones
		usk, _ := e.unknownKey(e.salt)
		D, err := tbls.Sign(usk, srA[:])
		must(err)
		cA, cB = addSig(sigA, eth2p0.BLSSignature(D)), addSig(sigB, negSig(eth2p0.BLSSignature(D)))
		if addSig(cA, cB) != addSig(sigA, sigB) {
			panic("c10 harness: shifted signatures do not preserve the sum")
		}
	case "pair-one-valid-one-by-other-share":
		cB, bothInvalid = e.sign(B.Shares[other], srB), false
	}
	before := e.snapshot()
	if cd.alt == "pair-control" {
		e.stats["controls"]++
	} else {
		e.stats["alterations_injected"]++
		verifrt.Fault("alt:" + cd.alt)
	}
	verifrt.Note("case %s vals=%d,%d share=%d duty=%v same-root=%v", name, A.Index, B.Index, idx, duty, srA == srB)
	var ret struct {
		done bool
		err  error
	}
	if cd.path == "peer" {
		pbA, err := core.ParSignedDataToProto(core.ParSignedData{SignedData: inA.wrap(cA), ShareIdx: idx})
		must(err)
		pbB, err := core.ParSignedDataToProto(core.ParSignedData{SignedData: inB.wrap(cB), ShareIdx: idx})
		must(err)
		msg := frame(&pbv1.ParSigExMsg{Duty: core.DutyToProto(duty), DataSet: &pbv1.ParSignedDataSet{Set: map[string]*pbv1.ParSignedData{string(A.CorePK): pbA, string(B.CorePK): pbB}}})
		cl.Net.Inject(cl.PeerIDs[e.sender()], cl.PeerIDs[e.target], protoParSigEx, msg, time.Duration(verifrt.Intn("n", 200))*time.Millisecond)
	} else {
		items := []any{inA.item(cA), inB.item(cB)}
		if verifrt.Intn("w", 2) == 1 {
			items[0], items[1] = items[1], items[0]
		}
		verifrt.GoNode(e.tn.Tag, func() {
			ctx, cancel := context.WithTimeout(e.tn.Ctx, 3*time.Second)
			defer cancel()
			err := inA.many(ctx, e.tn, items)
			e.mu.Lock()
			ret.done, ret.err = true, err
			e.mu.Unlock()
		})
	}
	verifrt.Sleep(quiesce)
	after := e.snapshot()
	e.mu.Lock()
	rerr := ret.err
	e.mu.Unlock()
	entries := after.entries[duty] - before.entries[duty]
	admitted := entries > 0 || after.storedExt[duty] > before.storedExt[duty] || after.storedInt > before.storedInt
	switch {
	case cd.alt == "pair-control":
		if entries < 2 {
			e.violate("control-rejected", cd.path+"/"+ts.name+"/pair", "two valid partial signatures (validators %d and %d, share %d, %v) in one submission: %d entries were admitted (err=%v)", A.Index, B.Index, idx, duty, entries, rerr)
			return
		}
		e.stats["controls_admitted"]++
		verifrt.Probe("admitted-pair-control:" + cd.path + "/" + ts.name)
	case bothInvalid:
		if admitted {
			e.violate("admitted-invalid", name, "admitted although neither entry's signature verifies under the lock's public share of its own validator (same signing root: %v; the two signatures' sum equals the sum of the valid ones): validators %d and %d, share %d, %v, entries admitted %d, call err=%v", srA == srB, A.Index, B.Index, idx, duty, entries, rerr)
		}
		if after.out > before.out || after.exBcast > before.exBcast {
			e.violate("forwarded-invalid", name, "the submission of two invalid entries caused outgoing traffic from the target (envelopes %d, broadcasts %d)", after.out-before.out, after.exBcast-before.exBcast)
		}
		if after.aggCalls[duty] > before.aggCalls[duty] || after.aggOut[duty] > before.aggOut[duty] || after.bcast[duty] > before.bcast[duty] {
			e.violate("aggregated-invalid", name, "the submission of two invalid entries reached aggregation for %v", duty)
		}
	default:
		// one valid, one invalid entry: whether the valid one is admitted is not stated; the invalid one is
		// judged entry by entry at the admission boundaries (checkAdmitted)
		if entries > 0 {
			verifrt.Probe("pair-mixed-partly-admitted")
		}
	}
}

// injectNoise sends one more valid partial signature (another fresh duty) to the target, delivered while
// later cases are being handled.
func (e *env) injectNoise() {
	cl := e.cl
	ts := e.types[verifrt.Intn("w", len(e.types))]
	v := cl.Vals[verifrt.Intn("w", len(cl.Vals))]
	idx := 1 + verifrt.Intn("w", cl.Cfg.N)
	e.salt++
	in := ts.mk(e, params{v: v, slot: e.fresh(ts.dt), salt: e.salt})
	ver, gvr := e.correct(ts, in)
	sig := e.sign(v.Shares[idx], e.signingRoot(in.root(), ts.domain, ver, gvr))
	pb, err := core.ParSignedDataToProto(core.ParSignedData{SignedData: in.wrap(sig), ShareIdx: idx})
	must(err)
	e.noises = append(e.noises, noiseRec{ts.name, in.duty})
	e.stats["noise_msgs"]++
	verifrt.Fault("noise:valid-partial")
	cl.Net.Inject(cl.PeerIDs[e.sender()], cl.PeerIDs[e.target], protoParSigEx, e.peerMsg(in.duty, v.CorePK, pb), time.Duration(verifrt.Intn("n", 3000))*time.Millisecond)
}

func (e *env) runCase(cd caseDef) {
	if strings.HasPrefix(cd.alt, "pair-") {
		e.runPair(cd)
		return
	}
	cl, ts := e.cl, cd.ts
	n, spe := cl.Cfg.N, cl.Chain.SlotsPerEpoch
	name := cd.path + "/" + ts.name + "/" + cd.alt
	control := strings.HasPrefix(cd.alt, "control")
	e.c.State(hash(name))
	e.matrix[cd.path+"/"+ts.name] = append(e.matrix[cd.path+"/"+ts.name], cd.alt)
	e.salt++

	ai := verifrt.Intn("w", 2)
	A, B := cl.Vals[ai], cl.Vals[1-ai]
	idx := e.target + 1
	if cd.path == "peer" {
		idx = 1 + verifrt.Intn("w", n)
	}
	other := (idx+verifrt.Intn("w", n-1))%n + 1 // another valid share index

	var slot uint64
	switch cd.alt {
	case "duty-beyond-gater-window":
		slot = (e.curSlot()/spe + 3) * spe
	case "control-last-slot-in-gater-window":
		slot = (e.curSlot()/spe+3)*spe - 1
	default:
		slot = e.fresh(ts.dt)
	}
	in := ts.mk(e, params{v: A, slot: slot, salt: e.salt})
	e.used[in.duty] = true
	// "epoch-field-in-other-fork": the object's own epoch field (which the spec takes the signing domain
	// from) lies across a fork boundary from the duty's slot, and the signer used the fork version of the
	// SLOT's epoch. By the spec that signature is invalid for this object.
	var slotVer eth2p0.Version
	if cd.alt == "epoch-field-in-other-fork" {
		slotEp := e.epochOf(eth2p0.Slot(slot))
		slotVer = e.versionAt(slotEp)
		var cands []eth2p0.Epoch
		for _, f := range e.forks {
			if f.Epoch > slotEp && len(cands) == 0 {
				cands = append(cands, f.Epoch) // the next fork's activation epoch
			}
		}
		for ep := slotEp; ep > 0; ep-- {
			if e.versionAt(ep-1) != slotVer {
				cands = append(cands, ep-1) // the last epoch of the previous fork
				break
			}
		}
		in.setEpoch(cands[verifrt.Intn("w", len(cands))])
	}
	duty := in.duty
	switch cd.alt {
	case "duty-slot-max-uint64":
		duty.Slot = ^uint64(0)
	case "duty-slot-2^63":
		duty.Slot = 1 << 63
	case "duty-slot-overflows-int64-ns":
		// the first slots whose start, in nanoseconds since genesis, no longer fits an int64
		duty.Slot = uint64(int64(^uint64(0)>>1)/int64(cl.Chain.SlotDuration)) + 1 + uint64(verifrt.Intn("w", 64))
	case "duty-slot-huge-seeded":
		duty.Slot = uint64(verifrt.Intn("w", 1<<30))<<34 | 1<<33 | uint64(verifrt.Intn("w", 1<<30))
	}
	dom := ts.domain
	ver, gvr := e.correct(ts, in)
	if cd.path == "vc" && in.prep != nil {
		if err := in.prep(e.tn); err != nil {
			e.violate("control-rejected", cd.path+"/"+ts.name+"/prepare", "preparing dutydb/scheduler state failed: %v", err)
			return
		}
	}

	// ---- the alteration ---------------------------------------------------------------------------
	signer, claimIdx, claimPK, claimVal := A.Shares[idx], idx, A.CorePK, A
	sdom, sver, sgvr := dom, ver, gvr
	var override *eth2p0.BLSSignature
	protoSigOnly, truncate, rawSig := false, false, false
	post := func() {}
	switch cd.alt {
	case "control", "control-last-slot-in-gater-window", "duty-beyond-gater-window",
		"duty-slot-max-uint64", "duty-slot-2^63", "duty-slot-overflows-int64-ns", "duty-slot-huge-seeded":
	case "sig-by-other-share":
		signer = A.Shares[other]
	case "other-share-index":
		claimIdx = other
	case "other-validator-key":
		claimPK, claimVal = B.CorePK, B
	case "sig-by-other-validator":
		signer = B.Shares[idx]
	case "sig-by-group-key":
		signer = A.Secret
	case "wrong-domain-type":
		ns := domainNames()
		di := sort.SearchStrings(ns, dom)
		k := verifrt.Intn("w", len(ns)-1)
		if k >= di {
			k++
		}
		sdom = ns[k]
	case "wrong-fork-version":
		// the version of an adjacent epoch (the previous or the next fork) or the genesis version
		ep := in.epoch()
		var vs []eth2p0.Version
		for _, v := range []eth2p0.Version{e.versionAt(ep - 1), e.versionAt(ep + 1), cl.Chain.ForkVersion, e.forks[0].Version} {
			if v != ver {
				vs = append(vs, v)
			}
		}
		sver = vs[verifrt.Intn("w", len(vs))]
	case "epoch-field-in-other-fork":
		sver = slotVer
	case "wrong-gvr":
		if ts.genesis {
			sgvr = cl.Chain.GenesisValidatorsRoot // the builder domain uses the zero root
		} else if verifrt.Intn("w", 2) == 0 {
			sgvr = eth2p0.Root{}
		} else {
			sgvr[31] ^= 1
		}
	case "unknown-validator":
		signer, claimPK = e.unknownKey(e.salt)
		claimVal = nil
	case "unknown-validator-index":
		post = in.unknown
	case "share-index-0":
		claimIdx = 0
	case "share-index-n+1":
		claimIdx = n + 1
	case "share-index-huge":
		claimIdx = 1 << 30
	case "share-index-negative":
		claimIdx = -1
	case "zero-signature":
		override = &eth2p0.BLSSignature{}
	case "sig-only-in-proto-field":
		override, protoSigOnly = &eth2p0.BLSSignature{}, true
	case "garbage-signature":
		g := sigOf(0xff, e.salt)
		g[0] = 0xff
		override = &g
	case "infinity-signature":
		override = &eth2p0.BLSSignature{0xc0}
	case "truncated-signature":
		truncate = true
	case "duty-type-unknown":
		duty.Type = core.DutyUnknown
	case "duty-type-out-of-range":
		duty.Type = core.DutyType(14)
	case "duty-type-builder-proposer":
		duty.Type = core.DutyBuilderProposer
	case "duty-type-info-sync":
		duty.Type = core.DutyInfoSync
	case "duty-type-signature":
		duty.Type, rawSig = core.DutySignature, true
	default: // flip:<field>
		post = in.fields[cd.fld].flip
	}

	// threshold-1 valid partials of the unaltered object, by other shares, under the key the altered one claims
	// (content alterations - "flip:<field>" - are primed too: the target then has seen, verified and stored the
	// AUTHENTIC object of the same duty and validator, by other shares, before the altered copy arrives; whatever
	// it remembers about the authentic object must not vouch for the altered one)
	primed := (primable[cd.alt] || strings.HasPrefix(cd.alt, "flip:")) && claimVal != nil && verifrt.Intn("w", 3) == 2
	var primes [][]byte
	if primed {
		good := e.signingRoot(in.root(), dom, ver, gvr)
		for j := 1; j <= n && len(primes) < cl.Threshold-1; j++ {
			if j == claimIdx || j == idx {
				continue
			}
			pb, err := core.ParSignedDataToProto(core.ParSignedData{SignedData: in.wrap(e.sign(claimVal.Shares[j], good)), ShareIdx: j})
			must(err)
			primes = append(primes, e.peerMsg(in.duty, claimVal.CorePK, pb))
		}
	}

	sig := e.sign(signer, e.signingRoot(in.root(), sdom, sver, sgvr))
	post() // content changes happen after signing
	carried := sig
	if override != nil {
		carried = *override
	}

	// ---- reference verdict: does the submission verify for its own signing root, domain and epoch under
	// the lock's public share for the claimed validator and share index (and is its duty inside the window)?
	verifies := func(pubshare tbls.PublicKey) bool {
		v2, g2 := e.correct(ts, in)
		sr := e.signingRoot(in.root(), dom, v2, g2)
		return tbls.Verify(pubshare, sr[:], tbls.Signature(sig)) == nil
	}
	valid, reason := true, ""
	switch {
	case override != nil || truncate:
		valid, reason = false, "it carries no well-formed signature by any key ("+cd.alt+")"
	case duty.Type != ts.dt:
		valid, reason = false, "its duty type has no signed-object rule for this content"
	case cd.path == "peer" && !e.gaterAllows(duty):
		valid, reason = false, "its duty lies beyond the allowed future window (current epoch + 2)"
	case cd.path == "peer":
		if pubshare, ok := cl.AllShares[claimPK][claimIdx]; !ok {
			valid, reason = false, "the lock records no public share for the claimed validator and share index"
		} else if !verifies(pubshare) {
			valid, reason = false, "its signature does not verify for the object's own signing root, domain and epoch under the lock's public share for the claimed validator and share index"
		}
	default:
		if nv := in.named(); nv == nil {
			valid, reason = false, "the object names no validator of the cluster"
		} else if !verifies(nv.PubShares[e.target+1]) {
			valid, reason = false, "its signature does not verify for the object's own signing root, domain and epoch under this node's public share of the named validator"
		}
	}
	if control && !valid {
		panic("c10 harness: control is not valid by the harness' own rules: " + name)
	}

	if e.noise && verifrt.Intn("w", 4) == 3 {
		e.injectNoise()
	}
	if primed {
		e.stats["primed_cases"]++
		verifrt.Probe("primed-threshold-minus-one")
		for _, m := range primes {
			cl.Net.Inject(cl.PeerIDs[e.sender()], cl.PeerIDs[e.target], protoParSigEx, m, 0)
		}
		verifrt.Sleep(2 * time.Second)
	}
	before := e.snapshot()
	if control {
		e.stats["controls"]++
	} else {
		e.stats["alterations_injected"]++
		verifrt.Fault("alt:" + cd.alt)
	}
	verifrt.Note("case %s val=%d share=%d claim=%d duty=%v primed=%v valid=%v", name, A.Index, idx, claimIdx, duty, primed, valid)

	var ret struct {
		done bool
		err  error
	}
	if cd.path == "peer" {
		pb, err := core.ParSignedDataToProto(core.ParSignedData{SignedData: in.wrap(carried), ShareIdx: claimIdx})
		must(err)
		if protoSigOnly {
			pb.Signature = sig[:]
		}
		if truncate {
			h := []byte(hex.EncodeToString(sig[:]))
			if !bytes.Contains(pb.Data, h) {
				panic("c10 harness: signature not found in JSON encoding of " + ts.name)
			}
			pb.Data = bytes.Replace(pb.Data, h, h[:100], 1)
		}
		if rawSig {
			pb.Data, err = json.Marshal(core.Signature(sig[:]))
			must(err)
		}
		delay := time.Duration(verifrt.Intn("n", 200)) * time.Millisecond
		if strings.Contains(cd.alt, "gater") {
			delay = 0
		}
		msg := e.peerMsg(duty, claimPK, pb)
		if cd.alt == "sig-by-other-share" && verifrt.Intn("f", 2) == 1 {
			// a two-entry set: the other validator's entry is valid and verified slowly (beacon node
			// latency during verification exceeds the receive timeout); the invalid entry must still
			// keep the whole set out, whichever entry the handler verifies first
			inB := ts.mk(e, params{v: B, slot: slot, salt: e.salt + 1000})
			vB, gB := e.correct(ts, inB)
			pbB, err := core.ParSignedDataToProto(core.ParSignedData{SignedData: inB.wrap(e.sign(B.Shares[idx], e.signingRoot(inB.root(), dom, vB, gB))), ShareIdx: idx})
			must(err)
			msg = frame(&pbv1.ParSigExMsg{Duty: core.DutyToProto(duty), DataSet: &pbv1.ParSignedDataSet{Set: map[string]*pbv1.ParSignedData{string(claimPK): pb, string(B.CorePK): pbB}}})
			e.tn.Beacon.Latency = func(string) time.Duration { return 2600 * time.Millisecond }
			defer func() { e.tn.Beacon.Latency = nil }()
			verifrt.Fault("slow-verification-two-entry-set")
		}
		cl.Net.Inject(cl.PeerIDs[e.sender()], cl.PeerIDs[e.target], protoParSigEx, msg, delay)
		if !control && !valid && verifrt.Intn("f", 6) == 5 {
			// the target node stalls (GC pause, starved host) at a random point of handling the message,
			// for longer than the receive timeout: an expired receive context must not let an unverified
			// partial signature through
			steps := verifrt.Intn("f", 24)
			verifrt.Go(func() {
				if delay > 0 {
					verifrt.Sleep(delay)
				}
				for k := 0; k < steps; k++ {
					verifrt.Yield()
				}
				verifrt.Stall(e.tn.Tag, 7*time.Second)
			})
		}
	} else {
		// a validator client that gives up: a quarter of the INVALID submissions are made with a request context that
		// is already cancelled, ends within the first milliseconds, or is cancelled after a seeded number of the
		// target's scheduling steps - an abandoned request must not let an unverified partial signature through
		abandon := 0
		if !control && !valid && verifrt.Intn("f", 4) == 3 {
			abandon = 1 + verifrt.Intn("f", 3)
			verifrt.Fault("vc-request-abandoned")
		}
		verifrt.GoNode(e.tn.Tag, func() {
			ctx, cancel := context.WithTimeout(e.tn.Ctx, 3*time.Second)
			defer cancel()
			switch abandon {
			case 1:
				cancel()
			case 2:
				var c2 context.CancelFunc
				ctx, c2 = context.WithTimeout(ctx, time.Duration(verifrt.Intn("f", 4))*time.Millisecond)
				defer c2()
			case 3:
				steps := verifrt.Intn("f", 40)
				verifrt.Go(func() {
					for k := 0; k < steps; k++ {
						verifrt.Yield()
					}
					cancel()
				})
			}
			err := in.submit(ctx, e.tn, carried)
			e.mu.Lock()
			ret.done, ret.err = true, err
			e.mu.Unlock()
		})
	}
	verifrt.Sleep(quiesce)
	after := e.snapshot()
	if cd.alt == "duty-beyond-gater-window" && e.gaterAllows(duty) {
		// the epoch rolled over while the message was in flight (delivery delay, stalled node): the
		// window, which only ever grows, now includes the duty; the message was not inadmissible when
		// the node looked at it, so there is no verdict for this case
		verifrt.Probe("gater-window-rolled-during-case")
		return
	}
	e.mu.Lock()
	done, rerr := ret.done, ret.err
	e.mu.Unlock()

	var admitted bool
	if cd.path == "peer" {
		admitted = after.exSub[duty] > before.exSub[duty] || after.storedExt[duty] > before.storedExt[duty]
	} else {
		admitted = after.vapiSub > before.vapiSub || after.storedInt > before.storedInt || (done && rerr == nil && !in.blocks)
	}
	forwarded := after.out > before.out || after.exBcast > before.exBcast
	// aggregation is attributed per duty: concurrent valid background traffic for other duties may
	// legitimately aggregate in the same window
	aggCalled := after.aggCalls[duty] > before.aggCalls[duty]
	aggregated := aggCalled || after.aggOut[duty] > before.aggOut[duty] || after.bcast[duty] > before.bcast[duty]

	switch {
	case control:
		if !admitted {
			e.violate("control-rejected", cd.path+"/"+ts.name, "%s: the unaltered valid partial signature (validator %d, share %d, %v) was not admitted (err=%v)", cd.alt, A.Index, idx, duty, rerr)
			return
		}
		e.stats["controls_admitted"]++
		verifrt.Probe("admitted-control:" + ts.name)
		if primed {
			if !aggCalled || after.aggOut[duty] == before.aggOut[duty] {
				var moved []string
				for d, v := range after.aggCalls {
					if v > before.aggCalls[d] {
						moved = append(moved, d.String())
					}
				}
				sort.Strings(moved)
				e.violate("control-rejected", cd.path+"/"+ts.name+"/primed-not-aggregated", "threshold-1 valid partials plus the valid control for %v did not aggregate (aggregate called=%v; aggregation happened for %v)", duty, aggCalled, moved)
			} else {
				verifrt.Probe("control-completed-threshold")
			}
		}
		if cd.path == "vc" && forwarded {
			verifrt.Probe("vc-control-forwarded-to-peers")
		}
	case valid:
		// the altered field is not part of what the spec signs (or the change keeps the same fork): the message
		// still verifies for its own signing root, domain and epoch; the statement does not exclude it
		e.stats["alterations_still_valid"]++
		verifrt.Probe("alt-still-valid:" + cd.path + "/" + ts.name + "/" + cd.alt)
	default:
		if admitted {
			e.violate("admitted-invalid", name, "admitted although %s: claimed (validator %s, share %d), signed for validator %d by share %d, %v, primed=%v, call err=%v", reason, short(claimPK), claimIdx, A.Index, idx, duty, primed, rerr)
		}
		if forwarded {
			e.violate("forwarded-invalid", name, "the rejected submission caused outgoing traffic from the target (envelopes %d, broadcasts %d)", after.out-before.out, after.exBcast-before.exBcast)
		}
		if aggregated {
			e.violate("aggregated-invalid", name, "the rejected submission reached aggregation (aggregate calls %d, aggregates %d, broadcasts %d; primed=%v)", after.aggCalls[duty]-before.aggCalls[duty], after.aggOut[duty]-before.aggOut[duty], after.bcast[duty]-before.bcast[duty], primed)
		}
	}
}

func short(pk core.PubKey) string {
	if len(pk) > 10 {
		return string(pk[:10])
	}
	return string(pk)
}

var _ = cluster.P2PKey
