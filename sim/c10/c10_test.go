//go:build verif

// Harness for C10 "Only partial signatures valid for the claimed key share enter a node".
//
// One node of a simulated cluster of real charon nodes is the target. Every run builds a seeded base
// configuration and then enumerates, one injection at a time with quiescence in between, for every signed
// object type and for both entry paths (a peer's parsigex wire message; the validator client's
// validatorapi.Component call): the unaltered valid partial signature (positive control: must be admitted)
// and every single-field alteration of it (must not be admitted, forwarded or aggregated). Whether an
// altered message still verifies is decided by the harness' own restatement of the consensus-spec signing
// rules (types_test.go): only messages that do NOT verify under the lock's public key share for the claimed
// validator and share index are required to be rejected.
package c10

import (
	"context"
	"fmt"
	"hash/fnv"
	"sort"
	"strings"
	"sync"
	"testing"
	"time"

	eth2p0 "github.com/attestantio/go-eth2-client/spec/phase0"
	"github.com/libp2p/go-msgio/pbio"
	"google.golang.org/protobuf/proto"

	"github.com/obolnetwork/charon/core"
	"github.com/obolnetwork/charon/tbls"
	"github.com/obolnetwork/charon/verifrt"

	"verifsim/cluster"
	"verifsim/kernel"
	"verifsim/simbeacon"
	"verifsim/simnet"
)

const (
	protoParSigEx = "/charon/parsigex/2.0.0"
	quiesce       = 13 * time.Second // > one slot: every case gets fresh future duty slots; handlers and async sends are long done
	maxReported   = 6                // violations reported per run (canonical order); all are logged and counted
)

func TestSim(t *testing.T) {
	kernel.Main(t, kernel.Harness{Name: "c10", Horizon: 24 * time.Hour, Body: body, MaxSteps: 40_000_000})
}

type wbuf struct{ b []byte }

func (w *wbuf) Write(p []byte) (int, error) { w.b = append(w.b, p...); return len(p), nil }

func frame(m proto.Message) []byte {
	var w wbuf
	_ = pbio.NewDelimitedWriter(&w).WriteMsg(m)
	return w.b
}

// detReader is a deterministic byte stream for key generation.
type detReader struct{ x uint64 }

func (r *detReader) Read(p []byte) (int, error) {
	for i := range p {
		r.x = r.x*6364136223846793005 + 1442695040888963407
		p[i] = byte(r.x >> 33)
	}
	return len(p), nil
}

// counters are the observations at the boundaries the property names.
type counters struct {
	exSub     map[core.Duty]int // target's extra ParSigEx subscriber: peer message passed verification
	storedExt map[core.Duty]int // target's ParSigDB.StoreExternal invoked (production tracking hook): reaches storage
	storedInt int               // target's ParSigDB.StoreInternal invoked: VC submission reaches storage
	vapiSub   int               // target's extra ValidatorAPI subscriber: VC submission passed verification
	exBcast   int               // target's ParSigEx.Broadcast invoked: reaches other peers
	out       int               // network envelopes sent by the target
	aggCalls  map[core.Duty]int // target's SigAgg.Aggregate invoked for the duty: reaches aggregation
	aggOut    map[core.Duty]int // target's extra SigAgg subscriber: aggregate produced for the duty
	bcast     map[core.Duty]int // any node's broadcaster got a signed object of the duty
	entries   map[core.Duty]int // entries of sets seen at the target's two admission boundaries (ParSigEx / ValidatorAPI subscribers)
}

type violation struct{ tag, sig, detail string }

type env struct {
	c      *kernel.Ctx
	cl     *cluster.Cluster
	ctx    context.Context
	target int
	tn     *cluster.Node
	forks  []simbeacon.Fork
	salt   uint64
	used   map[core.Duty]bool
	exitEp uint64
	maxDly int
	noise  bool
	types  []*typeSpec // allTypes plus this run's seeded version variants (variants_test.go)

	pkOf map[tbls.PrivateKey]tbls.PublicKey // harness-private cache

	mu       sync.Mutex
	signedBy map[eth2p0.BLSSignature]tbls.PublicKey // every signature the harness produced -> the key that produced it
	cnt      counters
	viol   []violation
	noises []noiseRec
	matrix map[string][]string
	stats  map[string]int
}

type noiseRec struct {
	typ  string
	duty core.Duty
}

// tracker implements core.Tracker for the target node (wired with core.WithTracking like production).
type tracker struct{ e *env }

func (tracker) FetcherFetched(core.Duty, core.DutyDefinitionSet, error)  {}
func (tracker) ConsensusProposed(core.Duty, core.UnsignedDataSet, error) {}
func (tracker) DutyDBStored(core.Duty, core.UnsignedDataSet, error)      {}
func (t tracker) ParSigDBStoredInternal(core.Duty, core.ParSignedDataSet, error) {
	t.e.mu.Lock()
	t.e.cnt.storedInt++
	t.e.mu.Unlock()
}
func (t tracker) ParSigExBroadcasted(core.Duty, core.ParSignedDataSet, error) {
	t.e.mu.Lock()
	t.e.cnt.exBcast++
	t.e.mu.Unlock()
}
func (t tracker) ParSigDBStoredExternal(d core.Duty, _ core.ParSignedDataSet, _ error) {
	t.e.mu.Lock()
	t.e.cnt.storedExt[d]++
	t.e.mu.Unlock()
}
func (t tracker) SigAggAggregated(d core.Duty, _ map[core.PubKey][]core.ParSignedData, _ error) {
	t.e.mu.Lock()
	t.e.cnt.aggCalls[d]++
	t.e.mu.Unlock()
}
func (tracker) AggSigDBStored(core.Duty, core.SignedDataSet, error)             {}
func (tracker) BroadcasterBroadcast(core.Duty, core.SignedDataSet, error)       {}
func (tracker) InclusionChecked(core.Duty, core.PubKey, core.SignedData, error) {}

type noInclusion struct{}

func (noInclusion) Submitted(core.Duty, core.SignedDataSet) error { return nil }

func (e *env) snapshot() counters {
	e.mu.Lock()
	defer e.mu.Unlock()
	s := e.cnt
	cp := func(m map[core.Duty]int) map[core.Duty]int {
		o := map[core.Duty]int{}
		for k, v := range m {
			o[k] = v
		}
		return o
	}
	s.exSub, s.storedExt = cp(e.cnt.exSub), cp(e.cnt.storedExt)
	s.aggCalls, s.aggOut, s.bcast, s.entries = cp(e.cnt.aggCalls), cp(e.cnt.aggOut), cp(e.cnt.bcast), cp(e.cnt.entries)
	return s
}

func (e *env) violate(tag, sig, format string, a ...any) {
	d := fmt.Sprintf(format, a...)
	verifrt.Note("C10 %s %s: %s", tag, sig, d)
	e.mu.Lock()
	e.viol = append(e.viol, violation{tag, sig, d})
	e.mu.Unlock()
}

func hash(s string) uint64 { h := fnv.New64a(); h.Write([]byte(s)); return h.Sum64() }

// ---- the harness' own restatement of the signing rules ---------------------------------------------

func (e *env) versionAt(ep eth2p0.Epoch) eth2p0.Version {
	v := e.cl.Chain.ForkVersion
	for _, f := range e.forks {
		if f.Epoch <= ep {
			v = f.Version
		}
	}
	return v
}

func (e *env) signingRoot(obj eth2p0.Root, domain string, ver eth2p0.Version, gvr eth2p0.Root) [32]byte {
	return simbeacon.SigningRoot(obj, simbeacon.ComputeDomain(simbeacon.DomainTypes[domain], ver, gvr))
}

// correct returns the domain inputs the spec prescribes for the object's current content.
func (e *env) correct(ts *typeSpec, in *inst) (eth2p0.Version, eth2p0.Root) {
	if ts.genesis {
		return e.cl.Chain.ForkVersion, eth2p0.Root{}
	}
	return e.versionAt(in.epoch()), e.cl.Chain.GenesisValidatorsRoot
}

func (e *env) curSlot() uint64 {
	return uint64(time.Since(e.cl.Chain.GenesisTime) / e.cl.Chain.SlotDuration)
}

// gaterAllows restates core/gater.go's window: duty epoch <= current epoch + 2, valid duty type.
func (e *env) gaterAllows(d core.Duty) bool {
	spe := e.cl.Chain.SlotsPerEpoch
	return d.Type.Valid() && d.Slot/spe <= e.curSlot()/spe+2
}

// fresh returns an unused future slot for a duty type inside the gater window.
func (e *env) fresh(dt core.DutyType) uint64 {
	if dt == core.DutyExit { // exit duties are keyed by epoch and never expire: walk down from the newest allowed epoch
		e.exitEp--
		return e.exitEp * e.cl.Chain.SlotsPerEpoch
	}
	// even slots only: field alterations move a slot by +1, and the validator API keys a submission by
	// the slot inside the object, so an altered-but-still-valid object must never land on a duty that
	// a later control uses
	s := e.curSlot() + 1 + uint64(verifrt.Intn("w", 2))*e.cl.Chain.SlotsPerEpoch
	s += s % 2
	for e.used[core.Duty{Slot: s, Type: dt}] {
		s += 2
	}
	e.used[core.Duty{Slot: s, Type: dt}] = true
	return s
}

// ---- run --------------------------------------------------------------------------------------------

func body(c *kernel.Ctx) {
	ctx, cancel := context.WithCancel(context.Background())
	defer cancel()

	n := []int{4, 4, 4, 3, 5}[verifrt.Intn("cfg", 5)]
	spe := uint64(16)
	cfg := cluster.Config{N: n, Validators: 2, SlotsPerEpoch: spe, SlotDuration: 12 * time.Second,
		StartSlot: spe*2000 + uint64(verifrt.Intn("cfg", 16)), AggSigDBV2: verifrt.Intn("cfg", 2) == 1}
	cl := cluster.New(ctx, c.T, cfg)
	e := &env{c: c, cl: cl, ctx: ctx, used: map[core.Duty]bool{}, matrix: map[string][]string{}, stats: map[string]int{}}
	e.cnt.exSub, e.cnt.storedExt = map[core.Duty]int{}, map[core.Duty]int{}
	e.cnt.aggCalls, e.cnt.aggOut, e.cnt.bcast, e.cnt.entries = map[core.Duty]int{}, map[core.Duty]int{}, map[core.Duty]int{}, map[core.Duty]int{}
	e.pkOf, e.signedBy = map[tbls.PrivateKey]tbls.PublicKey{}, map[eth2p0.BLSSignature]tbls.PublicKey{}
	e.target = verifrt.Intn("cfg", n)
	e.maxDly = 1 + verifrt.Intn("cfg", 200)
	e.noise = verifrt.Intn("cfg", 3) != 0
	startEpoch := eth2p0.Epoch(cfg.StartSlot / spe)
	// fork schedule (the six named forks of the spec): four long ago, one activating in the run's second
	// epoch and one shortly after, so that early cases lie exactly in a fork activation epoch
	e.forks = []simbeacon.Fork{
		{Epoch: 1, Version: eth2p0.Version{0x01, 0x01, 0x10, 0x20}},
		{Epoch: 2, Version: eth2p0.Version{0x01, 0x02, 0x10, 0x20}},
		{Epoch: 3, Version: eth2p0.Version{0x01, 0x03, 0x10, 0x20}},
		{Epoch: startEpoch - 12, Version: eth2p0.Version{0x01, 0x00, 0x10, 0x20}},
		{Epoch: startEpoch + 1, Version: eth2p0.Version{0x02, 0x00, 0x10, 0x20}},
		{Epoch: startEpoch + 2 + eth2p0.Epoch(verifrt.Intn("cfg", 2)), Version: eth2p0.Version{0x03, 0x00, 0x10, 0x20}},
	}
	cl.Chain.Forks = e.forks
	var variants []string
	e.types, variants = chooseVariants()
	e.exitEp = uint64(startEpoch) - 1 // walk down from the past: the window-edge cases use the newest allowed epochs
	cl.WireOpts = func(node int) []core.WireOption {
		if node != e.target {
			return nil
		}
		return []core.WireOption{core.WithTracking(tracker{e}, noInclusion{})}
	}
	cl.Net.Fate = func(*simnet.Envelope) simnet.Fate {
		return simnet.Fate{Delay: time.Duration(verifrt.Intn("n", e.maxDly)) * time.Millisecond}
	}
	cl.Net.Tap = func(env *simnet.Envelope) {
		if env.From == cl.PeerIDs[e.target] && !env.Response {
			e.mu.Lock()
			e.cnt.out++
			e.mu.Unlock()
		}
	}
	cl.OnBcast = func(b cluster.Broadcast) { e.mu.Lock(); e.cnt.bcast[b.Duty]++; e.mu.Unlock() }
	for i := 0; i < n; i++ {
		nd := cl.StartNode(i)
		if i != e.target {
			continue
		}
		e.tn = nd
		// extra subscribers, registered before any traffic
		nd.ParSigEx.Subscribe(func(_ context.Context, d core.Duty, set core.ParSignedDataSet) error {
			e.checkAdmitted("peer", d, set)
			e.mu.Lock()
			e.cnt.exSub[d]++
			e.mu.Unlock()
			return nil
		})
		nd.VAPI.Subscribe(func(_ context.Context, d core.Duty, set core.ParSignedDataSet) error {
			e.checkAdmitted("vc", d, set)
			e.mu.Lock()
			e.cnt.vapiSub++
			e.mu.Unlock()
			return nil
		})
		nd.SigAgg.Subscribe(func(_ context.Context, d core.Duty, _ core.SignedDataSet) error {
			e.mu.Lock()
			e.cnt.aggOut[d]++
			e.mu.Unlock()
			return nil
		})
	}
	c.Set("n", n)
	c.Set("threshold", cl.Threshold)
	c.Set("target", e.target)
	c.Set("noise", e.noise)
	c.Set("variants", strings.Join(variants, ","))

	cases := e.enumerate()
	// seeded order of enumeration (tape 0 = canonical order)
	for i := len(cases) - 1; i > 0; i-- {
		j := i - verifrt.Intn("w", i+1)
		cases[i], cases[j] = cases[j], cases[i]
	}
	if verifrt.Intn("w", 2) == 1 {
		// fork-sensitive cases first: they run while the fork activation epochs are still ahead
		sort.SliceStable(cases, func(i, j int) bool {
			fi := cases[i].alt == "wrong-fork-version" || strings.HasPrefix(cases[i].alt, "control")
			fj := cases[j].alt == "wrong-fork-version" || strings.HasPrefix(cases[j].alt, "control")
			return fi && !fj
		})
	}
	verifrt.Sleep(time.Second)
	for _, cd := range cases {
		e.runCase(cd)
	}
	verifrt.Sleep(quiesce)
	e.finish()
	cancel()
}

func (e *env) finish() {
	c := e.c
	final := e.snapshot()
	for _, nr := range e.noises {
		if final.exSub[nr.duty] == 0 {
			e.violate("control-rejected", "peer/"+nr.typ+"/noise", "a valid concurrent partial signature for %v was not admitted", nr.duty)
		}
	}
	keys := make([]string, 0, len(e.matrix))
	for k := range e.matrix {
		keys = append(keys, k)
	}
	sort.Strings(keys)
	m := map[string]any{}
	total := 0
	for _, k := range keys {
		m[k] = e.matrix[k]
		total += len(e.matrix[k])
	}
	c.Set("enumerated", m)
	c.Set("cases", total)
	skeys := make([]string, 0, len(e.stats))
	for k := range e.stats {
		skeys = append(skeys, k)
	}
	sort.Strings(skeys)
	for _, k := range skeys {
		c.Set(k, e.stats[k])
	}
	if e.stats["controls_admitted"] == e.stats["controls"] && e.stats["alterations_injected"] > 0 {
		c.Progress()
	}
	sort.SliceStable(e.viol, func(i, j int) bool {
		if e.viol[i].tag != e.viol[j].tag {
			return e.viol[i].tag < e.viol[j].tag
		}
		return e.viol[i].sig < e.viol[j].sig
	})
	seen := map[string]bool{}
	reported := 0
	for _, v := range e.viol {
		k := v.tag + "|" + v.sig
		if seen[k] {
			continue
		}
		seen[k] = true
		if reported < maxReported {
			c.Violate("C10", v.tag, v.sig, "%s", v.detail)
			reported++
		}
	}
	c.Set("violations_found", len(seen))
	c.Set("violations_reported", reported)
}

// unknownKey is a valid BLS key pair that is not part of the cluster.
func (e *env) unknownKey(salt uint64) (tbls.PrivateKey, core.PubKey) {
	sk, err := tbls.GenerateInsecureKey(e.c.T, &detReader{x: 0xabcdef + salt})
	must(err)
	pk, err := tbls.SecretToPublicKey(sk)
	must(err)
	cpk, err := core.PubKeyFromBytes(pk[:])
	must(err)
	return sk, cpk
}
