//go:build verif

// Package kernel is the worker side of every check: it runs a harness body for many seeds inside
// synctest bubbles under the verifrt scheduler, collects oracle violations, minimises the
// choice tape of a failing run, writes replay files and a per-worker summary for ./check.
package kernel

import (
	"encoding/json"
	"fmt"
	"os"
	"path/filepath"
	"regexp"
	"runtime"
	"sort"
	"strconv"
	"strings"
	"sync"
	"sync/atomic"
	"testing"
	"testing/synctest"
	"time"

	"github.com/obolnetwork/charon/verifrt"
)

// Violation of an oracle in one run.
type Violation struct {
	Prop   string `json:"prop"`
	Oracle string `json:"oracle"` // stable oracle tag
	Sig    string `json:"sig"`    // stable description of the failing shape (call site / history shape); used for known-finding matching
	Detail string `json:"detail"` // free text with the concrete values
}

// Ctx is handed to the harness body.
type Ctx struct {
	T    *testing.T
	Tier string
	Mode string // "" or a harness-specific variant selected by VERIF_VARIANT

	mu       sync.Mutex
	viol     []Violation
	progress bool
	states   map[uint64]struct{}
	summary  map[string]any
}

// Violate records an oracle violation.
func (c *Ctx) Violate(prop, oracle, sig, detailFormat string, a ...any) {
	d := fmt.Sprintf(detailFormat, a...)
	c.mu.Lock()
	c.viol = append(c.viol, Violation{Prop: prop, Oracle: oracle, Sig: sig, Detail: d})
	c.mu.Unlock()
	verifrt.Note("VIOLATION %s %s %s", prop, oracle, sig)
}

// Progress marks that the workload of this run did real work (decision, trigger, resolved await …).
func (c *Ctx) Progress() { c.mu.Lock(); c.progress = true; c.mu.Unlock() }

// State records an abstract state reached (harness-defined measure).
func (c *Ctx) State(h uint64) { c.mu.Lock(); c.states[h] = struct{}{}; c.mu.Unlock() }

// Set stores a key of the run summary (shown in evidence samples).
func (c *Ctx) Set(k string, v any) { c.mu.Lock(); c.summary[k] = v; c.mu.Unlock() }

// Harness describes one simulated system + workload + oracles.
type Harness struct {
	Name    string
	Horizon time.Duration
	// Body runs as goroutine "0" under the scheduler inside the bubble. It must finish its oracle
	// checks before returning; on return everything still alive is torn down.
	Body func(c *Ctx)
	// MaxSteps overrides the scheduler's step cap.
	MaxSteps int
	// After, if set, runs after the bubble has ended (real time, no scheduler): checks over the
	// recorded history that need real goroutines or real timeouts (porcupine).
	After func(c *Ctx)
	// PreemptMax > 0 switches on the fault kind "goroutine descheduled while time passes" for goroutines
	// that called verifrt.SetPreemptible (see verifrt.Config.PreemptMax).
	PreemptMax time.Duration
}

// Result of one run.
type Result struct {
	Seed        uint64         `json:"seed"`
	Fingerprint string         `json:"fingerprint"`
	Steps       int            `json:"steps"`
	Draws       int            `json:"draws"`
	SimTimeMs   int64          `json:"sim_ms"`
	Faults      map[string]int `json:"faults,omitempty"`
	Probes      map[string]int `json:"probes,omitempty"`
	Violations  []Violation    `json:"violations,omitempty"`
	Progress    bool           `json:"progress"`
	Summary     map[string]any `json:"summary,omitempty"`
	Log         []string       `json:"log,omitempty"`
	Tape        verifrt.Tape   `json:"tape,omitempty"`
	StepCap     bool           `json:"stepcap,omitempty"`
	HorizonHit  bool           `json:"horizon,omitempty"`
	Ready2      int            `json:"ready2"`
	Adopted     int            `json:"adopted,omitempty"`
	Stray       int            `json:"stray,omitempty"`
	Panics      []string       `json:"panics,omitempty"`
	states      map[uint64]struct{}
}

var watchdogSecs = 180

// RunOnce executes one run; tape == nil generates from seed.
func RunOnce(t *testing.T, h Harness, seed uint64, tape verifrt.Tape, keepLog bool) (res Result) {
	res.Seed = seed
	c := &Ctx{T: t, Tier: os.Getenv("VERIF_TIER"), Mode: os.Getenv("VERIF_VARIANT"), states: map[uint64]struct{}{}, summary: map[string]any{}}
	collected := false
	collect := func() {
		if collected {
			return
		}
		collected = true
		if h.After != nil {
			h.After(c)
		}
		c.mu.Lock()
		res.Violations = append([]Violation(nil), c.viol...)
		// a panic of any goroutine of the system under test is a violation of whatever property is being checked;
		// converted here, in the one place every mode (explore, minimise, replay) goes through, so that a panic
		// found by a worker also reproduces from its replay file
		for _, p := range res.Panics {
			res.Violations = append(res.Violations, Violation{Prop: "*", Oracle: "panic", Sig: panicSig(p), Detail: p})
		}
		res.Progress = c.progress
		res.Summary = c.summary
		res.states = c.states
		c.mu.Unlock()
	}
	wd := time.AfterFunc(time.Duration(watchdogSecs)*time.Second, func() {
		buf := make([]byte, 1<<20)
		n := runtime.Stack(buf, true)
		fmt.Fprintf(os.Stderr, "WATCHDOG: run seed=%d of %s exceeded %ds wall; goroutines:\n%s\n", seed, h.Name, watchdogSecs, buf[:n])
		os.Exit(2)
	})
	defer wd.Stop()
	defer func() {
		if r := recover(); r != nil {
			msg := fmt.Sprint(r)
			if !strings.Contains(msg, "deadlock") && !strings.Contains(msg, "blocked goroutines") {
				panic(r)
			}
			collect()
		}
	}()
	synctest.Test(t, func(t *testing.T) {
		s := verifrt.Run(verifrt.Config{Seed: seed, Replay: tape, Horizon: h.Horizon, MaxSteps: h.MaxSteps, KeepLog: keepLog, KeepPct: -1, PreemptMax: h.PreemptMax}, func() { h.Body(c) })
		res.Fingerprint = fmt.Sprintf("%016x", s.Fingerprint())
		res.Steps, res.Draws, res.SimTimeMs = s.Steps, s.Draws(), s.SimTime.Milliseconds()
		res.Faults, res.Probes = s.Faults, s.Probes
		res.StepCap, res.HorizonHit, res.Ready2, res.Adopted, res.Stray = s.StepCap, s.HorizonH, s.Ready2, s.Adopted, s.Stray
		res.Tape = s.Tape()
		res.Log = s.Log
		res.Panics = s.Panics
	})
	collect()
	return res
}

func (r Result) has(v Violation) bool {
	for _, x := range r.Violations {
		if x.Prop == v.Prop && x.Oracle == v.Oracle && x.Sig == v.Sig {
			return true
		}
	}
	return false
}

// Replay is the on-disk replay file.
type Replay struct {
	Property    string         `json:"property"`
	Harness     string         `json:"harness"`
	Variant     string         `json:"variant,omitempty"`
	Oracle      string         `json:"oracle"`
	Sig         string         `json:"sig"`
	Detail      string         `json:"detail"`
	Seed        uint64         `json:"seed"`
	Tape        verifrt.Tape   `json:"tape"`
	Fingerprint string         `json:"fingerprint"`
	Steps       int            `json:"steps"`
	OrigDraws   int            `json:"orig_draws"`
	MinDraws    int            `json:"min_draws"`
	Faults      map[string]int `json:"faults,omitempty"`
	Trace       []string       `json:"trace,omitempty"`
	// Sequence, if set, makes the replay re-execute the worker's first RunIndex+1 generated runs in one
	// process: the violation depends on process-global state of the code under test left by earlier runs.
	Sequence *Sequence `json:"sequence,omitempty"`
}

// Sequence identifies a worker's run sequence.
type Sequence struct {
	Base     uint64 `json:"base"`
	Worker   int    `json:"worker"`
	RunIndex int    `json:"run_index"`
}

func tapeLen(t verifrt.Tape) int {
	n := 0
	for _, v := range t {
		n += len(v)
	}
	return n
}

func cloneTape(t verifrt.Tape) verifrt.Tape {
	o := verifrt.Tape{}
	for k, v := range t {
		o[k] = append([]uint32(nil), v...)
	}
	return o
}

func streams(t verifrt.Tape) []string {
	var ks []string
	for k := range t {
		ks = append(ks, k)
	}
	sort.Strings(ks)
	return ks
}

// Minimise shrinks the tape of a failing run while the same violation (prop, oracle, sig) persists.
func Minimise(t *testing.T, h Harness, seed uint64, tape verifrt.Tape, v Violation, maxReplays int, maxWall time.Duration) (verifrt.Tape, int) {
	best := cloneTape(tape)
	if best == nil {
		best = verifrt.Tape{}
	}
	replays := 0
	t0 := time.Now()
	try := func(cand verifrt.Tape) bool {
		if replays >= maxReplays || time.Since(t0) > maxWall {
			return false
		}
		replays++
		r := RunOnce(t, h, seed, cand, false)
		if r.has(v) {
			best = r.Tape // normalised: what was actually consumed
			if best == nil {
				best = verifrt.Tape{}
			}
			return true
		}
		return false
	}
	for pass := 0; pass < 3; pass++ {
		before := tapeLen(best)
		// 1. truncate streams (tail -> implied zeros): whole stream, then binary search on prefix
		for _, st := range streams(best) {
			cur := best[st]
			if len(cur) == 0 {
				continue
			}
			c := cloneTape(best)
			delete(c, st)
			if try(c) {
				continue
			}
			lo, hi := 0, len(cur) // invariant: prefix hi fails (reproduces); find smaller
			for lo+1 < hi {
				mid := (lo + hi) / 2
				c := cloneTape(best)
				if mid < len(c[st]) {
					c[st] = c[st][:mid]
				}
				if try(c) {
					hi = mid
					if len(best[st]) < hi {
						hi = len(best[st])
					}
				} else {
					lo = mid
				}
			}
		}
		// 2. zero chunks
		for _, st := range streams(best) {
			for size := len(best[st]) / 2; size >= 1; size /= 2 {
				for off := 0; off < len(best[st]); off += size {
					cur := best[st]
					nz := false
					for i := off; i < off+size && i < len(cur); i++ {
						if cur[i] != 0 {
							nz = true
						}
					}
					if !nz {
						continue
					}
					c := cloneTape(best)
					for i := off; i < off+size && i < len(c[st]); i++ {
						c[st][i] = 0
					}
					try(c)
				}
			}
		}
		// 3. delete chunks (shifts later choices of the same stream)
		for _, st := range streams(best) {
			for size := len(best[st]) / 2; size >= 1; size /= 2 {
				for off := 0; off+size <= len(best[st]); {
					c := cloneTape(best)
					c[st] = append(append([]uint32(nil), c[st][:off]...), c[st][off+size:]...)
					if !try(c) {
						off += size
					}
				}
			}
		}
		if tapeLen(best) >= before || replays >= maxReplays || time.Since(t0) > maxWall {
			break
		}
	}
	return best, replays
}

// Summary is what a worker writes for ./check.
type Summary struct {
	Harness      string         `json:"harness"`
	Worker       int            `json:"worker"`
	Runs         int            `json:"runs"`
	Steps        int64          `json:"steps"`
	SimMs        int64          `json:"sim_ms"`
	WallS        float64        `json:"wall_s"`
	Faults       map[string]int `json:"faults"`
	Probes       map[string]int `json:"probes"`
	Nontrivial   []string       `json:"nontrivial_fps"`
	AllFps       int            `json:"distinct_fps"`
	States       []string       `json:"states"`
	Samples      []Result       `json:"samples"`
	Violations   []ViolationRec `json:"violations"`
	StepCaps     int            `json:"stepcaps"`
	Horizons     int            `json:"horizons"`
	Ready2       int64          `json:"ready2"`
	Adopted      int            `json:"adopted"`
	Stray        int            `json:"stray"`
	ProgressRuns int            `json:"progress_runs"`
	PerSeedFp    map[string]string `json:"per_seed_fp,omitempty"`
	Recycle      bool              `json:"recycle,omitempty"` // stopped early to be restarted in a fresh process
}

// ViolationRec is a violation found by a worker with its replay file.
type ViolationRec struct {
	Violation
	Seed     uint64 `json:"seed"`
	Replay   string `json:"replay"`
	Count    int    `json:"count"`
	Base     uint64 `json:"base"`      // VERIF_SEED of the exploration
	Worker   int    `json:"worker"`    // worker index
	RunIndex int    `json:"run_index"` // index of the run within the worker's sequence
}

func envInt(k string, def int) int {
	if v, err := strconv.Atoi(os.Getenv(k)); err == nil {
		return v
	}
	return def
}

func mix(a, b, c uint64) uint64 {
	x := a*0x9e3779b97f4a7c15 ^ (b+1)*0xbf58476d1ce4e5b9 ^ (c+1)*0x94d049bb133111eb
	x ^= x >> 30
	x *= 0xbf58476d1ce4e5b9
	x ^= x >> 27
	x *= 0x94d049bb133111eb
	x ^= x >> 31
	return x
}

// Main is called from the harness package's single Test function.
func Main(t *testing.T, h Harness) {
	if os.Getenv("VERIF_MODE") == "" {
		t.Skip("not started by ./check")
	}
	if w := envInt("VERIF_WATCHDOG_S", 0); w > 0 {
		watchdogSecs = w
	}
	switch os.Getenv("VERIF_MODE") {
	case "replay":
		replayMain(t, h)
	default:
		exploreMain(t, h)
	}
}

func writeJSON(path string, v any) {
	b, err := json.MarshalIndent(v, "", " ")
	if err != nil {
		fmt.Fprintln(os.Stderr, "kernel: marshal:", err)
		os.Exit(2)
	}
	if err := os.WriteFile(path, b, 0o644); err != nil {
		fmt.Fprintln(os.Stderr, "kernel: write:", err)
		os.Exit(2)
	}
}

func replayMain(t *testing.T, h Harness) {
	b, err := os.ReadFile(os.Getenv("VERIF_REPLAY"))
	if err != nil {
		fmt.Fprintln(os.Stderr, "kernel: replay file:", err)
		os.Exit(2)
	}
	var rp Replay
	if err := json.Unmarshal(b, &rp); err != nil {
		fmt.Fprintln(os.Stderr, "kernel: replay file:", err)
		os.Exit(2)
	}
	if rp.Tape == nil {
		rp.Tape = verifrt.Tape{}
	}
	var r Result
	if sq := rp.Sequence; sq != nil {
		for i := 0; i <= sq.RunIndex; i++ {
			r = RunOnce(t, h, mix(sq.Base, uint64(sq.Worker), uint64(i)), nil, i == sq.RunIndex)
		}
		out := map[string]any{
			"reproduced":        r.has(Violation{Prop: rp.Property, Oracle: rp.Oracle, Sig: rp.Sig}),
			"fingerprint_match": true,
			"fingerprint":       r.Fingerprint,
			"violations":        r.Violations,
			"steps":             r.Steps,
			"log":               r.Log,
		}
		writeJSON(os.Getenv("VERIF_OUT"), out)
		return
	}
	r = RunOnce(t, h, rp.Seed, rp.Tape, true)
	out := map[string]any{
		"reproduced":        r.has(Violation{Prop: rp.Property, Oracle: rp.Oracle, Sig: rp.Sig}),
		"fingerprint_match": r.Fingerprint == rp.Fingerprint,
		"fingerprint":       r.Fingerprint,
		"violations":        r.Violations,
		"steps":             r.Steps,
		"log":               r.Log,
	}
	writeJSON(os.Getenv("VERIF_OUT"), out)
}

var curSeed atomic.Uint64

// memGuard turns a single run that blows up memory into an explicit exit 2 naming the seed
// (instead of the kernel OOM killer taking a worker down without a trace).
func memGuard(name string) {
	limit := uint64(envInt("VERIF_RUN_MEM_MB", 3000)) << 20
	go func() {
		for {
			time.Sleep(500 * time.Millisecond)
			var ms runtime.MemStats
			runtime.ReadMemStats(&ms)
			if ms.HeapAlloc > limit {
				fmt.Fprintf(os.Stderr, "MEMGUARD: harness %s run seed=%d heap=%dMB exceeds the per-run limit; aborting (exit 2)\n", name, curSeed.Load(), ms.HeapAlloc>>20)
				os.Exit(2)
			}
		}
	}()
}

func exploreMain(t *testing.T, h Harness) {
	memGuard(h.Name)
	base := uint64(envInt("VERIF_SEED", 1))
	worker := envInt("VERIF_WORKER", 0)
	maxRuns := envInt("VERIF_MAXRUNS", 1<<40)
	budget := time.Duration(envInt("VERIF_BUDGET_S", 30)) * time.Second
	emitFp := os.Getenv("VERIF_EMIT_FP") == "1"
	replayDir := os.Getenv("VERIF_REPLAY_DIR")
	prop := os.Getenv("VERIF_PROP")
	// known findings (from known_findings.json via ./check): counted, not minimised, no replay file
	type knownT struct {
		Property, Oracle, Match string
		re                      *regexp.Regexp
	}
	var known []knownT
	if kj := os.Getenv("VERIF_KNOWN"); kj != "" {
		if err := json.Unmarshal([]byte(kj), &known); err != nil {
			fmt.Fprintln(os.Stderr, "kernel: VERIF_KNOWN:", err)
			os.Exit(2)
		}
		for i := range known {
			known[i].re = regexp.MustCompile(known[i].Match)
		}
	}
	isKnown := func(v Violation) bool {
		for _, k := range known {
			if k.Property == v.Prop && k.Oracle == v.Oracle && k.re.MatchString(v.Sig+" || "+v.Detail) {
				return true
			}
		}
		return false
	}

	sum := Summary{Harness: h.Name, Worker: worker, Faults: map[string]int{}, Probes: map[string]int{}}
	if emitFp {
		sum.PerSeedFp = map[string]string{}
	}
	nontriv := map[string]struct{}{}
	allfp := map[string]struct{}{}
	states := map[uint64]struct{}{}
	byKey := map[string]*ViolationRec{}
	t0 := time.Now()
	maxMem := uint64(envInt("VERIF_MAX_MEM_MB", 1200)) << 20
	for i := 0; i < maxRuns && time.Since(t0) < budget; i++ {
		if i%32 == 31 {
			// goroutines left blocked in finished bubbles are never collected: recycle the process
			var ms runtime.MemStats
			runtime.ReadMemStats(&ms)
			if ms.Sys > maxMem {
				sum.Recycle = true
				break
			}
		}
		seed := mix(base, uint64(worker), uint64(i))
		if emitFp {
			seed = mix(base, 0, uint64(i)) // determinism test: same seeds in every process
		}
		curSeed.Store(seed)
		r := RunOnce(t, h, seed, nil, false)
		sum.Runs++
		sum.Steps += int64(r.Steps)
		sum.SimMs += r.SimTimeMs
		sum.Ready2 += int64(r.Ready2)
		sum.Adopted += r.Adopted
		sum.Stray += r.Stray
		nf := 0
		for k, v := range r.Faults {
			sum.Faults[k] += v
			nf += v
		}
		for k, v := range r.Probes {
			sum.Probes[k] += v
		}
		if r.StepCap {
			sum.StepCaps++
		}
		if r.HorizonHit {
			sum.Horizons++
		}
		for s := range r.states {
			states[s] = struct{}{}
		}
		allfp[r.Fingerprint] = struct{}{}
		if r.Progress {
			sum.ProgressRuns++
			if nf > 0 || r.Ready2 > 0 {
				nontriv[r.Fingerprint] = struct{}{}
			}
		}
		if emitFp {
			sum.PerSeedFp[strconv.FormatUint(seed, 10)] = r.Fingerprint
		}
		if len(sum.Samples) < 3 && (r.Progress || i > 20) {
			sm := r
			sm.Tape = nil
			if len(sum.Samples) == 0 {
				lr := RunOnce(t, h, seed, r.Tape, true)
				sm.Log = abbreviate(lr.Log, 60)
			}
			sum.Samples = append(sum.Samples, sm)
		}
		for _, v := range r.Violations {
			key := v.Prop + "|" + v.Oracle + "|" + v.Sig
			if rec := byKey[key]; rec != nil {
				rec.Count++
				continue
			}
			rec := &ViolationRec{Violation: v, Seed: seed, Count: 1, Base: base, Worker: worker, RunIndex: i}
			byKey[key] = rec
			if prop != "" && v.Prop != prop && v.Prop != "*" {
				continue // belongs to another property served by this harness; counted, not minimised here
			}
			if isKnown(v) {
				continue // reported by ./check as KNOWN-FINDING
			}
			mt, _ := Minimise(t, h, seed, r.Tape, v, envInt("VERIF_MIN_REPLAYS", 400), 90*time.Second)
			fr := RunOnce(t, h, seed, mt, true)
			if !fr.has(v) { // minimiser's last normalisation must still fail; otherwise fall back to the original tape
				mt = r.Tape
				fr = RunOnce(t, h, seed, mt, true)
			}
			det := v.Detail
			for _, x := range fr.Violations {
				if x.Prop == v.Prop && x.Oracle == v.Oracle && x.Sig == v.Sig {
					det = x.Detail
				}
			}
			rp := Replay{Property: v.Prop, Harness: h.Name, Variant: os.Getenv("VERIF_VARIANT"), Oracle: v.Oracle, Sig: v.Sig, Detail: det, Seed: seed, Tape: mt,
				Fingerprint: fr.Fingerprint, Steps: fr.Steps, OrigDraws: r.Draws, MinDraws: tapeLen(mt), Faults: fr.Faults, Trace: abbreviate(fr.Log, 400)}
			if replayDir != "" {
				name := fmt.Sprintf("%s-%s-%s-%d.json", strings.ReplaceAll(v.Prop, "*", "any"), h.Name, slug(v.Oracle+"-"+v.Sig), seed)
				path := filepath.Join(replayDir, name)
				writeJSON(path, rp)
				rec.Replay = path
			}
		}
	}
	sum.WallS = time.Since(t0).Seconds()
	for k := range nontriv {
		sum.Nontrivial = append(sum.Nontrivial, k)
	}
	sum.AllFps = len(allfp)
	for k := range states {
		sum.States = append(sum.States, fmt.Sprintf("%016x", k))
	}
	for _, rec := range byKey {
		sum.Violations = append(sum.Violations, *rec)
	}
	sort.Slice(sum.Violations, func(i, j int) bool { return sum.Violations[i].Seed < sum.Violations[j].Seed })
	writeJSON(os.Getenv("VERIF_OUT"), sum)
}

func slug(s string) string {
	b := []byte(s)
	for i, c := range b {
		if !(c >= 'a' && c <= 'z' || c >= 'A' && c <= 'Z' || c >= '0' && c <= '9' || c == '-') {
			b[i] = '_'
		}
	}
	if len(b) > 60 {
		b = b[:60]
	}
	return string(b)
}

// panicSig is a schedule-independent signature of a panic: its message and the first repository
// frame of its stack.
func panicSig(p string) string {
	msg := firstLine(p)
	if i := strings.Index(msg, ": "); i >= 0 {
		msg = msg[i+2:]
	}
	frame := ""
	for _, l := range strings.Split(p, "\n") {
		if strings.HasPrefix(l, "github.com/obolnetwork/charon/") && !strings.Contains(l, "/verifrt.") {
			frame = l
			if i := strings.LastIndex(frame, "("); i > 0 {
				frame = frame[:i]
			}
			break
		}
	}
	return msg + " @ " + frame
}

func firstLine(s string) string {
	if i := strings.IndexByte(s, '\n'); i >= 0 {
		return s[:i]
	}
	return s
}

func abbreviate(l []string, n int) []string {
	if len(l) <= n {
		return l
	}
	out := append([]string(nil), l[:n/2]...)
	out = append(out, fmt.Sprintf("... %d events omitted ...", len(l)-n))
	return append(out, l[len(l)-n/2:]...)
}
