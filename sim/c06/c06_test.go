//go:build verif

// Harness for C06: the in-memory duty store (core/dutydb.MemDB) with the real core.Deadliner, driven
// by concurrent Store / Await* / PubKeyByAttestation / cancel / expiry under the seeded scheduler.
// Every recorded history is checked against a reference model keyed as the property statement keys
// the data (attestation slot+committee, pubkey-by-attestation slot+committee+validator, proposal
// slot, aggregate slot+attestation-data-root+committee, sync contribution slot+subcommittee+block
// root): uniqueness of answers, rejection of conflicting data, refusal of expired duties,
// attribution of every answer and promptness of blocked queries at quiescence.
package c06

import (
	"context"
	"errors"
	"fmt"
	"sort"
	"strings"
	"sync"
	"testing"
	"time"

	bitfield "github.com/OffchainLabs/go-bitfield"
	"github.com/anishathalye/porcupine"
	eth2api "github.com/attestantio/go-eth2-client/api"
	eth2v1 "github.com/attestantio/go-eth2-client/api/v1"
	eth2spec "github.com/attestantio/go-eth2-client/spec"
	"github.com/attestantio/go-eth2-client/spec/altair"
	"github.com/attestantio/go-eth2-client/spec/electra"
	eth2p0 "github.com/attestantio/go-eth2-client/spec/phase0"

	"github.com/obolnetwork/charon/core"
	"github.com/obolnetwork/charon/core/dutydb"
	"github.com/obolnetwork/charon/verifrt"

	"verifsim/kernel"
	"verifsim/simdata"
)

const prop = "C06"

// ---- keys of the reference model ----------------------------------------------------------------

type kkind int

const (
	kAtt kkind = iota // attestation data:      slot, a = committee index (0 = post-Electra wildcard alias)
	kPK               // pubkey by attestation: slot, a = committee index, b = validator index
	kPro              // proposal:              slot
	kAgg              // aggregate:             slot, a = committee index, b = id of the attestation data (=> data root)
	kCon              // sync contribution:     slot, a = subcommittee, b = id of the beacon block root
)

var kindName = [...]string{"att", "pk", "pro", "agg", "con"}

// fillerSlot: first (odd) slot of the never-queried duties of an expiry burst.
const fillerSlot = 1001

// Slots: every duty type has an even slot that never expires during a run and an odd slot that
// expires (when the run enables expiry).
var baseSlot = [...]uint64{kAtt: 10, kPK: 10, kPro: 20, kAgg: 30, kCon: 40}

type key struct {
	kind kkind
	slot uint64
	a, b uint64
}

func (k key) String() string {
	switch k.kind {
	case kAtt:
		return fmt.Sprintf("att(slot=%d,comm=%d)", k.slot, k.a)
	case kPK:
		return fmt.Sprintf("pk(slot=%d,comm=%d,val=%d)", k.slot, k.a, k.b)
	case kPro:
		return fmt.Sprintf("pro(slot=%d)", k.slot)
	case kAgg:
		return fmt.Sprintf("agg(slot=%d,comm=%d,data=%d)", k.slot, k.a, k.b)
	default:
		return fmt.Sprintf("con(slot=%d,sub=%d,root=%d)", k.slot, k.a, k.b)
	}
}

func keyLess(x, y key) bool {
	if x.kind != y.kind {
		return x.kind < y.kind
	}
	if x.slot != y.slot {
		return x.slot < y.slot
	}
	if x.a != y.a {
		return x.a < y.a
	}
	return x.b < y.b
}

func dutyOf(kind kkind, slot uint64) core.Duty {
	switch kind {
	case kAtt, kPK:
		return core.NewAttesterDuty(slot)
	case kPro:
		return core.NewProposerDuty(slot)
	case kAgg:
		return core.NewAggregatorDuty(slot)
	default:
		return core.NewSyncContributionDuty(slot)
	}
}

// ---- deterministic data ---------------------------------------------------------------------------
// A value is val = id*2 + src. id is a per-run counter embedded in the datum (head root / state root
// + graffiti / signature), so every answer is attributable; src (attestation data only) selects the
// source/target checkpoints, the part that the committee-index-0 alias compares.

const unknownVal = ^uint64(0)

func attData(slot, id, src uint64) *eth2p0.AttestationData {
	return &eth2p0.AttestationData{
		Slot:            eth2p0.Slot(slot),
		Index:           0, // post-Electra
		BeaconBlockRoot: simdata.Root(id),
		Source:          &eth2p0.Checkpoint{Epoch: eth2p0.Epoch(slot/32 + 1), Root: simdata.Root(9000 + src)},
		Target:          &eth2p0.Checkpoint{Epoch: eth2p0.Epoch(slot/32 + 2), Root: simdata.Root(9100 + src)},
	}
}

func attUnsigned(slot, comm, valIdx uint64, pk int, id, src uint64) core.AttestationData {
	epk, err := simdata.PubKey(pk).ToETH2()
	if err != nil {
		panic(err)
	}
	return core.AttestationData{
		Data: *attData(slot, id, src),
		Duty: eth2v1.AttesterDuty{
			PubKey: epk, Slot: eth2p0.Slot(slot), ValidatorIndex: eth2p0.ValidatorIndex(valIdx), CommitteeIndex: eth2p0.CommitteeIndex(comm),
			CommitteeLength: 8, CommitteesAtSlot: 4, ValidatorCommitteeIndex: valIdx,
		},
	}
}

func proposal(slot, id uint64) core.VersionedProposal {
	var graffiti [32]byte
	copy(graffiti[:], fmt.Sprintf("c06-block-%d", id))
	p, err := core.NewVersionedProposal(&eth2api.VersionedProposal{
		Version: eth2spec.DataVersionPhase0,
		Phase0: &eth2p0.BeaconBlock{
			Slot: eth2p0.Slot(slot), ProposerIndex: 3, ParentRoot: simdata.Root(6000 + slot), StateRoot: simdata.Root(id),
			Body: &eth2p0.BeaconBlockBody{
				RANDAOReveal: simdata.Sig(slot),
				ETH1Data:     &eth2p0.ETH1Data{DepositRoot: simdata.Root(1), BlockHash: make([]byte, 32)},
				Graffiti:     graffiti,
			},
		},
	})
	if err != nil {
		panic(err)
	}
	return p
}

// aggData is the attestation data an aggregate is about; its hash tree root is the "aggregate root".
func aggData(slot, dataID uint64) *eth2p0.AttestationData {
	return &eth2p0.AttestationData{
		Slot:            eth2p0.Slot(slot),
		Index:           0,
		BeaconBlockRoot: simdata.Root(7000 + dataID),
		Source:          &eth2p0.Checkpoint{Epoch: 1, Root: simdata.Root(9000)},
		Target:          &eth2p0.Checkpoint{Epoch: 2, Root: simdata.Root(9100)},
	}
}

func aggDataRoot(slot, dataID uint64) eth2p0.Root {
	r, err := aggData(slot, dataID).HashTreeRoot()
	if err != nil {
		panic(err)
	}
	return r
}

func aggAtt(slot, comm, dataID, id uint64) core.VersionedAggregatedAttestation {
	bits := bitfield.NewBitlist(16)
	bits.SetBitAt(id%16, true)
	bits.SetBitAt((id/16)%16, true)
	cb := bitfield.NewBitvector64()
	cb.SetBitAt(comm, true)
	a, err := core.NewVersionedAggregatedAttestation(&eth2spec.VersionedAttestation{
		Version: eth2spec.DataVersionElectra,
		Electra: &electra.Attestation{AggregationBits: bits, Data: aggData(slot, dataID), Signature: simdata.Sig(id), CommitteeBits: cb},
	})
	if err != nil {
		panic(err)
	}
	return a
}

func conRoot(rootID uint64) eth2p0.Root { return simdata.Root(8000 + rootID) }

func contrib(slot, sub, rootID, id uint64) core.SyncContribution {
	bits := bitfield.NewBitvector128()
	bits.SetBitAt(id%128, true)
	return core.NewSyncContribution(&altair.SyncCommitteeContribution{
		Slot: eth2p0.Slot(slot), BeaconBlockRoot: conRoot(rootID), SubcommitteeIndex: sub, AggregationBits: bits, Signature: simdata.Sig(id),
	})
}

func pkVal(pk int) uint64 { return uint64(pk+1) * 2 }

// ---- history --------------------------------------------------------------------------------------

type opKind int

const (
	opStore  opKind = iota // one (Store call, key, value) sub-write
	opAwait                // blocking query
	opLookup               // PubKeyByAttestation
)

var opName = [...]string{"store", "await", "lookup"}

type op struct {
	client   int
	kind     opKind
	key      key
	val      uint64 // store: value offered; await/lookup: value returned (0 = none)
	weak     bool   // store on the committee-0 alias key: clash only if source/target differ
	storeID  int    // sub-writes of one Store call share it
	entry    int    // index of the set entry this sub-write belongs to
	nEntries int
	call     int64
	ret      int64 // 0 = never returned
	callT    time.Duration
	retT     time.Duration
	err      string // "", "clash", "expired", "ctx", "notfound", "other:..."
	timeout  time.Duration
}

type hist struct {
	mu  sync.Mutex
	seq int64
	ops []*op
}

func (h *hist) stamp() int64 { h.mu.Lock(); defer h.mu.Unlock(); h.seq++; return h.seq }
func (h *hist) add(o *op)    { h.mu.Lock(); h.ops = append(h.ops, o); h.mu.Unlock() }

func classify(err error) string {
	switch {
	case err == nil:
		return ""
	case errors.Is(err, context.DeadlineExceeded), errors.Is(err, context.Canceled):
		return "ctx"
	case strings.Contains(err.Error(), "clashing"):
		return "clash"
	case strings.Contains(err.Error(), "expired or exempt"):
		return "expired"
	case strings.Contains(err.Error(), "pubkey not found"):
		return "notfound"
	default:
		return "other:" + strings.SplitN(err.Error(), "\n", 2)[0]
	}
}

// ---- generator state ------------------------------------------------------------------------------

type gen struct {
	mu        sync.Mutex
	nextID    uint64
	nextStore int
	offered   map[key][]uint64 // values ever generated per list key, in generation order
	roots     [5]map[[32]byte]uint64
}

func newGen() *gen {
	g := &gen{offered: map[key][]uint64{}}
	for i := range g.roots {
		g.roots[i] = map[[32]byte]uint64{}
	}
	return g
}

func (g *gen) register(kind kkind, root [32]byte, val uint64) {
	g.mu.Lock()
	g.roots[kind][root] = val
	g.mu.Unlock()
}

func (g *gen) lookup(kind kkind, root [32]byte, err error) uint64 {
	if err != nil {
		return unknownVal
	}
	g.mu.Lock()
	defer g.mu.Unlock()
	if v, ok := g.roots[kind][root]; ok {
		return v
	}
	return unknownVal
}

// pick returns an earlier value of the list key (equal re-store, or a conflicting one if that value
// lost) or a fresh one. A zero tape re-stores the first value.
func (g *gen) pick(lk key, alwaysFirst bool, srcChance bool) (val uint64, fresh bool) {
	g.mu.Lock()
	prev := append([]uint64(nil), g.offered[lk]...)
	g.mu.Unlock()
	if len(prev) > 0 && (alwaysFirst || verifrt.Intn("w", 2) == 0) {
		if alwaysFirst {
			return prev[0], false
		}
		return prev[verifrt.Intn("w", len(prev))], false
	}
	var src uint64
	if srcChance && verifrt.Chance("w", 1, 4) {
		src = 1
	}
	g.mu.Lock()
	g.nextID++
	val = g.nextID*2 + src
	g.offered[lk] = append(g.offered[lk], val)
	g.mu.Unlock()
	return val, true
}

// ---- run ------------------------------------------------------------------------------------------

type runState struct {
	h          *hist
	g          *gen
	expEnabled bool
	expBase    time.Duration
}

// deadlineOf returns the expiry instant (relative to run start) of the duties of a slot. The extra
// 500us keeps it off the millisecond grid on which clients act, so no Store is ever issued at the
// deadline instant itself (which the statement leaves unconstrained).
func (st *runState) deadlineOf(slot uint64) (time.Duration, bool) {
	if !st.expEnabled || slot%2 == 0 {
		return 0, false
	}
	if slot >= fillerSlot { // expiry burst: all fillers expire right after expBase
		return st.expBase + time.Duration(slot-fillerSlot)*20*time.Microsecond, true
	}
	return st.expBase + time.Duration(slot/10)*2*time.Millisecond + 500*time.Microsecond, true
}

func TestSim(t *testing.T) {
	kernel.Main(t, kernel.Harness{Name: "c06", Horizon: 10 * time.Minute, Body: body, After: after, PreemptMax: 20 * time.Millisecond})
}

// run hands the recorded history to After (one run at a time per process).
var run *runState

func body(c *kernel.Ctx) {
	ctx, cancelAll := context.WithCancel(context.Background())
	defer cancelAll()
	start := time.Now()

	mask := 1 + verifrt.Intn("cfg", 15) // bit0 attester, bit1 proposer, bit2 aggregator, bit3 sync contribution
	nClients := 2 + verifrt.Intn("cfg", 4)
	nOps := 1 + verifrt.Intn("cfg", 5)
	dom := 1 + verifrt.Intn("cfg", 2) // size of the committee / data-root / subcommittee domains
	expMode := verifrt.Intn("cfg", 3)
	expBase := time.Duration(5+verifrt.Intn("cfg", 40)) * time.Millisecond
	noAggClash := strings.Contains(c.Mode, "noaggclash") // variant: never offer two different aggregates for one root

	var types []kkind
	for i, k := range []kkind{kAtt, kPro, kAgg, kCon} {
		if mask&(1<<i) != 0 {
			types = append(types, k)
		}
	}

	h := &hist{}
	g := newGen()
	st := &runState{h: h, g: g, expEnabled: expMode > 0, expBase: expBase}
	c.Set("types", mask)
	c.Set("clients", nClients)
	c.Set("ops_per_client", nOps)
	c.Set("expiry", st.expEnabled)

	dl := core.NewDeadliner(ctx, "c06", func(d core.Duty) (time.Time, bool) {
		if t, ok := st.deadlineOf(d.Slot); ok {
			return start.Add(t), true
		}
		return start.Add(time.Hour), true
	})
	db := dutydb.NewMemDB(dl)

	// Expiry burst (a quarter of the runs with expiry): more duties than the deadliner's output buffer
	// holds (10) are stored up front and expire together while no Store drains the buffer, as after a
	// beacon node outage. They are never queried; whatever the store does about them, the clients'
	// operations below must behave as without them.
	if st.expEnabled && verifrt.Intn("cfg", 4) == 0 {
		nFill := 11 + verifrt.Intn("cfg", 4)
		for i := 0; i < nFill; i++ {
			slot := uint64(fillerSlot + 2*i)
			if err := db.Store(ctx, core.NewProposerDuty(slot), core.UnsignedDataSet{simdata.PubKey(0): proposal(slot, 1)}); err != nil {
				c.Violate(prop, "unexpected-error", "pro:filler-store-error", "storing filler proposal %d at t=0: %v", slot, err)
			}
		}
		verifrt.Probe("expiry_burst")
		c.Set("expiry_burst", nFill)
	}

	pickSlot := func(kind kkind) uint64 {
		s := baseSlot[kind]
		if st.expEnabled && verifrt.Intn("w", 2) == 1 {
			s++
		}
		return s
	}
	commOrder := []uint64{1, 0, 2}

	var wg sync.WaitGroup
	issued := make(chan struct{}, nClients)
	for cl := 0; cl < nClients; cl++ {
		wg.Add(1)
		verifrt.Go(func() {
			defer wg.Done()
			for i := 0; i < nOps; i++ {
				if d := verifrt.Intn("w", 4); d > 0 {
					verifrt.Sleep(time.Duration(d) * time.Millisecond)
				}
				typ := types[verifrt.Intn("w", len(types))]
				last := i == nOps-1
				r := verifrt.Intn("w", 5)
				switch {
				case r == 4 && typ == kAtt:
					// PubKeyByAttestation
					k := key{kind: kPK, slot: pickSlot(kAtt), a: commOrder[verifrt.Intn("w", dom+1)], b: uint64(verifrt.Intn("w", 3))}
					o := &op{client: cl, kind: opLookup, key: k}
					if last {
						issued <- struct{}{}
					}
					o.call, o.callT = h.stamp(), verifrt.Now()
					h.add(o)
					pk, err := db.PubKeyByAttestation(ctx, k.slot, k.a, k.b)
					if ctx.Err() != nil {
						return
					}
					o.retT, o.err = verifrt.Now(), classify(err)
					if err == nil {
						o.val = unknownVal
						for j := 0; j < 3; j++ {
							if pk == simdata.PubKey(j) {
								o.val = pkVal(j)
							}
						}
					}
					o.ret = h.stamp()
					verifrt.Note("c%d lookup %v -> val=%d err=%s", cl, k, o.val, o.err)
				case r <= 1 || r == 4:
					// Await*, possibly with a timeout or an explicit cancel. The last op of a client may block for good.
					var k key
					switch typ {
					case kAtt:
						k = key{kind: kAtt, slot: pickSlot(kAtt), a: commOrder[verifrt.Intn("w", dom+1)]}
					case kPro:
						k = key{kind: kPro, slot: pickSlot(kPro)}
					case kAgg:
						k = key{kind: kAgg, slot: pickSlot(kAgg), a: uint64(1 + verifrt.Intn("w", dom)), b: uint64(verifrt.Intn("w", dom))}
					default:
						k = key{kind: kCon, slot: pickSlot(kCon), a: uint64(verifrt.Intn("w", dom)), b: uint64(verifrt.Intn("w", dom))}
					}
					o := &op{client: cl, kind: opAwait, key: k}
					actx := ctx
					if !last || verifrt.Intn("w", 3) == 0 {
						o.timeout = time.Duration(1+verifrt.Intn("w", 30)) * time.Millisecond
						var cancel context.CancelFunc
						if verifrt.Intn("w", 2) == 0 {
							actx, cancel = context.WithTimeout(ctx, o.timeout)
						} else {
							// explicit cancellation by another goroutine: races with stores of the same instant
							actx, cancel = context.WithCancel(ctx)
							d := o.timeout
							verifrt.Go(func() { verifrt.Sleep(d); cancel() })
						}
						defer cancel()
					}
					if last {
						issued <- struct{}{}
					}
					o.call, o.callT = h.stamp(), verifrt.Now()
					h.add(o)
					verifrt.Note("c%d await %v to=%v", cl, k, o.timeout)
					val, err := doAwait(actx, db, g, k)
					if ctx.Err() != nil {
						return // teardown phase: not part of the history
					}
					o.retT, o.err = verifrt.Now(), classify(err)
					if err == nil {
						o.val = val
						c.Progress()
					}
					o.ret = h.stamp()
					verifrt.Note("c%d await %v -> val=%d err=%s", cl, k, o.val, o.err)
				default:
					// Store of a set of the chosen duty type: fresh, equal, conflicting and partially conflicting entries.
					slot := pickSlot(typ)
					set := core.UnsignedDataSet{}
					var subs []*op
					g.mu.Lock()
					g.nextStore++
					sid := g.nextStore
					g.mu.Unlock()
					sub := func(entry int, k key, val uint64, weak bool) {
						subs = append(subs, &op{client: cl, kind: opStore, key: k, val: val, weak: weak, storeID: sid, entry: entry})
					}
					nEntries := 0
					pk0 := verifrt.Intn("w", 3)
					switch typ {
					case kAtt:
						nEntries = 1 + verifrt.Intn("w", 3)
						for j := 0; j < nEntries; j++ {
							pk := (pk0 + j) % 3
							valIdx := uint64(pk)
							if verifrt.Chance("w", 1, 8) {
								valIdx = uint64((pk + 1) % 3) // another validator's index: pubkey clash candidate
							}
							comm := uint64(1 + verifrt.Intn("w", dom))
							if verifrt.Chance("w", 1, 10) {
								comm = 0 // a duty really in committee 0
							}
							val, fresh := g.pick(key{kind: kAtt, slot: slot, a: 999}, false, true)
							if fresh {
								root, err := attData(slot, val/2, val&1).HashTreeRoot()
								if err != nil {
									panic(err)
								}
								g.register(kAtt, root, val)
							}
							set[simdata.PubKey(pk)] = attUnsigned(slot, comm, valIdx, pk, val/2, val&1)
							sub(j, key{kind: kPK, slot: slot, a: comm, b: valIdx}, pkVal(pk), false)
							sub(j, key{kind: kAtt, slot: slot, a: comm}, val, false)
							if comm != 0 {
								sub(j, key{kind: kPK, slot: slot, b: valIdx}, pkVal(pk), false)
								sub(j, key{kind: kAtt, slot: slot}, val, true)
							}
						}
					case kPro:
						nEntries = 1
						val, fresh := g.pick(key{kind: kPro, slot: slot}, false, false)
						p := proposal(slot, val/2)
						if fresh {
							root, err := p.Root()
							if err != nil {
								panic(err)
							}
							g.register(kPro, root, val)
						}
						set[simdata.PubKey(pk0)] = p
						sub(0, key{kind: kPro, slot: slot}, val, false)
					case kAgg:
						nEntries = 1 + verifrt.Intn("w", 2)
						for j := 0; j < nEntries; j++ {
							k := key{kind: kAgg, slot: slot, a: uint64(1 + verifrt.Intn("w", dom)), b: uint64(verifrt.Intn("w", dom))}
							val, fresh := g.pick(k, noAggClash, false)
							a := aggAtt(slot, k.a, k.b, val/2)
							if fresh {
								root, err := a.HashTreeRoot()
								if err != nil {
									panic(err)
								}
								g.register(kAgg, root, val)
							}
							set[simdata.PubKey((pk0+j)%3)] = a
							sub(j, k, val, false)
						}
					default:
						nPks := 1 + verifrt.Intn("w", 2)
						for j := 0; j < nPks; j++ {
							plural := verifrt.Intn("w", 2) == 1
							n := 1
							if plural {
								n = 1 + verifrt.Intn("w", 2)
							}
							var cs core.SyncContributions
							for x := 0; x < n; x++ {
								k := key{kind: kCon, slot: slot, a: uint64(verifrt.Intn("w", dom)), b: uint64(verifrt.Intn("w", dom))}
								val, fresh := g.pick(k, false, false)
								sc := contrib(slot, k.a, k.b, val/2)
								if fresh {
									root, err := sc.HashTreeRoot()
									if err != nil {
										panic(err)
									}
									g.register(kCon, root, val)
								}
								cs = append(cs, sc)
								sub(nEntries, k, val, false)
								nEntries++
							}
							if plural {
								set[simdata.PubKey((pk0+j)%3)] = cs
							} else {
								set[simdata.PubKey((pk0+j)%3)] = cs[0]
							}
						}
					}
					if last {
						issued <- struct{}{}
					}
					cs, ct := h.stamp(), verifrt.Now()
					for _, o := range subs {
						o.call, o.callT, o.nEntries = cs, ct, nEntries
						h.add(o)
						verifrt.Note("c%d store#%d e%d %v val=%d", cl, sid, o.entry, o.key, o.val)
					}
					// a storing client may be descheduled between any two steps of the call while time passes
					// (readers are not: a reader that is descheduled until its own timeout fires may rightly
					// return the timeout although the key was stored meanwhile)
					verifrt.SetPreemptible(true)
					err := db.Store(ctx, dutyOf(typ, slot), set)
					verifrt.SetPreemptible(false)
					if ctx.Err() != nil {
						return
					}
					rt, es := verifrt.Now(), classify(err)
					rs := h.stamp()
					for _, o := range subs {
						o.retT, o.ret, o.err = rt, rs, es
					}
					if err == nil {
						c.Progress()
					}
					verifrt.Note("c%d store#%d -> err=%s", cl, sid, es)
				}
			}
		})
	}
	for i := 0; i < nClients; i++ {
		verifrt.Recv(issued)
	}
	// Quiescence: simulated time only advances when no goroutine is runnable, so after this sleep
	// every wake-up, timeout, cancellation and expiry that was going to happen without further input
	// has happened (all timeouts are <= 30ms, all expiring deadlines <= 55ms after start).
	verifrt.Sleep(2 * time.Second)
	evaluate(c, st, verifrt.Now())
	c.Set("ops", nClients*nOps)
	run = st
	cancelAll()
	verifrt.WGWait(&wg)
}

func doAwait(ctx context.Context, db *dutydb.MemDB, g *gen, k key) (uint64, error) {
	switch k.kind {
	case kAtt:
		d, err := db.AwaitAttestation(ctx, k.slot, k.a)
		if err != nil {
			return 0, err
		}
		root, herr := d.HashTreeRoot()
		if uint64(d.Slot) != k.slot {
			return unknownVal, nil
		}
		return g.lookup(kAtt, root, herr), nil
	case kPro:
		p, err := db.AwaitProposal(ctx, k.slot)
		if err != nil {
			return 0, err
		}
		root, herr := p.Root()
		return g.lookup(kPro, root, herr), nil
	case kAgg:
		a, err := db.AwaitAggAttestation(ctx, k.slot, aggDataRoot(k.slot, k.b), eth2p0.CommitteeIndex(k.a))
		if err != nil {
			return 0, err
		}
		root, herr := a.HashTreeRoot()
		return g.lookup(kAgg, root, herr), nil
	default:
		s, err := db.AwaitSyncContribution(ctx, k.slot, k.a, conRoot(k.b))
		if err != nil {
			return 0, err
		}
		root, herr := s.HashTreeRoot()
		return g.lookup(kCon, root, herr), nil
	}
}

// compat reports whether value v may be stored (successfully) on a key currently holding s.
func compat(s, v uint64, weak bool) bool {
	return s == v || (weak && s&1 == v&1)
}

// evaluate runs the direct oracles over the recorded history, inside the bubble at quiescence.
func evaluate(c *kernel.Ctx, st *runState, now time.Duration) {
	h := st.h
	h.mu.Lock()
	defer h.mu.Unlock()

	// one report per (oracle, shape, key) and run
	seen := map[string]bool{}
	violate := func(oracle, sig string, k key, format string, a ...any) {
		id := oracle + "|" + sig + "|" + k.String()
		if seen[id] {
			return
		}
		seen[id] = true
		c.Violate(prop, oracle, sig, format, a...)
	}

	byKey := map[key][]*op{}
	var keys []key
	stores := map[int][]*op{}
	var storeIDs []int
	for _, o := range h.ops {
		if _, ok := byKey[o.key]; !ok {
			keys = append(keys, o.key)
		}
		byKey[o.key] = append(byKey[o.key], o)
		if o.kind == opStore {
			if _, ok := stores[o.storeID]; !ok {
				storeIDs = append(storeIDs, o.storeID)
			}
			stores[o.storeID] = append(stores[o.storeID], o)
		}
		if strings.HasPrefix(o.err, "other:") {
			c.Violate(prop, "unexpected-error", kindName[o.key.kind]+":"+opName[o.kind]+"-error", "client %d %s on %v failed: %s", o.client, opName[o.kind], o.key, o.err)
		}
	}
	sort.Slice(keys, func(i, j int) bool { return keyLess(keys[i], keys[j]) })
	sort.Ints(storeIDs)

	// (E) a Store invoked strictly after its duty's deadline must be refused.
	lastTrim := time.Duration(-1) // a successful Store after some deadline trims expired duties
	for _, id := range storeIDs {
		o := stores[id][0]
		if o.ret == 0 {
			c.Violate(prop, "unexpected-error", kindName[o.key.kind]+":store-never-returned", "client %d Store#%d invoked at %v never returned", o.client, id, o.callT)
			continue
		}
		switch o.err {
		case "clash":
			verifrt.Probe("clash_rejected")
		case "":
			if st.expEnabled && o.retT > st.expBase+time.Millisecond {
				lastTrim = o.retT
			}
		}
		dl, exp := st.deadlineOf(o.key.slot)
		if !exp || o.callT <= dl {
			continue
		}
		verifrt.Probe("store_after_expiry")
		if o.err == "" {
			c.Violate(prop, "expired-refused", kindName[o.key.kind]+":store-after-deadline-accepted",
				"client %d Store#%d of %s duty slot %d invoked at t=%v, after the duty's deadline t=%v, returned nil", o.client, id, kindName[o.key.kind], o.key.slot, o.callT, dl)
		}
	}

	for _, k := range keys {
		ops := byKey[k]
		kn := kindName[k.kind]
		dl, exp := st.deadlineOf(k.slot)
		live := func(o *op) bool { return !exp || o.callT < dl } // store issued while the duty was unexpired

		// values offered for this key by stores issued while the duty was unexpired / at any time
		offeredLive, offeredAny := map[uint64]bool{}, map[uint64]bool{}
		var okStores []*op
		storedAt, firstOKCall := time.Duration(-1), int64(-1)
		for _, o := range ops {
			if o.kind != opStore {
				continue
			}
			offeredAny[o.val] = true
			if !live(o) {
				continue
			}
			offeredLive[o.val] = true
			if o.ret != 0 && o.err == "" {
				okStores = append(okStores, o)
				if storedAt < 0 || o.retT < storedAt {
					storedAt = o.retT
				}
				if firstOKCall < 0 || o.call < firstOKCall {
					firstOKCall = o.call
				}
			}
		}

		// (R) two successful stores of conflicting data under one key: the later one was not rejected.
		for i, x := range okStores {
			for _, y := range okStores[i+1:] {
				if x.val == y.val || ((x.weak || y.weak) && x.val&1 == y.val&1) {
					continue
				}
				violate("rejection", kn+":conflicting-stores-both-accepted", k,
					"key %v: Store#%d (client %d, value %d, t=%v) and Store#%d (client %d, value %d, t=%v) carry conflicting data and both returned nil", k, x.storeID, x.client, x.val, x.retT, y.storeID, y.client, y.val, y.retT)
			}
		}

		// (U) all answers identical, and equal to a successfully (strictly) stored datum; (A) attributable.
		var first *op
		for _, o := range ops {
			if o.kind == opStore || o.ret == 0 || o.err != "" {
				continue
			}
			if first == nil {
				first = o
			} else if o.val != first.val {
				violate("uniqueness", kn+":answers-differ", k,
					"key %v: client %d %s returned value %d at t=%v but client %d %s returned value %d at t=%v", k, first.client, opName[first.kind], first.val, first.retT, o.client, opName[o.kind], o.val, o.retT)
			}
			for _, s := range okStores {
				if !s.weak && s.val != o.val {
					violate("uniqueness", kn+":answer-differs-from-stored", k,
						"key %v: client %d %s returned value %d at t=%v although Store#%d of value %d returned nil (t=%v)", k, o.client, opName[o.kind], o.val, o.retT, s.storeID, s.val, s.retT)
					break
				}
			}
			switch {
			case offeredLive[o.val]:
			case offeredAny[o.val]:
				violate("expired-refused", kn+":answer-from-store-after-deadline", k,
					"key %v: client %d %s returned value %d at t=%v which only Stores issued after the duty's deadline (t=%v) supplied", k, o.client, opName[o.kind], o.val, o.retT, dl)
			default:
				violate("attribution", kn+":answer-never-stored", k,
					"key %v: client %d %s returned value %d at t=%v which no Store ever supplied for that key", k, o.client, opName[o.kind], o.val, o.retT)
			}
		}

		// (P) promptness: no satisfiable blocking query is left blocked or allowed to time out.
		for _, o := range ops {
			if o.kind != opAwait {
				continue
			}
			if o.ret != 0 && o.err == "ctx" {
				verifrt.Probe("await_cancelled")
			}
			if o.ret != 0 && o.err == "" && firstOKCall >= 0 && o.call < firstOKCall {
				verifrt.Probe("await_resolved_by_later_store")
			}
			if exp && o.callT < dl && (o.ret == 0 || o.retT > dl) && lastTrim > dl {
				verifrt.Probe("expiry_trim_with_pending_query")
			}
			if o.ret == 0 && o.timeout > 0 && o.callT+o.timeout < now {
				violate("unexpected-error", kn+":await-ignored-cancel", k, "client %d Await(%v) invoked at %v with cancel after %v has not returned at quiescence (t=%v)", o.client, k, o.callT, o.timeout, now)
				continue
			}
			if storedAt < 0 {
				continue
			}
			if o.ret == 0 && !exp {
				violate("promptness", kn+":await-blocked-at-quiescence", k,
					"client %d Await(%v) invoked at %v still blocked at quiescence (t=%v) although a Store providing that key returned nil at t=%v", o.client, k, o.callT, now, storedAt)
			}
			// a Store that was descheduled inside the call (it took simulated time) may have held the store's mutex
			// meanwhile: a query that overlaps it can be kept from registering until its own timeout has fired,
			// and may then rightly return that timeout
			behindSlowStore := false
			for _, ss := range h.ops {
				if ss.kind == opStore && (ss.ret == 0 || ss.retT > ss.callT) && ss.callT <= o.retT && (ss.ret == 0 || ss.retT >= o.callT) {
					behindSlowStore = true
				}
			}
			if o.ret != 0 && o.err == "ctx" && storedAt < o.retT && (!exp || o.retT < dl) && behindSlowStore {
				verifrt.Probe("await_timed_out_behind_descheduled_store")
			} else if o.ret != 0 && o.err == "ctx" && storedAt < o.retT && (!exp || o.retT < dl) {
				violate("promptness", kn+":await-cancelled-after-store", k,
					"client %d Await(%v) invoked at %v was cancelled/timed out at %v although a Store providing that key returned nil earlier, at t=%v", o.client, k, o.callT, o.retT, storedAt)
			}
		}
	}

	// probe: multi-entry set in which exactly one entry clashes with data stored before the call
	firstVal := func(k key, before int64) (uint64, bool) {
		var best *op
		for _, o := range byKey[k] {
			if o.kind == opStore && o.ret != 0 && o.err == "" && o.ret < before && !o.weak && (best == nil || o.ret < best.ret) {
				best = o
			}
		}
		if best == nil {
			return 0, false
		}
		return best.val, true
	}
	for _, id := range storeIDs {
		subs := stores[id]
		if subs[0].err != "clash" || subs[0].nEntries < 2 {
			continue
		}
		clashing := map[int]bool{}
		for _, o := range subs {
			if v, ok := firstVal(o.key, o.call); ok && !compat(v, o.val, o.weak) {
				clashing[o.entry] = true
			}
		}
		if len(clashing) == 1 {
			verifrt.Probe("multi_entry_set_one_clash")
		}
	}
}

// ---- sequential reference model (per key) ---------------------------------------------------------

type in struct {
	kind   opKind
	val    uint64
	weak   bool
	failed bool // the Store call returned an error: this sub-write may or may not have been applied
}
type out struct {
	val uint64
	err string
}

var model = (&porcupine.NondeterministicModel{
	Init: func() []interface{} { return []interface{}{uint64(0)} },
	Step: func(state, input, output interface{}) []interface{} {
		s, i, o := state.(uint64), input.(in), output.(out)
		switch i.kind {
		case opStore:
			if !i.failed {
				// accepted: the key was empty (first write wins) or held non-conflicting data (kept)
				switch {
				case s == 0:
					return []interface{}{i.val}
				case compat(s, i.val, i.weak):
					return []interface{}{s}
				}
				return nil // conflicting data was accepted
			}
			// rejected call: stored data never changes; on an empty key this entry may have been
			// applied before the call failed on another entry (the statement leaves that open)
			if s != 0 {
				return []interface{}{s}
			}
			return []interface{}{uint64(0), i.val}
		case opAwait:
			if o.err != "" {
				return []interface{}{s} // cancelled: no effect (promptness is the quiescence oracle)
			}
			if s != 0 && s == o.val {
				return []interface{}{s}
			}
			return nil
		case opLookup:
			if o.err != "" {
				if s == 0 {
					return []interface{}{s}
				}
				return nil // not found although stored
			}
			if s != 0 && s == o.val {
				return []interface{}{s}
			}
			return nil
		}
		return nil
	},
	Equal: func(a, b interface{}) bool { return a == b },
}).ToModel()

// after runs outside the bubble: linearizability of every key's history against the
// first-write-wins model. For a duty that expires during the run only the operations completed
// before its deadline are checked (afterwards the store trims the duty asynchronously; the direct
// oracles cover that phase).
func after(c *kernel.Ctx) {
	st := run
	run = nil
	if st == nil {
		return
	}
	byKey := map[key][]porcupine.Operation{}
	var keys []key
	// Stores that were descheduled inside the call (they took simulated time, possibly holding the mutex)
	var slow []*op
	maxStamp := int64(0)
	for _, o := range st.h.ops {
		if o.kind == opStore && (o.ret == 0 || o.retT > o.callT) {
			slow = append(slow, o)
		}
		maxStamp = max(maxStamp, o.call, o.ret)
	}
	for _, o := range st.h.ops {
		if o.ret == 0 || strings.HasPrefix(o.err, "other:") {
			continue // pending query: no effect; unexpected errors are reported by evaluate
		}
		ret := o.ret
		if dl, exp := st.deadlineOf(o.key.slot); exp && o.retT >= dl {
			if o.kind == opStore && (o.err == "" || o.err == "clash") && o.callT < dl {
				// a descheduled Store that began before the deadline and returned after it - successfully, or with a
				// clash on one entry after other entries had been applied (since releasing the mutex is a scheduling
				// point, a Store can be descheduled between applying its entries and returning): its inserts took
				// effect somewhere in between and reads completed before the deadline may have seen them
				maxStamp++
				ret = maxStamp
			} else {
				continue
			}
		}
		if o.kind == opAwait && o.err == "ctx" {
			// a query kept from registering by a descheduled Store until its own timeout fired may return the timeout
			behind := false
			for _, ss := range slow {
				if ss.callT <= o.retT && (ss.ret == 0 || ss.retT >= o.callT) {
					behind = true
				}
			}
			if behind {
				continue
			}
		}
		if _, ok := byKey[o.key]; !ok {
			keys = append(keys, o.key)
		}
		err := o.err
		if o.kind == opStore {
			err = ""
		}
		byKey[o.key] = append(byKey[o.key], porcupine.Operation{ClientId: o.client, Input: in{o.kind, o.val, o.weak, o.kind == opStore && o.err != ""}, Call: o.call, Output: out{o.val, err}, Return: ret})
	}
	sort.Slice(keys, func(i, j int) bool { return keyLess(keys[i], keys[j]) })
	for _, k := range keys {
		ops := byKey[k]
		switch porcupine.CheckOperationsTimeout(model, ops, 20*time.Second) {
		case porcupine.Illegal:
			c.Violate(prop, "linearizability", kindName[k.kind]+":per-key-history-illegal", "history of key %v is not linearizable against the first-write-wins model: %s", k, render(ops))
		case porcupine.Unknown:
			c.Set("porcupine_unknown", true)
		}
	}
}

func render(ops []porcupine.Operation) string {
	var sb strings.Builder
	for _, o := range ops {
		i, ou := o.Input.(in), o.Output.(out)
		switch i.kind {
		case opStore:
			res := "ok"
			if i.failed {
				res = "rejected"
			}
			w := ""
			if i.weak {
				w = ",alias"
			}
			fmt.Fprintf(&sb, "[c%d store(v%d%s)->%s %d..%d] ", o.ClientId, i.val, w, res, o.Call, o.Return)
		case opAwait:
			fmt.Fprintf(&sb, "[c%d await->v%d %q %d..%d] ", o.ClientId, ou.val, ou.err, o.Call, o.Return)
		default:
			fmt.Fprintf(&sb, "[c%d lookup->v%d %q %d..%d] ", o.ClientId, ou.val, ou.err, o.Call, o.Return)
		}
	}
	return sb.String()
}
