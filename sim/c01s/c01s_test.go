//go:build verif

// Harness c01s (additional harness for C01): the whole node as app.go wires it - the real
// core/scheduler (slot ticker, duty resolution through the real validator and duties caches, duty
// offsets), real fetcher, consensus, DutyDB, validator API, ParSigDB, ParSigEx, SigAgg, AggSigDB and
// the real core/bcast broadcaster - n of them on the simulated network, each with its own simulated
// beacon node and validator client. Nothing is triggered by the harness: duties happen because the
// simulated clock reaches their slot. The observation point is the beacon node's submission endpoints
// (what the cluster hands to the beacon node), behind the real broadcaster.
//
// Faults: message loss / duplication / delay, crash at any scheduling point and restart with amnesia
// at any time (the restarted node's scheduler resolves the running epoch again and re-triggers the
// running slot), stalls that make a node miss slot ticks, late starts, failing beacon calls (duty
// resolution, validators, attestation data, block production), slow / absent / repeating validator
// clients, and up to f Byzantine nodes injecting partial signatures made with their own share.
package c01s

import (
	"context"
	"fmt"
	"sort"
	"strconv"
	"sync"
	"testing"
	"time"

	eth2api "github.com/attestantio/go-eth2-client/api"
	eth2v1 "github.com/attestantio/go-eth2-client/api/v1"
	eth2spec "github.com/attestantio/go-eth2-client/spec"
	"github.com/attestantio/go-eth2-client/spec/altair"
	"github.com/attestantio/go-eth2-client/spec/bellatrix"
	"github.com/attestantio/go-eth2-client/spec/capella"
	eth2p0 "github.com/attestantio/go-eth2-client/spec/phase0"
	"github.com/OffchainLabs/go-bitfield"
	"github.com/libp2p/go-msgio/pbio"
	"google.golang.org/protobuf/proto"

	"github.com/obolnetwork/charon/app/errors"
	"github.com/obolnetwork/charon/app/eth2wrap"
	"github.com/obolnetwork/charon/core"
	"github.com/obolnetwork/charon/core/bcast"
	pbv1 "github.com/obolnetwork/charon/core/corepb/v1"
	"github.com/obolnetwork/charon/core/scheduler"
	"github.com/obolnetwork/charon/tbls"
	"github.com/obolnetwork/charon/verifrt"

	"verifsim/cluster"
	"verifsim/kernel"
	"verifsim/simbeacon"
	"verifsim/simnet"
)

const protoParSigEx = "/charon/parsigex/2.0.0"

func TestSim(t *testing.T) {
	kernel.Main(t, kernel.Harness{Name: "c01s", Horizon: 3 * time.Hour, Body: body, MaxSteps: 8_000_000})
}

type wbuf struct{ b []byte }

func (w *wbuf) Write(p []byte) (int, error) { w.b = append(w.b, p...); return len(p), nil }

func frame(m proto.Message) []byte {
	var w wbuf
	_ = pbio.NewDelimitedWriter(&w).WriteMsg(m)
	return w.b
}

// ---- the world: chain, assignments, observations ---------------------------------------------------

type obs struct {
	node int
	at   time.Duration
	root [32]byte
}

type world struct {
	c     *kernel.Ctx
	cl    *cluster.Cluster
	spe   uint64
	first uint64 // first slot of the run (begins at simulated time 0)
	last  uint64 // last slot whose duties the validator clients perform
	views int
	view  map[[2]uint64]int // (node, slot) -> beacon view
	prop  map[uint64]*cluster.Validator

	bnErrs   bool
	errsLeft int
	batchVC  bool // validator clients submit all attestations of a slot in one call
	syncMsgs bool // every validator is in the sync committee: its clients sign the head root of their view in every slot

	mu       sync.Mutex
	served   map[eth2p0.Root]string // block roots the beacon nodes produced in this run
	roots    map[string]obs         // (duty, validator) -> first submitted signing root
	done     map[string]bool
	randao   map[string]eth2p0.BLSSignature
	resolved int
}

func (w *world) epochOf(slot uint64) eth2p0.Epoch { return eth2p0.Epoch(slot / w.spe) }

// attSlot is the slot of epoch e in which validator v attests (one attestation per validator and epoch;
// validators 2k and 2k+1 attest in the same slot, in different committees, so that one attester duty
// carries several validators).
func (w *world) attSlot(e uint64, v *cluster.Validator) uint64 {
	return e*w.spe + (uint64(v.Index)/2*7+e*3)%w.spe
}

func (w *world) viewOf(node int, slot uint64) int { return w.view[[2]uint64{uint64(node), slot}] }

func (w *world) valByIndex(i eth2p0.ValidatorIndex) *cluster.Validator {
	for _, v := range w.cl.Vals {
		if v.Index == i {
			return v
		}
	}
	return nil
}

func (w *world) currentSlot() uint64 {
	return uint64(time.Since(w.cl.Chain.GenesisTime) / w.cl.Chain.SlotDuration)
}

func (w *world) specRoot(domain string, epoch eth2p0.Epoch, objRoot eth2p0.Root) [32]byte {
	dom := simbeacon.ComputeDomain(simbeacon.DomainTypes[domain], w.cl.Chain.VersionAt(epoch), w.cl.Chain.GenesisValidatorsRoot)
	return simbeacon.SigningRoot(objRoot, dom)
}

func signRoot(key tbls.PrivateKey, sr [32]byte) eth2p0.BLSSignature {
	sig, err := tbls.Sign(key, sr[:])
	if err != nil {
		panic(err)
	}
	return eth2p0.BLSSignature(sig)
}

// consensus spec: DOMAIN_RANDAO at the revealed epoch over hash_tree_root(uint64 epoch)
func (w *world) randaoRoot(epoch eth2p0.Epoch) [32]byte {
	var r eth2p0.Root
	for i := 0; i < 8; i++ {
		r[i] = byte(uint64(epoch) >> (8 * i))
	}
	return w.specRoot("DOMAIN_RANDAO", epoch, r)
}

// consensus spec: DOMAIN_BEACON_PROPOSER at the epoch of block.slot over hash_tree_root(block)
func (w *world) blockRoot(blk *capella.BeaconBlock) [32]byte {
	r, err := blk.HashTreeRoot()
	if err != nil {
		panic(err)
	}
	return w.specRoot("DOMAIN_BEACON_PROPOSER", w.epochOf(uint64(blk.Slot)), r)
}

// consensus spec: DOMAIN_BEACON_ATTESTER at data.target.epoch over hash_tree_root(data)
func (w *world) attRoot(data *eth2p0.AttestationData) [32]byte {
	r, err := data.HashTreeRoot()
	if err != nil {
		panic(err)
	}
	return w.specRoot("DOMAIN_BEACON_ATTESTER", data.Target.Epoch, r)
}

// groupRandao is the validator's unique group randao reveal of an epoch (from the group secret).
func (w *world) groupRandao(v *cluster.Validator, epoch eth2p0.Epoch) eth2p0.BLSSignature {
	k := fmt.Sprintf("%d/%d", v.Index, epoch)
	w.mu.Lock()
	defer w.mu.Unlock()
	if s, ok := w.randao[k]; ok {
		return s
	}
	s := signRoot(v.Secret, w.randaoRoot(epoch))
	w.randao[k] = s
	return s
}

func rootOf(tag byte, a, b uint64) (r eth2p0.Root) {
	for i := range r {
		r[i] = byte(int(tag) + i*7 + int(a)*13 + int(b)*31)
	}
	r[0] = tag
	return r
}

func sigOf(tag byte, a uint64) (s eth2p0.BLSSignature) {
	for i := range s {
		s[i] = byte(int(tag) + i*5 + int(a)*11 + 1)
	}
	return s
}

// viewBlock is the complete Capella block the beacon node of a view produces for (slot, randao reveal,
// graffiti): every byte is a function of the arguments; views differ in parent, state and payload.
func viewBlock(view int, slot uint64, v *cluster.Validator, randao eth2p0.BLSSignature, graffiti [32]byte) *capella.BeaconBlock {
	salt := uint64(view)
	bytesOf := func(tag byte, a, b uint64) []byte { r := rootOf(tag, a, b); return r[:] }
	ep := &capella.ExecutionPayload{ParentHash: eth2p0.Hash32(rootOf(0xe1, slot, salt)), StateRoot: rootOf(0xe2, slot, salt), ReceiptsRoot: rootOf(0xe3, slot, salt),
		PrevRandao: rootOf(0xe4, slot, salt), BlockNumber: slot, GasLimit: 30_000_000, GasUsed: salt, Timestamp: 1_700_000_000 + slot*12,
		ExtraData: []byte{0xc1, 0x0, byte(salt)}, BaseFeePerGas: rootOf(0xe5, 7, salt), BlockHash: eth2p0.Hash32(rootOf(0xe6, slot, salt)),
		Transactions: []bellatrix.Transaction{{0x02, byte(salt), 0x01}},
		Withdrawals:  []*capella.Withdrawal{{Index: capella.WithdrawalIndex(salt), ValidatorIndex: v.Index, Amount: 1}}}
	copy(ep.FeeRecipient[:], bytesOf(0xe7, slot, salt)[:20])
	sa := &altair.SyncAggregate{SyncCommitteeBits: bitfield.NewBitvector512(), SyncCommitteeSignature: sigOf(0x5a, salt)}
	sa.SyncCommitteeBits.SetBitAt(salt%512, true)
	bits := bitfield.NewBitlist(8)
	bits.SetBitAt(1, true)
	return &capella.BeaconBlock{Slot: eth2p0.Slot(slot), ProposerIndex: v.Index, ParentRoot: rootOf(0xb1, slot, salt), StateRoot: rootOf(0xb2, slot, salt),
		Body: &capella.BeaconBlockBody{RANDAOReveal: randao, ETH1Data: &eth2p0.ETH1Data{DepositRoot: rootOf(0xd0, 1, salt), DepositCount: 3, BlockHash: bytesOf(0xd1, 2, salt)},
			Graffiti: graffiti, ProposerSlashings: []*eth2p0.ProposerSlashing{}, AttesterSlashings: []*eth2p0.AttesterSlashing{},
			Attestations: []*eth2p0.Attestation{{AggregationBits: bits, Data: &eth2p0.AttestationData{Slot: eth2p0.Slot(slot - 1), Index: 1, BeaconBlockRoot: rootOf(0xb3, slot, salt),
				Source: &eth2p0.Checkpoint{Epoch: 1, Root: rootOf(0xb4, 1, 1)}, Target: &eth2p0.Checkpoint{Epoch: 2, Root: rootOf(0xb5, 2, 2)}}, Signature: sigOf(0xa7, salt)}},
			Deposits: []*eth2p0.Deposit{}, VoluntaryExits: []*eth2p0.SignedVoluntaryExit{}, SyncAggregate: sa, ExecutionPayload: ep,
			BLSToExecutionChanges: []*capella.SignedBLSToExecutionChange{}}}
}

// ---- the node's beacon node: duties, validators, submissions, production cache plumbing -------------

type fullBeacon struct {
	*simbeacon.Client
	w *world
	n *cluster.Node

	vc          *eth2wrap.ValidatorCache
	dc          *eth2wrap.DutiesCache
	valCache    func(context.Context) (eth2wrap.ActiveValidators, eth2wrap.CompleteValidators, error)
	proC        func(context.Context, eth2p0.Epoch, []eth2p0.ValidatorIndex) (eth2wrap.ProposerDutyWithMeta, error)
	attC        func(context.Context, eth2p0.Epoch, []eth2p0.ValidatorIndex) (eth2wrap.AttesterDutyWithMeta, error)
	synC        func(context.Context, eth2p0.Epoch, []eth2p0.ValidatorIndex) (eth2wrap.SyncDutyWithMeta, error)
}

func (b *fullBeacon) ClientForAddress(string) eth2wrap.Client { return b }

// fail injects a transient failure of a beacon endpoint (bounded per run, so that runs make progress).
func (b *fullBeacon) fail(name string) error {
	verifrt.Yield()
	w := b.w
	if !w.bnErrs {
		return nil
	}
	w.mu.Lock()
	left := w.errsLeft
	w.mu.Unlock()
	if left > 0 && verifrt.Intn("f", 5) == 0 {
		w.mu.Lock()
		w.errsLeft--
		w.mu.Unlock()
		verifrt.Fault("bn-error:" + name)
		verifrt.Note("n%d bn %s -> ERROR (injected)", b.n.Idx, name)
		return errors.New("simulated beacon node: injected failure (503)")
	}
	return nil
}

func (b *fullBeacon) NodeSyncing(context.Context, *eth2api.NodeSyncingOpts) (*eth2api.Response[*eth2v1.SyncState], error) {
	verifrt.Yield()
	return &eth2api.Response[*eth2v1.SyncState]{Data: &eth2v1.SyncState{HeadSlot: eth2p0.Slot(b.w.currentSlot())}, Metadata: map[string]any{}}, nil
}

func (b *fullBeacon) Validators(_ context.Context, opts *eth2api.ValidatorsOpts) (*eth2api.Response[map[eth2p0.ValidatorIndex]*eth2v1.Validator], error) {
	if err := b.fail("validators"); err != nil {
		return nil, err
	}
	w := b.w
	if opts.State != "head" {
		s, err := strconv.ParseUint(opts.State, 10, 64)
		if err != nil || s > w.currentSlot() {
			return nil, errors.New("simulated beacon node: state not found")
		}
	}
	data := make(map[eth2p0.ValidatorIndex]*eth2v1.Validator)
	add := func(v *cluster.Validator) {
		data[v.Index] = &eth2v1.Validator{Index: v.Index, Balance: 32_000_000_000, Status: eth2v1.ValidatorStateActiveOngoing, Validator: &eth2p0.Validator{
			PublicKey: eth2p0.BLSPubKey(v.PubKey), EffectiveBalance: 32_000_000_000, ActivationEpoch: 0, ExitEpoch: 1 << 62, WithdrawableEpoch: 1 << 62}}
	}
	if len(opts.PubKeys) == 0 && len(opts.Indices) == 0 {
		for _, v := range w.cl.Vals {
			add(v)
		}
	}
	for _, pk := range opts.PubKeys {
		for _, v := range w.cl.Vals {
			if eth2p0.BLSPubKey(v.PubKey) == pk {
				add(v)
			}
		}
	}
	for _, i := range opts.Indices {
		if v := w.valByIndex(i); v != nil {
			add(v)
		}
	}
	return &eth2api.Response[map[eth2p0.ValidatorIndex]*eth2v1.Validator]{Data: data, Metadata: map[string]any{}}, nil
}

func (b *fullBeacon) AttesterDuties(_ context.Context, opts *eth2api.AttesterDutiesOpts) (*eth2api.Response[[]*eth2v1.AttesterDuty], error) {
	if err := b.fail("attester-duties"); err != nil {
		return nil, err
	}
	w := b.w
	var data []*eth2v1.AttesterDuty
	for _, i := range opts.Indices {
		v := w.valByIndex(i)
		if v == nil {
			continue
		}
		data = append(data, &eth2v1.AttesterDuty{PubKey: eth2p0.BLSPubKey(v.PubKey), Slot: eth2p0.Slot(w.attSlot(uint64(opts.Epoch), v)), ValidatorIndex: v.Index,
			CommitteeIndex: v.Committee, CommitteeLength: 8, CommitteesAtSlot: 4, ValidatorCommitteeIndex: v.CommPos})
	}
	return &eth2api.Response[[]*eth2v1.AttesterDuty]{Data: data, Metadata: map[string]any{}}, nil
}

func (b *fullBeacon) ProposerDuties(_ context.Context, opts *eth2api.ProposerDutiesOpts) (*eth2api.Response[[]*eth2v1.ProposerDuty], error) {
	if err := b.fail("proposer-duties"); err != nil {
		return nil, err
	}
	w := b.w
	var data []*eth2v1.ProposerDuty
	for s := uint64(opts.Epoch) * w.spe; s < (uint64(opts.Epoch)+1)*w.spe; s++ {
		v := w.prop[s]
		if v == nil {
			continue
		}
		for _, i := range opts.Indices {
			if i == v.Index {
				data = append(data, &eth2v1.ProposerDuty{PubKey: eth2p0.BLSPubKey(v.PubKey), Slot: eth2p0.Slot(s), ValidatorIndex: v.Index})
			}
		}
	}
	return &eth2api.Response[[]*eth2v1.ProposerDuty]{Data: data, Metadata: map[string]any{}}, nil
}

func (b *fullBeacon) SyncCommitteeDuties(context.Context, *eth2api.SyncCommitteeDutiesOpts) (*eth2api.Response[[]*eth2v1.SyncCommitteeDuty], error) {
	if err := b.fail("sync-duties"); err != nil {
		return nil, err
	}
	return &eth2api.Response[[]*eth2v1.SyncCommitteeDuty]{Data: nil, Metadata: map[string]any{}}, nil
}

// cache plumbing exactly as eth2wrap's httpAdapter does it

func (b *fullBeacon) SetValidatorCache(f func(context.Context) (eth2wrap.ActiveValidators, eth2wrap.CompleteValidators, error)) {
	b.valCache = f
}

func (b *fullBeacon) SetDutiesCache(
	pro func(context.Context, eth2p0.Epoch, []eth2p0.ValidatorIndex) (eth2wrap.ProposerDutyWithMeta, error),
	att func(context.Context, eth2p0.Epoch, []eth2p0.ValidatorIndex) (eth2wrap.AttesterDutyWithMeta, error),
	syn func(context.Context, eth2p0.Epoch, []eth2p0.ValidatorIndex) (eth2wrap.SyncDutyWithMeta, error),
) {
	b.proC, b.attC, b.synC = pro, att, syn
}

func (b *fullBeacon) ActiveValidators(ctx context.Context) (eth2wrap.ActiveValidators, error) {
	a, _, err := b.valCache(ctx)
	return a, err
}

func (b *fullBeacon) CompleteValidators(ctx context.Context) (eth2wrap.CompleteValidators, error) {
	_, c, err := b.valCache(ctx)
	return c, err
}

func (b *fullBeacon) AttesterDutiesCache(ctx context.Context, epoch eth2p0.Epoch, vidxs []eth2p0.ValidatorIndex) (eth2wrap.AttesterDutyWithMeta, error) {
	return b.attC(ctx, epoch, vidxs)
}

func (b *fullBeacon) ProposerDutiesCache(ctx context.Context, epoch eth2p0.Epoch, vidxs []eth2p0.ValidatorIndex) (eth2wrap.ProposerDutyWithMeta, error) {
	return b.proC(ctx, epoch, vidxs)
}

func (b *fullBeacon) SyncCommDutiesCache(ctx context.Context, epoch eth2p0.Epoch, vidxs []eth2p0.ValidatorIndex) (eth2wrap.SyncDutyWithMeta, error) {
	r, err := b.synC(ctx, epoch, vidxs)
	if err == nil {
		b.w.mu.Lock()
		b.w.resolved++
		b.w.mu.Unlock()
	}
	return r, err
}

// submissions: what the cluster hands to the beacon node

func (b *fullBeacon) SubmitAttestations(_ context.Context, opts *eth2api.SubmitAttestationsOpts) error {
	verifrt.Yield()
	for _, a := range opts.Attestations {
		b.w.onAttestation(b.n.Idx, a)
	}
	return nil
}

func (b *fullBeacon) SubmitProposal(_ context.Context, opts *eth2api.SubmitProposalOpts) error {
	verifrt.Yield()
	b.w.onProposal(b.n.Idx, opts.Proposal)
	return nil
}

func (b *fullBeacon) unexpected(what string) error {
	b.w.c.Violate("C01", "broadcast-type", "unexpected-submission", "node %d submitted %s to its beacon node although no such duty exists in this run", b.n.Idx, what)
	return nil
}

func (b *fullBeacon) SubmitBlindedProposal(context.Context, *eth2api.SubmitBlindedProposalOpts) error {
	return b.unexpected("a blinded proposal")
}

func (b *fullBeacon) SubmitAggregateAttestations(context.Context, *eth2api.SubmitAggregateAttestationsOpts) error {
	return b.unexpected("aggregate attestations")
}

func (b *fullBeacon) SubmitSyncCommitteeMessages(ctx context.Context, msgs []*altair.SyncCommitteeMessage) error {
	verifrt.Yield()
	duty, ok := dutyOf(ctx)
	if !b.w.syncMsgs || !ok || duty.Type != core.DutySyncMessage {
		return b.unexpected("sync committee messages")
	}
	for _, m := range msgs {
		b.w.onSyncMessage(b.n.Idx, duty, m)
	}
	return nil
}

func (b *fullBeacon) SubmitSyncCommitteeContributions(context.Context, []*altair.SignedContributionAndProof) error {
	return b.unexpected("sync committee contributions")
}

func (b *fullBeacon) SubmitVoluntaryExit(context.Context, *eth2p0.SignedVoluntaryExit) error {
	return b.unexpected("a voluntary exit")
}

func (b *fullBeacon) SubmitValidatorRegistrations(context.Context, []*eth2api.VersionedSignedValidatorRegistration) error {
	return b.unexpected("validator registrations")
}

// dutyTagger is the node's real broadcaster; it only notes the duty of the call in the context, so that
// the beacon node's submission endpoint can attribute what it receives to the duty charon performed.
type dutyTagger struct{ b bcast.Broadcaster }

type dutyKey struct{}

func (t dutyTagger) Broadcast(ctx context.Context, duty core.Duty, set core.SignedDataSet) error {
	return t.b.Broadcast(context.WithValue(ctx, dutyKey{}, duty), duty, set)
}

func dutyOf(ctx context.Context) (core.Duty, bool) {
	d, ok := ctx.Value(dutyKey{}).(core.Duty)
	return d, ok
}

type noRegs struct{}

func (noRegs) Registrations() []*eth2api.VersionedSignedValidatorRegistration { return nil }

// ---- oracles (at the beacon node's submission endpoints) -------------------------------------------

func (w *world) oneRoot(node int, key string, sr [32]byte) {
	w.mu.Lock()
	prev, ok := w.roots[key]
	if !ok {
		w.roots[key] = obs{node: node, at: verifrt.Now(), root: sr}
	}
	w.mu.Unlock()
	if ok && prev.root != sr {
		w.c.Violate("C01", "two-signing-roots", "different-signed-objects-for-one-duty-and-validator", "%s: node %d submitted signing root %x at %v but node %d submitted %x at %v",
			key, prev.node, prev.root[:6], prev.at, node, sr[:6], verifrt.Now())
	}
}

func (w *world) onAttestation(node int, a *eth2spec.VersionedAttestation) {
	c, cl := w.c, w.cl
	c.Progress()
	if a == nil || a.Version != eth2spec.DataVersionDeneb || a.Deneb == nil || a.Deneb.Data == nil || a.Deneb.Data.Target == nil || a.Deneb.Data.Source == nil {
		c.Violate("C01", "broadcast-type", "malformed-attestation", "node %d submitted an attestation that is not a complete Deneb attestation", node)
		return
	}
	att := a.Deneb
	data := att.Data
	// the validator: committee index + the single aggregation bit
	idx := att.AggregationBits.BitIndices()
	var val *cluster.Validator
	if len(idx) == 1 {
		for _, v := range cl.Vals {
			if v.Committee == data.Index && v.CommPos == uint64(idx[0]) {
				val = v
			}
		}
	}
	if val == nil {
		c.Violate("C01", "unknown-validator", "broadcast-for-validator-outside-cluster", "node %d submitted an attestation (slot %d committee %d bits %v) that belongs to no cluster validator", node, data.Slot, data.Index, idx)
		return
	}
	key := fmt.Sprintf("%d/attester/v%d", data.Slot, val.Index)
	verifrt.Note("SUBMIT n%d %s head %x", node, key, data.BeaconBlockRoot[:3])
	sr := w.attRoot(data)
	if err := tbls.Verify(val.PubKey, sr[:], tbls.Signature(att.Signature)); err != nil {
		c.Violate("C01", "invalid-group-signature", "broadcast-signature-does-not-verify-under-group-key", "node %d submitted %s whose signature does not verify under the validator's group public key for its own signing root: %v", node, key, err)
	}
	w.oneRoot(node, key, sr)
	// validity: the validator attests in this slot, and the data is what some node's beacon node serves for it
	if w.attSlot(uint64(w.epochOf(uint64(data.Slot))), val) != uint64(data.Slot) {
		c.Violate("C01", "validity", "attestation-for-unassigned-slot", "%s: node %d submitted an attestation for a slot in which the validator has no attester duty", key, node)
		return
	}
	objRoot, _ := data.HashTreeRoot()
	ok := false
	for view := 0; view < w.views; view++ {
		if r, _ := cl.AttData(view, data.Slot, val.Committee).HashTreeRoot(); r == objRoot {
			ok = true
		}
	}
	if !ok {
		c.Violate("C01", "validity", "signed-content-never-fetched-by-an-honest-node", "%s: node %d submitted attestation data (head %x) that no honest node's beacon node served", key, node, data.BeaconBlockRoot[:3])
		return
	}
	w.mu.Lock()
	w.done["attester"] = true
	w.mu.Unlock()
}

func headRoot(slot uint64, view int) eth2p0.Root { return eth2p0.Root{0xb0, byte(slot), byte(view)} }

// consensus spec: DOMAIN_SYNC_COMMITTEE at the epoch of the message's slot over the beacon block root
func (w *world) syncRoot(slot uint64, root eth2p0.Root) [32]byte {
	return w.specRoot("DOMAIN_SYNC_COMMITTEE", w.epochOf(slot), root)
}

func (w *world) onSyncMessage(node int, duty core.Duty, m *altair.SyncCommitteeMessage) {
	c := w.c
	c.Progress()
	if m == nil {
		c.Violate("C01", "broadcast-type", "malformed-sync-message", "node %d submitted a nil sync committee message", node)
		return
	}
	val := w.valByIndex(m.ValidatorIndex)
	if val == nil {
		c.Violate("C01", "unknown-validator", "broadcast-for-validator-outside-cluster", "node %d submitted a sync committee message for validator index %d, no cluster validator", node, m.ValidatorIndex)
		return
	}
	key := fmt.Sprintf("%d/sync_message/v%d", duty.Slot, val.Index)
	verifrt.Note("SUBMIT n%d %s slot %d root %x", node, key, m.Slot, m.BeaconBlockRoot[:3])
	sr := w.syncRoot(uint64(m.Slot), m.BeaconBlockRoot)
	if err := tbls.Verify(val.PubKey, sr[:], tbls.Signature(m.Signature)); err != nil {
		c.Violate("C01", "invalid-group-signature", "broadcast-signature-does-not-verify-under-group-key", "node %d submitted %s whose signature does not verify under the validator's group public key for its own signing root: %v", node, key, err)
	}
	w.oneRoot(node, key, sr)
	ok := false
	for view := 0; view < w.views; view++ {
		if m.BeaconBlockRoot == headRoot(duty.Slot, view) {
			ok = true
		}
	}
	if !ok || duty.Slot < w.first || duty.Slot > w.last {
		c.Violate("C01", "validity", "signed-content-never-signed-by-an-honest-validator-client", "%s: node %d submitted a sync message for a head root %x which no honest validator client signed for this duty", key, node, m.BeaconBlockRoot[:3])
		return
	}
	if uint64(m.Slot) != duty.Slot {
		// the message's slot is not part of its signing root (only its epoch's fork version is): a Byzantine
		// partial for another slot of the same fork over the same head root matches the honest ones and sigagg
		// takes the carrier object from the first partial. The statement holds; the foreign field is recorded
		verifrt.Probe("submitted-sync-message-with-foreign-unsigned-slot")
	}
	w.mu.Lock()
	w.done["sync-message"] = true
	w.mu.Unlock()
}

func (w *world) onProposal(node int, p *eth2api.VersionedSignedProposal) {
	c := w.c
	c.Progress()
	if p == nil || p.Version != eth2spec.DataVersionCapella || p.Capella == nil || p.Capella.Message == nil || p.Capella.Message.Body == nil {
		c.Violate("C01", "broadcast-type", "malformed-proposal", "node %d submitted a proposal that is not a complete Capella block", node)
		return
	}
	blk := p.Capella.Message
	val := w.valByIndex(blk.ProposerIndex)
	if val == nil {
		c.Violate("C01", "unknown-validator", "broadcast-for-validator-outside-cluster", "node %d submitted a block of slot %d for proposer index %d, no cluster validator", node, blk.Slot, blk.ProposerIndex)
		return
	}
	key := fmt.Sprintf("%d/proposer/v%d", blk.Slot, val.Index)
	sr := w.blockRoot(blk)
	verifrt.Note("SUBMIT n%d %s root %x", node, key, sr[:4])
	if err := tbls.Verify(val.PubKey, sr[:], tbls.Signature(p.Capella.Signature)); err != nil {
		c.Violate("C01", "invalid-group-signature", "broadcast-signature-does-not-verify-under-group-key", "node %d submitted %s whose signature does not verify under the validator's group public key for its own signing root: %v", node, key, err)
	}
	w.oneRoot(node, key, sr)
	if w.prop[uint64(blk.Slot)] != val {
		c.Violate("C01", "validity", "block-for-unassigned-slot", "%s: node %d submitted a block for a slot in which the validator does not propose", key, node)
		return
	}
	root, _ := blk.HashTreeRoot()
	w.mu.Lock()
	_, served := w.served[root]
	w.mu.Unlock()
	if !served {
		c.Violate("C01", "validity", "block-never-produced-by-a-beacon-node", "%s: node %d submitted a block (root %x) that no node's beacon node produced", key, node, root[:4])
		return
	}
	if blk.Body.RANDAOReveal != w.groupRandao(val, w.epochOf(uint64(blk.Slot))) {
		c.Violate("C01", "validity", "block-with-foreign-randao-reveal", "%s: node %d submitted a block whose randao reveal is not the validator's group signature over the slot's epoch", key, node)
		return
	}
	w.mu.Lock()
	w.done["proposer"] = true
	w.mu.Unlock()
}

// ---- validator client --------------------------------------------------------------------------------

func sleepUntil(t time.Time) {
	if d := time.Until(t); d > 0 {
		verifrt.Sleep(d)
	}
}

// runVC is node n's validator client from now to the end of the run: for every duty of a cluster
// validator it asks the node's validator API for the agreed data at the duty's time, signs with the
// node's share and submits.
func (w *world) runVC(n *cluster.Node) {
	cl := w.cl
	from := w.currentSlot()
	if from < w.first {
		from = w.first
	}
	for slot := from; slot <= w.last; slot++ {
		slot := slot
		var batch []*cluster.Validator
		for _, v := range cl.Vals {
			v := v
			if w.attSlot(uint64(w.epochOf(slot)), v) != slot {
				continue
			}
			mode := verifrt.Intn("w", 8)
			if mode == 7 {
				verifrt.Fault("vc-absent")
				continue
			}
			if w.batchVC {
				batch = append(batch, v)
				continue
			}
			verifrt.Go(func() {
				sleepUntil(cl.SlotStart(slot).Add(cl.Cfg.SlotDuration/3 + time.Duration(verifrt.Intn("w", 4)*verifrt.Intn("w", 4)*40)*time.Millisecond))
				if mode == 6 {
					verifrt.Fault("vc-slow")
					verifrt.Sleep(time.Duration(1+verifrt.Intn("w", 8)) * time.Second)
				}
				err := w.attest(n, slot, v)
				verifrt.Note("n%d vc attester slot %d val %d err=%v", n.Idx, slot, v.Index, err)
				if err == nil && mode == 5 {
					verifrt.Fault("vc-duplicate-submission")
					_ = w.attest(n, slot, v)
				}
			})
		}
		if len(batch) > 0 {
			// a validator client that serves all its validators of the slot with one submission
			verifrt.Go(func() {
				sleepUntil(cl.SlotStart(slot).Add(cl.Cfg.SlotDuration/3 + time.Duration(verifrt.Intn("w", 4)*verifrt.Intn("w", 4)*40)*time.Millisecond))
				err := w.attest(n, slot, batch...)
				verifrt.Note("n%d vc attester slot %d batch of %d err=%v", n.Idx, slot, len(batch), err)
				if len(batch) > 1 {
					verifrt.Probe("vc-batch-of-several-validators")
				}
			})
		}
		if w.syncMsgs {
			// sync committee messages need no consensus: the client signs the head root of its node's view
			// for every validator, one call per slot (at 1/3 of the slot, like attestations)
			verifrt.Go(func() {
				sleepUntil(cl.SlotStart(slot).Add(cl.Cfg.SlotDuration/3 + time.Duration(verifrt.Intn("w", 400))*time.Millisecond))
				var msgs []*altair.SyncCommitteeMessage
				root := headRoot(slot, w.viewOf(n.Idx, slot))
				for _, v := range cl.Vals {
					sr := w.syncRoot(slot, root)
					msgs = append(msgs, &altair.SyncCommitteeMessage{Slot: eth2p0.Slot(slot), BeaconBlockRoot: root, ValidatorIndex: v.Index, Signature: signRoot(v.Shares[n.Idx+1], sr)})
				}
				err := n.VAPI.SubmitSyncCommitteeMessages(n.Ctx, msgs)
				verifrt.Note("n%d vc sync messages slot %d err=%v", n.Idx, slot, err)
			})
		}
		if pv := w.prop[slot]; pv != nil {
			mode := verifrt.Intn("w", 8)
			if mode == 7 {
				verifrt.Fault("vc-absent-proposer")
				continue
			}
			verifrt.Go(func() {
				sleepUntil(cl.SlotStart(slot).Add(time.Duration(verifrt.Intn("w", 4)*verifrt.Intn("w", 4)*40) * time.Millisecond))
				if mode == 6 {
					verifrt.Fault("vc-slow-proposer")
					verifrt.Sleep(time.Duration(200+verifrt.Intn("w", 3000)) * time.Millisecond)
				}
				err := w.propose(n, slot, pv)
				verifrt.Note("n%d vc proposer slot %d val %d err=%v", n.Idx, slot, pv.Index, err)
				if err == nil && mode == 5 {
					verifrt.Fault("vc-duplicate-proposal")
					_ = w.propose(n, slot, pv)
				}
			})
		}
	}
}

func (w *world) attest(n *cluster.Node, slot uint64, vs ...*cluster.Validator) error {
	ctx, cancel := context.WithTimeout(n.Ctx, 2*w.cl.Cfg.SlotDuration)
	defer cancel()
	var atts []*eth2spec.VersionedAttestation
	for _, v := range vs {
		resp, err := n.VAPI.AttestationData(ctx, &eth2api.AttestationDataOpts{Slot: eth2p0.Slot(slot), CommitteeIndex: v.Committee})
		if err != nil {
			return err
		}
		atts = append(atts, w.cl.SignAttestation(v.Shares[n.Idx+1], v, resp.Data))
	}
	return n.VAPI.SubmitAttestations(ctx, &eth2api.SubmitAttestationsOpts{Attestations: atts})
}

func (w *world) propose(n *cluster.Node, slot uint64, v *cluster.Validator) error {
	ctx, cancel := context.WithTimeout(n.Ctx, 2*w.cl.Cfg.SlotDuration)
	defer cancel()
	share := v.Shares[n.Idx+1]
	reveal := signRoot(share, w.randaoRoot(w.epochOf(slot)))
	resp, err := n.VAPI.Proposal(ctx, &eth2api.ProposalOpts{Slot: eth2p0.Slot(slot), RandaoReveal: reveal})
	if err != nil {
		return err
	}
	if resp.Data.Version != eth2spec.DataVersionCapella || resp.Data.Capella == nil || resp.Data.Blinded {
		return errors.New("validator client: unexpected block version")
	}
	blk := resp.Data.Capella
	signed := &eth2api.VersionedSignedProposal{Version: eth2spec.DataVersionCapella,
		Capella: &capella.SignedBeaconBlock{Message: blk, Signature: signRoot(share, w.blockRoot(blk))}}
	return n.VAPI.SubmitProposal(ctx, &eth2api.SubmitProposalOpts{Proposal: signed})
}

// ---- Byzantine node: partial signatures made with its own share, sent straight to the peers ---------

func (w *world) parSigMsg(duty core.Duty, pk core.PubKey, ps core.ParSignedData) *pbv1.ParSigExMsg {
	set, err := core.ParSignedDataSetToProto(core.ParSignedDataSet{pk: ps})
	if err != nil {
		panic(err)
	}
	return &pbv1.ParSigExMsg{Duty: core.DutyToProto(duty), DataSet: set}
}

func (w *world) byzantine(ctx context.Context, i int) {
	cl := w.cl
	moves := 2 + verifrt.Intn("a", 6)
	for m := 0; m < moves && ctx.Err() == nil; m++ {
		verifrt.Sleep(time.Duration(verifrt.Intn("a", 9000)) * time.Millisecond)
		slot := w.currentSlot()
		if slot > w.last {
			return
		}
		v := cl.Vals[verifrt.Intn("a", len(cl.Vals))]
		own := v.Shares[i+1]
		var msgs []*pbv1.ParSigExMsg
		if w.syncMsgs && verifrt.Intn("a", 3) == 0 {
			// a partial that is valid for its own slot and fork - a sync message for a served head root but a
			// slot beyond the fork boundary - sent under the running slot's duty: it passes the per-partial check
			// and has the same message root as the honest partials
			other := (slot/w.spe+1)*w.spe + uint64(verifrt.Intn("a", 3))
			root := headRoot(slot, verifrt.Intn("a", w.views))
			m := &altair.SyncCommitteeMessage{Slot: eth2p0.Slot(other), BeaconBlockRoot: root, ValidatorIndex: v.Index, Signature: signRoot(own, w.syncRoot(other, root))}
			msgs = []*pbv1.ParSigExMsg{w.parSigMsg(core.NewSyncMessageDuty(slot), v.CorePK, core.NewPartialSignedSyncMessage(m, i+1))}
			verifrt.Fault("byz:cross-fork-sync-partial")
		} else if pv := w.prop[slot]; pv != nil && verifrt.Intn("a", 2) == 0 {
			// a partial block signature over a block of another view (or one no beacon node produces)
			view := verifrt.Intn("a", w.views+2)
			blk := viewBlock(view, slot, pv, w.groupRandao(pv, w.epochOf(slot)), [32]byte{})
			mk := func(b *capella.BeaconBlock) *pbv1.ParSigExMsg {
				sp := &eth2api.VersionedSignedProposal{Version: eth2spec.DataVersionCapella, Capella: &capella.SignedBeaconBlock{Message: b, Signature: signRoot(pv.Shares[i+1], w.blockRoot(b))}}
				ps, err := core.NewPartialVersionedSignedProposal(sp, i+1)
				if err != nil {
					panic(err)
				}
				return w.parSigMsg(core.NewProposerDuty(slot), pv.CorePK, ps)
			}
			msgs = []*pbv1.ParSigExMsg{mk(blk)}
			if verifrt.Intn("a", 2) == 1 {
				msgs = append(msgs, mk(viewBlock(view+1, slot, pv, w.groupRandao(pv, w.epochOf(slot)), [32]byte{})))
			}
			verifrt.Fault("byz:block-parsig")
		} else {
			aslot := w.attSlot(uint64(w.epochOf(slot)), v)
			view := w.views + verifrt.Intn("a", 3) // data no honest beacon node serves
			if verifrt.Intn("a", 3) == 0 {
				view = verifrt.Intn("a", w.views) // or a legitimate candidate that may differ from the decided one
			}
			mk := func(view int, signer tbls.PrivateKey, shareIdx int) *pbv1.ParSigExMsg {
				att := cl.SignAttestation(signer, v, cl.AttData(view, eth2p0.Slot(aslot), v.Committee))
				ps, err := core.NewPartialVersionedAttestation(att, shareIdx)
				if err != nil {
					panic(err)
				}
				return w.parSigMsg(core.NewAttesterDuty(aslot), v.CorePK, ps)
			}
			switch verifrt.Intn("a", 5) {
			case 0:
				msgs = []*pbv1.ParSigExMsg{mk(view, own, i+1)}
			case 1:
				msgs = []*pbv1.ParSigExMsg{mk(view, own, i+1), mk(view+1, own, i+1)}
			case 2:
				msgs = []*pbv1.ParSigExMsg{mk(view, own, 1+(i+1)%cl.Cfg.N)}
			case 3:
				x := mk(view, own, i+1)
				msgs = []*pbv1.ParSigExMsg{x, x}
			case 4:
				rogue := v.Shares[i+1]
				rogue[31] ^= 0x5a
				msgs = []*pbv1.ParSigExMsg{mk(view, rogue, i+1)}
			}
			verifrt.Fault("byz:att-parsig")
		}
		for k, msg := range msgs {
			for to := 0; to < cl.Cfg.N; to++ {
				if to == i || (len(msgs) == 2 && to%2 != k%2 && verifrt.Intn("a", 2) == 0) {
					continue
				}
				cl.Net.Inject(cl.PeerIDs[i], cl.PeerIDs[to], protoParSigEx, frame(msg), time.Duration(verifrt.Intn("a", 200))*time.Millisecond)
			}
		}
	}
}

// ---- body ----------------------------------------------------------------------------------------------

func body(c *kernel.Ctx) {
	ctx, cancel := context.WithCancel(context.Background())
	defer cancel()

	n := []int{4, 3, 4, 5, 7}[verifrt.Intn("cfg", 5)]
	if c.Tier != "thorough" && n > 5 {
		n = 4
	}
	spe := []uint64{4, 8, 3}[verifrt.Intn("cfg", 3)]
	nSlots := 2 + verifrt.Intn("cfg", 4)
	// the run begins at the start of slot `first`, somewhere in an epoch (so that epoch boundaries,
	// first-slot-of-epoch resolution and mid-epoch start-up all occur)
	first := spe*uint64(8+verifrt.Intn("cfg", 4)) + uint64(verifrt.Intn("cfg", int(spe)))
	cfg := cluster.Config{N: n, Validators: 1 + verifrt.Intn("cfg", 3), SlotsPerEpoch: spe, SlotDuration: 12 * time.Second, StartSlot: first, AggSigDBV2: verifrt.Intn("cfg", 2) == 1}
	f := (n - 1) / 3
	nByz := 0
	if f > 0 {
		nByz = verifrt.Intn("cfg", f+1)
	}
	nCrash := 0
	if f-nByz > 0 {
		nCrash = verifrt.Intn("f", f-nByz+1)
	}
	views := 1 + verifrt.Intn("cfg", 3)
	maxDelay := 1 + verifrt.Intn("cfg", 300)
	dropPct := []int{0, 0, 3, 10}[verifrt.Intn("cfg", 4)]
	dupPct := []int{0, 5, 15}[verifrt.Intn("cfg", 3)]
	longPct := []int{0, 5}[verifrt.Intn("cfg", 2)]

	cl := cluster.New(ctx, c.T, cfg)
	w := &world{c: c, cl: cl, spe: spe, first: first, last: first + uint64(nSlots) - 1, views: views, view: map[[2]uint64]int{}, prop: map[uint64]*cluster.Validator{},
		served: map[eth2p0.Root]string{}, roots: map[string]obs{}, done: map[string]bool{}, randao: map[string]eth2p0.BLSSignature{}}
	w.bnErrs = verifrt.Intn("cfg", 3) == 2
	w.errsLeft = 1 + verifrt.Intn("cfg", 6)
	w.batchVC = verifrt.Intn("cfg", 2) == 1
	w.syncMsgs = verifrt.Intn("cfg", 2) == 1
	if w.syncMsgs {
		verifrt.Probe("enabled:sync-message")
	}
	for s := w.first; s <= w.last; s++ {
		if verifrt.Intn("cfg", 3) == 2 {
			w.prop[s] = cl.Vals[verifrt.Intn("cfg", len(cl.Vals))]
			verifrt.Probe("enabled:proposer")
		}
		for i := 0; i < n; i++ {
			w.view[[2]uint64{uint64(i), s}] = verifrt.Intn("w", views)
		}
	}
	// a fork activates at the next epoch boundary (which many runs cross): objects of later slots are signed
	// under another fork version
	cl.Chain.Forks = []simbeacon.Fork{{Epoch: w.epochOf(first) + 1, Version: eth2p0.Version{0x00, 0x00, 0x10, 0x21}}}
	cl.View = w.viewOf
	cl.WithGraffiti = true
	cl.BeaconErr = func(node, call int) error {
		if w.bnErrs && call <= 2 && verifrt.Intn("f", 3) == 0 {
			return errors.New("simulated beacon timeout: context deadline exceeded")
		}
		return nil
	}
	cl.BeaconSetup = func(nd *cluster.Node) {
		calls := 0
		nd.Beacon.ProposalFn = func(_ context.Context, opts *eth2api.ProposalOpts) (*eth2api.VersionedProposal, error) {
			calls++
			if w.bnErrs && calls == 1 && verifrt.Intn("f", 3) == 0 {
				verifrt.Fault("bn-error:proposal")
				return nil, errors.New("simulated beacon node: block production not ready (503)")
			}
			pv := w.prop[uint64(opts.Slot)]
			if pv == nil {
				return nil, errors.New("simulated beacon node: no cluster validator proposes in this slot")
			}
			view := w.viewOf(nd.Idx, uint64(opts.Slot))
			blk := viewBlock(view, uint64(opts.Slot), pv, opts.RandaoReveal, opts.Graffiti)
			root, err := blk.HashTreeRoot()
			if err != nil {
				panic(err)
			}
			w.mu.Lock()
			if _, ok := w.served[root]; !ok {
				w.served[root] = fmt.Sprintf("n%d/view%d", nd.Idx, view)
			}
			w.mu.Unlock()
			verifrt.Note("n%d beacon proposal slot %d view %d root %x", nd.Idx, opts.Slot, view, root[:4])
			return &eth2api.VersionedProposal{Version: eth2spec.DataVersionCapella, Capella: blk}, nil
		}
	}
	var pubkeys []eth2p0.BLSPubKey
	for _, v := range cl.Vals {
		pubkeys = append(pubkeys, eth2p0.BLSPubKey(v.PubKey))
	}
	// production wiring (app.go wireCoreWorkflow): validator cache, duties cache, scheduler, broadcaster
	cl.WrapBeacon = func(nd *cluster.Node) eth2wrap.Client {
		fb := &fullBeacon{Client: nd.Beacon, w: w, n: nd}
		fb.vc = eth2wrap.NewValidatorCache(fb, pubkeys)
		fb.SetValidatorCache(fb.vc.GetByHead)
		fb.dc = eth2wrap.NewDutiesCache(fb, []eth2p0.ValidatorIndex{})
		fb.SetDutiesCache(fb.dc.ProposerDutiesCache, fb.dc.AttesterDutiesCache, fb.dc.SyncCommDutiesCache)
		return fb
	}
	cl.NewScheduler = func(nd *cluster.Node, eth2Cl eth2wrap.Client) core.Scheduler {
		fb := eth2Cl.(*fullBeacon)
		sched, err := scheduler.New(noRegs{}, eth2Cl, false)
		if err != nil {
			panic(err)
		}
		firstCacheRefresh, refreshedBySlot := true, true
		var fvcrLock sync.RWMutex
		shouldUpdateCache := func(slot core.Slot) bool {
			verifrt.RWRLock(&fvcrLock)
			defer verifrt.RWRUnlock(&fvcrLock)
			return slot.FirstInEpoch() || firstCacheRefresh || !refreshedBySlot
		}
		sched.SubscribeSlots(func(ctx context.Context, slot core.Slot) error {
			if !shouldUpdateCache(slot) {
				return nil
			}
			verifrt.RWLock(&fvcrLock)
			defer verifrt.RWUnlock(&fvcrLock)
			slotToFetch := slot.Slot
			if !refreshedBySlot {
				slotToFetch = slot.Epoch() * slot.SlotsPerEpoch
			}
			fb.vc.Trim()
			fb.dc.Trim(eth2p0.Epoch(slot.Epoch()))
			active, _, refresh, err := fb.vc.GetBySlot(ctx, slotToFetch)
			if err != nil {
				return err
			}
			fb.dc.UpdateActiveValIndices(active.Indices())
			refreshedBySlot, firstCacheRefresh = refresh, false
			return nil
		})
		verifrt.Go(func() { _ = sched.Run() })
		done := nd.Ctx.Done()
		verifrt.Go(func() { verifrt.Recv(done); sched.Stop() })
		return sched
	}
	cl.NewBroadcaster = func(nd *cluster.Node, eth2Cl eth2wrap.Client) core.Broadcaster {
		b, err := bcast.New(nd.Ctx, eth2Cl)
		if err != nil {
			panic(err)
		}
		return dutyTagger{b}
	}
	cl.Net.Fate = func(e *simnet.Envelope) simnet.Fate {
		fate := simnet.Fate{Delay: time.Duration(verifrt.Intn("n", maxDelay)) * time.Millisecond}
		r := verifrt.Intn("n", 100)
		switch {
		case r >= 100-dropPct:
			fate.Drop = true
			verifrt.Fault("drop")
		case r >= 100-dropPct-dupPct:
			fate.Duplicate = true
			fate.DupDelay = time.Duration(verifrt.Intn("n", 4*maxDelay)) * time.Millisecond
			verifrt.Fault("duplicate")
		case r >= 100-dropPct-dupPct-longPct:
			fate.Delay = time.Duration(verifrt.Intn("n", 6000)) * time.Millisecond
			verifrt.Fault("long-delay")
		}
		return fate
	}

	isByz := make([]bool, n)
	for k := 0; k < nByz; k++ {
		p := verifrt.Intn("cfg", n)
		for isByz[p] {
			p = (p + 1) % n
		}
		isByz[p] = true
	}
	c.Set("n", n)
	c.Set("validators", cfg.Validators)
	c.Set("slots", nSlots)
	c.Set("slots_per_epoch", spe)
	c.Set("byzantine", nByz)
	c.Set("crashes", nCrash)
	c.Set("views", views)
	c.Set("proposals", len(w.prop))

	runLen := time.Duration(nSlots) * cfg.SlotDuration
	crashPlan := map[int]time.Duration{}
	for k := 0; k < nCrash; k++ {
		p := verifrt.Intn("f", n)
		for isByz[p] || crashPlan[p] != 0 {
			p = (p + 1) % n
		}
		crashPlan[p] = time.Duration(1+verifrt.Intn("f", int(runLen/time.Millisecond))) * time.Millisecond
	}
	startNode := func(i int) {
		nd := cl.StartNode(i)
		verifrt.GoNode(nd.Tag, func() { w.runVC(nd) })
	}
	for i := 0; i < n; i++ {
		me := i
		late := time.Duration(0)
		if verifrt.Intn("f", 5) == 4 {
			late = time.Duration(verifrt.Intn("f", 20000)) * time.Millisecond
			verifrt.Fault("late-start")
		}
		if late == 0 {
			startNode(me)
		} else {
			verifrt.Go(func() { verifrt.Sleep(late); startNode(me) })
		}
		if isByz[me] {
			verifrt.Go(func() { w.byzantine(ctx, me) })
		}
		if at, ok := crashPlan[me]; ok {
			restart := verifrt.Intn("f", 3) > 0
			back := time.Duration(200+verifrt.Intn("f", 15000)) * time.Millisecond
			verifrt.Go(func() {
				verifrt.Sleep(at)
				if cl.Nodes[me] == nil {
					return
				}
				cl.Crash(me)
				verifrt.Fault("crash")
				verifrt.Note("crash n%d", me)
				if restart {
					verifrt.Sleep(back)
					verifrt.Fault("restart-amnesia")
					if w.currentSlot() <= w.last && time.Since(cl.SlotStart(w.currentSlot())) < cfg.SlotDuration*2/3 {
						verifrt.Probe("restart-inside-a-duty-slot")
					}
					cl.Net.Remove(cl.PeerIDs[me])
					startNode(me)
					verifrt.Note("restart n%d", me)
				}
			})
		}
		if verifrt.Intn("f", 6) == 5 {
			at := time.Duration(verifrt.Intn("f", int(runLen/time.Millisecond))) * time.Millisecond
			d := time.Duration(500+verifrt.Intn("f", 30000)) * time.Millisecond
			verifrt.Go(func() {
				verifrt.Sleep(at)
				if nd := cl.Nodes[me]; nd != nil {
					verifrt.Fault("stall")
					verifrt.Note("stall n%d for %v", me, d)
					verifrt.Stall(nd.Tag, d)
				}
			})
		}
	}
	end := cl.SlotStart(w.last + 1).Add(45 * time.Second)
	verifrt.Sleep(time.Until(end))
	w.final(nSlots)
	cancel()
}

func (w *world) final(nSlots int) {
	w.mu.Lock()
	defer w.mu.Unlock()
	total := len(w.prop)
	for _, v := range w.cl.Vals {
		for s := w.first; s <= w.last; s++ {
			if w.attSlot(uint64(w.epochOf(s)), v) == s {
				total++
			}
		}
	}
	if w.syncMsgs {
		total += nSlots * len(w.cl.Vals)
	}
	var keys []string
	for k := range w.roots {
		keys = append(keys, k)
	}
	sort.Strings(keys)
	w.c.Set("duty_validator_pairs_completed", len(keys))
	w.c.Set("pairs_total", total)
	if total > 0 && len(keys) == total {
		verifrt.Probe("all-duties-completed")
	}
	for _, kind := range []string{"attester", "proposer", "sync-message"} {
		if w.done[kind] {
			verifrt.Probe("completed:" + kind)
		}
	}
	if w.resolved > 0 {
		verifrt.Probe("epoch-resolved-by-real-scheduler")
	}
}
