//go:build verif

// Harness for C07: the in-memory partial-signature store (core/parsigdb.MemDB) driven by concurrent
// StoreInternal/StoreExternal batches under the seeded scheduler. Oracles: structural checks of every
// threshold trigger (exactly t partials, distinct shares, one root, byte-identical to what the share
// offered), expiry, rejection and internal-subscriber checks, and a per-key linearizability search of
// the recorded history against a reference model written from the property statement
// (accepted share -> datum per (duty, validator, subcommittee); first datum of a share wins; the
// trigger fires exactly once, inside the call whose entry makes a root reach t accepted shares).
package c07

import (
	"bytes"
	"context"
	"encoding/json"
	"fmt"
	"math"
	"sort"
	"strings"
	"sync"
	"testing"
	"time"

	"github.com/OffchainLabs/go-bitfield"
	eth2api "github.com/attestantio/go-eth2-client/api"
	eth2v1 "github.com/attestantio/go-eth2-client/api/v1"
	eth2spec "github.com/attestantio/go-eth2-client/spec"
	"github.com/attestantio/go-eth2-client/spec/altair"
	"github.com/attestantio/go-eth2-client/spec/bellatrix"
	eth2p0 "github.com/attestantio/go-eth2-client/spec/phase0"
	"go.uber.org/zap"

	"github.com/obolnetwork/charon/app/log"
	"github.com/obolnetwork/charon/core"
	"github.com/obolnetwork/charon/core/parsigdb"
	"github.com/obolnetwork/charon/verifrt"

	"verifsim/kernel"
	"verifsim/simdata"
)

const prop = "C07"

func TestSim(t *testing.T) {
	kernel.Main(t, kernel.Harness{Name: "c07", Horizon: 10 * time.Minute, Body: body, PreemptMax: 12 * time.Millisecond})
}

// ---- data -----------------------------------------------------------------------------------

type keyT struct {
	duty core.Duty
	pk   int
	sc   uint64
}

func (k keyT) String() string { return fmt.Sprintf("%s/pk%d/sc%d", simdata.Desc(k.duty), k.pk, k.sc) }

// datum is one concrete partial signature value: (key, share, message root id, unique signature id).
type datum struct {
	id    int // unique >= 1; also the id carried in the signature bytes
	key   keyT
	share int
	root  int
}

func (d *datum) String() string { return fmt.Sprintf("d%d(sh%d,r%d)", d.id, d.share, d.root) }

// mkData builds the partial signed data of a datum: a pure function of the datum.
func mkData(d *datum) core.ParSignedData {
	sig := simdata.Sig(uint64(d.id))
	switch d.key.duty.Type {
	case core.DutyRandao:
		return core.NewPartialSignedRandao(eth2p0.Epoch(10+d.root), sig, d.share)
	case core.DutySyncContribution:
		return core.NewPartialSignedSyncContributionAndProof(&altair.SignedContributionAndProof{
			Message: &altair.ContributionAndProof{
				AggregatorIndex: eth2p0.ValidatorIndex(7 + d.key.pk),
				Contribution: &altair.SyncCommitteeContribution{
					Slot:              eth2p0.Slot(d.key.duty.Slot),
					BeaconBlockRoot:   simdata.Root(uint64(100 + d.root)),
					SubcommitteeIndex: d.key.sc,
					AggregationBits:   bitfield.NewBitvector128(),
					Signature:         simdata.Sig(1000),
				},
				SelectionProof: simdata.Sig(2000),
			},
			Signature: sig,
		}, d.share)
	case core.DutyExit:
		return core.NewPartialSignedVoluntaryExit(&eth2p0.SignedVoluntaryExit{
			Message:   &eth2p0.VoluntaryExit{Epoch: eth2p0.Epoch(10 + d.root), ValidatorIndex: eth2p0.ValidatorIndex(d.key.pk)},
			Signature: sig,
		}, d.share)
	case core.DutyBuilderRegistration:
		var pk eth2p0.BLSPubKey
		for i := range pk {
			pk[i] = byte(0xa0 + d.key.pk)
		}
		p, err := core.NewPartialVersionedSignedValidatorRegistration(&eth2api.VersionedSignedValidatorRegistration{
			Version: eth2spec.BuilderVersionV1,
			V1: &eth2v1.SignedValidatorRegistration{
				Message: &eth2v1.ValidatorRegistration{
					FeeRecipient: bellatrix.ExecutionAddress{1, 2, 3},
					GasLimit:     uint64(30000000 + d.root),
					Timestamp:    time.Unix(1700000000, 0).UTC(),
					Pubkey:       pk,
				},
				Signature: sig,
			},
		}, d.share)
		if err != nil {
			panic(err)
		}
		return p
	}
	panic("c07: unsupported duty type " + d.key.duty.Type.String())
}

func sameBytes(a, b core.ParSignedData) bool {
	if a.ShareIdx != b.ShareIdx {
		return false
	}
	ja, err1 := json.Marshal(a.SignedData)
	jb, err2 := json.Marshal(b.SignedData)
	return err1 == nil && err2 == nil && bytes.Equal(ja, jb)
}

// ---- recorded history -----------------------------------------------------------------------

type entryOp struct {
	call  *callRec
	key   keyT
	d     *datum
	trigs []*trigEv // threshold triggers for this key observed inside this call
}

type callRec struct {
	id       int
	client   int
	internal bool
	duty     core.Duty
	entries  []*entryOp
	inv, ret int64
	invT     time.Duration
	retT     time.Duration
	straddle bool // a store of the expiring duty invoked before the deadline that returned after it (descheduled client)
	returned bool
	err      string // "", "mismatch", "other:…"
	dropped  bool   // invoked after the duty's deadline: the statement says it is dropped
	filler   bool
	ints     []*intEv
}

func (cr *callRec) retOrInf() int64 {
	if !cr.returned {
		return math.MaxInt64
	}
	return cr.ret
}

type trigEv struct {
	call  *callRec
	stamp int64
	duty  core.Duty
	pk    int
	parts []core.ParSignedData
	ids   []int // datum ids of the partials (sorted); -1 for an unattributable partial
	key   keyT
	keyOK bool
}

type intEv struct {
	call  *callRec
	stamp int64
	duty  core.Duty
	set   core.ParSignedDataSet
}

type callKey struct{}

type harn struct {
	c   *kernel.Ctx
	n   int
	t   int
	mu  sync.Mutex
	seq int64

	datums    []*datum // index id-1
	calls     []*callRec
	trigs     []*trigEv
	orphanT   int
	ints      []*intEv
	pkIdx     map[core.PubKey]int
	expiring  core.Duty
	hasExp    bool
	straddled bool
	expireAt  time.Duration

	// eviction sub-scenario (see body): the key of the oldest filler duty, which other shares also sign
	hasEvict bool
	evictKey keyT
}

func (h *harn) stamp() int64 { h.mu.Lock(); defer h.mu.Unlock(); h.seq++; return h.seq }

func (h *harn) newDatum(k keyT, share, root int) *datum {
	d := &datum{id: len(h.datums) + 1, key: k, share: share, root: root}
	h.datums = append(h.datums, d)
	return d
}

func classify(err error) string {
	switch {
	case err == nil:
		return ""
	case strings.Contains(err.Error(), "mismatching partial signed data"):
		return "mismatch"
	default:
		return "other:" + err.Error()
	}
}

// ---- workload plan --------------------------------------------------------------------------

type planBatch struct {
	duty     core.Duty
	share    int
	entries  []*datum // at most one per pubkey
	internal bool
	extra    bool // re-send / second batch of a share
	filler   bool
}

func hasPk(ds []*datum, pk int) bool {
	for _, d := range ds {
		if d.key.pk == pk {
			return true
		}
	}
	return false
}

func shuffle(bs []*planBatch) {
	for i := 0; i < len(bs)-1; i++ {
		j := i + verifrt.Intn("w", len(bs)-i)
		bs[i], bs[j] = bs[j], bs[i]
	}
}

const (
	kRandao = iota
	kSync
	kExpiring
	kExit
	kBuilder
	nKinds
)

func dutyOfKind(k int) core.Duty {
	switch k {
	case kRandao:
		return core.NewRandaoDuty(32)
	case kSync:
		return core.NewSyncContributionDuty(33)
	case kExpiring:
		return core.NewRandaoDuty(64)
	case kExit:
		return core.NewVoluntaryExit(5)
	default:
		return core.NewBuilderRegistrationDuty(6)
	}
}

var kindName = []string{"randao", "synccontrib", "expiring-randao", "exit", "builderreg"}

func body(c *kernel.Ctx) {
	ctx0, cancelAll := context.WithCancel(context.Background())
	defer cancelAll()
	ctx := log.WithLogger(ctx0, zap.NewNop())
	start := time.Now()

	h := &harn{c: c, pkIdx: map[core.PubKey]int{}}
	h.n = 3 + verifrt.Intn("cfg", 5)
	h.t = (2*h.n + 2) / 3 // ceil(2n/3)
	nClients := 2 + verifrt.Intn("cfg", 4)
	nVals := 1 + verifrt.Intn("cfg", 4)
	for i := 0; i < nVals; i++ {
		h.pkIdx[simdata.PubKey(i)] = i
	}
	kinds := []int{verifrt.Intn("cfg", nKinds)}
	if verifrt.Intn("cfg", 2) == 1 {
		if k2 := verifrt.Intn("cfg", nKinds); k2 != kinds[0] {
			kinds = append(kinds, k2)
		}
	}
	h.expireAt = time.Duration(1+verifrt.Intn("cfg", 8))*time.Millisecond + 500*time.Microsecond
	flood, floodShare, floodKind := false, 0, 0
	for _, k := range kinds {
		if k == kExpiring {
			h.hasExp, h.expiring = true, dutyOfKind(k)
		}
		if (k == kExit || k == kBuilder) && !flood && verifrt.Intn("cfg", 4) == 3 {
			flood, floodKind = true, k
			floodShare = 1 + verifrt.Intn("cfg", h.n)
		}
	}
	var kn []string
	for _, k := range kinds {
		kn = append(kn, kindName[k])
	}
	c.Set("n", h.n)
	c.Set("t", h.t)
	c.Set("clients", nClients)
	c.Set("validators", nVals)
	c.Set("duties", strings.Join(kn, ","))
	c.Set("flood", flood)
	verifrt.Note("cfg n=%d t=%d clients=%d vals=%d duties=%s flood=%v/sh%d expireAt=%v", h.n, h.t, nClients, nVals, strings.Join(kn, ","), flood, floodShare, h.expireAt)

	dl := core.NewDeadliner(ctx, "c07", func(d core.Duty) (time.Time, bool) {
		if d.Type == core.DutyExit || d.Type == core.DutyBuilderRegistration {
			return time.Time{}, false
		}
		if h.hasExp && d == h.expiring {
			return start.Add(h.expireAt), true
		}
		return start.Add(time.Hour), true
	})
	db := parsigdb.NewMemDB(h.t, dl, parsigdb.NewMemDBMetadata(12, start))
	verifrt.Go(func() { db.Trim(ctx) })

	db.SubscribeThreshold(func(ctx context.Context, duty core.Duty, m map[core.PubKey][]core.ParSignedData) error {
		cr, _ := ctx.Value(callKey{}).(*callRec)
		var pks []core.PubKey
		for pk := range m {
			pks = append(pks, pk)
		}
		sort.Slice(pks, func(i, j int) bool { return pks[i] < pks[j] })
		for _, pk := range pks {
			idx, ok := h.pkIdx[pk]
			if !ok {
				idx = -1
			}
			ev := &trigEv{call: cr, stamp: h.stamp(), duty: duty, pk: idx, parts: m[pk]}
			h.mu.Lock()
			h.trigs = append(h.trigs, ev)
			h.mu.Unlock()
			cid := -1
			if cr != nil {
				cid = cr.id
			}
			var sh []string
			for _, p := range m[pk] {
				sh = append(sh, fmt.Sprintf("sh%d:d%d", p.ShareIdx, simdata.SigID(p.Signature())))
			}
			verifrt.Note("TRIGGER in call#%d %s pk%d [%s]", cid, simdata.Desc(duty), idx, strings.Join(sh, " "))
			verifrt.Probe("threshold-trigger")
			c.Progress()
		}
		verifrt.Yield()
		return nil
	})
	db.SubscribeInternal(func(ctx context.Context, duty core.Duty, set core.ParSignedDataSet) error {
		cr, _ := ctx.Value(callKey{}).(*callRec)
		ev := &intEv{call: cr, stamp: h.stamp(), duty: duty, set: set}
		h.mu.Lock()
		h.ints = append(h.ints, ev)
		h.mu.Unlock()
		verifrt.Yield()
		return nil
	})

	// ---- build the plan ----
	var plan []*planBatch
	for _, kind := range kinds {
		duty := dutyOfKind(kind)
		var keys []keyT
		for pk := 0; pk < nVals; pk++ {
			keys = append(keys, keyT{duty, pk, 0})
			if kind == kSync && verifrt.Intn("w", 3) == 2 {
				keys = append(keys, keyT{duty, pk, 1}) // same validator in a second subcommittee
			}
		}
		// root signed by each share for each key (0 = majority root A, 1 = root B)
		rootOf := map[keyT][]int{}
		for _, k := range keys {
			r := make([]int, h.n+1)
			switch verifrt.Intn("w", 4) {
			case 1:
				r[1+verifrt.Intn("w", h.n)] = 1
			case 2:
				for s := 1; s <= h.n-h.t; s++ {
					r[s] = 1
				}
			case 3:
				for s := 1; s <= h.n; s++ {
					if verifrt.Intn("w", 3) == 2 {
						r[s] = 1
					}
				}
			}
			rootOf[k] = r
		}
		for s := 1; s <= h.n; s++ {
			if verifrt.Intn("w", 8) == 7 {
				continue // this share never shows up for this duty
			}
			b1 := &planBatch{duty: duty, share: s}
			b2 := &planBatch{duty: duty, share: s, extra: true}
			base := map[keyT]*datum{}
			for _, k := range keys {
				d := h.newDatum(k, s, rootOf[k][s])
				base[k] = d
				// a set holds one entry per pubkey: the second subcommittee of a validator goes to the other batch
				toB2 := verifrt.Intn("w", 4) == 3
				if hasPk(b1.entries, k.pk) {
					toB2 = true
				} else if hasPk(b2.entries, k.pk) {
					toB2 = false
				}
				if toB2 {
					b2.entries = append(b2.entries, d)
				} else {
					b1.entries = append(b1.entries, d)
				}
			}
			if len(plan) < 26 {
				for _, d := range b1.entries {
					if hasPk(b2.entries, d.key.pk) {
						continue
					}
					switch verifrt.Intn("w", 6) {
					case 4:
						b2.entries = append(b2.entries, d) // identical re-send
					case 5:
						b2.entries = append(b2.entries, h.equivocate(d))
					}
				}
			}
			for _, b := range []*planBatch{b1, b2} {
				if len(b.entries) > 0 {
					plan = append(plan, b)
				}
			}
			if len(plan) < 26 && len(b1.entries) > 0 {
				switch verifrt.Intn("w", 6) {
				case 4:
					plan = append(plan, &planBatch{duty: duty, share: s, extra: true, entries: append([]*datum(nil), b1.entries...)})
				case 5:
					d := b1.entries[verifrt.Intn("w", len(b1.entries))]
					plan = append(plan, &planBatch{duty: duty, share: s, extra: true, entries: []*datum{h.equivocate(d)}})
				}
			}
		}
	}
	switch verifrt.Intn("w", 3) {
	case 1:
		shuffle(plan)
	case 2: // first batches in random order, then the re-sends / second batches in random order
		var a, b []*planBatch
		for _, p := range plan {
			if p.extra {
				b = append(b, p)
			} else {
				a = append(a, p)
			}
		}
		shuffle(a)
		shuffle(b)
		plan = append(a, b...)
	}
	perClient := make([][]*planBatch, nClients)
	for _, p := range plan {
		p.internal = verifrt.Intn("w", 2) == 1
		cl := verifrt.Intn("w", nClients)
		perClient[cl] = append(perClient[cl], p)
	}
	// exempt flood: 11 further duties of the exempt type for one (share, validator): the per-share cap (10) is exceeded.
	var fillers []*planBatch
	if flood {
		for i := 0; i < 11; i++ {
			fd := core.Duty{Slot: uint64(1000 + i), Type: dutyOfKind(floodKind).Type}
			fillers = append(fillers, &planBatch{duty: fd, share: floodShare, filler: true, entries: []*datum{h.newDatum(keyT{fd, 0, 0}, floodShare, 0)}})
		}
	}

	cancelCtx := verifrt.Intn("cfg", 3) == 2 // runs in which some callers' contexts are (being) cancelled
	exec := func(cl int, p *planBatch) {
		cr := &callRec{client: cl, internal: p.internal, duty: p.duty, filler: p.filler}
		set := core.ParSignedDataSet{}
		var desc []string
		for _, d := range p.entries {
			cr.entries = append(cr.entries, &entryOp{call: cr, key: d.key, d: d})
			set[simdata.PubKey(d.key.pk)] = mkData(d)
			desc = append(desc, fmt.Sprintf("pk%d/sc%d=%v", d.key.pk, d.key.sc, d))
		}
		h.mu.Lock()
		cr.id = len(h.calls) + 1
		h.calls = append(h.calls, cr)
		h.mu.Unlock()
		cctx := context.WithValue(ctx, callKey{}, cr)
		// the caller's context may be done already (a validator client that hung up, a receive timeout that
		// fired) or be cancelled while the call runs: what the call stored still counts towards thresholds
		switch m := verifrt.Intn("w", 8); {
		case !cancelCtx:
		case m == 7:
			var cancel context.CancelFunc
			cctx, cancel = context.WithCancel(cctx)
			cancel()
			verifrt.Fault("caller-context-already-cancelled")
		case m == 6:
			var cancel context.CancelFunc
			cctx, cancel = context.WithCancel(cctx)
			verifrt.Go(func() { verifrt.Yield(); cancel() })
			verifrt.Fault("caller-context-cancelled-during-call")
		}
		cr.invT = verifrt.Now()
		cr.dropped = h.hasExp && p.duty == h.expiring && cr.invT > h.expireAt
		kind := "ext"
		if p.internal {
			kind = "int"
		}
		cr.inv = h.stamp()
		verifrt.Note("c%d call#%d store-%s %s share=%d {%s} dropped=%v", cl, cr.id, kind, simdata.Desc(p.duty), p.share, strings.Join(desc, " "), cr.dropped)
		var err error
		// a storing client may be descheduled between any two steps of the call while time passes (fault kind
		// goroutine-descheduled): a store can then be in flight when its duty expires and is trimmed
		verifrt.SetPreemptible(true)
		if p.internal {
			err = db.StoreInternal(cctx, p.duty, set)
		} else {
			err = db.StoreExternal(cctx, p.duty, set)
		}
		verifrt.SetPreemptible(false)
		cr.err = classify(err)
		cr.ret = h.stamp()
		cr.retT = verifrt.Now()
		cr.returned = true
		if h.hasExp && p.duty == h.expiring && !cr.dropped && cr.retT >= h.expireAt {
			// in flight at the deadline: whether its entries were stored before or after the trim, or dropped,
			// is not stated; the reference model is not applied to the expiring duty's keys in such a run. What
			// stays checked for them: no store invoked after the deadline triggers or fails, trigger content.
			cr.straddle = true
			h.straddled = true
			verifrt.Probe("store-in-flight-at-deadline")
		}
		verifrt.Note("c%d call#%d -> err=%q", cl, cr.id, cr.err)
	}

	// the two oldest exempt entries of the flood are stored before anything else, so that the cap
	// only ever evicts filler entries (the statement says nothing about evicted partials).
	// Eviction sub-scenario: the oldest filler duty is also signed by t-2 other shares before the flood
	// and by two more after it. The cap evicts (at most) the flooding share's partial from that entry;
	// the other shares' partials still count: whichever t matching shares the store then holds, it
	// triggers exactly once, with t distinct shares (checked by the generic trigger oracles plus
	// "eviction/..." below; the key is exempted from the reference model, which knows no eviction).
	var postEvict []*planBatch
	if flood && h.n-1 >= h.t {
		h.hasEvict, h.evictKey = true, keyT{fillers[0].duty, 0, 0}
		var others []int
		for sh := 1; sh <= h.n; sh++ {
			if sh != floodShare {
				others = append(others, sh)
			}
		}
		for i := 0; i < len(others)-1; i++ {
			j := i + verifrt.Intn("w", len(others)-i)
			others[i], others[j] = others[j], others[i]
		}
		mk := func(sh int) *planBatch {
			return &planBatch{duty: fillers[0].duty, share: sh, filler: true, internal: verifrt.Intn("w", 2) == 1, entries: []*datum{h.newDatum(h.evictKey, sh, 0)}}
		}
		// the flooding share's own partial in that entry may be over another root than the other shares'
		// (it is the one the cap evicts), and is stored before, between or after the other early shares
		if verifrt.Intn("w", 2) == 1 {
			fillers[0].entries[0] = h.newDatum(h.evictKey, floodShare, 1)
			verifrt.Probe("exempt-eviction-of-a-minority-root-partial")
		}
		pos := verifrt.Intn("w", h.t-1)
		for i, sh := range others[:h.t-2] {
			if i == pos {
				exec(-1, fillers[0])
			}
			exec(-1, mk(sh))
		}
		if pos >= h.t-2 {
			exec(-1, fillers[0])
		}
		if verifrt.Intn("w", 2) == 1 {
			// after the flood the flooding share hands in its evicted partial once more (a replay, or a
			// validator client that re-submits): accepted as new or refused, it must not disturb the others
			postEvict = append(postEvict, &planBatch{duty: fillers[0].duty, share: floodShare, filler: true, entries: []*datum{fillers[0].entries[0]}})
			verifrt.Probe("exempt-evicted-partial-resubmitted")
		}
		for _, sh := range others[h.t-2 : h.t] {
			postEvict = append(postEvict, mk(sh))
		}
		if verifrt.Intn("w", 2) == 1 && len(postEvict) == 3 {
			postEvict[0], postEvict[1] = postEvict[1], postEvict[0]
		}
		verifrt.Probe("exempt-eviction-with-other-shares")
	} else if flood {
		exec(-1, fillers[0])
	}
	if flood {
		exec(-1, fillers[1])
		perClient = append(perClient, fillers[2:])
	}
	var wg sync.WaitGroup
	for cl := range perClient {
		wg.Add(1)
		verifrt.Go(func() {
			defer wg.Done()
			for _, p := range perClient[cl] {
				if !p.filler {
					if d := verifrt.Intn("w", 3); d > 0 {
						verifrt.Sleep(time.Duration(d) * time.Millisecond)
					}
				}
				exec(cl, p)
			}
		})
	}
	verifrt.WGWait(&wg)
	if flood {
		verifrt.Probe("exempt-cap-exceeded")
	}
	for _, p := range postEvict {
		exec(-1, p)
	}
	// Quiescence: simulated time only advances when nothing is runnable; whatever the store was going
	// to do without further input (asynchronous triggers, expiry) has happened after this sleep.
	verifrt.Sleep(2 * time.Second)
	h.check()
	c.Set("calls", len(h.calls))
	c.Set("triggers", len(h.trigs))
	cancelAll()
}

// equivocate returns a different datum for the same key and share: another root, or the same root
// with another signature.
func (h *harn) equivocate(d *datum) *datum {
	if verifrt.Intn("w", 3) == 2 {
		return h.newDatum(d.key, d.share, d.root)
	}
	return h.newDatum(d.key, d.share, 1-d.root)
}

// ---- oracles --------------------------------------------------------------------------------

func (h *harn) violate(oracle, sig, f string, a ...any) { h.c.Violate(prop, oracle, sig, f, a...) }

func (h *harn) check() {
	h.mu.Lock()
	defer h.mu.Unlock()

	byKey := map[keyT][]*entryOp{}
	var keyOrder []keyT
	firstInv := map[int]int64{} // datum id -> earliest invocation stamp of a call offering it
	nEntries := 0
	for _, cr := range h.calls {
		if !cr.returned {
			h.violate("liveness", "store-never-returned", "call#%d (client %d, %s) never returned", cr.id, cr.client, simdata.Desc(cr.duty))
		}
		if strings.HasPrefix(cr.err, "other:") {
			h.violate("unexpected-error", "store-error", "call#%d returned %s", cr.id, cr.err)
		}
		if cr.dropped {
			verifrt.Probe("expired-store-dropped")
		}
		if cr.err == "mismatch" {
			verifrt.Probe("store-returned-mismatch")
		}
		for _, e := range cr.entries {
			nEntries++
			if _, ok := byKey[e.key]; !ok {
				keyOrder = append(keyOrder, e.key)
			}
			byKey[e.key] = append(byKey[e.key], e)
			if v, ok := firstInv[e.d.id]; !ok || cr.inv < v {
				firstInv[e.d.id] = cr.inv
			}
		}
	}
	h.c.Set("entries", nEntries)

	// -- every trigger: attribution to a call and key, structure and content (T2, T3, X1, T4 "not later")
	for _, tr := range h.trigs {
		if tr.call == nil {
			h.violate("trigger-content", "trigger-without-store-context", "threshold subscriber called for %s pk%d with a context that belongs to no store call", simdata.Desc(tr.duty), tr.pk)
			continue
		}
		var ent *entryOp
		for _, e := range tr.call.entries {
			if e.key.pk == tr.pk && tr.call.duty == tr.duty {
				ent = e
			}
		}
		if ent == nil {
			h.violate("trigger-content", "trigger-for-key-not-in-batch", "call#%d (%s) triggered %s pk%d which is not in its batch", tr.call.id, simdata.Desc(tr.call.duty), simdata.Desc(tr.duty), tr.pk)
			continue
		}
		tr.key, tr.keyOK = ent.key, true
		ent.trigs = append(ent.trigs, tr)
		if tr.call.returned && tr.stamp > tr.call.ret {
			h.violate("timing", "trigger-after-store-returned", "key %v: trigger (stamp %d) delivered after call#%d had returned (stamp %d)", ent.key, tr.stamp, tr.call.id, tr.call.ret)
		}
		if tr.call.dropped {
			h.violate("expired", "trigger-from-expired-store", "key %v: call#%d was invoked at %v, after the duty's deadline %v, yet triggered aggregation", ent.key, tr.call.id, tr.call.invT, h.expireAt)
		}
		switch {
		case len(tr.parts) < h.t:
			h.violate("trigger-content", "fewer-than-threshold", "key %v call#%d: trigger with %d partials, threshold %d", ent.key, tr.call.id, len(tr.parts), h.t)
		case len(tr.parts) > h.t:
			h.violate("trigger-content", "more-than-threshold", "key %v call#%d: trigger with %d partials, threshold %d", ent.key, tr.call.id, len(tr.parts), h.t)
		}
		shares := map[int]bool{}
		var root0 [32]byte
		for i, p := range tr.parts {
			if shares[p.ShareIdx] {
				h.violate("trigger-content", "repeated-share", "key %v call#%d: share %d appears twice in the trigger", ent.key, tr.call.id, p.ShareIdx)
			}
			shares[p.ShareIdx] = true
			r, err := p.MessageRoot()
			if err != nil {
				h.violate("trigger-content", "message-root-error", "key %v call#%d: %v", ent.key, tr.call.id, err)
			}
			if i == 0 {
				root0 = r
			} else if r != root0 {
				h.violate("trigger-content", "mixed-roots", "key %v call#%d: partial of share %d has another message root than that of share %d", ent.key, tr.call.id, p.ShareIdx, tr.parts[0].ShareIdx)
			}
			id := int(simdata.SigID(p.Signature()))
			ok := id >= 1 && id <= len(h.datums)
			if ok {
				d := h.datums[id-1]
				inv, offered := firstInv[id]
				ok = d.key == ent.key && d.share == p.ShareIdx && sameBytes(p, mkData(d)) && offered && inv < tr.stamp
			}
			if ok {
				// E1: a datum offered only after another datum of the same share had been stored by a call that
				// returned nil was an equivocation and must have been rejected: it can never be handed over.
				for _, o := range byKey[ent.key] {
					if o.d.share == p.ShareIdx && o.d.id != id && o.call.returned && o.call.err == "" && !o.call.dropped && o.call.ret < firstInv[id] {
						h.violate("rejection", "rejected-datum-in-trigger", "key %v call#%d: the trigger hands over d%d of share %d although call#%d had stored d%d for that share (and returned nil) before d%d was first offered", ent.key, tr.call.id, id, p.ShareIdx, o.call.id, o.d.id, id)
						break
					}
				}
			}
			if !ok {
				h.violate("trigger-content", "unattributed-partial", "key %v call#%d: partial sh%d/d%d was not offered by that share for this key before the trigger (or differs from it)", ent.key, tr.call.id, p.ShareIdx, id)
				id = -1
			}
			tr.ids = append(tr.ids, id)
		}
		sort.Ints(tr.ids)
	}

	// -- expired stores return nil; a mismatch error needs a conflicting datum of the same share (E, X1)
	for _, cr := range h.calls {
		if cr.dropped && cr.err != "" {
			h.violate("expired", "error-from-expired-store", "call#%d invoked at %v after the deadline %v returned %s", cr.id, cr.invT, h.expireAt, cr.err)
		}
		if cr.err != "mismatch" || cr.dropped {
			continue
		}
		conflict := false
		for _, e := range cr.entries {
			for _, o := range byKey[e.key] {
				if o != e && o.d.share == e.d.share && o.d.id != e.d.id && o.call.inv < cr.retOrInf() {
					conflict = true
				}
			}
		}
		if !conflict {
			h.violate("rejection", "spurious-mismatch-error", "call#%d returned a mismatch error although no share of its batch was ever offered different data", cr.id)
		}
	}

	// -- internal subscriber: only for StoreInternal, once, with the stored set
	for _, ev := range h.ints {
		if ev.call == nil {
			h.violate("internal-sub", "without-store-context", "internal subscriber called outside a store call")
			continue
		}
		ev.call.ints = append(ev.call.ints, ev)
		if !ev.call.internal {
			h.violate("internal-sub", "called-by-external-store", "call#%d is a StoreExternal but the internal subscriber was called", ev.call.id)
		}
		same := ev.duty == ev.call.duty && len(ev.set) == len(ev.call.entries)
		for _, e := range ev.call.entries {
			p, ok := ev.set[simdata.PubKey(e.key.pk)]
			same = same && ok && sameBytes(p, mkData(e.d))
		}
		if !same {
			h.violate("internal-sub", "content-mismatch", "call#%d: internal subscriber received another set than the one stored", ev.call.id)
		}
	}
	for _, cr := range h.calls {
		if len(cr.ints) > 1 {
			h.violate("internal-sub", "duplicate", "call#%d: internal subscriber called %d times", cr.id, len(cr.ints))
		}
		if cr.internal && cr.returned && cr.err == "" && len(cr.ints) == 0 {
			h.violate("internal-sub", "missing", "call#%d: StoreInternal returned nil without calling the internal subscriber", cr.id)
		}
	}

	h.probes(byKey, keyOrder)

	// -- per key: the history must be linearizable against the reference model (T1, T2, T4, E1, B1, D1)
	if h.hasEvict {
		nTrig := 0
		for _, tr := range h.trigs {
			if tr.keyOK && tr.key == h.evictKey {
				nTrig++
			}
		}
		switch {
		case nTrig == 0:
			h.violate("exactly-once", "eviction/missing-trigger", "key %v (t=%d): %d shares other than the flooding one stored matching partials (t-2 before the flood, 2 after it) but aggregation was never triggered; history: %s", h.evictKey, h.t, h.t, h.render(byKey[h.evictKey]))
		case nTrig > 1:
			h.violate("exactly-once", "eviction/duplicate-trigger", "key %v (t=%d): aggregation was triggered %d times; history: %s", h.evictKey, h.t, nTrig, h.render(byKey[h.evictKey]))
		}
	}
	for _, k := range keyOrder {
		ops := byKey[k]
		if len(ops) > 40 {
			continue // never generated
		}
		if h.hasEvict && k == h.evictKey {
			continue // eviction is outside the reference model: checked above and by the trigger oracles
		}
		if h.straddled && h.hasExp && k.duty == h.expiring {
			continue // a store was in flight at the deadline (see the client loop)
		}
		if h.linearizable(ops, 0) {
			continue
		}
		nTrig := 0
		for _, o := range ops {
			nTrig += len(o.trigs)
		}
		hist := h.render(ops)
		explained := false
		for _, rs := range [][]int{{rRetrig}, {rDiscard}, {rSkip}, {rRetrig, rDiscard}, {rRetrig, rSkip}, {rDiscard, rSkip}, {rRetrig, rDiscard, rSkip}} {
			m := 0
			for _, r := range rs {
				m |= r
			}
			if !h.linearizable(ops, m) {
				continue
			}
			explained = true
			for _, r := range rs {
				switch r {
				case rRetrig:
					h.violate("exactly-once", "retrigger-when-other-root-share-accepted-after-threshold",
						"key %v (t=%d): aggregation was triggered again, with the same %d partials, by a store that only added a share signing ANOTHER root after the threshold had been reached; history: %s", k, h.t, h.t, hist)
				case rDiscard:
					h.violate("batch-independence", "batch-abort/threshold-output-discarded",
						"key %v (t=%d): its entry reached the threshold inside a batch in which another entry was rejected (mismatch error); the trigger was never delivered; history: %s", k, h.t, hist)
				case rSkip:
					h.violate("batch-independence", "batch-abort/valid-entry-skipped",
						"key %v (t=%d): a valid entry of a batch in which another entry was rejected (mismatch error) was not stored at all; history: %s", k, h.t, hist)
				}
			}
			break
		}
		if !explained {
			class := "trigger-misplaced-or-wrong-content"
			switch {
			case nTrig >= 2:
				class = "duplicate-trigger"
			case nTrig == 0:
				class = "missing-trigger-or-wrong-result"
			}
			h.violate("linearizability", "key-history-illegal/"+class,
				"key %v (t=%d): no order of the stores consistent with their call/return times matches the reference model; history: %s", k, h.t, hist)
		}
	}
}

func (h *harn) render(ops []*entryOp) string {
	s := append([]*entryOp(nil), ops...)
	sort.SliceStable(s, func(i, j int) bool { return s[i].call.inv < s[j].call.inv })
	var sb strings.Builder
	for _, o := range s {
		fmt.Fprintf(&sb, "[call#%d c%d %v %d..%d batch=%d err=%q", o.call.id, o.call.client, o.d, o.call.inv, o.call.ret, len(o.call.entries), o.call.err)
		if o.call.dropped {
			sb.WriteString(" expired")
		}
		for _, tr := range o.trigs {
			fmt.Fprintf(&sb, " TRIGGER@%d%v", tr.stamp, tr.ids)
		}
		sb.WriteString("] ")
	}
	return sb.String()
}

// ---- reference model and linearizability search --------------------------------------------------

const (
	rRetrig  = 1 // a store adding a share of another root while the triggered root still has exactly t shares triggers again
	rDiscard = 2 // an entry of a multi-entry batch that returned a mismatch error is stored, its trigger is not delivered
	rSkip    = 4 // an entry of a multi-entry batch that returned a mismatch error is not stored
)

type kstate struct {
	acc   [8]int16 // share -> accepted datum id (0 = none)
	fired int8     // 0 = not yet, else 1 + root that triggered
}

func (h *harn) group(s kstate, root int) []int {
	var ids []int
	for sh := 1; sh <= 7; sh++ {
		if id := int(s.acc[sh]); id != 0 && h.datums[id-1].root == root {
			ids = append(ids, id)
		}
	}
	sort.Ints(ids)
	return ids
}

func eqInts(a, b []int) bool {
	if len(a) != len(b) {
		return false
	}
	for i := range a {
		if a[i] != b[i] {
			return false
		}
	}
	return true
}

// step returns the model states after op o linearizes in state s (none: o's observed result is impossible here).
func (h *harn) step(s kstate, o *entryOp, relax int) []kstate {
	cr := o.call
	if len(o.trigs) > 1 {
		return nil
	}
	var trig []int
	hasTrig := len(o.trigs) == 1
	if hasTrig {
		trig = o.trigs[0].ids
	}
	errd := cr.err == "mismatch"
	multi := len(cr.entries) > 1
	if cr.dropped { // expired duty: dropped, no effect, no error
		if hasTrig || errd {
			return nil
		}
		return []kstate{s}
	}
	cur := int(s.acc[o.d.share])
	if cur != 0 {
		if hasTrig {
			return nil
		}
		if cur == o.d.id { // identical re-store: ignored
			if errd && !multi {
				return nil
			}
			return []kstate{s}
		}
		if !errd { // equivocation must be rejected with an error
			return nil
		}
		return []kstate{s}
	}
	var out []kstate
	if errd && multi && relax&rSkip != 0 && !hasTrig {
		out = append(out, s)
	}
	if errd && !multi {
		return out // an error for a single valid entry
	}
	s2 := s
	s2.acc[o.d.share] = int16(o.d.id)
	g := h.group(s2, o.d.root)
	if s.fired == 0 && len(g) >= h.t {
		s2.fired = int8(1 + o.d.root)
		if hasTrig && eqInts(trig, g) {
			out = append(out, s2)
		}
		if !hasTrig && errd && multi && relax&rDiscard != 0 {
			out = append(out, s2)
		}
		return out
	}
	if !hasTrig {
		out = append(out, s2)
	} else if relax&rRetrig != 0 && s.fired != 0 && int(s.fired)-1 != o.d.root {
		if fg := h.group(s2, int(s.fired)-1); len(fg) == h.t && eqInts(trig, fg) {
			out = append(out, s2)
		}
	}
	return out
}

type memoKey struct {
	mask uint64
	s    kstate
}

func (h *harn) linearizable(ops []*entryOp, relax int) bool {
	full := uint64(1)<<uint(len(ops)) - 1
	seen := map[memoKey]struct{}{}
	var rec func(mask uint64, s kstate) bool
	rec = func(mask uint64, s kstate) bool {
		if mask == full {
			return true
		}
		mk := memoKey{mask, s}
		if _, ok := seen[mk]; ok {
			return false
		}
		seen[mk] = struct{}{}
		minRet := int64(math.MaxInt64)
		for i, o := range ops {
			if mask&(1<<uint(i)) == 0 && o.call.retOrInf() < minRet {
				minRet = o.call.retOrInf()
			}
		}
		for i, o := range ops {
			if mask&(1<<uint(i)) != 0 || o.call.inv > minRet {
				continue
			}
			for _, s2 := range h.step(s, o, relax) {
				if rec(mask|1<<uint(i), s2) {
					return true
				}
			}
		}
		return false
	}
	return rec(0, kstate{})
}

// probes replays the history sequentially in invocation order through the model (an approximation that
// is used for reach counters only, never for a verdict).
func (h *harn) probes(byKey map[keyT][]*entryOp, keyOrder []keyT) {
	type res struct{ rejected, reached bool }
	perCall := map[*callRec]*res{}
	for _, k := range keyOrder {
		ops := append([]*entryOp(nil), byKey[k]...)
		sort.SliceStable(ops, func(i, j int) bool { return ops[i].call.inv < ops[j].call.inv })
		var s kstate
		roots := map[int]bool{}
		for _, o := range ops {
			if o.call.dropped {
				continue
			}
			r := perCall[o.call]
			if r == nil {
				r = &res{}
				perCall[o.call] = r
			}
			cur := int(s.acc[o.d.share])
			switch {
			case cur == o.d.id:
				verifrt.Probe("duplicate-ignored")
			case cur != 0:
				verifrt.Probe("equivocation")
				if h.datums[cur-1].root == o.d.root {
					verifrt.Probe("equivocation-same-root-other-signature")
				}
				r.rejected = true
			default:
				s.acc[o.d.share] = int16(o.d.id)
				roots[o.d.root] = true
				if s.fired == 0 && len(h.group(s, o.d.root)) >= h.t {
					s.fired = int8(1 + o.d.root)
					r.reached = true
					verifrt.Probe("threshold-reached")
					if len(roots) > 1 {
						verifrt.Probe("threshold-reached-with-minority-root-present")
					}
					if o.d.root == 1 {
						verifrt.Probe("threshold-reached-on-root-B")
					}
				} else if s.fired != 0 && int(s.fired)-1 != o.d.root {
					verifrt.Probe("other-root-share-after-threshold")
				} else if s.fired != 0 {
					verifrt.Probe("same-root-share-after-threshold")
				}
			}
		}
		if len(roots) > 1 {
			verifrt.Probe("minority-root")
		}
		if k.sc == 1 {
			verifrt.Probe("second-subcommittee-key")
		}
	}
	flags := uint64(0)
	for _, cr := range h.calls {
		if r := perCall[cr]; r != nil && r.rejected && r.reached {
			verifrt.Probe("batch-with-rejected-entry-and-validator-reaching-threshold")
			flags |= 1
		}
		if r := perCall[cr]; r != nil && r.rejected && len(cr.entries) > 1 {
			verifrt.Probe("multi-entry-batch-with-rejected-entry")
			flags |= 2
		}
	}
	h.c.State(flags<<8 | uint64(h.n))
}
