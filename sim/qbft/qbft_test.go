//go:build verif

// Harness L-alg for C02 (agreement), C03 (validity/integrity) and C04 (termination): n real
// qbft.Run instances over a simulated transport whose messages are structurally unforgeable
// (a message whose source is an honest member is always an exact copy of one that member sent),
// real round timers on the bubble clock, crash/late-start/silence faults, lossy network and a
// Byzantine adversary with global knowledge.
package qbftsim

import (
	"os"
	"context"
	"fmt"
	"hash/fnv"
	"sort"
	"strings"
	"sync"
	"testing"
	"time"

	"github.com/obolnetwork/charon/core/consensus/instance"
	"github.com/obolnetwork/charon/core/consensus/timer"
	"github.com/obolnetwork/charon/core/qbft"
	"github.com/obolnetwork/charon/verifrt"

	"verifsim/kernel"
)

type M = qbft.Msg[int64, int64, int64]

type msg struct {
	typ                     qbft.MsgType
	src, round, val, pr, pv int64
	just                    []M
	uid                     int
	byz                     bool
}

func (m msg) Type() qbft.MsgType          { return m.typ }
func (m msg) Instance() int64             { return 1 }
func (m msg) Source() int64               { return m.src }
func (m msg) Round() int64                { return m.round }
func (m msg) Value() int64                { return m.val }
func (m msg) ValueSource() (int64, error) { return m.val, nil }
func (m msg) PreparedRound() int64        { return m.pr }
func (m msg) PreparedValue() int64        { return m.pv }
func (m msg) Justification() []M          { return m.just }

func (m msg) String() string {
	return fmt.Sprintf("%s(src=%d r=%d v=%d pr=%d pv=%d j=%d)", m.typ, m.src, m.round, m.val, m.pr, m.pv, len(m.just))
}

// strip returns the messages as justification entries: nested justifications removed, exactly as
// core/consensus/qbft.createMsg/newMsg do on the wire.
func strip(js []M) []M {
	var out []M
	for _, j := range js {
		q := j.(msg)
		q.just = nil
		out = append(out, q)
	}
	return out
}

const (
	modeTimely = iota // C04 conditions: <= f crash faults, timely delivery, inputs available
	modeLossy         // arbitrary loss/delay/duplication/partition, any number of crashes, late or missing inputs
	modeByz           // lossy + up to f Byzantine members
)

type decision struct {
	val, round int64
	at         time.Duration
}

type sim struct {
	c            *kernel.Ctx
	ctx          context.Context
	mode         int
	n, q, f      int
	slotOff      int64
	byz          []bool
	inbox        []chan M
	mctx         []context.Context
	mcancel      []context.CancelFunc
	stopOnDecide bool

	mu                       sync.Mutex
	uid                      int
	sent                     []msg                    // every message an honest member broadcast (adversary's knowledge)
	proposed                 map[int64]map[int64]bool // value -> set of rounds in which the designated leader pre-prepared it
	decided                  map[int64]decision
	ndecided                 map[int64]int
	rounds                   []int64
	crashed                  []bool
	started                  []bool
	inputs                   []int64
	lastFault                time.Duration
	rstar                    int64
	unjustHonest             int
	bcasts                   []int          // per member: number of broadcasts so far
	crashAt                  map[int][2]int // member -> (broadcast index, recipients already served)
	maxLat                   time.Duration
	done                     []func()
	dropPct, dupPct, longPct int
	part                     struct {
		from, until time.Duration
		side        []bool
	}
	rules      []dropRule
	votes      map[voteKey]int64
	splitLocks bool
	// scenario family "ping-pong locks" (see body): rounds 1..ppK each leave exactly one honest member
	// prepared (and committed), and that member's next ROUND-CHANGE does not reach the next leader
	ppK int64
	ppX []int // ppX[r] = the only member that receives the PREPAREs of round r (1-based)
	ppZ []bool // the members that receive the COMMITs of the scripted rounds
	// scenario family "stale votes" (see body)
	staleVotes bool
	// comparator in table mode: cmpFail[member][value] = that member's local data makes it refuse that value
	// (nil = class mode: values >= 103 and < 103 are mutually unacceptable)
	cmpFail []map[int64]bool
	cmpLock bool // scenario family "compare-failure lock" (see body)
}

type voteKey struct {
	p     int
	round int64
	typ   qbft.MsgType
}

// dropRule is a structured loss: messages of one type and round from some members to some members
// are lost (what a targeted partition or an adversary that controls delivery produces). i.i.d.
// drops almost never produce "exactly one member prepared" states; such rules do.
type dropRule struct {
	typ      qbft.MsgType
	round    int64
	from, to []bool
	// delay > 0: the messages are not lost but arrive that much later (typically one or two rounds later:
	// votes of an old round that complete a quorum after the member has moved on)
	delay time.Duration
}

func (s *sim) leader(round int64) int64 { return (s.slotOff + round) % int64(s.n) }

func TestSim(t *testing.T) {
	kernel.Main(t, kernel.Harness{Name: "qbft", Horizon: 10 * time.Minute, Body: body, MaxSteps: 3_000_000})
}

func pick[T any](stream string, xs []T) T { return xs[verifrt.Intn(stream, len(xs))] }

func body(c *kernel.Ctx) {
	ctx, cancel := context.WithCancel(context.Background())
	defer cancel()
	s := &sim{c: c, ctx: ctx, proposed: map[int64]map[int64]bool{}, decided: map[int64]decision{}, ndecided: map[int64]int{}, crashAt: map[int][2]int{}, votes: map[voteKey]int64{}}

	// ---- swarm configuration -------------------------------------------------------------
	switch c.Mode {
	case "timely":
		s.mode = modeTimely
	case "safety":
		s.mode = modeLossy + verifrt.Intn("cfg", 2)
	default:
		s.mode = verifrt.Intn("cfg", 3)
	}
	s.n = pick("cfg", []int{4, 7, 4, 7, 5, 6, 3})
	if s.mode == modeTimely && s.n == 3 && c.Mode == "" {
		s.n = 4
	}
	def0 := qbft.Definition[int64, int64, int64]{Nodes: s.n}
	s.q, s.f = def0.Quorum(), def0.Faulty()
	if s.mode == modeByz && s.f == 0 {
		s.mode = modeLossy
	}
	s.slotOff = int64(verifrt.Intn("cfg", s.n))
	timerKind := verifrt.Intn("cfg", 3)
	fifo := instance.RecvBufferSize
	if s.mode != modeTimely {
		fifo = pick("cfg", []int{instance.RecvBufferSize, 10, 3})
	}
	s.stopOnDecide = verifrt.Intn("cfg", 2) == 1
	if s.mode == modeTimely {
		// C04's premise is that the other members keep running the instance (and so answer a
		// straggler's ROUND-CHANGE with DECIDED); charon's wrapper, which cancels an instance as soon
		// as it decides, is exercised in the safety modes only.
		s.stopOnDecide = false
	}
	compareOn := verifrt.Intn("cfg", 3) == 2
	alphabet := []int64{101, 102, 103, 104}
	sameInput := verifrt.Intn("cfg", 3) == 0
	if s.mode == modeTimely && compareOn {
		// C04 quantifies over crash faults and schedules, not over members whose local data makes them
		// refuse the leader's proposal: keep the comparator's wait-for-local-value path but no mismatch.
		alphabet = alphabet[:2]
	}

	s.byz = make([]bool, s.n)
	nb := 0
	// Scenario family "split locks": the network loses exactly the messages that leave one member
	// prepared on the round-1 value, lets a different value be prepared in round 2 and decided by one
	// member only, and makes a Byzantine member the leader of round 3 - the state in which every
	// rule about prepared certificates in ROUND-CHANGE / PRE-PREPARE justifications is load-bearing.
	splitLocks := s.mode == modeByz && verifrt.Intn("cfg", 5) == 4
	if splitLocks {
		nb = 1
		s.byz[s.leader(3)] = true
		sameInput = false
		compareOn = false
	}
	// Scenario family "ping-pong locks": in each of the rounds 1..K only ONE honest member (seeded per round)
	// receives the PREPAREs, so it alone prepares and commits; its ROUND-CHANGE for the next round is lost on
	// the way to the next leader, who therefore may justify another value. Prepared values then alternate
	// between rounds while lone COMMITs of several rounds and values are in everybody's buffers; a Byzantine
	// member votes (PREPARE and COMMIT) for every proposal it sees and leads round K with a proposal justified
	// by the ROUND-CHANGEs that hide the newest lock. Every rule that counts votes "of this round and value"
	// is load-bearing here.
	pingPong := s.mode == modeByz && !splitLocks && s.n <= 5 && (verifrt.Intn("cfg", 4) == 3 || os.Getenv("VERIF_QBFT_PINGPONG") != "") // env: development aid
	if pingPong {
		nb = 1
		s.ppK = int64(3 + verifrt.Intn("cfg", 3))
		s.byz[s.leader(s.ppK)] = true
		sameInput = false
		compareOn = false
	}
	// Scenario family "stale votes" (lossy mode, no Byzantine member): see the rules below.
	staleVotes := s.mode == modeLossy && verifrt.Intn("cfg", 6) == 5
	if staleVotes {
		sameInput = false
		compareOn = false
	}
	// Scenario family "compare-failure lock" (n=4, one helper Byzantine member): member X's local data makes it
	// refuse the round-1 value (it sends no PREPARE) but the PREPARE quorum reaches X and the leader only, so X
	// still locks on that value and COMMITs it; the COMMITs reach the leader only, which decides and stops. In
	// round 2 X's ROUND-CHANGE is the ONLY carrier of the lock that reaches the new leader - a member that
	// refused a value must still report that it is prepared on it.
	cmpLock := s.mode == modeByz && !splitLocks && !pingPong && s.n == 4 && (verifrt.Intn("cfg", 5) == 4 || os.Getenv("VERIF_QBFT_CMPLOCK") != "") // env: development aid
	if cmpLock {
		nb = 1
		s.byz[s.leader(3)] = true
		s.ppK = 1
		sameInput = false
		compareOn = true
		s.cmpLock = true
	}
	if s.mode == modeByz && !splitLocks && !pingPong && !cmpLock {
		nb = 1 + verifrt.Intn("cfg", s.f)
		for i := 0; i < nb; i++ {
			p := verifrt.Intn("cfg", s.n)
			for s.byz[p] {
				p = (p + 1) % s.n
			}
			s.byz[p] = true
		}
	}
	switch s.mode {
	case modeTimely:
		// latencies below a third of the shortest round timeout: 1s for the increasing and eager
		// double-linear timers (round 1), 400ms for the linear timer (round 2)
		third := 333
		if timerKind == 2 {
			third = 133
		}
		s.maxLat = time.Duration(1+verifrt.Intn("cfg", third-1)) * time.Millisecond
		s.dupPct = pick("cfg", []int{0, 5})
	default:
		s.maxLat = time.Duration(1+verifrt.Intn("cfg", 400)) * time.Millisecond
		s.dropPct = pick("cfg", []int{0, 0, 5, 20})
		s.dupPct = pick("cfg", []int{0, 5, 20})
		s.longPct = pick("cfg", []int{0, 5, 20})
		if verifrt.Intn("cfg", 3) == 2 {
			s.part.from = time.Duration(verifrt.Intn("cfg", 3000)) * time.Millisecond
			s.part.until = s.part.from + time.Duration(200+verifrt.Intn("cfg", 4000))*time.Millisecond
			s.part.side = make([]bool, s.n)
			for i := range s.part.side {
				s.part.side[i] = verifrt.Intn("cfg", 2) == 1
			}
		}
	}

	if splitLocks {
		var hon []int
		for i := 0; i < s.n; i++ {
			if !s.byz[i] {
				hon = append(hon, i)
			}
		}
		x := hon[verifrt.Intn("cfg", len(hon))] // the only member that prepares in round 1
		z := hon[verifrt.Intn("cfg", len(hon))] // the only member that decides in round 2
		all := func(v bool) []bool {
			b := make([]bool, s.n)
			for i := range b {
				b[i] = v
			}
			return b
		}
		notX, notZ := all(true), all(true)
		notX[x], notZ[z] = false, false
		s.rules = []dropRule{
			{typ: qbft.MsgPrepare, round: 1, from: all(true), to: notX},
			{typ: qbft.MsgCommit, round: 1, from: all(true), to: all(true)},
			{typ: qbft.MsgCommit, round: 2, from: all(true), to: notZ},
		}
		s.dropPct, s.longPct, s.part.side = 0, 0, nil
		s.maxLat = time.Duration(1+verifrt.Intn("cfg", 150)) * time.Millisecond
		s.stopOnDecide = true
		s.splitLocks = true
		verifrt.Probe("scenario:split-locks")
	} else if staleVotes {
		// all PREPAREs of round r arrive late - in the middle of round r+1, after the members have timed out of
		// round r with null ROUND-CHANGEs - and the COMMITs of round r+1 reach one member only: that member
		// decides the value of round r+1 while the others hold a prepared certificate for it AND now see a
		// quorum of PREPAREs of the older round. What they report as prepared in their next ROUND-CHANGE
		// decides whether round r+2 re-proposes the decided value.
		r := int64(1 + verifrt.Intn("cfg", 2))
		z := verifrt.Intn("cfg", s.n)
		all, notZ := make([]bool, s.n), make([]bool, s.n)
		for i := range all {
			all[i], notZ[i] = true, i != z
		}
		s.rules = []dropRule{
			{typ: qbft.MsgPrepare, round: r, from: all, to: all, delay: time.Duration(1100+verifrt.Intn("cfg", 900)+int(r-1)*1000) * time.Millisecond},
			{typ: qbft.MsgCommit, round: r + 1, from: all, to: notZ},
		}
		s.dropPct, s.longPct, s.part.side = 0, 0, nil
		s.maxLat = time.Duration(1+verifrt.Intn("cfg", 150)) * time.Millisecond
		s.staleVotes = true
		verifrt.Probe("scenario:stale-votes")
	} else if cmpLock {
		l, x := int(s.leader(1)), -1
		for i := 0; i < s.n; i++ {
			if !s.byz[i] && i != l && i != int(s.leader(2)) {
				x = i
			}
		}
		all, notXL, notL := make([]bool, s.n), make([]bool, s.n), make([]bool, s.n)
		for i := range all {
			all[i], notXL[i], notL[i] = true, i != x && i != l, i != l
		}
		s.ppX = []int{0, x}
		s.ppZ = make([]bool, s.n)
		s.ppZ[l] = true // the helper's round-1 COMMIT goes to the leader only
		s.rules = []dropRule{
			{typ: qbft.MsgPrepare, round: 1, from: all, to: notXL},
			{typ: qbft.MsgCommit, round: 1, from: all, to: notL},
		}
		s.cmpFail = make([]map[int64]bool, s.n)
		for i := range s.cmpFail {
			s.cmpFail[i] = map[int64]bool{}
		}
		s.cmpFail[x][alphabet[l%len(alphabet)]] = true // X refuses the round-1 leader's value, nothing else
		s.dropPct, s.longPct, s.part.side = 0, 0, nil
		s.maxLat = time.Duration(1+verifrt.Intn("cfg", 150)) * time.Millisecond
		s.stopOnDecide = verifrt.Intn("cfg", 4) != 3
		verifrt.Probe("scenario:compare-failure-lock")
	} else if pingPong {
		var hon []int
		for i := 0; i < s.n; i++ {
			if !s.byz[i] {
				hon = append(hon, i)
			}
		}
		s.ppX = make([]int, s.ppK+1)
		// the COMMITs of the scripted rounds reach only the members of Z (one or two honest members)
		s.ppZ = make([]bool, s.n)
		notZ := make([]bool, s.n)
		for k := 1 + verifrt.Intn("cfg", 2); k > 0; k-- {
			s.ppZ[hon[verifrt.Intn("cfg", len(hon))]] = true
		}
		for i := range notZ {
			notZ[i] = !s.ppZ[i]
		}
		for r := int64(1); r <= s.ppK; r++ {
			// the lone preparer of round r: mostly a member that is not the next leader (the next leader must not
			// know the newest lock, or it simply re-proposes it) and did not prepare in the previous round (so
			// that locks on one value are spread over several members); a seeded quarter picks freely
			var cands []int
			for _, h := range hon {
				if int64(h) != s.leader(r+1) && (r == 1 || h != s.ppX[r-1]) {
					cands = append(cands, h)
				}
			}
			if len(cands) == 0 || verifrt.Intn("cfg", 4) == 3 {
				cands = hon
			}
			x := cands[verifrt.Intn("cfg", len(cands))]
			s.ppX[r] = x
			allc := make([]bool, s.n)
			for i := range allc {
				allc[i] = true
			}
			s.rules = append(s.rules, dropRule{typ: qbft.MsgCommit, round: r, from: allc, to: notZ})
			all, notX, onlyX, nextLeader := make([]bool, s.n), make([]bool, s.n), make([]bool, s.n), make([]bool, s.n)
			for i := range all {
				all[i], notX[i] = true, i != x
			}
			onlyX[x] = true
			nextLeader[s.leader(r+1)] = true
			s.rules = append(s.rules,
				dropRule{typ: qbft.MsgPrepare, round: r, from: all, to: notX},
				dropRule{typ: qbft.MsgRoundChange, round: r + 1, from: onlyX, to: nextLeader})
		}
		s.dropPct, s.longPct, s.part.side = 0, 0, nil
		s.maxLat = time.Duration(1+verifrt.Intn("cfg", 150)) * time.Millisecond
		s.stopOnDecide = verifrt.Intn("cfg", 2) == 1
		verifrt.Probe("scenario:ping-pong-locks")
	} else if s.mode != modeTimely && verifrt.Intn("cfg", 2) == 1 {
		for k := 1 + verifrt.Intn("cfg", 4); k > 0; k-- {
			r := dropRule{typ: qbft.MsgType(1 + verifrt.Intn("cfg", 4)), round: int64(1 + verifrt.Intn("cfg", 3)), from: make([]bool, s.n), to: make([]bool, s.n)}
			allFrom := verifrt.Intn("cfg", 2) == 0
			for i := 0; i < s.n; i++ {
				r.from[i] = allFrom || verifrt.Intn("cfg", 2) == 1
				r.to[i] = verifrt.Intn("cfg", 2) == 1
			}
			if verifrt.Intn("cfg", 3) == 2 {
				// late instead of lost: by 0.8 .. 3.3 s (round timeouts are 1 .. 2 s in the first rounds)
				r.delay = time.Duration(800+verifrt.Intn("cfg", 2500)) * time.Millisecond
				if verifrt.Intn("cfg", 2) == 1 {
					for i := range r.to {
						r.to[i] = true // towards everybody
					}
				}
			}
			s.rules = append(s.rules, r)
		}
	}
	if compareOn && s.cmpFail == nil && s.mode != modeTimely && verifrt.Intn("cfg", 2) == 1 {
		// comparator in table mode: each member refuses a seeded quarter of the values
		s.cmpFail = make([]map[int64]bool, s.n)
		for i := range s.cmpFail {
			s.cmpFail[i] = map[int64]bool{}
			for _, v := range []int64{99, 101, 102, 103, 104, 105} {
				if verifrt.Intn("cfg", 4) == 3 {
					s.cmpFail[i][v] = true
				}
			}
		}
		verifrt.Probe("comparator:table-mode")
	}
	s.inbox = make([]chan M, s.n)
	s.mctx = make([]context.Context, s.n)
	s.mcancel = make([]context.CancelFunc, s.n)
	s.rounds = make([]int64, s.n)
	s.crashed = make([]bool, s.n)
	s.started = make([]bool, s.n)
	s.inputs = make([]int64, s.n)
	s.bcasts = make([]int, s.n)
	for i := range s.inbox {
		s.inbox[i] = make(chan M)
		s.mctx[i], s.mcancel[i] = context.WithCancel(ctx)
		s.rounds[i] = 1
	}

	// ---- fault plan ------------------------------------------------------------------------
	maxFaulty := s.f
	if s.mode == modeLossy {
		maxFaulty = s.n - 1
	} else if s.mode == modeByz {
		maxFaulty = s.f - nb
	}
	type plan struct {
		kind  int // 0 none, 1 silent from start, 2 crash at time, 3 crash inside a broadcast, 4 late start
		t     time.Duration
		bidx  int
		after int
	}
	plans := make([]plan, s.n)
	nf := 0
	if maxFaulty > 0 {
		nf = verifrt.Intn("f", maxFaulty+1)
	}
	for i := 0; i < nf; i++ {
		p := verifrt.Intn("f", s.n)
		for s.byz[p] || plans[p].kind != 0 {
			p = (p + 1) % s.n
		}
		k := 1 + verifrt.Intn("f", 5)
		if s.mode == modeTimely && k <= 2 && verifrt.Intn("f", 2) == 1 {
			k = 5
		}
		if k == 5 {
			// a late-starting leader of round 1: the pre-prepare goes out late in the round, so that
			// some members prepare but cannot decide before their timer fires (prepared round changes)
			lp := int(s.leader(1))
			if !s.byz[lp] && plans[lp].kind == 0 {
				p = lp
			}
			k = 4
			// aim at the window in which prepares arrive before and commits after the round-1 timeout (1s)
			back := time.Duration(100+verifrt.Intn("f", 250)) * s.maxLat / 100
			t := time.Second - back
			if t < time.Millisecond || verifrt.Intn("f", 4) == 0 {
				t = time.Duration(300+verifrt.Intn("f", 650)) * time.Millisecond
			}
			plans[p] = plan{kind: k, t: t}
			continue
		}
		plans[p] = plan{kind: k}
		switch k {
		case 2:
			plans[p].t = time.Duration(verifrt.Intn("f", 4000)) * time.Millisecond
		case 3:
			plans[p].bidx = verifrt.Intn("f", 6)
			plans[p].after = verifrt.Intn("f", s.n)
			s.crashAt[p] = [2]int{plans[p].bidx, plans[p].after}
		case 4:
			plans[p].t = time.Duration(1+verifrt.Intn("f", 700)) * time.Millisecond // less than one round
		}
	}

	c.Set("mode", []string{"timely-crash", "lossy", "byzantine"}[s.mode])
	c.Set("n", s.n)
	c.Set("byzantine", nb)
	c.Set("faulty", nf)
	c.Set("timer", []string{"increasing", "eager_dlinear", "linear"}[timerKind])

	// ---- members ---------------------------------------------------------------------------
	var wg sync.WaitGroup
	s.done = make([]func(), s.n)
	for i := 0; i < s.n; i++ {
		if s.byz[i] {
			continue
		}
		p := i
		s.done[p] = sync.OnceFunc(wg.Done) // a crashed member's goroutine never returns: crash() releases the waiter
		in := pick("w", alphabet)
		if sameInput {
			in = alphabet[0]
		}
		if s.ppK > 0 || staleVotes {
			in = alphabet[p%len(alphabet)] // ping-pong: members hold different values (as far as the alphabet allows), all available at once
		}
		s.inputs[p] = in
		inputDelay := time.Duration(0)
		noInput := false
		if s.mode != modeTimely && s.ppK == 0 && !staleVotes {
			switch verifrt.Intn("w", 6) {
			case 4:
				inputDelay = time.Duration(verifrt.Intn("w", 3000)) * time.Millisecond
			case 5:
				noInput = true
				s.inputs[p] = 0
			}
		}
		pl := plans[p]
		if pl.kind == 1 {
			s.crashed[p] = true
			s.fault(p, "silent")
			continue
		}
		var rt timer.RoundTimer
		switch timerKind {
		case 0:
			rt = timer.NewIncreasingRoundTimer()
		case 1:
			rt = timer.NewDoubleEagerLinearRoundTimer()
		default:
			rt = timer.NewLinearRoundTimer()
		}
		def := qbft.Definition[int64, int64, int64]{
			IsLeader: func(_ int64, round, process int64) bool { return s.leader(round) == process },
			NewTimer: rt.Timer,
			Compare: func(cctx context.Context, m M, srcCh <-chan int64, src int64, errCh chan error, valCh chan int64) {
				if !compareOn {
					errCh <- nil
					return
				}
				if src == 0 {
					v, ok := verifrt.RecvOrDone(srcCh, cctx.Done())
					if !ok {
						errCh <- fmt.Errorf("timeout on waiting for local value")
						return
					}
					src = v
					valCh <- v
				}
				lv, _ := m.ValueSource()
				if s.cmpFail != nil {
					if s.cmpFail[p][lv] {
						verifrt.Probe("comparator:refused")
						errCh <- fmt.Errorf("compare mismatch")
						return
					}
				} else if (lv >= 103) != (src >= 103) { // "source/target differ"
					errCh <- fmt.Errorf("compare mismatch")
					return
				}
				errCh <- nil
			},
			Decide: func(_ context.Context, _ int64, v int64, round int64, qcommit []M) { s.onDecide(p, v, round, qcommit) },
			LogUponRule: func(_ context.Context, _ int64, _, _ int64, m M, rule qbft.UponRule) {
				verifrt.Probe("rule:" + rule.String())
			},
			LogRoundChange: func(_ context.Context, _ int64, _, round, newRound int64, rule qbft.UponRule, _ []M) {
				s.mu.Lock()
				s.rounds[p] = newRound
				s.mu.Unlock()
				if newRound > 3 {
					verifrt.Probe("round>3")
				}
				verifrt.Note("m%d round %d->%d %s", p, round, newRound, rule)
				s.state()
			},
			LogUnjust: func(_ context.Context, _ int64, _ int64, m M) {
				mm := m.(msg)
				verifrt.Note("m%d unjust %v byz=%v", p, mm, mm.byz)
				if !mm.byz {
					s.mu.Lock()
					s.unjustHonest++
					s.mu.Unlock()
					if s.mode == modeTimely {
						c.Violate("C04", "honest-msg-unjust", "honest-message-rejected-as-unjustified", "member %d rejected as unjustified the message %v authored by honest member %d", p, mm, mm.src)
					} else {
						verifrt.Probe("honest-unjust-under-loss")
					}
				}
			},
			Nodes:     s.n,
			FIFOLimit: fifo,
		}
		tr := qbft.Transport[int64, int64, int64]{
			Broadcast: func(_ context.Context, typ qbft.MsgType, _ int64, source, round, value, pr, pv int64, just []M) error {
				return s.broadcast(p, msg{typ: typ, src: source, round: round, val: value, pr: pr, pv: pv, just: strip(just)})
			},
			Receive: s.inbox[p],
		}
		inCh := make(chan int64, 1)
		srcCh := make(chan int64, 1)
		wg.Add(1)
		verifrt.GoNode(fmt.Sprintf("m%d", p), func() {
			defer s.done[p]()
			if pl.kind == 4 {
				verifrt.Sleep(pl.t)
				s.fault(p, "late-start")
			}
			s.mu.Lock()
			s.started[p] = true
			s.mu.Unlock()
			if !noInput {
				if inputDelay == 0 {
					inCh <- in
					srcCh <- in
				} else {
					verifrt.Go(func() {
						verifrt.Sleep(inputDelay)
						inCh <- in
						srcCh <- in
					})
				}
			}
			err := qbft.Run(s.mctx[p], def, tr, 1, int64(p), inCh, srcCh)
			if err != nil && s.mctx[p].Err() == nil {
				if strings.Contains(err.Error(), "sanity check") && nb > 0 {
					verifrt.Probe("sanity-error-with-byzantine")
				} else {
					c.Violate("C03", "run-error", "run-returned-error", "member %d: qbft.Run returned %v", p, err)
				}
			}
		})
		if pl.kind == 2 {
			verifrt.Go(func() {
				verifrt.Sleep(pl.t)
				s.crash(p, "crash")
			})
		}
	}
	if nb > 0 {
		verifrt.GoNode("adv", func() { s.adversary(alphabet) })
	}

	// ---- run until every running member decided or the time budget is used -----------------
	limit := 90 * time.Second
	for verifrt.Now() < limit {
		verifrt.Sleep(500 * time.Millisecond)
		if s.allDecided() {
			break
		}
	}
	s.finalChecks()
	cancel()
	verifrt.WGWait(&wg)
}

func (s *sim) fault(p int, kind string) {
	verifrt.Fault(kind)
	s.mu.Lock()
	s.lastFault = verifrt.Now()
	s.rstar = 1
	for i, r := range s.rounds {
		if !s.byz[i] && !s.crashed[i] && s.started[i] && r > s.rstar {
			s.rstar = r
		}
	}
	s.mu.Unlock()
	verifrt.Note("fault %s m%d", kind, p)
}

func (s *sim) crash(p int, kind string) {
	s.mu.Lock()
	if s.crashed[p] {
		s.mu.Unlock()
		return
	}
	s.crashed[p] = true
	s.mu.Unlock()
	verifrt.Crash(fmt.Sprintf("m%d", p))
	s.fault(p, kind)
	s.done[p]()
}

func (s *sim) allDecided() bool {
	s.mu.Lock()
	defer s.mu.Unlock()
	for i := 0; i < s.n; i++ {
		if s.byz[i] || s.crashed[i] {
			continue
		}
		if _, ok := s.decided[int64(i)]; !ok {
			return false
		}
	}
	return true
}

func (s *sim) state() {
	s.mu.Lock()
	h := fnv.New64a()
	for i := 0; i < s.n; i++ {
		_, d := s.decided[int64(i)]
		fmt.Fprintf(h, "%d:%v:%v|", s.rounds[i], d, s.crashed[i])
	}
	s.mu.Unlock()
	s.c.State(h.Sum64())
}

// ---- transport ------------------------------------------------------------------------------

func (s *sim) broadcast(p int, m msg) error {
	s.mu.Lock()
	s.uid++
	m.uid = s.uid
	s.sent = append(s.sent, m)
	if m.typ == qbft.MsgPrePrepare && s.leader(m.round) == m.src {
		if s.proposed[m.val] == nil {
			s.proposed[m.val] = map[int64]bool{}
		}
		s.proposed[m.val][m.round] = true
	}
	// An honest member votes at most once per round and phase: a second PREPARE or COMMIT for another
	// value is honest equivocation, which voids the quorum-intersection argument agreement rests on
	// (two conflicting prepared certificates for one round can then exist and be re-proposed).
	if m.typ == qbft.MsgPrepare || m.typ == qbft.MsgCommit {
		k := voteKey{p, m.round, m.typ}
		if prev, ok := s.votes[k]; ok && prev != m.val {
			s.mu.Unlock()
			s.c.Violate("C02", "honest-equivocation", "honest-member-voted-for-two-values-in-one-round", "member %d broadcast %s for value %d and for value %d in round %d", p, m.typ, prev, m.val, m.round)
			s.mu.Lock()
		}
		s.votes[k] = m.val
	}
	b := s.bcasts[p]
	s.bcasts[p]++
	ca, hasCa := s.crashAt[p]
	s.mu.Unlock()
	verifrt.Note("m%d bcast %v", p, m)
	if m.typ == qbft.MsgRoundChange && m.pr > 0 {
		verifrt.Probe("round-change-with-prepared")
	}
	if m.typ == qbft.MsgPrePrepare && m.round > 1 && len(m.just) > 0 {
		for _, j := range m.just {
			if j.Type() == qbft.MsgPrepare {
				verifrt.Probe("prepared-value-reproposal")
				break
			}
		}
	}
	if m.typ == qbft.MsgDecided {
		verifrt.Probe("decided-resend")
	}
	// fan-out order is part of the schedule
	order := make([]int, s.n)
	for i := range order {
		order[i] = i
	}
	for i := 0; i < s.n-1; i++ {
		j := i + verifrt.Intn("n", s.n-i)
		order[i], order[j] = order[j], order[i]
	}
	for k, to := range order {
		if hasCa && ca[0] == b && ca[1] == k {
			verifrt.Probe("crash-mid-broadcast")
			s.crash(p, "crash-mid-broadcast")
			verifrt.Yield() // never scheduled again
		}
		if to == p {
			s.deliver(to, m, 0) // self-delivery is local (transport.Broadcast's own goroutine)
			continue
		}
		if s.byz[to] {
			continue
		}
		s.send(p, to, m)
	}
	return nil
}

func (s *sim) partitioned(a, b int) bool {
	if s.part.side == nil {
		return false
	}
	now := verifrt.Now()
	return now >= s.part.from && now < s.part.until && s.part.side[a] != s.part.side[b]
}

func (s *sim) send(from, to int, m msg) {
	lat := time.Duration(1+verifrt.Intn("n", int(s.maxLat/time.Millisecond))) * time.Millisecond
	if s.mode != modeTimely {
		for _, r := range s.rules {
			if r.typ == m.typ && r.round == m.round && r.from[from] && r.to[to] {
				if r.delay > 0 {
					verifrt.Fault("rule-delay")
					lat += r.delay
					continue
				}
				verifrt.Fault("rule-drop")
				return
			}
		}
		if s.partitioned(from, to) {
			verifrt.Fault("partition-drop")
			return
		}
		r := verifrt.Intn("n", 100)
		switch {
		case r >= 100-s.dropPct:
			verifrt.Fault("drop")
			return
		case r >= 100-s.dropPct-s.longPct:
			lat = time.Duration(1+verifrt.Intn("n", 5000)) * time.Millisecond
			verifrt.Fault("long-delay")
		}
	}
	if s.dupPct > 0 && verifrt.Intn("n", 100) >= 100-s.dupPct {
		verifrt.Fault("duplicate")
		s.deliver(to, m, lat+time.Duration(verifrt.Intn("n", 500))*time.Millisecond)
	}
	s.deliver(to, m, lat)
}

func (s *sim) deliver(to int, m msg, after time.Duration) {
	verifrt.GoNode("net", func() {
		if after > 0 {
			verifrt.Sleep(after)
		}
		verifrt.SendOrDone(s.inbox[to], M(m), s.mctx[to].Done())
	})
}

// ---- oracles --------------------------------------------------------------------------------

func (s *sim) onDecide(p int, v, round int64, qcommit []M) {
	c := s.c
	now := verifrt.Now()
	s.mu.Lock()
	s.ndecided[int64(p)]++
	nd := s.ndecided[int64(p)]
	var others []string
	for q, d := range s.decided {
		if d.val != v {
			others = append(others, fmt.Sprintf("member %d decided %d in round %d", q, d.val, d.round))
		}
	}
	sort.Strings(others)
	if nd == 1 {
		s.decided[int64(p)] = decision{v, round, now}
	}
	prop := s.proposed[v]
	isInput := false
	for i, in := range s.inputs {
		if !s.byz[i] && in == v && v != 0 {
			isInput = true
		}
	}
	nbyz := 0
	for _, b := range s.byz {
		if b {
			nbyz++
		}
	}
	s.mu.Unlock()
	verifrt.Note("m%d DECIDE v=%d r=%d", p, v, round)
	c.Progress()
	if nd > 1 {
		c.Violate("C03", "decide-twice", "member-decided-more-than-once", "member %d decided %d times (latest value %d round %d)", p, nd, v, round)
	}
	if len(others) > 0 {
		c.Violate("C02", "agreement", "honest-members-decided-different-values", "member %d decided %d in round %d but %s", p, v, round, strings.Join(others, "; "))
	}
	if v == 0 {
		c.Violate("C03", "zero-value", "decided-empty-value", "member %d decided the empty value in round %d", p, round)
	}
	seen := map[int64]bool{}
	for _, m := range qcommit {
		if m.Type() == qbft.MsgCommit && m.Round() == round && m.Value() == v {
			seen[m.Source()] = true
		}
	}
	if len(seen) < s.q {
		c.Violate("C03", "commit-quorum", "decision-without-quorum-of-matching-commits", "member %d decided %d in round %d backed by only %d matching COMMITs from distinct members (quorum %d): %v", p, v, round, len(seen), s.q, qcommit)
	}
	if len(prop) == 0 {
		c.Violate("C03", "validity", "decided-value-never-proposed-by-a-leader", "member %d decided %d (round %d) which no designated leader ever pre-prepared", p, v, round)
	}
	if nbyz == 0 && !isInput {
		c.Violate("C03", "validity", "decided-value-is-no-members-input", "member %d decided %d which is not the input of any member", p, v)
	}
	if s.stopOnDecide {
		s.mcancel[p]() // charon's wrapper cancels the instance on decide
	}
	s.state()
}

func (s *sim) finalChecks() {
	c := s.c
	s.mu.Lock()
	defer s.mu.Unlock()
	if s.ppK > 0 {
		// reach probes of the ping-pong scenario: how many distinct values honest members committed to in
		// the scripted rounds, and in how many of those rounds exactly one honest member committed
		vals, lone := map[int64]bool{}, 0
		for r := int64(1); r <= s.ppK; r++ {
			n := 0
			for _, m := range s.sent {
				if m.typ == qbft.MsgCommit && m.round == r {
					vals[m.val] = true
					n++
				}
			}
			if n == 1 {
				lone++
			}
		}
		verifrt.Probe(fmt.Sprintf("ping-pong:committed-values=%d", len(vals)))
		verifrt.Probe(fmt.Sprintf("ping-pong:lone-commit-rounds=%d", lone))
		verifrt.Probe(fmt.Sprintf("ping-pong:decided-members=%d", len(s.decided)))
	}
	if s.mode != modeTimely {
		return
	}
	// C04: every running member decides within one full leader rotation after the last fault.
	for i := 0; i < s.n; i++ {
		if s.byz[i] || s.crashed[i] {
			continue
		}
		d, ok := s.decided[int64(i)]
		if !ok {
			c.Violate("C04", "termination", "running-member-never-decided", "member %d (round %d) had not decided at t=%v although at most f=%d members were faulty (last fault t=%v) and delivery was timely (max latency %v)", i, s.rounds[i], verifrt.Now(), s.f, s.lastFault, s.maxLat)
			continue
		}
		bound := s.rstar + int64(s.n)
		if s.rstar == 0 {
			bound = 1 + int64(s.n)
		}
		if d.round > bound {
			c.Violate("C04", "termination", "decided-later-than-one-leader-rotation", "member %d decided in round %d > r*+n = %d+%d (last fault at %v)", i, d.round, s.rstar, s.n, s.lastFault)
		}
		if d.round > 1 {
			verifrt.Probe("decided-after-round-1")
		}
	}
}

// ---- adversary --------------------------------------------------------------------------------

func (s *sim) byzIDs() []int64 {
	var ids []int64
	for i, b := range s.byz {
		if b {
			ids = append(ids, int64(i))
		}
	}
	return ids
}

func (s *sim) honestIDs() []int {
	var ids []int
	for i, b := range s.byz {
		if !b {
			ids = append(ids, i)
		}
	}
	return ids
}

// observed returns copies of honest messages matching the filter (justification-ready: stripped).
func (s *sim) observed(f func(msg) bool) []msg {
	s.mu.Lock()
	defer s.mu.Unlock()
	var out []msg
	for _, m := range s.sent {
		if f(m) {
			out = append(out, m)
		}
	}
	return out
}

func (s *sim) maxRound() int64 {
	s.mu.Lock()
	defer s.mu.Unlock()
	var r int64 = 1
	for i, x := range s.rounds {
		if !s.byz[i] && x > r {
			r = x
		}
	}
	return r
}

func toM(ms []msg) []M {
	var out []M
	for _, m := range ms {
		m.just = nil
		out = append(out, m)
	}
	return out
}

// advSend delivers an adversarial message to one honest member. Messages claiming an honest
// source must be exact copies of observed messages; that is guaranteed by construction: forged
// messages are only ever created with a Byzantine source.
func (s *sim) advSend(to int, m msg) {
	if s.byz[to] {
		return
	}
	if m.round <= 0 || m.pr < 0 || !m.typ.Valid() {
		return // the wire layer (verifyMsg) rejects these before the algorithm sees them
	}
	if len(m.just) > 2*s.n {
		m.just = m.just[:2*s.n] // verifyMsgLimits
	}
	if m.typ == qbft.MsgPrePrepare && s.leader(m.round) == m.src {
		s.mu.Lock()
		if s.proposed[m.val] == nil {
			s.proposed[m.val] = map[int64]bool{}
		}
		s.proposed[m.val][m.round] = true
		s.mu.Unlock()
	}
	verifrt.Fault("byz:" + m.typ.String())
	verifrt.Note("adv -> m%d %v", to, m)
	s.deliver(to, m, time.Duration(verifrt.Intn("a", 50))*time.Millisecond)
}

func (s *sim) advSendSplit(m1, m2 msg) {
	for _, to := range s.honestIDs() {
		switch verifrt.Intn("a", 5) {
		case 0:
			s.advSend(to, m1)
		case 1:
			s.advSend(to, m2)
		case 2: // both, in either order, to the same member
			s.advSend(to, m1)
			s.advSend(to, m2)
		case 3:
			s.advSend(to, m2)
			s.advSend(to, m1)
		}
	}
}

func (s *sim) forged(typ qbft.MsgType, src, round, val, pr, pv int64, just []M) msg {
	return msg{typ: typ, src: src, round: round, val: val, pr: pr, pv: pv, just: strip(just), byz: true}
}

// qrc assembles a justification for a PRE-PREPARE of round r: observed honest ROUND-CHANGEs of that
// round (optionally only null-prepared ones) plus forged null ROUND-CHANGEs of every Byzantine id,
// plus the PREPAREs justifying the highest prepared one when asked.
func (s *sim) qrc(r int64, onlyNull, withPrepares bool) []M {
	rcs := s.observed(func(m msg) bool { return m.typ == qbft.MsgRoundChange && m.round == r && (!onlyNull || m.pr == 0) })
	var out []M
	seen := map[int64]bool{}
	var hi msg
	for _, m := range rcs {
		if seen[m.src] {
			continue
		}
		seen[m.src] = true
		if m.pr > hi.pr {
			hi = m
		}
		out = append(out, m)
	}
	for _, b := range s.byzIDs() {
		out = append(out, s.forged(qbft.MsgRoundChange, b, r, 0, 0, 0, nil))
	}
	if withPrepares && hi.pr > 0 {
		out = append(out, hi.just...)
	}
	return strip(out)
}

// pingPongAdversary is the Byzantine member of the "ping-pong locks" scenario: it votes (PREPARE, COMMIT)
// for every proposal it observes, sends null ROUND-CHANGEs for every next round and, when it leads a round,
// proposes the value justified by the honest ROUND-CHANGEs it has seen EXCEPT the one of the member that
// prepared in the previous round (plus its own null one).
func (s *sim) pingPongAdversary(alphabet []int64, b int64, honest []int) {
	voted, rcSent := map[int64]bool{}, map[int64]bool{}
	proposedR := map[int64]bool{}
	own := pick("a", alphabet)
	for k := 0; k < 4000 && s.ctx.Err() == nil; k++ {
		verifrt.Sleep(time.Duration(20+verifrt.Intn("a", 60)) * time.Millisecond)
		maxR := s.maxRound()
		for r := int64(1); r <= maxR+1; r++ {
			if !voted[r] {
				if pps := s.observed(func(m msg) bool { return m.typ == qbft.MsgPrePrepare && m.round == r }); len(pps) > 0 {
					voted[r] = true
					for _, to := range honest {
						s.advSend(to, s.forged(qbft.MsgPrepare, b, r, pps[0].val, 0, 0, nil))
						if s.ppZ[to] || r > s.ppK {
							s.advSend(to, s.forged(qbft.MsgCommit, b, r, pps[0].val, 0, 0, nil))
						}
					}
				}
			}
			if !rcSent[r] && r > 1 {
				// a null ROUND-CHANGE for every round anybody has reached (so that the honest members that are
				// still running can always form a ROUND-CHANGE quorum together with it)
				rcSent[r] = true
				for _, to := range honest {
					s.advSend(to, s.forged(qbft.MsgRoundChange, b, r, 0, 0, 0, nil))
				}
			}
			if r > 1 && s.leader(r) == b && !proposedR[r] {
				hide := -1
				if r-1 <= s.ppK {
					hide = s.ppX[r-1]
				}
				rcs := s.observed(func(m msg) bool {
					return m.typ == qbft.MsgRoundChange && m.round == r && int(m.src) != hide
				})
				seen := map[int64]bool{}
				var just []M
				var hi msg
				for _, m := range rcs {
					if seen[m.src] {
						continue
					}
					seen[m.src] = true
					if m.pr > hi.pr {
						hi = m
					}
					just = append(just, m)
				}
				if len(just)+1 < s.q {
					continue // not enough ROUND-CHANGEs seen yet
				}
				proposedR[r] = true
				just = append(just, s.forged(qbft.MsgRoundChange, b, r, 0, 0, 0, nil))
				val := own
				if hi.pr > 0 {
					val = hi.pv
					just = append(just, hi.just...)
				}
				pp := s.forged(qbft.MsgPrePrepare, b, r, val, 0, 0, just)
				for _, to := range honest {
					s.advSend(to, pp)
				}
				verifrt.Probe("adv:ping-pong-proposal")
			}
		}
	}
}

func (s *sim) adversary(alphabet []int64) {
	moves := 3 + verifrt.Intn("a", 25)
	byz := s.byzIDs()
	honest := s.honestIDs()
	if s.splitLocks {
		// help the scenario along: vote with the round-1 proposal towards everyone (only the chosen
		// member can reach the prepare quorum), then provide null ROUND-CHANGEs for the next rounds
		verifrt.Go(func() {
			for r := int64(1); r <= 4 && s.ctx.Err() == nil; r++ {
				verifrt.Sleep(time.Duration(200+verifrt.Intn("a", 500)) * time.Millisecond)
				for _, m := range s.observed(func(m msg) bool { return m.typ == qbft.MsgPrePrepare && m.round == r }) {
					for _, bb := range byz {
						for _, to := range honest {
							s.advSend(to, s.forged(qbft.MsgPrepare, bb, r, m.val, 0, 0, nil))
						}
					}
					break
				}
				for _, bb := range byz {
					for _, to := range honest {
						s.advSend(to, s.forged(qbft.MsgRoundChange, bb, r+1, 0, 0, 0, nil))
					}
				}
			}
		})
	}
	if s.ppK > 0 {
		s.pingPongAdversary(alphabet, byz[0], honest)
		return
	}
	for i := 0; i < moves && s.ctx.Err() == nil; i++ {
		verifrt.Sleep(time.Duration(verifrt.Intn("a", 9)) * 100 * time.Millisecond)
		maxR := s.maxRound()
		b := pick("a", byz)
		v1, v2 := pick("a", alphabet), pick("a", alphabet)
		if verifrt.Intn("a", 8) == 7 {
			v1 = 0 // the empty value
		}
		if verifrt.Intn("a", 6) == 5 {
			v1 = pick("a", []int64{99, 105}) // a value that is no honest member's input (one per comparator class)
		}
		mv := verifrt.Intn("a", 20)
		if mv >= 16 {
			mv = 11 // the stale-certificate move is cheap when its precondition fails: try it often
		}
		switch mv {
		case 0: // silence
		case 14: // relayed quorum: wait until honest members have voted (PREPARE or COMMIT) for the value of
			// the current round, then vote for ANOTHER value carrying those genuine votes as justification,
			// so that they reach a member inside the Byzantine message before they arrive directly
			typ := pick("a", []qbft.MsgType{qbft.MsgPrepare, qbft.MsgCommit})
			need := s.q - 1
			if verifrt.Intn("a", 3) == 0 {
				need = s.q - len(byz)
			}
			var grp []msg
			for k := 0; k < 150 && s.ctx.Err() == nil && grp == nil; k++ {
				r := s.maxRound()
				by := map[int64][]msg{}
				for _, m := range s.observed(func(m msg) bool { return m.typ == typ && m.round == r }) {
					by[m.val] = append(by[m.val], m)
				}
				for _, a := range alphabet {
					if len(by[a]) >= need {
						grp = by[a]
					}
				}
				if grp == nil {
					verifrt.Sleep(4 * time.Millisecond)
				}
			}
			if grp == nil {
				break
			}
			x := v1
			if x == grp[0].val || x == 0 {
				x = pick("a", []int64{99, 105})
			}
			for _, bb := range byz {
				m := s.forged(typ, bb, grp[0].round, x, 0, 0, toM(grp))
				for _, to := range honest {
					if !s.byz[to] {
						verifrt.Fault("byz:" + m.typ.String())
						verifrt.Note("adv -> m%d %v (relayed quorum)", to, m)
						s.deliver(to, m, time.Duration(verifrt.Intn("a", 3))*time.Millisecond)
					}
				}
			}
			verifrt.Probe("adv:relayed-quorum")
		case 15: // proposal by a member that is not the leader of the round (with and without a round-change
			// justification), followed by the Byzantine votes for it
			for r := maxR; r <= maxR+1; r++ {
				var nl []int64
				for _, bb := range byz {
					if s.leader(r) != bb {
						nl = append(nl, bb)
					}
				}
				if len(nl) == 0 {
					continue
				}
				src := pick("a", nl)
				var j []M
				if r > 1 && verifrt.Intn("a", 2) == 0 {
					j = s.qrc(r, verifrt.Intn("a", 2) == 0, true)
				}
				pp := s.forged(qbft.MsgPrePrepare, src, r, v1, 0, 0, j)
				for _, to := range honest {
					s.advSend(to, pp)
				}
				for _, bb := range byz {
					for _, to := range honest {
						s.advSend(to, s.forged(qbft.MsgPrepare, bb, r, v1, 0, 0, nil))
						s.advSend(to, s.forged(qbft.MsgCommit, bb, r, v1, 0, 0, nil))
					}
				}
				verifrt.Probe("adv:non-leader-proposal")
			}
		case 1: // equivocating leader (current or future round, forged round-change justification)
			for r := int64(1); r <= maxR+2; r++ {
				if !s.byz[s.leader(r)] {
					continue
				}
				var j []M
				if r > 1 {
					j = s.qrc(r, verifrt.Intn("a", 2) == 0, true)
				}
				verifrt.Probe("adv:equivocating-leader")
				s.advSendSplit(s.forged(qbft.MsgPrePrepare, s.leader(r), r, v1, 0, 0, j), s.forged(qbft.MsgPrePrepare, s.leader(r), r, v2, 0, 0, j))
			}
		case 2: // double voting
			typ := pick("a", []qbft.MsgType{qbft.MsgPrepare, qbft.MsgCommit})
			r := 1 + int64(verifrt.Intn("a", int(maxR)))
			for _, b := range byz {
				s.advSendSplit(s.forged(typ, b, r, v1, 0, 0, nil), s.forged(typ, b, r, v2, 0, 0, nil))
			}
			verifrt.Probe("adv:double-vote")
		case 3: // lock breaking: claim a prepared round/value assembled from honest PREPAREs plus own
			r := maxR + int64(verifrt.Intn("a", 3))
			pr := 1 + int64(verifrt.Intn("a", int(maxR)))
			pv := v1
			ps := s.observed(func(m msg) bool { return m.typ == qbft.MsgPrepare && m.round == pr && m.val == pv })
			j := toM(ps)
			for _, bb := range byz {
				j = append(j, s.forged(qbft.MsgPrepare, bb, pr, pv, 0, 0, nil))
			}
			switch verifrt.Intn("a", 4) {
			case 0:
				if len(j) > 0 {
					j = append(j, j[0]) // duplicated source
				}
			case 1: // pad to a quorum with copies of the Byzantine PREPAREs
				for k := 0; len(j) < s.q && len(j) > 0; k++ {
					j = append(j, j[len(j)-1-k%len(byz)])
				}
			}
			if verifrt.Intn("a", 4) == 0 { // prepares of another round/value mixed in
				j = append(j, toM(s.observed(func(m msg) bool { return m.typ == qbft.MsgPrepare && (m.round != pr || m.val != pv) }))...)
			}
			m := s.forged(qbft.MsgRoundChange, b, r, 0, pr, pv, j)
			for _, to := range honest {
				s.advSend(to, m)
			}
			verifrt.Probe("adv:lock-break")
		case 4: // hidden lock: leader proposes a fresh value omitting the prepared ROUND-CHANGEs
			for r := int64(2); r <= maxR+1; r++ {
				if !s.byz[s.leader(r)] {
					continue
				}
				m := s.forged(qbft.MsgPrePrepare, s.leader(r), r, v1, 0, 0, s.qrc(r, true, false))
				for _, to := range honest {
					s.advSend(to, m)
				}
				verifrt.Probe("adv:hidden-lock")
			}
		case 5: // DECIDED assembled from observed COMMITs (matching or mixed) plus own
			cs := s.observed(func(m msg) bool { return m.typ == qbft.MsgCommit })
			r, v := 1+int64(verifrt.Intn("a", int(maxR))), v1
			if len(cs) > 0 {
				x := pick("a", cs)
				r, v = x.round, x.val
			}
			if verifrt.Intn("a", 3) == 0 {
				v = v2 // decide a value other than the committed one
			}
			var j []M
			mixed := verifrt.Intn("a", 3) == 0
			for _, m := range cs {
				if mixed || (m.round == r && m.val == v) {
					j = append(j, m)
				}
			}
			for _, bb := range byz {
				j = append(j, s.forged(qbft.MsgCommit, bb, r, v, 0, 0, nil))
			}
			switch verifrt.Intn("a", 6) {
			case 3: // pad to a quorum with copies of the Byzantine COMMITs (one source counted repeatedly)
				for k := 0; len(j) < s.q; k++ {
					j = append(j, j[len(j)-1-k%len(byz)])
				}
				verifrt.Probe("adv:forged-decided-repeated-source")
			case 4: // votes of the wrong phase: observed PREPAREs (and Byzantine ones) for the value in place of COMMITs
				j = j[:0]
				for _, m := range s.observed(func(m msg) bool { return m.typ == qbft.MsgPrepare }) {
					if mixed || (m.round == r && m.val == v) {
						j = append(j, m)
					}
				}
				for _, bb := range byz {
					j = append(j, s.forged(qbft.MsgPrepare, bb, r, v, 0, 0, nil))
				}
				verifrt.Probe("adv:forged-decided-wrong-phase")
			case 5: // a quorum of ROUND-CHANGEs / PRE-PREPAREs naming the value
				j = j[:0]
				for _, m := range s.observed(func(m msg) bool { return (m.typ == qbft.MsgRoundChange || m.typ == qbft.MsgPrePrepare) && m.round == r }) {
					j = append(j, m)
				}
				for _, bb := range byz {
					j = append(j, s.forged(qbft.MsgRoundChange, bb, r, v, 0, 0, nil))
				}
			}
			m := s.forged(qbft.MsgDecided, b, r, v, 0, 0, j)
			for _, to := range honest {
				if verifrt.Intn("a", 2) == 0 {
					s.advSend(to, m)
				}
			}
			verifrt.Probe("adv:forged-decided")
		case 6: // replay an honest message to anyone, later
			all := s.observed(func(msg) bool { return true })
			if len(all) > 0 {
				m := pick("a", all)
				s.deliver(pick("a", honest), m, time.Duration(verifrt.Intn("a", 3000))*time.Millisecond)
				verifrt.Fault("byz:replay")
			}
		case 7: // garbage within the wire type
			typ := qbft.MsgType(1 + verifrt.Intn("a", 5))
			r := pick("a", []int64{1, maxR, maxR + 1, maxR + 3, 1 << 40})
			pool := s.observed(func(msg) bool { return true })
			var j []M
			for k := verifrt.Intn("a", 2*s.n+1); k > 0 && len(pool) > 0; k-- {
				j = append(j, pick("a", pool))
			}
			m := s.forged(typ, b, r, pick("a", append([]int64{0}, alphabet...)), int64(verifrt.Intn("a", int(maxR)+2)), pick("a", append([]int64{0}, alphabet...)), j)
			s.advSend(pick("a", honest), m)
		case 8: // help progress: vote like an honest member for whatever is being prepared
			ps := s.observed(func(m msg) bool { return m.typ == qbft.MsgPrePrepare || m.typ == qbft.MsgPrepare })
			if len(ps) > 0 {
				x := ps[len(ps)-1]
				only := -1
				if verifrt.Intn("a", 2) == 1 {
					only = pick("a", honest) // vote towards a single member: it alone reaches the quorum
				}
				for _, bb := range byz {
					for _, to := range honest {
						if only >= 0 && to != only {
							continue
						}
						s.advSend(to, s.forged(qbft.MsgPrepare, bb, x.round, x.val, 0, 0, nil))
						s.advSend(to, s.forged(qbft.MsgCommit, bb, x.round, x.val, 0, 0, nil))
					}
				}
			}
		case 9: // push rounds: ROUND-CHANGEs for a high round from every Byzantine id
			r := maxR + 1 + int64(verifrt.Intn("a", 3))
			for _, bb := range byz {
				for _, to := range honest {
					s.advSend(to, s.forged(qbft.MsgRoundChange, bb, r, 0, 0, 0, nil))
				}
			}
			verifrt.Probe("adv:push-rounds")
		case 13: // certificate by repetition: a Byzantine leader justifies a value of its choice with its
			// own single PREPARE repeated quorum times (plus its ROUND-CHANGE claiming that certificate)
			for r := int64(2); r <= maxR+1; r++ {
				if !s.byz[s.leader(r)] {
					continue
				}
				ld := s.leader(r)
				pr := 1 + int64(verifrt.Intn("a", int(r-1)))
				var j []M
				j = append(j, s.forged(qbft.MsgRoundChange, ld, r, 0, pr, v1, nil))
				seen := map[int64]bool{ld: true}
				for _, m := range s.observed(func(m msg) bool { return m.typ == qbft.MsgRoundChange && m.round == r && m.pr <= pr }) {
					if !seen[m.src] {
						seen[m.src] = true
						j = append(j, m)
					}
				}
				for _, bb := range byz {
					if !seen[bb] {
						seen[bb] = true
						j = append(j, s.forged(qbft.MsgRoundChange, bb, r, 0, 0, 0, nil))
					}
				}
				rep := s.forged(qbft.MsgPrepare, ld, pr, v1, 0, 0, nil)
				for k := 0; k < s.q; k++ {
					j = append(j, rep)
				}
				pp := s.forged(qbft.MsgPrePrepare, ld, r, v1, 0, 0, j)
				for _, to := range honest {
					s.advSend(to, pp)
				}
				verifrt.Probe("adv:certificate-by-repetition")
			}
		case 12: // double proposal for a round the members have not reached yet, then a one-sided commit:
			// every member that jumps to the round on the first proposal must not vote again on the second
			for r := maxR; r <= maxR+2; r++ {
				if !s.byz[s.leader(r)] || r < 2 {
					continue
				}
				j := s.qrc(r, true, false)
				if len(j) < s.q {
					continue
				}
				w1, w2 := alphabet[verifrt.Intn("a", len(alphabet))], alphabet[verifrt.Intn("a", len(alphabet))]
				if w1 == w2 {
					w2 = alphabet[(verifrt.Intn("a", len(alphabet)-1)+1+int(w1-alphabet[0]))%len(alphabet)]
				}
				p1 := s.forged(qbft.MsgPrePrepare, s.leader(r), r, w1, 0, 0, j)
				p2 := s.forged(qbft.MsgPrePrepare, s.leader(r), r, w2, 0, 0, j)
				for _, to := range honest {
					if verifrt.Intn("a", 2) == 0 {
						s.advSend(to, p1)
						s.advSend(to, p2)
					} else {
						s.advSend(to, p2)
						s.advSend(to, p1)
					}
				}
				verifrt.Sleep(time.Duration(100+verifrt.Intn("a", 600)) * time.Millisecond)
				target := pick("a", honest)
				for _, bb := range byz {
					for _, w := range []int64{w1, w2} {
						for _, to := range honest {
							s.advSend(to, s.forged(qbft.MsgPrepare, bb, r, w, 0, 0, nil))
						}
					}
					s.advSend(target, s.forged(qbft.MsgCommit, bb, r, w1, 0, 0, nil))
					s.advSend(target, s.forged(qbft.MsgCommit, bb, r, w2, 0, 0, nil))
				}
				verifrt.Probe("adv:double-proposal")
				break
			}
		case 11: // stale certificate: a Byzantine leader re-proposes an older prepared value W although a
			// ROUND-CHANGE with a higher prepared round exists, listing its own stale claim first
			type pk struct{ r, v int64 }
			cnt := map[pk]map[int64]bool{}
			for _, m := range s.observed(func(m msg) bool { return m.typ == qbft.MsgPrepare }) {
				k := pk{m.round, m.val}
				if cnt[k] == nil {
					cnt[k] = map[int64]bool{}
				}
				cnt[k][m.src] = true
			}
			var ks []pk
			for k, srcs := range cnt {
				if len(srcs)+len(byz) >= s.q {
					ks = append(ks, k)
				}
			}
			sort.Slice(ks, func(i, j int) bool { return ks[i].r < ks[j].r || ks[i].r == ks[j].r && ks[i].v < ks[j].v })
			for r := int64(2); r <= maxR+1 && len(ks) > 0; r++ {
				if !s.byz[s.leader(r)] {
					continue
				}
				stale := ks[verifrt.Intn("a", len(ks))]
				if len(ks) > 1 && stale == ks[len(ks)-1] && verifrt.Intn("a", 2) == 0 {
					stale = ks[len(ks)-2] // prefer a certificate older than the newest one
				}
				if stale.r >= r {
					continue
				}
				var cert []M
				for _, m := range s.observed(func(m msg) bool { return m.typ == qbft.MsgPrepare && m.round == stale.r && m.val == stale.v }) {
					cert = append(cert, m)
				}
				for _, bb := range byz {
					cert = append(cert, s.forged(qbft.MsgPrepare, bb, stale.r, stale.v, 0, 0, nil))
				}
				var j []M
				for _, bb := range byz {
					j = append(j, s.forged(qbft.MsgRoundChange, bb, r, 0, stale.r, stale.v, nil))
				}
				seen := map[int64]bool{}
				for _, m := range s.observed(func(m msg) bool { return m.typ == qbft.MsgRoundChange && m.round == r }) {
					if !seen[m.src] {
						seen[m.src] = true
						j = append(j, m)
					}
				}
				j = append(j, cert...)
				pp := s.forged(qbft.MsgPrePrepare, s.leader(r), r, stale.v, 0, 0, j)
				for _, to := range honest {
					s.advSend(to, pp)
				}
				verifrt.Probe("adv:stale-certificate")
			}
		case 10: // split commits: commit v to some, nothing to others, then a conflicting proposal next round
			r := maxR
			for _, bb := range byz {
				for _, to := range honest {
					if verifrt.Intn("a", 2) == 0 {
						s.advSend(to, s.forged(qbft.MsgCommit, bb, r, v1, 0, 0, nil))
						s.advSend(to, s.forged(qbft.MsgPrepare, bb, r, v1, 0, 0, nil))
					}
				}
			}
		}
	}
}
