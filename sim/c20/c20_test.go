//go:build verif

// Harness for C20: the real eth2wrap.DutiesCache over an in-memory beacon stub whose attester,
// proposer and sync-committee assignments are a pure seeded table per (epoch, version, validator).
// 2-4 client goroutines issue requests over explicit index subsets, reorgs (version bump followed
// by InvalidateCache), plain invalidations and trims under the seeded scheduler. Oracles: exactness
// of every response against the table, freshness after a returned invalidation, private copies
// (pointer identity + caller-side mutation), and porcupine linearizability per (kind, epoch).
package c20

import (
	"context"
	"errors"
	"fmt"
	"slices"
	"sort"
	"strings"
	"sync"
	"testing"
	"time"

	"github.com/anishathalye/porcupine"
	eth2api "github.com/attestantio/go-eth2-client/api"
	eth2v1 "github.com/attestantio/go-eth2-client/api/v1"
	eth2p0 "github.com/attestantio/go-eth2-client/spec/phase0"
	"go.uber.org/zap"

	"github.com/obolnetwork/charon/app/eth2wrap"
	"github.com/obolnetwork/charon/app/log"
	"github.com/obolnetwork/charon/verifrt"

	"verifsim/kernel"
)

const (
	kAtt = iota
	kProp
	kSync
	nKinds
)

var kindName = [nKinds]string{"att", "prop", "sync"}

const (
	maxVals   = 5
	maxEpochs = 3
	maxVer    = 3 // versions 0..3 per epoch: at most 3 reorgs per run
	epoch0    = 10
	trimThr   = 3 // restated from the component's documentation: Trim(e) drops epochs older than e-3

	poisonBase = uint64(1) << 40 // every mutated numeric field is >= poisonBase
	poisonIdx  = 1000            // mutated validator index = poisonIdx + original
	poisonByte = 0xEE
)

func TestSim(t *testing.T) {
	kernel.Main(t, kernel.Harness{Name: "c20", Horizon: 10 * time.Minute, Body: body, After: after})
}

// ---- the beacon's assignment table: a pure function ------------------------------------------

func mixh(vs ...uint64) uint64 {
	x := uint64(0x9e3779b97f4a7c15)
	for _, v := range vs {
		x ^= v + 0x9e3779b97f4a7c15 + (x << 6) + (x >> 2)
		x ^= x >> 30
		x *= 0xbf58476d1ce4e5b9
		x ^= x >> 27
		x *= 0x94d049bb133111eb
		x ^= x >> 31
	}
	return x
}

func pubkey(idx int) (pk eth2p0.BLSPubKey) {
	for i := range pk {
		pk[i] = byte(idx*31+i*7) & 0x7f
	}
	return pk
}

// rec is one duty record in harness representation. Every record encodes the version of the
// assignment table it was taken from (attester: committee index / 16, proposer: (slot % 32) / 8,
// sync: committee indices / 100), so a stale answer is distinguishable from a fresh one.
type rec struct {
	idx  int
	slot uint64
	ci   uint64
	clen uint64
	vci  uint64
	sync []uint64
}

func table(seed uint64, kind, epoch, ver, idx int) []rec {
	h := func(salt uint64) uint64 {
		return mixh(seed, uint64(kind), uint64(epoch), uint64(ver), uint64(idx), salt)
	}
	switch kind {
	case kAtt:
		if h(0)%5 == 0 {
			return nil // no attester duty in this epoch at this version
		}
		clen := 64 + h(3)%64
		return []rec{{idx: idx, slot: uint64(epoch)*32 + h(1)%32, ci: uint64(ver)*16 + h(2)%16, clen: clen, vci: h(4) % clen}}
	case kProp:
		n := []int{0, 1, 1, 2, 3}[h(0)%5]
		var out []rec
		for j := 0; j < n; j++ {
			out = append(out, rec{idx: idx, slot: uint64(epoch)*32 + uint64(ver)*8 + (h(1)+uint64(j)*3)%8})
		}
		return out
	default:
		if h(0)%3 == 0 {
			return nil
		}
		n := 1 + int(h(1)%3)
		r := rec{idx: idx}
		for j := 0; j < n; j++ {
			r.sync = append(r.sync, uint64(ver)*100+(h(2)+uint64(j)*7)%100)
		}
		return []rec{r}
	}
}

func (r rec) str(kind int) string {
	switch kind {
	case kAtt:
		return fmt.Sprintf("att{v%d slot=%d ci=%d clen=%d vci=%d}", r.idx, r.slot, r.ci, r.clen, r.vci)
	case kProp:
		return fmt.Sprintf("prop{v%d slot=%d}", r.idx, r.slot)
	default:
		return fmt.Sprintf("sync{v%d idxs=%v}", r.idx, r.sync)
	}
}

// answer is the canonical (order-free) form of the duties of one validator: a sorted multiset.
func answer(kind int, rs []rec) string {
	ss := make([]string, 0, len(rs))
	for _, r := range rs {
		ss = append(ss, r.str(kind))
	}
	sort.Strings(ss)
	return strings.Join(ss, ",")
}

// ---- run state ---------------------------------------------------------------------------------

type opTyp int

const (
	opRead opTyp = iota
	opBump
	opClear
)

type op struct {
	typ    opTyp
	client int
	label  string
	call   int64
	ret    int64

	// read
	kind    int
	ep      int // epoch index (epoch = epoch0 + ep)
	req     []int
	minVer  int // versions below this were invalidated by a clear that returned before the invoke
	fetched [maxVals]bool
	bnCalls int
	bnErr   bool
	fetchV  int
	fetchCl int // completed clears of the epoch at the moment of the beacon read
	err     bool
	skip    bool // poisoned or inexact: reported already, kept out of the linearizability check
	m       [maxVals]uint8
	ans     [maxVals]string

	// bump / clear
	epMask uint8
}

type opKey struct{}

type runState struct {
	mu       sync.Mutex
	seq      int64
	ops      []*op
	seed     uint64
	nVals    int
	nEpochs  int
	faulty   bool
	ver      [maxEpochs]int
	minVer   [maxEpochs]int
	clears   [maxEpochs]int // completed clears (invalidate/trim) affecting the epoch
	clearEvs int            // clear invocations + returns, any epoch
	reorgs   int
	tab      [nKinds][maxEpochs][maxVer + 1][maxVals]string
	flagged  [nKinds][maxEpochs]bool // a direct oracle already fired for this partition

	seenPtr map[any]string
	seenArr map[*eth2p0.CommitteeIndex]string
}

func (st *runState) stamp() int64 { st.mu.Lock(); defer st.mu.Unlock(); st.seq++; return st.seq }
func (st *runState) add(o *op)    { st.mu.Lock(); st.ops = append(st.ops, o); st.mu.Unlock() }

// run hands the recorded history to After (one run at a time per process).
var run *runState

// ---- beacon stub -------------------------------------------------------------------------------

type beacon struct {
	eth2wrap.Client // nil: any method the cache is not expected to call panics
	st              *runState
}

// serve is the common part of the three duty endpoints: delay, (maybe) fail, read the epoch's
// current version at one instant, delay again.
func (b *beacon) serve(ctx context.Context, kind int, epoch eth2p0.Epoch, idxs []eth2p0.ValidatorIndex) ([]rec, int, error) {
	st := b.st
	o, _ := ctx.Value(opKey{}).(*op)
	pause := func() {
		if d := verifrt.Intn("n", 4); d > 0 {
			verifrt.Sleep(time.Duration(d) * time.Millisecond)
		} else {
			verifrt.Yield()
		}
	}
	pause()
	if ctx.Err() != nil { // the caller gave up: a beacon client returns the context's error
		verifrt.Probe("stub-call-abandoned-by-caller")
		if o != nil {
			o.bnErr = true
		}
		return nil, 0, ctx.Err()
	}
	if st.faulty && verifrt.Chance("f", 1, 6) {
		verifrt.Fault("beacon-error")
		verifrt.Probe("stub-error")
		if o != nil {
			o.bnErr = true
		}
		verifrt.Note("bn %s e%d %v -> ERROR", kindName[kind], epoch, idxs)
		return nil, 0, errors.New("beacon stub: injected failure")
	}
	ep := int(epoch) - epoch0
	if ep < 0 || ep >= st.nEpochs {
		return nil, 0, errors.New("beacon stub: unknown epoch")
	}
	st.mu.Lock()
	ver := st.ver[ep]
	cl := st.clears[ep]
	st.mu.Unlock()
	var out []rec
	for _, vi := range idxs {
		i := int(vi)
		if i < 0 || i >= st.nVals {
			continue
		}
		out = append(out, table(st.seed, kind, int(epoch), ver, i)...)
		if o != nil {
			o.fetched[i] = true
		}
	}
	if o != nil {
		o.bnCalls++
		o.fetchV, o.fetchCl = ver, cl
	}
	verifrt.Note("bn %s e%d %v -> version %d (%d duties)", kindName[kind], epoch, idxs, ver, len(out))
	pause()
	if ctx.Err() != nil { // the answer was on its way when the caller gave up
		verifrt.Probe("stub-call-abandoned-by-caller")
		if o != nil {
			o.bnErr = true
		}
		return nil, 0, ctx.Err()
	}
	return out, ver, nil
}

func meta(ver int) map[string]any { return map[string]any{"stub_version": ver} }

func (b *beacon) AttesterDuties(ctx context.Context, opts *eth2api.AttesterDutiesOpts) (*eth2api.Response[[]*eth2v1.AttesterDuty], error) {
	rs, ver, err := b.serve(ctx, kAtt, opts.Epoch, opts.Indices)
	if err != nil {
		return nil, err
	}
	data := make([]*eth2v1.AttesterDuty, 0, len(rs))
	for _, r := range rs {
		data = append(data, &eth2v1.AttesterDuty{PubKey: pubkey(r.idx), Slot: eth2p0.Slot(r.slot), ValidatorIndex: eth2p0.ValidatorIndex(r.idx),
			CommitteeIndex: eth2p0.CommitteeIndex(r.ci), CommitteeLength: r.clen, CommitteesAtSlot: 64, ValidatorCommitteeIndex: r.vci})
	}
	return &eth2api.Response[[]*eth2v1.AttesterDuty]{Data: data, Metadata: meta(ver)}, nil
}

func (b *beacon) ProposerDuties(ctx context.Context, opts *eth2api.ProposerDutiesOpts) (*eth2api.Response[[]*eth2v1.ProposerDuty], error) {
	rs, ver, err := b.serve(ctx, kProp, opts.Epoch, opts.Indices)
	if err != nil {
		return nil, err
	}
	data := make([]*eth2v1.ProposerDuty, 0, len(rs))
	for _, r := range rs {
		data = append(data, &eth2v1.ProposerDuty{PubKey: pubkey(r.idx), Slot: eth2p0.Slot(r.slot), ValidatorIndex: eth2p0.ValidatorIndex(r.idx)})
	}
	return &eth2api.Response[[]*eth2v1.ProposerDuty]{Data: data, Metadata: meta(ver)}, nil
}

func (b *beacon) SyncCommitteeDuties(ctx context.Context, opts *eth2api.SyncCommitteeDutiesOpts) (*eth2api.Response[[]*eth2v1.SyncCommitteeDuty], error) {
	rs, ver, err := b.serve(ctx, kSync, opts.Epoch, opts.Indices)
	if err != nil {
		return nil, err
	}
	data := make([]*eth2v1.SyncCommitteeDuty, 0, len(rs))
	for _, r := range rs {
		cis := make([]eth2p0.CommitteeIndex, 0, len(r.sync))
		for _, x := range r.sync {
			cis = append(cis, eth2p0.CommitteeIndex(x))
		}
		data = append(data, &eth2v1.SyncCommitteeDuty{PubKey: pubkey(r.idx), ValidatorIndex: eth2p0.ValidatorIndex(r.idx), ValidatorSyncCommitteeIndices: cis})
	}
	return &eth2api.Response[[]*eth2v1.SyncCommitteeDuty]{Data: data, Metadata: meta(ver)}, nil
}

// ---- one returned duty, kind-independent view ----------------------------------------------------

type got struct {
	ptr      any
	arr      *eth2p0.CommitteeIndex // backing array of a sync duty's index slice (nil if none)
	vidx     uint64
	rec      rec
	pkOK     bool
	poisoned bool
	mutate   func()
}

func poisonPK(pk *eth2p0.BLSPubKey) {
	for i := range pk {
		pk[i] = poisonByte
	}
}

func viewAtt(d *eth2v1.AttesterDuty) got {
	g := got{ptr: d, vidx: uint64(d.ValidatorIndex)}
	g.rec = rec{idx: int(d.ValidatorIndex), slot: uint64(d.Slot), ci: uint64(d.CommitteeIndex), clen: d.CommitteeLength, vci: d.ValidatorCommitteeIndex}
	g.pkOK = d.PubKey == pubkey(int(d.ValidatorIndex)) && d.CommitteesAtSlot == 64
	g.poisoned = d.PubKey[0] == poisonByte || uint64(d.Slot) >= poisonBase || uint64(d.CommitteeIndex) >= poisonBase || d.CommitteeLength >= poisonBase ||
		d.CommitteesAtSlot >= poisonBase || d.ValidatorCommitteeIndex >= poisonBase || d.ValidatorIndex >= poisonIdx
	g.mutate = func() {
		poisonPK(&d.PubKey)
		d.Slot += eth2p0.Slot(poisonBase)
		d.CommitteeIndex += eth2p0.CommitteeIndex(poisonBase)
		d.CommitteeLength += poisonBase
		d.CommitteesAtSlot += poisonBase
		d.ValidatorCommitteeIndex += poisonBase
		d.ValidatorIndex += poisonIdx
	}
	return g
}

func viewProp(d *eth2v1.ProposerDuty) got {
	g := got{ptr: d, vidx: uint64(d.ValidatorIndex)}
	g.rec = rec{idx: int(d.ValidatorIndex), slot: uint64(d.Slot)}
	g.pkOK = d.PubKey == pubkey(int(d.ValidatorIndex))
	g.poisoned = d.PubKey[0] == poisonByte || uint64(d.Slot) >= poisonBase || d.ValidatorIndex >= poisonIdx
	g.mutate = func() {
		poisonPK(&d.PubKey)
		d.Slot += eth2p0.Slot(poisonBase)
		d.ValidatorIndex += poisonIdx
	}
	return g
}

func viewSync(d *eth2v1.SyncCommitteeDuty) got {
	g := got{ptr: d, vidx: uint64(d.ValidatorIndex)}
	g.rec = rec{idx: int(d.ValidatorIndex)}
	for _, x := range d.ValidatorSyncCommitteeIndices {
		g.rec.sync = append(g.rec.sync, uint64(x))
		if uint64(x) >= poisonBase {
			g.poisoned = true
		}
	}
	if len(d.ValidatorSyncCommitteeIndices) > 0 {
		g.arr = &d.ValidatorSyncCommitteeIndices[0]
	}
	g.pkOK = d.PubKey == pubkey(int(d.ValidatorIndex))
	g.poisoned = g.poisoned || d.PubKey[0] == poisonByte || d.ValidatorIndex >= poisonIdx
	g.mutate = func() {
		poisonPK(&d.PubKey)
		for i := range d.ValidatorSyncCommitteeIndices {
			d.ValidatorSyncCommitteeIndices[i] += eth2p0.CommitteeIndex(poisonBase)
		}
		d.ValidatorIndex += poisonIdx
	}
	return g
}

// request calls the cache method of the kind and returns the duties in harness view.
func request(ctx context.Context, cache *eth2wrap.DutiesCache, kind int, epoch eth2p0.Epoch, vidxs []eth2p0.ValidatorIndex) ([]got, bool, error) {
	var gs []got
	nilDuty := false
	switch kind {
	case kAtt:
		r, err := cache.AttesterDutiesCache(ctx, epoch, vidxs)
		if err != nil {
			return nil, false, err
		}
		for _, d := range r.Duties {
			if d == nil {
				nilDuty = true
				continue
			}
			gs = append(gs, viewAtt(d))
		}
	case kProp:
		r, err := cache.ProposerDutiesCache(ctx, epoch, vidxs)
		if err != nil {
			return nil, false, err
		}
		for _, d := range r.Duties {
			if d == nil {
				nilDuty = true
				continue
			}
			gs = append(gs, viewProp(d))
		}
	default:
		r, err := cache.SyncCommDutiesCache(ctx, epoch, vidxs)
		if err != nil {
			return nil, false, err
		}
		for _, d := range r.Duties {
			if d == nil {
				nilDuty = true
				continue
			}
			gs = append(gs, viewSync(d))
		}
	}
	return gs, nilDuty, nil
}

// ---- body ---------------------------------------------------------------------------------------

func body(c *kernel.Ctx) {
	ctx := log.WithLogger(context.Background(), zap.NewNop())

	st := &runState{seenPtr: map[any]string{}, seenArr: map[*eth2p0.CommitteeIndex]string{}}
	nClients := 2 + verifrt.Intn("cfg", 3)
	nOps := 2 + verifrt.Intn("cfg", 4) // <= 4 clients x 5 ops = 20 operations
	st.nVals = 2 + verifrt.Intn("cfg", maxVals-1)
	st.nEpochs = 2 + verifrt.Intn("cfg", maxEpochs-1)
	st.seed = uint64(verifrt.Intn("cfg", 64))
	st.faulty = verifrt.Intn("cfg", 4) == 3
	focusKind := verifrt.Intn("cfg", nKinds)
	focusEp := verifrt.Intn("cfg", st.nEpochs)
	growing := verifrt.Intn("cfg", 4) == 3 // scenario family "growing epoch", see below
	if growing {
		st.nVals, nOps = maxVals, 5 // the cached list grows five times: 1, 2, 4 and 8 slots of capacity
		if focusKind == 2 {
			focusKind = verifrt.Intn("cfg", 2) // lists of sync duties hold one entry per validator in request order
		}
	}
	for k := 0; k < nKinds; k++ {
		for e := 0; e < st.nEpochs; e++ {
			for v := 0; v <= maxVer; v++ {
				for i := 0; i < st.nVals; i++ {
					st.tab[k][e][v][i] = answer(k, table(st.seed, k, epoch0+e, v, i))
				}
			}
		}
	}
	c.Set("clients", nClients)
	c.Set("vals", st.nVals)
	c.Set("epochs", st.nEpochs)
	c.Set("table_seed", st.seed)
	c.Set("beacon_faults", st.faulty)

	bn := &beacon{st: st}
	// The cache's "active validators" list (what app.go refreshes once per epoch from the head state) only
	// stands in for an EMPTY request; explicit requests - the subject of the statement - must not depend on it.
	// It is seeded at construction and replaced during the run by lists that leave out validators with duties.
	activeList := func() []eth2p0.ValidatorIndex {
		var l []eth2p0.ValidatorIndex
		mask := verifrt.Intn("w", 1<<st.nVals)
		for i := 0; i < st.nVals; i++ {
			if mask&(1<<i) != 0 {
				l = append(l, eth2p0.ValidatorIndex(i))
			}
		}
		return l
	}
	var initial []eth2p0.ValidatorIndex
	if verifrt.Intn("cfg", 2) == 1 {
		initial = activeList()
	}
	cache := eth2wrap.NewDutiesCache(bn, initial)

	// Scenario family "growing epoch" (a quarter of the runs): client 0 asks the focus epoch for validator 0, then 0-1,
	// then 0-2, ... (every request after the first a partial hit that amends the cached epoch, some of them within the
	// spare capacity of the cached list), while the other clients keep asking for subsets of what is already cached
	// (pure hits that read the cached list while it is being amended).
	grown := 0
	if growing {
		verifrt.Probe("scenario:growing-epoch")
	}
	var wg sync.WaitGroup
	reads := 0
	for cl := 0; cl < nClients; cl++ {
		wg.Add(1)
		verifrt.Go(func() {
			defer wg.Done()
			var last *op
			for i := 0; i < nOps; i++ {
				if d := verifrt.Intn("w", 3); d > 0 {
					verifrt.Sleep(time.Duration(d) * time.Millisecond)
				}
				if verifrt.Intn("w", 10) == 9 {
					cache.UpdateActiveValIndices(activeList())
					verifrt.Probe("active-validator-list-replaced")
				}
				x := verifrt.Intn("w", 12)
				if growing && x >= 8 && x != 11 && verifrt.Intn("w", 3) != 0 {
					x = 0 // mostly reads in this family
				}
				switch {
				case x <= 7 || x == 11:
					o := &op{typ: opRead, client: cl}
					if growing {
						o.kind, o.ep = focusKind, focusEp
						st.mu.Lock()
						g := grown
						st.mu.Unlock()
						if cl == 0 {
							for j := 0; j <= g && j < st.nVals; j++ {
								o.req = append(o.req, j)
							}
						} else {
							if g == 0 {
								g = 1
							}
							mask := 1 + verifrt.Intn("w", (1<<g)-1)
							for j := 0; j < g; j++ {
								if mask&(1<<j) != 0 {
									o.req = append(o.req, j)
								}
							}
						}
						last = o
						doRead(c, ctx, st, cache, o)
						reads++
						if cl == 0 {
							st.mu.Lock()
							if grown < st.nVals-1 {
								grown++
							}
							st.mu.Unlock()
						}
						continue
					}
					if last != nil && x == 11 {
						// identical repeat of this client's previous request
						o.kind, o.ep, o.req = last.kind, last.ep, slices.Clone(last.req)
					} else {
						// two extra outcomes select the run's focus kind/epoch so that hits and amends are frequent
						if o.kind = verifrt.Intn("w", nKinds+2); o.kind >= nKinds {
							o.kind = focusKind
						}
						if o.ep = verifrt.Intn("w", st.nEpochs+2); o.ep >= st.nEpochs {
							o.ep = focusEp
						}
						mask := 1 + verifrt.Intn("w", (1<<st.nVals)-1)
						rot := verifrt.Intn("w", st.nVals)
						for j := 0; j < st.nVals; j++ {
							if i := (j + rot) % st.nVals; mask&(1<<i) != 0 {
								o.req = append(o.req, i)
							}
						}
					}
					last = o
					doRead(c, ctx, st, cache, o)
					reads++
				case x == 8:
					e := verifrt.Intn("w", st.nEpochs+1) - 1 // reorged back to epoch0+e: epochs after it change
					st.mu.Lock()
					can := st.reorgs < maxVer
					if can {
						st.reorgs++
					}
					st.mu.Unlock()
					if can {
						b := &op{typ: opBump, client: cl, label: fmt.Sprintf("reorg-to(e%d)", epoch0+e)}
						b.call = st.stamp()
						st.mu.Lock()
						for k := e + 1; k < st.nEpochs; k++ {
							st.ver[k]++
							b.epMask |= 1 << k
						}
						st.mu.Unlock()
						b.ret = st.stamp()
						st.add(b)
						verifrt.Note("c%d REORG back to e%d: beacon bumps versions of later epochs -> %v", cl, epoch0+e, st.ver[:st.nEpochs])
					}
					doClear(ctx, st, cl, fmt.Sprintf("InvalidateCache(e%d)", epoch0+e), func(k int) bool { return k > e }, func() {
						cache.InvalidateCache(ctx, eth2p0.Epoch(epoch0+e))
					})
				case x == 9:
					e := verifrt.Intn("w", st.nEpochs+1) - 1
					doClear(ctx, st, cl, fmt.Sprintf("InvalidateCache(e%d)", epoch0+e), func(k int) bool { return k > e }, func() {
						cache.InvalidateCache(ctx, eth2p0.Epoch(epoch0+e))
					})
				default:
					te := []int{epoch0 + 4, epoch0 + 5, epoch0 + 3, epoch0 + 6, 2}[verifrt.Intn("w", 5)]
					verifrt.Probe("trim")
					doClear(ctx, st, cl, fmt.Sprintf("Trim(e%d)", te), func(k int) bool { return te >= trimThr && epoch0+k < te-trimThr }, func() {
						cache.Trim(eth2p0.Epoch(te))
					})
				}
			}
		})
	}
	verifrt.WGWait(&wg)
	c.Set("ops", len(st.ops))
	c.Set("reads", reads)
	c.Set("reorgs", st.reorgs)
	run = st
}

func doClear(_ context.Context, st *runState, cl int, label string, affects func(ep int) bool, call func()) {
	o := &op{typ: opClear, client: cl, label: label}
	for k := 0; k < st.nEpochs; k++ {
		if affects(k) {
			o.epMask |= 1 << k
		}
	}
	st.mu.Lock()
	snap := st.ver
	st.clearEvs++
	st.mu.Unlock()
	verifrt.Note("c%d %s ...", cl, label)
	o.call = st.stamp()
	st.add(o)
	call()
	o.ret = st.stamp()
	st.mu.Lock()
	st.clearEvs++
	for k := 0; k < st.nEpochs; k++ {
		if o.epMask&(1<<k) != 0 {
			st.clears[k]++
			if snap[k] > st.minVer[k] {
				st.minVer[k] = snap[k]
			}
		}
	}
	st.mu.Unlock()
	verifrt.Note("c%d %s returned", cl, label)
}

const sentinelIdx = eth2p0.ValidatorIndex(0xdead0000)

var (
	backings   = map[*runState]map[int][]eth2p0.ValidatorIndex{}
	backingLen = map[int]int{}
)

func clientBacking(st *runState, client int) []eth2p0.ValidatorIndex {
	m := backings[st]
	if m == nil {
		// one run at a time per process: drop the previous run's arrays
		for k := range backings {
			delete(backings, k)
		}
		for k := range backingLen {
			delete(backingLen, k)
		}
		m = map[int][]eth2p0.ValidatorIndex{}
		backings[st] = m
	}
	if m[client] == nil {
		m[client] = make([]eth2p0.ValidatorIndex, 12)
		for k := range m[client] {
			m[client][k] = sentinelIdx
		}
		backingLen[client] = 0
	}
	return m[client]
}

func doRead(c *kernel.Ctx, ctx context.Context, st *runState, cache *eth2wrap.DutiesCache, o *op) {
	epoch := eth2p0.Epoch(epoch0 + o.ep)
	// the request slice is a sub-slice of a per-client array that the client reuses for all its requests
	// (spare capacity behind it, sentinel-filled): a cache that keeps the caller's slice, or appends to
	// it, corrupts either the caller's memory or its own bookkeeping on the client's next request
	backing := clientBacking(st, o.client)
	for k := range backing {
		if k >= backingLen[o.client] && backing[k] != sentinelIdx {
			c.Violate("C20", "caller-slice", "spare-capacity-of-request-slice-written", "client %d: element %d behind an earlier request slice was overwritten with %d after the call had returned", o.client, k, backing[k])
		}
	}
	for k := range backing {
		backing[k] = sentinelIdx
	}
	vidxs := backing[:0]
	for _, i := range o.req {
		vidxs = append(vidxs, eth2p0.ValidatorIndex(i))
	}
	backingLen[o.client] = len(vidxs)
	orig := slices.Clone(vidxs)
	o.label = fmt.Sprintf("%s e%d %v", kindName[o.kind], epoch, o.req)
	st.mu.Lock()
	o.minVer = st.minVer[o.ep]
	evs0 := st.clearEvs
	st.mu.Unlock()
	verifrt.Note("c%d read %s ...", o.client, o.label)
	o.call = st.stamp()
	st.add(o)
	// An eighth of the requests are made with a context of the caller's own that is already cancelled or ends
	// 0-4 ms into the call (beacon calls take up to 6 ms): the request may fail with that context's error; what
	// it leaves behind in the cache must not change any later answer.
	rctx := context.WithValue(ctx, opKey{}, o)
	if verifrt.Intn("w", 8) == 7 {
		var rcancel context.CancelFunc
		if verifrt.Intn("w", 3) == 0 {
			rctx, rcancel = context.WithCancel(rctx)
			rcancel()
		} else {
			rctx, rcancel = context.WithTimeout(rctx, time.Duration(verifrt.Intn("w", 5))*time.Millisecond)
		}
		defer rcancel()
	}
	gs, nilDuty, err := request(rctx, cache, o.kind, epoch, vidxs)
	o.ret = st.stamp()
	if err != nil && rctx.Err() != nil {
		o.bnErr = true // the caller's own context ended: an error is a legitimate outcome
		verifrt.Probe("request-abandoned-by-caller")
	}
	st.mu.Lock()
	evs1, verNow, clNow := st.clearEvs, st.ver[o.ep], st.clears[o.ep]
	st.mu.Unlock()

	nf := 0
	for _, i := range o.req {
		if o.fetched[i] {
			nf++
		}
	}
	class := "hit"
	switch {
	case err != nil:
		class = "error"
	case nf == len(o.req):
		class = "miss"
	case nf > 0:
		class = "partial-hit-amend"
	}
	verifrt.Probe("read-" + class)
	straddle := evs1 != evs0
	if straddle {
		verifrt.Probe("read-overlaps-invalidation-or-trim")
	}
	if err == nil && nf > 0 && o.fetchV < verNow && clNow > o.fetchCl {
		// beacon answered before the reorg, the cache call returned after the invalidation returned
		verifrt.Probe("fill-straddles-reorg-invalidation")
	}
	c.State(mixh(uint64(o.kind), uint64(len(class)), uint64(nf), b2u(straddle), uint64(o.minVer)))

	if !slices.Equal(orig, vidxs) {
		c.Violate("C20", "caller-slice", "request-index-slice-mutated", "client %d %s: the caller's index slice was %v before the call and %v after", o.client, o.label, orig, vidxs)
	}
	if err != nil {
		o.err = true
		verifrt.Note("c%d read %s -> error (beacon failed: %v)", o.client, o.label, o.bnErr)
		if !o.bnErr {
			o.skip = true
			c.Violate("C20", "unexpected-error", "request-failed-without-beacon-failure", "client %d %s failed although no beacon call of this request failed: %v", o.client, o.label, err)
		}
		return
	}
	if nilDuty {
		o.skip = true
		c.Violate("C20", "exactness", "nil-duty-in-response", "client %d %s: response contains a nil duty", o.client, o.label)
	}

	// (3) private copies, part one: no returned object (or sync index array) is shared between responses
	poisoned := false
	for _, g := range gs {
		if prev, dup := st.seenPtr[g.ptr]; dup {
			st.flagged[o.kind][o.ep] = true
			c.Violate("C20", "private-copies", "duty-object-shared-between-responses", "client %d %s: a returned *duty (validator %d) is the same object already returned by [%s]", o.client, o.label, g.vidx, prev)
		}
		st.seenPtr[g.ptr] = fmt.Sprintf("c%d %s", o.client, o.label)
		if g.arr != nil {
			if prev, dup := st.seenArr[g.arr]; dup {
				st.flagged[o.kind][o.ep] = true
				c.Violate("C20", "private-copies", "sync-index-slice-shared-between-responses", "client %d %s: the ValidatorSyncCommitteeIndices slice of the returned duty of validator %d has the same backing array as the one returned by [%s]", o.client, o.label, g.vidx, prev)
			}
			st.seenArr[g.arr] = fmt.Sprintf("c%d %s", o.client, o.label)
		}
		poisoned = poisoned || g.poisoned
	}

	// group per requested index
	var per [maxVals][]rec
	requested := [maxVals]bool{}
	for _, i := range o.req {
		requested[i] = true
	}
	var unreq []uint64
	pkBad := false
	for _, g := range gs {
		if g.poisoned {
			continue
		}
		if g.vidx >= uint64(st.nVals) || !requested[g.vidx] {
			unreq = append(unreq, g.vidx)
			continue
		}
		per[g.vidx] = append(per[g.vidx], g.rec)
		pkBad = pkBad || !g.pkOK
	}
	var desc []string
	for _, i := range o.req {
		o.ans[i] = answer(o.kind, per[i])
		for v := 0; v <= verNow; v++ { // a response cannot reflect a version the beacon has not reached yet
			if st.tab[o.kind][o.ep][v][i] == o.ans[i] {
				o.m[i] |= 1 << v
			}
		}
		desc = append(desc, fmt.Sprintf("v%d:%s[%s]", i, vers(o.m[i]), o.ans[i]))
	}
	verifrt.Note("c%d read %s -> %s fetched=%v beaconVersion=%d : %s", o.client, o.label, class, fetchedList(o), o.fetchV, strings.Join(desc, " "))

	switch {
	case poisoned:
		// (3) part two: an earlier caller's mutation of its own response is visible in this response
		o.skip = true
		st.flagged[o.kind][o.ep] = true
		c.Violate("C20", "private-copies", "later-response-sees-caller-mutation", "client %d %s (%s): the response contains field values that an earlier caller wrote into the objects it had received (mutated fields are >= 2^40, pubkey bytes 0xEE): the cache and that caller share memory", o.client, o.label, class)
	default:
		// (2) exactness: per requested index the returned multiset is the beacon's answer of a single version
		if len(unreq) > 0 {
			o.skip = true
			st.flagged[o.kind][o.ep] = true
			c.Violate("C20", "exactness", "duty-for-unrequested-index", "client %d %s: response contains duties of validator indices %v which were not requested", o.client, o.label, unreq)
		}
		if pkBad {
			o.skip = true
			c.Violate("C20", "exactness", "pubkey-mismatch", "client %d %s: a returned duty carries a pubkey that is not the validator's", o.client, o.label)
		}
		for _, i := range o.req {
			if o.m[i] == 0 {
				o.skip = true
				st.flagged[o.kind][o.ep] = true
				c.Violate("C20", "exactness", "answer-matches-no-beacon-version", "client %d %s (%s, fetched %v): duties returned for validator %d are [%s]; the beacon's answers are v0=[%s] v1=[%s] v2=[%s] v3=[%s] (current version %d)",
					o.client, o.label, class, fetchedList(o), i, o.ans[i], st.tab[o.kind][o.ep][0][i], st.tab[o.kind][o.ep][1][i], st.tab[o.kind][o.ep][2][i], st.tab[o.kind][o.ep][3][i], verNow)
				continue
			}
			// freshness: invoked after an invalidation/trim of this epoch returned => nothing older than
			// the beacon's version at that invalidation's invocation may be served
			if o.m[i]>>o.minVer == 0 {
				o.skip = true
				st.flagged[o.kind][o.ep] = true
				c.Violate("C20", "fresh-after-invalidate", "stale-duties-after-invalidation-returned", "client %d %s (%s, fetched from beacon: %v): duties returned for validator %d are [%s] = beacon version %s, but an invalidation of epoch %d had RETURNED before this request was invoked when the beacon was already at version %d; the beacon (now version %d) answers [%s]",
					o.client, o.label, class, fetchedList(o), i, o.ans[i], vers(o.m[i]), epoch, o.minVer, verNow, st.tab[o.kind][o.ep][verNow][i])
			}
		}
	}

	// (3) mutate everything that was handed out
	for _, g := range gs {
		g.mutate()
	}
	c.Progress()
}

func b2u(b bool) uint64 {
	if b {
		return 1
	}
	return 0
}

func vers(m uint8) string {
	var s []string
	for v := 0; v <= maxVer; v++ {
		if m&(1<<v) != 0 {
			s = append(s, fmt.Sprint(v))
		}
	}
	if len(s) == 0 {
		return "ver?"
	}
	return "ver" + strings.Join(s, "|")
}

func fetchedList(o *op) []int {
	out := []int{}
	for _, i := range o.req {
		if o.fetched[i] {
			out = append(out, i)
		}
	}
	return out
}

// ---- sequential model ----------------------------------------------------------------------------

// mstate is the model state of one (kind, epoch): the beacon's current version and, per validator
// index, the set of versions whose answer may legitimately sit in the cache.
type mstate struct {
	cur uint8
	s   [maxVals]uint8
}

// mop is one model operation; a read may be restricted to a subset of its indices (relaxed model).
type mop struct {
	o    *op
	only uint8 // 0 = all requested indices; else bitmask of indices this part covers
}

var model = porcupine.Model{
	Init: func() interface{} { return mstate{} },
	Step: func(state, input, _ interface{}) (bool, interface{}) {
		s, in := state.(mstate), input.(mop)
		switch in.o.typ {
		case opBump:
			s.cur++
			return true, s
		case opClear:
			s.s = [maxVals]uint8{}
			return true, s
		}
		for _, i := range in.o.req {
			if in.only != 0 && in.only&(1<<i) == 0 {
				continue
			}
			var allowed uint8
			if in.o.fetched[i] {
				allowed = 1 << s.cur // asked the beacon: the answer is the beacon's current one
			} else {
				allowed = s.s[i] // served from the cache: must have been cached since the last clear
			}
			a := in.o.m[i] & allowed
			if a == 0 {
				return false, s
			}
			s.s[i] |= a
		}
		return true, s
	},
	Equal: func(a, b interface{}) bool { return a.(mstate) == b.(mstate) },
}

func after(c *kernel.Ctx) {
	st := run
	run = nil
	if st == nil {
		return
	}
	unknown := 0
	checked := 0
	torn := 0
	for k := 0; k < nKinds; k++ {
		for e := 0; e < st.nEpochs; e++ {
			if st.flagged[k][e] {
				continue // a direct oracle already reported this partition
			}
			var part []*op
			nReads := 0
			for _, o := range st.ops {
				switch o.typ {
				case opRead:
					if o.kind == k && o.ep == e && !o.err && !o.skip && o.ret != 0 {
						part = append(part, o)
						nReads++
					}
				default:
					if o.epMask&(1<<e) != 0 && o.ret != 0 {
						part = append(part, o)
					}
				}
			}
			if nReads == 0 {
				continue
			}
			checked++
			strict := make([]porcupine.Operation, 0, len(part))
			relaxed := make([]porcupine.Operation, 0, len(part)+4)
			for _, o := range part {
				strict = append(strict, porcupine.Operation{ClientId: o.client, Input: mop{o: o}, Call: o.call, Return: o.ret})
				var hit, fet uint8
				if o.typ == opRead {
					for _, i := range o.req {
						if o.fetched[i] {
							fet |= 1 << i
						} else {
							hit |= 1 << i
						}
					}
				}
				if hit != 0 && fet != 0 {
					relaxed = append(relaxed, porcupine.Operation{ClientId: o.client, Input: mop{o: o, only: hit}, Call: o.call, Return: o.ret},
						porcupine.Operation{ClientId: o.client, Input: mop{o: o, only: fet}, Call: o.call, Return: o.ret})
				} else {
					relaxed = append(relaxed, strict[len(strict)-1])
				}
			}
			switch porcupine.CheckOperationsTimeout(model, strict, 20*time.Second) {
			case porcupine.Unknown:
				unknown++
			case porcupine.Illegal:
				switch porcupine.CheckOperationsTimeout(model, relaxed, 20*time.Second) {
				case porcupine.Unknown:
					unknown++
				case porcupine.Ok:
					// Linearizable once the cached part (valid at the lookup) and the fetched part (valid at the
					// beacon call) of a partial-hit response may take effect at different instants of the
					// request: the request overlapped two reorgs. Each index is still old-or-new while an
					// invalidation is in flight, which the statement allows; recorded, not a violation.
					torn++
				default:
					c.Violate("C20", "linearizability", "history-illegal", "history of %s duties of epoch %d is not linearizable against the cache model (served-from-cache => cached since the last invalidate/trim; fetched => beacon's current version): %s", kindName[k], epoch0+e, render(part))
				}
			}
		}
	}
	c.Set("partitions_checked", checked)
	if torn > 0 {
		c.Set("partial_hit_torn_across_two_reorgs", torn)
	}
	if unknown > 0 {
		c.Set("porcupine_unknown", unknown)
	}
}

func render(part []*op) string {
	var sb strings.Builder
	for _, o := range part {
		switch o.typ {
		case opRead:
			var ds []string
			for _, i := range o.req {
				src := "cache"
				if o.fetched[i] {
					src = "beacon"
				}
				ds = append(ds, fmt.Sprintf("v%d=%s/%s", i, vers(o.m[i]), src))
			}
			fmt.Fprintf(&sb, "[c%d read %s %d..%d] ", o.client, strings.Join(ds, ","), o.call, o.ret)
		case opBump:
			fmt.Fprintf(&sb, "[c%d beacon-version++ (%s) %d..%d] ", o.client, o.label, o.call, o.ret)
		default:
			fmt.Fprintf(&sb, "[c%d %s %d..%d] ", o.client, o.label, o.call, o.ret)
		}
	}
	return sb.String()
}
