//go:build verif

// Harness for C16: the real core.Deadliner on the bubble clock; concurrent adders, one consumer
// that keeps reading; reference model = pending set with deadlines.
package c16

import (
	"context"
	"fmt"
	"sort"
	"sync"
	"testing"
	"time"

	"github.com/obolnetwork/charon/core"
	"github.com/obolnetwork/charon/verifrt"

	"verifsim/kernel"
	"verifsim/simbeacon"
	"verifsim/simdata"
)

func TestSim(t *testing.T) {
	kernel.Main(t, kernel.Harness{Name: "c16", Horizon: 1000 * time.Hour, Body: body})
}

type addRec struct {
	duty   core.Duty
	callT  time.Duration
	retT   time.Duration
	status core.DeadlineStatus
	seq    int64
}

type recvRec struct {
	duty core.Duty
	t    time.Duration
	seq  int64
}

func body(c *kernel.Ctx) {
	ctx, cancel := context.WithCancel(context.Background())
	defer cancel()
	start := time.Now()

	// Duty universe: slots 1..S of a few types; deadlines at x.5ms so that no Add (made at whole
	// milliseconds) coincides with a deadline instant (the statement speaks of before and after).
	types := []core.DutyType{core.DutyAttester, core.DutyProposer, core.DutyRandao, core.DutyAggregator, core.DutySyncMessage, core.DutyExit, core.DutyBuilderRegistration}
	nSlots := 1 + verifrt.Intn("cfg", 4)
	nTypes := 1 + verifrt.Intn("cfg", len(types))
	// Overflow mode (a quarter of the runs): more duties than the deadliner's 10-slot output buffer and a
	// consumer that keeps reading but needs some time per report, so that the buffer fills while duties
	// keep expiring. The unchanged deadliner drops a report when the buffer is full; what stays promised
	// (and checked) is at-most-once, never early, deadline order among what is reported, and that a
	// duty goes unreported only while 10 earlier reports were waiting to be read.
	overflow := verifrt.Intn("cfg", 4) == 3
	maxDuties := 10
	if overflow {
		nSlots = 3 + verifrt.Intn("cfg", 6)
		nTypes = 3 + verifrt.Intn("cfg", 3)
		maxDuties = 12 + verifrt.Intn("cfg", 19)
	}
	c.Set("overflow", overflow)
	sameDeadline := verifrt.Intn("cfg", 3) == 2 // many duties share one deadline
	span := 4 + verifrt.Intn("cfg", 40)          // deadlines fall in (0, span] units
	// Time scale: one unit is a millisecond in most runs; seconds, minutes and several minutes in the
	// others (deadlines then lie up to hours ahead, as exit-epoch or far-future duties do).
	unit := []time.Duration{time.Millisecond, time.Millisecond, time.Millisecond, time.Second, time.Minute, 7 * time.Minute}[verifrt.Intn("cfg", 6)]
	c.Set("unit", unit.String())
	var universe []core.Duty
	deadline := map[core.Duty]time.Duration{}
	exempt := map[core.Duty]bool{}
	for s := 1; s <= nSlots; s++ {
		for ti := 0; ti < nTypes; ti++ {
			d := core.Duty{Slot: uint64(s), Type: types[ti]}
			if len(universe) >= maxDuties { // outside overflow mode never more than the output buffer's 10 can be due at one instant
				break
			}
			universe = append(universe, d)
			if d.Type == core.DutyExit || d.Type == core.DutyBuilderRegistration {
				exempt[d] = true
				continue
			}
			ms := 1 + verifrt.Intn("cfg", span)
			if sameDeadline {
				ms = 1 + (span / 2)
				if verifrt.Intn("cfg", 4) == 3 {
					ms = 1 + verifrt.Intn("cfg", span)
				}
			}
			deadline[d] = time.Duration(ms)*unit + unit/2
		}
	}
	dfn := func(d core.Duty) (time.Time, bool) {
		if exempt[d] {
			return time.Time{}, false
		}
		return start.Add(deadline[d]), true
	}
	// Production deadline function (a fifth of the runs): the deadliner is given core.NewDutyDeadlineFunc over a
	// beacon stub (the function every component's deadliner uses in app.go) instead of the harness's table. The
	// deadlines it assigns are taken as they are (the statement leaves them arbitrary); what the statement fixes
	// is judged here: exit and builder-registration duties never expire, every other duty type does, and no duty
	// expires before its own slot has begun.
	if !overflow && verifrt.Intn("cfg", 5) == 4 {
		slotDur := 12 * unit
		spe := uint64(2 + verifrt.Intn("cfg", 3))
		head := uint64(4 + verifrt.Intn("cfg", 60))
		// genesis lies half a unit off the grid of the Add instants, so no Add coincides with a deadline
		chain := &simbeacon.Chain{GenesisTime: start.Add(-time.Duration(head)*slotDur - unit/2), SlotDuration: slotDur, SlotsPerEpoch: spe}
		real, err := core.NewDutyDeadlineFunc(ctx, &simbeacon.Client{Chain: chain, Label: "c16"})
		if err != nil {
			c.Violate("*", "harness", "deadline-func-failed", "%v", err)
			return
		}
		prodTypes := []core.DutyType{core.DutyAttester, core.DutyProposer, core.DutyRandao, core.DutyAggregator, core.DutySyncMessage, core.DutySyncContribution,
			core.DutyPrepareAggregator, core.DutyPrepareSyncContribution, core.DutyInfoSync, core.DutyExit, core.DutyBuilderRegistration}
		universe, deadline, exempt = nil, map[core.Duty]time.Duration{}, map[core.Duty]bool{}
		for tries := 0; len(universe) < 10 && tries < 40; tries++ { // bounded: a replayed tape may repeat one draw for ever
			d := core.Duty{Slot: head - 3 + uint64(verifrt.Intn("cfg", 6)), Type: prodTypes[verifrt.Intn("cfg", len(prodTypes))]}
			if _, dup := deadline[d]; dup || exempt[d] {
				continue
			}
			universe = append(universe, d)
			t, expires := real(d)
			never := d.Type == core.DutyExit || d.Type == core.DutyBuilderRegistration
			if expires == never {
				c.Violate("C16", "never-expiring-types", fmt.Sprintf("%s-expires-%v", d.Type, expires), "the production deadline function says duty %s expires=%v; exit and builder registration duties never expire, every other type does", simdata.Desc(d), expires)
			}
			if !expires {
				exempt[d] = true
				continue
			}
			deadline[d] = t.Sub(start)
			if slotStart := chain.GenesisTime.Add(time.Duration(d.Slot) * slotDur); !t.After(slotStart) {
				c.Violate("C16", "deadline-before-slot", d.Type.String(), "the production deadline function puts the deadline of duty %s at %v, not after the start of its slot %v", simdata.Desc(d), t.Sub(start), slotStart.Sub(start))
			}
		}
		span = 12 * int(spe+4) // adders spread their calls over the slots around the head
		dfn = real
		c.Set("deadline_func", "core.NewDutyDeadlineFunc")
		verifrt.Probe("production-deadline-func")
	}
	verifrt.SetNode("dl") // the deadliner's goroutine inherits this tag, so it can be stalled
	dl := core.NewDeadliner(ctx, "c16", dfn)
	verifrt.SetNode("")

	var mu sync.Mutex
	var seq int64
	var adds []addRec
	var recvs []recvRec
	stamp := func() int64 { seq++; return seq }

	// consumer that keeps reading
	handling := time.Duration(0)
	if overflow {
		handling = unit / time.Duration(1+verifrt.Intn("cfg", 8)) // time the consumer spends on each report
	}
	verifrt.Go(func() {
		for {
			verifrt.Yield()
			d, ok := recvOrDone(dl.C(), ctx.Done())
			if !ok {
				return
			}
			mu.Lock()
			recvs = append(recvs, recvRec{d, verifrt.Now(), stamp()})
			mu.Unlock()
			verifrt.Note("recv %s", simdata.Desc(d))
			c.Progress()
			if handling > 0 && verifrt.Intn("w", 4) != 0 {
				verifrt.Sleep(handling)
			}
		}
	})

	nAdders := 1 + verifrt.Intn("cfg", 3)
	nOps := 1 + verifrt.Intn("cfg", 8)
	if overflow {
		nOps = 6 + verifrt.Intn("cfg", 10)
	}
	stallP := verifrt.Intn("cfg", 4) == 3
	var wg sync.WaitGroup
	for a := 0; a < nAdders; a++ {
		wg.Add(1)
		verifrt.Go(func() {
			defer wg.Done()
			for i := 0; i < nOps; i++ {
				if d := verifrt.Intn("w", 6); d > 0 && !(overflow && i > 0 && verifrt.Intn("w", 3) != 0) {
					verifrt.Sleep(time.Duration(d) * unit * time.Duration(1+span/12))
				}
				d := universe[verifrt.Intn("w", len(universe))]
				if overflow && verifrt.Intn("w", 4) != 0 {
					d = universe[(a*nOps+i)%len(universe)] // cover the universe: many duties pending at once
				}
				t0 := verifrt.Now()
				st := dl.Add(d)
				mu.Lock()
				adds = append(adds, addRec{d, t0, verifrt.Now(), st, stamp()})
				mu.Unlock()
				verifrt.Note("a%d add %s -> %d", a, simdata.Desc(d), st)
			}
		})
	}
	if stallP {
		// the deadliner's goroutine is not scheduled for a while (GC pause / starved thread): several
		// deadlines pass at once and Adds wait for their status.
		verifrt.Go(func() {
			verifrt.Sleep(time.Duration(verifrt.Intn("f", span)) * unit)
			verifrt.Stall("dl", time.Duration(1+verifrt.Intn("f", span))*unit)
		})
	}
	verifrt.WGWait(&wg)
	// let every deadline pass, then quiesce
	verifrt.Sleep(time.Duration(2*span+10)*unit + time.Second) // covers the latest stall (starts within span, lasts up to span)
	if overflow {
		verifrt.Sleep(40 * unit) // the slow consumer drains what is buffered
	}

	mu.Lock()
	defer mu.Unlock()
	check(c, adds, recvs, deadline, exempt)
	c.Set("duties", len(universe))
	c.Set("adds", len(adds))
	c.Set("received", len(recvs))
	cancel()
}

func recvOrDone(ch <-chan core.Duty, done <-chan struct{}) (core.Duty, bool) {
	// A blocking two-way select written with the runtime's hooks (harness code is not instrumented).
	for {
		if d, ok, got := verifrt.TryRecv(ch); got {
			return d, ok
		}
		if _, _, got := verifrt.TryRecv(done); got {
			return core.Duty{}, false
		}
		verifrt.PreBlock()
		select {
		case d, ok := <-ch:
			verifrt.PostBlock()
			return d, ok
		case <-done:
			verifrt.PostBlock()
			return core.Duty{}, false
		}
	}
}

func check(c *kernel.Ctx, adds []addRec, recvs []recvRec, deadline map[core.Duty]time.Duration, exempt map[core.Duty]bool) {
	sort.Slice(adds, func(i, j int) bool { return adds[i].seq < adds[j].seq })
	recvOf := map[core.Duty][]recvRec{}
	for _, r := range recvs {
		recvOf[r.duty] = append(recvOf[r.duty], r)
	}
	scheduled := map[core.Duty]time.Duration{} // first time the duty was accepted
	for _, a := range adds {
		dlT, canExpire := deadline[a.duty]
		want := core.DeadlineScheduled
		switch {
		case exempt[a.duty] || !canExpire:
			want = core.DeadlineExempt
		case a.callT > dlT:
			want = core.DeadlineExpired
		}
		if canExpire && !exempt[a.duty] && a.callT < dlT && dlT < a.retT {
			// the call spanned the deadline instant (stalled deadliner): either answer is a correct
			// account of "before" or "after"
			verifrt.Probe("add-spans-deadline")
			want = a.status
			if a.status == core.DeadlineExempt {
				want = core.DeadlineScheduled
			}
		}
		if a.status != want {
			c.Violate("C16", "add-status", fmt.Sprintf("want-%d-got-%d", want, a.status), "Add(%s) at t=%v (deadline %v, exempt=%v) returned status %d, expected %d", simdata.Desc(a.duty), a.callT, dlT, exempt[a.duty], a.status, want)
		}
		if a.status == core.DeadlineScheduled {
			if _, ok := scheduled[a.duty]; !ok {
				scheduled[a.duty] = a.callT
			}
		}
	}
	for d, rs := range recvOf {
		if exempt[d] {
			c.Violate("C16", "exempt-reported", "exempt-duty-on-C", "never-expiring duty %s was reported on C()", simdata.Desc(d))
			continue
		}
		if _, ok := scheduled[d]; !ok {
			c.Violate("C16", "unscheduled-reported", "refused-or-unknown-duty-on-C", "duty %s was reported on C() although no Add of it was accepted", simdata.Desc(d))
			continue
		}
		if len(rs) > 1 {
			c.Violate("C16", "reported-twice", "duty-reported-more-than-once", "duty %s was reported %d times (at %v and %v)", simdata.Desc(d), len(rs), rs[0].t, rs[1].t)
		}
		if rs[0].t < deadline[d] {
			c.Violate("C16", "reported-early", "before-deadline", "duty %s reported at t=%v before its deadline %v", simdata.Desc(d), rs[0].t, deadline[d])
		}
	}
	// A report may be dropped only while the 10-slot output buffer is full, i.e. while 10 reports of
	// duties that were due no later are still waiting to be read: they are then read at or after this
	// duty's deadline. (Necessary condition, stated from the outside; never true with <= 10 duties.)
	dropped := map[core.Duty]bool{}
	for d := range scheduled {
		if len(recvOf[d]) != 0 {
			continue
		}
		waiting := 0
		for d2, rs2 := range recvOf {
			if d2 != d && !exempt[d2] && deadline[d2] <= deadline[d] && rs2[0].t >= deadline[d] {
				waiting++
			}
		}
		if waiting >= 10 {
			dropped[d] = true
			verifrt.Probe("report-dropped-while-buffer-full")
		}
	}
	for d, t := range scheduled {
		if len(recvOf[d]) == 0 && !dropped[d] {
			c.Violate("C16", "never-reported", "scheduled-duty-not-reported", "duty %s accepted at t=%v (deadline %v) was never reported to a consumer that kept reading", simdata.Desc(d), t, deadline[d])
		}
	}
	// order: a duty is not reported before a duty with a strictly earlier deadline that was pending at that time
	for _, r := range recvs {
		for d2, t2 := range scheduled {
			if d2 == r.duty || exempt[r.duty] {
				continue
			}
			if deadline[d2] < deadline[r.duty] && t2 <= r.t {
				// d2 was accepted no later than r was reported: it must have been reported earlier
				rs2 := recvOf[d2]
				// accepted at the very instant of r's report and after it in program order is not "pending at the time"
				if (len(rs2) == 0 && !dropped[d2]) || (len(rs2) > 0 && rs2[0].seq > r.seq) {
					acceptedBefore := false
					for _, a := range adds {
						if a.duty == d2 && a.status == core.DeadlineScheduled && a.seq < r.seq {
							acceptedBefore = true
						}
					}
					if acceptedBefore {
						c.Violate("C16", "order", "later-deadline-reported-first", "duty %s (deadline %v) was reported at t=%v before pending duty %s with the earlier deadline %v", simdata.Desc(r.duty), deadline[r.duty], r.t, simdata.Desc(d2), deadline[d2])
					}
				}
			}
		}
	}
}
