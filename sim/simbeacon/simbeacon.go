//go:build verif

// Package simbeacon is an in-memory beacon node: a stub of eth2wrap.Client that serves spec,
// genesis, domains and attestation data from a seeded chain model and can be scripted to fail.
// No HTTP, no sockets. Unimplemented methods panic (nil embedded interface), which tells the
// harness author that the code under test needs one more endpoint.
package simbeacon

import (
	"context"
	"sync"
	"time"

	eth2api "github.com/attestantio/go-eth2-client/api"
	eth2v1 "github.com/attestantio/go-eth2-client/api/v1"
	eth2spec "github.com/attestantio/go-eth2-client/spec"
	"github.com/attestantio/go-eth2-client/spec/altair"
	eth2p0 "github.com/attestantio/go-eth2-client/spec/phase0"

	"github.com/obolnetwork/charon/app/eth2wrap"
	"github.com/obolnetwork/charon/verifrt"
)

// Chain holds what all nodes' beacon views share.
type Chain struct {
	GenesisTime           time.Time
	SlotDuration          time.Duration
	SlotsPerEpoch         uint64
	ForkVersion           eth2p0.Version
	GenesisValidatorsRoot eth2p0.Root
	// Forks is an optional fork schedule (ascending epochs) on top of ForkVersion, which is the
	// genesis fork version (epoch 0). nil = one fork for all epochs (the behaviour C01 relies on).
	Forks []Fork
}

// Fork is one entry of the fork schedule: Version applies from Epoch on.
type Fork struct {
	Epoch   eth2p0.Epoch
	Version eth2p0.Version
}

// VersionAt is the fork version in force at an epoch (the spec's get_domain rule: the version of the
// latest fork whose activation epoch is <= epoch).
func (c *Chain) VersionAt(epoch eth2p0.Epoch) eth2p0.Version {
	v := c.ForkVersion
	for _, f := range c.Forks {
		if f.Epoch <= epoch {
			v = f.Version
		}
	}
	return v
}

// DomainTypes are the spec's signature domain types.
var DomainTypes = map[string]eth2p0.DomainType{
	"DOMAIN_BEACON_PROPOSER":                {0, 0, 0, 0},
	"DOMAIN_BEACON_ATTESTER":                {1, 0, 0, 0},
	"DOMAIN_RANDAO":                         {2, 0, 0, 0},
	"DOMAIN_DEPOSIT":                        {3, 0, 0, 0},
	"DOMAIN_VOLUNTARY_EXIT":                 {4, 0, 0, 0},
	"DOMAIN_SELECTION_PROOF":                {5, 0, 0, 0},
	"DOMAIN_AGGREGATE_AND_PROOF":            {6, 0, 0, 0},
	"DOMAIN_SYNC_COMMITTEE":                 {7, 0, 0, 0},
	"DOMAIN_SYNC_COMMITTEE_SELECTION_PROOF": {8, 0, 0, 0},
	"DOMAIN_CONTRIBUTION_AND_PROOF":         {9, 0, 0, 0},
	"DOMAIN_APPLICATION_BUILDER":            {0, 0, 0, 1},
}

// ComputeDomain is the consensus spec's compute_domain.
func ComputeDomain(dt eth2p0.DomainType, fork eth2p0.Version, gvr eth2p0.Root) eth2p0.Domain {
	fd := eth2p0.ForkData{CurrentVersion: fork, GenesisValidatorsRoot: gvr}
	root, err := fd.HashTreeRoot()
	if err != nil {
		panic(err)
	}
	var d eth2p0.Domain
	copy(d[:4], dt[:])
	copy(d[4:], root[:28])
	return d
}

// SigningRoot is the spec's compute_signing_root for an object root.
func SigningRoot(objectRoot eth2p0.Root, domain eth2p0.Domain) [32]byte {
	r, err := (&eth2p0.SigningData{ObjectRoot: objectRoot, Domain: domain}).HashTreeRoot()
	if err != nil {
		panic(err)
	}
	return r
}

// Client is one node's beacon node.
type Client struct {
	eth2wrap.Client
	Chain *Chain
	Label string

	// AttData returns this node's view of the attestation data for (slot, committee).
	AttData func(ctx context.Context, slot eth2p0.Slot, comm eth2p0.CommitteeIndex) (*eth2p0.AttestationData, error)

	// Vals returns the active validators (used by the validator API's index -> pubkey lookups).
	Vals func() eth2wrap.ActiveValidators

	// ProposalFn returns this node's view of the block to propose for (slot, randao reveal, graffiti)
	// (produceBlockV3). nil = the endpoint is not served (Proposal panics like any unimplemented method).
	ProposalFn func(ctx context.Context, opts *eth2api.ProposalOpts) (*eth2api.VersionedProposal, error)

	// AggregateAttestationFn returns this node's view of the aggregate attestation for (slot, attestation
	// data root, committee); a nil result with a nil error = "not found" (the response carries nil Data).
	// nil func = the endpoint is not served (AggregateAttestation panics like any unimplemented method).
	AggregateAttestationFn func(ctx context.Context, opts *eth2api.AggregateAttestationOpts) (*eth2spec.VersionedAttestation, error)

	// SyncCommitteeContributionFn returns this node's view of the sync committee contribution for (slot,
	// subcommittee, beacon block root); nil result with nil error = "not found". nil func = not served.
	SyncCommitteeContributionFn func(ctx context.Context, opts *eth2api.SyncCommitteeContributionOpts) (*altair.SyncCommitteeContribution, error)

	// SpecExtra, if set, is merged into the served spec (e.g. TARGET_AGGREGATORS_PER_COMMITTEE,
	// SYNC_COMMITTEE_SIZE); nil = the spec served before this field existed.
	SpecExtra map[string]any

	// Latency, if set, is the simulated response time of an endpoint ("spec", "domain").
	Latency func(method string) time.Duration

	mu    sync.Mutex
	Calls map[string]int
}

func (c *Client) lag(method string) {
	if c.Latency != nil {
		if d := c.Latency(method); d > 0 {
			verifrt.Sleep(d)
		}
	}
}

func (c *Client) count(k string) {
	c.mu.Lock()
	if c.Calls == nil {
		c.Calls = map[string]int{}
	}
	c.Calls[k]++
	c.mu.Unlock()
}

func (c *Client) Address() string { return "sim://" + c.Label }
func (c *Client) IsActive() bool  { return true }
func (c *Client) IsSynced() bool  { return true }

func (c *Client) ClientForAddress(string) eth2wrap.Client { return c }

func (c *Client) SetForkVersion([4]byte) {}

func (c *Client) SetValidatorCache(func(context.Context) (eth2wrap.ActiveValidators, eth2wrap.CompleteValidators, error)) {
}

func (c *Client) Spec(context.Context, *eth2api.SpecOpts) (*eth2api.Response[map[string]any], error) {
	c.count("spec")
	c.lag("spec")
	m := map[string]any{
		"SECONDS_PER_SLOT": c.Chain.SlotDuration,
		"SLOTS_PER_EPOCH":  c.Chain.SlotsPerEpoch,
	}
	for k, v := range DomainTypes {
		m[k] = v
	}
	// the named forks of the spec, consistent with Chain.Forks (at most six are named; a chain with
	// more forks than names publishes none, as a fork schedule it cannot express)
	if names := []string{"ALTAIR", "BELLATRIX", "CAPELLA", "DENEB", "ELECTRA", "FULU"}; len(c.Chain.Forks) > 0 && len(c.Chain.Forks) <= len(names) {
		m["GENESIS_FORK_VERSION"] = c.Chain.ForkVersion
		last := len(c.Chain.Forks) - 1
		for i, name := range names {
			f := c.Chain.Forks[min(i, last)]
			ep := uint64(f.Epoch)
			if i > last {
				ep = 1 << 62 // not scheduled
			}
			m[name+"_FORK_EPOCH"] = ep
			m[name+"_FORK_VERSION"] = f.Version
		}
	}
	for k, v := range c.SpecExtra {
		m[k] = v
	}
	return &eth2api.Response[map[string]any]{Data: m, Metadata: map[string]any{}}, nil
}

func (c *Client) SlotDuration(context.Context) (time.Duration, error) { return c.Chain.SlotDuration, nil }
func (c *Client) SlotsPerEpoch(context.Context) (uint64, error)        { return c.Chain.SlotsPerEpoch, nil }

func (c *Client) Genesis(context.Context, *eth2api.GenesisOpts) (*eth2api.Response[*eth2v1.Genesis], error) {
	c.count("genesis")
	return &eth2api.Response[*eth2v1.Genesis]{Data: &eth2v1.Genesis{
		GenesisTime:           c.Chain.GenesisTime,
		GenesisValidatorsRoot: c.Chain.GenesisValidatorsRoot,
		GenesisForkVersion:    c.Chain.ForkVersion,
	}, Metadata: map[string]any{}}, nil
}

// ForkSchedule serves the chain's fork schedule (genesis fork, then Chain.Forks in order), consistent with
// VersionAt, Spec and Domain.
func (c *Client) ForkSchedule(context.Context, *eth2api.ForkScheduleOpts) (*eth2api.Response[[]*eth2p0.Fork], error) {
	c.count("fork_schedule")
	prev := c.Chain.ForkVersion
	out := []*eth2p0.Fork{{PreviousVersion: prev, CurrentVersion: prev, Epoch: 0}}
	for _, f := range c.Chain.Forks {
		if f.Epoch == 0 {
			out[0].CurrentVersion = f.Version
			prev = f.Version
			continue
		}
		out = append(out, &eth2p0.Fork{PreviousVersion: prev, CurrentVersion: f.Version, Epoch: f.Epoch})
		prev = f.Version
	}
	return &eth2api.Response[[]*eth2p0.Fork]{Data: out, Metadata: map[string]any{}}, nil
}

func (c *Client) Domain(_ context.Context, dt eth2p0.DomainType, epoch eth2p0.Epoch) (eth2p0.Domain, error) {
	c.lag("domain")
	return ComputeDomain(dt, c.Chain.VersionAt(epoch), c.Chain.GenesisValidatorsRoot), nil
}

// ActiveValidators serves the validator cache (index -> group public key) from Vals; nil Vals = none.
func (c *Client) ActiveValidators(context.Context) (eth2wrap.ActiveValidators, error) {
	c.count("active_validators")
	if c.Vals == nil {
		return eth2wrap.ActiveValidators{}, nil
	}
	return c.Vals(), nil
}

func (c *Client) GenesisDomain(_ context.Context, dt eth2p0.DomainType) (eth2p0.Domain, error) {
	return ComputeDomain(dt, c.Chain.ForkVersion, eth2p0.Root{}), nil
}

// Proposal serves the block this node's beacon view produces for the request (ProposalFn).
func (c *Client) Proposal(ctx context.Context, opts *eth2api.ProposalOpts) (*eth2api.Response[*eth2api.VersionedProposal], error) {
	c.count("proposal")
	if c.ProposalFn == nil {
		panic("simbeacon: Proposal called but no ProposalFn installed")
	}
	p, err := c.ProposalFn(ctx, opts)
	if err != nil {
		return nil, err
	}
	return &eth2api.Response[*eth2api.VersionedProposal]{Data: p, Metadata: map[string]any{}}, nil
}

func (c *Client) AttestationData(ctx context.Context, opts *eth2api.AttestationDataOpts) (*eth2api.Response[*eth2p0.AttestationData], error) {
	c.count("attestation_data")
	d, err := c.AttData(ctx, opts.Slot, opts.CommitteeIndex)
	if err != nil {
		return nil, err
	}
	return &eth2api.Response[*eth2p0.AttestationData]{Data: d, Metadata: map[string]any{}}, nil
}

// AggregateAttestation serves the aggregate this node's beacon view holds for the request (AggregateAttestationFn).
func (c *Client) AggregateAttestation(ctx context.Context, opts *eth2api.AggregateAttestationOpts) (*eth2api.Response[*eth2spec.VersionedAttestation], error) {
	c.count("aggregate_attestation")
	if c.AggregateAttestationFn == nil {
		panic("simbeacon: AggregateAttestation called but no AggregateAttestationFn installed")
	}
	a, err := c.AggregateAttestationFn(ctx, opts)
	if err != nil {
		return nil, err
	}
	return &eth2api.Response[*eth2spec.VersionedAttestation]{Data: a, Metadata: map[string]any{}}, nil
}

// SyncCommitteeContribution serves the contribution this node's beacon view holds for the request
// (SyncCommitteeContributionFn).
func (c *Client) SyncCommitteeContribution(ctx context.Context, opts *eth2api.SyncCommitteeContributionOpts) (*eth2api.Response[*altair.SyncCommitteeContribution], error) {
	c.count("sync_committee_contribution")
	if c.SyncCommitteeContributionFn == nil {
		panic("simbeacon: SyncCommitteeContribution called but no SyncCommitteeContributionFn installed")
	}
	d, err := c.SyncCommitteeContributionFn(ctx, opts)
	if err != nil {
		return nil, err
	}
	return &eth2api.Response[*altair.SyncCommitteeContribution]{Data: d, Metadata: map[string]any{}}, nil
}
