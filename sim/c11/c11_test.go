//go:build verif

// Harness for C11: n real FROST participants (runFrostParallel over frostP2P over dkg/bcast over
// p2p.Send/SendReceive) on the simulated network with seeded delivery orders and delays; the
// returned shares are checked for consistency.
package c11

import (
	"bytes"
	"context"
	"fmt"
	"sync"
	"testing"
	"time"

	eth2p0 "github.com/attestantio/go-eth2-client/spec/phase0"
	k1 "github.com/decred/dcrd/dcrec/secp256k1/v4"
	"github.com/libp2p/go-libp2p/core/peer"
	"github.com/libp2p/go-msgio/pbio"

	"github.com/obolnetwork/charon/cluster"
	"github.com/obolnetwork/charon/core"
	"github.com/obolnetwork/charon/dkg"
	"github.com/obolnetwork/charon/dkg/bcast"
	dkgpb "github.com/obolnetwork/charon/dkg/dkgpb/v1"
	"github.com/obolnetwork/charon/dkg/pedersen"
	"github.com/obolnetwork/charon/dkg/share"
	"github.com/obolnetwork/charon/p2p"
	"github.com/obolnetwork/charon/tbls"
	"github.com/obolnetwork/charon/verifrt"
	"google.golang.org/protobuf/proto"

	"verifsim/kernel"
	"verifsim/simnet"
)

func TestSim(t *testing.T) {
	kernel.Main(t, kernel.Harness{Name: "c11", Horizon: 2 * time.Hour, Body: body})
}

func key(i int) *k1.PrivateKey {
	var b [32]byte
	for j := range b {
		b[j] = byte(0x13*(i+1) + j)
	}
	return k1.PrivKeyFromBytes(b[:])
}

func body(c *kernel.Ctx) {
	ctx, cancel := context.WithCancel(context.Background())
	defer cancel()
	ceremonies := 1 + verifrt.Intn("cfg", 2)
	// repeated ceremonies run on the same hosts and network: straggling (re-delivered) messages of an
	// earlier ceremony reach the handlers of the next one and must not influence it
	net := simnet.New()
	for cer := 0; cer < ceremonies; cer++ {
		ceremony(ctx, c, cer, net)
	}
}

// stragglersNext counts long-delayed duplicates sent so far in this run: they may reach a later ceremony.
var stragglersNext int

func ceremony(ctx context.Context, c *kernel.Ctx, cer int, net *simnet.Net) {
	if cer == 0 {
		stragglersNext = 0
	}
	stragglers := stragglersNext      // sent by earlier ceremonies of this run
	n := 3 + verifrt.Intn("cfg", 6)   // 3..8
	t := 2 + verifrt.Intn("cfg", n-1) // 2..n
	if c.Tier != "thorough" && n > 6 {
		n = 3 + n%4
		if t > n {
			t = n
		}
	}
	vals := 1 + verifrt.Intn("cfg", 4)
	algo := "frost"
	if verifrt.Intn("cfg", 3) == 2 || c.Mode == "pedersen" {
		algo = "pedersen"
		if n > 5 {
			n, t = 4, 3
		}
		if vals > 3 {
			vals = 3
		}
	}
	if c.Mode == "frost" {
		algo = "frost"
	}
	// A deviating dealer (FROST, a fifth of the ceremonies with t < n): one member runs the same
	// steps but deals polynomials of another degree than the cluster threshold (its round 1 casts
	// carry t+1, t+2 or t-1 commitments). The ceremony may be refused; if it completes, the result
	// must still be a proper t-of-n key.
	deviant, devT := -1, 0
	if algo == "frost" && t < n && verifrt.Intn("cfg", 5) == 4 {
		deviant = verifrt.Intn("cfg", n)
		devT = []int{t + 1, t + 1, t + 2, t - 1}[verifrt.Intn("cfg", 4)]
		if devT < 1 || devT > n {
			devT = t + 1
		}
		verifrt.Fault("deviating-dealer")
	}
	// A sloppy (faulty) member (FROST, a fifth of the ceremonies): its round 1 peer-to-peer message to ONE
	// other member is incomplete or malformed in a way the receiving callback lets through - the share of one
	// validator is missing, duplicated, or replaced by a second copy of another validator's share. The
	// ceremony may abort at any node (an error or a panic of that node's ceremony goroutine both count as
	// "this node did not complete"); if every node completes, the result must be a consistent t-of-n key.
	sloppy, victim, sloppyVal, sloppyKind := -1, -1, 0, 0
	if algo == "frost" && deviant < 0 && verifrt.Intn("cfg", 5) == 3 {
		sloppy = verifrt.Intn("cfg", n)
		victim = (sloppy + 1 + verifrt.Intn("cfg", n-1)) % n
		sloppyVal = verifrt.Intn("cfg", vals)
		sloppyKind = verifrt.Intn("cfg", 6) // 3, 4: its round 2 / round 1 BROADCAST carries an extra cast; 5: it publishes a public share of an unrelated key (see below)
	}
	// A slow member (a quarter of the ceremonies): everything it sends takes up to slowMax (seconds, i.e.
	// a sizeable fraction of a Pedersen phase; FROST has no phases) - late but never lost. Nodes then run
	// the rounds / phases visibly out of step. A ceremony may time out; if it completes it must be consistent.
	slow, slowMax := -1, 0
	var slowID peer.ID
	// Pedersen is a synchronous (time-phased) protocol: phase 10 s. Its "slow but timely" fault is structured
	// so that the unchanged protocol's premise holds by construction - every bundle arrives well inside the
	// receiver's phase: all validator-public-key-share messages (the exchange between two validators' runs)
	// take exDelay..exDelay+300 ms (<= 9 s, the same for every node, so the nodes stay in step; the collect
	// timeout of that exchange is 6 phases), and every deal / response / justification bundle takes up to
	// bundleMax (<= 2.5 s, a quarter of a phase: a first version with bundles up to 6 s produced, on the
	// unchanged tree, timed-out exchanges and ceremonies that succeeded with different group keys - with the
	// protocol's fast-sync mode the nodes' runs drift apart by up to one bundle latency per step, so the
	// premise needs a wide margin).
	exDelay, bundleMax := 0, 0
	if verifrt.Intn("cfg", 4) == 3 {
		if algo == "pedersen" {
			exDelay = []int{500, 4000, 8000, 9000}[verifrt.Intn("cfg", 4)]
			bundleMax = []int{300, 1000, 2000, 2500}[verifrt.Intn("cfg", 4)]
			verifrt.Fault("slow-but-timely-links")
		} else {
			slow = verifrt.Intn("cfg", n)
			slowMax = []int{1500, 4000, 7000, 9500}[verifrt.Intn("cfg", 4)]
			verifrt.Fault("slow-member")
		}
	}
	maxDelay := 1 + verifrt.Intn("cfg", 200)
	dupPct := []int{0, 10}[verifrt.Intn("cfg", 2)]
	c.Set(fmt.Sprintf("ceremony%d", cer), fmt.Sprintf("%s n=%d t=%d validators=%d maxDelayMs=%d dup%%=%d", algo, n, t, vals, maxDelay, dupPct))
	verifrt.Probe("algo:" + algo)
	verifrt.Note("ceremony %d: %s n=%d t=%d validators=%d maxDelayMs=%d dup%%=%d slow=%d/%dms exchange=%dms bundles<=%dms sloppy=%d deviant=%d", cer, algo, n, t, vals, maxDelay, dupPct, slow, slowMax, exDelay, bundleMax, sloppy, deviant)

	net.Fate = func(e *simnet.Envelope) simnet.Fate {
		f := simnet.Fate{Delay: time.Duration(verifrt.Intn("n", maxDelay)) * time.Millisecond}
		if slow >= 0 && e.From == slowID {
			f.Delay = time.Duration(verifrt.Intn("n", slowMax)) * time.Millisecond
		}
		if bundleMax > 0 && !e.Response {
			switch string(e.Proto) {
			case "/charon/dkg/pedersen/1.0.0/val_pubkey_share":
				f.Delay = time.Duration(exDelay+verifrt.Intn("n", 300)) * time.Millisecond
			case "/charon/dkg/pedersen/1.0.0/deal_bundle", "/charon/dkg/pedersen/1.0.0/resp_bundle", "/charon/dkg/pedersen/1.0.0/just_bundle":
				f.Delay = time.Duration(verifrt.Intn("n", bundleMax)) * time.Millisecond
			}
		}
		if !e.Response && dupPct > 0 && verifrt.Intn("n", 100) >= 100-dupPct {
			f.Duplicate = true
			f.DupDelay = time.Duration(verifrt.Intn("n", 3*maxDelay)) * time.Millisecond
			if verifrt.Intn("n", 4) == 3 {
				f.DupDelay = time.Duration(1+verifrt.Intn("n", 90)) * time.Second // a straggler that may outlive this ceremony
				verifrt.Fault("straggler-duplicate")
			}
			stragglersNext++ // any re-delivery may arrive after this ceremony has ended
			verifrt.Fault("duplicate")
		}
		if f.Delay > 0 {
			verifrt.Fault("delay")
		}
		return f
	}
	net.Tap = nil
	var ids []peer.ID
	peers := map[peer.ID]cluster.NodeIdx{}
	for i := 0; i < n; i++ {
		id, err := p2p.PeerIDFromKey(key(i).PubKey())
		if err != nil {
			panic(err)
		}
		ids = append(ids, id)
		peers[id] = cluster.NodeIdx{PeerIdx: i, ShareIdx: i + 1}
		if i == slow {
			slowID = id
		}
	}
	if sloppy >= 0 && sloppyKind < 3 {
		net.Tap = func(e *simnet.Envelope) {
			if e.Response || string(e.Proto) != "/charon/dkg/frost/2.0.0/round1/p2p" || e.From != ids[sloppy] || e.To != ids[victim] {
				return
			}
			var m dkgpb.FrostRound1P2P
			if err := pbio.NewDelimitedReader(bytes.NewReader(e.Payload), 128<<20).ReadMsg(&m); err != nil {
				panic("c11 harness: cannot decode round 1 p2p message: " + err.Error())
			}
			var out []*dkgpb.FrostRound1ShamirShare
			for _, sh := range m.GetShares() {
				if int(sh.GetKey().GetValIdx()) != sloppyVal {
					out = append(out, sh)
					continue
				}
				switch sloppyKind {
				case 0: // missing
				case 1: // present twice
					out = append(out, sh, sh)
				default: // replaced by a second copy of another validator's share (if there is one)
					for _, o := range m.GetShares() {
						if o.GetKey().GetValIdx() != sh.GetKey().GetValIdx() {
							out = append(out, o)
							break
						}
					}
				}
			}
			m.Shares = out
			var w bytes.Buffer
			if err := pbio.NewDelimitedWriter(&w).WriteMsg(&m); err != nil {
				panic(err)
			}
			e.Payload = w.Bytes()
			verifrt.Fault([]string{"sloppy-peer:share-missing", "sloppy-peer:share-twice", "sloppy-peer:share-of-other-validator"}[sloppyKind])
		}
	}
	session := []byte(fmt.Sprintf("definition-hash-%d", cer))
	results := make([][]share.Share, n)
	errs := make([]error, n)
	// All hosts and handlers are registered before anybody sends (the real ceremony synchronises
	// on the sync protocol first).
	type node struct {
		h     *simnet.Host
		tp    any
		pcfg  *pedersen.Config
		board *pedersen.Board
	}
	nodes := make([]node, n)
	for i := 0; i < n; i++ {
		h := net.NewHost(ids[i], fmt.Sprintf("c%dn%d", cer, i))
		caster := bcast.New(h, ids, key(i), session)
		if algo == "pedersen" {
			prev := verifrt.Node()
			verifrt.SetNode(fmt.Sprintf("c%dn%d", cer, i))
			pcfg := pedersen.NewConfig(ids[i], peers, t, session, 10*time.Second, nil)
			nodes[i] = node{h: h, pcfg: pcfg, board: pedersen.NewBoard(ctx, h, pcfg, caster)}
			verifrt.SetNode(prev)
			continue
		}
		tp, err := dkg.VerifFrostTransport(h, peers, caster, t, vals)
		if err != nil {
			panic(err)
		}
		if i == sloppy && sloppyKind >= 3 {
			liarPub, _ := tbls.SecretToPublicKey(liarSecret)
			// The faulty member's round 2 (kind 3) or round 1 (kind 4) broadcast - really signed by every member
			// through the broadcast protocol - carries, after its own casts, one more cast for validator sloppyVal
			// that names the VICTIM as its source (with the faulty member's own values). A member must never take
			// another member's contribution from this message.
			dkg.VerifWrapBroadcast(tp, func(real bcast.BroadcastFunc) bcast.BroadcastFunc {
				return func(ctx context.Context, msgID string, msg proto.Message) error {
					switch m := msg.(type) {
					case *dkgpb.FrostRound2Casts:
						if sloppyKind == 5 {
							// kind 5: the member publishes, as its own public share of every validator, the public key
							// of an unrelated secret. Key generation takes published shares on faith; the ceremony's
							// completion stage (deposit data and lock hash signatures, below) is what must refuse it.
							for _, cst := range m.GetCasts() {
								cst.VkShare = append([]byte(nil), liarPub[:]...)
							}
							verifrt.Fault("sloppy-peer:publishes-public-share-of-unrelated-key")
						}
						if sloppyKind == 3 {
							for _, cst := range m.GetCasts() {
								if int(cst.GetKey().GetValIdx()) == sloppyVal {
									extra := proto.Clone(cst).(*dkgpb.FrostRound2Cast)
									extra.Key.SourceId = uint32(victim + 1)
									m.Casts = append(m.Casts, extra)
									verifrt.Fault("sloppy-peer:round2-cast-in-the-victims-name")
									break
								}
							}
						}
					case *dkgpb.FrostRound1Casts:
						if sloppyKind == 4 {
							for _, cst := range m.GetCasts() {
								if int(cst.GetKey().GetValIdx()) == sloppyVal {
									extra := proto.Clone(cst).(*dkgpb.FrostRound1Cast)
									extra.Key.SourceId = uint32(victim + 1)
									m.Casts = append(m.Casts, extra)
									verifrt.Fault("sloppy-peer:round1-cast-in-the-victims-name")
									break
								}
							}
						}
					}
					return real(ctx, msgID, msg)
				}
			})
		}
		nodes[i] = node{h: h, tp: tp}
	}
	var wg sync.WaitGroup
	for i := 0; i < n; i++ {
		me := i
		wg.Add(1)
		verifrt.GoNode(fmt.Sprintf("c%dn%d", cer, me), func() {
			defer wg.Done()
			defer func() {
				// a panic of the ceremony goroutine ends this node's ceremony (in production: the process)
				if r := recover(); r != nil {
					errs[me] = fmt.Errorf("ceremony goroutine panicked: %v", r)
					verifrt.Probe("node-ceremony-panicked")
				}
			}()
			verifrt.Sleep(time.Duration(verifrt.Intn("w", 100)) * time.Millisecond) // nodes start the rounds at different times
			cctx, ccancel := context.WithTimeout(ctx, 10*time.Minute)
			defer ccancel()
			if algo == "pedersen" {
				results[me], errs[me] = pedersen.RunDKG(cctx, nodes[me].pcfg, nodes[me].board, vals)
			} else {
				myT := t
				if me == deviant {
					myT = devT
				}
				results[me], errs[me] = dkg.VerifRunFrost(cctx, nodes[me].tp, vals, n, myT, me+1, "dkg-ctx")
			}
			verifrt.Note("node %d done err=%v", me, errs[me])
		})
	}
	verifrt.WGWait(&wg)
	for i, err := range errs {
		if err != nil {
			if deviant >= 0 {
				verifrt.Probe("ceremony-refused-with-deviating-dealer")
				return
			}
			if sloppy >= 0 {
				verifrt.Probe("ceremony-aborted-with-sloppy-peer")
				return
			}
			if slow >= 0 {
				verifrt.Probe("ceremony-aborted-with-slow-member:" + algo)
				return
			}
			if bundleMax > 0 {
				// an abort is a legitimate outcome (observed on the unchanged tree: a deal that reaches a
				// node whose protocol run is not reading yet is dropped when the handler's context ends,
				// and with t = n the run then aborts with "only n-1/n valid deals")
				verifrt.Probe("ceremony-aborted-with-slow-but-timely-links")
				return
			}
			if stragglers > 0 {
				// messages of an earlier ceremony reached this one: refusing to complete is a legitimate
				// outcome (the statement is about successful ceremonies); only a ceremony that nothing
				// disturbed must succeed
				verifrt.Probe("ceremony-aborted-after-stale-messages")
				return
			}
			c.Violate("C11", "ceremony-failed", "fault-free-ceremony-returned-error", "ceremony n=%d t=%d validators=%d: node %d returned %v", n, t, vals, i, err)
			return
		}
	}
	c.Progress()
	if deviant >= 0 {
		verifrt.Probe("ceremony-completed-with-deviating-dealer")
	}
	if sloppy >= 0 {
		verifrt.Probe("ceremony-completed-with-sloppy-peer")
	}
	if slow >= 0 {
		verifrt.Probe("ceremony-completed-with-slow-member:" + algo)
	}
	if bundleMax > 0 {
		verifrt.Probe("ceremony-completed-with-slow-but-timely-links")
	}
	liar := -1
	if sloppy >= 0 && sloppyKind == 5 {
		liar = sloppy
	}
	if liar >= 0 || bundleMax > 0 || slow >= 0 || sloppy >= 0 || deviant >= 0 || verifrt.Intn("w", 3) == 2 {
		// The ceremony's completion stage (dkg.Run after key generation), with the repository's own functions: every
		// node signs the deposit messages and the lock hash with its new shares, and every node checks every partial
		// signature against the public shares IT holds before aggregating. A ceremony is successful only if this
		// stage succeeds at every honest node. The lying member signs the deposit messages with its real share (so
		// that the aggregate is a valid group signature) and the lock hash with the unrelated key it published.
		verifrt.Probe("completion-stage")
		if err := completionStage(n, vals, results, liar); err != nil {
			if liar >= 0 {
				verifrt.Probe("ceremony-refused-at-completion-stage-with-lying-member")
				return
			}
			if bundleMax > 0 || slow >= 0 || sloppy >= 0 || deviant >= 0 || stragglers > 0 {
				// key generation returned at every node, but the nodes cannot complete the ceremony with what they
				// hold (dkg.Run fails here too): not a successful ceremony. Seen on the unchanged tree with Pedersen
				// under slow-but-timely links: the runs drift apart and nodes end with different group keys.
				verifrt.Probe("ceremony-refused-at-completion-stage-after-faults")
				return
			}
			c.Violate("C11", "ceremony-failed", "fault-free-completion-stage-returned-error", "ceremony n=%d t=%d validators=%d: %v", n, t, vals, err)
			return
		}
		if liar >= 0 {
			verifrt.Probe("ceremony-completed-with-lying-member")
		}
	}
	checkShares(c, n, t, vals, results, liar)
}

var liarSecret = tbls.PrivateKey{31: 7, 30: 1, 5: 9}

// completionStage restates dkg.Run's steps after key generation over the nodes' results: signDepositMsgs /
// aggDepositData, then signLockHash / aggLockHashSig, at every honest node.
func completionStage(n, vals int, results [][]share.Share, liar int) error {
	const network = "mainnet"
	var addrs []string
	for v := 0; v < vals; v++ {
		addrs = append(addrs, fmt.Sprintf("0x%040x", 0xabc0+v))
	}
	lockHash := []byte("c11-lock-hash-0123456789abcdef..")
	depSets, lockSets := make([]core.ParSignedDataSet, n), make([]core.ParSignedDataSet, n)
	msgs := make([]map[core.PubKey]eth2p0.DepositMessage, n)
	for j := 0; j < n; j++ {
		var err error
		depSets[j], msgs[j], err = dkg.VerifSignDepositMsgs(results[j], j+1, addrs, network, eth2p0.Gwei(32_000_000_000))
		if err != nil {
			return fmt.Errorf("node %d sign deposit messages: %w", j, err)
		}
		lockShares := results[j]
		if j == liar {
			lockShares = append([]share.Share(nil), results[j]...)
			for k := range lockShares {
				lockShares[k].SecretShare = liarSecret
			}
		}
		if lockSets[j], err = dkg.VerifSignLockHash(j+1, lockShares, lockHash); err != nil {
			return fmt.Errorf("node %d sign lock hash: %w", j, err)
		}
	}
	for h := 0; h < n; h++ {
		if h == liar {
			continue
		}
		dep, lock := map[core.PubKey][]core.ParSignedData{}, map[core.PubKey][]core.ParSignedData{}
		shareMap := map[core.PubKey]share.Share{}
		for _, sh := range results[h] {
			pk, err := core.PubKeyFromBytes(sh.PubKey[:])
			if err != nil {
				return err
			}
			shareMap[pk] = sh
		}
		for j := 0; j < n; j++ {
			for _, sh := range results[h] { // in the order of node h's validators: harness code iterates no map
				pk, _ := core.PubKeyFromBytes(sh.PubKey[:])
				dps, ok1 := depSets[j][pk]
				lps, ok2 := lockSets[j][pk]
				if !ok1 || !ok2 {
					// dkg.Run's exchange waits for every member's partial signature for every validator key
					return fmt.Errorf("node %d waits for ever for node %d's partial signatures for validator key %x, which node %d does not hold", h, j, sh.PubKey[:6], j)
				}
				dep[pk] = append(dep[pk], dps)
				lock[pk] = append(lock[pk], lps)
			}
		}
		if _, err := dkg.VerifAggDepositData(dep, results[h], msgs[h], network); err != nil {
			return fmt.Errorf("node %d aggregate deposit data: %w", h, err)
		}
		if err := dkg.VerifAggLockHashSig(lock, shareMap, lockHash); err != nil {
			return fmt.Errorf("node %d aggregate lock hash signatures: %w", h, err)
		}
	}
	return nil
}

// faulty >= 0: that member lied about its own public share; what the HONEST members hold is judged (its own view and
// its secret share are its own business).
func checkShares(c *kernel.Ctx, n, t, vals int, results [][]share.Share, faulty int) {
	for i := range results {
		if len(results[i]) != vals {
			c.Violate("C11", "share-count", "wrong-number-of-validators", "node %d returned %d shares for %d validators", i, len(results[i]), vals)
			return
		}
	}
	msg := []byte("c11 test message")
	for v := 0; v < vals; v++ {
		ref := results[0][v]
		if faulty == 0 {
			ref = results[1][v]
		}
		if len(ref.PublicShares) != n {
			c.Violate("C11", "public-shares", "public-share-count", "validator %d: node 0 holds %d public shares, want %d", v, len(ref.PublicShares), n)
		}
		secrets := map[int]tbls.PrivateKey{}
		for i := 0; i < n; i++ {
			s := results[i][v]
			if i == faulty {
				secrets[i+1] = s.SecretShare
				continue
			}
			if s.PubKey != ref.PubKey {
				c.Violate("C11", "group-key", "nodes-disagree-on-group-public-key", "validator %d: node %d group key %x differs from node 0's %x", v, i, s.PubKey[:8], ref.PubKey[:8])
			}
			if len(s.PublicShares) != len(ref.PublicShares) {
				c.Violate("C11", "public-shares", "nodes-disagree-on-public-shares", "validator %d: node %d holds %d public shares, node 0 %d", v, i, len(s.PublicShares), len(ref.PublicShares))
			}
			for idx, ps := range ref.PublicShares {
				if s.PublicShares[idx] != ps {
					c.Violate("C11", "public-shares", "nodes-disagree-on-public-shares", "validator %d: node %d public share %d differs from node 0's", v, i, idx)
				}
			}
			pub, err := tbls.SecretToPublicKey(s.SecretShare)
			if err != nil || pub != ref.PublicShares[i+1] {
				c.Violate("C11", "secret-share", "secret-share-does-not-match-published-share", "validator %d: node %d's secret share does not match public share %d (err=%v)", v, i, i+1, err)
			}
			secrets[i+1] = s.SecretShare
		}
		// every t-subset (all for n <= 7, else a sample of 64) reconstructs the group key and signs validly
		subsets := combos(n, t)
		if len(subsets) > 64 && n > 7 {
			subsets = subsets[:64]
		}
		for _, sub := range subsets {
			pubs := map[int]tbls.PublicKey{}
			sigs := map[int]tbls.Signature{}
			for _, idx := range sub {
				pubs[idx] = ref.PublicShares[idx]
				sg, err := tbls.Sign(secrets[idx], msg)
				if err != nil {
					c.Violate("C11", "sign", "partial-sign-failed", "validator %d share %d: %v", v, idx, err)
					return
				}
				sigs[idx] = sg
			}
			rec, err := tbls.RecoverPubkey(pubs)
			if err != nil || rec != ref.PubKey {
				c.Violate("C11", "recover-pubkey", "t-public-shares-do-not-reconstruct-group-key", "validator %d: public shares %v reconstruct %x, group key %x (err=%v)", v, sub, rec[:8], ref.PubKey[:8], err)
			}
			agg, err := tbls.ThresholdAggregate(sigs)
			if err != nil {
				c.Violate("C11", "aggregate", "threshold-aggregate-failed", "validator %d shares %v: %v", v, sub, err)
				continue
			}
			if err := tbls.Verify(ref.PubKey, msg, agg); err != nil {
				c.Violate("C11", "aggregate", "combined-signature-invalid-under-group-key", "validator %d: signature combined from shares %v does not verify under the group key: %v", v, sub, err)
			}
		}
	}
}

func combos(n, k int) [][]int {
	var out [][]int
	var rec func(start int, cur []int)
	rec = func(start int, cur []int) {
		if len(cur) == k {
			out = append(out, append([]int(nil), cur...))
			return
		}
		for i := start; i <= n; i++ {
			rec(i+1, append(cur, i))
		}
	}
	rec(1, nil)
	return out
}
