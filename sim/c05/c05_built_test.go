//go:build verif

// Harness-built authentic messages (the harness holds every member's p2p key) and the script that
// plays them, and altered copies of them, against a LIVE consensus instance of the target:
//   - DECIDED justified by a quorum of COMMITs (charon never puts one on the wire: an instance stops
//     when it decides; core/qbft accepts one at any time),
//   - PRE-PREPARE of round >= 2 justified by ROUND-CHANGE (null) or ROUND-CHANGE+PREPARE (prepared),
//   - PREPARE / COMMIT of the silent members.
// Against the live instance "influence" is observed as: a new outgoing consensus envelope of the
// target, a decision, or a record in the instance's sniffer.
package c05

import (
	"fmt"
	"strings"
	"time"

	eth2p0 "github.com/attestantio/go-eth2-client/spec/phase0"
	"github.com/libp2p/go-libp2p/core/peer"
	"google.golang.org/protobuf/proto"
	"google.golang.org/protobuf/types/known/anypb"

	"github.com/obolnetwork/charon/core"
	qbftcons "github.com/obolnetwork/charon/core/consensus/qbft"
	pbv1 "github.com/obolnetwork/charon/core/corepb/v1"
	"github.com/obolnetwork/charon/verifrt"

	"verifsim/cluster"
	"verifsim/kernel"
)

var zero32 [32]byte

// builder signs messages as cluster members do (the repository's own signMsg via the overlay export).
type builder struct {
	cl   *cluster.Cluster
	n, q int
	skip int // the target: never used as a signer
}

func (b *builder) mk(typ int64, d core.Duty, src int, round int64, vh [32]byte, pr int64, pvh [32]byte) *pbv1.QBFTMsg {
	// field layout as createMsg produces it: absent hashes are 32 zero bytes
	m := &pbv1.QBFTMsg{Type: typ, Duty: core.DutyToProto(d), PeerIdx: int64(src), Round: round, ValueHash: vh[:], PreparedRound: pr, PreparedValueHash: pvh[:]}
	s, err := qbftcons.VerifSignMsg(m, b.cl.Keys[src])
	if err != nil {
		panic(err)
	}
	return s
}

// members returns the first k member indices other than the target.
func (b *builder) members(k int) []int {
	var out []int
	for i := 0; i < b.n && len(out) < k; i++ {
		if i != b.skip {
			out = append(out, i)
		}
	}
	return out
}

func (b *builder) leader(d core.Duty, round int64) int {
	return int((int64(d.Slot) + int64(d.Type) + round) % int64(b.n))
}

func (b *builder) simple(typ int64, d core.Duty, src int, round int64, vh [32]byte, val *anypb.Any) *pbv1.QBFTConsensusMsg {
	return &pbv1.QBFTConsensusMsg{Msg: b.mk(typ, d, src, round, vh, 0, zero32), Values: []*anypb.Any{val}}
}

// prePrepare of the round's leader; round >= 2 carries a quorum of ROUND-CHANGEs, null or (prepared)
// with prepared round-1/value plus the quorum of PREPAREs of round-1 that justifies them.
func (b *builder) prePrepare(d core.Duty, round int64, vh [32]byte, val *anypb.Any, prepared bool) *pbv1.QBFTConsensusMsg {
	out := &pbv1.QBFTConsensusMsg{Msg: b.mk(1, d, b.leader(d, round), round, vh, 0, zero32), Values: []*anypb.Any{val}}
	if round == 1 {
		return out
	}
	for _, s := range b.members(b.q) {
		if prepared {
			out.Justification = append(out.Justification, b.mk(4, d, s, round, zero32, round-1, vh))
		} else {
			out.Justification = append(out.Justification, b.mk(4, d, s, round, zero32, 0, zero32))
		}
	}
	if prepared {
		for _, s := range b.members(b.q) {
			out.Justification = append(out.Justification, b.mk(2, d, s, round-1, vh, 0, zero32))
		}
	}
	return out
}

// decided wraps COMMITs (same round and value) as the justification of a DECIDED message of signer.
func (b *builder) decided(d core.Duty, signer int, round int64, vh [32]byte, commits []*pbv1.QBFTMsg, vals []*anypb.Any) *pbv1.QBFTConsensusMsg {
	out := &pbv1.QBFTConsensusMsg{Msg: b.mk(5, d, signer, round, vh, 0, zero32), Values: vals}
	for _, cm := range commits {
		out.Justification = append(out.Justification, proto.Clone(cm).(*pbv1.QBFTMsg))
	}
	return out
}

type commitQuorum struct {
	round   int64
	vh      [32]byte
	commits []*pbv1.QBFTMsg
	vals    []*anypb.Any
}

// findCommitQuorum looks in the harvested corpus (in harvest order) for genuine COMMIT messages of
// one duty, round and value from at least q distinct members.
func findCommitQuorum(corpus map[string]*pbv1.QBFTConsensusMsg, keys []string, d core.Duty, q int) *commitQuorum {
	type gk struct {
		round int64
		vh    [32]byte
	}
	groups := map[gk]*commitQuorum{}
	var order []gk
	for _, k := range keys {
		m := corpus[k]
		if m.GetMsg().GetType() != 3 || core.DutyFromProto(m.GetMsg().GetDuty()) != d || len(m.GetMsg().GetValueHash()) != 32 {
			continue
		}
		g := gk{m.GetMsg().GetRound(), [32]byte(m.GetMsg().GetValueHash())}
		cq := groups[g]
		if cq == nil {
			cq = &commitQuorum{round: g.round, vh: g.vh, vals: m.GetValues()}
			groups[g] = cq
			order = append(order, g)
		}
		dup := false
		for _, have := range cq.commits {
			if have.GetPeerIdx() == m.GetMsg().GetPeerIdx() {
				dup = true
			}
		}
		if !dup {
			cq.commits = append(cq.commits, m.GetMsg())
		}
	}
	var full []*commitQuorum
	for _, g := range order {
		if len(groups[g].commits) >= q {
			full = append(full, groups[g])
		}
	}
	if len(full) == 0 {
		return nil
	}
	cq := full[verifrt.Intn("w", len(full))]
	cq.commits = cq.commits[:q]
	return cq
}

// propSet is the attester proposal of a beacon view for a duty (what a member's fetcher proposes).
func propSet(cl *cluster.Cluster, d core.Duty, view int) *pbv1.UnsignedDataSet {
	set := core.UnsignedDataSet{}
	for pk, def := range cl.DefSet(d.Slot) {
		ad := def.(core.AttesterDefinition)
		set[pk] = core.AttestationData{Data: *cl.AttData(view, eth2p0.Slot(d.Slot), ad.CommitteeIndex), Duty: ad.AttesterDuty}
	}
	pb, err := core.UnsignedDataSetToProto(set)
	if err != nil {
		panic(err)
	}
	return pb
}

// sample picks about k alterations spread over the list, half of them among those whose class has
// the given prefix (when there are any).
func sample(alts []alt, k int, prefer string) []alt {
	var pref, rest []alt
	for _, a := range alts {
		if prefer != "" && strings.HasPrefix(a.class, prefer) {
			pref = append(pref, a)
		} else {
			rest = append(rest, a)
		}
	}
	pick := func(from []alt, k int) []alt {
		if len(from) == 0 || k <= 0 {
			return nil
		}
		if k > len(from) {
			k = len(from)
		}
		start := verifrt.Intn("a", len(from))
		var out []alt
		for i := 0; i < k; i++ {
			out = append(out, from[(start+i*len(from)/k)%len(from)])
		}
		return out
	}
	if len(pref) == 0 {
		return pick(rest, k)
	}
	return append(pick(pref, (k+1)/2), pick(rest, k/2)...)
}

// pickConcurrent draws the altered copy delivered at the same instant as its original: half of the
// draws among alterations of the top-level message's own fields (same signature bytes as the original).
func pickConcurrent(alts []alt) alt {
	return sample(alts, 1, map[int]string{0: "top/", 1: "\x00none"}[verifrt.Intn("a", 2)])[0]
}

type inj struct {
	from peer.ID
	raw  []byte
}

// env is what the live-instance script needs from body.
type env struct {
	c         *kernel.Ctx
	cl        *cluster.Cluster
	n, q      int
	target    int
	tn        *cluster.Node
	slot      uint64
	bld       *builder
	other     *pbv1.QBFTConsensusMsg // authentic message of another duty
	deliverN  func(items []inj)
	outCount  func() int
	outSince  func(i int) []*pbv1.QBFTConsensusMsg
	decidedBy func(d core.Duty, node int) []*pbv1.UnsignedDataSet
}

func rawOf(a alt) []byte {
	if a.raw != nil {
		return a.raw
	}
	return frame(a.msg)
}

// liveScript: the target runs a real instance of a third duty alone (all other members are silent
// and played by the harness with their keys). Authentic messages drive it through PRE-PREPARE ->
// PREPARE -> COMMIT -> DECIDED; before each authentic step a sample of altered copies is delivered.
//
// Oracles:
//   - twin interval: after an altered message (handler returned, then a fixed simulated interval) the
//     target has sent NO new consensus envelope and has not decided; the same-length interval before
//     the first delivery is quiet as well (premise). Round timers of the instance only fire on whole
//     seconds after the duty start, all deliveries happen strictly between them.
//   - control: each authentic step causes the protocol's reaction (PREPARE, COMMIT, decision on the
//     exact value).
//   - content: the instance's own record of consumed messages (sniffer) holds, besides the target's
//     own messages, exactly the authentic messages delivered, each at most once.
func liveScript(e *env) {
	c, cl, b := e.c, e.cl, e.bld
	const settle = 5 * time.Millisecond
	d3 := core.NewAttesterDuty(e.slot + 2)
	start := cl.SlotStart(d3.Slot).Add(cl.Cfg.SlotDuration / 3)
	if time.Until(start) < 0 {
		verifrt.Probe("live:skipped-late")
		return
	}
	tn := e.tn
	sniffed0 := len(tn.Sniffed)
	verifrt.GoNode(tn.Tag, func() {
		verifrt.Sleep(time.Until(start))
		tn.Sched.Trigger(tn.Ctx, d3, cl.DefSet(d3.Slot))
	})
	verifrt.Sleep(time.Until(start.Add(50 * time.Millisecond)))

	// a proposal the target did not fetch itself: the decided value provably came over the wire
	vpb := propSet(cl, d3, 1-e.target%2)
	val, err := anypb.New(vpb)
	if err != nil {
		panic(err)
	}
	vh := valueHash(vpb)
	r0 := int64(1 + verifrt.Intn("w", 2))
	prepared := r0 == 2 && verifrt.Intn("w", 2) == 1
	pos := []int{0, 1, 2, 0}[verifrt.Intn("w", 4)] // where the DECIDED arrives: 0 after the COMMIT phase, 1 after PRE-PREPARE, 2 first
	shape := fmt.Sprintf("r%d", r0)
	if r0 == 2 {
		shape += map[bool]string{false: "-null", true: "-prepared"}[prepared]
	}

	limit := start.Add(950 * time.Millisecond) // next round-timer event of the instance
	var controls []*pbv1.QBFTConsensusMsg
	src := func(m *pbv1.QBFTConsensusMsg) peer.ID { return cl.PeerIDs[m.GetMsg().GetPeerIdx()] }
	decidedN := func() int { return len(e.decidedBy(d3, e.target)) }

	// premise: the target is quiescent
	o0 := e.outCount()
	verifrt.Sleep(settle)
	if e.outCount() != o0 || decidedN() != 0 {
		verifrt.Probe("live:not-quiescent")
		return
	}
	verifrt.Probe("twin:quiet-interval-ok")

	inWindow := func() bool {
		if time.Now().Add(20 * time.Millisecond).After(limit) {
			verifrt.Probe("live:window-exceeded")
			return false
		}
		return true
	}
	// altered delivers altered messages (alone, or at the same instant as authentic ones of other duties)
	// and requires the twin interval to be as quiet as the premise interval.
	altered := func(step string, a alt, with ...inj) {
		if !inWindow() {
			return
		}
		o, dn := e.outCount(), decidedN()
		verifrt.Fault("alt")
		c.State(hashStr("live|" + step + "|" + a.class))
		e.deliverN(append([]inj{{cl.PeerIDs[0], rawOf(a)}}, with...))
		verifrt.Sleep(settle)
		verifrt.Probe("twin:altered-checked")
		if out := e.outSince(o); len(out) > 0 {
			c.Violate("C05", "altered-caused-output", "live/"+step+"/"+a.class, "after an altered %s (%s) the target sent %d new consensus envelope(s) (first: type %d round %d) although the same interval without it is quiet", step, a.class, len(out), out[0].GetMsg().GetType(), out[0].GetMsg().GetRound())
		}
		if decidedN() != dn {
			c.Violate("C05", "altered-caused-decision", "live/"+step+"/"+a.class, "an altered %s (%s) made the target decide", step, a.class)
		}
	}
	// authentic delivers an authentic message and returns the envelopes the target sent in reaction.
	authentic := func(m *pbv1.QBFTConsensusMsg, with ...inj) []*pbv1.QBFTConsensusMsg {
		o := e.outCount()
		controls = append(controls, m)
		e.deliverN(append([]inj{{src(m), frame(m)}}, with...))
		verifrt.Sleep(settle)
		return e.outSince(o)
	}
	reacted := func(out []*pbv1.QBFTConsensusMsg, typ int64) bool {
		for _, m := range out {
			q := m.GetMsg()
			if q.GetType() == typ && q.GetPeerIdx() == int64(e.target) && q.GetRound() == r0 && string(q.GetValueHash()) == string(vh[:]) && core.DutyFromProto(q.GetDuty()) == d3 {
				return true
			}
		}
		return false
	}
	otherInj := func() []inj {
		if e.other == nil {
			return nil
		}
		return []inj{{src(e.other), frame(e.other)}}
	}
	otherDuty := core.Duty{}
	if e.other != nil {
		otherDuty = core.DutyFromProto(e.other.GetMsg().GetDuty())
	}

	voters := b.members(b.q) // q members other than the target
	var commits []*pbv1.QBFTMsg
	for _, s := range voters {
		commits = append(commits, b.mk(3, d3, s, r0, vh, 0, zero32))
	}
	dec := b.decided(d3, voters[verifrt.Intn("w", len(voters))], r0, vh, commits, []*anypb.Any{val})

	done := false
	decidedStep := func() {
		for _, a := range sample(alterations(cl, dec, e.other, e.n), 10, "just") {
			altered("decided", a)
		}
		// the authentic DECIDED at the same instant as an altered copy of it and an authentic message of another duty
		alts := alterations(cl, dec, e.other, e.n)
		a := pickConcurrent(alts)
		q0 := tn.Cons.VerifQueuedFor(otherDuty)
		verifrt.Probe("concurrent:live-decided")
		c.State(hashStr("live|concurrent-decided|" + a.class))
		out := authentic(dec, append([]inj{{cl.PeerIDs[0], rawOf(a)}}, otherInj()...)...)
		got := e.decidedBy(d3, e.target)
		switch {
		case len(got) == 0:
			c.Violate("C05", "control-rejected", "live/decided-not-accepted/pos"+fmt.Sprint(pos), "the authentic DECIDED (round %d, quorum of %d COMMITs, %s) did not make the undecided target decide", r0, len(commits), shape)
		case len(got) > 1:
			c.Violate("C05", "decided-payload", "live/decided-more-than-once", "the target's subscriber was called %d times for one duty", len(got))
		case !proto.Equal(got[0], vpb):
			c.Violate("C05", "decided-payload", "live/decided-value-differs", "the value delivered on decision is not byte-for-byte the data whose hash the DECIDED message carries")
		default:
			verifrt.Probe(fmt.Sprintf("live:decided-by-DECIDED:pos%d:%s", pos, shape))
		}
		if e.other != nil && tn.Cons.VerifQueuedFor(otherDuty) != q0+1 {
			c.Violate("C05", "concurrent", "live/other-duty-message-not-counted-once", "an authentic message of %s delivered at the same instant as a DECIDED of %s and an altered copy changed that duty's queue by %+d, want +1", otherDuty, d3, tn.Cons.VerifQueuedFor(otherDuty)-q0)
		}
		if len(out) > 0 {
			c.Violate("C05", "altered-caused-output", "live/output-after-decision", "the target sent %d consensus envelope(s) after it decided by DECIDED (type %d)", len(out), out[0].GetMsg().GetType())
		}
		done = true
	}

	if pos == 2 {
		decidedStep()
	}
	if !done {
		pp := b.prePrepare(d3, r0, vh, val, prepared)
		for _, a := range sample(alterations(cl, pp, e.other, e.n), 8, "just") {
			altered("pre_prepare", a)
		}
		if !inWindow() {
			return
		}
		if out := authentic(pp); !reacted(out, 2) {
			c.Violate("C05", "control-rejected", "live/pre_prepare-not-accepted/"+shape, "the authentic harness-built PRE-PREPARE (%s, %d justifications) did not make the target send PREPARE (%d envelopes sent)", shape, len(pp.GetJustification()), len(out))
			return
		}
		verifrt.Probe("live:pre_prepare-accepted:" + shape)
		limit = start.Add(1950 * time.Millisecond) // the accepted PRE-PREPARE restarted the round timer
	}
	if pos == 1 {
		decidedStep()
	}
	if !done {
		// PREPARE: the target's own plus q-1 of the others make the quorum
		var preps []*pbv1.QBFTConsensusMsg
		for _, s := range voters[:b.q-1] {
			preps = append(preps, b.simple(2, d3, s, r0, vh, val))
		}
		for _, a := range sample(alterations(cl, preps[0], e.other, e.n), 6, "") {
			altered("prepare", a)
		}
		for i, p := range preps {
			last := i == len(preps)-1
			alts := alterations(cl, p, e.other, e.n)
			var out []*pbv1.QBFTConsensusMsg
			if i == 0 {
				// concurrently: an altered copy, the authentic original, an authentic message of another duty
				a := pickConcurrent(alts)
				q0 := tn.Cons.VerifQueuedFor(otherDuty)
				verifrt.Probe("concurrent:live-prepare")
				c.State(hashStr("live|concurrent-prepare|" + a.class))
				out = authentic(p, append([]inj{{cl.PeerIDs[0], rawOf(a)}}, otherInj()...)...)
				if e.other != nil && tn.Cons.VerifQueuedFor(otherDuty) != q0+1 {
					c.Violate("C05", "concurrent", "live/other-duty-message-not-counted-once", "an authentic message of %s delivered at the same instant as a PREPARE of %s and an altered copy changed that duty's queue by %+d, want +1", otherDuty, d3, tn.Cons.VerifQueuedFor(otherDuty)-q0)
				}
			} else {
				if last {
					// one short of the quorum: an altered copy of the missing PREPARE must not complete it
					altered("prepare-completing-quorum", alts[verifrt.Intn("a", len(alts))])
				}
				out = authentic(p)
			}
			if !last && len(out) > 0 {
				c.Violate("C05", "altered-caused-output", "live/prepare-quorum-completed-early/"+shape, "after authentic PREPARE %d of %d (quorum %d incl. the target's own) the target already sent %d envelope(s) (COMMIT=%v): something other than the authentic PREPAREs was counted", i+1, len(preps), b.q, len(out), reacted(out, 3))
				return
			}
			if last && !reacted(out, 3) {
				c.Violate("C05", "control-rejected", "live/prepare-quorum-not-accepted/"+shape, "after the last authentic PREPARE (%d of the others, quorum %d incl. the target's own) the target did not send COMMIT (%d envelopes sent)", len(preps), b.q, len(out))
				return
			}
		}
		verifrt.Probe("live:commit-sent:" + shape)
		// COMMIT: the target's own plus q-2 authentic ones stay one short of the quorum
		for i := 0; i < b.q-2; i++ {
			cm := &pbv1.QBFTConsensusMsg{Msg: commits[i], Values: []*anypb.Any{val}}
			if out := authentic(cm); len(out) > 0 || decidedN() > 0 {
				c.Violate("C05", "control-rejected", "live/commit-sub-quorum", "authentic COMMIT %d (quorum %d incl. the target's own) caused %d envelope(s), decided=%v", i+1, b.q, len(out), decidedN() > 0)
				return
			}
		}
		missing := &pbv1.QBFTConsensusMsg{Msg: commits[b.q-2], Values: []*anypb.Any{val}}
		for _, a := range sample(alterations(cl, missing, e.other, e.n), 4, "") {
			altered("commit-completing-quorum", a)
		}
		decidedStep()
	}

	// content: what the instance consumed
	verifrt.Sleep(settle)
	// the record of the only instance the target ended meanwhile (it may be empty: the instance's record is
	// handed over when the instance ends, which may precede the recording of the deciding message)
	var rec *pbv1.SniffedConsensusInstance
	if len(tn.Sniffed) == sniffed0+1 {
		rec = tn.Sniffed[sniffed0]
	}
	if rec == nil {
		c.Violate("C05", "control-rejected", "live/instance-did-not-end", "the target's instance of %s did not end after the authentic DECIDED", d3)
		return
	}
	seen := make([]int, len(controls))
	for _, sm := range rec.GetMsgs() {
		m := sm.GetMsg()
		if core.DutyFromProto(m.GetMsg().GetDuty()) != d3 {
			c.Violate("C05", "instance-consumed-unauthentic", "live/record-holds-message-of-another-duty", "the target's instance of %s consumed a message of %s (type %d, source %d)", d3, core.DutyFromProto(m.GetMsg().GetDuty()), m.GetMsg().GetType(), m.GetMsg().GetPeerIdx())
			continue
		}
		if m.GetMsg().GetPeerIdx() == int64(e.target) {
			continue // the target's own messages (signature checked by checkSniffed)
		}
		found := false
		for i, ctl := range controls {
			if proto.Equal(ctl.GetMsg(), m.GetMsg()) && len(ctl.GetJustification()) == len(m.GetJustification()) {
				same := true
				for j := range ctl.GetJustification() {
					same = same && proto.Equal(ctl.GetJustification()[j], m.GetJustification()[j])
				}
				if same {
					seen[i]++
					found = true
					break
				}
			}
		}
		if !found {
			c.Violate("C05", "instance-consumed-unauthentic", "live/record-holds-undelivered-message", "the target's instance consumed a message (type %d, claimed source %d, round %d, %d justifications) that is none of the authentic messages delivered", m.GetMsg().GetType(), m.GetMsg().GetPeerIdx(), m.GetMsg().GetRound(), len(m.GetJustification()))
		}
	}
	for i, k := range seen {
		if k > 1 {
			c.Violate("C05", "instance-consumed-unauthentic", "live/authentic-message-counted-twice", "the instance consumed %s %d times although it was delivered once (an altered copy with the same signed part was taken for it)", typeName(controls[i]), k)
		}
		if k == 0 && i < len(controls)-1 {
			c.Violate("C05", "control-rejected", "live/authentic-message-not-consumed", "the authentic %s (control %d of %d) is missing from the instance's record", typeName(controls[i]), i+1, len(controls))
		}
	}
	verifrt.Probe("live:record-checked")
}
