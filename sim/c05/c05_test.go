//go:build verif

// Harness for C05 (fault enumeration): inside a live simulated cluster the harness harvests real
// consensus wire messages of every type (with justifications and values), then delivers, one at a
// time at quiescent points and through the real wire path (simnet -> pbio framing -> protonil ->
// Consensus.handle), the unaltered original (positive control: must be queued for consensus) and
// every alteration the statement lists (must leave the consensus component's state untouched).
package c05

import (
	"context"
	"fmt"
	"sort"
	"strings"
	"sync"
	"testing"
	"time"

	eth2p0 "github.com/attestantio/go-eth2-client/spec/phase0"
	ssz "github.com/ferranbt/fastssz"
	"github.com/libp2p/go-libp2p/core/peer"
	"github.com/libp2p/go-msgio/pbio"
	"google.golang.org/protobuf/proto"
	"google.golang.org/protobuf/reflect/protoreflect"
	"google.golang.org/protobuf/types/known/anypb"

	k1 "github.com/decred/dcrd/dcrec/secp256k1/v4"

	"github.com/obolnetwork/charon/app/k1util"
	"github.com/obolnetwork/charon/core"
	qbftcons "github.com/obolnetwork/charon/core/consensus/qbft"
	pbv1 "github.com/obolnetwork/charon/core/corepb/v1"
	"github.com/obolnetwork/charon/verifrt"

	"verifsim/cluster"
	"verifsim/kernel"
	"verifsim/simnet"
)

const protoQBFT = "/charon/consensus/qbft/2.0.0"

func TestSim(t *testing.T) {
	kernel.Main(t, kernel.Harness{Name: "c05", Horizon: 3 * time.Hour, Body: body, MaxSteps: 6_000_000})
}

// ---- wire helpers -------------------------------------------------------------------------------

type wbuf struct{ b []byte }

func (w *wbuf) Write(p []byte) (int, error) { w.b = append(w.b, p...); return len(p), nil }

type rbuf struct{ b []byte }

func (r *rbuf) Read(p []byte) (int, error) {
	if len(r.b) == 0 {
		return 0, fmt.Errorf("EOF")
	}
	n := copy(p, r.b)
	r.b = r.b[n:]
	return n, nil
}

func frame(m proto.Message) []byte {
	var w wbuf
	_ = pbio.NewDelimitedWriter(&w).WriteMsg(m)
	return w.b
}

func unframe(b []byte) (*pbv1.QBFTConsensusMsg, error) {
	m := new(pbv1.QBFTConsensusMsg)
	err := pbio.NewDelimitedReader(&rbuf{b}, 64<<20).ReadMsg(m)
	return m, err
}

// msgHash restates the signed digest of a QBFT message from its description: the SSZ
// merkleisation of the deterministic protobuf encoding of the message without its signature.
func msgHash(m *pbv1.QBFTMsg) [32]byte {
	c := proto.Clone(m).(*pbv1.QBFTMsg)
	c.Signature = nil
	b, err := proto.MarshalOptions{Deterministic: true}.Marshal(c)
	if err != nil {
		panic(err)
	}
	hh := ssz.DefaultHasherPool.Get()
	defer ssz.DefaultHasherPool.Put(hh)
	idx := hh.Index()
	hh.PutBytes(b)
	hh.Merkleize(idx)
	h, err := hh.HashRoot()
	if err != nil {
		panic(err)
	}
	return h
}

func sign(m *pbv1.QBFTMsg, key *k1.PrivateKey) *pbv1.QBFTMsg {
	c := proto.Clone(m).(*pbv1.QBFTMsg)
	h := msgHash(c)
	sig, err := k1util.Sign(key, h[:])
	if err != nil {
		panic(err)
	}
	c.Signature = sig
	return c
}

func sigOK(m *pbv1.QBFTMsg, pub *k1.PublicKey) bool {
	if len(m.GetSignature()) == 0 {
		return false
	}
	h := msgHash(m)
	rec, err := k1util.Recover(h[:], m.GetSignature())
	return err == nil && rec.IsEqual(pub)
}

// ---- harness -----------------------------------------------------------------------------------

type alt struct {
	class string
	msg   *pbv1.QBFTConsensusMsg
	raw   []byte // used instead of msg when non-nil
}

func body(c *kernel.Ctx) {
	ctx, cancel := context.WithCancel(context.Background())
	defer cancel()

	n := 4
	if c.Tier == "thorough" {
		n = []int{4, 4, 5, 7}[verifrt.Intn("cfg", 4)]
	}
	cfg := cluster.Config{N: n, Validators: 1 + verifrt.Intn("cfg", 2), SlotsPerEpoch: 16, SlotDuration: 12 * time.Second, StartSlot: 64 + uint64(verifrt.Intn("cfg", 16))}
	cl := cluster.New(ctx, c.T, cfg)
	slot := cfg.StartSlot
	duty := core.NewAttesterDuty(slot)
	duty2 := core.NewAttesterDuty(slot + 1)
	// the passive target is the leader of round 1 of the first duty: round 1 times out, so
	// ROUND-CHANGE and justified PRE-PREPARE messages occur naturally
	target := int((int64(duty.Slot) + int64(duty.Type) + 1) % int64(n))
	dropCommitRound := int64(2) // commits of round 2 are lost: round 3 carries prepared certificates
	cl.View = func(node int, s uint64) int { return node % 2 }
	maxDelay := 1 + verifrt.Intn("cfg", 80)
	c.Set("n", n)
	c.Set("target", target)

	var mu sync.Mutex
	corpus := map[string]*pbv1.QBFTConsensusMsg{}
	var order []string
	phase := 1
	var tOut [][]byte // every consensus envelope the target sends, in send order
	cl.Net.Fate = func(e *simnet.Envelope) simnet.Fate {
		f := simnet.Fate{Delay: time.Duration(verifrt.Intn("n", maxDelay)) * time.Millisecond}
		mu.Lock()
		ph := phase
		if e.Proto == protoQBFT && e.From == cl.PeerIDs[target] {
			tOut = append(tOut, append([]byte(nil), e.Payload...))
		}
		mu.Unlock()
		if ph != 1 || e.Proto != protoQBFT {
			return f
		}
		m, err := unframe(e.Payload)
		if err != nil {
			return f
		}
		k := string(e.Payload)
		mu.Lock()
		if _, ok := corpus[k]; !ok {
			corpus[k] = m
			order = append(order, k)
		}
		mu.Unlock()
		if e.To == cl.PeerIDs[target] {
			f.Drop = true // the target stays untouched in phase 1
		}
		if m.GetMsg().GetType() == 3 && m.GetMsg().GetRound() == dropCommitRound && core.DutyFromProto(m.GetMsg().GetDuty()) == duty {
			f.Drop = true
			verifrt.Fault("drop-commit")
		}
		return f
	}

	// ---- phase 1: run two duties among the active nodes ------------------------------------
	decided := map[string][]*pbv1.UnsignedDataSet{}
	decidedNode := map[string][]int{}
	for i := 0; i < n; i++ {
		nd := cl.StartNode(i)
		me := i
		nd.Cons.Subscribe(func(_ context.Context, d core.Duty, set core.UnsignedDataSet) error {
			pb, err := core.UnsignedDataSetToProto(set)
			if err != nil {
				return err
			}
			mu.Lock()
			decided[d.String()] = append(decided[d.String()], pb)
			decidedNode[d.String()] = append(decidedNode[d.String()], me)
			mu.Unlock()
			verifrt.Note("n%d decided %s", me, d)
			return nil
		})
	}
	for i := 0; i < n; i++ {
		if i == target {
			continue
		}
		nd := cl.Nodes[i]
		for _, d := range []core.Duty{duty, duty2} {
			d := d
			verifrt.GoNode(nd.Tag, func() {
				at := cl.SlotStart(d.Slot).Add(cfg.SlotDuration / 3)
				verifrt.Sleep(time.Until(at) + time.Duration(verifrt.Intn("w", 50))*time.Millisecond)
				nd.Sched.Trigger(nd.Ctx, d, cl.DefSet(d.Slot))
			})
		}
	}
	verifrt.Sleep(time.Until(cl.SlotStart(slot+1).Add(cfg.SlotDuration/3 + 10*time.Second)))
	mu.Lock()
	phase = 2
	keys := append([]string(nil), order...)
	mu.Unlock()

	// decided payloads are byte-for-byte a proposal some node fetched
	checkDecided(c, cl, decided, []core.Duty{duty, duty2})

	// ---- phase 2: enumerate at the passive target ------------------------------------------
	tn := cl.Nodes[target]
	stallNext, stallsLeft := false, 5
	deliver := func(from peer.ID, raw []byte) (dInst, dQueued int) {
		i0, q0 := tn.Cons.VerifQueued()
		delay := time.Duration(verifrt.Intn("n", 5)) * time.Millisecond
		ch := cl.Net.Inject(from, cl.PeerIDs[target], protoQBFT, raw, delay)
		stalled := stallNext
		if stallNext {
			// the target node stalls (GC pause, starved host) at a random point of receiving and handling
			// the message, for longer than the receive timeout: an expired receive context must not let
			// an unverified message or justification through
			stallNext = false
			steps := verifrt.Intn("f", 16)
			verifrt.Go(func() {
				if delay > 0 {
					verifrt.Sleep(delay)
				}
				for k := 0; k < steps; k++ {
					verifrt.Yield()
				}
				verifrt.Stall(tn.Tag, 7*time.Second)
			})
		}
		verifrt.RecvTimeout(ch, nil, 20*time.Second) // handler returned (receive timeout is 5s)
		if stalled {
			verifrt.Sleep(8 * time.Second) // the stall may have begun after this handler returned: let it pass
		}
		i1, q1 := tn.Cons.VerifQueued()
		return i1 - i0, q1 - q0
	}
	// several messages at the same simulated instant: their handler goroutines interleave as the scheduler chooses
	deliverN := func(items []inj) {
		delay := time.Duration(verifrt.Intn("n", 5)) * time.Millisecond
		var chs []<-chan []byte
		for _, it := range items {
			chs = append(chs, cl.Net.Inject(it.from, cl.PeerIDs[target], protoQBFT, it.raw, delay))
		}
		for _, ch := range chs {
			verifrt.RecvTimeout(ch, nil, 20*time.Second)
		}
	}
	// pick representatives: one message per (duty, type, has-justification, has-prepared) class
	classOf := func(m *pbv1.QBFTConsensusMsg) string {
		hasPrep := false
		for _, j := range m.GetJustification() {
			if j.GetType() == 2 {
				hasPrep = true
			}
		}
		return fmt.Sprintf("%s/t%d/j%v/p%v/jp%v", core.DutyFromProto(m.GetMsg().GetDuty()), m.GetMsg().GetType(), len(m.GetJustification()) > 0, m.GetMsg().GetPreparedRound() > 0, hasPrep)
	}
	reps := map[string]*pbv1.QBFTConsensusMsg{}
	var repKeys []string
	for _, k := range keys {
		m := corpus[k]
		cls := classOf(m)
		if _, ok := reps[cls]; !ok {
			reps[cls] = m
			repKeys = append(repKeys, cls)
		}
	}
	// shapes live instances do not put on the wire, or did not in this run, are built by the harness from
	// the members' keys: DECIDED justified by a quorum of harvested genuine COMMITs; PRE-PREPARE of round 2
	// justified by ROUND-CHANGEs (null / prepared with PREPAREs)
	bld := &builder{cl: cl, n: n, q: cl.Threshold, skip: target}
	extra := map[string][]alt{}
	addRep := func(cls string, m *pbv1.QBFTConsensusMsg) {
		reps[cls] = m
		repKeys = append(repKeys, cls)
	}
	if cq := findCommitQuorum(corpus, keys, duty, bld.q); cq != nil {
		signer := int(cq.commits[verifrt.Intn("w", len(cq.commits))].GetPeerIdx())
		dm := bld.decided(duty, signer, cq.round, cq.vh, cq.commits, cq.vals)
		addRep(classOf(dm), dm)
		verifrt.Probe("built:decided-from-harvested-commits")
		// the decision quorum of another duty, validly signed throughout, replayed into this duty
		if cq2 := findCommitQuorum(corpus, keys, duty2, bld.q); cq2 != nil {
			x := bld.decided(duty, signer, cq2.round, cq2.vh, cq2.commits, cq2.vals)
			extra[classOf(dm)] = append(extra[classOf(dm)], alt{class: "cross-duty/decided-by-commit-quorum-of-another-duty", msg: x})
		}
	} else {
		verifrt.Probe("built:no-commit-quorum-harvested")
	}
	{
		vpb := propSet(cl, duty, 0)
		val, _ := anypb.New(vpb)
		force := verifrt.Intn("cfg", 10) // 0: only what is missing; 8, 9: also build a shape that was harvested
		for i, prepared := range []bool{false, true} {
			pp := bld.prePrepare(duty, 2, valueHash(vpb), val, prepared)
			cls := classOf(pp)
			if _, ok := reps[cls]; !ok {
				addRep(cls, pp)
				verifrt.Probe("built:pre_prepare-shape-missing-from-corpus")
			} else if force == 8+i {
				addRep(cls+"/built", pp)
				verifrt.Probe(fmt.Sprintf("built:pre_prepare-prepared=%v", prepared))
			}
		}
	}
	sort.Strings(repKeys)
	for _, cls := range repKeys {
		verifrt.Probe("class:" + cls[strings.Index(cls, "/")+1:])
	}
	c.Set("corpus_messages", len(keys))
	c.Set("classes", repKeys)
	var other *pbv1.QBFTConsensusMsg // a message of the other duty (cross-duty material)
	for _, cls := range repKeys {
		if core.DutyFromProto(reps[cls].GetMsg().GetDuty()) == duty2 && len(reps[cls].GetJustification()) == 0 {
			other = reps[cls]
		}
	}
	// ---- phase 2a: the target runs a live instance of a third duty -----------------------------
	if verifrt.Intn("cfg", 4) != 0 {
		liveScript(&env{c: c, cl: cl, n: n, q: bld.q, target: target, tn: tn, slot: slot, bld: bld, other: other, deliverN: deliverN,
			outCount: func() int { mu.Lock(); defer mu.Unlock(); return len(tOut) },
			outSince: func(i int) []*pbv1.QBFTConsensusMsg {
				mu.Lock()
				defer mu.Unlock()
				var out []*pbv1.QBFTConsensusMsg
				for _, raw := range tOut[i:] {
					if m, err := unframe(raw); err == nil {
						out = append(out, m)
					}
				}
				return out
			},
			decidedBy: func(d core.Duty, node int) []*pbv1.UnsignedDataSet {
				mu.Lock()
				defer mu.Unlock()
				var out []*pbv1.UnsignedDataSet
				for i, nd := range decidedNode[d.String()] {
					if nd == node {
						out = append(out, decided[d.String()][i])
					}
				}
				return out
			},
		})
	}
	// ---- phase 2b: enumeration against the passive instance -----------------------------------
	total, rejected := 0, 0
	var perClass []string
	for _, cls := range repKeys {
		m := reps[cls]
		if core.DutyFromProto(m.GetMsg().GetDuty()) != duty {
			continue
		}
		src := cl.PeerIDs[m.GetMsg().GetPeerIdx()]
		// positive control: the unaltered original is queued for consensus
		di, dq := deliver(src, frame(m))
		if dq != 1 {
			c.Violate("C05", "control-rejected", "original-not-accepted/"+typeName(m), "the unaltered %s was not queued at the target (instances %+d, queued %+d): the harness proves nothing for this class", cls, di, dq)
			continue
		}
		verifrt.Probe("control-accepted:" + typeName(m))
		jfull := -1
		if m.GetMsg().GetType() == 5 || strings.HasSuffix(cls, "/built") {
			// harness-built classes: one justification drawn per run gets every value of every field, the others
			// one alteration per field (keeps the cost of a run close to what it was)
			jfull = verifrt.Intn("w", len(m.GetJustification()))
		}
		alts := append(alterationsJ(cl, m, other, n, jfull), extra[cls]...)
		perClass = append(perClass, fmt.Sprintf("%s=%d", typeName(m), len(alts)))
		if other != nil {
			// at the same simulated instant: an altered copy, the authentic original and an authentic message of
			// another duty; the authentic ones are counted once each, the altered one not at all
			a := pickConcurrent(alts)
			od := core.DutyFromProto(other.GetMsg().GetDuty())
			_, q0 := tn.Cons.VerifQueued()
			qd, qo := tn.Cons.VerifQueuedFor(duty), tn.Cons.VerifQueuedFor(od)
			verifrt.Fault("alt")
			verifrt.Probe("concurrent:passive")
			total++
			c.State(hashStr(typeName(m) + "|concurrent|" + a.class))
			deliverN([]inj{{src, rawOf(a)}, {src, frame(m)}, {cl.PeerIDs[other.GetMsg().GetPeerIdx()], frame(other)}})
			_, q1 := tn.Cons.VerifQueued()
			if dd, do := tn.Cons.VerifQueuedFor(duty)-qd, tn.Cons.VerifQueuedFor(od)-qo; dd != 1 || do != 1 || q1-q0 != 2 {
				c.Violate("C05", "concurrent", typeName(m)+"/concurrent-altered-copy", "altered %s (%s), its authentic original and an authentic message of %s delivered at the same instant: queue of %s %+d (want +1), queue of %s %+d (want +1), all queues %+d (want +2)", cls, a.class, od, duty, dd, od, do, q1-q0)
			} else {
				rejected++
			}
		}
		for _, a := range alts {
			raw := a.raw
			if raw == nil {
				raw = frame(a.msg)
			}
			verifrt.Fault("alt")
			total++
			c.State(hashStr(typeName(m) + "|" + a.class))
			// mostly where an expired context matters most: messages whose justifications are altered
			if stallsLeft > 0 && (strings.HasPrefix(a.class, "just") && verifrt.Intn("f", 8) == 7 || verifrt.Intn("f", 100) == 99) {
				stallNext = true
				stallsLeft-- // few per run: the enumeration must end well before the duty's deadline
			}
			di, dq := deliver(src, raw)
			if di != 0 || dq != 0 {
				c.Violate("C05", "accepted-altered", typeName(m)+"/"+a.class, "altered %s (%s) changed consensus state at the target: instances %+d, queued messages %+d", cls, a.class, di, dq)
			} else {
				rejected++
			}
		}
	}
	// crafted, validly signed messages: window, membership and range checks
	for _, a := range crafted(cl, bld, duty, n, slot) {
		di, dq := deliver(cl.PeerIDs[0], frame(a.msg))
		total++
		c.State(hashStr("crafted|" + a.class))
		want := 0
		if strings.HasPrefix(a.class, "control/") {
			want = 1
		}
		if dq == want && want == 1 {
			verifrt.Probe("crafted-" + a.class)
		}
		if a.class == "window/first-slot-of-epoch-beyond-window" && dq != want {
			// the case is built from the epoch at the start of this enumeration; if an epoch boundary was crossed
			// before the target looked at the message (stalls, delivery times), the window - which only ever grows -
			// now includes the duty and admitting it is right: no verdict (seen once in 941 runs on the unchanged tree)
			nowEpoch := uint64(time.Since(cl.Chain.GenesisTime)/cl.Cfg.SlotDuration) / cl.Cfg.SlotsPerEpoch
			if a.msg.GetMsg().GetDuty().GetSlot()/cl.Cfg.SlotsPerEpoch <= nowEpoch+2 {
				verifrt.Probe("gater-window-rolled-during-case")
				continue
			}
		}
		if dq != want {
			if want == 1 {
				c.Violate("C05", "control-rejected", "crafted-valid-message-not-accepted/"+a.class, "a validly signed message (%s) for a duty inside the allowed window was not queued (instances %+d, queued %+d)", a.class, di, dq)
			} else {
				c.Violate("C05", "accepted-altered", "crafted/"+a.class, "validly signed but inadmissible message (%s) changed consensus state: instances %+d, queued %+d", a.class, di, dq)
			}
		} else if want == 0 {
			rejected++
		}
	}
	// expiry: after the duty's deadline an original is refused
	if dl, ok := deadlineOf(cl, duty); ok {
		verifrt.Sleep(time.Until(dl) + 5*time.Second)
		// a late local start for the expired duty (slow beacon node: the fetcher or the scheduler's
		// participate trigger comes after the deadline) is skipped by the component and must not
		// re-open the duty for peers' messages
		switch late := verifrt.Intn("w", 3); late {
		case 1, 2:
			verifrt.Probe(fmt.Sprintf("late-local-start:%d", late))
			done := make(chan struct{})
			verifrt.GoNode(tn.Tag, func() {
				defer close(done)
				if late == 1 {
					_ = tn.Cons.Participate(tn.Ctx, duty)
					return
				}
				set := core.UnsignedDataSet{}
				for _, v := range cl.Vals {
					def := cl.DefSet(duty.Slot)[v.CorePK].(core.AttesterDefinition)
					set[v.CorePK] = core.AttestationData{Data: *cl.AttData(0, eth2p0.Slot(duty.Slot), v.Committee), Duty: def.AttesterDuty}
				}
				_ = tn.Cons.Propose(tn.Ctx, duty, set)
			})
			verifrt.RecvTimeout(done, nil, 30*time.Second)
		}
		expiredDone := 0
		for _, cls := range repKeys {
			m := reps[cls]
			if core.DutyFromProto(m.GetMsg().GetDuty()) != duty || (expiredDone > 0 && m.GetMsg().GetType() != 5) {
				continue
			}
			di, dq := deliver(cl.PeerIDs[m.GetMsg().GetPeerIdx()], frame(m))
			total++
			c.State(hashStr("expired|" + typeName(m)))
			if dq > 0 || di > 0 {
				c.Violate("C05", "accepted-altered", typeName(m)+"/expired-duty", "%s delivered after its duty's deadline was queued (instances %+d, queued %+d)", cls, di, dq)
			} else {
				rejected++
			}
			expiredDone++ // after the first class only the DECIDED (if any) is replayed
		}
	}
	c.Set("alterations_injected", total)
	c.Set("alterations_per_class", perClass)
	c.Set("alterations_rejected", rejected)
	if total > 0 {
		c.Progress()
	}
	// every message any instance accepted carries valid signatures of its claimed sources
	checkSniffed(c, cl)
	cancel()
}

func typeName(m *pbv1.QBFTConsensusMsg) string {
	names := map[int64]string{1: "pre_prepare", 2: "prepare", 3: "commit", 4: "round_change", 5: "decided"}
	s := names[m.GetMsg().GetType()]
	if len(m.GetJustification()) > 0 {
		s += "+just"
	}
	return s
}

func hashStr(s string) uint64 {
	var h uint64 = 14695981039346656037
	for i := 0; i < len(s); i++ {
		h ^= uint64(s[i])
		h *= 1099511628211
	}
	return h
}

func deadlineOf(cl *cluster.Cluster, d core.Duty) (time.Time, bool) {
	// attester duties are kept for one epoch plus a margin of 1/12 slot (restated from the docs)
	return cl.SlotStart(d.Slot).Add(time.Duration(cl.Cfg.SlotsPerEpoch)*cl.Cfg.SlotDuration + cl.Cfg.SlotDuration/12), true
}

func cloneMsg(m *pbv1.QBFTConsensusMsg) *pbv1.QBFTConsensusMsg {
	return proto.Clone(m).(*pbv1.QBFTConsensusMsg)
}

// fieldAlts alters every field of one QBFTMsg (all of them are covered by its signature), found by
// protobuf reflection so that a newly added field is enumerated automatically.
func fieldAlts(prefix string, get func(*pbv1.QBFTConsensusMsg) *pbv1.QBFTMsg, m *pbv1.QBFTConsensusMsg, brief bool) []alt {
	var out []alt
	add := func(class string, mut func(q *pbv1.QBFTMsg)) {
		if brief && !strings.HasSuffix(class, "/+1") && !strings.HasSuffix(class, "/flip-first") && !strings.HasSuffix(class, "/removed") {
			return // brief: one alteration per field
		}
		cp := cloneMsg(m)
		mut(get(cp))
		if proto.Equal(cp, m) {
			return
		}
		out = append(out, alt{class: prefix + "/" + class, msg: cp})
	}
	var walk func(path string, md protoreflect.MessageDescriptor, sel func(q *pbv1.QBFTMsg) protoreflect.Message)
	walk = func(path string, md protoreflect.MessageDescriptor, sel func(q *pbv1.QBFTMsg) protoreflect.Message) {
		fds := md.Fields()
		for i := 0; i < fds.Len(); i++ {
			fd := fds.Get(i)
			name := path + string(fd.Name())
			switch fd.Kind() {
			case protoreflect.Int64Kind, protoreflect.Int32Kind, protoreflect.Uint64Kind, protoreflect.Uint32Kind:
				for _, v := range []struct {
					tag string
					f   func(int64) int64
				}{{"+1", func(x int64) int64 { return x + 1 }}, {"-1", func(x int64) int64 { return x - 1 }}, {"zero", func(int64) int64 { return 0 }}, {"huge", func(int64) int64 { return 1 << 40 }}} {
					v := v
					add(name+"/"+v.tag, func(q *pbv1.QBFTMsg) {
						pm := sel(q)
						cur := pm.Get(fd)
						var x int64
						switch fd.Kind() {
						case protoreflect.Uint64Kind, protoreflect.Uint32Kind:
							x = int64(cur.Uint())
						default:
							x = cur.Int()
						}
						y := v.f(x)
						switch fd.Kind() {
						case protoreflect.Int64Kind:
							pm.Set(fd, protoreflect.ValueOfInt64(y))
						case protoreflect.Int32Kind:
							pm.Set(fd, protoreflect.ValueOfInt32(int32(y)))
						case protoreflect.Uint64Kind:
							pm.Set(fd, protoreflect.ValueOfUint64(uint64(y)))
						case protoreflect.Uint32Kind:
							pm.Set(fd, protoreflect.ValueOfUint32(uint32(y)))
						}
					})
				}
			case protoreflect.BytesKind:
				for _, tag := range []string{"flip-first", "flip-last", "truncate", "empty", "zeros", "fill-if-empty"} {
					tag := tag
					add(name+"/"+tag, func(q *pbv1.QBFTMsg) {
						pm := sel(q)
						b := append([]byte(nil), pm.Get(fd).Bytes()...)
						switch tag {
						case "flip-first":
							if len(b) > 0 {
								b[0] ^= 0x01
							}
						case "flip-last":
							if len(b) > 0 {
								b[len(b)-1] ^= 0x80
							}
						case "truncate":
							if len(b) > 0 {
								b = b[:len(b)-1]
							}
						case "empty":
							b = nil
						case "zeros":
							for i := range b {
								b[i] = 0
							}
						case "fill-if-empty":
							if len(b) == 0 {
								b = make([]byte, 32)
								b[5] = 0x77
							}
						}
						pm.Set(fd, protoreflect.ValueOfBytes(b))
					})
				}
			case protoreflect.MessageKind:
				sub := fd
				if sel(get(m)).Has(sub) {
					walk(name+".", fd.Message(), func(q *pbv1.QBFTMsg) protoreflect.Message { return sel(q).Mutable(sub).Message() })
				}
				add(name+"/removed", func(q *pbv1.QBFTMsg) { sel(q).Clear(sub) })
			}
		}
	}
	walk("", (&pbv1.QBFTMsg{}).ProtoReflect().Descriptor(), func(q *pbv1.QBFTMsg) protoreflect.Message { return q.ProtoReflect() })
	return out
}

func alterations(cl *cluster.Cluster, m, other *pbv1.QBFTConsensusMsg, n int) []alt {
	return alterationsJ(cl, m, other, n, -1)
}

// alterationsJ: jfull >= 0 enumerates every value of every field only for justification jfull and one
// alteration per field for the other justifications (the caller draws jfull per run).
func alterationsJ(cl *cluster.Cluster, m, other *pbv1.QBFTConsensusMsg, n int, jfull int) []alt {
	var out []alt
	out = append(out, fieldAlts("top", func(x *pbv1.QBFTConsensusMsg) *pbv1.QBFTMsg { return x.Msg }, m, false)...)
	// each attached justification, every field (cap the number of justifications enumerated per message)
	for j := range m.GetJustification() {
		if j >= 3 && j != len(m.GetJustification())-1 {
			continue
		}
		j := j
		for _, a := range fieldAlts("just", func(x *pbv1.QBFTConsensusMsg) *pbv1.QBFTMsg { return x.Justification[j] }, m, jfull >= 0 && j != jfull) {
			out = append(out, a)
		}
	}
	// an altered copy of a justification next to the authentic one, carrying the same signature bytes
	// (before and after it): authenticity must be judged per message content, not per signature seen
	for j := range m.GetJustification() {
		if j >= 2 {
			break
		}
		for _, mutate := range []struct {
			tag string
			f   func(q *pbv1.QBFTMsg)
		}{
			{"round+1", func(q *pbv1.QBFTMsg) { q.Round++ }},
			{"peer-idx", func(q *pbv1.QBFTMsg) { q.PeerIdx = (q.PeerIdx + 1) % int64(n) }},
			{"type", func(q *pbv1.QBFTMsg) { q.Type = q.Type%4 + 1 }},
			{"prepared-round", func(q *pbv1.QBFTMsg) { q.PreparedRound++ }},
		} {
			alt1 := proto.Clone(m.Justification[j]).(*pbv1.QBFTMsg)
			mutate.f(alt1)
			after := cloneMsg(m)
			after.Justification = append(after.Justification, alt1)
			out = append(out, alt{class: "just-copy/after-original/" + mutate.tag, msg: after})
			before := cloneMsg(m)
			before.Justification = append([]*pbv1.QBFTMsg{proto.Clone(alt1).(*pbv1.QBFTMsg)}, before.Justification...)
			out = append(out, alt{class: "just-copy/before-original/" + mutate.tag, msg: before})
		}
	}
	// the top-level message's own signature reused by an altered justification copy of it
	{
		alt1 := proto.Clone(m.Msg).(*pbv1.QBFTMsg)
		alt1.Round++
		cp := cloneMsg(m)
		cp.Justification = append(cp.Justification, alt1)
		out = append(out, alt{class: "just-copy/of-top-message/round+1", msg: cp})
	}
	// a message re-signed by a cluster member other than the one it names as its source (the signer is a
	// genuine member, the signature is a genuine signature over exactly this content - only the binding of
	// signature and claimed peer index is wrong): for the top message and the first justifications
	resign := func(q *pbv1.QBFTMsg, claim, signer int64) *pbv1.QBFTMsg {
		c := proto.Clone(q).(*pbv1.QBFTMsg)
		c.PeerIdx = claim
		c.Signature = nil
		sg, err := qbftcons.VerifSignMsg(c, cl.Keys[signer])
		if err != nil {
			panic(err)
		}
		return sg
	}
	{
		orig := m.Msg.GetPeerIdx()
		cp := cloneMsg(m)
		cp.Msg = resign(m.Msg, (orig+1)%int64(n), orig) // claims the next member, signed by the real sender
		out = append(out, alt{class: "top/resigned/claims-another-member", msg: cp})
		cp2 := cloneMsg(m)
		cp2.Msg = resign(m.Msg, orig, (orig+1)%int64(n)) // claims the real sender, signed by the next member
		out = append(out, alt{class: "top/resigned/signed-by-another-member", msg: cp2})
	}
	for j := range m.GetJustification() {
		if j >= 2 {
			break
		}
		orig := m.Justification[j].GetPeerIdx()
		cp := cloneMsg(m)
		cp.Justification[j] = resign(m.Justification[j], orig, (orig+1)%int64(n))
		out = append(out, alt{class: "just/resigned/signed-by-another-member", msg: cp})
		// a further vote fabricated for a member that did not send one, signed by the top message's sender
		claim := (orig + 1) % int64(n)
		for claim == m.Msg.GetPeerIdx() || claim == orig {
			claim = (claim + 1) % int64(n)
		}
		extra := resign(m.Justification[j], claim, m.Msg.GetPeerIdx())
		cp2 := cloneMsg(m)
		cp2.Justification = append(cp2.Justification, extra)
		out = append(out, alt{class: "just/resigned/fabricated-vote-of-another-member", msg: cp2})
	}
	// signature taken from another message of the same signer
	if len(m.GetJustification()) > 0 {
		cp := cloneMsg(m)
		cp.Msg.Signature = append([]byte(nil), m.GetJustification()[0].GetSignature()...)
		out = append(out, alt{class: "top/signature/from-another-message", msg: cp})
	}
	// referenced values: any semantic change of a value's content, a changed type, a missing value
	for v := range m.GetValues() {
		v := v
		cp := cloneMsg(m)
		inner, err := cp.Values[v].UnmarshalNew()
		if err == nil {
			if set, ok := inner.(*pbv1.UnsignedDataSet); ok {
				for _, k := range sortedKeys(set.GetSet()) {
					b := set.Set[k]
					if len(b) > 0 {
						b[len(b)/2] ^= 0x10
						break
					}
				}
				if na, err := anypb.New(set); err == nil {
					cp.Values[v] = na
					out = append(out, alt{class: "value/content-byte", msg: cp})
				}
			}
		}
		cp2 := cloneMsg(m)
		cp2.Values[v].TypeUrl += "x"
		out = append(out, alt{class: "value/type-url", msg: cp2})
		cp3 := cloneMsg(m)
		cp3.Values = append(cp3.Values[:v:v], cp3.Values[v+1:]...)
		out = append(out, alt{class: "value/dropped", msg: cp3})
		cp5 := cloneMsg(m)
		cp5.Values[v].Value = append(append([]byte(nil), cp5.Values[v].Value...), 0x7a, 0x03, 'e', 'x', 't') // field 15 (undefined), length-delimited
		out = append(out, alt{class: "value/extended-with-undefined-field", msg: cp5})
		cp6 := cloneMsg(m)
		if n := len(cp6.Values[v].Value); n > 8 {
			cp6.Values[v].Value = append([]byte(nil), cp6.Values[v].Value...)
			cp6.Values[v].Value[n-3] ^= 0x01
			out = append(out, alt{class: "value/raw-byte", msg: cp6})
		}
		// the same length, prefix, suffix and CRC-32 / CRC-64 checksums as the authentic value, other content:
		// whatever a receiver uses to recognise "a value it has already hashed", it must not be a weak digest
		if n := len(m.GetValues()[v].GetValue()); n >= 64 {
			if cb := collide(m.GetValues()[v].GetValue(), n/2-16, n/2+16); cb != nil {
				cp7 := cloneMsg(m)
				cp7.Values[v].Value = cb
				out = append(out, alt{class: "value/same-length-same-crc-other-content", msg: cp7})
			}
		}
		// the authentic value wrapped in one more any envelope (its bytes are not the bytes that were hashed)
		if wrapped, err := anypb.New(m.GetValues()[v]); err == nil {
			cp8 := cloneMsg(m)
			cp8.Values[v] = wrapped
			out = append(out, alt{class: "value/wrapped-in-another-any", msg: cp8})
		}
		cp4 := cloneMsg(m)
		if len(cp4.Values[v].Value) > 2 {
			cp4.Values[v].Value = cp4.Values[v].Value[:len(cp4.Values[v].Value)-2]
			out = append(out, alt{class: "value/truncated", msg: cp4})
		}
	}
	if len(m.GetValues()) > 0 {
		cp := cloneMsg(m)
		cp.Values = nil
		out = append(out, alt{class: "value/all-dropped", msg: cp})
	}
	// count limits: more than 2n justifications, more than 2(j+1) values
	if len(m.GetJustification()) > 0 {
		cp := cloneMsg(m)
		for len(cp.Justification) <= 2*n {
			cp.Justification = append(cp.Justification, proto.Clone(m.Justification[len(cp.Justification)%len(m.Justification)]).(*pbv1.QBFTMsg))
		}
		out = append(out, alt{class: "limits/too-many-justifications", msg: cp})
	}
	if len(m.GetValues()) > 0 {
		cp := cloneMsg(m)
		for i := 0; len(cp.Values) <= 2*(len(cp.Justification)+1); i++ {
			extra, _ := anypb.New(&pbv1.UnsignedDataSet{Set: map[string][]byte{fmt.Sprintf("extra-%d", i): {byte(i), 1, 2, 3}}})
			cp.Values = append(cp.Values, extra)
		}
		out = append(out, alt{class: "limits/too-many-values", msg: cp})
	}
	// cross-duty substitution with valid signatures from another context
	if other != nil {
		cp := cloneMsg(m)
		cp.Justification = append(cp.Justification, proto.Clone(other.Msg).(*pbv1.QBFTMsg))
		cp.Values = append(cp.Values, other.GetValues()...)
		out = append(out, alt{class: "cross-duty/justification-of-another-duty", msg: cp})
	}
	// arbitrary byte strings and broken framing
	good := frame(m)
	out = append(out,
		alt{class: "bytes/empty", raw: []byte{}},
		alt{class: "bytes/garbage", raw: []byte{0x7f, 0x01, 0x02, 0x03, 0xff, 0xfe, 0x10, 0x00, 0x99}},
		alt{class: "bytes/truncated-frame", raw: good[:len(good)/2]},
		alt{class: "bytes/length-prefix-too-long", raw: append([]byte{0xff, 0xff, 0xff, 0x7f}, good...)},
	)
	if len(good) > 40 {
		b := append([]byte(nil), good...)
		b[len(b)-20] ^= 0x40
		out = append(out, alt{class: "bytes/flipped-wire-byte", raw: b})
	}
	return out
}

func sortedKeys(m map[string][]byte) []string {
	var ks []string
	for k := range m {
		ks = append(ks, k)
	}
	sort.Strings(ks)
	return ks
}

// crafted returns validly signed messages (member or non-member keys) that must be refused for
// reasons other than the signature, plus one that must be accepted.
func crafted(cl *cluster.Cluster, bld *builder, duty core.Duty, n int, slot uint64) []alt {
	nowSlot := uint64(time.Since(cl.Chain.GenesisTime) / cl.Cfg.SlotDuration) // the gater's notion of the current slot
	val, _ := anypb.New(&pbv1.UnsignedDataSet{Set: map[string][]byte{"x": {1, 2, 3}}})
	vh := valueHash(&pbv1.UnsignedDataSet{Set: map[string][]byte{"x": {1, 2, 3}}})
	mk := func(class string, key *k1.PrivateKey, mut func(q *pbv1.QBFTMsg)) alt {
		q := &pbv1.QBFTMsg{Type: 2, Duty: core.DutyToProto(duty), PeerIdx: 0, Round: 1, ValueHash: vh[:]}
		mut(q)
		return alt{class: class, msg: &pbv1.QBFTConsensusMsg{Msg: sign(q, key), Values: []*anypb.Any{val}}}
	}
	k0 := cl.Keys[0]
	outsider := cluster.P2PKey(40)
	perEpoch := cl.Cfg.SlotsPerEpoch
	// a DECIDED with its quorum of COMMITs, every part validly signed by members for duty d
	mkDecided := func(class string, d core.Duty) alt {
		voters := bld.members(bld.q)
		var commits []*pbv1.QBFTMsg
		for _, s := range voters {
			commits = append(commits, bld.mk(3, d, s, 1, vh, 0, zero32))
		}
		return alt{class: class, msg: bld.decided(d, voters[0], 1, vh, commits, []*anypb.Any{val})}
	}
	return []alt{
		mkDecided("control/decided-next-epoch-duty", core.NewAttesterDuty(slot+perEpoch+1)),
		mkDecided("window/decided-far-future-duty", core.NewAttesterDuty(slot+4*perEpoch+1)),
		mkDecided("window/decided-expired-duty", core.NewAttesterDuty(slot-3*perEpoch)),
		mk("control/valid-signed-next-epoch-duty", k0, func(q *pbv1.QBFTMsg) { q.Duty = core.DutyToProto(core.NewAttesterDuty(slot + perEpoch)) }),
		mk("window/far-future-duty", k0, func(q *pbv1.QBFTMsg) { q.Duty = core.DutyToProto(core.NewAttesterDuty(slot + 4*perEpoch)) }),
		mk("window/first-slot-of-epoch-beyond-window", k0, func(q *pbv1.QBFTMsg) { q.Duty = core.DutyToProto(core.NewAttesterDuty((nowSlot/perEpoch + 3) * perEpoch)) }),
		mk("control/last-slot-inside-window", k0, func(q *pbv1.QBFTMsg) { q.Duty = core.DutyToProto(core.NewAttesterDuty((nowSlot/perEpoch+3)*perEpoch - 1)) }),
		mk("window/duty-slot-max-uint64", k0, func(q *pbv1.QBFTMsg) { q.Duty = core.DutyToProto(core.NewAttesterDuty(^uint64(0))) }),
		mk("window/duty-slot-2^63", k0, func(q *pbv1.QBFTMsg) { q.Duty = core.DutyToProto(core.NewAttesterDuty(1 << 63)) }),
		mk("window/duty-slot-start-overflows-int64-ns", k0, func(q *pbv1.QBFTMsg) {
			q.Duty = core.DutyToProto(core.NewAttesterDuty(uint64(int64(^uint64(0)>>1)/int64(cl.Cfg.SlotDuration)) + 1 + slot%64))
		}),
		mkDecided("window/decided-duty-slot-2^63", core.NewAttesterDuty(1<<63)),
		mk("window/expired-duty", k0, func(q *pbv1.QBFTMsg) { q.Duty = core.DutyToProto(core.NewAttesterDuty(slot - 3*perEpoch)) }),
		mk("duty/invalid-duty-type", k0, func(q *pbv1.QBFTMsg) { q.Duty = &pbv1.Duty{Slot: slot, Type: 99} }),
		mk("duty/unknown-duty-type-zero", k0, func(q *pbv1.QBFTMsg) { q.Duty = &pbv1.Duty{Slot: slot, Type: 0} }),
		mk("member/unknown-peer-index", outsider, func(q *pbv1.QBFTMsg) { q.PeerIdx = int64(n) }),
		mk("member/negative-peer-index", outsider, func(q *pbv1.QBFTMsg) { q.PeerIdx = -1 }),
		mk("member/outsider-key-claims-member", outsider, func(q *pbv1.QBFTMsg) { q.PeerIdx = 1 }),
		mk("range/type-zero", k0, func(q *pbv1.QBFTMsg) { q.Type = 0 }),
		mk("range/type-six", k0, func(q *pbv1.QBFTMsg) { q.Type = 6 }),
		mk("range/round-zero", k0, func(q *pbv1.QBFTMsg) { q.Round = 0 }),
		mk("range/round-negative", k0, func(q *pbv1.QBFTMsg) { q.Round = -3 }),
		mk("range/prepared-round-negative", k0, func(q *pbv1.QBFTMsg) { q.PreparedRound = -1 }),
		mk("value/hash-of-absent-value", k0, func(q *pbv1.QBFTMsg) { q.ValueHash = append([]byte{0x42}, vh[1:]...) }),
		mk("value/prepared-hash-of-absent-value", k0, func(q *pbv1.QBFTMsg) { q.PreparedValueHash = append([]byte{0x43}, vh[1:]...) }),
	}
}

// valueHash restates the value digest: SSZ merkleisation of the deterministic encoding.
func valueHash(m proto.Message) [32]byte {
	b, err := proto.MarshalOptions{Deterministic: true}.Marshal(m)
	if err != nil {
		panic(err)
	}
	hh := ssz.DefaultHasherPool.Get()
	defer ssz.DefaultHasherPool.Put(hh)
	idx := hh.Index()
	hh.PutBytes(b)
	hh.Merkleize(idx)
	h, _ := hh.HashRoot()
	return h
}

func checkDecided(c *kernel.Ctx, cl *cluster.Cluster, decided map[string][]*pbv1.UnsignedDataSet, duties []core.Duty) {
	for _, d := range duties {
		got := decided[d.String()]
		if len(got) > 0 {
			verifrt.Probe("decided")
		}
		for _, pb := range got {
			ok := false
			for view := 0; view < 2; view++ {
				set := core.UnsignedDataSet{}
				for pk, def := range cl.DefSet(d.Slot) {
					ad := def.(core.AttesterDefinition)
					set[pk] = core.AttestationData{Data: *cl.AttData(view, eth2p0.Slot(d.Slot), ad.CommitteeIndex), Duty: ad.AttesterDuty}
				}
				want, err := core.UnsignedDataSetToProto(set)
				if err != nil {
					panic(err)
				}
				if proto.Equal(want, pb) {
					ok = true
				}
			}
			if !ok {
				c.Violate("C05", "decided-payload", "decided-value-is-not-a-proposed-payload", "duty %s: the value delivered on decision is not byte-for-byte any member's proposal", d)
			}
		}
	}
}

func checkSniffed(c *kernel.Ctx, cl *cluster.Cluster) {
	for _, n := range cl.Nodes {
		for _, inst := range n.Sniffed {
			for _, sm := range inst.GetMsgs() {
				m := sm.GetMsg()
				all := append([]*pbv1.QBFTMsg{m.GetMsg()}, m.GetJustification()...)
				for _, q := range all {
					idx := q.GetPeerIdx()
					if idx < 0 || int(idx) >= len(cl.Keys) || !sigOK(q, cl.Keys[idx].PubKey()) {
						c.Violate("C05", "instance-accepted-unauthentic", "sniffed-message-with-invalid-signature", "node %d: a consensus instance processed a message (type %d, claimed source %d) whose signature does not verify", n.Idx, q.GetType(), idx)
						return
					}
				}
			}
		}
	}
}
