//go:build verif

// Package simdata builds deterministic duty data for the harnesses (no global randomness:
// every byte is a function of the arguments, so canonical map orders and logs are identical in
// every process).
package simdata

import (
	"encoding/binary"
	"fmt"

	"github.com/attestantio/go-eth2-client/spec/altair"
	eth2p0 "github.com/attestantio/go-eth2-client/spec/phase0"
	"github.com/OffchainLabs/go-bitfield"

	"github.com/obolnetwork/charon/core"
)

// PubKey returns a deterministic (not BLS-valid) validator public key.
func PubKey(i int) core.PubKey {
	var b [48]byte
	for j := range b {
		b[j] = byte(0xa0 + i)
	}
	b[0] = byte(i + 1)
	pk, err := core.PubKeyFromBytes(b[:])
	if err != nil {
		panic(err)
	}
	return pk
}

// Sig returns a deterministic signature carrying id in its first bytes.
func Sig(id uint64) eth2p0.BLSSignature {
	var s eth2p0.BLSSignature
	binary.BigEndian.PutUint64(s[:8], id)
	for j := 8; j < len(s); j++ {
		s[j] = byte(id*31 + uint64(j))
	}
	return s
}

// SigID recovers the id of a signature made by Sig.
func SigID(s core.Signature) uint64 {
	if len(s) < 8 {
		return 0
	}
	return binary.BigEndian.Uint64(s[:8])
}

// Root returns a deterministic root.
func Root(id uint64) eth2p0.Root {
	var r eth2p0.Root
	binary.BigEndian.PutUint64(r[:8], id)
	for j := 8; j < len(r); j++ {
		r[j] = byte(id*17 + uint64(j))
	}
	return r
}

// Randao returns a signed randao whose identity is id.
func Randao(epoch uint64, id uint64) core.SignedRandao {
	return core.NewSignedRandao(eth2p0.Epoch(epoch), Sig(id))
}

// SyncContribution returns a signed contribution-and-proof for the subcommittee with identity id.
func SyncContribution(slot uint64, subcomm uint64, id uint64) core.SignedSyncContributionAndProof {
	return core.NewSignedSyncContributionAndProof(&altair.SignedContributionAndProof{
		Message: &altair.ContributionAndProof{
			AggregatorIndex: 7,
			Contribution: &altair.SyncCommitteeContribution{
				Slot:              eth2p0.Slot(slot),
				BeaconBlockRoot:   Root(slot),
				SubcommitteeIndex: subcomm,
				AggregationBits:   bitfield.NewBitvector128(),
				Signature:         Sig(1000 + slot),
			},
			SelectionProof: Sig(2000 + slot),
		},
		Signature: Sig(id),
	})
}

// Desc describes a duty briefly for logs.
func Desc(d core.Duty) string { return fmt.Sprintf("%d/%s", d.Slot, d.Type) }
