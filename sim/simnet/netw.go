//go:build verif

package simnet

import (
	"sort"
	"sync"

	"github.com/libp2p/go-libp2p/core/network"
	"github.com/libp2p/go-libp2p/core/peer"

	"github.com/obolnetwork/charon/verifrt"
)

// Connection lifecycle. A simulated host is "connected" to every other host of the network unless the
// link was closed with Net.Disconnect; any later stream or injected envelope between the two re-dials
// (as libp2p does on NewStream) and fires the Connected notification again. Code that subscribes to
// connection events through host.Network().Notify therefore sees what a real host sees when a peer
// drops all its connections and comes back.

type linkKey struct{ a, b peer.ID }

func mkLink(a, b peer.ID) linkKey {
	if a > b {
		a, b = b, a
	}
	return linkKey{a, b}
}

type netw struct {
	network.Network // nil: unimplemented methods panic
	h               *Host

	mu        sync.Mutex
	notifiees []network.Notifiee
}

// Network returns the host's simulated network.Network (Notify/StopNotify, ConnsToPeer, Connectedness,
// Peers, Conns, LocalPeer, ClosePeer).
func (h *Host) Network() network.Network {
	h.mu.Lock()
	defer h.mu.Unlock()
	if h.nw == nil {
		h.nw = &netw{h: h}
	}
	return h.nw
}

func (w *netw) LocalPeer() peer.ID { return w.h.id }

func (w *netw) Notify(f network.Notifiee) {
	w.mu.Lock()
	w.notifiees = append(w.notifiees, f)
	w.mu.Unlock()
}

func (w *netw) StopNotify(f network.Notifiee) {
	w.mu.Lock()
	defer w.mu.Unlock()
	for i, g := range w.notifiees {
		if g == f {
			w.notifiees = append(w.notifiees[:i:i], w.notifiees[i+1:]...)
			return
		}
	}
}

func (w *netw) connected(p peer.ID) bool {
	n := w.h.net
	n.mu.Lock()
	defer n.mu.Unlock()
	_, known := n.hosts[p]
	return known && p != w.h.id && !n.closed[mkLink(w.h.id, p)]
}

func (w *netw) ConnsToPeer(p peer.ID) []network.Conn {
	if !w.connected(p) {
		return nil
	}
	return []network.Conn{conn{local: w.h.id, remote: p}}
}

func (w *netw) Connectedness(p peer.ID) network.Connectedness {
	if w.connected(p) {
		return network.Connected
	}
	return network.NotConnected
}

func (w *netw) Peers() []peer.ID {
	n := w.h.net
	n.mu.Lock()
	var ps []peer.ID
	for p := range n.hosts {
		if p != w.h.id && !n.closed[mkLink(w.h.id, p)] {
			ps = append(ps, p)
		}
	}
	n.mu.Unlock()
	sort.Slice(ps, func(i, j int) bool { return ps[i] < ps[j] })
	return ps
}

func (w *netw) Conns() []network.Conn {
	var cs []network.Conn
	for _, p := range w.Peers() {
		cs = append(cs, conn{local: w.h.id, remote: p})
	}
	return cs
}

func (w *netw) ClosePeer(p peer.ID) error {
	w.h.net.Disconnect(w.h.id, p)
	return nil
}

func (w *netw) fire(connected bool, remote peer.ID) {
	w.mu.Lock()
	fs := append([]network.Notifiee(nil), w.notifiees...)
	w.mu.Unlock()
	c := conn{local: w.h.id, remote: remote}
	for _, f := range fs {
		if connected {
			f.Connected(w, c)
		} else {
			f.Disconnected(w, c)
		}
	}
}

// Disconnect closes every connection between a and b: both hosts' notifiees get Disconnected (on a
// goroutine of their own node, as libp2p's swarm does), ConnsToPeer becomes empty. The next stream or
// injected envelope between the two re-dials.
func (n *Net) Disconnect(a, b peer.ID) {
	n.mu.Lock()
	if n.closed == nil {
		n.closed = map[linkKey]bool{}
	}
	k := mkLink(a, b)
	was := n.closed[k]
	n.closed[k] = true
	ha, hb := n.hosts[a], n.hosts[b]
	n.mu.Unlock()
	if was {
		return
	}
	verifrt.Fault("connection-closed")
	n.notify(ha, false, b)
	n.notify(hb, false, a)
}

// redial re-establishes a closed link (called before a stream or envelope between the two).
func (n *Net) redial(a, b peer.ID) {
	n.mu.Lock()
	k := mkLink(a, b)
	was := n.closed[k]
	if was {
		delete(n.closed, k)
	}
	ha, hb := n.hosts[a], n.hosts[b]
	n.mu.Unlock()
	if !was {
		return
	}
	verifrt.Probe("connection-redialled")
	n.notify(ha, true, b)
	n.notify(hb, true, a)
}

func (n *Net) notify(h *Host, connected bool, remote peer.ID) {
	if h == nil {
		return
	}
	h.mu.Lock()
	w := h.nw
	h.mu.Unlock()
	if w == nil {
		return
	}
	verifrt.GoNode(h.node, func() { w.fire(connected, remote) })
}
