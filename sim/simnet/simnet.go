//go:build verif

// Package simnet is the simulated libp2p network: Host implements the few host.Host /
// network.Stream / network.Conn methods the repository calls. Bytes written to a stream become an
// in-flight Envelope once the writer closes its write side; the network's Fate hook (driven by the
// run's chooser) decides whether and when the remote handler sees it. The repository's real wire
// path (pbio framing, protonil checks, read limits, handlers, signature checks) runs unmodified on
// both ends.
package simnet

import (
	"context"
	"errors"
	"fmt"
	"io"
	"os"
	"sync"
	"time"

	"github.com/libp2p/go-libp2p/core/host"
	"github.com/libp2p/go-libp2p/core/network"
	"github.com/libp2p/go-libp2p/core/peer"
	"github.com/libp2p/go-libp2p/core/protocol"

	"github.com/obolnetwork/charon/verifrt"
)

// Envelope is one request or response in flight.
type Envelope struct {
	From, To peer.ID
	Proto    protocol.ID
	Payload  []byte
	Response bool // response leg of a request/response stream
	Seq      int
	ReqSeq   int    // response: Seq of the request it answers
	Request  []byte // response: payload of the request it answers
}

// Fate of an envelope.
type Fate struct {
	Drop      bool
	Delay     time.Duration
	Duplicate bool          // deliver a second copy
	DupDelay  time.Duration // delay of the copy
}

// Net connects hosts.
type Net struct {
	mu    sync.Mutex
	hosts map[peer.ID]*Host
	seq   int
	// Fate decides each envelope; nil = deliver immediately. Called on the sender's goroutine.
	Fate func(e *Envelope) Fate
	// Tap observes (and may rewrite the payload of) every envelope accepted for delivery.
	Tap func(e *Envelope)
	// DialErr, if it returns an error, makes NewStream from->to fail (unreachable peer).
	DialErr func(from, to peer.ID) error
	closed  map[linkKey]bool // links whose connections were closed (see netw.go)
}

// New returns an empty network.
func New() *Net { return &Net{hosts: map[peer.ID]*Host{}} }

// NewHost adds a host; node is the scheduler tag under which its handlers run.
func (n *Net) NewHost(id peer.ID, node string) *Host {
	h := &Host{id: id, net: n, node: node}
	n.mu.Lock()
	n.hosts[id] = h
	n.mu.Unlock()
	return h
}

// Remove detaches a host (crash with amnesia: a new Host can be added under the same id).
func (n *Net) Remove(id peer.ID) {
	n.mu.Lock()
	delete(n.hosts, id)
	n.mu.Unlock()
}

func (n *Net) host(id peer.ID) *Host {
	n.mu.Lock()
	defer n.mu.Unlock()
	return n.hosts[id]
}

type handlerEntry struct {
	match   func(protocol.ID) bool
	handler network.StreamHandler
}

// Host is a simulated libp2p host. Unimplemented host.Host methods panic (nil embedded interface).
type Host struct {
	host.Host
	id   peer.ID
	net  *Net
	node string

	mu       sync.Mutex
	handlers []handlerEntry
	down     bool
	nw       *netw
}

func (h *Host) ID() peer.ID { return h.id }

// SetDown makes the host refuse new inbound streams (crashed process).
func (h *Host) SetDown(d bool) { h.mu.Lock(); h.down = d; h.mu.Unlock() }

func (h *Host) SetStreamHandler(pid protocol.ID, handler network.StreamHandler) {
	h.SetStreamHandlerMatch(pid, func(p protocol.ID) bool { return p == pid }, handler)
}

func (h *Host) SetStreamHandlerMatch(_ protocol.ID, match func(protocol.ID) bool, handler network.StreamHandler) {
	h.mu.Lock()
	h.handlers = append(h.handlers, handlerEntry{match, handler})
	h.mu.Unlock()
}

func (h *Host) RemoveStreamHandler(protocol.ID) {}

func (h *Host) Close() error { return nil }

func (h *Host) lookup(pid protocol.ID) network.StreamHandler {
	h.mu.Lock()
	defer h.mu.Unlock()
	if h.down {
		return nil
	}
	// latest registration wins, as in multistream
	for i := len(h.handlers) - 1; i >= 0; i-- {
		if h.handlers[i].match(pid) {
			return h.handlers[i].handler
		}
	}
	return nil
}

var errDial = errors.New("simnet: dial failed: peer unreachable")

// NewStream opens a client stream; the first protocol the remote supports is selected.
func (h *Host) NewStream(ctx context.Context, p peer.ID, pids ...protocol.ID) (network.Stream, error) {
	if err := ctx.Err(); err != nil {
		return nil, err
	}
	if h.net.DialErr != nil {
		if err := h.net.DialErr(h.id, p); err != nil {
			return nil, err
		}
	}
	remote := h.net.host(p)
	if remote == nil {
		return nil, errDial
	}
	h.net.redial(h.id, p)
	for _, pid := range pids {
		if remote.lookup(pid) != nil {
			return &clientStream{h: h, to: p, proto: pid, resp: make(chan []byte, 4), closed: make(chan struct{})}, nil
		}
	}
	return nil, fmt.Errorf("simnet: protocols not supported: %v", pids)
}

// Inject delivers raw bytes from `from` to `to` on proto as if a peer had written them (used by
// adversaries and message-alteration harnesses). It returns a channel that receives the response
// bytes written by the handler (empty when the handler finished without writing) once the handler
// has returned.
func (n *Net) Inject(from, to peer.ID, proto protocol.ID, payload []byte, delay time.Duration) <-chan []byte {
	resp := make(chan []byte, 1)
	n.redial(from, to)
	n.deliverRequest(&Envelope{From: from, To: to, Proto: proto, Payload: payload}, delay, func(b []byte) {
		select {
		case resp <- b:
		default:
		}
	})
	return resp
}

// send applies fate to a request envelope written by a client stream.
func (n *Net) send(e *Envelope, onResp func([]byte)) {
	n.mu.Lock()
	n.seq++
	e.Seq = n.seq
	n.mu.Unlock()
	var f Fate
	if n.Fate != nil {
		f = n.Fate(e)
	}
	if f.Drop {
		return
	}
	if n.Tap != nil {
		n.Tap(e)
	}
	n.deliverRequest(e, f.Delay, onResp)
	if f.Duplicate {
		cp := *e
		n.deliverRequest(&cp, f.DupDelay, func([]byte) {}) // the copy's response goes nowhere
	}
}

func (n *Net) deliverRequest(e *Envelope, delay time.Duration, onResp func([]byte)) {
	remote := n.host(e.To)
	node := ""
	if remote != nil {
		node = remote.node
	}
	verifrt.GoNode(node, func() {
		if delay > 0 {
			verifrt.Sleep(delay)
		}
		remote := n.host(e.To) // may have been removed/replaced meanwhile
		if remote == nil {
			return
		}
		handler := remote.lookup(e.Proto)
		if handler == nil {
			return
		}
		s := &serverStream{net: n, local: e.To, remote: e.From, proto: e.Proto, in: e.Payload, onResp: onResp}
		handler(s)
		s.finish()
	})
}

// ---- streams --------------------------------------------------------------------------------

type conn struct {
	network.Conn
	local, remote peer.ID
}

func (c conn) RemotePeer() peer.ID { return c.remote }
func (c conn) LocalPeer() peer.ID  { return c.local }

type timeoutErr struct{}

func (timeoutErr) Error() string   { return "simnet: i/o deadline exceeded" }
func (timeoutErr) Timeout() bool   { return true }
func (timeoutErr) Temporary() bool { return true }
func (timeoutErr) Is(target error) bool { return target == os.ErrDeadlineExceeded }

// clientStream is the dialer's end.
type clientStream struct {
	network.Stream
	h     *Host
	to    peer.ID
	proto protocol.ID

	mu       sync.Mutex
	out      []byte
	sent     bool
	in       []byte
	gotResp  bool
	resp     chan []byte
	closed   chan struct{}
	isClosed bool
	deadline time.Time
}

func (s *clientStream) Protocol() protocol.ID { return s.proto }
func (s *clientStream) Conn() network.Conn    { return conn{local: s.h.id, remote: s.to} }
func (s *clientStream) ID() string            { return "sim" }

func (s *clientStream) Write(b []byte) (int, error) {
	s.mu.Lock()
	defer s.mu.Unlock()
	if s.sent || s.isClosed {
		return 0, errors.New("simnet: write on closed stream")
	}
	s.out = append(s.out, b...)
	return len(b), nil
}

func (s *clientStream) flush() {
	s.mu.Lock()
	if s.sent {
		s.mu.Unlock()
		return
	}
	s.sent = true
	out := s.out
	s.mu.Unlock()
	if len(out) == 0 {
		return
	}
	s.h.net.send(&Envelope{From: s.h.id, To: s.to, Proto: s.proto, Payload: out}, func(b []byte) {
		if len(b) == 0 {
			return // no response written
		}
		// response leg: its own fate
		e := &Envelope{From: s.to, To: s.h.id, Proto: s.proto, Payload: b, Response: true, Request: out}
		var f Fate
		if s.h.net.Fate != nil {
			f = s.h.net.Fate(e)
		}
		if f.Drop {
			return
		}
		if s.h.net.Tap != nil {
			s.h.net.Tap(e)
		}
		if f.Delay > 0 {
			verifrt.Sleep(f.Delay)
		}
		select {
		case s.resp <- e.Payload:
		default:
		}
	})
}

func (s *clientStream) CloseWrite() error { s.flush(); return nil }

func (s *clientStream) Close() error {
	s.flush()
	s.mu.Lock()
	if !s.isClosed {
		s.isClosed = true
		close(s.closed)
	}
	s.mu.Unlock()
	return nil
}

func (s *clientStream) Reset() error                   { return s.Close() }
func (s *clientStream) ResetWithError(network.StreamErrorCode) error { return s.Close() }
func (s *clientStream) CloseRead() error               { return nil }
func (s *clientStream) SetDeadline(t time.Time) error  { s.mu.Lock(); s.deadline = t; s.mu.Unlock(); return nil }
func (s *clientStream) SetReadDeadline(t time.Time) error {
	return s.SetDeadline(t)
}
func (s *clientStream) SetWriteDeadline(time.Time) error { return nil }

// Read returns response bytes; it blocks until the response arrives, the deadline passes or the
// stream is closed.
func (s *clientStream) Read(b []byte) (int, error) {
	s.mu.Lock()
	if len(s.in) == 0 && !s.gotResp {
		dl := s.deadline
		s.mu.Unlock()
		var d time.Duration
		if !dl.IsZero() {
			d = time.Until(dl)
			if d <= 0 {
				return 0, timeoutErr{}
			}
		}
		p, status := verifrt.RecvTimeout(s.resp, s.closed, d)
		switch status {
		case 1:
			return 0, errors.New("simnet: stream closed")
		case 2:
			return 0, timeoutErr{}
		}
		s.mu.Lock()
		s.in = p
		s.gotResp = true
	}
	defer s.mu.Unlock()
	if len(s.in) == 0 {
		return 0, io.EOF
	}
	n := copy(b, s.in)
	s.in = s.in[n:]
	return n, nil
}

// serverStream is the handler's end: the whole request is available at once, then EOF.
type serverStream struct {
	network.Stream
	net           *Net
	local, remote peer.ID
	proto         protocol.ID
	in            []byte
	out           []byte
	onResp        func([]byte)
	done          bool
}

func (s *serverStream) Protocol() protocol.ID { return s.proto }
func (s *serverStream) Conn() network.Conn    { return conn{local: s.local, remote: s.remote} }
func (s *serverStream) ID() string            { return "sim" }

func (s *serverStream) Read(b []byte) (int, error) {
	verifrt.Yield() // a network read is a blocking point: the node may be descheduled (stalled) here
	if len(s.in) == 0 {
		return 0, io.EOF
	}
	n := copy(b, s.in)
	s.in = s.in[n:]
	return n, nil
}

func (s *serverStream) Write(b []byte) (int, error) {
	s.out = append(s.out, b...)
	return len(b), nil
}

func (s *serverStream) finish() {
	if s.done {
		return
	}
	s.done = true
	if s.onResp != nil {
		s.onResp(s.out) // empty: the handler finished without writing a response
	}
}

func (s *serverStream) Close() error                       { s.finish(); return nil }
func (s *serverStream) CloseWrite() error                  { s.finish(); return nil }
func (s *serverStream) CloseRead() error                   { return nil }
func (s *serverStream) Reset() error                       { s.done = true; return nil }
func (s *serverStream) ResetWithError(network.StreamErrorCode) error { s.done = true; return nil }
func (s *serverStream) SetDeadline(time.Time) error        { return nil }
func (s *serverStream) SetReadDeadline(time.Time) error    { return nil }
func (s *serverStream) SetWriteDeadline(time.Time) error   { return nil }
