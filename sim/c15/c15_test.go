//go:build verif

// Harness for C15: the real core/scheduler.Scheduler (production constructor scheduler.New, real
// clockwork clock = the bubble's fake clock) wired as app.go wires it to the real
// eth2wrap.ValidatorCache and eth2wrap.DutiesCache, over an in-memory beacon stub.
//
// The beacon's attester / proposer / sync-committee assignments are a pure seeded table per
// (epoch, validator); validator statuses follow a seeded lifecycle (pending -> active -> exited) that
// becomes visible as simulated time advances. Faults: failing beacon calls (each endpoint), slow
// beacon calls that block the slot loop for more than a slot, stalls of the whole scheduler node for
// more than a slot (missed ticks), a beacon node that is still syncing at start-up.
//
// Oracles (see check()): (O1) no (type, slot) triggered twice; (O2) every triggered definition is the
// table's record of a cluster validator that is active in that epoch; (O3) not before the type's slot
// offset; (O4) completeness for slots that began after a fully successful resolution of their epoch.
package c15

import (
	"context"
	"errors"
	"fmt"
	"math"
	"slices"
	"sort"
	"strconv"
	"strings"
	"sync"
	"testing"
	"time"

	eth2api "github.com/attestantio/go-eth2-client/api"
	eth2v1 "github.com/attestantio/go-eth2-client/api/v1"
	eth2p0 "github.com/attestantio/go-eth2-client/spec/phase0"

	"github.com/obolnetwork/charon/app/eth2wrap"
	"github.com/obolnetwork/charon/app/featureset"
	"github.com/obolnetwork/charon/app/log"
	"github.com/obolnetwork/charon/core"
	"github.com/obolnetwork/charon/core/scheduler"
	"github.com/obolnetwork/charon/verifrt"

	"verifsim/kernel"
)

func TestSim(t *testing.T) {
	// The scheduler logs through the process-global logger (it builds its own context): silence it.
	_ = log.InitLogger(log.Config{Level: "fatal", Format: "console", Color: "disable"})
	kernel.Main(t, kernel.Harness{Name: "c15", Horizon: 30 * time.Minute, Body: body})
}

const farFuture = uint64(math.MaxUint64)

const (
	kAtt = iota
	kPro
	kSync
)

var kindName = map[int]string{kAtt: "attester", kPro: "proposer", kSync: "sync"}

func mixh(vs ...uint64) uint64 {
	x := uint64(0x9e3779b97f4a7c15)
	for _, v := range vs {
		x ^= v + 0x9e3779b97f4a7c15 + (x << 6) + (x >> 2)
		x ^= x >> 30
		x *= 0xbf58476d1ce4e5b9
		x ^= x >> 27
		x *= 0x94d049bb133111eb
		x ^= x >> 31
	}
	return x
}

// ---- the simulated beacon chain ------------------------------------------------------------------

type val struct {
	name    string // c0.. cluster, o0.. other validators of the chain
	vidx    eth2p0.ValidatorIndex
	pk      eth2p0.BLSPubKey
	cpk     core.PubKey
	cluster bool
	known   bool   // has an entry in the beacon state
	act     uint64 // active in epochs [act, exit)
	exit    uint64
}

func (v *val) activeIn(epoch uint64) bool { return v.known && v.act <= epoch && epoch < v.exit }

func mkVal(name string, vidx uint64, cluster bool) *val {
	v := &val{name: name, vidx: eth2p0.ValidatorIndex(vidx), cluster: cluster, known: true, exit: farFuture}
	for i := range v.pk {
		v.pk[i] = byte(vidx*31+uint64(i)*7) & 0x7f
	}
	v.cpk = core.PubKeyFrom48Bytes(v.pk)
	return v
}

type valSnap struct {
	active   bool
	actEpoch uint64
}

// attempt tracks the calls of one resolveDuties invocation as seen at the scheduler/client boundary.
type attempt struct {
	stage int // 1: validators ok, 2: +attester ok, 3: +proposer ok
	epoch uint64
	snap  map[eth2p0.ValidatorIndex]valSnap
}

// resRec is one fully successful resolution of an epoch (validators, attester, proposer, sync all ok).
type resRec struct {
	epoch uint64
	done  time.Time
	snap  map[eth2p0.ValidatorIndex]valSnap
}

type tickRec struct {
	slot uint64
	t    time.Time
}

type trigRec struct {
	duty core.Duty
	t    time.Time
	defs map[core.PubKey]core.DutyDefinition
}

// getRec is one GetDutyDefinition call (the read path the validator API uses) made by a query client.
type getRec struct {
	duty   core.Duty
	t0, t1 time.Time
	defs   map[core.PubKey]core.DutyDefinition
	err    error
}

type world struct {
	c  *kernel.Ctx
	mu sync.Mutex // short critical sections only

	t0      time.Time
	genesis time.Time
	slotDur time.Duration
	spe     uint64
	period  uint64 // epochs per sync committee period
	seed    uint64

	startEpoch uint64

	cluster  []*val
	others   []*val
	universe []*val
	byPK     map[core.PubKey]*val
	byBLS    map[eth2p0.BLSPubKey]*val

	extras   bool // the beacon also returns duties of validators that were not asked for
	lenient  bool // the beacon answers duty requests for not-yet-active validators
	faultLvl int
	faultEnd time.Time
	slowLeft int
	notReady int // 0: beacon ready, 1: first NodeSyncing says syncing, 2: first NodeSyncing fails
	genFail  bool

	genesisCalls int
	syncCalls    int
	everActive   map[eth2p0.ValidatorIndex]bool

	ticks       []tickRec
	trigs       []trigRec
	gets        []getRec
	fetches     []trigRec // fetch-only calls caused by head events (feature flags fetch_att_on_block*)
	trims       []time.Time // reorg events delivered while sse_reorg_duties is enabled: resolved duties are dropped
	ress        []resRec
	cur         *attempt
	failPending bool
	failSlot    uint64
}

func (w *world) rel(t time.Time) time.Duration { return t.Sub(w.t0) }
func (w *world) slotStart(s uint64) time.Time  { return w.genesis.Add(time.Duration(s) * w.slotDur) }
func (w *world) headSlot() uint64              { return uint64(time.Since(w.genesis) / w.slotDur) }

// The assignment table: pure functions of (seed, epoch/slot, validator index), independent of status.

func (w *world) att(epoch uint64, v *val) (eth2v1.AttesterDuty, bool) {
	h := func(salt uint64) uint64 { return mixh(w.seed, kAtt, epoch, uint64(v.vidx), salt) }
	if h(0)%6 == 0 {
		return eth2v1.AttesterDuty{}, false
	}
	clen := 8 + h(3)%8
	return eth2v1.AttesterDuty{PubKey: v.pk, Slot: eth2p0.Slot(epoch*w.spe + h(1)%w.spe), ValidatorIndex: v.vidx,
		CommitteeIndex: eth2p0.CommitteeIndex(h(2) % 4), CommitteeLength: clen, CommitteesAtSlot: 4, ValidatorCommitteeIndex: h(4) % clen}, true
}

// proposerOf is the single proposer of a slot (nil: a validator outside the simulated universe).
func (w *world) proposerOf(slot uint64) *val {
	i := mixh(w.seed, kPro, slot) % uint64(len(w.universe)+2)
	if i < uint64(len(w.universe)) {
		return w.universe[i]
	}
	return nil
}

func (w *world) pro(epoch uint64, v *val) []eth2v1.ProposerDuty {
	var out []eth2v1.ProposerDuty
	for s := epoch * w.spe; s < (epoch+1)*w.spe; s++ {
		if w.proposerOf(s) == v {
			out = append(out, eth2v1.ProposerDuty{PubKey: v.pk, Slot: eth2p0.Slot(s), ValidatorIndex: v.vidx})
		}
	}
	return out
}

func (w *world) sync(epoch uint64, v *val) (eth2v1.SyncCommitteeDuty, bool) {
	p := epoch / w.period
	h := func(salt uint64) uint64 { return mixh(w.seed, kSync, p, uint64(v.vidx), salt) }
	if h(0)%3 != 0 {
		return eth2v1.SyncCommitteeDuty{}, false
	}
	d := eth2v1.SyncCommitteeDuty{PubKey: v.pk, ValidatorIndex: v.vidx}
	for j := uint64(0); j <= h(1)%2; j++ {
		d.ValidatorSyncCommitteeIndices = append(d.ValidatorSyncCommitteeIndices, eth2p0.CommitteeIndex((h(2)+j*7)%64))
	}
	return d, true
}

// answerSet: the validators whose table records the beacon puts into a duties response.
//   - a validator active in the epoch: when asked for (and, as an extra, when not asked for);
//   - a validator outside the cluster: when asked for or as an extra;
//   - a cluster validator that is NOT active in the epoch: only if it is active in no epoch of the run
//     (pending for ever, unknown to the chain, exited before the run) and its activation epoch is not
//     the requested epoch, i.e. only when a correct scheduler can never have it in its active set, not
//     even later when the duties cache serves a retained copy of the record: when asked for by a
//     "lenient" beacon, or as an unrequested extra. Such a record is bogus: the oracle expects it never
//     to be triggered. (Bogus records for validators that activate later in the run would be unsound:
//     the duties cache keeps unrequested records, and a resolution of epoch E that is delayed into
//     epoch E+1 uses the head statuses of E+1, so the stub itself would have manufactured a duty in E
//     for a validator that its own chain activates in E+1.)
func (w *world) answerSet(epoch uint64, req []eth2p0.ValidatorIndex) []*val {
	var out []*val
	for _, v := range w.universe {
		asked := slices.Contains(req, v.vidx)
		switch {
		case !v.cluster:
			if asked {
				verifrt.Probe("scheduler-asked-for-non-cluster-validator")
			}
			if asked || w.extras {
				out = append(out, v)
			}
		case v.activeIn(epoch):
			if asked || w.extras {
				out = append(out, v)
			}
		case w.neverActive(v) && !w.everActive[v.vidx] && v.act != epoch:
			if asked {
				verifrt.Probe("scheduler-asked-for-never-active-validator")
			}
			if (asked && w.lenient) || (!asked && w.extras) {
				verifrt.Probe("beacon-returned-bogus-duty-of-inactive-validator")
				out = append(out, v)
			}
		}
	}
	return out
}

// neverActive: no epoch from the run's first epoch on in which the validator is active.
func (w *world) neverActive(v *val) bool {
	return !v.known || v.act == farFuture || v.exit <= v.act || v.exit <= w.startEpoch
}

func names(vs []*val) string {
	var s []string
	for _, v := range vs {
		s = append(s, v.name)
	}
	return strings.Join(s, ",")
}

// beaconCall is the common prologue of every beacon endpoint: scheduling point, latency, faults.
func (w *world) beaconCall(name string) error {
	verifrt.Yield() // also re-synchronises a goroutine that woke up inside clockwork's Sleep
	if d := verifrt.Intn("n", 3); d > 0 {
		verifrt.Sleep(time.Duration(d) * time.Millisecond)
	}
	if w.faultLvl == 0 || !time.Now().Before(w.faultEnd) {
		return nil
	}
	if w.slowLeft > 0 && verifrt.Chance("f", 1, []int{0, 24, 10, 10}[w.faultLvl]) {
		w.slowLeft--
		d := w.slotDur * time.Duration(10+verifrt.Intn("f", 16)) / 10 // 1.0 .. 2.5 slots
		verifrt.Fault("bn-slow-call")
		verifrt.Note("bn %s: SLOW call, answers after %v", name, d)
		verifrt.Sleep(d)
	}
	if verifrt.Chance("f", []int{0, 1, 3, 6}[w.faultLvl], 12) {
		verifrt.Fault("bn-error-" + name)
		verifrt.Note("bn %s -> ERROR (injected) t=%v", name, w.rel(time.Now()))
		return errors.New("beacon stub: injected failure")
	}
	return nil
}

// client is the eth2wrap.Client handed to the scheduler and to the caches.
type client struct {
	eth2wrap.Client // nil: any endpoint the harness does not expect panics
	w               *world

	valCache func(context.Context) (eth2wrap.ActiveValidators, eth2wrap.CompleteValidators, error)
	proC     func(context.Context, eth2p0.Epoch, []eth2p0.ValidatorIndex) (eth2wrap.ProposerDutyWithMeta, error)
	attC     func(context.Context, eth2p0.Epoch, []eth2p0.ValidatorIndex) (eth2wrap.AttesterDutyWithMeta, error)
	synC     func(context.Context, eth2p0.Epoch, []eth2p0.ValidatorIndex) (eth2wrap.SyncDutyWithMeta, error)
}

// -- beacon endpoints --

func (b *client) Spec(context.Context, *eth2api.SpecOpts) (*eth2api.Response[map[string]any], error) {
	verifrt.Yield()
	return &eth2api.Response[map[string]any]{Data: map[string]any{"SECONDS_PER_SLOT": b.w.slotDur, "SLOTS_PER_EPOCH": b.w.spe}}, nil
}

func (b *client) Genesis(context.Context, *eth2api.GenesisOpts) (*eth2api.Response[*eth2v1.Genesis], error) {
	verifrt.Yield()
	b.w.genesisCalls++
	if b.w.genesisCalls == 1 && b.w.genFail {
		// only the very first call may fail: the second back-off of the start-up loop is jittered with math/rand
		verifrt.Fault("bn-error-genesis")
		return nil, errors.New("beacon stub: injected failure")
	}
	return &eth2api.Response[*eth2v1.Genesis]{Data: &eth2v1.Genesis{GenesisTime: b.w.genesis}}, nil
}

func (b *client) NodeSyncing(context.Context, *eth2api.NodeSyncingOpts) (*eth2api.Response[*eth2v1.SyncState], error) {
	verifrt.Yield()
	w := b.w
	w.syncCalls++
	if w.syncCalls == 1 && w.notReady == 1 {
		verifrt.Fault("bn-syncing")
		verifrt.Note("bn syncing -> still syncing")
		return &eth2api.Response[*eth2v1.SyncState]{Data: &eth2v1.SyncState{HeadSlot: eth2p0.Slot(w.headSlot()), SyncDistance: 5, IsSyncing: true}}, nil
	}
	if w.syncCalls == 1 && w.notReady == 2 {
		verifrt.Fault("bn-error-syncing")
		return nil, errors.New("beacon stub: injected failure")
	}
	return &eth2api.Response[*eth2v1.SyncState]{Data: &eth2v1.SyncState{HeadSlot: eth2p0.Slot(w.headSlot())}}, nil
}

func (w *world) status(v *val, q uint64) eth2v1.ValidatorState {
	switch {
	case q < v.act:
		return eth2v1.ValidatorStatePendingQueued
	case q < v.exit:
		if v.exit != farFuture {
			return eth2v1.ValidatorStateActiveExiting
		}
		return eth2v1.ValidatorStateActiveOngoing
	default:
		return eth2v1.ValidatorStateExitedUnslashed
	}
}

func (b *client) Validators(_ context.Context, opts *eth2api.ValidatorsOpts) (*eth2api.Response[map[eth2p0.ValidatorIndex]*eth2v1.Validator], error) {
	w := b.w
	if err := w.beaconCall("validators"); err != nil {
		return nil, err
	}
	head := w.headSlot()
	stateSlot := head
	if opts.State != "head" {
		s, err := strconv.ParseUint(opts.State, 10, 64)
		if err != nil || s > head {
			verifrt.Note("bn validators state=%s -> state not found (head %d)", opts.State, head)
			return nil, errors.New("beacon stub: state not found")
		}
		stateSlot = s
	}
	q := stateSlot / w.spe
	data := make(map[eth2p0.ValidatorIndex]*eth2v1.Validator)
	var desc []string
	add := func(v *val) {
		if v == nil || !v.known {
			return
		}
		st := w.status(v, q)
		data[v.vidx] = &eth2v1.Validator{Index: v.vidx, Balance: 32_000_000_000, Status: st, Validator: &eth2p0.Validator{
			PublicKey: v.pk, EffectiveBalance: 32_000_000_000, ActivationEligibilityEpoch: 0,
			ActivationEpoch: eth2p0.Epoch(v.act), ExitEpoch: eth2p0.Epoch(v.exit), WithdrawableEpoch: eth2p0.Epoch(farFuture)}}
		if st.IsActive() {
			w.everActive[v.vidx] = true
		}
		desc = append(desc, v.name+"="+st.String())
	}
	if len(opts.PubKeys) == 0 {
		for _, v := range w.universe {
			add(v)
		}
	}
	for _, pk := range opts.PubKeys {
		add(w.byBLS[pk])
	}
	verifrt.Note("bn validators state=%s (epoch %d) -> %s", opts.State, q, strings.Join(desc, " "))
	return &eth2api.Response[map[eth2p0.ValidatorIndex]*eth2v1.Validator]{Data: data, Metadata: map[string]any{}}, nil
}

func (b *client) AttesterDuties(_ context.Context, opts *eth2api.AttesterDutiesOpts) (*eth2api.Response[[]*eth2v1.AttesterDuty], error) {
	w := b.w
	if err := w.beaconCall("attester"); err != nil {
		return nil, err
	}
	set := w.answerSet(uint64(opts.Epoch), opts.Indices)
	var data []*eth2v1.AttesterDuty
	for _, v := range set {
		if d, ok := w.att(uint64(opts.Epoch), v); ok {
			data = append(data, &d)
		}
	}
	verifrt.Note("bn attester e%d %v -> ok [%s] %d duties", opts.Epoch, opts.Indices, names(set), len(data))
	return &eth2api.Response[[]*eth2v1.AttesterDuty]{Data: data, Metadata: map[string]any{}}, nil
}

func (b *client) ProposerDuties(_ context.Context, opts *eth2api.ProposerDutiesOpts) (*eth2api.Response[[]*eth2v1.ProposerDuty], error) {
	w := b.w
	if err := w.beaconCall("proposer"); err != nil {
		return nil, err
	}
	set := w.answerSet(uint64(opts.Epoch), opts.Indices)
	var data []*eth2v1.ProposerDuty
	for _, v := range set {
		for _, d := range w.pro(uint64(opts.Epoch), v) {
			data = append(data, &d)
		}
	}
	verifrt.Note("bn proposer e%d %v -> ok [%s] %d duties", opts.Epoch, opts.Indices, names(set), len(data))
	return &eth2api.Response[[]*eth2v1.ProposerDuty]{Data: data, Metadata: map[string]any{}}, nil
}

func (b *client) SyncCommitteeDuties(_ context.Context, opts *eth2api.SyncCommitteeDutiesOpts) (*eth2api.Response[[]*eth2v1.SyncCommitteeDuty], error) {
	w := b.w
	if err := w.beaconCall("sync"); err != nil {
		return nil, err
	}
	set := w.answerSet(uint64(opts.Epoch), opts.Indices)
	var data []*eth2v1.SyncCommitteeDuty
	for _, v := range set {
		if d, ok := w.sync(uint64(opts.Epoch), v); ok {
			data = append(data, &d)
		}
	}
	verifrt.Note("bn sync e%d %v -> ok [%s] %d duties", opts.Epoch, opts.Indices, names(set), len(data))
	return &eth2api.Response[[]*eth2v1.SyncCommitteeDuty]{Data: data, Metadata: map[string]any{}}, nil
}

func (b *client) SubmitValidatorRegistrations(context.Context, []*eth2api.VersionedSignedValidatorRegistration) error {
	return b.w.beaconCall("registrations")
}

// -- cache plumbing exactly as eth2wrap's httpAdapter does it; observation point of the scheduler's calls --

func (b *client) SetValidatorCache(f func(context.Context) (eth2wrap.ActiveValidators, eth2wrap.CompleteValidators, error)) {
	b.valCache = f
}

func (b *client) SetDutiesCache(
	pro func(context.Context, eth2p0.Epoch, []eth2p0.ValidatorIndex) (eth2wrap.ProposerDutyWithMeta, error),
	att func(context.Context, eth2p0.Epoch, []eth2p0.ValidatorIndex) (eth2wrap.AttesterDutyWithMeta, error),
	syn func(context.Context, eth2p0.Epoch, []eth2p0.ValidatorIndex) (eth2wrap.SyncDutyWithMeta, error),
) {
	b.proC, b.attC, b.synC = pro, att, syn
}

func (b *client) ActiveValidators(ctx context.Context) (eth2wrap.ActiveValidators, error) {
	a, _, err := b.valCache(ctx)
	return a, err
}

func (b *client) CompleteValidators(ctx context.Context) (eth2wrap.CompleteValidators, error) {
	_, complete, err := b.valCache(ctx)
	w := b.w
	if err != nil {
		w.cur = nil
		w.noteFail()
		verifrt.Note("sched validators -> ERROR")
		return complete, err
	}
	snap := make(map[eth2p0.ValidatorIndex]valSnap)
	var desc []string
	for _, v := range w.cluster {
		if x, ok := complete[v.vidx]; ok && x != nil && x.Validator != nil {
			snap[v.vidx] = valSnap{active: x.Status.IsActive(), actEpoch: uint64(x.Validator.ActivationEpoch)}
			desc = append(desc, fmt.Sprintf("%s=%s", v.name, x.Status))
		}
	}
	w.cur = &attempt{stage: 1, snap: snap}
	verifrt.Note("sched validators -> ok %s", strings.Join(desc, " "))
	return complete, err
}

func (w *world) noteFail() {
	if !w.failPending {
		w.failPending, w.failSlot = true, w.headSlot()
	}
}

func (w *world) onDuties(kind int, epoch uint64, idxs []eth2p0.ValidatorIndex, n int, err error) {
	if err != nil {
		w.cur = nil
		w.noteFail()
		verifrt.Note("sched %s-duties e%d %v -> ERROR", kindName[kind], epoch, idxs)
		return
	}
	verifrt.Note("sched %s-duties e%d %v -> ok %d duties", kindName[kind], epoch, idxs, n)
	a := w.cur
	switch {
	case a != nil && kind == kAtt && a.stage == 1:
		a.stage, a.epoch = 2, epoch
	case a != nil && kind == kPro && a.stage == 2 && a.epoch == epoch:
		a.stage = 3
	case a != nil && kind == kSync && a.stage == 3 && a.epoch == epoch:
		w.ress = append(w.ress, resRec{epoch: epoch, done: time.Now(), snap: a.snap})
		w.cur = nil
		verifrt.Note("RESOLVED e%d completely at t=%v", epoch, w.rel(time.Now()))
		if w.failPending {
			if w.headSlot() == w.failSlot+1 {
				verifrt.Probe("resolution-failed-then-succeeded-next-slot")
			} else {
				verifrt.Probe("resolution-failed-then-succeeded")
			}
			w.failPending = false
		}
	default:
		w.cur = nil
	}
}

func (b *client) AttesterDutiesCache(ctx context.Context, epoch eth2p0.Epoch, vidxs []eth2p0.ValidatorIndex) (eth2wrap.AttesterDutyWithMeta, error) {
	r, err := b.attC(ctx, epoch, vidxs)
	b.w.onDuties(kAtt, uint64(epoch), vidxs, len(r.Duties), err)
	return r, err
}

func (b *client) ProposerDutiesCache(ctx context.Context, epoch eth2p0.Epoch, vidxs []eth2p0.ValidatorIndex) (eth2wrap.ProposerDutyWithMeta, error) {
	r, err := b.proC(ctx, epoch, vidxs)
	b.w.onDuties(kPro, uint64(epoch), vidxs, len(r.Duties), err)
	return r, err
}

func (b *client) SyncCommDutiesCache(ctx context.Context, epoch eth2p0.Epoch, vidxs []eth2p0.ValidatorIndex) (eth2wrap.SyncDutyWithMeta, error) {
	r, err := b.synC(ctx, epoch, vidxs)
	b.w.onDuties(kSync, uint64(epoch), vidxs, len(r.Duties), err)
	return r, err
}

type noRegs struct{}

func (noRegs) Registrations() []*eth2api.VersionedSignedValidatorRegistration { return nil }

// ---- body ----------------------------------------------------------------------------------------

func body(c *kernel.Ctx) {
	w := &world{c: c, t0: time.Now(), byPK: map[core.PubKey]*val{}, byBLS: map[eth2p0.BLSPubKey]*val{}, everActive: map[eth2p0.ValidatorIndex]bool{}}
	w.spe = 4 + uint64(verifrt.Intn("cfg", 5))
	w.slotDur = time.Duration(4+verifrt.Intn("cfg", 9)) * time.Second
	nEpochs := 3 + verifrt.Intn("cfg", 4)
	startEpoch := uint64(verifrt.Intn("cfg", 5))
	w.startEpoch = startEpoch
	startInEpoch := uint64(verifrt.Intn("cfg", int(w.spe)))
	intoSlot := w.slotDur * time.Duration(verifrt.Intn("cfg", 1000)) / 1000
	w.genesis = w.t0.Add(-time.Duration(startEpoch*w.spe+startInEpoch)*w.slotDur - intoSlot)
	w.period = 1 + uint64(verifrt.Intn("cfg", 3))
	w.seed = uint64(verifrt.Intn("cfg", 1<<16))
	nCluster := 1 + verifrt.Intn("cfg", 4)
	nOther := verifrt.Intn("cfg", 3)
	for i := 0; i < nCluster; i++ {
		v := mkVal(fmt.Sprintf("c%d", i), uint64(100+7*i), true)
		mid := func() uint64 { return startEpoch + 1 + uint64(verifrt.Intn("cfg", nEpochs)) }
		switch k := verifrt.Intn("cfg", 10); k {
		case 4: // activates during the run
			v.act = mid()
		case 5: // exits during the run
			v.exit = mid()
		case 6: // activates and exits
			v.act = mid()
			v.exit = v.act + 1 + uint64(verifrt.Intn("cfg", 2))
		case 7: // pending for ever
			v.act = farFuture
		case 8: // unknown to the beacon chain
			v.known, v.act = false, farFuture
		case 9: // exited before the run started
			v.exit = startEpoch
		}
		w.cluster = append(w.cluster, v)
	}
	for j := 0; j < nOther; j++ {
		w.others = append(w.others, mkVal(fmt.Sprintf("o%d", j), uint64(500+j), false))
	}
	w.universe = append(append([]*val{}, w.cluster...), w.others...)
	for _, v := range w.universe {
		w.byPK[v.cpk], w.byBLS[v.pk] = v, v
	}
	w.extras = verifrt.Intn("cfg", 3) == 2
	w.lenient = verifrt.Intn("cfg", 3) == 2
	w.faultLvl = verifrt.Intn("cfg", 4)
	stalls := 0
	if w.faultLvl > 0 {
		stalls = verifrt.Intn("cfg", 3)
		w.notReady = verifrt.Intn("cfg", 3)
		w.genFail = verifrt.Intn("cfg", 4) == 3
		w.slowLeft = 4
	}
	reorgs := 0
	if verifrt.Intn("cfg", 4) == 3 {
		reorgs = 1 + verifrt.Intn("cfg", 3)
	}
	builder := verifrt.Intn("cfg", 4) == 3
	// alpha feature flags of the scheduler (process-global: set explicitly in every run). fetchMode: bit 0 =
	// fetch_att_on_block, bit 1 = fetch_att_on_block_with_delay (head events then cause early fetch-only calls and
	// the attester duty waits on another code path); reorgDuties = sse_reorg_duties (a reorg event drops the
	// resolved epoch's duties, which are resolved again at the next slot)
	fetchMode := 0
	if verifrt.Intn("cfg", 3) == 2 {
		fetchMode = 1 + verifrt.Intn("cfg", 3)
	}
	reorgDuties := verifrt.Intn("cfg", 3) == 2
	setFlag := func(f featureset.Feature, on bool) {
		if on {
			featureset.EnableForT(c.T, f)
		} else {
			featureset.DisableForT(c.T, f)
		}
	}
	setFlag(featureset.FetchAttOnBlock, fetchMode&1 != 0)
	setFlag(featureset.FetchAttOnBlockWithDelay, fetchMode&2 != 0)
	setFlag(featureset.SSEReorgDuties, reorgDuties)
	if reorgDuties && reorgs == 0 && verifrt.Intn("cfg", 2) == 1 {
		reorgs = 1 + verifrt.Intn("cfg", 3)
	}
	runSlots := uint64(nEpochs) * w.spe
	w.faultEnd = w.t0.Add(time.Duration(runSlots) * w.slotDur)
	maxBlock := w.slotDur * 25 / 10 // longest slow call / stall
	end := w.faultEnd.Add(maxBlock + 2*w.slotDur)

	var lc []string
	for _, v := range w.cluster {
		lc = append(lc, fmt.Sprintf("%s[v%d known=%v act=%d exit=%d]", v.name, v.vidx, v.known, int64(v.act), int64(v.exit)))
	}
	verifrt.Note("cfg spe=%d slot=%v start=e%d+%d+%v epochs=%d period=%d extras=%v lenient=%v faults=%d stalls=%d reorgs=%d builder=%v fetch_on_block=%d sse_reorg_duties=%v cluster=%s others=%d",
		w.spe, w.slotDur, startEpoch, startInEpoch, intoSlot, nEpochs, w.period, w.extras, w.lenient, w.faultLvl, stalls, reorgs, builder, fetchMode, reorgDuties, strings.Join(lc, " "), nOther)

	ctx, cancel := context.WithCancel(context.Background())
	defer cancel()

	// --- production wiring (app.go) over the stub ---
	cl := &client{w: w}
	sched, err := scheduler.New(noRegs{}, cl, builder)
	if err != nil {
		c.Violate("*", "harness", "scheduler-new-failed", "%v", err)
		return
	}
	var pubkeys []eth2p0.BLSPubKey
	for _, v := range w.cluster {
		pubkeys = append(pubkeys, v.pk)
	}
	valCache := eth2wrap.NewValidatorCache(cl, pubkeys)
	cl.SetValidatorCache(valCache.GetByHead)
	dutiesCache := eth2wrap.NewDutiesCache(cl, []eth2p0.ValidatorIndex{})
	cl.SetDutiesCache(dutiesCache.ProposerDutiesCache, dutiesCache.AttesterDutiesCache, dutiesCache.SyncCommDutiesCache)

	firstCacheRefresh, refreshedBySlot := true, true
	var fvcrLock sync.RWMutex
	shouldUpdateCache := func(slot core.Slot) bool {
		verifrt.RWRLock(&fvcrLock)
		defer verifrt.RWRUnlock(&fvcrLock)
		return slot.FirstInEpoch() || firstCacheRefresh || !refreshedBySlot
	}
	sched.SubscribeSlots(func(ctx context.Context, slot core.Slot) error {
		if !shouldUpdateCache(slot) {
			return nil
		}
		verifrt.RWLock(&fvcrLock)
		defer verifrt.RWUnlock(&fvcrLock)
		slotToFetch := slot.Slot
		if !refreshedBySlot {
			slotToFetch = slot.Epoch() * slot.SlotsPerEpoch
		}
		valCache.Trim()
		dutiesCache.Trim(eth2p0.Epoch(slot.Epoch()))
		active, _, refresh, err := valCache.GetBySlot(ctx, slotToFetch)
		if err != nil {
			verifrt.Note("valcache refresh at slot %d FAILED", slot.Slot)
			return err
		}
		dutiesCache.UpdateActiveValIndices(active.Indices())
		refreshedBySlot, firstCacheRefresh = refresh, false
		verifrt.Note("valcache refreshed at slot %d (state %d, by-slot=%v)", slot.Slot, slotToFetch, refresh)
		return nil
	})

	// --- observers ---
	sched.SubscribeSlots(func(_ context.Context, slot core.Slot) error {
		now := time.Now()
		w.mu.Lock()
		if n := len(w.ticks); n > 0 {
			last := w.ticks[n-1].slot
			if slot.Slot > last+1 {
				verifrt.Probe("missed-tick")
			}
			if slot.Slot/w.spe != last/w.spe {
				verifrt.Probe("epoch-boundary-crossed")
			}
		}
		w.ticks = append(w.ticks, tickRec{slot.Slot, now})
		w.mu.Unlock()
		verifrt.Note("TICK slot %d (e%d+%d) at slot+%v", slot.Slot, slot.Slot/w.spe, slot.Slot%w.spe, now.Sub(w.slotStart(slot.Slot)))
		return nil
	})
	if verifrt.Intn("cfg", 2) == 1 {
		// another duty subscriber, registered first, that treats the set it is handed as its own: it overwrites
		// what is reachable from it in place and empties it. The scheduler's stored definitions, what the
		// observer below receives and what later slots carry must be unaffected.
		sched.SubscribeDuties(func(_ context.Context, _ core.Duty, set core.DutyDefinitionSet) error {
			verifrt.Probe("mutating-subscriber-ran")
			var pks []core.PubKey
			for pk := range set {
				pks = append(pks, pk)
			}
			for _, pk := range pks {
				if sd, ok := set[pk].(core.SyncCommitteeDefinition); ok {
					for i := range sd.ValidatorSyncCommitteeIndices {
						sd.ValidatorSyncCommitteeIndices[i] = 9999
					}
				}
				delete(set, pk)
			}
			return nil
		})
	}
	sched.SubscribeDuties(func(_ context.Context, duty core.Duty, set core.DutyDefinitionSet) error {
		now := time.Now()
		rec := trigRec{duty: duty, t: now, defs: map[core.PubKey]core.DutyDefinition{}}
		var who []string
		for pk, d := range set {
			rec.defs[pk] = d
			if v := w.byPK[pk]; v != nil {
				who = append(who, v.name)
			} else {
				who = append(who, "?")
			}
		}
		sort.Strings(who)
		w.mu.Lock()
		w.trigs = append(w.trigs, rec)
		w.mu.Unlock()
		verifrt.Note("TRIGGER %d/%s [%s] at slot+%v", duty.Slot, duty.Type, strings.Join(who, ","), now.Sub(w.slotStart(duty.Slot)))
		c.Progress()
		return nil
	})

	// --- the fetcher's fetch-only entry point (early attestation data fetch on head events) and the SSE head events ---
	sched.RegisterFetcherFetchOnly(func(_ context.Context, duty core.Duty, set core.DutyDefinitionSet, _ string, _ eth2p0.Root) error {
		now := time.Now()
		rec := trigRec{duty: duty, t: now, defs: map[core.PubKey]core.DutyDefinition{}}
		for pk, d := range set {
			rec.defs[pk] = d
		}
		w.mu.Lock()
		w.fetches = append(w.fetches, rec)
		w.mu.Unlock()
		verifrt.Probe("fetch-only-call")
		verifrt.Note("FETCH-ONLY %d/%s (%d defs) at slot+%v", duty.Slot, duty.Type, len(set), now.Sub(w.slotStart(duty.Slot)))
		verifrt.Sleep(time.Duration(verifrt.Intn("w", 900)) * time.Millisecond)
		if verifrt.Intn("w", 5) == 4 {
			return errors.New("beacon stub: early attestation data fetch failed")
		}
		return nil
	})
	if fetchMode != 0 || verifrt.Intn("cfg", 4) == 3 { // head events also arrive when the flags are off
		verifrt.Go(func() {
			for time.Now().Before(w.faultEnd) {
				s := w.headSlot()
				into := w.slotDur * time.Duration(verifrt.Intn("w", 100)) / 100
				if d := time.Until(w.slotStart(s).Add(into)); d > 0 {
					verifrt.Sleep(d)
				}
				switch k := verifrt.Intn("w", 8); {
				case k == 7: // no block in this slot
				case k == 6 && s > 0: // a late head event for the previous slot
					sched.HandleHeadEvent(ctx, eth2p0.Slot(s-1), eth2p0.Root{byte(s)}, "bn0")
				case k == 5: // two beacon nodes report the same head
					sched.HandleHeadEvent(ctx, eth2p0.Slot(s), eth2p0.Root{byte(s)}, "bn0")
					sched.HandleHeadEvent(ctx, eth2p0.Slot(s), eth2p0.Root{byte(s)}, "bn1")
				default:
					sched.HandleHeadEvent(ctx, eth2p0.Slot(s), eth2p0.Root{byte(s)}, "bn0")
				}
				verifrt.Probe("head-event")
				if d := time.Until(w.slotStart(s + 1)); d > 0 {
					verifrt.Sleep(d)
				}
			}
		})
	}

	// --- query clients: GetDutyDefinition is the second way a resolved duty's definition set leaves the scheduler
	// (the validator API asks it for every submission). Clients ask for duties around the head slot, of derived and
	// other types, at seeded instants - also while an epoch is being resolved, after a reorg dropped it, and after
	// it was trimmed - and then treat the returned set as their own (overwrite and empty it).
	for q, nq := 0, verifrt.Intn("cfg", 3); q < nq; q++ {
		verifrt.Go(func() {
			qTypes := append(append([]core.DutyType{}, derivedTypes...), core.DutyRandao, core.DutyPrepareAggregator, core.DutySyncMessage)
			for time.Now().Before(w.faultEnd) {
				verifrt.Sleep(w.slotDur * time.Duration(1+verifrt.Intn("w", 300)) / 100)
				head := int(w.headSlot())
				slot := head - int(w.spe) + verifrt.Intn("w", 3*int(w.spe))
				if k := verifrt.Intn("w", 4); k == 0 {
					slot = head
				} else if k == 1 {
					slot = head + 1
				}
				if slot < 0 {
					slot = 0
				}
				ti := verifrt.Intn("w", len(qTypes)+4)
				if ti >= len(qTypes) {
					ti %= len(derivedTypes)
				}
				duty := core.Duty{Slot: uint64(slot), Type: qTypes[ti]}
				qctx, qcancel := context.WithTimeout(ctx, w.slotDur*time.Duration(1+verifrt.Intn("w", 30))/10)
				rec := getRec{duty: duty, t0: time.Now(), defs: map[core.PubKey]core.DutyDefinition{}}
				set, err := sched.GetDutyDefinition(qctx, duty)
				qcancel()
				rec.t1, rec.err = time.Now(), err
				var pks []core.PubKey
				for pk := range set {
					pks = append(pks, pk)
				}
				slices.Sort(pks)
				for _, pk := range pks {
					cl, cerr := set[pk].Clone()
					if cerr != nil {
						cl = set[pk]
					}
					rec.defs[pk] = cl
					if sd, ok := set[pk].(core.SyncCommitteeDefinition); ok {
						for i := range sd.ValidatorSyncCommitteeIndices {
							sd.ValidatorSyncCommitteeIndices[i] = 7777
						}
					}
					delete(set, pk)
				}
				w.mu.Lock()
				w.gets = append(w.gets, rec)
				w.mu.Unlock()
				verifrt.Note("GET %d/%s -> %d defs err=%v (took %v)", duty.Slot, duty.Type, len(rec.defs), err != nil, rec.t1.Sub(rec.t0))
			}
		})
	}

	// --- validator clients' duty requests: the validator API serves them from the SAME duties cache the scheduler
	// resolves epochs through (app.go wires one cache into both). Requests for subsets of the validators, for the
	// current and the next epoch, at seeded instants leave the cache partially filled when the scheduler asks for
	// all validators of the epoch - which must not change what the scheduler resolves.
	for q, nq := 0, verifrt.Intn("cfg", 3); q < nq; q++ {
		verifrt.Go(func() {
			for time.Now().Before(w.faultEnd) {
				verifrt.Sleep(w.slotDur * time.Duration(1+verifrt.Intn("w", 250)) / 100)
				epoch := eth2p0.Epoch(w.headSlot()/w.spe + uint64(verifrt.Intn("w", 2)))
				var idxs []eth2p0.ValidatorIndex
				mask := 1 + verifrt.Intn("w", (1<<len(w.universe))-1)
				for i, v := range w.universe {
					if mask&(1<<i) != 0 {
						idxs = append(idxs, v.vidx)
					}
				}
				qctx, qcancel := context.WithTimeout(ctx, w.slotDur*time.Duration(1+verifrt.Intn("w", 30))/10)
				var err error
				kind := verifrt.Intn("w", 3)
				// like the validator API, the requester then rewrites the public keys in what it was given (the
				// validator client knows share keys, not group keys) - in place, the answer being its own copy
				share := eth2p0.BLSPubKey{0xee, byte(q), 0x01}
				switch kind {
				case 0:
					var r eth2wrap.AttesterDutyWithMeta
					r, err = dutiesCache.AttesterDutiesCache(qctx, epoch, idxs)
					for _, d := range r.Duties {
						if d != nil {
							d.PubKey = share
						}
					}
				case 1:
					var r eth2wrap.ProposerDutyWithMeta
					r, err = dutiesCache.ProposerDutiesCache(qctx, epoch, idxs)
					for _, d := range r.Duties {
						if d != nil {
							d.PubKey = share
						}
					}
				default:
					var r eth2wrap.SyncDutyWithMeta
					r, err = dutiesCache.SyncCommDutiesCache(qctx, epoch, idxs)
					for _, d := range r.Duties {
						if d != nil {
							d.PubKey = share
							for i := range d.ValidatorSyncCommitteeIndices {
								d.ValidatorSyncCommitteeIndices[i] = 8888
							}
						}
					}
				}
				qcancel()
				verifrt.Probe("vc-duties-request-through-shared-cache")
				verifrt.Note("VC duties request kind %d e%d %v -> err=%v", kind, epoch, idxs, err != nil)
			}
		})
	}

	var runErr error
	running := true
	verifrt.GoNode("sched", func() {
		runErr = sched.Run()
		running = false
	})

	// --- faults that are not beacon answers: the scheduler's process does not run for more than a slot ---
	if stalls > 0 {
		verifrt.Go(func() {
			for i := 0; i < stalls; i++ {
				verifrt.Sleep(w.slotDur * time.Duration(1+verifrt.Intn("f", int(runSlots)*10/stalls)) / 10)
				d := w.slotDur * time.Duration(11+verifrt.Intn("f", 15)) / 10 // 1.1 .. 2.5 slots
				if !time.Now().Before(w.faultEnd) {
					return
				}
				verifrt.Note("STALL scheduler node for %v at t=%v", d, w.rel(time.Now()))
				verifrt.Stall("sched", d)
				verifrt.Sleep(d)
			}
		})
	}
	// --- chain reorg events as the SSE listener delivers them (feature flag at its default) ---
	if reorgs > 0 {
		verifrt.Go(func() {
			for i := 0; i < reorgs; i++ {
				verifrt.Sleep(w.slotDur * time.Duration(1+verifrt.Intn("w", int(runSlots)*10/reorgs)) / 10)
				if !time.Now().Before(w.faultEnd) {
					return
				}
				e := w.headSlot() / w.spe
				if e > 0 && verifrt.Intn("w", 2) == 0 {
					e--
				}
				verifrt.Probe("reorg-event")
				verifrt.Note("REORG event epoch %d", e)
				if reorgDuties {
					verifrt.Probe("reorg-event-with-sse-reorg-duties")
					w.mu.Lock()
					w.trims = append(w.trims, time.Now())
					w.mu.Unlock()
				}
				sched.HandleChainReorgEvent(ctx, eth2p0.Epoch(e))
				dutiesCache.InvalidateCache(ctx, eth2p0.Epoch(e))
			}
		})
	}

	verifrt.Sleep(end.Sub(time.Now()))
	w.mu.Lock()
	w.check(end)
	w.mu.Unlock()
	if !running {
		c.Set("run_returned_early", fmt.Sprint(runErr))
	}
	c.Set("slots_per_epoch", w.spe)
	c.Set("slot_s", int(w.slotDur/time.Second))
	c.Set("epochs", nEpochs)
	c.Set("cluster", nCluster)
	c.Set("fault_level", w.faultLvl)
	c.Set("fetch_att_on_block_mode", fetchMode)
	c.Set("sse_reorg_duties", reorgDuties)
	c.Set("ticks", len(w.ticks))
	c.Set("triggers", len(w.trigs))
	c.Set("resolutions", len(w.ress))
	sched.Stop()
	cancel()
	verifrt.Sleep(time.Millisecond)
}

// ---- oracles -------------------------------------------------------------------------------------

// offsetOf restates the documented trigger offsets: attester 1/3 slot, aggregator and sync
// contribution 2/3 slot, proposer at the start of the slot. These four are the duty types the
// scheduler derives from beacon assignments (aggregator from the attester duty, sync contribution for
// every slot of the epoch from the sync committee duty).
func offsetOf(t core.DutyType, slotDur time.Duration) (time.Duration, bool) {
	switch t {
	case core.DutyAttester:
		return slotDur / 3, true
	case core.DutyAggregator, core.DutySyncContribution:
		return slotDur * 2 / 3, true
	case core.DutyProposer:
		return 0, true
	}
	return 0, false
}

var derivedTypes = []core.DutyType{core.DutyProposer, core.DutyAttester, core.DutyAggregator, core.DutySyncContribution}

// expected is the beacon's assignment for (type, slot) restricted to cluster validators active in the epoch.
func (w *world) expected(t core.DutyType, slot uint64) map[core.PubKey]core.DutyDefinition {
	out := map[core.PubKey]core.DutyDefinition{}
	epoch := slot / w.spe
	for _, v := range w.cluster {
		if !v.activeIn(epoch) {
			continue
		}
		switch t {
		case core.DutyAttester, core.DutyAggregator:
			if d, ok := w.att(epoch, v); ok && uint64(d.Slot) == slot {
				out[v.cpk] = core.NewAttesterDefinition(&d)
			}
		case core.DutyProposer:
			if w.proposerOf(slot) == v {
				out[v.cpk] = core.NewProposerDefinition(&eth2v1.ProposerDuty{PubKey: v.pk, Slot: eth2p0.Slot(slot), ValidatorIndex: v.vidx})
			}
		case core.DutySyncContribution:
			if d, ok := w.sync(epoch, v); ok {
				out[v.cpk] = core.NewSyncCommitteeDefinition(&d)
			}
		}
	}
	return out
}

func sameDef(a, b core.DutyDefinition) (sameKind, equal bool) {
	switch x := a.(type) {
	case core.AttesterDefinition:
		y, ok := b.(core.AttesterDefinition)
		return ok, ok && x.AttesterDuty == y.AttesterDuty
	case core.ProposerDefinition:
		y, ok := b.(core.ProposerDefinition)
		return ok, ok && x.ProposerDuty == y.ProposerDuty
	case core.SyncCommitteeDefinition:
		y, ok := b.(core.SyncCommitteeDefinition)
		return ok, ok && x.PubKey == y.PubKey && x.ValidatorIndex == y.ValidatorIndex && slices.Equal(x.ValidatorSyncCommitteeIndices, y.ValidatorSyncCommitteeIndices)
	}
	return false, false
}

func defStr(d core.DutyDefinition) string {
	switch x := d.(type) {
	case core.AttesterDefinition:
		return fmt.Sprintf("att{v%d slot=%d ci=%d clen=%d cas=%d vci=%d pk=%x}", x.ValidatorIndex, x.Slot, x.CommitteeIndex, x.CommitteeLength, x.CommitteesAtSlot, x.ValidatorCommitteeIndex, x.PubKey[:3])
	case core.ProposerDefinition:
		return fmt.Sprintf("pro{v%d slot=%d pk=%x}", x.ValidatorIndex, x.Slot, x.PubKey[:3])
	case core.SyncCommitteeDefinition:
		return fmt.Sprintf("sync{v%d idxs=%v pk=%x}", x.ValidatorIndex, x.ValidatorSyncCommitteeIndices, x.PubKey[:3])
	}
	return fmt.Sprintf("%T", d)
}

func (w *world) check(end time.Time) {
	c := w.c
	trigBy := map[core.Duty][]trigRec{}
	var order []core.Duty
	for _, r := range w.trigs {
		if _, ok := trigBy[r.duty]; !ok {
			order = append(order, r.duty)
		}
		trigBy[r.duty] = append(trigBy[r.duty], r)
	}
	where := func(d core.Duty) string {
		return fmt.Sprintf("%d/%s (epoch %d slot-in-epoch %d)", d.Slot, d.Type, d.Slot/w.spe, d.Slot%w.spe)
	}

	// (O1) never twice
	for _, d := range order {
		if rs := trigBy[d]; len(rs) > 1 {
			c.Violate("C15", "triggered-twice", d.Type.String(), "duty %s was triggered %d times: at slot+%v and at slot+%v", where(d), len(rs),
				rs[0].t.Sub(w.slotStart(d.Slot)), rs[1].t.Sub(w.slotStart(d.Slot)))
		}
	}

	// (O2) what is triggered is the beacon's assignment to active cluster validators, unaltered; (O3) not early
	for _, r := range w.trigs {
		d := r.duty
		off, derived := offsetOf(d.Type, w.slotDur)
		if !derived {
			c.Violate("C15", "definition-set", "underived-duty-type/"+d.Type.String(), "duty %s was triggered; the scheduler derives only proposer, attester, aggregator and sync contribution duties from beacon assignments", where(d))
			continue
		}
		if r.t.Before(w.slotStart(d.Slot).Add(off)) {
			c.Violate("C15", "not-before-offset", d.Type.String(), "duty %s was triggered at slot+%v, before its offset %v into the slot (slot duration %v)", where(d), r.t.Sub(w.slotStart(d.Slot)), off, w.slotDur)
		}
		exp := w.expected(d.Type, d.Slot)
		if len(r.defs) == 0 {
			c.Violate("C15", "definition-set", "empty-set/"+d.Type.String(), "duty %s was triggered with an empty definition set", where(d))
		}
		pks := make([]core.PubKey, 0, len(r.defs))
		for pk := range r.defs {
			pks = append(pks, pk)
		}
		slices.Sort(pks)
		for _, pk := range pks {
			got := r.defs[pk]
			v := w.byPK[pk]
			switch {
			case v == nil || !v.cluster:
				name := "unknown pubkey " + pk.String()
				if v != nil {
					name = v.name
				}
				c.Violate("C15", "definition-set", "non-cluster-validator/"+d.Type.String(), "duty %s was triggered with a definition for %s, which is not a cluster validator: %s", where(d), name, defStr(got))
			case !v.activeIn(d.Slot / w.spe):
				c.Violate("C15", "definition-set", "inactive-validator/"+d.Type.String(), "duty %s was triggered with a definition for %s (v%d), which is not active in epoch %d (known=%v, active in epochs [%d,%d)): %s", where(d), v.name, v.vidx, d.Slot/w.spe, v.known, int64(v.act), int64(v.exit), defStr(got))
			case exp[pk] == nil:
				c.Violate("C15", "definition-set", "unassigned-slot/"+d.Type.String(), "duty %s was triggered with a definition for %s (v%d), to which the beacon node assigned no such duty in that slot: %s", where(d), v.name, v.vidx, defStr(got))
			default:
				kind, eq := sameDef(got, exp[pk])
				if !kind {
					c.Violate("C15", "definition-set", "wrong-definition-kind/"+d.Type.String(), "duty %s carries for %s a definition of kind %T, expected %T", where(d), v.name, got, exp[pk])
				} else if !eq {
					c.Violate("C15", "definition-set", "altered-definition/"+d.Type.String(), "duty %s carries for %s the definition %s, the beacon node's assignment is %s", where(d), v.name, defStr(got), defStr(exp[pk]))
				}
			}
		}
	}

	// (O2') an early fetch-only call (head event) carries an attester duty's definitions, unaltered
	for _, r := range w.fetches {
		d := r.duty
		if d.Type != core.DutyAttester {
			c.Violate("C15", "definition-set", "fetch-only/underived-duty-type/"+d.Type.String(), "the early fetch was called for duty %s; only attester duties are fetched on head events", where(d))
			continue
		}
		exp := w.expected(d.Type, d.Slot)
		pks := make([]core.PubKey, 0, len(r.defs))
		for pk := range r.defs {
			pks = append(pks, pk)
		}
		slices.Sort(pks)
		for _, pk := range pks {
			got := r.defs[pk]
			v := w.byPK[pk]
			switch {
			case v == nil || !v.cluster:
				c.Violate("C15", "definition-set", "fetch-only/non-cluster-validator", "the early fetch for duty %s carries a definition for a validator outside the cluster: %s", where(d), defStr(got))
			case !v.activeIn(d.Slot / w.spe):
				c.Violate("C15", "definition-set", "fetch-only/inactive-validator", "the early fetch for duty %s carries a definition for %s, which is not active in epoch %d: %s", where(d), v.name, d.Slot/w.spe, defStr(got))
			case exp[pk] == nil:
				c.Violate("C15", "definition-set", "fetch-only/unassigned-slot", "the early fetch for duty %s carries a definition for %s, to which the beacon node assigned no such duty in that slot: %s", where(d), v.name, defStr(got))
			default:
				if kind, eq := sameDef(got, exp[pk]); !kind || !eq {
					c.Violate("C15", "definition-set", "fetch-only/altered-definition", "the early fetch for duty %s carries for %s the definition %s, the beacon node's assignment is %s", where(d), v.name, defStr(got), defStr(exp[pk]))
				}
			}
		}
	}

	// (O2'') what GetDutyDefinition hands out is the beacon's assignment to active cluster validators, unaltered
	for _, g := range w.gets {
		d := g.duty
		if g.err != nil {
			switch {
			case errors.Is(g.err, core.ErrNotFound):
				verifrt.Probe("get-definition:not-found")
				// a duty that had been triggered is still there unless a reorg dropped the epoch's duties (and an
				// epoch that was trimmed is refused with another error)
				for _, r := range trigBy[d] {
					if len(r.defs) == 0 || !r.t.Before(g.t0) {
						continue
					}
					dropped := false
					for _, te := range w.trims {
						if !te.Before(r.t.Add(-w.slotDur*3)) && !te.After(g.t1) {
							dropped = true
						}
					}
					if !dropped {
						c.Violate("C15", "definition-set", "get-definition/not-found-after-trigger/"+d.Type.String(), "GetDutyDefinition(%s) called at t=%v answered 'not found' although the duty had been triggered at t=%v with %d definitions and no reorg dropped the epoch in between", where(d), w.rel(g.t0), w.rel(r.t), len(r.defs))
					}
				}
			case errors.Is(g.err, context.DeadlineExceeded) || errors.Is(g.err, context.Canceled):
				verifrt.Probe("get-definition:context-ended-while-waiting")
			default:
				verifrt.Probe("get-definition:refused")
			}
			continue
		}
		verifrt.Probe("get-definition:ok")
		if g.t1.After(g.t0) {
			verifrt.Probe("get-definition:ok-after-waiting-for-resolution")
		}
		if _, derived := offsetOf(d.Type, w.slotDur); !derived {
			c.Violate("C15", "definition-set", "get-definition/underived-duty-type/"+d.Type.String(), "GetDutyDefinition(%s) returned %d definitions; the scheduler derives only proposer, attester, aggregator and sync contribution duties from beacon assignments", where(d), len(g.defs))
			continue
		}
		if len(g.defs) == 0 {
			c.Violate("C15", "definition-set", "get-definition/empty-set/"+d.Type.String(), "GetDutyDefinition(%s) succeeded with an empty definition set", where(d))
		}
		exp := w.expected(d.Type, d.Slot)
		pks := make([]core.PubKey, 0, len(g.defs))
		for pk := range g.defs {
			pks = append(pks, pk)
		}
		slices.Sort(pks)
		for _, pk := range pks {
			got := g.defs[pk]
			v := w.byPK[pk]
			switch {
			case v == nil || !v.cluster:
				c.Violate("C15", "definition-set", "get-definition/non-cluster-validator/"+d.Type.String(), "GetDutyDefinition(%s) returned a definition for a validator outside the cluster: %s", where(d), defStr(got))
			case !v.activeIn(d.Slot / w.spe):
				c.Violate("C15", "definition-set", "get-definition/inactive-validator/"+d.Type.String(), "GetDutyDefinition(%s) returned a definition for %s (v%d), which is not active in epoch %d (known=%v, active in epochs [%d,%d)): %s", where(d), v.name, v.vidx, d.Slot/w.spe, v.known, int64(v.act), int64(v.exit), defStr(got))
			case exp[pk] == nil:
				c.Violate("C15", "definition-set", "get-definition/unassigned-slot/"+d.Type.String(), "GetDutyDefinition(%s) returned a definition for %s (v%d), to which the beacon node assigned no such duty in that slot: %s", where(d), v.name, v.vidx, defStr(got))
			default:
				if kind, eq := sameDef(got, exp[pk]); !kind || !eq {
					c.Violate("C15", "definition-set", "get-definition/altered-definition/"+d.Type.String(), "GetDutyDefinition(%s) returned for %s the definition %s, the beacon node's assignment is %s", where(d), v.name, defStr(got), defStr(exp[pk]))
				}
			}
		}
	}

	// (O4) completeness
	seen := map[uint64]time.Time{}
	var slots []uint64
	for _, t := range w.ticks {
		if _, dup := seen[t.slot]; !dup {
			seen[t.slot] = t.t
			slots = append(slots, t.slot)
		}
	}
	if len(slots) == 0 {
		return
	}
	first, last := slots[0], slots[len(slots)-1]
	for s := first; s <= last; s++ {
		tt, ticked := seen[s]
		if ticked && tt.After(end.Add(-w.slotDur)) {
			continue // the slot's offsets may not have passed yet when the run is evaluated
		}
		epoch := s / w.spe
		var haveAtt, havePro bool
		for _, typ := range derivedTypes {
			exp := w.expected(typ, s)
			for _, v := range w.cluster {
				if exp[v.cpk] == nil {
					continue
				}
				if !ticked {
					verifrt.Probe("duty-skipped-missed-tick")
					continue
				}
				triggered := false
				for _, r := range trigBy[core.Duty{Slot: s, Type: typ}] {
					if _, ok := r.defs[v.cpk]; ok {
						triggered = true
					}
				}
				if triggered {
					haveAtt = haveAtt || typ == core.DutyAttester
					havePro = havePro || typ == core.DutyProposer
					if v.act > 0 && v.act != farFuture && v.act > w.ticks[0].slot/w.spe {
						verifrt.Probe("validator-activated-mid-run-and-triggered")
					}
					continue
				}
				// premise: a fully successful resolution of the epoch, with validators data that showed the
				// validator as active (or activating in that epoch), had returned before the slot began
				var res *resRec
				for i := range w.ress {
					r := &w.ress[i]
					sn, ok := r.snap[v.vidx]
					if r.epoch == epoch && r.done.Before(w.slotStart(s)) && ok && (sn.active || sn.actEpoch == epoch) {
						// with sse_reorg_duties a reorg event drops the resolved duties (the statement says nothing about
						// reorgs): a resolution counts only if no such event arrived between its beginning (at most the
						// longest slow call before its end) and the moment the slot's last duty type has been handed to
						// its goroutine - scheduleSlot walks the duty types one by one and, in the last slot of an epoch,
						// resolves the next epoch between two of them, which a slow beacon call stretches by up to 2.5 slots
						voided := false
						for _, te := range w.trims {
							if !te.Before(r.done.Add(-w.slotDur*3)) && !te.After(tt.Add(w.slotDur*3)) {
								voided = true
							}
						}
						if voided {
							verifrt.Probe("resolution-voided-by-reorg")
							continue
						}
						res = r
						break
					}
				}
				if res == nil {
					verifrt.Probe("duty-skipped-unresolved")
					continue
				}
				sig := typ.String() + "-not-triggered"
				if len(trigBy[core.Duty{Slot: s, Type: typ}]) > 0 {
					sig = typ.String() + "-validator-missing-from-set"
				}
				c.Violate("C15", "completeness", sig, "the beacon node assigns %s to %s (v%d, active) in slot %d (epoch %d slot-in-epoch %d); epoch %d had been resolved completely at t=%v, before the slot began at t=%v, with validators data showing the validator active; the slot tick was observed at slot+%v; but %s",
					defStr(exp[v.cpk]), v.name, v.vidx, s, epoch, s%w.spe, epoch, w.rel(res.done), w.rel(w.slotStart(s)), tt.Sub(w.slotStart(s)),
					map[bool]string{true: "the triggered definition set does not contain the validator", false: "the duty was never triggered"}[len(trigBy[core.Duty{Slot: s, Type: typ}]) > 0])
			}
		}
		if haveAtt && havePro {
			verifrt.Probe("proposer-and-attester-same-slot")
		}
	}
	for _, v := range w.cluster {
		if v.known && v.act < v.exit && v.exit > first/w.spe && v.exit <= last/w.spe {
			verifrt.Probe("validator-exited-mid-run")
		}
	}
}
