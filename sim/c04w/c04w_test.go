//go:build verif

// Harness c04w: C04 at system level - the real consensus component (wire encoding, transport,
// instance handling, round timers) of every node of a simulated cluster under crash faults with
// timely delivery: every running node's instance must decide within one leader rotation after the
// last fault. The duty type (attester through the scheduler stub; proposer, aggregator, sync
// contribution by calling Participate/Propose directly) and the timer configuration (process-global
// feature set: default, eager_double_linear off, linear on, consensus_participate off) are seeded
// per run; the round timing the oracle uses is re-stated in timers_test.go.
package c04w

import (
	"context"
	"fmt"
	"os"
	"regexp"
	"strings"
	"sync"
	"testing"
	"time"

	"github.com/obolnetwork/charon/app/log"
	"github.com/obolnetwork/charon/core"
	"github.com/obolnetwork/charon/verifrt"

	"verifsim/cluster"
	"verifsim/kernel"
	"verifsim/simnet"
)

const protoQBFT = "/charon/consensus/qbft/2.0.0"

// logSink collects what the nodes log (charon's global logger), so that a consensus message of one
// honest member that another honest member's component refuses can be observed: the p2p receiver
// logs the handler's error.
type logSink struct {
	mu    sync.Mutex
	lines []string
}

func (s *logSink) Write(p []byte) (int, error) {
	s.mu.Lock()
	s.lines = append(s.lines, string(p))
	s.mu.Unlock()
	return len(p), nil
}
func (s *logSink) Sync() error { return nil }
func (s *logSink) take() []string {
	s.mu.Lock()
	defer s.mu.Unlock()
	l := s.lines
	s.lines = nil
	return l
}

var (
	sink     logSink
	ansiRe   = regexp.MustCompile("\x1b\\[[0-9;]*m")
	digitsRe = regexp.MustCompile("[0-9]+")
	timerRe  = regexp.MustCompile(`"?timer"?[=:]\s*"?([a-z_]+)`)
)

func TestSim(t *testing.T) {
	if os.Getenv("VERIF_MODE") != "" {
		log.InitConsoleForT(t, &sink)
	}
	kernel.Main(t, kernel.Harness{Name: "c04w", Horizon: time.Hour, Body: body, MaxSteps: 3_000_000})
}

func body(c *kernel.Ctx) {
	ctx, cancel := context.WithCancel(context.Background())
	defer cancel()
	sink.take()

	n := []int{4, 7, 5, 4, 7, 6}[verifrt.Intn("cfg", 6)]
	f := (n - 1) / 3
	startSlot := 64 + uint64(verifrt.Intn("cfg", 16))
	latDraw := verifrt.Intn("cfg", 150)
	dup := verifrt.Intn("cfg", 3) == 2

	// ---- duty type and timer configuration (0 = attester duty through the scheduler stub, default feature set)
	dutyType := []core.DutyType{core.DutyAttester, core.DutyProposer, core.DutyAggregator, core.DutySyncContribution}[verifrt.Intn("cfg", 4)]
	// size of the proposed sets (aggregator and sync contribution duties): one entry, a few, tens, or hundreds of
	// entries (a cluster with hundreds of validators: sets of 100 kB and more with hundreds of map entries)
	entries := []int{1, 1, 3, 40, 400, 900}[verifrt.Intn("cfg", 6)]
	c.Set("set_entries", entries)
	feat := defaultFeatures
	switch verifrt.Intn("cfg", 4) {
	case 1: // increasing timer for every duty
		feat.eager = false
	case 2: // linear timer for proposer duties, the others as by default
		feat.linear = true
	case 3: // linear timer for proposer duties, increasing timer for the others
		feat.linear, feat.eager = true, false
	}
	if verifrt.Intn("cfg", 4) == 3 {
		feat.participate = false // Participate is a no-op: every instance is started by Propose
	}
	slotMult := 1 + verifrt.Intn("cfg", 3)
	// the feature set is process-global: set before the components are built (the consensus component
	// picks its timer function when constructed and asks the feature set again per instance and per
	// round), restored when the run ends (runs are sequential in a worker process)
	feat.apply()
	defer defaultFeatures.apply()
	tm := modelFor(dutyType, feat)
	// latency well within a third of the configuration's shortest round: 1..150 ms of 1 s rounds, 1..130 ms
	// of the linear timer's 400 ms
	latCap := 150
	if tm.shortest()/3 < 150*time.Millisecond {
		latCap = int(tm.shortest()/3/time.Millisecond) - 3
	}
	maxLat := 1 + latDraw*latCap/150
	// slot duration: 12 s, or a multiple. A proposer or sync contribution duty expires 5/12 of a slot after
	// its start; the slot is made long enough for the end of a leader rotation after a fault in the first
	// four seconds (increasing timer, n = 7: about a minute) to lie within the duty's lifetime.
	{
		need := tm.roundEnd(tm.faultRound(4*time.Second)+n, time.Second) + 3*time.Second
		for dutyWindow(dutyType, time.Duration(slotMult)*12*time.Second, 16) < need {
			slotMult++
		}
	}
	cfg := cluster.Config{N: n, Validators: 1, SlotsPerEpoch: 16, SlotDuration: time.Duration(slotMult) * 12 * time.Second, StartSlot: startSlot}
	cl := cluster.New(ctx, c.T, cfg)
	slot := cfg.StartSlot
	duty := core.Duty{Slot: slot, Type: dutyType}
	dutyStart := cl.SlotStart(slot).Add(dutyOffset(dutyType, cfg.SlotDuration))
	window := dutyWindow(dutyType, cfg.SlotDuration, cfg.SlotsPerEpoch)
	cl.View = func(node int, _ uint64) int { return node % 2 }
	verifrt.Probe("duty:" + dutyType.String())
	verifrt.Note("duty %v, timer %v (eager=%v linear=%v participate=%v), slot duration %v, max latency %dms", duty, tm.kind, feat.eager, feat.linear, feat.participate, cfg.SlotDuration, maxLat)

	// ---- fault plan: <= f nodes silent, crashed at a time, or crashed after their k-th consensus send
	type plan struct {
		kind  int // 1 silent, 2 crash at time, 3 crash after k consensus envelopes, 4 late-starting round-1 leader
		at    time.Duration
		after int
	}
	plans := map[int]plan{}
	nf := verifrt.Intn("f", f+1)
	for k := 0; k < nf; k++ {
		p := verifrt.Intn("f", n)
		for plans[p].kind != 0 {
			p = (p + 1) % n
		}
		switch verifrt.Intn("f", 4) {
		case 3:
			// the leader of round 1 starts late, so late that its proposal arrives towards the end of the
			// round: some members prepare but cannot decide before their round timer fires, and the next
			// leaders must re-propose the prepared value with its certificate. (Relative timers: the
			// late member's own rounds begin with its start, which the bound accounts for as start skew.)
			lp := int((int64(duty.Slot) + int64(duty.Type) + 1) % int64(n))
			if plans[lp].kind != 0 {
				plans[p] = plan{kind: 1}
				break
			}
			back := time.Duration(100+verifrt.Intn("f", 250)) * time.Duration(maxLat) * time.Millisecond / 100
			at := tm.timeout(1) - back
			if at < time.Millisecond || verifrt.Intn("f", 4) == 0 {
				at = time.Duration(300+verifrt.Intn("f", 650)) * time.Millisecond
			}
			plans[lp] = plan{kind: 4, at: at}
		case 0:
			plans[p] = plan{kind: 1}
		case 1:
			plans[p] = plan{kind: 2, at: time.Duration(verifrt.Intn("f", 3500)) * time.Millisecond}
		default:
			plans[p] = plan{kind: 3, after: verifrt.Intn("f", 3*n)}
		}
	}
	var mu sync.Mutex
	sent := map[int]int{}
	crashed := map[int]bool{}
	lastFault := time.Duration(0) // relative to dutyStart
	maxStart := time.Duration(0)  // latest start of a running member's instance, relative to dutyStart
	crash := func(i int, why string) {
		mu.Lock()
		if crashed[i] || cl.Nodes[i] == nil {
			mu.Unlock()
			return
		}
		crashed[i] = true
		if d := time.Since(dutyStart); d > lastFault {
			lastFault = d
		}
		mu.Unlock()
		cl.Crash(i)
		verifrt.Note("crash n%d (%s)", i, why)
	}
	idx := map[string]int{}
	for i, id := range cl.PeerIDs {
		idx[string(id)] = i
	}
	cl.Net.Fate = func(e *simnet.Envelope) simnet.Fate {
		fate := simnet.Fate{Delay: time.Duration(1+verifrt.Intn("n", maxLat)) * time.Millisecond}
		if dup && verifrt.Intn("n", 10) == 9 {
			fate.Duplicate, fate.DupDelay = true, time.Duration(1+verifrt.Intn("n", 2*maxLat))*time.Millisecond
			verifrt.Fault("duplicate")
		}
		if e.Proto == protoQBFT {
			switch l := len(e.Payload); {
			case l > 4000:
				verifrt.Probe("qbft-msg>4000B") // a proposal carrying ROUND-CHANGEs and a prepared certificate
			case l > 2000:
				verifrt.Probe("qbft-msg>2000B")
			}
			from := idx[string(e.From)]
			if pl, ok := plans[from]; ok && pl.kind == 3 {
				mu.Lock()
				sent[from]++
				k := sent[from]
				mu.Unlock()
				if k > pl.after {
					crash(from, "mid-broadcast")
					verifrt.Fault("crash-mid-broadcast")
					fate.Drop = true
				}
			}
		}
		return fate
	}

	decidedAt := map[int]time.Duration{}
	for i := 0; i < n; i++ {
		if plans[i].kind == 1 {
			verifrt.Fault("silent")
			mu.Lock()
			crashed[i] = true
			mu.Unlock()
			continue
		}
		nd := cl.StartNode(i)
		me := i
		nd.Cons.Subscribe(func(_ context.Context, d core.Duty, _ core.UnsignedDataSet) error {
			if d == duty {
				mu.Lock()
				if _, ok := decidedAt[me]; !ok {
					decidedAt[me] = time.Since(dutyStart)
				}
				mu.Unlock()
				verifrt.Note("n%d decided at +%v", me, time.Since(dutyStart))
				c.Progress()
			}
			return nil
		})
		startDelay := time.Duration(verifrt.Intn("w", 300)) * time.Millisecond
		if pl := plans[i]; pl.kind == 4 {
			startDelay = pl.at
			verifrt.Fault("late-start-leader")
			mu.Lock()
			if pl.at > lastFault {
				lastFault = pl.at
			}
			mu.Unlock()
		}
		mu.Lock()
		if startDelay > maxStart {
			maxStart = startDelay
		}
		mu.Unlock()
		if dutyType == core.DutyAttester {
			// through the scheduler stub: core.Wire makes the fetcher fetch and propose, and the consensus
			// component participate
			verifrt.GoNode(nd.Tag, func() {
				verifrt.Sleep(time.Until(dutyStart) + startDelay)
				nd.Sched.Trigger(nd.Ctx, duty, cl.DefSet(slot))
			})
		} else {
			// the consensus component directly. Production (core.Wire) subscribes both the fetcher, which
			// ends in Propose, and Participate to the scheduler's duties: a member calls Participate first
			// (a no-op for aggregator and sync contribution duties, or when consensus_participate is off)
			// and Propose when it has its data, or Propose alone. Propose comes at the member's start time.
			set := unsignedSet(cl, duty, i%2)
			if entries > 1 && (dutyType == core.DutyAggregator || dutyType == core.DutySyncContribution) {
				set = inflate(cl, duty, i%2, set, entries)
			}
			gap := time.Duration(-1)
			if verifrt.Intn("w", 3) != 0 {
				gap = time.Duration(verifrt.Intn("w", 120)) * time.Millisecond
				if gap > startDelay {
					gap = startDelay
				}
			}
			if gap < 0 || !feat.participate || dutyType == core.DutyAggregator || dutyType == core.DutySyncContribution {
				verifrt.Probe("non-eager-start") // the instance is started by Propose
			}
			verifrt.GoNode(nd.Tag, func() {
				if gap >= 0 {
					verifrt.Sleep(time.Until(dutyStart) + startDelay - gap)
					verifrt.Go(func() {
						if err := nd.Cons.Participate(nd.Ctx, duty); err != nil && nd.Ctx.Err() == nil {
							verifrt.Note("n%d participate: %v", me, err)
						}
					})
				}
				verifrt.Sleep(time.Until(dutyStart) + startDelay)
				if err := nd.Cons.Propose(nd.Ctx, duty, set); err != nil && nd.Ctx.Err() == nil {
					verifrt.Note("n%d propose: %v", me, err)
				}
			})
		}
		if pl := plans[i]; pl.kind == 2 {
			verifrt.Go(func() {
				verifrt.Sleep(time.Until(dutyStart) - 200*time.Millisecond + pl.at)
				crash(me, "at time")
				verifrt.Fault("crash")
			})
		}
	}
	c.Set("n", n)
	c.Set("faulty", nf)
	c.Set("duty", dutyType.String())
	c.Set("timer", tm.kind.String())

	// One full leader rotation after the round of the last fault: the last fault falls into round rf (at
	// most; see timerModel.faultRound), so every running member must have decided when round rf+n is
	// over at every member (timerModel.roundEnd: absolute for the eager timer - round k ends at
	// dutyStart + k s (+ 500 ms for a proposer duty) - and for the relative timers counted from the latest
	// start of a member, every round taken at twice its timeout), plus 500 ms for the decision to
	// spread. The wait ends early when every running member has decided and two more seconds passed.
	var (
		rf      int
		bound   time.Duration
		settled time.Duration = -1
	)
	verifrt.Sleep(time.Until(dutyStart))
	for {
		mu.Lock()
		rf = tm.faultRound(lastFault)
		bound = tm.roundEnd(rf+n, maxStart) + 500*time.Millisecond
		all := true
		for i := 0; i < n; i++ {
			if _, ok := decidedAt[i]; !ok && !crashed[i] {
				all = false
			}
		}
		mu.Unlock()
		now := time.Since(dutyStart)
		if all && settled < 0 {
			settled = now
		}
		until := bound + time.Second
		if until > window+time.Second {
			until = window + time.Second // the duty has expired by then: nothing more can happen
		}
		if now >= until || (all && now >= settled+2*time.Second && now >= maxStart+time.Second) {
			break
		}
		step := time.Second
		if until-now < step {
			step = until - now
		}
		verifrt.Sleep(step)
	}
	mu.Lock()
	defer mu.Unlock()
	// the members drop an expired duty; a bound that ends later than that cannot be demanded (the slot
	// duration is chosen so that this only happens after very late faults)
	demandable := bound+time.Second <= window
	if !demandable {
		verifrt.Probe("bound-beyond-duty-deadline")
	}
	for i := 0; i < n; i++ {
		if crashed[i] {
			continue
		}
		at, ok := decidedAt[i]
		switch {
		case !ok && len(decidedAt) > 0:
			// C04's premise is that the other members keep running the duty's instance. charon's
			// component stops a member's instance as soon as it decides, so a member that misses the
			// deciding round (e.g. the crashed member's COMMIT reached the others but not this one,
			// and a member that decided on the others' COMMITs never sent its own) finds nobody to
			// answer its ROUND-CHANGEs. Outside the premise: recorded, not reported (DESIGN.md 11.3).
			verifrt.Probe("straggler-after-peers-stopped-on-decide")
		case !ok && !demandable:
		case !ok:
			c.Violate("C04", "termination", "running-node-never-decided", "node %d of %d had not decided at +%v (%v duty, %v timer) although at most f=%d nodes were faulty (last fault at +%v, round %d; round %d+%d ends by +%v) and delivery was timely (max latency %dms)", i, n, time.Since(dutyStart), dutyType, tm.kind, f, lastFault, rf, rf, n, bound, maxLat)
		case at > bound:
			c.Violate("C04", "termination", "decided-later-than-one-leader-rotation", "node %d decided at +%v (%v duty, %v timer), later than the end of round %d+%d at +%v (last fault at +%v)", i, at, dutyType, tm.kind, rf, n, bound, lastFault)
		}
		if ok && at > tm.timeout(1) {
			verifrt.Probe("decided-after-round-1")
		}
	}
	// which timers the instances really ran with (the component logs it when an instance starts)
	logged := sink.take()
	seenTimer := map[string]bool{}
	for _, raw := range logged {
		if !strings.Contains(raw, "QBFT consensus instance starting") {
			continue
		}
		if m := timerRe.FindStringSubmatch(ansiRe.ReplaceAllString(raw, "")); m != nil && !seenTimer[m[1]] {
			seenTimer[m[1]] = true
			verifrt.Probe("timer:" + m[1])
		}
	}
	// "No message sent by an honest member is ever rejected ... by another honest member": every member
	// here is honest (crash faults only), so no consensus message may be refused by a receiving
	// component for its content. Refusals for expiry or a cancelled receive are not about content.
	reported := map[string]bool{}
	for _, raw := range logged {
		line := ansiRe.ReplaceAllString(raw, "")
		const marker = "The request could not be processed: "
		i := strings.Index(line, marker)
		if i < 0 {
			continue
		}
		reason := strings.TrimSpace(line[i+len(marker):])
		if j := strings.Index(reason, " {"); j >= 0 {
			reason = reason[:j]
		}
		low := strings.ToLower(reason)
		if strings.Contains(low, "context canceled") || strings.Contains(low, "context deadline") || strings.Contains(low, "expired") || strings.Contains(low, "cancelled") {
			continue
		}
		class := strings.ReplaceAll(strings.TrimSpace(digitsRe.ReplaceAllString(reason, "")), " ", "-")
		if len(class) > 40 {
			class = class[:40]
		}
		if !reported[class] {
			reported[class] = true
			c.Violate("C04", "honest-msg-rejected", class, "a node's component refused a peer's message although every member is honest: %s", strings.TrimSpace(line))
		}
	}
	cancel()
	_ = fmt.Sprint
}
