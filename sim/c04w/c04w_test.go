//go:build verif

// Harness c04w: C04 at system level - the real consensus component (wire encoding, transport,
// instance handling, round timers) of every node of a simulated cluster under crash faults with
// timely delivery: every running node's instance must decide within one leader rotation after the
// last fault.
package c04w

import (
	"context"
	"fmt"
	"os"
	"regexp"
	"strings"
	"sync"
	"testing"
	"time"

	"github.com/obolnetwork/charon/app/log"
	"github.com/obolnetwork/charon/core"
	"github.com/obolnetwork/charon/verifrt"

	"verifsim/cluster"
	"verifsim/kernel"
	"verifsim/simnet"
)

const protoQBFT = "/charon/consensus/qbft/2.0.0"

// logSink collects what the nodes log (charon's global logger), so that a consensus message of one
// honest member that another honest member's component refuses can be observed: the p2p receiver
// logs the handler's error.
type logSink struct {
	mu    sync.Mutex
	lines []string
}

func (s *logSink) Write(p []byte) (int, error) {
	s.mu.Lock()
	s.lines = append(s.lines, string(p))
	s.mu.Unlock()
	return len(p), nil
}
func (s *logSink) Sync() error { return nil }
func (s *logSink) take() []string {
	s.mu.Lock()
	defer s.mu.Unlock()
	l := s.lines
	s.lines = nil
	return l
}

var (
	sink     logSink
	ansiRe   = regexp.MustCompile("\x1b\\[[0-9;]*m")
	digitsRe = regexp.MustCompile("[0-9]+")
)

func TestSim(t *testing.T) {
	if os.Getenv("VERIF_MODE") != "" {
		log.InitConsoleForT(t, &sink)
	}
	kernel.Main(t, kernel.Harness{Name: "c04w", Horizon: time.Hour, Body: body, MaxSteps: 3_000_000})
}

func body(c *kernel.Ctx) {
	ctx, cancel := context.WithCancel(context.Background())
	defer cancel()
	sink.take()

	n := []int{4, 7, 5, 4, 7, 6}[verifrt.Intn("cfg", 6)]
	f := (n - 1) / 3
	cfg := cluster.Config{N: n, Validators: 1, SlotsPerEpoch: 16, SlotDuration: 12 * time.Second, StartSlot: 64 + uint64(verifrt.Intn("cfg", 16))}
	cl := cluster.New(ctx, c.T, cfg)
	slot := cfg.StartSlot
	duty := core.NewAttesterDuty(slot)
	dutyStart := cl.SlotStart(slot).Add(cfg.SlotDuration / 3)
	maxLat := 1 + verifrt.Intn("cfg", 150) // well within a third of the 1 s rounds
	dup := verifrt.Intn("cfg", 3) == 2
	cl.View = func(node int, _ uint64) int { return node % 2 }

	// ---- fault plan: <= f nodes silent, crashed at a time, or crashed after their k-th consensus send
	type plan struct {
		kind  int // 1 silent, 2 crash at time, 3 crash after k consensus envelopes, 4 late-starting round-1 leader
		at    time.Duration
		after int
	}
	plans := map[int]plan{}
	nf := verifrt.Intn("f", f+1)
	for k := 0; k < nf; k++ {
		p := verifrt.Intn("f", n)
		for plans[p].kind != 0 {
			p = (p + 1) % n
		}
		switch verifrt.Intn("f", 4) {
		case 3:
			// the leader of round 1 starts late, so late that its proposal arrives towards the end of the
			// round: some members prepare but cannot decide before their round timer fires, and the next
			// leaders must re-propose the prepared value with its certificate
			lp := int((int64(duty.Slot) + int64(duty.Type) + 1) % int64(n))
			if plans[lp].kind != 0 {
				plans[p] = plan{kind: 1}
				break
			}
			back := time.Duration(100+verifrt.Intn("f", 250)) * time.Duration(maxLat) * time.Millisecond / 100
			at := time.Second - back
			if at < time.Millisecond || verifrt.Intn("f", 4) == 0 {
				at = time.Duration(300+verifrt.Intn("f", 650)) * time.Millisecond
			}
			plans[lp] = plan{kind: 4, at: at}
		case 0:
			plans[p] = plan{kind: 1}
		case 1:
			plans[p] = plan{kind: 2, at: time.Duration(verifrt.Intn("f", 3500)) * time.Millisecond}
		default:
			plans[p] = plan{kind: 3, after: verifrt.Intn("f", 3*n)}
		}
	}
	var mu sync.Mutex
	sent := map[int]int{}
	crashed := map[int]bool{}
	lastFault := time.Duration(0) // relative to dutyStart
	crash := func(i int, why string) {
		mu.Lock()
		if crashed[i] || cl.Nodes[i] == nil {
			mu.Unlock()
			return
		}
		crashed[i] = true
		if d := time.Since(dutyStart); d > lastFault {
			lastFault = d
		}
		mu.Unlock()
		cl.Crash(i)
		verifrt.Note("crash n%d (%s)", i, why)
	}
	idx := map[string]int{}
	for i, id := range cl.PeerIDs {
		idx[string(id)] = i
	}
	cl.Net.Fate = func(e *simnet.Envelope) simnet.Fate {
		fate := simnet.Fate{Delay: time.Duration(1+verifrt.Intn("n", maxLat)) * time.Millisecond}
		if dup && verifrt.Intn("n", 10) == 9 {
			fate.Duplicate, fate.DupDelay = true, time.Duration(1+verifrt.Intn("n", 2*maxLat))*time.Millisecond
			verifrt.Fault("duplicate")
		}
		if e.Proto == protoQBFT {
			switch l := len(e.Payload); {
			case l > 4000:
				verifrt.Probe("qbft-msg>4000B") // a proposal carrying ROUND-CHANGEs and a prepared certificate
			case l > 2000:
				verifrt.Probe("qbft-msg>2000B")
			}
			from := idx[string(e.From)]
			if pl, ok := plans[from]; ok && pl.kind == 3 {
				mu.Lock()
				sent[from]++
				k := sent[from]
				mu.Unlock()
				if k > pl.after {
					crash(from, "mid-broadcast")
					verifrt.Fault("crash-mid-broadcast")
					fate.Drop = true
				}
			}
		}
		return fate
	}

	decidedAt := map[int]time.Duration{}
	for i := 0; i < n; i++ {
		if plans[i].kind == 1 {
			verifrt.Fault("silent")
			mu.Lock()
			crashed[i] = true
			mu.Unlock()
			continue
		}
		nd := cl.StartNode(i)
		me := i
		nd.Cons.Subscribe(func(_ context.Context, d core.Duty, _ core.UnsignedDataSet) error {
			if d == duty {
				mu.Lock()
				if _, ok := decidedAt[me]; !ok {
					decidedAt[me] = time.Since(dutyStart)
				}
				mu.Unlock()
				verifrt.Note("n%d decided at +%v", me, time.Since(dutyStart))
				c.Progress()
			}
			return nil
		})
		startDelay := time.Duration(verifrt.Intn("w", 300)) * time.Millisecond
		if pl := plans[i]; pl.kind == 4 {
			startDelay = pl.at
			verifrt.Fault("late-start-leader")
			mu.Lock()
			if pl.at > lastFault {
				lastFault = pl.at
			}
			mu.Unlock()
		}
		verifrt.GoNode(nd.Tag, func() {
			verifrt.Sleep(time.Until(dutyStart) + startDelay)
			nd.Sched.Trigger(nd.Ctx, duty, cl.DefSet(slot))
		})
		if pl := plans[i]; pl.kind == 2 {
			verifrt.Go(func() {
				verifrt.Sleep(time.Until(dutyStart) - 200*time.Millisecond + pl.at)
				crash(me, "at time")
				verifrt.Fault("crash")
			})
		}
	}
	c.Set("n", n)
	c.Set("faulty", nf)

	// rounds are absolute one-second windows after the duty's start (eager double-linear timer):
	// round k ends at dutyStart + k s. One full leader rotation after the round of the last fault.
	verifrt.Sleep(time.Until(dutyStart) + time.Duration(n+6)*time.Second)
	mu.Lock()
	rf := 1 + int(lastFault/time.Second)
	if lastFault <= 0 {
		rf = 1
	}
	bound := time.Duration(rf+n)*time.Second + 500*time.Millisecond
	mu.Unlock()
	if wait := time.Until(dutyStart.Add(bound + time.Second)); wait > 0 {
		verifrt.Sleep(wait)
	}
	mu.Lock()
	defer mu.Unlock()
	for i := 0; i < n; i++ {
		if crashed[i] {
			continue
		}
		at, ok := decidedAt[i]
		switch {
		case !ok && len(decidedAt) > 0:
			// C04's premise is that the other members keep running the duty's instance. charon's
			// component stops a member's instance as soon as it decides, so a member that misses the
			// deciding round (e.g. the crashed member's COMMIT reached the others but not this one,
			// and a member that decided on the others' COMMITs never sent its own) finds nobody to
			// answer its ROUND-CHANGEs. Outside the premise: recorded, not reported (DESIGN.md 11.3).
			verifrt.Probe("straggler-after-peers-stopped-on-decide")
		case !ok:
			c.Violate("C04", "termination", "running-node-never-decided", "node %d of %d had not decided at +%v although at most f=%d nodes were faulty (last fault at +%v, round %d) and delivery was timely (max latency %dms)", i, n, time.Since(dutyStart), f, lastFault, rf, maxLat)
		case at > bound:
			c.Violate("C04", "termination", "decided-later-than-one-leader-rotation", "node %d decided at +%v, later than the end of round %d+%d (last fault at +%v)", i, at, rf, n, lastFault)
		}
		if ok && at > time.Second {
			verifrt.Probe("decided-after-round-1")
		}
	}
	// "No message sent by an honest member is ever rejected ... by another honest member": every member
	// here is honest (crash faults only), so no consensus message may be refused by a receiving
	// component for its content. Refusals for expiry or a cancelled receive are not about content.
	reported := map[string]bool{}
	for _, raw := range sink.take() {
		line := ansiRe.ReplaceAllString(raw, "")
		const marker = "The request could not be processed: "
		i := strings.Index(line, marker)
		if i < 0 {
			continue
		}
		reason := strings.TrimSpace(line[i+len(marker):])
		if j := strings.Index(reason, " {"); j >= 0 {
			reason = reason[:j]
		}
		low := strings.ToLower(reason)
		if strings.Contains(low, "context canceled") || strings.Contains(low, "context deadline") || strings.Contains(low, "expired") || strings.Contains(low, "cancelled") {
			continue
		}
		class := strings.ReplaceAll(strings.TrimSpace(digitsRe.ReplaceAllString(reason, "")), " ", "-")
		if len(class) > 40 {
			class = class[:40]
		}
		if !reported[class] {
			reported[class] = true
			c.Violate("C04", "honest-msg-rejected", class, "a node's component refused a peer's message although every member is honest: %s", strings.TrimSpace(line))
		}
	}
	cancel()
	_ = fmt.Sprint
}
