//go:build verif

// Deterministic, well-formed unsigned data sets of the duty types c04w runs besides the attester
// duty: every byte is a pure function of (slot, candidate). Two candidates per duty, so that the
// members' proposals differ (node i proposes candidate i%2), as beacon nodes with different views
// produce them. Builders after sim/c01 (viewBlock, viewAggregate, viewContribution).
package c04w

import (
	"encoding/binary"

	"github.com/OffchainLabs/go-bitfield"
	eth2api "github.com/attestantio/go-eth2-client/api"
	eth2spec "github.com/attestantio/go-eth2-client/spec"
	"github.com/attestantio/go-eth2-client/spec/altair"
	"github.com/attestantio/go-eth2-client/spec/bellatrix"
	"github.com/attestantio/go-eth2-client/spec/capella"
	eth2p0 "github.com/attestantio/go-eth2-client/spec/phase0"

	"github.com/obolnetwork/charon/core"

	"verifsim/cluster"
	"verifsim/simdata"
)

func rootOf(tag byte, a, b uint64) (r eth2p0.Root) {
	r[0] = tag
	binary.LittleEndian.PutUint64(r[1:], a)
	binary.LittleEndian.PutUint64(r[9:], b)
	for i := 17; i < 32; i++ {
		r[i] = byte(int(tag)*7 + i*13 + int(a) + int(b)*3)
	}
	return r
}

func sigOf(tag byte, a uint64) (s eth2p0.BLSSignature) {
	for i := range s {
		s[i] = byte(int(tag) + i*5 + int(a)*11 + 1)
	}
	return s
}

// candBlock is the complete Capella block of candidate cand for the slot.
func candBlock(cand int, slot uint64, v *cluster.Validator) *capella.BeaconBlock {
	salt := uint64(cand)
	bytesOf := func(tag byte, a, b uint64) []byte { r := rootOf(tag, a, b); return r[:] }
	ep := &capella.ExecutionPayload{ParentHash: eth2p0.Hash32(rootOf(0xe1, slot, salt)), StateRoot: rootOf(0xe2, slot, salt), ReceiptsRoot: rootOf(0xe3, slot, salt),
		PrevRandao: rootOf(0xe4, slot, salt), BlockNumber: slot, GasLimit: 30_000_000, GasUsed: salt, Timestamp: 1_700_000_000 + slot*12,
		ExtraData: []byte{0xc1, 0x0, byte(salt)}, BaseFeePerGas: rootOf(0xe5, 7, salt), BlockHash: eth2p0.Hash32(rootOf(0xe6, slot, salt)),
		Transactions: []bellatrix.Transaction{{0x02, byte(salt), 0x01}},
		Withdrawals:  []*capella.Withdrawal{{Index: capella.WithdrawalIndex(salt), ValidatorIndex: v.Index, Amount: 1}}}
	copy(ep.FeeRecipient[:], bytesOf(0xe7, slot, salt)[:20])
	sa := &altair.SyncAggregate{SyncCommitteeBits: bitfield.NewBitvector512(), SyncCommitteeSignature: sigOf(0x5a, salt)}
	sa.SyncCommitteeBits.SetBitAt(salt%512, true)
	bits := bitfield.NewBitlist(8)
	bits.SetBitAt(1, true)
	return &capella.BeaconBlock{Slot: eth2p0.Slot(slot), ProposerIndex: v.Index, ParentRoot: rootOf(0xb1, slot, salt), StateRoot: rootOf(0xb2, slot, salt),
		Body: &capella.BeaconBlockBody{RANDAOReveal: sigOf(0x7a, slot), ETH1Data: &eth2p0.ETH1Data{DepositRoot: rootOf(0xd0, 1, salt), DepositCount: 3, BlockHash: bytesOf(0xd1, 2, salt)},
			Graffiti: rootOf(0x9f, slot, 0), ProposerSlashings: []*eth2p0.ProposerSlashing{}, AttesterSlashings: []*eth2p0.AttesterSlashing{},
			Attestations: []*eth2p0.Attestation{{AggregationBits: bits, Data: &eth2p0.AttestationData{Slot: eth2p0.Slot(slot - 1), Index: 1, BeaconBlockRoot: rootOf(0xb3, slot, salt),
				Source: &eth2p0.Checkpoint{Epoch: 1, Root: rootOf(0xb4, 1, 1)}, Target: &eth2p0.Checkpoint{Epoch: 2, Root: rootOf(0xb5, 2, 2)}}, Signature: sigOf(0xa7, salt)}},
			Deposits: []*eth2p0.Deposit{}, VoluntaryExits: []*eth2p0.SignedVoluntaryExit{}, SyncAggregate: sa, ExecutionPayload: ep,
			BLSToExecutionChanges: []*capella.SignedBLSToExecutionChange{}}}
}

// candAggregate is the aggregate attestation of candidate cand: the candidates differ in which
// committee members were seen (bits) and so in the signature.
func candAggregate(cand int, data *eth2p0.AttestationData) *eth2spec.VersionedAttestation {
	bits := bitfield.NewBitlist(8)
	bits.SetBitAt(uint64(cand%8), true)
	bits.SetBitAt(uint64((cand+3)%8), true)
	bits.SetBitAt(7, true)
	sig := sigOf(0xa9, uint64(cand)*131+uint64(data.Slot)*7+uint64(data.Index))
	return &eth2spec.VersionedAttestation{Version: eth2spec.DataVersionDeneb, Deneb: &eth2p0.Attestation{AggregationBits: bits, Data: data, Signature: sig}}
}

// candContribution is the sync committee contribution of candidate cand.
func candContribution(cand int, slot, subcomm uint64) *altair.SyncCommitteeContribution {
	c := &altair.SyncCommitteeContribution{Slot: eth2p0.Slot(slot), BeaconBlockRoot: rootOf(0xb0, slot, 0), SubcommitteeIndex: subcomm,
		AggregationBits: bitfield.NewBitvector128(), Signature: sigOf(0xc5, uint64(cand)*17+slot*3+subcomm)}
	c.AggregationBits.SetBitAt(uint64(cand), true)
	c.AggregationBits.SetBitAt(uint64(40+cand*9), true)
	c.AggregationBits.SetBitAt(127, true)
	return c
}

// unsignedSet is candidate cand's unsigned data set of the duty for the cluster's (single) validator.
func unsignedSet(cl *cluster.Cluster, duty core.Duty, cand int) core.UnsignedDataSet {
	v := cl.Vals[0]
	switch duty.Type {
	case core.DutyProposer:
		p, err := core.NewVersionedProposal(&eth2api.VersionedProposal{Version: eth2spec.DataVersionCapella, Capella: candBlock(cand, duty.Slot, v)})
		if err != nil {
			panic(err)
		}
		return core.UnsignedDataSet{v.CorePK: p}
	case core.DutyAggregator:
		a, err := core.NewVersionedAggregatedAttestation(candAggregate(cand, cl.AttData(0, eth2p0.Slot(duty.Slot), v.Committee)))
		if err != nil {
			panic(err)
		}
		return core.UnsignedDataSet{v.CorePK: a}
	case core.DutySyncContribution:
		return core.UnsignedDataSet{v.CorePK: core.NewSyncContribution(candContribution(cand, duty.Slot, 1))}
	}
	panic("c04w: no unsigned data for " + duty.String())
}

// inflate adds entries for further validators (synthetic public keys; consensus agrees on sets, it does not look
// into them) to an aggregator or sync contribution set: a cluster with hundreds of validators proposes sets of
// tens to hundreds of kilobytes with hundreds of map entries.
func inflate(cl *cluster.Cluster, duty core.Duty, cand int, set core.UnsignedDataSet, entries int) core.UnsignedDataSet {
	v := cl.Vals[0]
	for k := 1; k < entries; k++ {
		pk := simdata.PubKey(1000 + k)
		switch duty.Type {
		case core.DutyAggregator:
			data := *cl.AttData(0, eth2p0.Slot(duty.Slot), v.Committee)
			data.Index = eth2p0.CommitteeIndex(k % 64)
			data.BeaconBlockRoot[5] = byte(k)
			a, err := core.NewVersionedAggregatedAttestation(candAggregate(cand, &data))
			if err != nil {
				panic(err)
			}
			set[pk] = a
		case core.DutySyncContribution:
			set[pk] = core.NewSyncContribution(candContribution(cand, duty.Slot, uint64(k%4)))
		}
	}
	return set
}
