//go:build verif

// The round timers of charon's consensus component, re-stated from their specification (docs/consensus.md
// and the statement of the timers) with the constants written out here - the harness does not import the
// repository's timer constants, so a changed constant or a wrong deadline in the repository cannot move
// the oracle with it.
//
//	increasing ("inc"):              round k lasts 750 ms + 250 ms * k, counted from the moment the member
//	                                 enters the round (relative); with proposal_timeout (stable, on) round 1
//	                                 of a proposer duty lasts 1.5 s.
//	eager double-linear ("eager_dlinear"): round k ends at the absolute time duty start + k s, for a proposer
//	                                 duty (proposal_timeout) at duty start + k s + 500 ms; the duty start is
//	                                 the slot start + 0 (proposer), + slot/3 (attester), + 2*slot/3
//	                                 (aggregator, sync contribution). A justified PRE-PREPARE in round k
//	                                 moves the member's deadline of that round to twice the offset.
//	linear ("linear"):               proposer duties only, relative: round 1 lasts 1 s (1.5 s with
//	                                 proposal_timeout), round k >= 2 lasts 200 ms * k.
//
// For the relative timers a justified PRE-PREPARE restarts the member's timer of the round once, so a round
// lasts at most twice its timeout at a member.
package c04w

import (
	"context"
	"time"

	"github.com/obolnetwork/charon/app/featureset"
	"github.com/obolnetwork/charon/core"
)

type timerKind int

const (
	timerEager timerKind = iota
	timerInc
	timerLinear
)

func (k timerKind) String() string { return [...]string{"eager_dlinear", "inc", "linear"}[k] }

// features is the part of the process-global feature set that selects the timers and the start path.
type features struct {
	eager       bool // eager_double_linear (stable: on by default)
	linear      bool // linear (alpha: off by default)
	participate bool // consensus_participate (stable: on by default)
}

var defaultFeatures = features{eager: true, linear: false, participate: true}

// apply sets the process-global feature set (everything else stays at its default status).
func (f features) apply() {
	cfg := featureset.DefaultConfig()
	set := func(on bool, ft featureset.Feature) {
		if on {
			cfg.Enabled = append(cfg.Enabled, string(ft))
		} else {
			cfg.Disabled = append(cfg.Disabled, string(ft))
		}
	}
	set(f.eager, featureset.EagerDoubleLinear)
	set(f.linear, featureset.Linear)
	set(f.participate, featureset.ConsensusParticipate)
	if err := featureset.Init(context.Background(), cfg); err != nil {
		panic(err)
	}
}

// timerModel is the stated timing of the rounds of one duty's instances under one feature set.
type timerModel struct {
	kind     timerKind
	proposer bool
}

// modelFor: "linear" has precedence and affects proposer duties only; otherwise eager double-linear if
// enabled, else increasing.
func modelFor(dt core.DutyType, f features) timerModel {
	m := timerModel{proposer: dt == core.DutyProposer}
	switch {
	case f.linear && m.proposer:
		m.kind = timerLinear
	case f.eager:
		m.kind = timerEager
	default:
		m.kind = timerInc
	}
	return m
}

// timeout of round k (k >= 1): for the eager timer the offset of the round's end from the duty start,
// for the relative timers the duration of the round from the moment a member enters it.
func (m timerModel) timeout(k int) time.Duration {
	switch m.kind {
	case timerEager:
		d := time.Duration(k) * time.Second
		if m.proposer {
			d += 500 * time.Millisecond
		}
		return d
	case timerInc:
		if m.proposer && k == 1 {
			return 1500 * time.Millisecond
		}
		return 750*time.Millisecond + time.Duration(k)*250*time.Millisecond
	default:
		if k == 1 {
			if m.proposer {
				return 1500 * time.Millisecond
			}
			return time.Second
		}
		return time.Duration(k) * 200 * time.Millisecond
	}
}

// shortest is the shortest time a round gives the members (all rounds).
func (m timerModel) shortest() time.Duration {
	if m.kind == timerLinear {
		return 400 * time.Millisecond // round 2
	}
	return time.Second // eager: every window after the first is 1 s wide; increasing: round 1 (non-proposer)
}

func (m timerModel) relative() bool { return m.kind != timerEager }

// faultRound is (an upper bound of) the highest round a member can be in at offset at after the duty start.
// Eager: the rounds are absolute windows, round k ends at timeout(k). Relative: no member starts before
// the duty start and a member leaves round j by its own timer no earlier than timeout(j) after entering
// it (it jumps ahead only to rounds other members are already in), so at offset at no member is beyond the
// round r with timeout(1)+...+timeout(r-1) <= at.
func (m timerModel) faultRound(at time.Duration) int {
	if at <= 0 {
		return 1
	}
	if !m.relative() {
		k := 1
		for at >= m.timeout(k) {
			k++
		}
		return k
	}
	r, sum := 1, time.Duration(0)
	for sum+m.timeout(r) <= at {
		sum += m.timeout(r)
		r++
	}
	return r
}

// roundEnd is the offset (from the duty start) by which round k is over at every running member whose
// instance started at most maxStart after the duty start. Eager: absolute. Relative: a member enters
// round 1 at its start, each round j lasts at most 2*timeout(j) at it (one restart by a justified
// PRE-PREPARE, which arrives before the first timeout expires), and it enters round j+1 when round j ends
// at the latest.
func (m timerModel) roundEnd(k int, maxStart time.Duration) time.Duration {
	if !m.relative() {
		return m.timeout(k)
	}
	end := maxStart
	for j := 1; j <= k; j++ {
		end += 2 * m.timeout(j)
	}
	return end
}

// dutyOffset is the production offset of a duty's start within its slot.
func dutyOffset(dt core.DutyType, slot time.Duration) time.Duration {
	switch dt {
	case core.DutyAttester:
		return slot / 3
	case core.DutyAggregator, core.DutySyncContribution:
		return 2 * slot / 3
	default:
		return 0
	}
}

// dutyWindow is the time from the duty's start to its deadline, after which the components drop the duty
// (core.NewDutyDeadlineFunc: proposer slot/3, sync contribution one slot, attester and aggregator one epoch
// after the slot start, each plus a margin of slot/12): messages of the instance are refused from then
// on, so nothing can be demanded of the members later than that.
func dutyWindow(dt core.DutyType, slot time.Duration, slotsPerEpoch uint64) time.Duration {
	var d time.Duration
	switch dt {
	case core.DutyProposer:
		d = slot / 3
	case core.DutySyncContribution:
		d = slot
	default:
		d = time.Duration(slotsPerEpoch) * slot
	}
	return d + slot/12 - dutyOffset(dt, slot)
}
