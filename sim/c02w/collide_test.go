//go:build verif

package c02w

import (
	"hash/crc32"
	"hash/crc64"
)

// crcVec is the concatenation of four CRCs of b: CRC-64/ECMA, CRC-64/ISO, CRC-32/IEEE, CRC-32/Castagnoli.
func crcVec(b []byte) [3]uint64 {
	return [3]uint64{
		crc64.Checksum(b, crc64.MakeTable(crc64.ECMA)),
		crc64.Checksum(b, crc64.MakeTable(crc64.ISO)),
		uint64(crc32.ChecksumIEEE(b))<<32 | uint64(crc32.Checksum(b, crc32.MakeTable(crc32.Castagnoli))),
	}
}

// collide returns a copy of b that differs from b only inside b[lo:hi], has the same length and the same
// four CRCs (hence also the same CRCs when embedded at any position of a longer message: the difference is a
// multiple of every generator polynomial). CRCs are affine over GF(2), so this is linear algebra: more free
// bits (8*(hi-lo)) than checksum bits (192) always leave a non-zero solution. nil if the window is too small.
func collide(b []byte, lo, hi int) []byte {
	if lo < 0 || hi > len(b) || (hi-lo)*8 <= 200 {
		return nil
	}
	base := crcVec(b)
	type row struct {
		v    [3]uint64
		comb []uint64 // which free bits were xored into this row
	}
	nbits := (hi - lo) * 8
	words := (nbits + 63) / 64
	var basis []row
	tmp := append([]byte(nil), b...)
	for i := 0; i < nbits; i++ {
		tmp[lo+i/8] ^= 1 << (i % 8)
		v := crcVec(tmp)
		tmp[lo+i/8] ^= 1 << (i % 8)
		r := row{comb: make([]uint64, words)}
		for k := range v {
			r.v[k] = v[k] ^ base[k]
		}
		r.comb[i/64] |= 1 << (i % 64)
		// reduce against the basis (each basis row has a distinct leading bit)
		for _, br := range basis {
			if lead(br.v) >= 0 && bit(r.v, lead(br.v)) {
				for k := range r.v {
					r.v[k] ^= br.v[k]
				}
				for k := range r.comb {
					r.comb[k] ^= br.comb[k]
				}
			}
		}
		if lead(r.v) < 0 {
			// a non-trivial combination of free bits with zero CRC difference
			out := append([]byte(nil), b...)
			for j := 0; j < nbits; j++ {
				if r.comb[j/64]&(1<<(j%64)) != 0 {
					out[lo+j/8] ^= 1 << (j % 8)
				}
			}
			if crcVec(out) != base {
				panic("c02w harness: collision solver is wrong")
			}
			return out
		}
		basis = append(basis, r)
	}
	return nil
}

func lead(v [3]uint64) int {
	for k := 0; k < 3; k++ {
		for j := 63; j >= 0; j-- {
			if v[k]&(1<<uint(j)) != 0 {
				return k*64 + j
			}
		}
	}
	return -1
}

func bit(v [3]uint64, i int) bool { return v[i/64]&(1<<uint(i%64)) != 0 }
