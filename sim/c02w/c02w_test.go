//go:build verif

// Harness c02w: C02/C03 at system level. The honest nodes of a simulated cluster run the real
// consensus component (wire encoding, signatures, transport, instance handling, qbft.Run, real round
// timers); up to f Byzantine members do not run a node but speak the consensus wire protocol
// directly with their real p2p keys: equivocating proposals, votes for several values, replays of
// observed honest messages - over a lossy, reordering network. Oracles at the consensus output of
// every honest node: agreement, decide-once, and the decided set is byte-for-byte a proposed set.
package c02w

import (
	"context"
	"fmt"
	"sync"
	"testing"
	"time"

	eth2p0 "github.com/attestantio/go-eth2-client/spec/phase0"
	k1 "github.com/decred/dcrd/dcrec/secp256k1/v4"
	ssz "github.com/ferranbt/fastssz"
	"github.com/libp2p/go-msgio/pbio"
	"google.golang.org/protobuf/proto"
	"google.golang.org/protobuf/types/known/anypb"

	"github.com/obolnetwork/charon/app/k1util"
	"github.com/obolnetwork/charon/core"
	pbv1 "github.com/obolnetwork/charon/core/corepb/v1"
	"github.com/obolnetwork/charon/verifrt"

	"verifsim/cluster"
	"verifsim/kernel"
	"verifsim/simnet"
)

const protoQBFT = "/charon/consensus/qbft/2.0.0"

func TestSim(t *testing.T) {
	kernel.Main(t, kernel.Harness{Name: "c02w", Horizon: time.Hour, Body: body, MaxSteps: 4_000_000})
}

type wbuf struct{ b []byte }

func (w *wbuf) Write(p []byte) (int, error) { w.b = append(w.b, p...); return len(p), nil }

type rbuf struct{ b []byte }

func (r *rbuf) Read(p []byte) (int, error) {
	if len(r.b) == 0 {
		return 0, fmt.Errorf("EOF")
	}
	n := copy(p, r.b)
	r.b = r.b[n:]
	return n, nil
}

func frame(m proto.Message) []byte {
	var w wbuf
	_ = pbio.NewDelimitedWriter(&w).WriteMsg(m)
	return w.b
}

func unframe(b []byte) (*pbv1.QBFTConsensusMsg, error) {
	m := new(pbv1.QBFTConsensusMsg)
	err := pbio.NewDelimitedReader(&rbuf{b}, 64<<20).ReadMsg(m)
	return m, err
}

// digest restates the protocol's hashing: SSZ merkleisation of the deterministic protobuf encoding.
func digest(m proto.Message) [32]byte {
	b, err := proto.MarshalOptions{Deterministic: true}.Marshal(m)
	if err != nil {
		panic(err)
	}
	hh := ssz.DefaultHasherPool.Get()
	defer ssz.DefaultHasherPool.Put(hh)
	idx := hh.Index()
	hh.PutBytes(b)
	hh.Merkleize(idx)
	h, err := hh.HashRoot()
	if err != nil {
		panic(err)
	}
	return h
}

func sign(m *pbv1.QBFTMsg, key *k1.PrivateKey) *pbv1.QBFTMsg {
	c := proto.Clone(m).(*pbv1.QBFTMsg)
	c.Signature = nil
	h := digest(c)
	sig, err := k1util.Sign(key, h[:])
	if err != nil {
		panic(err)
	}
	c.Signature = sig
	return c
}

func body(c *kernel.Ctx) {
	ctx, cancel := context.WithCancel(context.Background())
	defer cancel()

	n := []int{4, 7, 5, 4, 6, 7}[verifrt.Intn("cfg", 6)]
	f := (n - 1) / 3
	cfg := cluster.Config{N: n, Validators: 1 + verifrt.Intn("cfg", 2), SlotsPerEpoch: 16, SlotDuration: 12 * time.Second, StartSlot: 64 + uint64(verifrt.Intn("cfg", 16))}
	cl := cluster.New(ctx, c.T, cfg)
	slot := cfg.StartSlot
	duty := core.NewAttesterDuty(slot)
	dutyStart := cl.SlotStart(slot).Add(cfg.SlotDuration / 3)
	nViews := 2 + verifrt.Intn("cfg", 2)
	cl.View = func(node int, _ uint64) int { return node % nViews }
	maxLat := 1 + verifrt.Intn("cfg", 400)
	dropPct := []int{0, 0, 5, 15}[verifrt.Intn("cfg", 4)]
	dupPct := []int{0, 5, 15}[verifrt.Intn("cfg", 3)]
	longPct := []int{0, 5, 15}[verifrt.Intn("cfg", 3)]

	nb := 1 + verifrt.Intn("cfg", f)
	byz := make([]bool, n)
	for k := 0; k < nb; k++ {
		p := verifrt.Intn("cfg", n)
		for byz[p] {
			p = (p + 1) % n
		}
		byz[p] = true
	}
	c.Set("n", n)
	c.Set("byzantine", nb)

	// candidate proposals: the unsigned data set of every beacon view (what honest nodes propose)
	var cands []*pbv1.UnsignedDataSet
	var candAny []*anypb.Any
	var candHash [][32]byte
	for view := 0; view < nViews+1; view++ { // one extra view that only the Byzantine members propose
		set := core.UnsignedDataSet{}
		for pk, def := range cl.DefSet(slot) {
			ad := def.(core.AttesterDefinition)
			set[pk] = core.AttestationData{Data: *cl.AttData(view, eth2p0.Slot(slot), ad.CommitteeIndex), Duty: ad.AttesterDuty}
		}
		pb, err := core.UnsignedDataSetToProto(set)
		if err != nil {
			panic(err)
		}
		a, err := anypb.New(pb)
		if err != nil {
			panic(err)
		}
		cands, candAny, candHash = append(cands, pb), append(candAny, a), append(candHash, digest(pb))
	}

	// network: lossy, reordering; everything the honest nodes send is visible to the adversary
	var mu sync.Mutex
	var seen []*pbv1.QBFTConsensusMsg
	// honestCommits[value hash][member] = that honest member put a COMMIT of its own for the value on the wire
	// (envelopes written by the honest nodes' own transports; injected Byzantine traffic does not pass here)
	honestCommits := map[[32]byte]map[int64]bool{}
	cl.Net.Fate = func(e *simnet.Envelope) simnet.Fate {
		fate := simnet.Fate{Delay: time.Duration(verifrt.Intn("n", maxLat)) * time.Millisecond}
		if e.Proto == protoQBFT {
			if m, err := unframe(e.Payload); err == nil {
				mu.Lock()
				if q := m.GetMsg(); q.GetType() == 3 && len(q.GetValueHash()) == 32 && q.GetPeerIdx() >= 0 && q.GetPeerIdx() < int64(n) &&
					!byz[q.GetPeerIdx()] && e.From == cl.PeerIDs[q.GetPeerIdx()] {
					var h [32]byte
					copy(h[:], q.GetValueHash())
					if honestCommits[h] == nil {
						honestCommits[h] = map[int64]bool{}
					}
					honestCommits[h][q.GetPeerIdx()] = true
				}
				if len(seen) < 400 {
					seen = append(seen, m)
				}
				mu.Unlock()
			}
		}
		r := verifrt.Intn("n", 100)
		switch {
		case r >= 100-dropPct:
			fate.Drop = true
			verifrt.Fault("drop")
		case r >= 100-dropPct-dupPct:
			fate.Duplicate = true
			fate.DupDelay = time.Duration(verifrt.Intn("n", 3*maxLat)) * time.Millisecond
			verifrt.Fault("duplicate")
		case r >= 100-dropPct-dupPct-longPct:
			fate.Delay = time.Duration(verifrt.Intn("n", 5000)) * time.Millisecond
			verifrt.Fault("long-delay")
		}
		return fate
	}

	// honest nodes
	type dec struct {
		pb *pbv1.UnsignedDataSet
		at time.Duration
	}
	decided := map[int][]dec{}
	var honest []int
	for i := 0; i < n; i++ {
		if byz[i] {
			cl.Net.NewHost(cl.PeerIDs[i], fmt.Sprintf("byz%d", i)) // reachable, registers no handler
			continue
		}
		honest = append(honest, i)
		nd := cl.StartNode(i)
		me := i
		nd.Cons.Subscribe(func(_ context.Context, d core.Duty, set core.UnsignedDataSet) error {
			if d != duty {
				return nil
			}
			pb, err := core.UnsignedDataSetToProto(set)
			if err != nil {
				return err
			}
			mu.Lock()
			decided[me] = append(decided[me], dec{pb, time.Since(dutyStart)})
			nd := len(decided[me])
			var other *int
			for j, ds := range decided {
				if j != me && len(ds) > 0 && !proto.Equal(ds[0].pb, pb) {
					jj := j
					other = &jj
				}
			}
			dg := digest(pb)
			// every decision is backed by commit votes of a quorum of distinct members: members that can have voted
			// for this value are the Byzantine ones, this node itself (its own COMMIT reaches it without the
			// network) and the honest members whose COMMIT for exactly this value has been put on the wire
			backers := nb + 1
			for h := range honestCommits[dg] {
				if int(h) != me {
					backers++
				}
			}
			mu.Unlock()
			verifrt.Note("n%d decided view-hash %x", me, dg[:4])
			c.Progress()
			if quorum := (2*n + 2) / 3; backers < quorum {
				c.Violate("C03", "commit-quorum", "decision-without-a-quorum-of-commit-votes", "node %d decided %x although at most %d members can have sent a COMMIT for that value (this node, %d Byzantine member(s) and %d honest member(s) whose COMMIT for it is on the wire); the quorum of n=%d is %d", me, dg[:6], backers, nb, backers-nb-1, n, quorum)
			}
			if nd > 1 {
				c.Violate("C03", "decide-twice", "node-decided-more-than-once", "node %d delivered %d decisions for %v", me, nd, duty)
			}
			if other != nil {
				c.Violate("C02", "agreement", "honest-nodes-decided-different-values", "node %d decided %x but node %d decided another value for %v", me, dg[:6], *other, duty)
			}
			ok := false
			for _, cand := range cands {
				if proto.Equal(cand, pb) {
					ok = true
				}
			}
			if !ok {
				c.Violate("C03", "validity", "decided-value-is-not-a-proposed-payload", "node %d decided a set that is byte-for-byte none of the proposed sets", me)
			}
			return nil
		})
		// As in production, most nodes join the duty's instance at the duty's start (Participate, driven by the
		// slot tick) and propose when their own data is there - which may be late (slow beacon node), even
		// after the instance has decided on the other members' proposals.
		participates := verifrt.Intn("w", 4) != 3
		lateBy := time.Duration(verifrt.Intn("w", 1500)) * time.Millisecond
		if verifrt.Intn("w", 4) == 3 {
			lateBy = time.Duration(2000+verifrt.Intn("w", 6000)) * time.Millisecond
			verifrt.Probe("late-own-proposal")
		}
		if participates {
			verifrt.GoNode(nd.Tag, func() {
				verifrt.Sleep(time.Until(dutyStart) + time.Duration(verifrt.Intn("w", 200))*time.Millisecond)
				_ = nd.Cons.Participate(nd.Ctx, duty)
			})
		}
		verifrt.GoNode(nd.Tag, func() {
			verifrt.Sleep(time.Until(dutyStart) + lateBy)
			if verifrt.Intn("w", 8) == 7 {
				return // this node never proposes for the duty
			}
			nd.Sched.Trigger(nd.Ctx, duty, cl.DefSet(slot))
		})
	}

	// ---- the Byzantine members -----------------------------------------------------------------
	leader := func(round int64) int { return int((int64(duty.Slot) + int64(duty.Type) + round) % int64(n)) }
	send := func(from, to int, m *pbv1.QBFTConsensusMsg) {
		verifrt.Fault("byz:consensus-msg")
		cl.Net.Inject(cl.PeerIDs[from], cl.PeerIDs[to], protoQBFT, frame(m), time.Duration(verifrt.Intn("a", 300))*time.Millisecond)
	}
	mk := func(b int, typ, round int64, v int, pr int64, pv int, just []*pbv1.QBFTMsg) *pbv1.QBFTConsensusMsg {
		q := &pbv1.QBFTMsg{Type: typ, Duty: core.DutyToProto(duty), PeerIdx: int64(b), Round: round, PreparedRound: pr}
		vals := map[int]bool{}
		if v >= 0 {
			q.ValueHash = candHash[v][:]
			vals[v] = true
		}
		if pv >= 0 {
			q.PreparedValueHash = candHash[pv][:]
			vals[pv] = true
		}
		out := &pbv1.QBFTConsensusMsg{Msg: sign(q, cl.Keys[b]), Justification: just}
		for _, j := range just {
			for k, h := range candHash {
				if string(j.GetValueHash()) == string(h[:]) || string(j.GetPreparedValueHash()) == string(h[:]) {
					vals[k] = true
				}
			}
		}
		for k := range candAny {
			if vals[k] {
				out.Values = append(out.Values, candAny[k])
			}
		}
		return out
	}
	var byzIDs []int
	for i, b := range byz {
		if b {
			byzIDs = append(byzIDs, i)
		}
	}
	verifrt.GoNode("adv", func() {
		verifrt.Sleep(time.Until(dutyStart))
		moves := 4 + verifrt.Intn("a", 30)
		for i := 0; i < moves && ctx.Err() == nil; i++ {
			verifrt.Sleep(time.Duration(verifrt.Intn("a", 8)) * 150 * time.Millisecond)
			round := 1 + int64(time.Since(dutyStart)/time.Second) // rounds are absolute one-second windows
			b := byzIDs[verifrt.Intn("a", len(byzIDs))]
			v1, v2 := verifrt.Intn("a", len(cands)), verifrt.Intn("a", len(cands))
			// justification material from observed honest messages of the round
			mu.Lock()
			obs := append([]*pbv1.QBFTConsensusMsg(nil), seen...)
			mu.Unlock()
			rcs := func(r int64) []*pbv1.QBFTMsg {
				var out []*pbv1.QBFTMsg
				srcs := map[int64]bool{}
				for _, m := range obs {
					q := m.GetMsg()
					if q.GetType() == 4 && q.GetRound() == r && !srcs[q.GetPeerIdx()] && core.DutyFromProto(q.GetDuty()) == duty {
						srcs[q.GetPeerIdx()] = true
						out = append(out, q)
						out = append(out, m.GetJustification()...) // prepares justifying a prepared round change
					}
				}
				for _, bb := range byzIDs {
					out = append(out, sign(&pbv1.QBFTMsg{Type: 4, Duty: core.DutyToProto(duty), PeerIdx: int64(bb), Round: r}, cl.Keys[bb]))
				}
				return out
			}
			switch verifrt.Intn("a", 8) {
			case 7: // a vote of its own that carries, as "justification", the same vote attributed to every honest
				// member - with a made-up signature, signed with the Byzantine member's own key, or with the signature
				// bytes of some genuine message of that member - for one value towards some members, for another
				// value towards the others (an implementation that counts attached votes must authenticate them)
				typ := int64(2 + verifrt.Intn("a", 2))
				how := verifrt.Intn("a", 3)
				for _, bb := range byzIDs {
					for ti, to := range honest {
						v := v1
						if ti%2 == 1 {
							v = v2
						}
						var j []*pbv1.QBFTMsg
						for _, h := range honest {
							q := &pbv1.QBFTMsg{Type: typ, Duty: core.DutyToProto(duty), PeerIdx: int64(h), Round: round, ValueHash: candHash[v][:]}
							switch how {
							case 0:
								q.Signature = make([]byte, 65)
								q.Signature[5] = byte(h + 1)
							case 1:
								q = sign(q, cl.Keys[bb])
							default:
								q.Signature = make([]byte, 65)
								for _, m := range obs {
									if m.GetMsg().GetPeerIdx() == int64(h) {
										q.Signature = append([]byte(nil), m.GetMsg().GetSignature()...)
									}
								}
							}
							j = append(j, q)
						}
						send(bb, to, mk(bb, typ, round, v, 0, -1, j))
					}
				}
				verifrt.Probe("adv:vote-with-attributed-votes-attached")
			case 0: // equivocating leader of this or a coming round
				for r := round; r <= round+2; r++ {
					if !byz[leader(r)] {
						continue
					}
					var j []*pbv1.QBFTMsg
					if r > 1 {
						j = rcs(r)
						switch verifrt.Intn("a", 4) {
						case 2: // ROUND-CHANGEs attributed to every honest member, with signatures they never made
							j = nil
							for _, h := range honest {
								q := &pbv1.QBFTMsg{Type: 4, Duty: core.DutyToProto(duty), PeerIdx: int64(h), Round: r, Signature: make([]byte, 65)}
								q.Signature[3] = byte(h + 1)
								j = append(j, q)
							}
							for _, bb := range byzIDs {
								j = append(j, sign(&pbv1.QBFTMsg{Type: 4, Duty: core.DutyToProto(duty), PeerIdx: int64(bb), Round: r}, cl.Keys[bb]))
							}
							verifrt.Probe("adv:forged-honest-round-changes")
						case 3: // a prepared certificate for v1 "signed" by honest members: PREPAREs that reuse the
							// signature bytes of their genuine ROUND-CHANGEs listed just before
							var forged []*pbv1.QBFTMsg
							for _, q := range j {
								if q.GetType() == 4 && !byz[q.GetPeerIdx()] {
									forged = append(forged, &pbv1.QBFTMsg{Type: 2, Duty: core.DutyToProto(duty), PeerIdx: q.GetPeerIdx(), Round: r - 1, ValueHash: candHash[v1][:], Signature: append([]byte(nil), q.GetSignature()...)})
								}
							}
							for _, bb := range byzIDs {
								forged = append(forged, sign(&pbv1.QBFTMsg{Type: 2, Duty: core.DutyToProto(duty), PeerIdx: int64(bb), Round: r - 1, ValueHash: candHash[v1][:]}, cl.Keys[bb]))
							}
							claim := sign(&pbv1.QBFTMsg{Type: 4, Duty: core.DutyToProto(duty), PeerIdx: int64(leader(r)), Round: r, PreparedRound: r - 1, PreparedValueHash: candHash[v1][:]}, cl.Keys[leader(r)])
							j = append(append([]*pbv1.QBFTMsg{claim}, j...), forged...)
							v2 = v1
							verifrt.Probe("adv:forged-prepared-certificate")
						}
					}
					for _, to := range honest {
						switch verifrt.Intn("a", 4) {
						case 0:
							send(leader(r), to, mk(leader(r), 1, r, v1, 0, -1, j))
						case 1:
							send(leader(r), to, mk(leader(r), 1, r, v2, 0, -1, j))
						case 2:
							send(leader(r), to, mk(leader(r), 1, r, v1, 0, -1, j))
							send(leader(r), to, mk(leader(r), 1, r, v2, 0, -1, j))
						}
					}
					verifrt.Probe("adv:equivocating-leader")
				}
			case 1, 2: // votes for several values
				typ := int64(2 + verifrt.Intn("a", 2))
				for _, bb := range byzIDs {
					for _, to := range honest {
						v := v1
						if verifrt.Intn("a", 2) == 1 {
							v = v2
						}
						send(bb, to, mk(bb, typ, round, v, 0, -1, nil))
						if verifrt.Intn("a", 3) == 0 {
							send(bb, to, mk(bb, typ, round, v2, 0, -1, nil))
						}
					}
				}
				verifrt.Probe("adv:double-vote")
			case 3: // follow: vote for whatever was proposed last, towards a subset (lets some reach quorum)
				for k := len(obs) - 1; k >= 0; k-- {
					q := obs[k].GetMsg()
					if q.GetType() != 1 || core.DutyFromProto(q.GetDuty()) != duty {
						continue
					}
					vi := -1
					for x, h := range candHash {
						if string(q.GetValueHash()) == string(h[:]) {
							vi = x
						}
					}
					if vi < 0 {
						break
					}
					for _, bb := range byzIDs {
						for _, to := range honest {
							if verifrt.Intn("a", 2) == 0 {
								send(bb, to, mk(bb, 2, q.GetRound(), vi, 0, -1, nil))
								send(bb, to, mk(bb, 3, q.GetRound(), vi, 0, -1, nil))
							}
						}
					}
					break
				}
			case 4: // replay an observed honest message to someone, later
				if len(obs) > 0 {
					m := obs[verifrt.Intn("a", len(obs))]
					if verifrt.Intn("a", 2) == 1 && len(m.GetValues()) > 0 {
						// ... with the value bodies replaced by other content of the same length, prefix, suffix and
						// CRC-32/64 checksums (the signed header names the hash of the authentic body)
						m = substituteBodies(m)
						verifrt.Probe("adv:replay-with-substituted-value-body")
					}
					send(b, honest[verifrt.Intn("a", len(honest))], m)
					verifrt.Probe("adv:replay")
				}
			case 5: // round pushing
				for _, bb := range byzIDs {
					for _, to := range honest {
						send(bb, to, mk(bb, 4, round+1+int64(verifrt.Intn("a", 2)), -1, 0, -1, nil))
					}
				}
			case 6: // DECIDED assembled from observed COMMITs plus own, for the observed or another value
				var commits []*pbv1.QBFTMsg
				var r0 int64
				vi := -1
				for _, m := range obs {
					q := m.GetMsg()
					if q.GetType() == 3 && core.DutyFromProto(q.GetDuty()) == duty {
						if vi < 0 {
							for x, h := range candHash {
								if string(q.GetValueHash()) == string(h[:]) {
									vi, r0 = x, q.GetRound()
								}
							}
						}
						if q.GetRound() == r0 {
							commits = append(commits, q)
						}
					}
				}
				if vi >= 0 {
					claim := vi
					if verifrt.Intn("a", 2) == 1 {
						claim = v2
					}
					for _, bb := range byzIDs {
						commits = append(commits, sign(&pbv1.QBFTMsg{Type: 3, Duty: core.DutyToProto(duty), PeerIdx: int64(bb), Round: r0, ValueHash: candHash[claim][:]}, cl.Keys[bb]))
					}
					dm := mk(b, 5, r0, claim, 0, -1, commits)
					if verifrt.Intn("a", 3) == 2 {
						dm = substituteBodies(dm)
						verifrt.Probe("adv:decided-with-substituted-value-body")
					}
					for _, to := range honest {
						send(b, to, dm)
					}
					verifrt.Probe("adv:forged-decided")
				}
			}
		}
	})

	verifrt.Sleep(time.Until(dutyStart) + 25*time.Second)
	mu.Lock()
	nd := 0
	for _, ds := range decided {
		if len(ds) > 0 {
			nd++
		}
	}
	mu.Unlock()
	c.Set("honest_decided", fmt.Sprintf("%d of %d", nd, len(honest)))
	if nd == len(honest) {
		verifrt.Probe("all-honest-decided")
	}
	cancel()
}

// substituteBodies returns a copy of m whose value bodies are replaced by same-length, same-checksum variants
// with other content (see collide).
func substituteBodies(m *pbv1.QBFTConsensusMsg) *pbv1.QBFTConsensusMsg {
	cp := proto.Clone(m).(*pbv1.QBFTConsensusMsg)
	for _, v := range cp.Values {
		if n := len(v.GetValue()); n >= 64 {
			if cb := collide(v.GetValue(), n/2-16, n/2+16); cb != nil {
				v.Value = cb
			}
		}
	}
	return cp
}
