//go:build verif

// Deterministic values of the core workflow types for C18: every byte is a function of the seed.
// A tag-driven filler populates every pointer, slice and array of the eth2 structures (honouring the
// ssz-size / ssz-max struct tags so that the values marshal), so that "every pointer, slice and map
// reachable from a value" is non-trivial for each type.
package c18

import (
	"fmt"
	"math/big"
	"reflect"
	"strconv"
	"strings"
	"time"

	bitfield "github.com/OffchainLabs/go-bitfield"
	eth2api "github.com/attestantio/go-eth2-client/api"
	eth2v1 "github.com/attestantio/go-eth2-client/api/v1"
	eth2spec "github.com/attestantio/go-eth2-client/spec"
	"github.com/attestantio/go-eth2-client/spec/altair"
	"github.com/attestantio/go-eth2-client/spec/bellatrix"
	eth2p0 "github.com/attestantio/go-eth2-client/spec/phase0"

	"github.com/obolnetwork/charon/core"

	"verifsim/simdata"
)

var bitlistT = reflect.TypeOf(bitfield.Bitlist{})

type filler struct{ n uint64 }

func (f *filler) u() uint64 { f.n++; return f.n }

func splitTag(s string) []string {
	if s == "" {
		return nil
	}
	return strings.Split(s, ",")
}

func tail(s []string) string {
	if len(s) <= 1 {
		return ""
	}
	return strings.Join(s[1:], ",")
}

// fill populates v (settable) deterministically. tag is the struct tag of the field holding v.
func (f *filler) fill(v reflect.Value, tag reflect.StructTag) {
	switch v.Kind() {
	case reflect.Bool:
		v.SetBool(f.u()%2 == 1)
	case reflect.Int, reflect.Int8, reflect.Int16, reflect.Int32, reflect.Int64:
		v.SetInt(int64(f.u() % 100))
	case reflect.Uint8:
		v.SetUint(uint64(byte(f.u()*7 + 1)))
	case reflect.Uint, reflect.Uint16, reflect.Uint32, reflect.Uint64:
		v.SetUint(1000 + f.u())
	case reflect.String:
		v.SetString(fmt.Sprintf("s%d", f.u()))
	case reflect.Pointer:
		v.Set(reflect.New(v.Type().Elem()))
		f.fill(v.Elem(), tag)
	case reflect.Struct:
		t := v.Type()
		if t == timeType {
			v.Set(reflect.ValueOf(time.Unix(1_700_000_000+int64(f.u()), 0).UTC()))
			return
		}
		for i := 0; i < t.NumField(); i++ {
			if t.Field(i).IsExported() {
				f.fill(v.Field(i), t.Field(i).Tag)
			}
		}
	case reflect.Array:
		if v.Type().Elem().Kind() == reflect.Uint8 {
			x := f.u()
			for i := 0; i < v.Len(); i++ {
				v.Index(i).SetUint(uint64(byte(x*31 + uint64(i)*7 + 1)))
			}
			return
		}
		for i := 0; i < v.Len(); i++ {
			f.fill(v.Index(i), "")
		}
	case reflect.Slice:
		t := v.Type()
		if t == bitlistT {
			bl := bitfield.NewBitlist(8 + f.u()%8)
			bl.SetBitAt(f.u()%8, true)
			bl.SetBitAt(f.u()%8, true)
			v.Set(reflect.ValueOf(bl))
			return
		}
		sizes, maxes := splitTag(tag.Get("ssz-size")), splitTag(tag.Get("ssz-max"))
		n := -1
		if len(sizes) > 0 && sizes[0] != "?" {
			if x, err := strconv.Atoi(sizes[0]); err == nil {
				n = x
			}
		}
		if n < 0 {
			switch {
			case t.Elem().Size() > 4096:
				n = 0 // blobs
			case t.Elem().Kind() == reflect.Uint8:
				n = 5
			default:
				n = 2
			}
			if len(maxes) > 0 {
				if m, err := strconv.Atoi(maxes[0]); err == nil && m < n {
					n = m
				}
			}
		}
		s := reflect.MakeSlice(t, n, n)
		if t.Elem().Kind() == reflect.Uint8 {
			x := f.u()
			for i := 0; i < n; i++ {
				s.Index(i).SetUint(uint64(byte(x*13 + uint64(i)*5 + 1)))
			}
		} else {
			inner := reflect.StructTag(fmt.Sprintf(`ssz-size:"%s" ssz-max:"%s"`, tail(sizes), tail(maxes)))
			for i := 0; i < n; i++ {
				f.fill(s.Index(i), inner)
			}
		}
		v.Set(s)
	}
	// maps, interfaces: left nil (none in the eth2 containers)
}

func fillNew[T any](seed uint64) *T {
	x := new(T)
	(&filler{n: seed * 100_000}).fill(reflect.ValueOf(x).Elem(), "")
	return x
}

var versionNames = map[eth2spec.DataVersion]string{
	eth2spec.DataVersionPhase0: "Phase0", eth2spec.DataVersionAltair: "Altair", eth2spec.DataVersionBellatrix: "Bellatrix",
	eth2spec.DataVersionCapella: "Capella", eth2spec.DataVersionDeneb: "Deneb", eth2spec.DataVersionElectra: "Electra",
	eth2spec.DataVersionFulu: "Fulu",
}

// versioned builds one of the attestantio "Versioned…" unions with exactly the fork field of the
// given version (and blinding) populated.
func versioned[T any](version eth2spec.DataVersion, blinded bool, seed uint64) *T {
	x := new(T)
	v := reflect.ValueOf(x).Elem()
	v.FieldByName("Version").SetUint(uint64(version))
	name := versionNames[version]
	if blinded {
		v.FieldByName("Blinded").SetBool(true)
		name += "Blinded"
	}
	fld := v.FieldByName(name)
	if !fld.IsValid() {
		panic("c18: no field " + name + " in " + v.Type().String())
	}
	(&filler{n: seed * 100_000}).fill(fld, "")
	return x
}

// withExtras populates the fields of a "Versioned…" union that lie outside the fork variants (e.g.
// VersionedAttestation.ValidatorIndex, VersionedProposal.ConsensusValue / ExecutionValue): optional
// pointers that only some producers (JSON decoding, builder responses) set.
func withExtras(x any, seed uint64) {
	v := reflect.ValueOf(x).Elem()
	t := v.Type()
	fl := &filler{n: seed*100_000 + 77_000}
outer:
	for i := 0; i < t.NumField(); i++ {
		n := t.Field(i).Name
		if n == "Version" || n == "Blinded" || !t.Field(i).IsExported() {
			continue
		}
		for _, vn := range versionNames {
			if strings.HasPrefix(n, vn) {
				continue outer
			}
		}
		if t.Field(i).Type == bigIntPtrT {
			v.Field(i).Set(reflect.ValueOf(new(big.Int).SetUint64(1_000_000_007*fl.u() + seed)))
			continue
		}
		fl.fill(v.Field(i), t.Field(i).Tag)
	}
}

var bigIntPtrT = reflect.TypeOf((*big.Int)(nil))

// setSlot sets the first uint field called Slot found under v (through Block / Message / SignedBlock /
// Data / Contribution / Aggregate wrappers).
func setSlot(v reflect.Value, slot uint64) bool {
	for v.Kind() == reflect.Pointer {
		if v.IsNil() {
			return false
		}
		v = v.Elem()
	}
	if v.Kind() != reflect.Struct {
		return false
	}
	if f := v.FieldByName("Slot"); f.IsValid() && f.Kind() == reflect.Uint64 {
		f.SetUint(slot)
		return true
	}
	for _, n := range []string{"Block", "SignedBlock", "Message", "Data", "Contribution", "Aggregate"} {
		if f := v.FieldByName(n); f.IsValid() && setSlot(f, slot) {
			return true
		}
	}
	return false
}

func forkField(x any) reflect.Value {
	v := reflect.ValueOf(x).Elem()
	name := versionNames[eth2spec.DataVersion(v.FieldByName("Version").Uint())]
	if b := v.FieldByName("Blinded"); b.IsValid() && b.Bool() {
		name += "Blinded"
	}
	return v.FieldByName(name)
}

// ---- fork variants ------------------------------------------------------------------------------------

type fork struct {
	v       eth2spec.DataVersion
	blinded bool
}

func (f fork) String() string {
	s := strings.ToLower(versionNames[f.v])
	if f.blinded {
		s += "-blinded"
	}
	return s
}

var proposalForks = []fork{
	{eth2spec.DataVersionPhase0, false}, {eth2spec.DataVersionCapella, false}, {eth2spec.DataVersionDeneb, true},
	{eth2spec.DataVersionElectra, false}, {eth2spec.DataVersionBellatrix, true}, {eth2spec.DataVersionFulu, false},
	{eth2spec.DataVersionAltair, false}, {eth2spec.DataVersionDeneb, false}, {eth2spec.DataVersionFulu, true},
}

var attForks = []fork{{eth2spec.DataVersionElectra, false}, {eth2spec.DataVersionPhase0, false}, {eth2spec.DataVersionDeneb, false}, {eth2spec.DataVersionFulu, false}}

// ---- unsigned data ---------------------------------------------------------------------------------------

func mkAttData(slot, comm, seed uint64) *eth2p0.AttestationData {
	d := fillNew[eth2p0.AttestationData](seed)
	d.Slot = eth2p0.Slot(slot)
	d.Index = eth2p0.CommitteeIndex(comm)
	return d
}

func mkAttesterDuty(slot, comm uint64, pk int) eth2v1.AttesterDuty {
	epk, err := simdata.PubKey(pk).ToETH2()
	if err != nil {
		panic(err)
	}
	return eth2v1.AttesterDuty{PubKey: epk, Slot: eth2p0.Slot(slot), ValidatorIndex: eth2p0.ValidatorIndex(pk), CommitteeIndex: eth2p0.CommitteeIndex(comm),
		CommitteeLength: 8, CommitteesAtSlot: 4, ValidatorCommitteeIndex: uint64(pk)}
}

// mkUnsignedAtt: the attestation data of a slot is the same for every validator (as a beacon node
// serves it); the duty differs.
func mkUnsignedAtt(slot, comm uint64, pk int, seed uint64) core.AttestationData {
	return core.AttestationData{Data: *mkAttData(slot, 0, seed), Duty: mkAttesterDuty(slot, comm, pk)}
}

func mkProposal(f fork, slot, seed uint64) *eth2api.VersionedProposal {
	p := versioned[eth2api.VersionedProposal](f.v, f.blinded, seed)
	if !setSlot(forkField(p), slot) {
		panic("c18: no slot in proposal " + f.String())
	}
	return p
}

func mkUnsignedProposal(f fork, slot, seed uint64) core.VersionedProposal {
	return mkUnsignedProposalX(f, slot, seed, false)
}

func mkUnsignedProposalX(f fork, slot, seed uint64, extras bool) core.VersionedProposal {
	vp := mkProposal(f, slot, seed)
	if extras {
		withExtras(vp, seed)
	}
	p, err := core.NewVersionedProposal(vp)
	if err != nil {
		panic(err)
	}
	return p
}

// mkVerAtt builds a versioned attestation (also used as aggregate). Electra-style attestations get
// exactly one committee bit and a validator index.
func mkVerAtt(f fork, slot, comm, seed uint64) *eth2spec.VersionedAttestation {
	a := versioned[eth2spec.VersionedAttestation](f.v, false, seed)
	ff := forkField(a).Elem()
	data := ff.FieldByName("Data").Interface().(*eth2p0.AttestationData)
	data.Slot = eth2p0.Slot(slot)
	if f.v >= eth2spec.DataVersionElectra {
		data.Index = 0
		cb := bitfield.NewBitvector64()
		cb.SetBitAt(comm, true)
		ff.FieldByName("CommitteeBits").Set(reflect.ValueOf(cb))
		vi := eth2p0.ValidatorIndex(7 + seed%5)
		a.ValidatorIndex = &vi
	} else {
		data.Index = eth2p0.CommitteeIndex(comm)
	}
	return a
}

func mkUnsignedAgg(f fork, slot, comm, seed uint64) core.VersionedAggregatedAttestation {
	return mkUnsignedAggX(f, slot, comm, seed, false)
}

// mkUnsignedAggX: extras = the aggregate carries a validator index (as a JSON-decoded one can; the SSZ
// clone of the stores drops it, so reference values are built without).
func mkUnsignedAggX(f fork, slot, comm, seed uint64, extras bool) core.VersionedAggregatedAttestation {
	va := mkVerAtt(f, slot, comm, seed)
	va.ValidatorIndex = nil
	if extras {
		withExtras(va, seed)
	}
	a, err := core.NewVersionedAggregatedAttestation(va)
	if err != nil {
		panic(err)
	}
	return a
}

func mkContribution(slot, sub, seed uint64) *altair.SyncCommitteeContribution {
	c := fillNew[altair.SyncCommitteeContribution](seed)
	c.Slot = eth2p0.Slot(slot)
	c.SubcommitteeIndex = sub
	return c
}

// ---- signed data -------------------------------------------------------------------------------------------

// sdKind is one concrete SignedData type (with fork variants where the type is a versioned union).
type sdKind struct {
	name     string
	duty     core.DutyType
	variants int
	mk       func(variant int, slot, seed uint64) core.SignedData
	varName  func(variant int) string
}

func noVar(int) string { return "" }

func must[T any](x T, err error) T {
	if err != nil {
		panic(err)
	}
	return x
}

var sdKinds = []sdKind{
	{"VersionedAttestation", core.DutyAttester, len(attForks), func(v int, slot, seed uint64) core.SignedData {
		return must(core.NewVersionedAttestation(mkVerAtt(attForks[v], slot, 1, seed)))
	}, func(v int) string { return attForks[v].String() }},
	{"VersionedSignedProposal", core.DutyProposer, len(proposalForks), func(v int, slot, seed uint64) core.SignedData {
		f := proposalForks[v]
		p := versioned[eth2api.VersionedSignedProposal](f.v, f.blinded, seed)
		if !setSlot(forkField(p), slot) {
			panic("c18: no slot in signed proposal " + f.String())
		}
		return must(core.NewVersionedSignedProposal(p))
	}, func(v int) string { return proposalForks[v].String() }},
	{"SignedVoluntaryExit", core.DutyExit, 1, func(_ int, slot, seed uint64) core.SignedData {
		return core.NewSignedVoluntaryExit(fillNew[eth2p0.SignedVoluntaryExit](seed))
	}, noVar},
	{"VersionedSignedValidatorRegistration", core.DutyBuilderRegistration, 1, func(_ int, slot, seed uint64) core.SignedData {
		r := fillNew[eth2v1.SignedValidatorRegistration](seed)
		r.Message.FeeRecipient = bellatrix.ExecutionAddress{1, 2, 3, byte(seed)}
		return must(core.NewVersionedSignedValidatorRegistration(&eth2api.VersionedSignedValidatorRegistration{Version: eth2spec.BuilderVersionV1, V1: r}))
	}, noVar},
	{"SignedAggregateAndProof", core.DutyAggregator, 1, func(_ int, slot, seed uint64) core.SignedData {
		a := fillNew[eth2p0.SignedAggregateAndProof](seed)
		a.Message.Aggregate.Data.Slot = eth2p0.Slot(slot)
		return core.NewSignedAggregateAndProof(a)
	}, noVar},
	{"VersionedSignedAggregateAndProof", core.DutyAggregator, len(attForks), func(v int, slot, seed uint64) core.SignedData {
		f := attForks[v]
		a := versioned[eth2spec.VersionedSignedAggregateAndProof](f.v, false, seed)
		agg := forkField(a).Elem().FieldByName("Message").Elem().FieldByName("Aggregate").Elem()
		agg.FieldByName("Data").Interface().(*eth2p0.AttestationData).Slot = eth2p0.Slot(slot)
		if f.v >= eth2spec.DataVersionElectra {
			cb := bitfield.NewBitvector64()
			cb.SetBitAt(1, true)
			agg.FieldByName("CommitteeBits").Set(reflect.ValueOf(cb))
		}
		return core.NewVersionedSignedAggregateAndProof(a)
	}, func(v int) string { return attForks[v].String() }},
	{"SignedSyncContributionAndProof", core.DutySyncContribution, 1, func(_ int, slot, seed uint64) core.SignedData {
		c := fillNew[altair.SignedContributionAndProof](seed)
		c.Message.Contribution.Slot = eth2p0.Slot(slot)
		c.Message.Contribution.SubcommitteeIndex = 1
		return core.NewSignedSyncContributionAndProof(c)
	}, noVar},
	{"SyncContributionAndProof", core.DutySignature, 1, func(_ int, slot, seed uint64) core.SignedData {
		c := fillNew[altair.ContributionAndProof](seed)
		c.Contribution.Slot = eth2p0.Slot(slot)
		return core.NewSyncContributionAndProof(c)
	}, noVar},
	{"Signature", core.DutySignature, 1, func(_ int, slot, seed uint64) core.SignedData {
		s := simdata.Sig(seed)
		return core.SigFromETH2(s)
	}, noVar},
	// The remaining types hold no pointer, slice or map (plain values): they cannot share memory.
	// They are exercised for completeness; the oracles hold trivially for them.
	{"SignedRandao", core.DutyRandao, 1, func(_ int, slot, seed uint64) core.SignedData {
		return core.NewSignedRandao(eth2p0.Epoch(slot/32), simdata.Sig(seed))
	}, noVar},
	{"BeaconCommitteeSelection", core.DutyPrepareAggregator, 1, func(_ int, slot, seed uint64) core.SignedData {
		return core.NewBeaconCommitteeSelection(&eth2v1.BeaconCommitteeSelection{ValidatorIndex: eth2p0.ValidatorIndex(seed % 50), Slot: eth2p0.Slot(slot), SelectionProof: simdata.Sig(seed)})
	}, noVar},
	{"SyncCommitteeSelection", core.DutyPrepareSyncContribution, 1, func(_ int, slot, seed uint64) core.SignedData {
		return core.NewSyncCommitteeSelection(&eth2v1.SyncCommitteeSelection{ValidatorIndex: eth2p0.ValidatorIndex(seed % 50), Slot: eth2p0.Slot(slot), SubcommitteeIndex: 1, SelectionProof: simdata.Sig(seed)})
	}, noVar},
	{"SignedSyncMessage", core.DutySyncMessage, 1, func(_ int, slot, seed uint64) core.SignedData {
		m := fillNew[altair.SyncCommitteeMessage](seed)
		m.Slot = eth2p0.Slot(slot)
		return core.NewSignedSyncMessage(m)
	}, noVar},
}

// nPointerKinds is the number of leading sdKinds whose values reference mutable memory.
const nPointerKinds = 9

// pickKind draws a signed-data kind and variant: mostly the kinds that can share memory.
func pickKind(draw func(int) int) (sdKind, int) {
	i := draw(nPointerKinds + 1)
	if i == nPointerKinds {
		i = nPointerKinds + draw(len(sdKinds)-nPointerKinds)
	}
	k := sdKinds[i]
	return k, draw(k.variants)
}

func (k sdKind) label(variant int) string {
	if s := k.varName(variant); s != "" {
		return k.name + "/" + s
	}
	return k.name
}

// subcommOf is the sync subcommittee index under which the stores key a datum of this duty type.
func subcommOf(t core.DutyType) core.SubcommitteeIndex {
	if core.IsSyncSubcommitteeDuty(t) {
		return 1
	}
	return 0
}
