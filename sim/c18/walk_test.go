//go:build verif

// Generic reflection walks used by the C18 oracles. None of them ever puts an address into a log,
// a signature or a detail string: they report Go type names and field paths only.
//
//	canon(x)          canonical content of everything reachable from x (nil slice == empty slice,
//	                  time.Time by instant); top-level pointers/interfaces are dereferenced
//	diff(a, b)        field path and values of the first leaf in which two values differ
//	sharesMemory(a,b) true if some mutable memory (pointer target, slice backing array incl. spare
//	                  capacity, map) reachable from a overlaps some reachable from b
//	scramble(x)       overwrites, IN PLACE, every number / byte / bool / string reachable from x
//	                  through pointers, slice elements, map entries and addressable struct fields
package c18

import (
	"encoding/binary"
	"encoding/hex"
	"fmt"
	"math"
	"reflect"
	"sort"
	"time"
	"unsafe"
)

var timeType = reflect.TypeOf(time.Time{})

// top dereferences top-level pointers and interfaces.
func top(x any) reflect.Value {
	v := reflect.ValueOf(x)
	for v.IsValid() && (v.Kind() == reflect.Pointer || v.Kind() == reflect.Interface) && !v.IsNil() {
		v = v.Elem()
	}
	return v
}

// typeName is the Go type of x as the receiver sees it (e.g. "*phase0.AttestationData"); for the
// set types, whose elements are interfaces, the dynamic type of the (first) element is appended:
// "core.SignedDataSet<core.VersionedAttestation>".
func typeName(x any) string {
	if x == nil {
		return "nil"
	}
	t := reflect.TypeOf(x)
	if t.Kind() == reflect.Map || t.Kind() == reflect.Slice {
		if e := elemType(reflect.ValueOf(x), 0); e != "" {
			return t.String() + "<" + e + ">"
		}
	}
	return t.String()
}

// elemType finds the dynamic type of the first interface-typed element of a container.
func elemType(v reflect.Value, depth int) string {
	if depth > 4 {
		return ""
	}
	switch v.Kind() {
	case reflect.Map:
		if es := sortedEntries(v); len(es) > 0 {
			return elemType(es[0].val, depth+1)
		}
	case reflect.Slice:
		if v.Len() > 0 && v.Type().Elem().Kind() != reflect.Uint8 {
			return elemType(v.Index(0), depth+1)
		}
	case reflect.Interface:
		if !v.IsNil() {
			return v.Elem().Type().String()
		}
	case reflect.Struct:
		for i := 0; i < v.NumField(); i++ {
			if v.Field(i).Kind() == reflect.Interface {
				return elemType(v.Field(i), depth+1)
			}
		}
	}
	return ""
}

// writable returns a settable alias of v if v is addressable (also for unexported fields).
func writable(v reflect.Value) reflect.Value {
	if v.CanSet() || !v.CanAddr() {
		return v
	}
	return reflect.NewAt(v.Type(), unsafe.Pointer(v.UnsafeAddr())).Elem()
}

// readable returns a value on which Interface() may be called, if possible.
func timeOf(v reflect.Value) (time.Time, bool) {
	if v.CanInterface() {
		return v.Interface().(time.Time), true
	}
	if v.CanAddr() {
		return *(*time.Time)(unsafe.Pointer(v.UnsafeAddr())), true
	}
	return time.Time{}, false
}

// ---- canonical content -------------------------------------------------------------------------

type canonW struct{ buf []byte }

func (w *canonW) u64(x uint64) { w.buf = binary.BigEndian.AppendUint64(w.buf, x) }

func (w *canonW) walk(v reflect.Value) {
	switch v.Kind() {
	case reflect.Invalid:
		w.buf = append(w.buf, 'Z')
	case reflect.Bool:
		if v.Bool() {
			w.buf = append(w.buf, 1)
		} else {
			w.buf = append(w.buf, 0)
		}
	case reflect.Int, reflect.Int8, reflect.Int16, reflect.Int32, reflect.Int64:
		w.u64(uint64(v.Int()))
	case reflect.Uint, reflect.Uint8, reflect.Uint16, reflect.Uint32, reflect.Uint64, reflect.Uintptr:
		w.u64(v.Uint())
	case reflect.Float32, reflect.Float64:
		w.u64(math.Float64bits(v.Float()))
	case reflect.String:
		w.u64(uint64(v.Len()))
		w.buf = append(w.buf, v.String()...)
	case reflect.Pointer:
		if v.IsNil() {
			w.buf = append(w.buf, 'n')
			return
		}
		w.buf = append(w.buf, 'p')
		w.walk(v.Elem())
	case reflect.Interface:
		if v.IsNil() {
			w.buf = append(w.buf, 'n')
			return
		}
		w.buf = append(w.buf, 'i')
		w.buf = append(w.buf, v.Elem().Type().String()...)
		w.walk(v.Elem())
	case reflect.Slice:
		w.buf = append(w.buf, '[')
		w.u64(uint64(v.Len()))
		if v.Type().Elem().Kind() == reflect.Uint8 {
			w.buf = append(w.buf, v.Bytes()...)
			return
		}
		for i := 0; i < v.Len(); i++ {
			w.walk(v.Index(i))
		}
	case reflect.Array:
		w.buf = append(w.buf, '(')
		if v.Type().Elem().Kind() == reflect.Uint8 && v.CanAddr() {
			w.buf = append(w.buf, v.Bytes()...)
			return
		}
		for i := 0; i < v.Len(); i++ {
			w.walk(v.Index(i))
		}
	case reflect.Map:
		w.buf = append(w.buf, '{')
		w.u64(uint64(v.Len()))
		for _, e := range sortedEntries(v) {
			w.buf = append(w.buf, e.key...)
			w.walk(e.val)
		}
	case reflect.Struct:
		if v.Type() == timeType {
			w.buf = append(w.buf, 't')
			if t, ok := timeOf(v); ok {
				w.u64(uint64(t.UnixNano()))
			}
			return
		}
		for i := 0; i < v.NumField(); i++ {
			w.walk(v.Field(i))
		}
	default: // chan, func, unsafe pointer: not data
		w.buf = append(w.buf, '?')
	}
}

type mapEntry struct {
	key    []byte
	k, val reflect.Value
}

// sortedEntries returns the entries of a map in canonical key order (never Go's iteration order).
func sortedEntries(m reflect.Value) []mapEntry {
	var es []mapEntry
	it := m.MapRange()
	for it.Next() {
		kw := canonW{}
		kw.walk(it.Key())
		es = append(es, mapEntry{key: kw.buf, k: it.Key(), val: it.Value()})
	}
	sort.Slice(es, func(i, j int) bool { return string(es[i].key) < string(es[j].key) })
	return es
}

// canon is the canonical content of x: equal for two values iff a reader can observe no difference.
func canon(x any) []byte {
	v := top(x)
	w := canonW{}
	if !v.IsValid() {
		return []byte("nil")
	}
	w.buf = append(w.buf, v.Type().String()...)
	w.buf = append(w.buf, '|')
	w.walk(v)
	return w.buf
}

// ---- leaves (for violation details only) ---------------------------------------------------------

type leaf struct{ path, val string }

type leafW struct{ out []leaf }

func short(b []byte) string {
	if len(b) <= 8 {
		return hex.EncodeToString(b)
	}
	return fmt.Sprintf("%s..(%d bytes)", hex.EncodeToString(b[:8]), len(b))
}

func (w *leafW) walk(v reflect.Value, path string) {
	add := func(s string) { w.out = append(w.out, leaf{path, s}) }
	switch v.Kind() {
	case reflect.Invalid:
		add("invalid")
	case reflect.Bool:
		add(fmt.Sprint(v.Bool()))
	case reflect.Int, reflect.Int8, reflect.Int16, reflect.Int32, reflect.Int64:
		add(fmt.Sprint(v.Int()))
	case reflect.Uint, reflect.Uint8, reflect.Uint16, reflect.Uint32, reflect.Uint64, reflect.Uintptr:
		add(fmt.Sprint(v.Uint()))
	case reflect.Float32, reflect.Float64:
		add(fmt.Sprint(v.Float()))
	case reflect.String:
		add(fmt.Sprintf("%q", v.String()))
	case reflect.Pointer:
		if v.IsNil() {
			add("nil")
			return
		}
		w.walk(v.Elem(), path)
	case reflect.Interface:
		if v.IsNil() {
			add("nil")
			return
		}
		w.walk(v.Elem(), path+".("+v.Elem().Type().String()+")")
	case reflect.Slice:
		if v.Type().Elem().Kind() == reflect.Uint8 {
			add(short(v.Bytes()))
			return
		}
		w.out = append(w.out, leaf{path + ".len", fmt.Sprint(v.Len())})
		for i := 0; i < v.Len(); i++ {
			w.walk(v.Index(i), fmt.Sprintf("%s[%d]", path, i))
		}
	case reflect.Array:
		if v.Type().Elem().Kind() == reflect.Uint8 {
			b := make([]byte, v.Len())
			for i := range b {
				b[i] = byte(v.Index(i).Uint())
			}
			add(short(b))
			return
		}
		for i := 0; i < v.Len(); i++ {
			w.walk(v.Index(i), fmt.Sprintf("%s[%d]", path, i))
		}
	case reflect.Map:
		w.out = append(w.out, leaf{path + ".len", fmt.Sprint(v.Len())})
		for i, e := range sortedEntries(v) {
			w.walk(e.val, fmt.Sprintf("%s[key#%d]", path, i))
		}
	case reflect.Struct:
		if v.Type() == timeType {
			if t, ok := timeOf(v); ok {
				add(fmt.Sprint(t.UnixNano()))
			}
			return
		}
		for i := 0; i < v.NumField(); i++ {
			w.walk(v.Field(i), path+"."+v.Type().Field(i).Name)
		}
	}
}

// diffLeaves describes the first leaf in which two leaf lists differ.
func diffLeaves(want, got []leaf) string {
	for i := 0; i < len(want) && i < len(got); i++ {
		if want[i] != got[i] {
			if want[i].path == got[i].path {
				return fmt.Sprintf("first difference at %s: expected %s, observed %s", want[i].path, want[i].val, got[i].val)
			}
			return fmt.Sprintf("first difference: expected leaf %s=%s, observed leaf %s=%s", want[i].path, want[i].val, got[i].path, got[i].val)
		}
	}
	if len(want) != len(got) {
		return fmt.Sprintf("shape differs: expected %d leaves, observed %d", len(want), len(got))
	}
	return "no leaf differs (type or nil-ness differs)"
}

func leavesOf(x any) []leaf {
	w := leafW{}
	v := top(x)
	if v.IsValid() {
		w.walk(v, v.Type().String())
	}
	return w.out
}

// ---- reachable mutable memory ----------------------------------------------------------------------

type rng struct {
	lo, hi uintptr
	path   string
}

type seenKey struct {
	p uintptr
	n int
	t reflect.Type
}

var hasPtrMemo = map[reflect.Type]bool{}

// hasPtr reports whether values of t can reference mutable memory (strings are immutable).
func hasPtr(t reflect.Type) bool {
	if r, ok := hasPtrMemo[t]; ok {
		return r
	}
	hasPtrMemo[t] = false // recursion guard
	var r bool
	switch t.Kind() {
	case reflect.Pointer, reflect.Slice, reflect.Map, reflect.Interface:
		r = true
	case reflect.Array:
		r = hasPtr(t.Elem())
	case reflect.Struct:
		if t != timeType {
			for i := 0; i < t.NumField(); i++ {
				if hasPtr(t.Field(i).Type) {
					r = true
					break
				}
			}
		}
	}
	hasPtrMemo[t] = r
	return r
}

type rangeW struct {
	out  []rng
	seen map[seenKey]bool
}

func (w *rangeW) walk(v reflect.Value, path string) {
	switch v.Kind() {
	case reflect.Pointer:
		if v.IsNil() {
			return
		}
		et := v.Type().Elem()
		p := v.Pointer()
		if sz := et.Size(); sz > 0 {
			w.out = append(w.out, rng{p, p + sz, path + "->" + et.String()})
		}
		k := seenKey{p, 0, et}
		if w.seen[k] {
			return
		}
		w.seen[k] = true
		w.walk(v.Elem(), path)
	case reflect.Slice:
		if v.IsNil() || v.Cap() == 0 {
			return
		}
		et := v.Type().Elem()
		p := v.Pointer()
		if sz := et.Size(); sz > 0 {
			w.out = append(w.out, rng{p, p + uintptr(v.Cap())*sz, path + "[]" + et.String()})
		}
		if !hasPtr(et) {
			return
		}
		k := seenKey{p, v.Len(), et}
		if w.seen[k] {
			return
		}
		w.seen[k] = true
		for i := 0; i < v.Len(); i++ {
			w.walk(v.Index(i), fmt.Sprintf("%s[%d]", path, i))
		}
	case reflect.Map:
		if v.IsNil() {
			return
		}
		p := v.Pointer()
		w.out = append(w.out, rng{p, p + 1, path + "(" + v.Type().String() + ")"})
		if !hasPtr(v.Type().Elem()) && !hasPtr(v.Type().Key()) {
			return
		}
		for i, e := range sortedEntries(v) {
			w.walk(e.k, fmt.Sprintf("%s[key#%d].key", path, i))
			w.walk(e.val, fmt.Sprintf("%s[key#%d]", path, i))
		}
	case reflect.Interface:
		// The boxed value itself cannot be modified through an interface: only what it references counts.
		if v.IsNil() {
			return
		}
		w.walk(v.Elem(), path+".("+v.Elem().Type().String()+")")
	case reflect.Struct:
		t := v.Type()
		if t == timeType {
			return
		}
		for i := 0; i < t.NumField(); i++ {
			if hasPtr(t.Field(i).Type) {
				w.walk(v.Field(i), path+"."+t.Field(i).Name)
			}
		}
	case reflect.Array:
		if !hasPtr(v.Type().Elem()) {
			return
		}
		for i := 0; i < v.Len(); i++ {
			w.walk(v.Index(i), fmt.Sprintf("%s[%d]", path, i))
		}
	}
}

// memRanges lists the mutable memory reachable from x. A fixed-size array or struct held by value is
// not listed by itself (it is copied with its holder), only through the pointer/slice that holds it.
func memRanges(x any) []rng {
	w := rangeW{seen: map[seenKey]bool{}}
	v := reflect.ValueOf(x)
	if v.IsValid() {
		w.walk(v, typeName(x))
	}
	return w.out
}

// sharesMemory reports the first pair of overlapping reachable memory ranges of a and b
// (first in the deterministic walk order of a, then of b).
func sharesMemory(a, b any) (pa, pb string, shared bool) {
	ra, rb := memRanges(a), memRanges(b)
	if len(ra) == 0 || len(rb) == 0 {
		return "", "", false
	}
	for _, x := range ra {
		for _, y := range rb {
			if x.lo < y.hi && y.lo < x.hi {
				return x.path, y.path, true
			}
		}
	}
	return "", "", false
}

// ---- in-place mutation ----------------------------------------------------------------------------

const (
	addByte = 0x5B               // odd: k applications never give the original byte back for k < 256
	addWord = 0x5B5B5B5B5B5B5B5B // odd
)

type scrW struct {
	seen map[seenKey]bool
	n    int // scalars overwritten
}

// walk overwrites what is reachable from v. name is the struct field name of v (discriminator
// fields "Version" and "Blinded" keep their value so that a value that wrongly shares memory stays
// well-formed enough for the component under test not to panic: every other field still changes).
func (w *scrW) walk(v reflect.Value, name string) {
	v = writable(v)
	switch v.Kind() {
	case reflect.Bool:
		if v.CanSet() && name != "Blinded" {
			v.SetBool(!v.Bool())
			w.n++
		}
	case reflect.Int, reflect.Int8, reflect.Int16, reflect.Int32, reflect.Int64:
		if v.CanSet() && name != "Version" {
			v.SetInt(v.Int() + addByte)
			w.n++
		}
	case reflect.Uint, reflect.Uint8, reflect.Uint16, reflect.Uint32, reflect.Uint64, reflect.Uintptr:
		if v.CanSet() && name != "Version" {
			x := v.Uint() + addWord
			if bits := v.Type().Bits(); bits < 64 {
				x &= 1<<uint(bits) - 1
			}
			v.SetUint(x)
			w.n++
		}
	case reflect.String:
		if v.CanSet() {
			v.SetString(v.String() + "!")
			w.n++
		}
	case reflect.Pointer:
		if v.IsNil() {
			return
		}
		k := seenKey{v.Pointer(), 0, v.Type().Elem()}
		if w.seen[k] {
			return
		}
		w.seen[k] = true
		w.walk(v.Elem(), "")
	case reflect.Interface:
		if v.IsNil() {
			return
		}
		e := v.Elem()
		if v.CanSet() && e.CanInterface() {
			// replace the boxed value by a modified copy; what it references is modified in place
			c := reflect.New(e.Type()).Elem()
			c.Set(e)
			w.walk(c, "")
			v.Set(c)
			return
		}
		w.walk(e, "")
	case reflect.Slice:
		if v.IsNil() || v.Len() == 0 {
			return
		}
		k := seenKey{v.Pointer(), v.Len(), v.Type().Elem()}
		if w.seen[k] {
			return
		}
		w.seen[k] = true
		if v.Type().Elem().Kind() == reflect.Uint8 {
			b := v.Bytes()
			for i := range b {
				b[i] += addByte
			}
			w.n += len(b)
			return
		}
		for i := 0; i < v.Len(); i++ {
			w.walk(v.Index(i), "")
		}
	case reflect.Array:
		if !v.CanAddr() {
			// an array held by value in something immutable (boxed in an interface): nothing to share;
			// still follow what its elements reference
			if hasPtr(v.Type().Elem()) {
				for i := 0; i < v.Len(); i++ {
					w.walk(v.Index(i), "")
				}
			}
			return
		}
		if v.Type().Elem().Kind() == reflect.Uint8 {
			b := v.Bytes()
			for i := range b {
				b[i] += addByte
			}
			w.n += len(b)
			return
		}
		for i := 0; i < v.Len(); i++ {
			w.walk(v.Index(i), "")
		}
	case reflect.Map:
		if v.IsNil() {
			return
		}
		k := seenKey{v.Pointer(), 0, v.Type()}
		if w.seen[k] {
			return
		}
		w.seen[k] = true
		for _, e := range sortedEntries(v) {
			if !e.val.CanInterface() {
				w.walk(e.val, "")
				continue
			}
			nv := reflect.New(v.Type().Elem()).Elem()
			nv.Set(e.val)
			w.walk(nv, "")
			v.SetMapIndex(e.k, nv)
		}
	case reflect.Struct:
		t := v.Type()
		if t == timeType {
			return
		}
		for i := 0; i < t.NumField(); i++ {
			w.walk(v.Field(i), t.Field(i).Name)
		}
	}
}

// scramble overwrites in place everything reachable from x; it never reallocates. It returns the
// number of scalars overwritten (0: x references no mutable memory).
func scramble(x any) int {
	w := scrW{seen: map[seenKey]bool{}}
	v := reflect.ValueOf(x)
	if v.IsValid() {
		w.walk(v, "")
	}
	return w.n
}
