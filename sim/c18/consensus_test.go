//go:build verif

// C18, subscriber fan-out of the consensus component (core/consensus/qbft): a real 4-node cluster
// (real core.Wire, QBFT over the simulated transport, beacon stub) runs one attester duty; every node
// has, besides the workflow's own subscriber (dutydb), two extra subscribers of Consensus.Subscribe.
// All nodes see the same beacon view, so the decided set is known in advance. Oracles are the shared
// ones of c18_test.go.
package c18

import (
	"context"
	"fmt"
	"sync"
	"time"

	eth2p0 "github.com/attestantio/go-eth2-client/spec/phase0"

	"github.com/obolnetwork/charon/core"
	"github.com/obolnetwork/charon/verifrt"

	"verifsim/cluster"
	"verifsim/simnet"
)

func init() {
	scenarios = append(scenarios, struct {
		name string
		f    func(r *run, ctx context.Context, wg *sync.WaitGroup)
	}{"consensus", scenConsensus})
}

func scenConsensus(r *run, ctx context.Context, wg *sync.WaitGroup) {
	r.comp = "consensus"
	r.byWriter = false // the proposer's object never leaves its node: receivers are the mutators
	r.c.Set("mutator", r.mutator())
	cfg := cluster.Config{N: 4, Validators: 1 + verifrt.Intn("cfg", 2), SlotsPerEpoch: 16, SlotDuration: 12 * time.Second, StartSlot: 64 + uint64(verifrt.Intn("cfg", 16))}
	cl := cluster.New(ctx, r.c.T, cfg)
	cl.View = func(int, uint64) int { return 0 }
	maxDelay := 1 + verifrt.Intn("cfg", 40)
	cl.Net.Fate = func(*simnet.Envelope) simnet.Fate {
		return simnet.Fate{Delay: time.Duration(verifrt.Intn("n", maxDelay)) * time.Millisecond}
	}
	slot := cfg.StartSlot
	duty := core.NewAttesterDuty(slot)
	ref := core.UnsignedDataSet{}
	for _, v := range cl.Vals {
		def := cl.DefSet(slot)[v.CorePK].(core.AttesterDefinition)
		ref[v.CorePK] = core.AttestationData{Data: *cl.AttData(0, eth2p0.Slot(slot), v.Committee), Duty: def.AttesterDuty}
	}
	exp := canon(ref)
	cover(r.comp, "AttestationData")

	var mu sync.Mutex
	got := 0
	for i := 0; i < cfg.N; i++ {
		nd := cl.StartNode(i)
		for si := 0; si < 2; si++ {
			nd.Cons.Subscribe(func(_ context.Context, d core.Duty, set core.UnsignedDataSet) error {
				if d != duty {
					return nil
				}
				mu.Lock()
				got++
				mu.Unlock()
				r.receive(wg, fmt.Sprintf("n%d-subscriber%d", i, si), "sub", set, exp, ref)
				return nil
			})
		}
	}
	for i := 0; i < cfg.N; i++ {
		nd := cl.Nodes[i]
		verifrt.GoNode(nd.Tag, func() {
			at := cl.SlotStart(slot).Add(cfg.SlotDuration / 3)
			verifrt.Sleep(time.Until(at) + time.Duration(verifrt.Intn("w", 50))*time.Millisecond)
			nd.Sched.Trigger(nd.Ctx, duty, cl.DefSet(slot))
		})
	}
	verifrt.Sleep(time.Until(cl.SlotStart(slot + 1)))
	r.finish()
	r.c.Set("consensus_deliveries", got)
	if got == 0 {
		r.violate("unexpected-error", r.sig("sub", "no-decision", "-"), "4 fault-free nodes with one beacon view did not decide %s within the slot", duty)
	}
}
