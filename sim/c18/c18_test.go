//go:build verif

// Harness for C18 "values passed between workflow components are isolated copies".
//
// One seeded scenario per run, drawn from: the duty store, the aggregate-signature store (both
// implementations), the partial-signature store with its two kinds of subscribers, the subscriber
// fan-out of sigagg, fetcher, validatorapi, scheduler (duty and slot subscribers, head-event early
// fetch), parsigex and consensus (parsigex_test.go, consensus_test.go), and the store-backed
// endpoints of validatorapi (vapi_test.go). In every scenario a deterministic value is handed to the
// component; readers / subscribers run as separate goroutines under the seeded scheduler with
// chooser-drawn delays; one class of party per run (the party that handed the value in, or the
// receivers) overwrites IN PLACE everything reachable from its object (reflection walk,
// walk_test.go). In a quarter of the store runs the duty expires (real core.Deadliner on the bubble
// clock) while the receivers hold their values. Oracles: every value ever received has the canonical
// content of the original, a value that a receiver only holds never changes (also not when the store
// deletes or re-uses the expired entry), a fresh identical re-store is still accepted, and no two
// received values (nor a received value and the object handed in) reach the same mutable memory.
package c18

import (
	"bytes"
	"context"
	"fmt"
	"os"
	"reflect"
	"sort"
	"strings"
	"sync"
	"testing"
	"time"

	eth2api "github.com/attestantio/go-eth2-client/api"
	eth2v1 "github.com/attestantio/go-eth2-client/api/v1"
	eth2spec "github.com/attestantio/go-eth2-client/spec"
	"github.com/attestantio/go-eth2-client/spec/altair"
	eth2p0 "github.com/attestantio/go-eth2-client/spec/phase0"
	"go.uber.org/zap"

	"github.com/obolnetwork/charon/app/eth2wrap"
	"github.com/obolnetwork/charon/app/featureset"
	"github.com/obolnetwork/charon/app/log"
	"github.com/obolnetwork/charon/core"
	"github.com/obolnetwork/charon/core/aggsigdb"
	"github.com/obolnetwork/charon/core/dutydb"
	"github.com/obolnetwork/charon/core/fetcher"
	"github.com/obolnetwork/charon/core/parsigdb"
	"github.com/obolnetwork/charon/core/scheduler"
	"github.com/obolnetwork/charon/core/sigagg"
	"github.com/obolnetwork/charon/core/validatorapi"
	"github.com/obolnetwork/charon/tbls"
	"github.com/obolnetwork/charon/tbls/tblsconv"
	"github.com/obolnetwork/charon/verifrt"

	"verifsim/kernel"
	"verifsim/simdata"
)

const prop = "C18"

func TestSim(t *testing.T) {
	if os.Getenv("VERIF_MODE") != "" {
		// components that build their own root context (scheduler.Run) log through the global logger
		_ = log.InitLogger(log.Config{Level: "fatal", Format: "console", Color: "disable"})
		blsInit(t)
		selfcheck()
	}
	kernel.Main(t, kernel.Harness{Name: "c18", Horizon: 10 * time.Minute, Body: body})
}

// ---- run state and oracles ------------------------------------------------------------------------

type run struct {
	c        *kernel.Ctx
	comp     string // component under test, first part of every signature
	byWriter bool   // who overwrites its object in this run: the party that handed the value in, or the receivers
	mu       sync.Mutex
	handed   []*handed
	obs      []*obs
	reported map[string]bool
	nviol    int
	nmut     int
	expire   bool // expiry run: the duty under test has a deadline of one simulated second (stores only)
	expired  bool // the deadline has passed and the store has been given the occasion to delete its entry
}

// handed is an object given to the component by a caller (kept alive for the whole run).
type handed struct {
	r    *run
	who  string
	val  any
	rngs []rng
}

// obs is a value received from the component (kept alive for the whole run, so that memory of an
// earlier value can never be reused for a later one).
type obs struct {
	r         *run
	who, api  string
	val       any
	typ       string
	exp       []byte // canonical content of the original
	got       []byte // canonical content at the moment of reception
	ref       any
	rngs      []rng
	scrambled bool
}

func (r *run) mutator() string {
	if r.byWriter {
		return "writer"
	}
	return "earlier-receiver"
}

// sig builds "<component>/<interface>/<what>:<Go type>". Interface and "what" names are kept short on
// purpose: the kernel names a replay file after the first 60 characters of oracle+sig plus the seed,
// so two different signatures of one run must differ early (they differ in interface or in "what").
func (r *run) sig(api, what, typ string) string {
	return fmt.Sprintf("%s/%s/%s:%s", r.comp, api, what, typ)
}

func (r *run) violate(oracle, sig, format string, a ...any) {
	r.mu.Lock()
	dup := r.reported[oracle+"|"+sig]
	r.reported[oracle+"|"+sig] = true
	r.nviol++
	r.mu.Unlock()
	if !dup {
		r.c.Violate(prop, oracle, sig, format, a...)
	}
}

func (r *run) failed() bool { r.mu.Lock(); defer r.mu.Unlock(); return r.nviol > 0 }

func (r *run) unexpected(api string, err error) {
	// An error of the component itself is not what C18 is about, unless an earlier in-place mutation
	// reached the component's state: report it under its own tag with the mutation count.
	r.violate("unexpected-error", r.sig(api, "call-failed", "-"), "%s %s failed after %d in-place mutation(s) by the %s: %v", r.comp, api, r.nmut, r.mutator(), firstLine(err.Error()))
}

func firstLine(s string) string {
	if i := strings.IndexByte(s, '\n'); i >= 0 {
		return s[:i]
	}
	return s
}

func overlap(a, b []rng) (string, string, bool) {
	for _, x := range a {
		for _, y := range b {
			if x.lo < y.hi && y.lo < x.hi {
				return x.path, y.path, true
			}
		}
	}
	return "", "", false
}

// hand records an object about to be given to the component.
func (r *run) hand(who string, val any) *handed {
	h := &handed{r: r, who: who, val: val, rngs: memRanges(val)}
	r.mu.Lock()
	r.handed = append(r.handed, h)
	r.mu.Unlock()
	return h
}

func (h *handed) scramble() {
	n := scramble(h.val)
	h.r.mu.Lock()
	h.r.nmut++
	h.r.mu.Unlock()
	verifrt.Note("%s overwrites in place the object it handed in (%d scalars)", h.who, n)
}

// observe applies the receive-time oracles to a value that a reader or subscriber got.
func (r *run) observe(who, api string, val any, exp []byte, ref any) *obs {
	o := &obs{r: r, who: who, api: api, val: val, typ: typeName(val), exp: exp, ref: ref, rngs: memRanges(val)}
	r.mu.Lock()
	earlier := append([]*obs(nil), r.obs...)
	hs := append([]*handed(nil), r.handed...)
	r.obs = append(r.obs, o)
	nmut := r.nmut
	r.mu.Unlock()
	verifrt.Note("%s receives %s via %s/%s", who, o.typ, r.comp, api)
	r.c.Progress()

	// (1) content: nothing done by the writer or by an earlier receiver may be visible
	o.got = canon(val)
	if !bytes.Equal(o.got, exp) {
		d := diffLeaves(leavesOf(ref), leavesOf(val))
		if nmut == 0 {
			r.violate("content", r.sig(api, "received-differs-before-any-mutation", o.typ),
				"%s got a %s via %s whose content differs from the value handed to %s although nobody has modified anything yet: %s", who, o.typ, api, r.comp, d)
		} else {
			r.violate("mutation-visible", r.sig(api, "received-reflects-"+r.mutator()+"s-mutation", o.typ),
				"%s got a %s via %s/%s whose content differs from the original after %d in-place overwrite(s) by the %s of its own object: %s", who, o.typ, r.comp, api, nmut, r.mutator(), d)
		}
	}
	// (2) no mutable memory in common with the object handed in
	for _, h := range hs {
		if pa, pb, ok := overlap(o.rngs, h.rngs); ok {
			r.violate("aliasing", r.sig(api, "shares-memory-with-object-handed-in", o.typ),
				"the %s that %s got via %s/%s reaches the same memory at %s as the object handed in by %s at %s", o.typ, who, r.comp, api, pa, h.who, pb)
			break
		}
	}
	// (3) no mutable memory in common with any value received earlier
	for _, e := range earlier {
		if pa, pb, ok := overlap(o.rngs, e.rngs); ok {
			apis, typs := api, o.typ
			if e.api != api { // one order-independent signature per pair of interfaces
				a, t := []string{e.api + "|" + e.typ, api + "|" + o.typ}, [2][]string{}
				sort.Strings(a)
				for i := range a {
					t[i] = strings.SplitN(a[i], "|", 2)
				}
				apis, typs = t[0][0]+"+"+t[1][0], t[0][1]+"+"+t[1][1]
			}
			r.violate("aliasing", r.sig(apis, "two-received-values-share-memory", typs),
				"the %s that %s got via %s/%s reaches the same memory at %s as the %s that %s got earlier via %s at %s", o.typ, who, r.comp, api, pa, e.typ, e.who, e.api, pb)
			break
		}
	}
	return o
}

func (o *obs) scramble() {
	n := scramble(o.val)
	o.r.mu.Lock()
	o.scrambled = true
	o.r.nmut++
	o.r.mu.Unlock()
	verifrt.Note("%s overwrites in place the %s it received via %s (%d scalars)", o.who, o.typ, o.api, n)
}

// recheck: a value that its receiver has only held must not change.
func (o *obs) recheck(when string) {
	o.r.mu.Lock()
	scr, expired := o.scrambled, o.r.expired
	o.r.mu.Unlock()
	if scr {
		return
	}
	// compared with what was received (a value that was already wrong then has been reported then)
	if now := canon(o.val); !bytes.Equal(now, o.got) {
		if expired {
			o.r.violate("mutation-visible", o.r.sig(o.api, "held-changed-after-expiry", o.typ),
				"the %s that %s received via %s/%s and never modified has changed since (%s): the duty has expired and %s has deleted / re-used its entry (in-place overwrites in this run: %d, by the %s of its own object): %s", o.typ, o.who, o.r.comp, o.api, when, o.r.comp, o.r.nmut, o.r.mutator(), diffLeaves(leavesOf(o.ref), leavesOf(o.val)))
			return
		}
		o.r.violate("mutation-visible", o.r.sig(o.api, "held-changed-by-"+o.r.mutator()+"s-mutation", o.typ),
			"the %s that %s received via %s/%s and never modified has changed since (%s) after in-place overwrites by the %s of its own object: %s", o.typ, o.who, o.r.comp, o.api, when, o.r.mutator(), diffLeaves(leavesOf(o.ref), leavesOf(o.val)))
	}
}

// receive is what every reader and subscriber does with a value: check it, then (in the runs where
// receivers are the mutators) overwrite it now, overwrite it later from another goroutine, or hold it.
func (r *run) receive(wg *sync.WaitGroup, who, api string, val any, exp []byte, ref any) {
	o := r.observe(who, api, val, exp, ref)
	if r.byWriter {
		return
	}
	switch verifrt.Intn("w", 3) {
	case 0:
		o.scramble()
	case 1:
		d := time.Duration(1+verifrt.Intn("w", 3)) * time.Millisecond
		wg.Add(1)
		verifrt.Go(func() {
			defer wg.Done()
			verifrt.Sleep(d)
			o.recheck("before its receiver's delayed overwrite")
			o.scramble()
		})
	}
}

// finish re-checks every value that was only held.
func (r *run) finish() {
	r.mu.Lock()
	os := append([]*obs(nil), r.obs...)
	when := "at quiescence"
	if r.expired {
		when = "at quiescence, after the expiry of the duty"
	}
	r.mu.Unlock()
	for _, o := range os {
		o.recheck(when)
	}
	r.c.Set("received", len(os))
	r.c.Set("mutations", r.nmut)
}

func pause(stream string, k int) {
	if d := verifrt.Intn(stream, k); d > 0 {
		verifrt.Sleep(time.Duration(d) * time.Millisecond)
	}
}

func cover(comp, label string) { verifrt.Probe("cover:" + comp + ":" + label) }

// ---- body -----------------------------------------------------------------------------------------------

var scenarios = []struct {
	name string
	f    func(r *run, ctx context.Context, wg *sync.WaitGroup)
}{ // the scheduler scenario has no writer (its input comes from the beacon stub): receivers always mutate
	{"dutydb", scenDutyDB},
	{"aggsigdb-v1", func(r *run, ctx context.Context, wg *sync.WaitGroup) { scenAggSigDB(r, ctx, wg, false) }},
	{"aggsigdb-v2", func(r *run, ctx context.Context, wg *sync.WaitGroup) { scenAggSigDB(r, ctx, wg, true) }},
	{"parsigdb", scenParSigDB},
	{"sigagg", scenSigAgg},
	{"fetcher", scenFetcher},
	{"validatorapi", scenValidatorAPI},
	{"scheduler", scenScheduler},
}

func body(c *kernel.Ctx) {
	ctx0, cancelAll := context.WithCancel(context.Background())
	defer cancelAll()
	ctx := log.WithLogger(ctx0, zap.NewNop())

	r := &run{c: c, reported: map[string]bool{}}
	sc := verifrt.Intn("cfg", len(scenarios))
	for i, s := range scenarios { // VERIF_VARIANT=<scenario name> pins the scenario (debugging aid)
		if c.Mode == s.name {
			sc = i
		}
	}
	r.byWriter = verifrt.Intn("cfg", 2) == 1 && scenarios[sc].name != "scheduler"
	c.Set("scenario", scenarios[sc].name)
	c.Set("mutator", r.mutator())
	verifrt.Note("scenario %s, in-place overwrites by the %s", scenarios[sc].name, map[bool]string{true: "writer (after handing its object in)", false: "receivers"}[r.byWriter])

	var wg sync.WaitGroup
	scenarios[sc].f(r, ctx, &wg)
	cancelAll()
	verifrt.WGWait(&wg)
}

// ---- family A: stores with blocking queries ------------------------------------------------------------

type readAPI struct {
	api string
	f   func(context.Context) (any, error)
	exp []byte
	ref any
}

// datum is one value of a store scenario: how to build it, how to store it, how to query it.
type datum struct {
	fresh func() any
	store func(context.Context, any) error
	reads []readAPI
}

// runStore drives one store: a writer hands in fresh() (and, in writer-mutates runs, overwrites it
// after the call has returned), 2-3 readers query 1-2 times each with delays around the store.
// In an expiry run (r.expire, see storeDeadliner) the duty expires one simulated second later, while the
// readers still hold what they received: the writer of `second` then stores another datum (which
// gives the store the occasion to delete / re-use the expired entry), it is read back, and every
// held value is re-checked.
func (r *run) runStore(ctx context.Context, wg *sync.WaitGroup, first datum, second *datum) {
	fresh, store, reads := first.fresh, first.store, first.reads
	nReaders := 2 + verifrt.Intn("cfg", 2)
	stored := false
	// In the runs where the writer is the mutator, half of the stores are made with a context of the writer's
	// own that is already cancelled or ends within a few milliseconds: the store may return the context's error
	// while the component still holds (and may yet insert) what it was handed. The writer treats its object as its
	// own again from the moment Store has returned - whatever it returned.
	abandon := 0
	if r.byWriter && !r.expire {
		abandon = 2 + verifrt.Intn("cfg", 4) // 4: cancelled before the call, 5: ends 0-3 ms into the run
	}
	abandoned := false
	wg.Add(1)
	verifrt.Go(func() {
		defer wg.Done()
		pause("w", 4)
		v := fresh()
		h := r.hand("writer", v)
		verifrt.Note("writer stores")
		wctx := ctx
		if abandon >= 4 {
			var wcancel context.CancelFunc
			if abandon == 4 {
				wctx, wcancel = context.WithCancel(ctx)
				wcancel()
			} else {
				wctx, wcancel = context.WithTimeout(ctx, time.Duration(verifrt.Intn("w", 4))*time.Millisecond)
			}
			defer wcancel()
		}
		if err := store(wctx, v); err != nil {
			if wctx.Err() != nil && ctx.Err() == nil {
				verifrt.Probe("store-returned-its-callers-context-error")
				verifrt.Note("the store returned its caller's context error; the writer takes its object back")
				abandoned = true
				pause("w", 3)
				h.scramble()
				return
			}
			if ctx.Err() == nil {
				r.unexpected("store", err)
			}
			return
		}
		stored = true
		if r.byWriter {
			pause("w", 3)
			h.scramble()
		}
	})
	for i := 0; i < nReaders; i++ {
		wg.Add(1)
		verifrt.Go(func() {
			defer wg.Done()
			n := 1 + verifrt.Intn("w", 2)
			for j := 0; j < n; j++ {
				pause("w", 4)
				ra := reads[verifrt.Intn("w", len(reads))]
				v, err := ra.f(ctx)
				if ctx.Err() != nil {
					return
				}
				if err != nil {
					r.unexpected(ra.api, err)
					return
				}
				r.receive(wg, fmt.Sprintf("reader%d", i), ra.api, v, ra.exp, ra.ref)
			}
		})
	}
	// Quiescence: all delays are a few milliseconds; after this sleep everything that was going to
	// happen has happened (in an expiry run: including the deadline of the duty, one second in).
	verifrt.Sleep(2 * time.Second)
	if !stored && !abandoned {
		return
	}
	if r.expire && second != nil {
		r.mu.Lock()
		r.expired = true
		r.mu.Unlock()
		cover(r.comp, "expiry")
		// Is the expired entry still served? Either answer is fine for C18 (counted, not judged); a
		// value served after the deadline is one more received value.
		served := func(who string) bool {
			qctx, cancel := context.WithTimeout(ctx, 10*time.Millisecond)
			defer cancel()
			v, err := reads[0].f(qctx)
			if err == nil {
				r.observe(who, reads[0].api, v, reads[0].exp, reads[0].ref)
			}
			return err == nil
		}
		atDeadline := served("post-deadline-reader")
		if atDeadline {
			verifrt.Probe("expiry:" + r.comp + ":entry-served-after-deadline")
		} else {
			verifrt.Probe("expiry:" + r.comp + ":entry-deleted-at-deadline")
		}
		v := second.fresh()
		h := r.hand("second-writer", v)
		verifrt.Note("the duty has expired; second writer stores another datum")
		if err := second.store(ctx, v); err != nil {
			r.unexpected("store", err)
			return
		}
		if r.byWriter {
			h.scramble()
		}
		if atDeadline {
			if served("post-deadline-reader") {
				verifrt.Probe("expiry:" + r.comp + ":entry-served-after-next-store")
			} else {
				verifrt.Probe("expiry:" + r.comp + ":entry-deleted-by-next-store")
			}
		}
		for i, ra := range second.reads {
			qctx, cancel := context.WithTimeout(ctx, 10*time.Millisecond)
			v, err := ra.f(qctx)
			cancel()
			if err != nil {
				r.unexpected(ra.api, err)
				return
			}
			r.receive(wg, fmt.Sprintf("post-expiry-reader%d", i), ra.api, v, ra.exp, ra.ref)
		}
		verifrt.Sleep(10 * time.Millisecond) // delayed overwrites of the post-expiry readers
		r.finish()
		return
	}
	// a later query still observes the original
	for _, ra := range reads {
		qctx, cancel := context.WithTimeout(ctx, 10*time.Millisecond)
		v, err := ra.f(qctx)
		cancel()
		if err != nil {
			continue // blocking behaviour is not this property's subject
		}
		r.observe("late-reader", ra.api, v, ra.exp, ra.ref)
	}
	r.finish()
	// the stored datum is unchanged: a fresh identical value is still accepted as equal
	if !r.failed() {
		v := fresh()
		r.hand("second-writer", v)
		if err := store(ctx, v); err != nil {
			r.violate("mutation-visible", r.sig("store", "restore-rejected-after-"+r.mutator()+"s-mutation", typeName(v)),
				"storing a fresh value identical to the original was rejected (%s) after %d in-place overwrite(s) by the %s: the stored datum has changed", firstLine(err.Error()), r.nmut, r.mutator())
		}
	}
}

func farDeadliner(ctx context.Context) core.Deadliner {
	start := time.Now()
	return core.NewDeadliner(ctx, "c18", func(core.Duty) (time.Time, bool) { return start.Add(time.Hour), true })
}

// storeDeadliner is the real core.Deadliner on the bubble clock. One run in four is an expiry run:
// duties of `slot` then expire one simulated second after the start of the run (every operation of
// the workload happens within the first few milliseconds, the receivers hold their values across the
// deadline); all other duties never expire within a run.
func (r *run) storeDeadliner(ctx context.Context, slot uint64) core.Deadliner {
	r.expire = verifrt.Intn("cfg", 4) == 3
	r.c.Set("expiry", r.expire)
	start, expire := time.Now(), r.expire
	return core.NewDeadliner(ctx, "c18", func(d core.Duty) (time.Time, bool) {
		if expire && d.Slot == slot {
			return start.Add(time.Second), true
		}
		return start.Add(time.Hour), true
	})
}

func scenDutyDB(r *run, ctx context.Context, wg *sync.WaitGroup) {
	r.comp = "dutydb"
	const slot = 64
	db := dutydb.NewMemDB(r.storeDeadliner(ctx, slot))
	seed := uint64(1 + verifrt.Intn("cfg", 3))
	// build(slot, seed) is the datum of the drawn kind for a slot: the duty under test, and in expiry
	// runs the datum of a later slot whose Store makes the duty store delete the expired one.
	var build func(slot, seed uint64) datum
	mk := func(duty core.Duty, fresh func() any, reads []readAPI) datum {
		return datum{fresh: fresh, reads: reads, store: func(ctx context.Context, v any) error { return db.Store(ctx, duty, v.(core.UnsignedDataSet)) }}
	}
	switch verifrt.Intn("cfg", 4) {
	case 0: // attester: one datum per committee, also served under the committee-index-0 alias
		comm := uint64(1 + verifrt.Intn("cfg", 2))
		nv := 1 + verifrt.Intn("cfg", 2)
		build = func(slot, seed uint64) datum {
			fresh := func() any {
				s := core.UnsignedDataSet{}
				for i := 0; i < nv; i++ {
					s[simdata.PubKey(i)] = mkUnsignedAtt(slot, comm, i, seed)
				}
				return s
			}
			ref := mkAttData(slot, 0, seed)
			var reads []readAPI
			for _, ci := range []uint64{comm, 0} {
				reads = append(reads, readAPI{"await-att", func(ctx context.Context) (any, error) {
					v, err := db.AwaitAttestation(ctx, slot, ci)
					if err != nil {
						return nil, err
					}
					return v, nil
				}, canon(ref), ref})
			}
			return mk(core.NewAttesterDuty(slot), fresh, reads)
		}
		cover(r.comp, "AttestationData")
	case 1: // proposer
		f := proposalForks[verifrt.Intn("cfg", len(proposalForks))]
		extras := verifrt.Intn("cfg", 2) == 1
		build = func(slot, seed uint64) datum {
			fresh := func() any { return core.UnsignedDataSet{simdata.PubKey(0): mkUnsignedProposalX(f, slot, seed, extras)} }
			ref := mkProposal(f, slot, seed)
			return mk(core.NewProposerDuty(slot), fresh, []readAPI{{"await-proposal", func(ctx context.Context) (any, error) {
				v, err := db.AwaitProposal(ctx, slot)
				if err != nil {
					return nil, err
				}
				return v, nil
			}, canon(ref), ref}})
		}
		cover(r.comp, "VersionedProposal/"+f.String())
	case 2: // aggregator
		f := attForks[verifrt.Intn("cfg", len(attForks))]
		comm := uint64(1 + verifrt.Intn("cfg", 2))
		extras := verifrt.Intn("cfg", 2) == 1
		build = func(slot, seed uint64) datum {
			fresh := func() any { return core.UnsignedDataSet{simdata.PubKey(0): mkUnsignedAggX(f, slot, comm, seed, extras)} }
			refAgg := mkUnsignedAgg(f, slot, comm, seed)
			ref := &refAgg.VersionedAttestation
			root := must(must(refAgg.Data()).HashTreeRoot())
			return mk(core.NewAggregatorDuty(slot), fresh, []readAPI{{"await-agg-att", func(ctx context.Context) (any, error) {
				v, err := db.AwaitAggAttestation(ctx, slot, root, eth2p0.CommitteeIndex(comm))
				if err != nil {
					return nil, err
				}
				return v, nil
			}, canon(ref), ref}})
		}
		cover(r.comp, "VersionedAggregatedAttestation/"+f.String())
	default: // sync contribution, single or plural
		plural := verifrt.Intn("cfg", 2) == 1
		subs := []uint64{1}
		if plural {
			subs = []uint64{1, 2}
		}
		build = func(slot, seed uint64) datum {
			fresh := func() any {
				if !plural {
					return core.UnsignedDataSet{simdata.PubKey(0): core.NewSyncContribution(mkContribution(slot, 1, seed))}
				}
				var cs core.SyncContributions
				for _, sc := range subs {
					cs = append(cs, core.NewSyncContribution(mkContribution(slot, sc, seed+sc)))
				}
				return core.UnsignedDataSet{simdata.PubKey(0): cs}
			}
			var reads []readAPI
			for _, sc := range subs {
				sd := seed
				if plural {
					sd = seed + sc
				}
				ref := mkContribution(slot, sc, sd)
				reads = append(reads, readAPI{"await-contrib", func(ctx context.Context) (any, error) {
					v, err := db.AwaitSyncContribution(ctx, slot, sc, ref.BeaconBlockRoot)
					if err != nil {
						return nil, err
					}
					return v, nil
				}, canon(ref), ref})
			}
			return mk(core.NewSyncContributionDuty(slot), fresh, reads)
		}
		cover(r.comp, map[bool]string{false: "SyncContribution", true: "SyncContributions"}[plural])
	}
	var second *datum
	if r.expire { // a later slot: MemDB.Store is where the duty store deletes expired duties
		d := build(slot+32, seed+7)
		second = &d
	}
	r.runStore(ctx, wg, build(slot, seed), second)
}

type aggDB interface {
	Store(context.Context, core.Duty, core.SignedDataSet) error
	Await(context.Context, core.Duty, core.PubKey, core.SubcommitteeIndex) (core.SignedData, error)
	Run(context.Context)
}

func scenAggSigDB(r *run, ctx context.Context, wg *sync.WaitGroup, v2 bool) {
	const slot = 96
	var db aggDB
	if v2 {
		r.comp = "aggsigdb.MemDBV2"
		db = aggsigdb.NewMemDBV2(r.storeDeadliner(ctx, slot))
	} else {
		r.comp = "aggsigdb.MemDB"
		db = aggsigdb.NewMemDB(r.storeDeadliner(ctx, slot))
	}
	verifrt.Go(func() { db.Run(ctx) })
	k, variant := pickKind(func(n int) int { return verifrt.Intn("cfg", n) })
	seed := uint64(1 + verifrt.Intn("cfg", 3))
	nv := 1 + verifrt.Intn("cfg", 2)
	duty := core.Duty{Slot: slot, Type: k.duty}
	build := func(seed uint64) datum {
		fresh := func() any {
			s := core.SignedDataSet{}
			for i := 0; i < nv; i++ {
				s[simdata.PubKey(i)] = k.mk(variant, slot, seed+uint64(i))
			}
			return s
		}
		var reads []readAPI
		for i := 0; i < nv; i++ {
			ref := k.mk(variant, slot, seed+uint64(i))
			reads = append(reads, readAPI{"await", func(ctx context.Context) (any, error) {
				v, err := db.Await(ctx, duty, simdata.PubKey(i), subcommOf(k.duty))
				if err != nil {
					return nil, err
				}
				return v, nil
			}, canon(ref), ref})
		}
		return datum{fresh: fresh, reads: reads, store: func(ctx context.Context, v any) error { return db.Store(ctx, duty, v.(core.SignedDataSet)) }}
	}
	cover(r.comp, k.label(variant))
	var second *datum
	if r.expire {
		// the same keys with other content: both implementations delete the expired entries in Run
		// and accept a store for the same duty afterwards (the entry is re-used)
		d := build(seed + 7)
		second = &d
	}
	r.runStore(ctx, wg, build(seed), second)
}

// ---- family B: subscriber fan-out ---------------------------------------------------------------------

type shareKey struct{}

func scenParSigDB(r *run, ctx context.Context, wg *sync.WaitGroup) {
	r.comp = "parsigdb"
	const threshold = 2
	const slot = 128
	db := parsigdb.NewMemDB(threshold, r.storeDeadliner(ctx, slot), parsigdb.NewMemDBMetadata(12, time.Now()))
	verifrt.Go(func() { db.Trim(ctx) })
	k, variant := pickKind(func(n int) int { return verifrt.Intn("cfg", n) })
	seed := uint64(1 + verifrt.Intn("cfg", 3))
	nv := 1 + verifrt.Intn("cfg", 2)
	duty := core.Duty{Slot: slot, Type: k.duty}
	duty2 := core.Duty{Slot: slot + 32, Type: k.duty} // expiry runs: stored after the first duty has expired and been trimmed
	mkPartial := func(d core.Duty, pk, share int) core.ParSignedData {
		sd := seed
		if d != duty {
			sd = seed + 7
		}
		x := must(k.mk(variant, d.Slot, sd+uint64(pk)).SetSignature(core.SigFromETH2(simdata.Sig(uint64(share*10 + pk)))))
		return core.ParSignedData{SignedData: x, ShareIdx: share}
	}
	mkSet := func(d core.Duty, share int) core.ParSignedDataSet {
		s := core.ParSignedDataSet{}
		for pk := 0; pk < nv; pk++ {
			s[simdata.PubKey(pk)] = mkPartial(d, pk, share)
		}
		return s
	}
	pkIdx := map[core.PubKey]int{}
	for pk := 0; pk < nv; pk++ {
		pkIdx[simdata.PubKey(pk)] = pk
	}
	cover(r.comp, k.label(variant))

	var mu sync.Mutex
	triggers, triggers2 := 0, 0
	for si := 0; si < 2; si++ {
		db.SubscribeThreshold(func(_ context.Context, d core.Duty, m map[core.PubKey][]core.ParSignedData) error {
			ref := map[core.PubKey][]core.ParSignedData{}
			for pk, ps := range m {
				for _, p := range ps {
					var e core.ParSignedData
					if i, ok := pkIdx[pk]; ok && p.ShareIdx >= 1 && p.ShareIdx <= 3 {
						e = mkPartial(d, i, p.ShareIdx)
					}
					ref[pk] = append(ref[pk], e)
				}
			}
			mu.Lock()
			if d == duty {
				triggers++
			} else {
				triggers2++
			}
			mu.Unlock()
			r.receive(wg, fmt.Sprintf("threshold-subscriber%d", si), "thresh-sub", m, canon(ref), ref)
			return nil
		})
		db.SubscribeInternal(func(ctx context.Context, d core.Duty, set core.ParSignedDataSet) error {
			share, _ := ctx.Value(shareKey{}).(int)
			ref := mkSet(d, share)
			r.receive(wg, fmt.Sprintf("internal-subscriber%d", si), "internal-sub", set, canon(ref), ref)
			return nil
		})
	}

	shares := []int{1, 2, 3}
	for i := 0; i < len(shares)-1; i++ {
		j := i + verifrt.Intn("w", len(shares)-i)
		shares[i], shares[j] = shares[j], shares[i]
	}
	shares = shares[:2+verifrt.Intn("w", 2)]
	stored := 0
	for _, sh := range shares {
		wg.Add(1)
		verifrt.Go(func() {
			defer wg.Done()
			pause("w", 4)
			set := mkSet(duty, sh)
			h := r.hand(fmt.Sprintf("share%d-writer", sh), set)
			internal := verifrt.Intn("w", 2) == 0
			cctx := context.WithValue(ctx, shareKey{}, sh)
			verifrt.Note("share %d stores (internal=%v)", sh, internal)
			var err error
			if internal {
				err = db.StoreInternal(cctx, duty, set)
			} else {
				err = db.StoreExternal(cctx, duty, set)
			}
			if err != nil {
				r.unexpected("store", err)
				return
			}
			mu.Lock()
			stored++
			mu.Unlock()
			if r.byWriter {
				pause("w", 3)
				h.scramble()
			}
		})
	}
	verifrt.Sleep(2 * time.Second)
	if r.expire {
		// The duty expired one second in: Trim has deleted its entries while the subscribers hold
		// what they received. Another duty is stored now (its entries may re-use that memory).
		r.mu.Lock()
		r.expired = true
		r.mu.Unlock()
		cover(r.comp, "expiry")
		for _, sh := range shares[:2] {
			set := mkSet(duty2, sh)
			h := r.hand(fmt.Sprintf("share%d-second-writer", sh), set)
			verifrt.Note("the duty has expired; share %d stores a partial of a later duty", sh)
			if err := db.StoreInternal(context.WithValue(ctx, shareKey{}, sh), duty2, set); err != nil {
				r.unexpected("store", err)
				return
			}
			if r.byWriter {
				h.scramble()
			}
		}
		if triggers2 > 0 {
			verifrt.Probe("expiry:parsigdb:threshold-of-later-duty-reached")
		}
		verifrt.Sleep(10 * time.Millisecond) // delayed overwrites of the subscribers of the later duty
	}
	r.finish()
	if r.failed() || stored < threshold {
		return
	}
	// all shares sign the same message: the threshold must have been reached exactly when the
	// second one was stored, from the ORIGINAL first partial
	if triggers == 0 {
		r.violate("mutation-visible", r.sig("thresh-sub", "trigger-missing-after-"+r.mutator()+"s-mutation", "core.ParSignedData<core."+k.name+">"),
			"%d shares stored matching partials (threshold %d) but no threshold subscriber was called after %d in-place overwrite(s) by the %s: the stored partials no longer match", stored, threshold, r.nmut, r.mutator())
		return
	}
	if r.expire {
		return // partials of an expired duty are dropped: nothing to re-store
	}
	// the stored partials are unchanged: an identical re-store is a duplicate, not a mismatch
	for _, sh := range shares {
		set := mkSet(duty, sh)
		r.hand("second-writer", set)
		if err := db.StoreExternal(ctx, duty, set); err != nil {
			r.violate("mutation-visible", r.sig("store", "restore-rejected-after-"+r.mutator()+"s-mutation", "core.ParSignedData<core."+k.name+">"),
				"storing again a fresh partial identical to the original of share %d was rejected (%s) after %d in-place overwrite(s) by the %s: the stored partial has changed", sh, firstLine(err.Error()), r.nmut, r.mutator())
			break
		}
	}
}

// ---- sigagg: real threshold BLS (2-of-3) ----------------------------------------------------------------

var (
	blsShares map[int]tbls.PrivateKey
	blsPub    tbls.PublicKey
	blsMu     sync.Mutex
	blsSigs   = map[string]tbls.Signature{}
)

type detReader struct{ n byte }

func (d *detReader) Read(p []byte) (int, error) {
	for i := range p {
		d.n++
		p[i] = d.n
	}
	if len(p) > 0 {
		p[0] = 0x0b // keep the scalar below the group order
	}
	return len(p), nil
}

func blsInit(t *testing.T) {
	var sk [32]byte
	for i := range sk {
		sk[i] = byte(3*i + 1)
	}
	sk[0] = 0x0a
	secret := must(tblsconv.PrivkeyFromBytes(sk[:]))
	blsPub = must(tbls.SecretToPublicKey(secret))
	blsShares = must(tbls.ThresholdSplitInsecure(t, secret, 3, 2, &detReader{}))
}

// blsSign signs root with a share (0: threshold-aggregate of shares a and b); cached per process:
// BLS signing is deterministic, so the cache does not influence a run.
func blsSign(root [32]byte, share, a, b int) tbls.Signature {
	key := fmt.Sprintf("%x/%d/%d/%d", root, share, a, b)
	blsMu.Lock()
	s, ok := blsSigs[key]
	blsMu.Unlock()
	if ok {
		return s
	}
	if share != 0 {
		s = must(tbls.Sign(blsShares[share], root[:]))
	} else {
		s = must(tbls.ThresholdAggregate(map[int]tbls.Signature{a: blsSign(root, a, 0, 0), b: blsSign(root, b, 0, 0)}))
	}
	blsMu.Lock()
	blsSigs[key] = s
	blsMu.Unlock()
	return s
}

func scenSigAgg(r *run, ctx context.Context, wg *sync.WaitGroup) {
	r.comp = "sigagg"
	agg := must(sigagg.New(2, func(_ context.Context, _ core.PubKey, d core.SignedData) error {
		root, err := d.MessageRoot()
		if err != nil {
			return err
		}
		sig, err := tblsconv.SigFromCore(d.Signature())
		if err != nil {
			return err
		}
		return tbls.Verify(blsPub, root[:], sig)
	}))
	var k sdKind
	var variant int
	for {
		k, variant = pickKind(func(n int) int { return verifrt.Intn("cfg", n) })
		if k.name != "Signature" { // a bare signature has no message root to sign
			break
		}
	}
	nv := 1 + verifrt.Intn("cfg", 2)
	nCalls := 1 + verifrt.Intn("cfg", 2)
	a, b := 1, 2+verifrt.Intn("cfg", 2)
	seed := uint64(1 + verifrt.Intn("cfg", 3))
	cover(r.comp, k.label(variant))

	type callT struct {
		duty core.Duty
		ref  core.SignedDataSet
		exp  []byte
	}
	calls := map[core.Duty]*callT{}
	mkInput := func(slot uint64) map[core.PubKey][]core.ParSignedData {
		in := map[core.PubKey][]core.ParSignedData{}
		for pk := 0; pk < nv; pk++ {
			root := must(k.mk(variant, slot, seed+uint64(pk)).MessageRoot())
			for _, sh := range []int{a, b} {
				sd := must(k.mk(variant, slot, seed+uint64(pk)).SetSignature(tblsconv.SigToCore(blsSign(root, sh, 0, 0))))
				in[simdata.PubKey(pk)] = append(in[simdata.PubKey(pk)], core.ParSignedData{SignedData: sd, ShareIdx: sh})
			}
		}
		return in
	}
	for ci := 0; ci < nCalls; ci++ {
		slot := uint64(160 + 32*ci)
		duty := core.Duty{Slot: slot, Type: k.duty}
		ref := core.SignedDataSet{}
		for pk := 0; pk < nv; pk++ {
			base := k.mk(variant, slot, seed+uint64(pk))
			root := must(base.MessageRoot())
			ref[simdata.PubKey(pk)] = must(base.SetSignature(tblsconv.SigToCore(blsSign(root, 0, a, b))))
		}
		calls[duty] = &callT{duty: duty, ref: ref, exp: canon(ref)}
	}
	for si := 0; si < 2; si++ {
		agg.Subscribe(func(_ context.Context, duty core.Duty, set core.SignedDataSet) error {
			cl := calls[duty]
			r.receive(wg, fmt.Sprintf("subscriber%d", si), "sub", set, cl.exp, cl.ref)
			return nil
		})
	}
	for ci := 0; ci < nCalls; ci++ {
		slot := uint64(160 + 32*ci)
		duty := core.Duty{Slot: slot, Type: k.duty}
		wg.Add(1)
		verifrt.Go(func() {
			defer wg.Done()
			pause("w", 3)
			in := mkInput(slot)
			h := r.hand(fmt.Sprintf("aggregate-caller%d", ci), in)
			verifrt.Note("caller %d aggregates", ci)
			if err := agg.Aggregate(ctx, duty, in); err != nil {
				r.unexpected("aggregate", err)
				return
			}
			if r.byWriter {
				pause("w", 3)
				h.scramble()
			}
		})
	}
	verifrt.Sleep(2 * time.Second)
	r.finish()
}

// ---- beacon node stub (no sockets) ----------------------------------------------------------------------

type beacon struct {
	eth2wrap.Client // nil: any method the components are not expected to call panics
	seed            uint64
	attFork         fork
	proFork         fork
	nVals           int
	genesis         time.Time
	extras          bool // responses carry the optional fields outside the fork variants (v3 block values, validator index)
	mu              sync.Mutex
	served          []any // response objects, as a beacon client would keep them in a cache
}

func (b *beacon) keep(x any) {
	b.mu.Lock()
	b.served = append(b.served, x)
	b.mu.Unlock()
}

func (b *beacon) ClientForAddress(string) eth2wrap.Client { return b }
func (b *beacon) Address() string                         { return "stub" }

func (b *beacon) Spec(context.Context, *eth2api.SpecOpts) (*eth2api.Response[map[string]any], error) {
	return &eth2api.Response[map[string]any]{Data: map[string]any{
		"TARGET_AGGREGATORS_PER_COMMITTEE":         uint64(16),
		"SYNC_COMMITTEE_SIZE":                      uint64(512),
		"SYNC_COMMITTEE_SUBNET_COUNT":              uint64(4),
		"TARGET_AGGREGATORS_PER_SYNC_SUBCOMMITTEE": uint64(128),
		"SECONDS_PER_SLOT":                         12 * time.Second,
		"SLOTS_PER_EPOCH":                          uint64(32),
	}}, nil
}

func (b *beacon) attData(slot, comm uint64) *eth2p0.AttestationData {
	return mkAttData(slot, comm, b.seed)
}

func (b *beacon) AttestationData(_ context.Context, o *eth2api.AttestationDataOpts) (*eth2api.Response[*eth2p0.AttestationData], error) {
	verifrt.Yield()
	d := b.attData(uint64(o.Slot), uint64(o.CommitteeIndex))
	b.keep(d)
	return &eth2api.Response[*eth2p0.AttestationData]{Data: d}, nil
}

func (b *beacon) Proposal(_ context.Context, o *eth2api.ProposalOpts) (*eth2api.Response[*eth2api.VersionedProposal], error) {
	verifrt.Yield()
	p := mkProposal(b.proFork, uint64(o.Slot), b.seed)
	if b.extras {
		withExtras(p, b.seed)
	}
	b.keep(p)
	return &eth2api.Response[*eth2api.VersionedProposal]{Data: p}, nil
}

func (b *beacon) aggAtt(slot, comm uint64) *eth2spec.VersionedAttestation {
	a := mkVerAtt(b.attFork, slot, comm, b.seed+comm)
	a.ValidatorIndex = nil
	return a
}

// aggAttResp is the response object for an aggregate: with extras it names a validator index.
func (b *beacon) aggAttResp(slot, comm uint64) *eth2spec.VersionedAttestation {
	a := b.aggAtt(slot, comm)
	if b.extras {
		withExtras(a, b.seed+comm)
	}
	return a
}

func (b *beacon) AggregateAttestation(_ context.Context, o *eth2api.AggregateAttestationOpts) (*eth2api.Response[*eth2spec.VersionedAttestation], error) {
	verifrt.Yield()
	a := b.aggAttResp(uint64(o.Slot), uint64(o.CommitteeIndex))
	b.keep(a)
	return &eth2api.Response[*eth2spec.VersionedAttestation]{Data: a}, nil
}

func (b *beacon) contribution(slot, sub uint64, root eth2p0.Root) *altair.SyncCommitteeContribution {
	c := mkContribution(slot, sub, b.seed+sub)
	c.BeaconBlockRoot = root
	return c
}

func (b *beacon) SyncCommitteeContribution(_ context.Context, o *eth2api.SyncCommitteeContributionOpts) (*eth2api.Response[*altair.SyncCommitteeContribution], error) {
	verifrt.Yield()
	c := b.contribution(uint64(o.Slot), o.SubcommitteeIndex, o.BeaconBlockRoot)
	b.keep(c)
	return &eth2api.Response[*altair.SyncCommitteeContribution]{Data: c}, nil
}

func (b *beacon) ActiveValidators(context.Context) (eth2wrap.ActiveValidators, error) {
	m := eth2wrap.ActiveValidators{}
	for i := 0; i < b.nVals; i++ {
		m[eth2p0.ValidatorIndex(i)] = must(simdata.PubKey(i).ToETH2())
	}
	return m, nil
}

// ---- fetcher ---------------------------------------------------------------------------------------------

func scenFetcher(r *run, ctx context.Context, wg *sync.WaitGroup) {
	r.comp = "fetcher"
	const slot = 224
	nv := 1 + verifrt.Intn("cfg", 2)
	bn := &beacon{seed: uint64(1 + verifrt.Intn("cfg", 3)), nVals: nv,
		attFork: attForks[verifrt.Intn("cfg", len(attForks))], proFork: proposalForks[verifrt.Intn("cfg", len(proposalForks))]}
	onlyComm0 := verifrt.Intn("cfg", 2) == 1
	contribV2 := verifrt.Intn("cfg", 2) == 1
	bn.extras = verifrt.Intn("cfg", 2) == 1
	var pks []core.PubKey
	for i := 0; i < nv; i++ {
		pks = append(pks, simdata.PubKey(i))
	}
	gb := must(fetcher.NewGraffitiBuilder(pks, nil, false, bn))
	f := must(fetcher.New(bn, func(core.PubKey) string { return "0x0102030000000000000000000000000000000000" }, false, gb, 0, onlyComm0))
	blockRoot := simdata.Root(77)
	f.RegisterAggSigDB(func(_ context.Context, d core.Duty, _ core.PubKey, sc core.SubcommitteeIndex) (core.SignedData, error) {
		switch d.Type {
		case core.DutyRandao:
			return core.NewSignedRandao(eth2p0.Epoch(d.Slot/32), simdata.Sig(5)), nil
		case core.DutyPrepareAggregator:
			return core.NewBeaconCommitteeSelection(&eth2v1.BeaconCommitteeSelection{Slot: eth2p0.Slot(d.Slot), SelectionProof: simdata.Sig(6)}), nil
		case core.DutyPrepareSyncContribution:
			return core.NewSyncCommitteeSelection(&eth2v1.SyncCommitteeSelection{Slot: eth2p0.Slot(d.Slot), SubcommitteeIndex: uint64(sc), SelectionProof: simdata.Sig(7)}), nil
		case core.DutySyncMessage:
			return core.NewSignedSyncMessage(&altair.SyncCommitteeMessage{Slot: eth2p0.Slot(d.Slot), BeaconBlockRoot: blockRoot, Signature: simdata.Sig(8)}), nil
		}
		return nil, fmt.Errorf("c18 stub: no aggregate for %v", d)
	})
	f.RegisterAwaitAttData(func(_ context.Context, s, c uint64) (*eth2p0.AttestationData, error) {
		return mkAttData(s, 0, bn.seed), nil
	})
	f.RegisterSyncContributionV2(func(uint64) bool { return contribV2 })

	var duty core.Duty
	mkDefs := func() core.DutyDefinitionSet { return nil }
	ref := core.UnsignedDataSet{}
	comms := []uint64{1, 1 + uint64(verifrt.Intn("cfg", 2))} // second validator: same or another committee
	early := false
	switch verifrt.Intn("cfg", 4) {
	case 0:
		duty = core.NewAttesterDuty(slot)
		early = verifrt.Intn("cfg", 2) == 1
		mkDefs = func() core.DutyDefinitionSet {
			s := core.DutyDefinitionSet{}
			for i := 0; i < nv; i++ {
				d := mkAttesterDuty(slot, comms[i], i)
				s[pks[i]] = core.NewAttesterDefinition(&d)
			}
			return s
		}
		for i := 0; i < nv; i++ {
			c := comms[i]
			if onlyComm0 {
				c = 0
			}
			ref[pks[i]] = core.AttestationData{Data: *bn.attData(slot, c), Duty: mkAttesterDuty(slot, comms[i], i)}
		}
		cover(r.comp, "AttestationData")
	case 1:
		duty = core.NewProposerDuty(slot)
		mkDefs = func() core.DutyDefinitionSet {
			return core.DutyDefinitionSet{pks[0]: core.NewProposerDefinition(&eth2v1.ProposerDuty{PubKey: must(pks[0].ToETH2()), Slot: slot, ValidatorIndex: 0})}
		}
		ref[pks[0]] = must(core.NewVersionedProposal(mkProposal(bn.proFork, slot, bn.seed)))
		cover(r.comp, "VersionedProposal/"+bn.proFork.String())
	case 2:
		duty = core.NewAggregatorDuty(slot)
		mkDefs = func() core.DutyDefinitionSet {
			s := core.DutyDefinitionSet{}
			for i := 0; i < nv; i++ {
				d := mkAttesterDuty(slot, comms[i], i)
				s[pks[i]] = core.NewAttesterDefinition(&d)
			}
			return s
		}
		for i := 0; i < nv; i++ {
			ref[pks[i]] = core.VersionedAggregatedAttestation{VersionedAttestation: *bn.aggAtt(slot, comms[i])}
		}
		cover(r.comp, "VersionedAggregatedAttestation/"+bn.attFork.String())
	default:
		duty = core.NewSyncContributionDuty(slot)
		idxs := [][]eth2p0.CommitteeIndex{{5, 130}, {6}} // subcommittees {0,1} and {0} (128 validators each)
		mkDefs = func() core.DutyDefinitionSet {
			s := core.DutyDefinitionSet{}
			for i := 0; i < nv; i++ {
				s[pks[i]] = core.NewSyncCommitteeDefinition(&eth2v1.SyncCommitteeDuty{PubKey: must(pks[i].ToETH2()), ValidatorIndex: eth2p0.ValidatorIndex(i),
					ValidatorSyncCommitteeIndices: append([]eth2p0.CommitteeIndex(nil), idxs[i]...)})
			}
			return s
		}
		for i := 0; i < nv; i++ {
			var cs core.SyncContributions
			for _, ix := range idxs[i] {
				cs = append(cs, core.NewSyncContribution(bn.contribution(slot, uint64(ix)/128, blockRoot)))
			}
			if contribV2 {
				ref[pks[i]] = cs
			} else {
				ref[pks[i]] = cs[0]
			}
		}
		cover(r.comp, map[bool]string{false: "SyncContribution", true: "SyncContributions"}[contribV2])
	}
	exp := canon(ref)
	for si := 0; si < 2; si++ {
		f.Subscribe(func(_ context.Context, _ core.Duty, set core.UnsignedDataSet) error {
			r.receive(wg, fmt.Sprintf("subscriber%d", si), "sub", set, exp, ref)
			return nil
		})
	}
	wg.Add(1)
	verifrt.Go(func() {
		defer wg.Done()
		pause("w", 3)
		defs := mkDefs()
		h := r.hand("fetch-caller", defs)
		if early {
			// early fetch on a head event: the set is cached and handed out by the later Fetch
			ed := mkDefs()
			r.hand("head-event-caller", ed)
			if err := f.FetchOnly(ctx, duty, ed, "stub", bn.attData(slot, 0).BeaconBlockRoot); err != nil {
				r.unexpected("fetch-only", err)
				return
			}
			verifrt.Probe("fetcher-early-fetch-cached")
			pause("w", 3)
		}
		verifrt.Note("caller fetches %s", simdata.Desc(duty))
		if err := f.Fetch(ctx, duty, defs); err != nil {
			r.unexpected("fetch", err)
			return
		}
		if r.byWriter {
			pause("w", 3)
			h.scramble()
			bn.mu.Lock()
			served := append([]any(nil), bn.served...)
			bn.mu.Unlock()
			for _, x := range served { // the beacon client's own copies of its responses
				scramble(x)
			}
			verifrt.Note("beacon stub overwrites its %d response objects", len(served))
		}
	})
	verifrt.Sleep(2 * time.Second)
	r.finish()
}

// ---- scheduler ------------------------------------------------------------------------------------------

// The beacon's duty table for the scheduler scenario (epoch 0): validator i attests in slot i and
// committee 1+i, validator 0 proposes slot 1, every validator is in the sync committee.
func (b *beacon) attDuty(i int) *eth2v1.AttesterDuty {
	d := mkAttesterDuty(uint64(i), uint64(1+i), i)
	return &d
}

func (b *beacon) proDuty() *eth2v1.ProposerDuty {
	return &eth2v1.ProposerDuty{PubKey: must(simdata.PubKey(0).ToETH2()), Slot: 1, ValidatorIndex: 0}
}

func (b *beacon) syncDuty(i int) *eth2v1.SyncCommitteeDuty {
	idxs := [][]eth2p0.CommitteeIndex{{5, 130}, {6}}
	return &eth2v1.SyncCommitteeDuty{PubKey: must(simdata.PubKey(i).ToETH2()), ValidatorIndex: eth2p0.ValidatorIndex(i),
		ValidatorSyncCommitteeIndices: append([]eth2p0.CommitteeIndex(nil), idxs[i]...)}
}

func (b *beacon) Genesis(context.Context, *eth2api.GenesisOpts) (*eth2api.Response[*eth2v1.Genesis], error) {
	return &eth2api.Response[*eth2v1.Genesis]{Data: &eth2v1.Genesis{GenesisTime: b.genesis}}, nil
}

func (b *beacon) NodeSyncing(context.Context, *eth2api.NodeSyncingOpts) (*eth2api.Response[*eth2v1.SyncState], error) {
	return &eth2api.Response[*eth2v1.SyncState]{Data: &eth2v1.SyncState{}}, nil
}

func (b *beacon) CompleteValidators(context.Context) (eth2wrap.CompleteValidators, error) {
	m := eth2wrap.CompleteValidators{}
	for i := 0; i < b.nVals; i++ {
		m[eth2p0.ValidatorIndex(i)] = &eth2v1.Validator{Index: eth2p0.ValidatorIndex(i), Balance: 32_000_000_000, Status: eth2v1.ValidatorStateActiveOngoing,
			Validator: &eth2p0.Validator{PublicKey: must(simdata.PubKey(i).ToETH2()), EffectiveBalance: 32_000_000_000}}
	}
	return m, nil
}

func (b *beacon) AttesterDutiesCache(_ context.Context, epoch eth2p0.Epoch, _ []eth2p0.ValidatorIndex) (eth2wrap.AttesterDutyWithMeta, error) {
	verifrt.Yield()
	var ds []*eth2v1.AttesterDuty
	for i := 0; epoch == 0 && i < b.nVals; i++ {
		ds = append(ds, b.attDuty(i))
	}
	return eth2wrap.AttesterDutyWithMeta{Duties: ds}, nil
}

func (b *beacon) ProposerDutiesCache(_ context.Context, epoch eth2p0.Epoch, _ []eth2p0.ValidatorIndex) (eth2wrap.ProposerDutyWithMeta, error) {
	verifrt.Yield()
	var ds []*eth2v1.ProposerDuty
	if epoch == 0 {
		ds = append(ds, b.proDuty())
	}
	return eth2wrap.ProposerDutyWithMeta{Duties: ds}, nil
}

func (b *beacon) SyncCommDutiesCache(_ context.Context, epoch eth2p0.Epoch, _ []eth2p0.ValidatorIndex) (eth2wrap.SyncDutyWithMeta, error) {
	verifrt.Yield()
	var ds []*eth2v1.SyncCommitteeDuty
	for i := 0; epoch == 0 && i < b.nVals; i++ {
		ds = append(ds, b.syncDuty(i))
	}
	return eth2wrap.SyncDutyWithMeta{Duties: ds}, nil
}

// scenScheduler runs the real scheduler over the first two slots of epoch 0 with two duty
// subscribers and readers of GetDutyDefinition. Nothing is handed in by the harness here (the duty
// table comes from the beacon stub), so the receivers are the only mutators.
func scenScheduler(r *run, ctx context.Context, wg *sync.WaitGroup) {
	r.comp = "scheduler"
	nv := 1 + verifrt.Intn("cfg", 2)
	bn := &beacon{nVals: nv, genesis: time.Now()}
	s := must(scheduler.New(nil, bn, false))

	want := map[core.Duty]core.DutyDefinitionSet{}
	put := func(d core.Duty, pk int, def core.DutyDefinition) {
		if want[d] == nil {
			want[d] = core.DutyDefinitionSet{}
		}
		want[d][simdata.PubKey(pk)] = def
	}
	for i := 0; i < nv; i++ {
		put(core.NewAttesterDuty(uint64(i)), i, core.NewAttesterDefinition(bn.attDuty(i)))
		put(core.NewAggregatorDuty(uint64(i)), i, core.NewAttesterDefinition(bn.attDuty(i)))
		for sl := uint64(0); sl < 32; sl++ {
			put(core.NewSyncContributionDuty(sl), i, core.NewSyncCommitteeDefinition(bn.syncDuty(i)))
		}
	}
	put(core.NewProposerDuty(1), 0, core.NewProposerDefinition(bn.proDuty()))
	cover(r.comp, "AttesterDefinition")
	cover(r.comp, "ProposerDefinition")
	cover(r.comp, "SyncCommitteeDefinition")

	got := func(who, api string, duty core.Duty, set core.DutyDefinitionSet) {
		ref, ok := want[duty]
		if !ok {
			ref = core.DutyDefinitionSet{}
		}
		r.receive(wg, who, api, set, canon(ref), ref)
	}
	for si := 0; si < 2; si++ {
		s.SubscribeDuties(func(_ context.Context, duty core.Duty, set core.DutyDefinitionSet) error {
			got(fmt.Sprintf("duty-subscriber%d", si), "duty-sub", duty, set)
			return nil
		})
		// slot subscribers get a core.Slot by value (no pointer, slice or map in it): each works on its
		// own copy by construction; exercised for completeness, the oracles hold trivially
		s.SubscribeSlots(func(_ context.Context, slot core.Slot) error {
			if slot.Slot > 2 {
				return nil
			}
			ref := &core.Slot{Slot: slot.Slot, Time: bn.genesis.Add(time.Duration(slot.Slot) * 12 * time.Second), SlotDuration: 12 * time.Second, SlotsPerEpoch: 32}
			verifrt.Probe("scheduler-slot-subscriber-called")
			r.receive(wg, fmt.Sprintf("slot-subscriber%d", si), "slot-sub", &slot, canon(ref), ref)
			return nil
		})
	}
	// One run in two: the early attestation-data fetch on a beacon "head" event. HandleHeadEvent hands
	// the stored definition set of the slot's attester duty to the registered fetch-only function,
	// which (as every receiver in this scenario) may overwrite it in place, before the duty is
	// triggered for the duty subscribers and while GetDutyDefinition is being queried.
	// The feature flag is process-global: it is set explicitly in every scheduler run and reset at the end.
	headEvent := verifrt.Intn("cfg", 2) == 1
	r.c.Set("head_event", headEvent)
	if headEvent {
		featureset.EnableForT(r.c.T, featureset.FetchAttOnBlock)
	} else {
		featureset.DisableForT(r.c.T, featureset.FetchAttOnBlock)
	}
	defer featureset.DisableForT(r.c.T, featureset.FetchAttOnBlock)
	if headEvent {
		s.RegisterFetcherFetchOnly(func(_ context.Context, duty core.Duty, set core.DutyDefinitionSet, _ string, _ eth2p0.Root) error {
			verifrt.Probe("scheduler-head-event-fetch-only-called")
			got("fetch-only-function", "head-event", duty, set)
			return nil
		})
		headSlot := uint64(verifrt.Intn("cfg", nv)) // validator i attests in slot i
		wg.Add(1)
		verifrt.Go(func() {
			defer wg.Done()
			// after the epoch has been resolved (slot 0 tick), before the attester offset (a third of the slot)
			verifrt.Sleep(time.Duration(headSlot)*12*time.Second + time.Duration(1+verifrt.Intn("w", 3))*time.Second)
			verifrt.Note("beacon head event for slot %d", headSlot)
			s.HandleHeadEvent(ctx, eth2p0.Slot(headSlot), simdata.Root(5), "stub")
		})
	}
	verifrt.Go(func() { _ = s.Run() })
	queries := []core.Duty{core.NewAttesterDuty(0), core.NewSyncContributionDuty(0), core.NewProposerDuty(1), core.NewAggregatorDuty(0), core.NewSyncContributionDuty(1)}
	for i := 0; i < 2; i++ {
		wg.Add(1)
		verifrt.Go(func() {
			defer wg.Done()
			for j := 0; j < 2; j++ {
				verifrt.Sleep(time.Duration(1+verifrt.Intn("w", 14)) * time.Second)
				d := queries[verifrt.Intn("w", len(queries))]
				set, err := s.GetDutyDefinition(ctx, d)
				if err != nil {
					continue // not resolved yet / trimmed: not this property's subject
				}
				got(fmt.Sprintf("reader%d", i), "get-duty-def", d, set)
			}
		})
	}
	verifrt.Sleep(30 * time.Second) // slots 0 and 1 (12s each) with all their offsets
	for _, d := range queries {
		if set, err := s.GetDutyDefinition(ctx, d); err == nil {
			o := r.observe("late-reader", "get-duty-def", set, canon(want[d]), want[d])
			_ = o
		}
	}
	r.finish()
	s.Stop()
}

// ---- validatorapi -----------------------------------------------------------------------------------------

func scenValidatorAPI(r *run, ctx context.Context, wg *sync.WaitGroup) {
	r.comp = "validatorapi"
	const slot, shareIdx = 256, 2
	nv := 1 + verifrt.Intn("cfg", 2)
	seed := uint64(1 + verifrt.Intn("cfg", 3))
	bn := &beacon{seed: seed, nVals: nv}
	comp := must(validatorapi.NewComponentInsecure(nil, bn, shareIdx))
	comp.RegisterPubKeyByAttestation(func(_ context.Context, _, _, valIdx uint64) (core.PubKey, error) {
		return simdata.PubKey(int(valIdx)), nil
	})
	var pks []core.PubKey
	for i := 0; i < nv; i++ {
		pks = append(pks, simdata.PubKey(i))
	}
	var (
		api    string
		mkOpts func() any // the request object of the validator client
		submit func(context.Context, any) error
		ref    = core.ParSignedDataSet{}
	)
	switch verifrt.Intn("cfg", 5) {
	case 0:
		api = "attestations-sub"
		f := []fork{{eth2spec.DataVersionElectra, false}, {eth2spec.DataVersionFulu, false}}[verifrt.Intn("cfg", 2)]
		mkAtts := func() []*eth2spec.VersionedAttestation {
			var as []*eth2spec.VersionedAttestation
			for i := 0; i < nv; i++ {
				a := mkVerAtt(f, slot, 1, seed+uint64(i))
				vi := eth2p0.ValidatorIndex(i)
				a.ValidatorIndex = &vi
				as = append(as, a)
			}
			return as
		}
		mkOpts = func() any { return &eth2api.SubmitAttestationsOpts{Attestations: mkAtts()} }
		submit = func(ctx context.Context, o any) error {
			return comp.SubmitAttestations(ctx, o.(*eth2api.SubmitAttestationsOpts))
		}
		for i, a := range mkAtts() {
			ref[pks[i]] = must(core.NewPartialVersionedAttestation(a, shareIdx))
		}
		cover(r.comp, "VersionedAttestation/"+f.String())
	case 1:
		api = "aggregates-sub"
		fi := verifrt.Intn("cfg", len(attForks))
		k := sdKinds[5] // VersionedSignedAggregateAndProof
		mkAggs := func() []*eth2spec.VersionedSignedAggregateAndProof {
			var as []*eth2spec.VersionedSignedAggregateAndProof
			for i := 0; i < nv; i++ {
				a := k.mk(fi, slot, seed+uint64(i)).(core.VersionedSignedAggregateAndProof).VersionedSignedAggregateAndProof
				forkField(&a).Elem().FieldByName("Message").Elem().FieldByName("AggregatorIndex").SetUint(uint64(i))
				as = append(as, &a)
			}
			return as
		}
		mkOpts = func() any { return &eth2api.SubmitAggregateAttestationsOpts{SignedAggregateAndProofs: mkAggs()} }
		submit = func(ctx context.Context, o any) error {
			return comp.SubmitAggregateAttestations(ctx, o.(*eth2api.SubmitAggregateAttestationsOpts))
		}
		for i, a := range mkAggs() {
			ref[pks[i]] = core.NewPartialVersionedSignedAggregateAndProof(a, shareIdx)
		}
		cover(r.comp, "VersionedSignedAggregateAndProof/"+attForks[fi].String())
	case 2:
		api = "syncmsgs-sub"
		mkMsgs := func() []*altair.SyncCommitteeMessage {
			var ms []*altair.SyncCommitteeMessage
			for i := 0; i < nv; i++ {
				m := fillNew[altair.SyncCommitteeMessage](seed + uint64(i))
				m.Slot, m.ValidatorIndex = slot, eth2p0.ValidatorIndex(i)
				ms = append(ms, m)
			}
			return ms
		}
		mkOpts = func() any { return mkMsgs() }
		submit = func(ctx context.Context, o any) error {
			return comp.SubmitSyncCommitteeMessages(ctx, o.([]*altair.SyncCommitteeMessage))
		}
		for i, m := range mkMsgs() {
			ref[pks[i]] = core.NewPartialSignedSyncMessage(m, shareIdx)
		}
		cover(r.comp, "SignedSyncMessage")
	case 3:
		api = "synccontribs-sub"
		mkCs := func() []*altair.SignedContributionAndProof {
			var cs []*altair.SignedContributionAndProof
			for i := 0; i < nv; i++ {
				c := fillNew[altair.SignedContributionAndProof](seed + uint64(i))
				c.Message.AggregatorIndex = eth2p0.ValidatorIndex(i)
				c.Message.Contribution.Slot, c.Message.Contribution.SubcommitteeIndex = slot, 1
				cs = append(cs, c)
			}
			return cs
		}
		mkOpts = func() any { return mkCs() }
		submit = func(ctx context.Context, o any) error {
			return comp.SubmitSyncCommitteeContributions(ctx, o.([]*altair.SignedContributionAndProof))
		}
		for i, c := range mkCs() {
			ref[pks[i]] = core.NewPartialSignedSyncContributionAndProof(c, shareIdx)
		}
		cover(r.comp, "SignedSyncContributionAndProof")
	default:
		api = "exit-sub"
		mkExit := func() *eth2p0.SignedVoluntaryExit {
			e := fillNew[eth2p0.SignedVoluntaryExit](seed)
			e.Message.ValidatorIndex, e.Message.Epoch = 0, 8
			return e
		}
		mkOpts = func() any { return mkExit() }
		submit = func(ctx context.Context, o any) error {
			return comp.SubmitVoluntaryExit(ctx, o.(*eth2p0.SignedVoluntaryExit))
		}
		ref[pks[0]] = core.NewPartialSignedVoluntaryExit(mkExit(), shareIdx)
		cover(r.comp, "SignedVoluntaryExit")
	}
	exp := canon(ref)
	for si := 0; si < 2; si++ {
		comp.Subscribe(func(_ context.Context, _ core.Duty, set core.ParSignedDataSet) error {
			r.receive(wg, fmt.Sprintf("subscriber%d", si), api, set, exp, ref)
			return nil
		})
	}
	wg.Add(1)
	verifrt.Go(func() {
		defer wg.Done()
		pause("w", 3)
		o := mkOpts()
		h := r.hand("validator-client", o)
		verifrt.Note("validator client calls %s", api)
		if err := submit(ctx, o); err != nil {
			r.unexpected(api, err)
			return
		}
		if r.byWriter {
			pause("w", 3)
			h.scramble()
		}
	})
	verifrt.Sleep(2 * time.Second)
	r.finish()
}

// ---- start-up self check of the harness's own tools ---------------------------------------------------

// selfcheck runs once per process, before any run: every catalogue value must survive the
// repository's Clone with identical canonical content and without sharing memory, scramble must
// change its content and must not touch the clone. A failure here is a harness/tooling problem (or
// a Clone that is not a deep copy, which the runs then report through the components), never a verdict.
func selfcheck() {
	bad := func(format string, a ...any) {
		fmt.Fprintf(os.Stderr, "c18 selfcheck: "+format+"\n", a...)
	}
	for _, k := range sdKinds {
		for v := 0; v < k.variants; v++ {
			x := k.mk(v, 64, 3)
			c0 := canon(x)
			if !bytes.Equal(c0, canon(k.mk(v, 64, 3))) {
				bad("%s: constructor is not deterministic", k.label(v))
			}
			cl, err := x.Clone()
			if err != nil {
				bad("%s: Clone: %v", k.label(v), err)
				continue
			}
			if !bytes.Equal(c0, canon(cl)) {
				bad("%s: clone differs: %s", k.label(v), diffLeaves(leavesOf(x), leavesOf(cl)))
			}
			if pa, pb, ok := sharesMemory(x, cl); ok {
				bad("%s: clone shares memory %s / %s", k.label(v), pa, pb)
			}
			n := scramble(x)
			if hasPtr(reflect.TypeOf(x)) && (n == 0 || bytes.Equal(c0, canon(x))) {
				bad("%s: scramble changed nothing (%d scalars)", k.label(v), n)
			}
			if !bytes.Equal(c0, canon(cl)) {
				bad("%s: scramble of the original changed the clone", k.label(v))
			}
		}
	}
	var us []core.UnsignedData
	var names []string
	us, names = append(us, mkUnsignedAtt(64, 1, 0, 3)), append(names, "AttestationData")
	for _, f := range proposalForks {
		us, names = append(us, mkUnsignedProposal(f, 64, 3)), append(names, "VersionedProposal/"+f.String())
	}
	for _, f := range attForks {
		us, names = append(us, mkUnsignedAgg(f, 64, 1, 3)), append(names, "VersionedAggregatedAttestation/"+f.String())
	}
	us, names = append(us, core.NewSyncContribution(mkContribution(64, 1, 3))), append(names, "SyncContribution")
	us, names = append(us, core.SyncContributions{core.NewSyncContribution(mkContribution(64, 1, 3)), core.NewSyncContribution(mkContribution(64, 2, 4))}), append(names, "SyncContributions")
	for i, x := range us {
		c0 := canon(x)
		cl, err := x.Clone()
		if err != nil {
			bad("%s: Clone: %v", names[i], err)
			continue
		}
		if !bytes.Equal(c0, canon(cl)) {
			bad("%s: clone differs: %s", names[i], diffLeaves(leavesOf(x), leavesOf(cl)))
		}
		if pa, pb, ok := sharesMemory(x, cl); ok {
			bad("%s: clone shares memory %s / %s", names[i], pa, pb)
		}
		if n := scramble(x); n == 0 || bytes.Equal(c0, canon(x)) {
			bad("%s: scramble changed nothing", names[i])
		}
		if !bytes.Equal(c0, canon(cl)) {
			bad("%s: scramble of the original changed the clone", names[i])
		}
	}
}
