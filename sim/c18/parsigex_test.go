//go:build verif

// C18, subscriber fan-out of the partial-signature exchange (core/parsigex): the real ParSigEx
// components of two peers over the simulated libp2p transport. The sending peer broadcasts a set
// (the object handed in); the receiving peer has two subscribers, as the public Subscribe API allows.
// Oracles are the shared ones of c18_test.go: every subscriber gets the original content, no matter
// what the sender or an earlier subscriber overwrote in place, and no two of them reach the same
// mutable memory.
package c18

import (
	"context"
	"fmt"
	"sync"
	"time"

	"github.com/libp2p/go-libp2p/core/peer"

	"github.com/obolnetwork/charon/core"
	"github.com/obolnetwork/charon/core/parsigex"
	"github.com/obolnetwork/charon/p2p"
	"github.com/obolnetwork/charon/verifrt"

	"verifsim/cluster"
	"verifsim/simdata"
	"verifsim/simnet"
)

func init() {
	scenarios = append(scenarios, struct {
		name string
		f    func(r *run, ctx context.Context, wg *sync.WaitGroup)
	}{"parsigex", scenParSigEx})
}

func scenParSigEx(r *run, ctx context.Context, wg *sync.WaitGroup) {
	r.comp = "parsigex"
	net := simnet.New()
	var ids []peer.ID
	for i := 0; i < 2; i++ {
		ids = append(ids, must(p2p.PeerIDFromKey(cluster.P2PKey(i).PubKey())))
	}
	k, variant := pickKind(func(n int) int { return verifrt.Intn("cfg", n) })
	const slot = 192
	seed := uint64(1 + verifrt.Intn("cfg", 3))
	nv := 1 + verifrt.Intn("cfg", 2)
	nMsgs := 1 + verifrt.Intn("cfg", 2)
	duty := core.Duty{Slot: slot, Type: k.duty}
	mkSet := func(msg int) core.ParSignedDataSet {
		s := core.ParSignedDataSet{}
		for pk := 0; pk < nv; pk++ {
			sd := must(k.mk(variant, slot, seed+uint64(pk)).SetSignature(core.SigFromETH2(simdata.Sig(uint64(100*msg + 10 + pk)))))
			s[simdata.PubKey(pk)] = core.ParSignedData{SignedData: sd, ShareIdx: 1}
		}
		return s
	}
	cover(r.comp, k.label(variant))

	// which message a received set belongs to is recognised by its first signature (unique per message)
	sigOf := func(set core.ParSignedDataSet) string {
		if d, ok := set[simdata.PubKey(0)]; ok && d.SignedData != nil {
			return fmt.Sprintf("%x", d.Signature())
		}
		return ""
	}
	refs := map[string]core.ParSignedDataSet{}
	for m := 0; m < nMsgs; m++ {
		refs[sigOf(mkSet(m))] = mkSet(m)
	}

	verify := func(context.Context, peer.ID, core.Duty, core.PubKey, core.ParSignedData) error { return nil }
	gater := func(core.Duty) bool { return true }
	var exs []*parsigex.ParSigEx
	for i := 0; i < 2; i++ {
		h := net.NewHost(ids[i], fmt.Sprintf("n%d", i))
		sender := new(p2p.Sender)
		exs = append(exs, parsigex.NewParSigEx(h, sender.SendAsync, i, ids, verify, gater))
	}
	var mu sync.Mutex
	got := 0
	nSubs := 2 + verifrt.Intn("cfg", 2)
	for si := 0; si < nSubs; si++ {
		exs[1].Subscribe(func(_ context.Context, _ core.Duty, set core.ParSignedDataSet) error {
			ref, ok := refs[sigOf(set)]
			if !ok { // content already unrecognisable: compare with the first message
				ref = mkSet(0)
			}
			mu.Lock()
			got++
			mu.Unlock()
			r.receive(wg, fmt.Sprintf("subscriber%d", si), "sub", set, canon(ref), ref)
			return nil
		})
	}
	for m := 0; m < nMsgs; m++ {
		wg.Add(1)
		verifrt.Go(func() {
			defer wg.Done()
			pause("w", 3)
			set := mkSet(m)
			h := r.hand(fmt.Sprintf("broadcaster%d", m), set)
			verifrt.Note("peer 0 broadcasts message %d", m)
			if err := exs[0].Broadcast(ctx, duty, set); err != nil {
				r.unexpected("broadcast", err)
				return
			}
			if r.byWriter {
				pause("w", 3)
				h.scramble()
			}
		})
	}
	verifrt.Sleep(2 * time.Second)
	r.finish()
	r.c.Set("parsigex_deliveries", got)
}
