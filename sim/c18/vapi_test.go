//go:build verif

// C18, the remaining endpoints of core/validatorapi, wired as core.Wire wires them: the component's
// await functions are the queries of a real duty store (core/dutydb) and of a real aggregate-signature
// store (core/aggsigdb, either implementation), its output are two Subscribe subscribers.
//
//   - endpoints that hand a value to the subscribers: SubmitProposal (7 forks from bellatrix on), SubmitBlindedProposal
//     (5 forks), Proposal (the partial randao reveal), BeaconCommitteeSelections and
//     SyncCommitteeSelections (the partial selection proofs, one set per slot / per slot and
//     subcommittee). The validator client's request object is the object handed in.
//   - endpoints that return a value obtained from a store to the validator client: Proposal,
//     AttestationData, AggregateAttestation, SyncCommitteeContribution (duty store),
//     BeaconCommitteeSelections, SyncCommitteeSelections (aggregate-signature store). Two validator
//     client calls are two readers. What the statement requires at this boundary is that the two
//     callers do not share memory with each other, with the object the store's writer handed in, or with
//     the validator client's request, and that what one of them does to its response is invisible to
//     the other and to a later query of the store. Within ONE call the component passes on the object
//     its await function returned (it even sets ConsensusValue / ExecutionValue on it): that is one
//     reader handling its own copy and is not demanded to be copied again.
//
// SubmitValidatorRegistrations is ignored by the component (nothing is handed on) and is not run.
// Oracles are the shared ones of c18_test.go.
package c18

import (
	"context"
	"fmt"
	"math/big"
	"reflect"
	"sort"
	"sync"
	"time"

	eth2api "github.com/attestantio/go-eth2-client/api"
	eth2v1 "github.com/attestantio/go-eth2-client/api/v1"
	eth2spec "github.com/attestantio/go-eth2-client/spec"
	eth2p0 "github.com/attestantio/go-eth2-client/spec/phase0"

	"github.com/obolnetwork/charon/core"
	"github.com/obolnetwork/charon/core/aggsigdb"
	"github.com/obolnetwork/charon/core/dutydb"
	"github.com/obolnetwork/charon/core/validatorapi"
	"github.com/obolnetwork/charon/verifrt"

	"verifsim/simdata"
)

func init() {
	scenarios = append(scenarios, struct {
		name string
		f    func(r *run, ctx context.Context, wg *sync.WaitGroup)
	}{"validatorapi-2", scenValidatorAPI2})
}

// unsignedOf is the unsigned proposal that the duty store must hold for the validator client's
// signed proposal sp to be accepted (same version, blinding and block). It references sp's block.
func unsignedOf(sp *eth2api.VersionedSignedProposal) *eth2api.VersionedProposal {
	up := &eth2api.VersionedProposal{Version: sp.Version, Blinded: sp.Blinded}
	sf, uf := forkField(sp), forkField(up)
	if m := sf.Elem().FieldByName("Message"); m.IsValid() {
		uf.Set(m)
		return up
	}
	// block contents (deneb and later, not blinded)
	bc := reflect.New(uf.Type().Elem())
	bc.Elem().FieldByName("Block").Set(sf.Elem().FieldByName("SignedBlock").Elem().FieldByName("Message"))
	bc.Elem().FieldByName("KZGProofs").Set(sf.Elem().FieldByName("KZGProofs"))
	bc.Elem().FieldByName("Blobs").Set(sf.Elem().FieldByName("Blobs"))
	uf.Set(bc)
	return up
}

var blindedVersions = []eth2spec.DataVersion{eth2spec.DataVersionDeneb, eth2spec.DataVersionBellatrix, eth2spec.DataVersionFulu, eth2spec.DataVersionCapella, eth2spec.DataVersionElectra}

// submitForks: the eth2 client library's VersionedSignedProposal.Slot (the first thing SubmitProposal
// calls) does not support the two forks before bellatrix.
var submitForks = func() (fs []fork) {
	for _, f := range proposalForks {
		if f.v >= eth2spec.DataVersionBellatrix {
			fs = append(fs, f)
		}
	}
	return fs
}()

func mkSignedProposal(f fork, slot, seed uint64) *eth2api.VersionedSignedProposal {
	p := versioned[eth2api.VersionedSignedProposal](f.v, f.blinded, seed)
	if !setSlot(forkField(p), slot) {
		panic("c18: no slot in signed proposal " + f.String())
	}
	return p
}

// blindedOf re-wraps a blinded VersionedSignedProposal as the request type of SubmitBlindedProposal.
func blindedOf(sp *eth2api.VersionedSignedProposal) *eth2api.VersionedSignedBlindedProposal {
	bp := &eth2api.VersionedSignedBlindedProposal{Version: sp.Version}
	reflect.ValueOf(bp).Elem().FieldByName(versionNames[sp.Version]).Set(forkField(sp))
	return bp
}

// vapiCase is one endpoint with its workload.
type vapiCase struct {
	subAPI   string                                                       // interface name of the subscriber fan-out ("" if the endpoint hands nothing on)
	subRef   func(core.Duty, core.ParSignedDataSet) core.ParSignedDataSet // the set a subscriber must get
	nCallers int
	mkReq    func() any
	call     func(context.Context, any) (any, error) // returns the response data (nil for submit-only endpoints)
	qAPI     string
	qRef     any
	feeds    []datum // what the other components store into the duty store / aggregate store (reads: direct late queries)
}

func scenValidatorAPI2(r *run, ctx context.Context, wg *sync.WaitGroup) {
	r.comp = "validatorapi"
	const slot, shareIdx = 288, 2
	nv := 1 + verifrt.Intn("cfg", 2)
	seed := uint64(1 + verifrt.Intn("cfg", 3))
	bn := &beacon{seed: seed, nVals: nv}
	comp := must(validatorapi.NewComponentInsecure(nil, bn, shareIdx))
	ddb := dutydb.NewMemDB(farDeadliner(ctx))
	var adb aggDB
	if verifrt.Intn("cfg", 2) == 1 {
		adb = aggsigdb.NewMemDBV2(farDeadliner(ctx))
	} else {
		adb = aggsigdb.NewMemDB(farDeadliner(ctx))
	}
	verifrt.Go(func() { adb.Run(ctx) })
	var pks []core.PubKey
	for i := 0; i < nv; i++ {
		pks = append(pks, simdata.PubKey(i))
	}
	// wiring as in core.Wire (the scheduler's GetDutyDefinition is answered by the harness)
	comp.RegisterAwaitProposal(ddb.AwaitProposal)
	comp.RegisterAwaitAttestation(ddb.AwaitAttestation)
	comp.RegisterAwaitSyncContribution(ddb.AwaitSyncContribution)
	comp.RegisterAwaitAggAttestation(ddb.AwaitAggAttestation)
	comp.RegisterPubKeyByAttestation(ddb.PubKeyByAttestation)
	comp.RegisterAwaitAggSigDB(adb.Await)
	comp.RegisterGetDutyDefinition(func(_ context.Context, d core.Duty) (core.DutyDefinitionSet, error) {
		return core.DutyDefinitionSet{pks[0]: core.NewProposerDefinition(&eth2v1.ProposerDuty{PubKey: must(pks[0].ToETH2()), Slot: eth2p0.Slot(d.Slot), ValidatorIndex: 0})}, nil
	})

	dutyStore := func(duty core.Duty, fresh func() core.UnsignedDataSet, reads ...readAPI) datum {
		return datum{fresh: func() any { return fresh() }, reads: reads,
			store: func(ctx context.Context, v any) error { return ddb.Store(ctx, duty, v.(core.UnsignedDataSet)) }}
	}
	aggStore := func(duty core.Duty, fresh func() core.SignedDataSet, reads ...readAPI) datum {
		return datum{fresh: func() any { return fresh() }, reads: reads,
			store: func(ctx context.Context, v any) error { return adb.Store(ctx, duty, v.(core.SignedDataSet)) }}
	}
	proposalFeed := func(mk func() *eth2api.VersionedProposal) datum {
		ref := mk()
		return dutyStore(core.NewProposerDuty(slot), func() core.UnsignedDataSet {
			return core.UnsignedDataSet{pks[0]: must(core.NewVersionedProposal(mk()))}
		}, readAPI{"dutydb-await-proposal", func(ctx context.Context) (any, error) {
			v, err := ddb.AwaitProposal(ctx, slot)
			if err != nil {
				return nil, err
			}
			return v, nil
		}, canon(ref), ref})
	}

	var vc vapiCase
	vc.nCallers = 2
	switch verifrt.Intn("cfg", 8) {
	case 0: // SubmitProposal
		f := submitForks[verifrt.Intn("cfg", len(submitForks))]
		vc.subAPI, vc.nCallers = "proposal-sub", 1
		vc.mkReq = func() any { return &eth2api.SubmitProposalOpts{Proposal: mkSignedProposal(f, slot, seed)} }
		vc.call = func(ctx context.Context, o any) (any, error) {
			return nil, comp.SubmitProposal(ctx, o.(*eth2api.SubmitProposalOpts))
		}
		vc.subRef = func(core.Duty, core.ParSignedDataSet) core.ParSignedDataSet {
			return core.ParSignedDataSet{pks[0]: must(core.NewPartialVersionedSignedProposal(mkSignedProposal(f, slot, seed), shareIdx))}
		}
		vc.feeds = []datum{proposalFeed(func() *eth2api.VersionedProposal { return unsignedOf(mkSignedProposal(f, slot, seed)) })}
		cover(r.comp, "SubmitProposal/"+f.String())
	case 1: // SubmitBlindedProposal
		f := fork{blindedVersions[verifrt.Intn("cfg", len(blindedVersions))], true}
		vc.subAPI, vc.nCallers = "blinded-proposal-sub", 1
		vc.mkReq = func() any {
			return &eth2api.SubmitBlindedProposalOpts{Proposal: blindedOf(mkSignedProposal(f, slot, seed))}
		}
		vc.call = func(ctx context.Context, o any) (any, error) {
			return nil, comp.SubmitBlindedProposal(ctx, o.(*eth2api.SubmitBlindedProposalOpts))
		}
		vc.subRef = func(core.Duty, core.ParSignedDataSet) core.ParSignedDataSet {
			return core.ParSignedDataSet{pks[0]: must(core.NewPartialVersionedSignedBlindedProposal(blindedOf(mkSignedProposal(f, slot, seed)), shareIdx))}
		}
		vc.feeds = []datum{proposalFeed(func() *eth2api.VersionedProposal { return unsignedOf(mkSignedProposal(f, slot, seed)) })}
		cover(r.comp, "SubmitBlindedProposal/"+f.String())
	case 2: // Proposal: the partial randao reveal goes to the subscribers, the stored proposal to the caller
		f := proposalForks[verifrt.Intn("cfg", len(proposalForks))]
		vc.subAPI, vc.qAPI = "randao-sub", "proposal-query"
		vc.mkReq = func() any { return &eth2api.ProposalOpts{Slot: slot, RandaoReveal: simdata.Sig(9)} }
		vc.call = func(ctx context.Context, o any) (any, error) {
			resp, err := comp.Proposal(ctx, o.(*eth2api.ProposalOpts))
			if err != nil {
				return nil, err
			}
			return resp.Data, nil
		}
		vc.subRef = func(core.Duty, core.ParSignedDataSet) core.ParSignedDataSet {
			return core.ParSignedDataSet{pks[0]: core.NewPartialSignedRandao(slot/32, simdata.Sig(9), shareIdx)}
		}
		q := mkProposal(f, slot, seed) // the component adds the two values of the v3 API to its response
		q.ConsensusValue, q.ExecutionValue = big.NewInt(1), big.NewInt(1)
		vc.qRef = q
		vc.feeds = []datum{proposalFeed(func() *eth2api.VersionedProposal { return mkProposal(f, slot, seed) })}
		cover(r.comp, "Proposal/"+f.String())
	case 3: // AttestationData
		comm := uint64(1 + verifrt.Intn("cfg", 2))
		vc.qAPI = "att-data-query"
		vc.mkReq = func() any {
			return &eth2api.AttestationDataOpts{Slot: slot, CommitteeIndex: eth2p0.CommitteeIndex(comm)}
		}
		vc.call = func(ctx context.Context, o any) (any, error) {
			resp, err := comp.AttestationData(ctx, o.(*eth2api.AttestationDataOpts))
			if err != nil {
				return nil, err
			}
			return resp.Data, nil
		}
		ref := mkAttData(slot, 0, seed)
		vc.qRef = ref
		vc.feeds = []datum{dutyStore(core.NewAttesterDuty(slot), func() core.UnsignedDataSet {
			s := core.UnsignedDataSet{}
			for i := 0; i < nv; i++ {
				s[pks[i]] = mkUnsignedAtt(slot, comm, i, seed)
			}
			return s
		}, readAPI{"dutydb-await-att", func(ctx context.Context) (any, error) {
			v, err := ddb.AwaitAttestation(ctx, slot, comm)
			if err != nil {
				return nil, err
			}
			return v, nil
		}, canon(ref), ref})}
		cover(r.comp, "AttestationData")
	case 4: // AggregateAttestation
		f := attForks[verifrt.Intn("cfg", len(attForks))]
		comm := uint64(1 + verifrt.Intn("cfg", 2))
		refAgg := mkUnsignedAgg(f, slot, comm, seed)
		ref := &refAgg.VersionedAttestation
		root := must(must(refAgg.Data()).HashTreeRoot())
		vc.qAPI, vc.qRef = "agg-att-query", ref
		vc.mkReq = func() any {
			return &eth2api.AggregateAttestationOpts{Slot: slot, AttestationDataRoot: root, CommitteeIndex: eth2p0.CommitteeIndex(comm)}
		}
		vc.call = func(ctx context.Context, o any) (any, error) {
			resp, err := comp.AggregateAttestation(ctx, o.(*eth2api.AggregateAttestationOpts))
			if err != nil {
				return nil, err
			}
			return resp.Data, nil
		}
		vc.feeds = []datum{dutyStore(core.NewAggregatorDuty(slot), func() core.UnsignedDataSet {
			return core.UnsignedDataSet{pks[0]: mkUnsignedAgg(f, slot, comm, seed)}
		}, readAPI{"dutydb-await-agg-att", func(ctx context.Context) (any, error) {
			v, err := ddb.AwaitAggAttestation(ctx, slot, root, eth2p0.CommitteeIndex(comm))
			if err != nil {
				return nil, err
			}
			return v, nil
		}, canon(ref), ref})}
		cover(r.comp, "AggregateAttestation/"+f.String())
	case 5: // SyncCommitteeContribution
		ref := mkContribution(slot, 1, seed)
		vc.qAPI, vc.qRef = "contrib-query", ref
		vc.mkReq = func() any {
			return &eth2api.SyncCommitteeContributionOpts{Slot: slot, SubcommitteeIndex: 1, BeaconBlockRoot: ref.BeaconBlockRoot}
		}
		vc.call = func(ctx context.Context, o any) (any, error) {
			resp, err := comp.SyncCommitteeContribution(ctx, o.(*eth2api.SyncCommitteeContributionOpts))
			if err != nil {
				return nil, err
			}
			return resp.Data, nil
		}
		vc.feeds = []datum{dutyStore(core.NewSyncContributionDuty(slot), func() core.UnsignedDataSet {
			return core.UnsignedDataSet{pks[0]: core.NewSyncContribution(mkContribution(slot, 1, seed))}
		}, readAPI{"dutydb-await-contrib", func(ctx context.Context) (any, error) {
			v, err := ddb.AwaitSyncContribution(ctx, slot, 1, ref.BeaconBlockRoot)
			if err != nil {
				return nil, err
			}
			return v, nil
		}, canon(ref), ref})}
		cover(r.comp, "SyncCommitteeContribution")
	case 6: // BeaconCommitteeSelections: validator i at slot, the second one at the same or the next slot
		slots := []uint64{slot, slot + uint64(verifrt.Intn("cfg", 2))}
		partial := func(i int) *eth2v1.BeaconCommitteeSelection {
			return &eth2v1.BeaconCommitteeSelection{ValidatorIndex: eth2p0.ValidatorIndex(i), Slot: eth2p0.Slot(slots[i]), SelectionProof: simdata.Sig(uint64(20 + i))}
		}
		agg := func(i int) *eth2v1.BeaconCommitteeSelection {
			return &eth2v1.BeaconCommitteeSelection{ValidatorIndex: eth2p0.ValidatorIndex(i), Slot: eth2p0.Slot(slots[i]), SelectionProof: simdata.Sig(uint64(40 + i))}
		}
		vc.subAPI, vc.qAPI = "bcomm-sel-sub", "bcomm-sel-query"
		vc.mkReq = func() any {
			o := &eth2api.BeaconCommitteeSelectionsOpts{}
			for i := 0; i < nv; i++ {
				o.Selections = append(o.Selections, partial(i))
			}
			return o
		}
		vc.call = func(ctx context.Context, o any) (any, error) {
			resp, err := comp.BeaconCommitteeSelections(ctx, o.(*eth2api.BeaconCommitteeSelectionsOpts))
			if err != nil {
				return nil, err
			}
			// the order of the response is not part of any statement: the caller sorts its own slice
			sort.SliceStable(resp.Data, func(a, b int) bool { return resp.Data[a].ValidatorIndex < resp.Data[b].ValidatorIndex })
			return resp.Data, nil
		}
		vc.subRef = func(d core.Duty, _ core.ParSignedDataSet) core.ParSignedDataSet {
			s := core.ParSignedDataSet{}
			for i := 0; i < nv; i++ {
				if slots[i] == d.Slot {
					s[pks[i]] = core.NewPartialSignedBeaconCommitteeSelection(partial(i), shareIdx)
				}
			}
			return s
		}
		var q []*eth2v1.BeaconCommitteeSelection
		for i := 0; i < nv; i++ {
			q = append(q, agg(i))
			duty := core.NewPrepareAggregatorDuty(slots[i])
			ref := core.NewBeaconCommitteeSelection(agg(i))
			vc.feeds = append(vc.feeds, aggStore(duty, func() core.SignedDataSet {
				return core.SignedDataSet{pks[i]: core.NewBeaconCommitteeSelection(agg(i))}
			}, readAPI{"aggsigdb-await", func(ctx context.Context) (any, error) {
				v, err := adb.Await(ctx, duty, pks[i], 0)
				if err != nil {
					return nil, err
				}
				return v, nil
			}, canon(ref), ref}))
		}
		vc.qRef = q
		cover(r.comp, "BeaconCommitteeSelections")
	default: // SyncCommitteeSelections: validator 0 in subcommittees 0 and 1, validator 1 in subcommittee 0
		type selT struct {
			val int
			sub uint64
		}
		sels := []selT{{0, 0}, {0, 1}}
		if nv == 2 {
			sels = []selT{{0, 0}, {1, 0}, {0, 1}}
		}
		partial := func(s selT) *eth2v1.SyncCommitteeSelection {
			return &eth2v1.SyncCommitteeSelection{ValidatorIndex: eth2p0.ValidatorIndex(s.val), Slot: slot, SubcommitteeIndex: s.sub, SelectionProof: simdata.Sig(uint64(20 + 2*s.val + int(s.sub)))}
		}
		agg := func(s selT) *eth2v1.SyncCommitteeSelection {
			return &eth2v1.SyncCommitteeSelection{ValidatorIndex: eth2p0.ValidatorIndex(s.val), Slot: slot, SubcommitteeIndex: s.sub, SelectionProof: simdata.Sig(uint64(40 + 2*s.val + int(s.sub)))}
		}
		vc.subAPI, vc.qAPI = "sync-sel-sub", "sync-sel-query"
		vc.mkReq = func() any {
			o := &eth2api.SyncCommitteeSelectionsOpts{}
			for _, s := range sels {
				o.Selections = append(o.Selections, partial(s))
			}
			return o
		}
		vc.call = func(ctx context.Context, o any) (any, error) {
			resp, err := comp.SyncCommitteeSelections(ctx, o.(*eth2api.SyncCommitteeSelectionsOpts))
			if err != nil {
				return nil, err
			}
			return resp.Data, nil // in request order (the component says so)
		}
		// one set per (slot, subcommittee): which one a subscriber got is recognised by validator 0's entry
		vc.subRef = func(_ core.Duty, set core.ParSignedDataSet) core.ParSignedDataSet {
			sub := uint64(0)
			if d, ok := set[pks[0]]; ok {
				if sel, ok := d.SignedData.(core.SyncCommitteeSelection); ok && sel.SubcommitteeIndex == 1 {
					sub = 1
				}
			}
			s := core.ParSignedDataSet{}
			for _, x := range sels {
				if x.sub == sub {
					s[pks[x.val]] = core.NewPartialSignedSyncCommitteeSelection(partial(x), shareIdx)
				}
			}
			return s
		}
		duty := core.NewPrepareSyncContributionDuty(slot)
		var q []*eth2v1.SyncCommitteeSelection
		for _, x := range sels {
			q = append(q, agg(x))
			ref := core.NewSyncCommitteeSelection(agg(x))
			vc.feeds = append(vc.feeds, aggStore(duty, func() core.SignedDataSet {
				return core.SignedDataSet{pks[x.val]: core.NewSyncCommitteeSelection(agg(x))}
			}, readAPI{"aggsigdb-await", func(ctx context.Context) (any, error) {
				v, err := adb.Await(ctx, duty, pks[x.val], core.SubcommitteeIndex(x.sub))
				if err != nil {
					return nil, err
				}
				return v, nil
			}, canon(ref), ref}))
		}
		vc.qRef = q
		cover(r.comp, "SyncCommitteeSelections")
	}

	var qExp []byte
	if vc.qRef != nil {
		qExp = canon(vc.qRef)
	}
	for si := 0; si < 2; si++ {
		comp.Subscribe(func(_ context.Context, d core.Duty, set core.ParSignedDataSet) error {
			if vc.subRef == nil {
				r.violate("unexpected-error", r.sig("sub", "unexpected-fan-out", "-"), "an endpoint that hands nothing on called a subscriber with %s", d)
				return nil
			}
			ref := vc.subRef(d, set)
			verifrt.Probe("vapi2-subscriber-called:" + vc.subAPI)
			r.receive(wg, fmt.Sprintf("subscriber%d", si), vc.subAPI, set, canon(ref), ref)
			return nil
		})
	}
	// the other components of the node store what the endpoint waits for
	fed := 0
	for fi, fd := range vc.feeds {
		wg.Add(1)
		verifrt.Go(func() {
			defer wg.Done()
			pause("w", 4)
			v := fd.fresh()
			h := r.hand(fmt.Sprintf("store-writer%d", fi), v)
			verifrt.Note("store writer %d stores what the endpoint awaits", fi)
			if err := fd.store(ctx, v); err != nil {
				if ctx.Err() == nil {
					r.unexpected("store", err)
				}
				return
			}
			fed++
			if r.byWriter {
				pause("w", 3)
				h.scramble()
			}
		})
	}
	// the validator client(s)
	for ci := 0; ci < vc.nCallers; ci++ {
		wg.Add(1)
		verifrt.Go(func() {
			defer wg.Done()
			pause("w", 4)
			o := vc.mkReq()
			h := r.hand(fmt.Sprintf("validator-client%d", ci), o)
			api := vc.qAPI
			if api == "" {
				api = vc.subAPI
			}
			verifrt.Note("validator client %d calls %s", ci, api)
			v, err := vc.call(ctx, o)
			if ctx.Err() != nil {
				return
			}
			if err != nil {
				r.unexpected(api, err)
				return
			}
			if v != nil {
				verifrt.Probe("vapi2-response-received:" + vc.qAPI)
				r.receive(wg, fmt.Sprintf("validator-client%d", ci), vc.qAPI, v, qExp, vc.qRef)
			}
			if r.byWriter {
				pause("w", 3)
				h.scramble()
			}
		})
	}
	verifrt.Sleep(2 * time.Second)
	if fed < len(vc.feeds) {
		return
	}
	// a later query of the stores still observes the original, whatever the validator clients did
	// with their responses
	for _, fd := range vc.feeds {
		for _, ra := range fd.reads {
			qctx, cancel := context.WithTimeout(ctx, 10*time.Millisecond)
			v, err := ra.f(qctx)
			cancel()
			if err != nil {
				continue
			}
			r.observe("late-reader", ra.api, v, ra.exp, ra.ref)
		}
	}
	r.finish()
}
