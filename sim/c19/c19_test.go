//go:build verif

// Harness for C19: the real eth2wrap multi client (provide/submit over forkjoin) in front of 1-4
// primary and 0-3 fallback scripted in-memory beacon nodes. Every node call completes, after a
// chooser-drawn simulated delay, with success, one of seven error classes, or hangs until its
// context is cancelled; the caller's context is cancelled / times out at a drawn instant in some
// calls. Oracles: success iff a primary answered (exactly that node's value, at the instant of the
// earliest successful primary), fallback consultation iff all primaries failed with an
// unavailability-class error, failure only when everything consulted failed, prompt return on
// caller cancellation, and no node call left blocked after the multi call returned.
package c19

import (
	"context"
	"errors"
	"fmt"
	"hash/fnv"
	"io"
	"net"
	"net/http"
	"net/url"
	"os"
	"strings"
	"sync"
	"syscall"
	"testing"
	"time"

	eth2api "github.com/attestantio/go-eth2-client/api"
	eth2p0 "github.com/attestantio/go-eth2-client/spec/phase0"

	cherrors "github.com/obolnetwork/charon/app/errors"
	"github.com/obolnetwork/charon/app/eth2wrap"
	"github.com/obolnetwork/charon/verifrt"

	"verifsim/kernel"
)

const prop = "C19"

// ---- scripted outcomes ------------------------------------------------------------------------

type outKind int

const (
	kSuccess     outKind = iota
	kTimeout             // message matched by isTimeoutError
	kSyncing             // message matched by isSyncingError
	kGateway             // eth2api.Error 502/503/504 (isBadGateway)
	kConnRefused         // syscall errno ECONNREFUSED/ECONNRESET/EHOSTUNREACH (isBadGateway)
	kNetErr              // any net.Error, http.ErrAbortHandler (isBadGateway)
	kPlain               // eth2api.Error 400/404/500: a real answer, not unavailability
	kOther               // anything else: not unavailability
	kHang                // blocks until its context is cancelled
)

var kindName = [...]string{"success", "timeout", "syncing", "gateway", "connrefused", "neterr", "plain", "other", "hang"}

// unavailability classes per eth2wrap.provide: isTimeoutError || isSyncingError || isBadGateway.
func unavail(k outKind) bool { return k >= kTimeout && k <= kNetErr }

// outcome weights (index drawn from stream "f"; 0 = success = the simplest choice).
var kindTable = [...]outKind{kSuccess, kSuccess, kSuccess, kSuccess, kSuccess, kTimeout, kSyncing, kGateway, kConnRefused, kNetErr, kPlain, kPlain, kOther, kOther, kHang, kHang}

const (
	slowBase = 40 * time.Millisecond
	backstop = 300 * time.Millisecond // every caller context ends at the latest here (a hung primary never answers)
)

type script struct {
	kind    outKind
	variant int
	delay   time.Duration
	slow    bool
	linger  time.Duration // how long the node takes to notice that its context was cancelled
}

func (s script) String() string {
	if s.kind == kHang {
		return "hang"
	}
	return fmt.Sprintf("%s.%d@%v", kindName[s.kind], s.variant, s.delay)
}

func drawScript() script {
	var s script
	s.kind = kindTable[verifrt.Intn("f", len(kindTable))]
	if verifrt.Intn("f", 5) == 4 {
		s.linger = time.Duration(1+verifrt.Intn("f", 9)) * time.Millisecond // a node that is slow to react to cancellation
	}
	if s.kind == kHang {
		return s
	}
	if s.kind != kSuccess {
		s.variant = verifrt.Intn("f", 6)
	}
	switch d := verifrt.Intn("n", 6); {
	case d < 4:
		s.delay = time.Duration(d) * time.Millisecond
	default:
		s.slow = true
		s.delay = slowBase + time.Duration(verifrt.Intn("n", 3))*time.Millisecond
	}
	return s
}

// nodeErr is a node-produced error with pointer identity.
type nodeErr struct {
	msg   string
	inner error
}

func (e *nodeErr) Error() string {
	if e.inner != nil {
		return e.msg + ": " + e.inner.Error()
	}
	return e.msg
}
func (e *nodeErr) Unwrap() error { return e.inner }

// fakeNetErr implements net.Error without being a net.OpError / url.Error.
type fakeNetErr struct{ msg string }

func (e *fakeNetErr) Error() string   { return e.msg }
func (e *fakeNetErr) Timeout() bool   { return false }
func (e *fakeNetErr) Temporary() bool { return true }

var _ net.Error = (*fakeNetErr)(nil)

// mkErr builds the error a node returns for (kind, variant). err is what the stub returns, core is
// a value with identity (pointer / unique inner error) that survives eth2wrap.wrapError, which
// strips url.Error and net.OpError layers; the oracle recognises the node by errors.Is(result, core).
func mkErr(kind outKind, variant, call, node int) (err, core error) {
	tag := fmt.Sprintf("n%d c%d", node, call)
	api := func(code int, data string) (error, error) {
		e := &eth2api.Error{Method: http.MethodGet, Endpoint: fmt.Sprintf("/eth/v1/c%d/n%d", call, node), StatusCode: code, Data: []byte(data + " " + tag)}
		return e, e
	}
	own := func(msg string, inner error) (error, error) {
		e := &nodeErr{msg: msg + " " + tag, inner: inner}
		return e, e
	}
	switch kind {
	case kTimeout:
		switch variant % 3 {
		case 0:
			return own("request failed", context.DeadlineExceeded) // "... context deadline exceeded"
		case 1:
			return own("http request timeout", nil)
		default:
			return own("client is not active", nil)
		}
	case kSyncing:
		switch variant % 3 {
		case 0:
			return own("beacon node is syncing", nil)
		case 1:
			return api(http.StatusInternalServerError, `{"message":"HeadBlockNotFullyVerified"}`)
		default:
			return own("node syncing, head slot behind", nil)
		}
	case kGateway:
		e, core := api([]int{http.StatusBadGateway, http.StatusServiceUnavailable, http.StatusGatewayTimeout}[variant%3], "upstream unavailable")
		if variant >= 3 { // the shape go-eth2-client produces for several endpoints: the API error joined with context
			return errors.Join(errors.New("failed to request "+tag), e), core
		}
		return e, core
	case kConnRefused:
		switch variant % 3 {
		case 0: // the shape net/http produces for a refused connection
			sc := &os.SyscallError{Syscall: "connect", Err: syscall.ECONNREFUSED}
			return &url.Error{Op: "Get", URL: fmt.Sprintf("http://node%d/c%d", node, call), Err: &net.OpError{Op: "dial", Net: "tcp", Err: sc}}, sc
		case 1:
			return own("read", syscall.ECONNRESET)
		default:
			return own("dial", syscall.EHOSTUNREACH)
		}
	case kNetErr:
		switch variant % 4 {
		case 0:
			e := &fakeNetErr{msg: "network broken " + tag}
			return e, e
		case 1:
			_, in := own("connection broken", nil)
			return &net.OpError{Op: "read", Net: "tcp", Err: in}, in
		case 2:
			_, in := own("unexpected EOF", nil)
			return &url.Error{Op: "Post", URL: fmt.Sprintf("http://node%d/c%d", node, call), Err: in}, in
		default:
			return own("aborted", http.ErrAbortHandler)
		}
	case kPlain:
		return api([]int{http.StatusBadRequest, http.StatusNotFound, http.StatusInternalServerError}[variant%3], "invalid request")
	case kOther:
		switch variant % 2 {
		case 0:
			return own("boom", nil)
		default:
			e := cherrors.New("no result from node " + tag) // charon structured error (value type, identity through its inner error)
			return e, e
		}
	}
	panic("mkErr: no error for kind")
}

// ---- run / call records -----------------------------------------------------------------------

type how int

const (
	howSucc how = iota + 1
	howFail
	howCtx      // its context was cancelled before the scripted outcome
	howTeardown // harness teardown
)

type inv struct {
	node      int
	lingering bool // its context was cancelled and it is taking its time to return
	startT    time.Duration
	ended     bool
	endT      time.Duration
	how    how
	core   error
	value  any
}

type method int

const (
	mAttData method = iota
	mSubmit
	mVersion
	mProxy
)

var methodName = [...]string{"AttestationData", "SubmitAttestations", "NodeVersion", "Proxy"}

type cancelMode int

const (
	cNone cancelMode = iota // backstop only
	cExplicit
	cDeadline
	cPre
)

var cancelName = [...]string{"none", "cancel", "deadline", "precancelled"}

type callRec struct {
	id      int
	m       method
	scripts []script // primaries then fallbacks
	cmode   cancelMode
	tc      time.Duration
	// guarded by harn.mu
	invs     []*inv
	dup      bool
	cancelT  time.Duration
	returned bool
	retT     time.Duration
}

type callKey struct{}

type harn struct {
	mu     sync.Mutex
	run    context.Context
	nP, nF int
	calls  []*callRec
}

// ---- stub beacon node -------------------------------------------------------------------------

type stub struct {
	eth2wrap.Client // nil: any method the multi client is not expected to call panics
	h               *harn
	id              int
}

func (s *stub) Name() string    { return fmt.Sprintf("stub%d", s.id) }
func (s *stub) Address() string { return fmt.Sprintf("http://node%d", s.id) }

var closedCh = func() chan struct{} { c := make(chan struct{}); close(c); return c }()

// wait3 is a scheduler-visible select over three channels (same shape the instrumenter emits).
func wait3(a, b, c <-chan struct{}) int {
	chs := [3]<-chan struct{}{a, b, c}
	for _, i := range verifrt.SelectOrder(0, 1, 2) {
		if _, _, got := verifrt.TryRecv(chs[i]); got {
			return i
		}
	}
	k := -1
	verifrt.PreBlock()
	select {
	case <-a:
		k = 0
	case <-b:
		k = 1
	case <-c:
		k = 2
	}
	verifrt.PostBlock()
	return k
}

// serve blocks for the scripted delay (or until ctx ends) and reports the scripted outcome.
func (s *stub) serve(ctx context.Context, mkValue func(call *callRec) any) (any, error) {
	call, _ := ctx.Value(callKey{}).(*callRec)
	if call == nil {
		panic("stub invoked without the caller's context values")
	}
	h := s.h
	sc := call.scripts[s.id]
	iv := &inv{node: s.id, startT: verifrt.Now()}
	h.mu.Lock()
	if call.invs[s.id] != nil {
		call.dup = true
	}
	call.invs[s.id] = iv
	h.mu.Unlock()
	verifrt.Note("call%d node%d invoked (%v)", call.id, s.id, sc)

	var done chan struct{}
	switch {
	case sc.kind == kHang:
		verifrt.Fault("hang")
	case sc.delay == 0:
		done = closedCh
	default:
		if sc.slow {
			verifrt.Fault("slow")
		}
		done = make(chan struct{})
		d, dc := sc.delay, done
		verifrt.Go(func() { verifrt.Sleep(d); close(dc) })
	}
	k := wait3(done, ctx.Done(), h.run.Done())
	if k == 1 && sc.linger > 0 {
		h.mu.Lock()
		iv.lingering = true
		h.mu.Unlock()
		verifrt.Fault("slow-to-cancel")
		verifrt.Sleep(sc.linger)
	}

	var (
		val any
		err error
	)
	h.mu.Lock()
	iv.ended, iv.endT = true, verifrt.Now()
	switch {
	case k == 1:
		iv.how, err = howCtx, ctx.Err()
	case k == 2:
		iv.how, err = howTeardown, errors.New("harness teardown")
	case sc.kind == kSuccess:
		iv.how = howSucc
		val = mkValue(call)
		iv.value = val
		for i := 0; i < h.nP; i++ {
			if o := call.invs[i]; o != nil && o.how == howFail && s.id < h.nP {
				verifrt.Probe("primary-success-after-primary-failure")
				break
			}
		}
	default:
		iv.how = howFail
		err, iv.core = mkErr(sc.kind, sc.variant, call.id, s.id)
	}
	hw := iv.how
	h.mu.Unlock()
	switch hw {
	case howFail:
		verifrt.Fault("err-" + kindName[sc.kind])
		verifrt.Note("call%d node%d -> error %s", call.id, s.id, kindName[sc.kind])
	case howSucc:
		verifrt.Note("call%d node%d -> success", call.id, s.id)
	case howCtx:
		verifrt.Note("call%d node%d -> ctx cancelled", call.id, s.id)
		if sc.kind == kHang {
			verifrt.Probe("hung-node-cancelled")
		} else if sc.slow {
			verifrt.Probe("slow-node-cancelled")
		}
	}
	return val, err
}

func attData(call, node int) *eth2api.Response[*eth2p0.AttestationData] {
	var root eth2p0.Root
	for i := range root {
		root[i] = byte(call*16 + node)
	}
	return &eth2api.Response[*eth2p0.AttestationData]{
		Data: &eth2p0.AttestationData{
			Slot: eth2p0.Slot(call*100 + node), Index: eth2p0.CommitteeIndex(node), BeaconBlockRoot: root,
			Source: &eth2p0.Checkpoint{Epoch: eth2p0.Epoch(node), Root: root},
			Target: &eth2p0.Checkpoint{Epoch: eth2p0.Epoch(call*100 + node), Root: root},
		},
		Metadata: map[string]any{"node": node, "call": call},
	}
}

func attDataIntact(r *eth2api.Response[*eth2p0.AttestationData], call, node int) bool {
	w := attData(call, node)
	return r != nil && r.Data != nil && r.Data.Source != nil && r.Data.Target != nil &&
		r.Data.Slot == w.Data.Slot && r.Data.Index == w.Data.Index && r.Data.BeaconBlockRoot == w.Data.BeaconBlockRoot &&
		*r.Data.Source == *w.Data.Source && *r.Data.Target == *w.Data.Target &&
		len(r.Metadata) == 2 && r.Metadata["node"] == node && r.Metadata["call"] == call
}

func versionStr(call, node int) string { return fmt.Sprintf("stub/v1.0.%d-call%d", node, call) }

func (s *stub) AttestationData(ctx context.Context, _ *eth2api.AttestationDataOpts) (*eth2api.Response[*eth2p0.AttestationData], error) {
	v, err := s.serve(ctx, func(call *callRec) any { return attData(call.id, s.id) })
	if err != nil {
		return nil, err
	}
	return v.(*eth2api.Response[*eth2p0.AttestationData]), nil
}

func (s *stub) NodeVersion(ctx context.Context, _ *eth2api.NodeVersionOpts) (*eth2api.Response[string], error) {
	v, err := s.serve(ctx, func(call *callRec) any {
		return &eth2api.Response[string]{Data: versionStr(call.id, s.id), Metadata: map[string]any{}}
	})
	if err != nil {
		return nil, err
	}
	return v.(*eth2api.Response[string]), nil
}

// Proxy: the node reads the request body (as an HTTP server does), then answers as scripted; its
// response records which node answered and the body that node received.
func (s *stub) Proxy(ctx context.Context, req *http.Request) (*http.Response, error) {
	var got []byte
	if req.Body != nil {
		got, _ = io.ReadAll(req.Body)
		_ = req.Body.Close()
	}
	v, err := s.serve(ctx, func(call *callRec) any {
		return &http.Response{StatusCode: http.StatusOK, Header: http.Header{"X-Node": {fmt.Sprint(s.id)}, "X-Call": {fmt.Sprint(call.id)}, "X-Received-Body": {string(got)}, "X-Path": {req.URL.Path}}, Body: http.NoBody}
	})
	if err != nil {
		return nil, err
	}
	return v.(*http.Response), nil
}

func proxyBody(call int) string {
	return fmt.Sprintf("{\"call\":%d,\"payload\":\"%s\"}", call, strings.Repeat("x", 40+call))
}

func proxyIntact(r *http.Response, call, node int) bool {
	return r != nil && r.StatusCode == http.StatusOK && r.Header.Get("X-Node") == fmt.Sprint(node) && r.Header.Get("X-Call") == fmt.Sprint(call) &&
		r.Header.Get("X-Received-Body") == proxyBody(call) && r.Header.Get("X-Path") == fmt.Sprintf("/eth/v1/call/%d", call)
}

func (s *stub) SubmitAttestations(ctx context.Context, _ *eth2api.SubmitAttestationsOpts) error {
	_, err := s.serve(ctx, func(*callRec) any { return nil })
	return err
}

// ---- body -------------------------------------------------------------------------------------

func TestSim(t *testing.T) {
	kernel.Main(t, kernel.Harness{Name: "c19", Horizon: 2 * time.Minute, Body: body})
}

var tcTable = [...]time.Duration{0, 1, 2, 3, 5, 41, 43}

func body(c *kernel.Ctx) {
	run, cancelRun := context.WithCancel(context.Background())
	defer cancelRun()

	h := &harn{run: run}
	h.nP = 1 + verifrt.Intn("cfg", 4)
	h.nF = verifrt.Intn("cfg", 4)
	nCalls := 1 + verifrt.Intn("cfg", 3)
	var prim, fb []eth2wrap.Client
	for i := 0; i < h.nP+h.nF; i++ {
		st := &stub{h: h, id: i}
		if i < h.nP {
			prim = append(prim, st)
		} else {
			fb = append(fb, st)
		}
	}
	var multi eth2wrap.Client
	if verifrt.Intn("cfg", 2) == 0 {
		var err error
		if multi, err = eth2wrap.Instrument(prim, fb); err != nil { // the production constructor
			panic(err)
		}
	} else {
		multi = eth2wrap.NewMultiForT(prim, fb)
	}
	c.Set("primaries", h.nP)
	c.Set("fallbacks", h.nF)
	c.Set("calls", nCalls)

	var wg sync.WaitGroup
	for ci := 0; ci < nCalls; ci++ {
		call := &callRec{id: ci, invs: make([]*inv, h.nP+h.nF)}
		h.calls = append(h.calls, call)
		wg.Add(1)
		verifrt.Go(func() {
			defer wg.Done()
			h.caller(c, multi, call)
		})
	}

	// Quiescence: every caller context ends by start offset + backstop, so by now every call has
	// returned and every wake-up that was going to happen has happened.
	verifrt.Sleep(2 * time.Second)
	h.finalChecks(c)
	cancelRun()
	verifrt.WGWait(&wg)
	verifrt.Sleep(time.Millisecond)
}

type result struct {
	val any
	err error
}

func (h *harn) caller(c *kernel.Ctx, multi eth2wrap.Client, call *callRec) {
	if d := verifrt.Intn("w", 4); d > 0 {
		verifrt.Sleep(time.Duration(d) * time.Millisecond)
	}
	call.m = method(verifrt.Intn("w", 4))
	for i := 0; i < h.nP+h.nF; i++ {
		call.scripts = append(call.scripts, drawScript())
	}
	switch m := verifrt.Intn("w", 6); m {
	case 3:
		call.cmode = cExplicit
	case 4:
		call.cmode = cDeadline
	case 5:
		call.cmode = cPre
	}
	if call.cmode == cExplicit || call.cmode == cDeadline {
		call.tc = tcTable[verifrt.Intn("w", len(tcTable))]
	}
	verifrt.Note("call%d %s cancel=%s@%v scripts=%v", call.id, methodName[call.m], cancelName[call.cmode], call.tc, call.scripts)

	base := context.WithValue(context.Background(), callKey{}, call)
	t0 := verifrt.Now()
	var (
		ctx    context.Context
		cancel context.CancelFunc
	)
	cancelAfter := func(d time.Duration) {
		verifrt.Go(func() {
			verifrt.Sleep(d)
			h.mu.Lock()
			done := call.returned
			if !done {
				call.cancelT = verifrt.Now()
			}
			h.mu.Unlock()
			if !done {
				verifrt.Note("call%d caller context cancelled", call.id)
			}
			cancel()
		})
	}
	switch call.cmode {
	case cNone:
		ctx, cancel = context.WithCancel(base)
		cancelAfter(backstop)
	case cExplicit:
		ctx, cancel = context.WithCancel(base)
		cancelAfter(call.tc)
	case cDeadline:
		ctx, cancel = context.WithTimeout(base, call.tc)
		call.cancelT = t0 + call.tc
	case cPre:
		ctx, cancel = context.WithCancel(base)
		call.cancelT = t0
		cancel()
	}

	var res result
	switch call.m {
	case mAttData:
		r, err := multi.AttestationData(ctx, &eth2api.AttestationDataOpts{Slot: eth2p0.Slot(call.id)})
		res = result{val: r, err: err}
	case mVersion:
		r, err := multi.NodeVersion(ctx, &eth2api.NodeVersionOpts{})
		res = result{val: r, err: err}
	case mSubmit:
		res = result{err: multi.SubmitAttestations(ctx, &eth2api.SubmitAttestationsOpts{})}
	case mProxy:
		req, rerr := http.NewRequestWithContext(ctx, http.MethodPost, fmt.Sprintf("http://charon/eth/v1/call/%d", call.id), strings.NewReader(proxyBody(call.id)))
		if rerr != nil {
			panic(rerr)
		}
		r, err := multi.Proxy(ctx, req)
		res = result{val: r, err: err}
	}
	retT := verifrt.Now()
	cancelFired := ctx.Err() != nil
	h.mu.Lock()
	call.returned, call.retT = true, retT
	h.mu.Unlock()
	if h.run.Err() != nil {
		return // teardown: the call never returned by itself (reported by finalChecks)
	}
	c.Progress()
	h.judge(c, call, res, retT, cancelFired)

	// (f) quiescence at the same simulated instant: every goroutine woken by the return (the
	// forkjoin cancel) has run before the clock moves at all, i.e. long before a slow node answers.
	verifrt.Sleep(time.Microsecond)
	h.mu.Lock()
	for i, iv := range call.invs {
		if iv != nil && !iv.ended && !iv.lingering && call.scripts[i].kind == kHang {
			c.Violate(prop, "f-no-leak", "hung-node-call-not-cancelled-after-return",
				"call%d (%s) returned at %v but the call to hung node %d (invoked at %v) still had a live context at quiescence in the same instant: %s", call.id, methodName[call.m], retT, i, iv.startT, describe(call, h.nP))
		}
	}
	h.mu.Unlock()
	cancel()
}

type view struct {
	succP, failP, succF, failF []inv
	invokedF                   int
	allPFailed, allFFailed     bool
	anyUnavail, anyNonUnavail  bool
}

// snapshot classifies the node calls of one call (h.mu held).
func (h *harn) snapshot(call *callRec) view {
	v := view{allPFailed: true, allFFailed: true}
	for i := 0; i < h.nP+h.nF; i++ {
		iv := call.invs[i]
		isP := i < h.nP
		if !isP && iv != nil {
			v.invokedF++
		}
		switch {
		case iv != nil && iv.ended && iv.how == howSucc:
			if isP {
				v.succP, v.allPFailed = append(v.succP, *iv), false
			} else {
				v.succF, v.allFFailed = append(v.succF, *iv), false
			}
		case iv != nil && iv.ended && iv.how == howFail:
			if isP {
				v.failP = append(v.failP, *iv)
				if unavail(call.scripts[i].kind) {
					v.anyUnavail = true
				} else {
					v.anyNonUnavail = true
				}
			} else {
				v.failF = append(v.failF, *iv)
			}
		default: // not invoked, still running, cancelled
			if isP {
				v.allPFailed = false
			} else {
				v.allFFailed = false
			}
		}
	}
	return v
}

func minEnd(l []inv) time.Duration {
	m := l[0].endT
	for _, iv := range l[1:] {
		if iv.endT < m {
			m = iv.endT
		}
	}
	return m
}

func describe(call *callRec, nP int) string {
	var sb strings.Builder
	for i, iv := range call.invs {
		role := "p"
		if i >= nP {
			role = "f"
		}
		fmt.Fprintf(&sb, "%s%d[%v", role, i, call.scripts[i])
		switch {
		case iv == nil:
			sb.WriteString(" not-invoked")
		case !iv.ended:
			fmt.Fprintf(&sb, " running since %v", iv.startT)
		default:
			fmt.Fprintf(&sb, " %s at %v", [...]string{"", "succeeded", "failed", "ctx-cancelled", "teardown"}[iv.how], iv.endT)
		}
		sb.WriteString("] ")
	}
	return sb.String()
}

type rkind int

const (
	rOK rkind = iota
	rNodeErr
	rCtxErr
	rUnknown
)

var rName = [...]string{"ok", "node-error", "ctx-error", "unknown-error"}

// fallbackRule is oracle (c)/(d): a fallback node may be invoked only after every primary
// failed and at least one of those failures was of an unavailability class.
func (h *harn) fallbackRule(c *kernel.Ctx, call *callRec, v view, when string) {
	if v.invokedF == 0 {
		return
	}
	switch {
	case !v.allPFailed:
		c.Violate(prop, "d-fail-only-if-all-fail", "fallback-consulted-before-all-primaries-failed",
			"call%d (%s), %s: %d fallback node(s) invoked although not every primary had failed: %s", call.id, methodName[call.m], when, v.invokedF, describe(call, h.nP))
	case !v.anyUnavail:
		c.Violate(prop, "c-no-fallback", "fallback-consulted-on-non-unavailability-error",
			"call%d (%s), %s: %d fallback node(s) invoked although every primary failed with a non-unavailability error: %s", call.id, methodName[call.m], when, v.invokedF, describe(call, h.nP))
	}
}

func (h *harn) judge(c *kernel.Ctx, call *callRec, res result, retT time.Duration, cancelFired bool) {
	h.mu.Lock()
	defer h.mu.Unlock()
	v := h.snapshot(call)
	desc := describe(call, h.nP)
	mn := methodName[call.m]

	// classify the result
	rk, errNode := rOK, -1
	if res.err != nil {
		rk = rUnknown
		for i, iv := range call.invs {
			if iv != nil && iv.ended && iv.how == howFail && errors.Is(res.err, iv.core) {
				rk, errNode = rNodeErr, i
				break
			}
		}
		if rk == rUnknown && (errors.Is(res.err, context.Canceled) || errors.Is(res.err, context.DeadlineExceeded)) {
			rk = rCtxErr
		}
	}
	verifrt.Note("call%d returned %s node=%d cancelFired=%v", call.id, rName[rk], errNode, cancelFired)
	c.Set(fmt.Sprintf("call%d", call.id), fmt.Sprintf("%s cancel=%s -> %s", mn, cancelName[call.cmode], rName[rk]))

	// winner of a successful provide-style call: the node whose response object came back
	winner := -1
	if rk == rOK && call.m != mSubmit {
		for i, iv := range call.invs {
			if iv == nil || iv.how != howSucc {
				continue
			}
			switch call.m {
			case mAttData:
				if r, _ := res.val.(*eth2api.Response[*eth2p0.AttestationData]); r != nil && r == iv.value && attDataIntact(r, call.id, i) {
					winner = i
				}
			case mVersion:
				if r, _ := res.val.(*eth2api.Response[string]); r != nil && r == iv.value && r.Data == versionStr(call.id, i) {
					winner = i
				}
			case mProxy:
				if r, _ := res.val.(*http.Response); r != nil && r == iv.value && proxyIntact(r, call.id, i) {
					winner = i
				}
			}
		}
		if winner < 0 {
			c.Violate(prop, "a-success", "value-is-not-one-successful-nodes-answer", "call%d (%s) returned nil error with a value that is not exactly the answer of one successfully answering node: %s", call.id, mn, desc)
		}
	}

	// (e) cancellation
	if cancelFired {
		// The call returns promptly: at the cancellation instant if some node call in flight reacts to
		// the cancellation at once (or none is in flight), else no later than the first in-flight node
		// call's return - it must not wait for the slower ones.
		bound := call.cancelT
		first := time.Duration(-1)
		for i, iv := range call.invs {
			if iv == nil || (iv.ended && iv.endT < call.cancelT) {
				continue
			}
			if iv.ended && iv.how != howCtx && iv.endT == call.cancelT {
				continue // completed in the cancellation instant itself: possibly handled before the cancellation
			}
			end := call.cancelT + call.scripts[i].linger
			if iv.ended && iv.how != howCtx && iv.endT <= end {
				end = iv.endT // it completed on its own at or after the cancellation instant
			}
			if first < 0 || end < first {
				first = end
			}
		}
		if first > bound {
			bound = first
		}
		if retT > bound {
			c.Violate(prop, "e-cancel", "returned-later-than-caller-cancellation", "call%d (%s): caller context ended at %v (%s) and the first in-flight node call returned by %v, but the call returned %s only at %v: %s", call.id, mn, call.cancelT, cancelName[call.cmode], bound, rName[rk], retT, desc)
		}
	}
	if rk == rCtxErr && !cancelFired {
		c.Violate(prop, "d-fail-only-if-all-fail", "context-error-without-caller-cancellation", "call%d (%s) failed with %q at %v although the caller's context was live: %s", call.id, mn, res.err, retT, desc)
	}
	if rk == rUnknown {
		c.Violate(prop, "d-fail-only-if-all-fail", "error-not-produced-by-any-node", "call%d (%s) failed with %q which no consulted node produced: %s", call.id, mn, res.err, desc)
	}

	// (c)/(d) fallbacks consulted only after all primaries failed with some unavailability-class error
	h.fallbackRule(c, call, v, "at return")

	if len(v.succP) > 0 {
		// (a) a primary answered successfully
		s := minEnd(v.succP)
		if retT != s {
			c.Violate(prop, "a-success", "waited-beyond-earliest-successful-primary", "call%d (%s) returned %s at %v but the earliest successful primary answered at %v: %s", call.id, mn, rName[rk], retT, s, desc)
		}
		switch rk {
		case rNodeErr:
			c.Violate(prop, "a-success", "failed-although-a-primary-succeeded", "call%d (%s) failed with node %d's error %q although a primary answered successfully: %s", call.id, mn, errNode, res.err, desc)
		case rOK:
			if winner >= h.nP {
				c.Violate(prop, "a-success", "fallback-answer-although-a-primary-succeeded", "call%d (%s) returned fallback node %d's answer although a primary answered successfully: %s", call.id, mn, winner, desc)
			}
			if len(v.failP) > 0 {
				verifrt.Probe("success-despite-failed-primary")
			}
		case rCtxErr:
			verifrt.Probe("cancel-tie-with-success")
		}
	} else {
		switch rk {
		case rOK:
			// (b) only a fallback can have answered
			switch {
			case len(v.succF) == 0:
				c.Violate(prop, "d-fail-only-if-all-fail", "success-without-any-successful-node", "call%d (%s) returned nil error although no node answered successfully: %s", call.id, mn, desc)
			default:
				if sf := minEnd(v.succF); retT != sf {
					c.Violate(prop, "b-fallback", "waited-beyond-earliest-successful-fallback", "call%d (%s) returned at %v but the earliest successful fallback answered at %v: %s", call.id, mn, retT, sf, desc)
				}
				verifrt.Probe("fallback-success")
			}
		case rNodeErr:
			// (d) fails only when all primaries failed and the consulted fallbacks failed too
			switch {
			case !v.allPFailed:
				c.Violate(prop, "d-fail-only-if-all-fail", "failed-before-all-primaries-failed", "call%d (%s) failed with node %d's error %q although not every primary had failed: %s", call.id, mn, errNode, res.err, desc)
			case v.invokedF > 0 && !(v.allFFailed && v.invokedF == h.nF):
				c.Violate(prop, "d-fail-only-if-all-fail", "failed-although-a-fallback-had-not-failed", "call%d (%s) failed with node %d's error %q although a consulted fallback had not failed: %s", call.id, mn, errNode, res.err, desc)
			case v.invokedF == 0 && h.nF > 0 && !v.anyNonUnavail:
				c.Violate(prop, "b-fallback", "fallbacks-not-consulted-after-unavailability", "call%d (%s) failed with node %d's error %q: every primary failed with an unavailability-class error but no fallback was consulted: %s", call.id, mn, errNode, res.err, desc)
			}
			if v.allPFailed {
				verifrt.Probe("all-primaries-failed")
				if v.invokedF > 0 {
					verifrt.Probe("fallbacks-all-failed")
				}
			}
		}
		if v.allPFailed && len(v.succF) > 0 && rk != rOK {
			// a legitimately consulted fallback answered: anything but that answer at that instant is late
			if sf := minEnd(v.succF); retT != sf || rk == rNodeErr {
				c.Violate(prop, "b-fallback", "fallback-success-not-returned", "call%d (%s) returned %s at %v although a consulted fallback answered successfully at %v: %s", call.id, mn, rName[rk], retT, sf, desc)
			}
		}
	}
	// (b') fallback nodes are consulted like primaries: all of them, in parallel. Once the fallback
	// round has started, simulated time cannot pass without every fallback having been invoked - a
	// hung or slow fallback must not keep a healthy one from being asked ("does not wait for slower
	// or hung nodes").
	if v.invokedF > 0 && v.invokedF < h.nF {
		first := time.Duration(-1)
		for i, iv := range call.invs {
			if i >= h.nP && iv != nil && (first < 0 || iv.startT < first) {
				first = iv.startT
			}
		}
		if first >= 0 && retT > first {
			c.Violate(prop, "b-fallback", "fallback-node-never-consulted-while-others-ran", "call%d (%s): the fallback round started at %v and the call returned %s at %v, but only %d of %d fallback nodes were ever consulted: %s", call.id, mn, first, rName[rk], retT, v.invokedF, h.nF, desc)
		}
	}
	if v.invokedF > 0 {
		verifrt.Probe("fallback-consulted")
	}
	if v.allPFailed && v.anyUnavail && v.anyNonUnavail {
		if v.invokedF > 0 {
			verifrt.Probe("mixed-classes-fallback-consulted")
		} else if h.nF > 0 {
			verifrt.Probe("mixed-classes-fallback-not-consulted")
		}
	}
	if v.allPFailed && !v.anyUnavail && h.nF > 0 {
		verifrt.Probe("non-unavailability-failure-with-fallbacks-configured")
	}
	if rk == rCtxErr {
		verifrt.Probe("cancel-path-" + cancelName[call.cmode])
	} else if cancelFired {
		verifrt.Probe("cancel-tie-result-first")
	}
	if call.dup {
		verifrt.Probe("node-invoked-twice")
	}
	pending := 0
	for _, iv := range call.invs {
		if iv != nil && !iv.ended {
			pending++
		}
	}
	if rk == rOK && pending > 0 {
		verifrt.Probe("returned-while-nodes-pending")
	}

	// abstract state: method, cancel mode, per-role multiset of (kind, fate), result class
	hh := fnv.New64a()
	fmt.Fprintf(hh, "%d|%d|%d|%d|", call.m, call.cmode, rk, h.nF)
	cnt := map[string]int{}
	for i, iv := range call.invs {
		f := 0
		if iv != nil {
			f = int(iv.how) + 1
			if !iv.ended {
				f = 9
			}
		}
		cnt[fmt.Sprintf("%v/%d/%d/%d", i < h.nP, call.scripts[i].kind, f, btoi(call.scripts[i].slow))]++
	}
	var keys []string
	for k, n := range cnt {
		keys = append(keys, fmt.Sprintf("%s=%d", k, n))
	}
	sortStrings(keys)
	fmt.Fprint(hh, strings.Join(keys, ","))
	c.State(hh.Sum64())
}

func btoi(b bool) int {
	if b {
		return 1
	}
	return 0
}

func sortStrings(s []string) {
	for i := 1; i < len(s); i++ {
		for j := i; j > 0 && s[j] < s[j-1]; j-- {
			s[j], s[j-1] = s[j-1], s[j]
		}
	}
}

// finalChecks runs at quiescence long after every caller context has ended.
func (h *harn) finalChecks(c *kernel.Ctx) {
	h.mu.Lock()
	defer h.mu.Unlock()
	for _, call := range h.calls {
		if call.scripts == nil {
			continue
		}
		if !call.returned {
			c.Violate(prop, "e-cancel", "call-never-returned", "call%d (%s, cancel=%s) had not returned at quiescence (t=%v) although its caller context ended at %v: %s", call.id, methodName[call.m], cancelName[call.cmode], verifrt.Now(), call.cancelT, describe(call, h.nP))
		}
		for i, iv := range call.invs {
			if iv != nil && !iv.ended {
				c.Violate(prop, "f-no-leak", "node-call-still-blocked-at-final-quiescence", "call%d (%s): the call to node %d (%v) invoked at %v is still blocked at t=%v: %s", call.id, methodName[call.m], i, call.scripts[i], iv.startT, verifrt.Now(), describe(call, h.nP))
			}
		}
		h.fallbackRule(c, call, h.snapshot(call), "at final quiescence")
	}
}
