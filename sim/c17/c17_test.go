//go:build verif

// Harness for C17: the aggregate-signature store (both in-memory implementations) driven by
// concurrent readers and writers under the seeded scheduler; history checked with porcupine
// against a sequential per-key model, plus a lost-wake-up oracle at quiescence.
package c17

import (
	"context"
	"errors"
	"fmt"
	"strings"
	"sync"
	"testing"
	"time"

	"github.com/anishathalye/porcupine"
	eth2p0 "github.com/attestantio/go-eth2-client/spec/phase0"

	"github.com/obolnetwork/charon/core"
	"github.com/obolnetwork/charon/core/aggsigdb"
	"github.com/obolnetwork/charon/verifrt"

	"verifsim/kernel"
	"verifsim/simdata"
)

type db interface {
	Store(context.Context, core.Duty, core.SignedDataSet) error
	Await(context.Context, core.Duty, core.PubKey, core.SubcommitteeIndex) (core.SignedData, error)
	Run(context.Context)
}

type key struct {
	duty    core.Duty
	pk      int
	subcomm uint64
}

func (k key) String() string { return fmt.Sprintf("%s/pk%d/sc%d", simdata.Desc(k.duty), k.pk, k.subcomm) }

type opKind int

const (
	opStore opKind = iota
	opAwait
)

type op struct {
	client  int
	kind    opKind
	key     key
	vid     uint64 // store: value written; await: value returned (0 = none)
	call    int64
	ret     int64 // 0 = never returned
	callT   time.Duration
	retT    time.Duration
	err     string // "", "mismatch", "ctx", "other:..."
	timeout time.Duration
	setErr  bool // store belonged to a multi-entry Store call that returned an error: per-key effect unknown
}

type hist struct {
	mu  sync.Mutex
	seq int64
	ops []*op
}

func (h *hist) stamp() int64 { h.mu.Lock(); defer h.mu.Unlock(); h.seq++; return h.seq }
func (h *hist) add(o *op)    { h.mu.Lock(); h.ops = append(h.ops, o); h.mu.Unlock() }

// A value id is (signature id << 1 | content variant): two values may carry the same signature
// bytes and still differ in content, which is a conflict like any other.
func mkValue(k key, vid uint64) core.SignedData {
	sig, variant := vid>>1, vid&1
	if k.duty.Type == core.DutySyncContribution {
		c := simdata.SyncContribution(k.duty.Slot, k.subcomm, sig)
		c.Message.AggregatorIndex += eth2p0.ValidatorIndex(variant)
		return c
	}
	return simdata.Randao(k.duty.Slot/32+variant, sig)
}

// corruptVid is the id valueID reports for content that was never handed to Store.
const corruptVid = 1 << 40

// valueID recovers the id of a returned value.
func valueID(k key, d core.SignedData) uint64 {
	sig := simdata.SigID(d.Signature())
	var variant uint64
	switch v := d.(type) {
	case core.SignedRandao:
		variant = uint64(v.SignedEpoch.Epoch) - k.duty.Slot/32
	case core.SignedSyncContributionAndProof:
		if uint64(v.Message.Contribution.Slot) != k.duty.Slot {
			return corruptVid // content no writer ever stored (see "writer re-uses its buffer")
		}
		variant = uint64(v.Message.AggregatorIndex) - 7
	}
	return sig<<1 | variant&1
}

func TestSim(t *testing.T) {
	kernel.Main(t, kernel.Harness{Name: "c17", Horizon: 10 * time.Minute, Body: body, After: after})
}

type runState struct {
	h        *hist
	expiring map[core.Duty]bool
}

func body(c *kernel.Ctx) {
	ctx, cancelAll := context.WithCancel(context.Background())
	defer cancelAll()
	start := time.Now()

	v2 := verifrt.Intn("cfg", 2) == 1
	if c.Mode == "v1" {
		v2 = false
	} else if c.Mode == "v2" {
		v2 = true
	}
	nClients := 2 + verifrt.Intn("cfg", 5)
	nOps := 1 + verifrt.Intn("cfg", 4)
	expireAt := time.Duration(5+verifrt.Intn("cfg", 40)) * time.Millisecond

	dutyA := core.NewRandaoDuty(32)
	dutyB := core.NewSyncContributionDuty(33)
	dutyX := core.NewRandaoDuty(64) // expires during the run
	expiring := map[core.Duty]bool{dutyX: true}
	// duty types that never expire (the production deadline function exempts exits and builder
	// registrations; the deadliner answers DeadlineExempt for them): stored and served like any other
	dutyE := core.NewVoluntaryExit(40)
	dutyR := core.NewBuilderRegistrationDuty(41)
	keys := []key{{dutyA, 0, 0}, {dutyA, 1, 0}, {dutyB, 0, 0}, {dutyB, 0, 1}, {dutyX, 0, 0}}
	nKeys := 2 + verifrt.Intn("cfg", len(keys)-1)
	keys = keys[:nKeys]
	if verifrt.Intn("cfg", 3) == 2 {
		keys = append(keys, key{dutyE, 0, 0}, key{dutyR, 1, 0})
		if verifrt.Intn("cfg", 2) == 1 {
			keys = keys[len(keys)-3:] // mostly never-expiring keys
		}
		verifrt.Probe("never-expiring-duty-keys")
	}

	dl := core.NewDeadliner(ctx, "c17", func(d core.Duty) (time.Time, bool) {
		if d.Type == core.DutyExit || d.Type == core.DutyBuilderRegistration {
			return time.Time{}, false
		}
		if expiring[d] {
			return start.Add(expireAt), true
		}
		return start.Add(time.Hour), true
	})
	var store db
	if v2 {
		store = aggsigdb.NewMemDBV2(dl)
	} else {
		store = aggsigdb.NewMemDB(dl)
	}
	verifrt.Go(func() { store.Run(ctx) })

	h := &hist{}
	st := &runState{h: h, expiring: expiring}
	c.Set("impl", map[bool]string{false: "MemDB", true: "MemDBV2"}[v2])
	c.Set("clients", nClients)
	c.Set("keys", nKeys)

	var vidMu sync.Mutex
	nextVid := uint64(1)
	storedVids := map[key][]uint64{} // vids ever offered per key (for equal re-stores)
	newVid := func() uint64 { vidMu.Lock(); defer vidMu.Unlock(); nextVid++; return nextVid }

	var wg sync.WaitGroup
	issued := make(chan struct{}, nClients)
	for cl := 0; cl < nClients; cl++ {
		wg.Add(1)
		verifrt.Go(func() {
			defer wg.Done()
			for i := 0; i < nOps; i++ {
				if d := verifrt.Intn("w", 4); d > 0 {
					verifrt.Sleep(time.Duration(d) * time.Millisecond)
				}
				k := keys[verifrt.Intn("w", len(keys))]
				last := i == nOps-1
				if verifrt.Intn("w", 2) == 0 {
					// Await, possibly with a timeout. The last op of a client may block for good.
					o := &op{client: cl, kind: opAwait, key: k}
					actx := ctx
					if !last || verifrt.Intn("w", 3) == 0 {
						o.timeout = time.Duration(1+verifrt.Intn("w", 30)) * time.Millisecond
						var cancel context.CancelFunc
						actx, cancel = context.WithTimeout(ctx, o.timeout)
						defer cancel()
					}
					if last {
						issued <- struct{}{}
					}
					o.call, o.callT = h.stamp(), verifrt.Now()
					h.add(o)
					verifrt.Note("c%d await %v to=%v", cl, k, o.timeout)
					data, err := store.Await(actx, k.duty, simdata.PubKey(k.pk), core.SubcommitteeIndex(k.subcomm))
					if ctx.Err() != nil {
						return // teardown phase: not part of the history
					}
					o.retT = verifrt.Now()
					if err != nil {
						o.err = classify(err)
					} else {
						o.vid = valueID(k, data)
						c.Progress()
					}
					o.ret = h.stamp()
					verifrt.Note("c%d await %v -> vid=%d err=%s", cl, k, o.vid, o.err)
				} else {
					// Store of one or two entries of the same duty: fresh, equal or conflicting values.
					set := core.SignedDataSet{}
					var os []*op
					n := 1 + verifrt.Intn("w", 2)
					for j := 0; j < n; j++ {
						kk := k
						if j == 1 {
							kk = keys[verifrt.Intn("w", len(keys))]
							if kk.duty != k.duty || kk == k || kk.pk == k.pk {
								break // a set is keyed by pubkey: second entry needs another pubkey of the same duty
							}
						}
						var vid uint64
						vidMu.Lock()
						prev := storedVids[kk]
						vidMu.Unlock()
						switch {
						case len(prev) > 0 && verifrt.Intn("w", 2) == 0:
							vid = prev[verifrt.Intn("w", len(prev))] // equal (or conflicting, if it lost) re-store
							if verifrt.Intn("w", 4) == 3 {
								vid ^= 1 // same signature bytes, different content
								verifrt.Probe("same-signature-different-content")
							}
						default:
							vid = newVid() << 1
						}
						vidMu.Lock()
						storedVids[kk] = append(storedVids[kk], vid)
						vidMu.Unlock()
						set[simdata.PubKey(kk.pk)] = mkValue(kk, vid)
						os = append(os, &op{client: cl, kind: opStore, key: kk, vid: vid})
					}
					if last {
						issued <- struct{}{}
					}
					cs, ct := h.stamp(), verifrt.Now()
					for _, o := range os {
						o.call, o.callT = cs, ct
						h.add(o)
						verifrt.Note("c%d store %v vid=%d", cl, o.key, o.vid)
					}
					// A fifth of the stores are made with a context of the writer's own that is already cancelled or
					// ends 0-2 ms into the call: Store may return that context's error while the write it handed over
					// still takes effect (now or later) - or never does.
					sctx := ctx
					if verifrt.Intn("w", 5) == 4 {
						var scancel context.CancelFunc
						if verifrt.Intn("w", 2) == 0 {
							sctx, scancel = context.WithCancel(ctx)
							scancel()
						} else {
							sctx, scancel = context.WithTimeout(ctx, time.Duration(verifrt.Intn("w", 3))*time.Millisecond)
						}
						defer scancel()
					}
					err := store.Store(sctx, k.duty, set)
					if ctx.Err() != nil {
						return
					}
					if err != nil && sctx.Err() != nil && classify(err) == "ctx" {
						verifrt.Probe("store-returned-its-callers-context-error")
					}
					rt := verifrt.Now()
					rs := h.stamp()
					for _, o := range os {
						o.retT, o.ret = rt, rs
						if err != nil {
							o.err = classify(err)
							o.setErr = len(os) > 1
						}
					}
					if err == nil {
						c.Progress()
					}
					verifrt.Note("c%d store -> err=%v", cl, err != nil)
					// the writer re-uses its buffer once Store has returned: the stored value is what was
					// handed in at the call, whatever the writer does to its own object afterwards
					if verifrt.Intn("w", 2) == 1 {
						for _, v := range set {
							if sc, ok := v.(core.SignedSyncContributionAndProof); ok {
								sc.Message.Contribution.Slot += 100000
								sc.Message.AggregatorIndex += 1000
								verifrt.Probe("writer-reuses-buffer")
							}
						}
					}
				}
			}
		})
	}
	for i := 0; i < nClients; i++ {
		verifrt.Recv(issued)
	}
	// Quiescence: simulated time only advances when no goroutine is runnable, so after this sleep
	// every wake-up that was ever going to happen without further input has happened.
	verifrt.Sleep(2 * time.Second)
	checkQuiescent(c, st, verifrt.Now())
	c.Set("ops", len(h.ops))
	run = st
	cancelAll()
	verifrt.WGWait(&wg)
}

// run hands the recorded history to After (one run at a time per process).
var run *runState

func classify(err error) string {
	switch {
	case errors.Is(err, context.DeadlineExceeded), errors.Is(err, context.Canceled):
		return "ctx"
	case strings.Contains(err.Error(), "mismatching data"):
		return "mismatch"
	default:
		return "other:" + err.Error()
	}
}

// checkQuiescent is the "no lost wake-up" oracle.
func checkQuiescent(c *kernel.Ctx, st *runState, now time.Duration) {
	h := st.h
	h.mu.Lock()
	defer h.mu.Unlock()
	// earliest simulated time at which a Store containing the key returned nil
	storedAt := map[key]time.Duration{}
	for _, o := range h.ops {
		if o.kind == opStore && o.ret != 0 && o.err == "" {
			if t, ok := storedAt[o.key]; !ok || o.retT < t {
				storedAt[o.key] = o.retT
			}
		}
	}
	for _, o := range h.ops {
		if o.kind != opAwait || st.expiring[o.key.duty] {
			continue
		}
		t, ok := storedAt[o.key]
		if !ok {
			continue
		}
		if o.ret == 0 && (o.timeout == 0 || o.callT+o.timeout > now) {
			c.Violate("C17", "lost-wakeup", "await-blocked-at-quiescence", "client %d Await(%v) invoked at %v still blocked at quiescence (t=%v) although a Store of that key returned nil at t=%v", o.client, o.key, o.callT, now, t)
		}
		if o.ret != 0 && o.err == "ctx" && t < o.retT {
			c.Violate("C17", "lost-wakeup", "await-timed-out-after-store", "client %d Await(%v) invoked at %v timed out at %v although a Store of that key returned nil earlier, at t=%v", o.client, o.key, o.callT, o.retT, t)
		}
	}
}

// ---- sequential model (per key) -------------------------------------------------------------

type in struct {
	kind   opKind
	vid    uint64
	setErr bool
}
type out struct {
	vid uint64
	err string
}

var model = (&porcupine.NondeterministicModel{
	Init: func() []interface{} { return []interface{}{uint64(0)} },
	Step: func(state, input, output interface{}) []interface{} {
		s, i, o := state.(uint64), input.(in), output.(out)
		switch i.kind {
		case opStore:
			switch {
			case o.err == "" && (s == 0 || s == i.vid):
				return []interface{}{i.vid}
			case o.err == "mismatch" && i.setErr:
				// some entry of the set clashed; this entry was applied, equal, clashed or not reached
				if s == 0 {
					return []interface{}{uint64(0), i.vid}
				}
				return []interface{}{s}
			case o.err == "mismatch" && s != 0 && s != i.vid:
				return []interface{}{s}
			case o.err == "ctx":
				// the writer's own context ended: the entry was applied (first write wins), or was not
				if s == 0 {
					return []interface{}{uint64(0), i.vid}
				}
				return []interface{}{s}
			}
			return nil
		case opAwait:
			if o.err != "" {
				return []interface{}{s} // cancelled/timed-out read: no effect (promptness is the quiescence oracle)
			}
			if s != 0 && s == o.vid {
				return []interface{}{s}
			}
			return nil
		}
		return nil
	},
	Equal: func(a, b interface{}) bool { return a == b },
}).ToModel()

// after runs outside the bubble: attribution and linearizability of the recorded history.
func after(c *kernel.Ctx) {
	st := run
	run = nil
	if st == nil {
		return
	}
	h := st.h
	offered := map[key]map[uint64]bool{}
	for _, o := range h.ops {
		if o.kind == opStore {
			if offered[o.key] == nil {
				offered[o.key] = map[uint64]bool{}
			}
			offered[o.key][o.vid] = true
		}
	}
	byKey := map[key][]porcupine.Operation{}
	maxSeq := h.seq + 1
	for _, o := range h.ops {
		if strings.HasPrefix(o.err, "other:") {
			c.Violate("C17", "unexpected-error", "op-error", "client %d %v on %v failed: %s", o.client, o.kind, o.key, o.err)
			continue
		}
		if o.kind == opAwait && o.ret != 0 && o.err == "" && !offered[o.key][o.vid] {
			c.Violate("C17", "attribution", "await-returned-unstored", "client %d Await(%v) returned value id %d which no Store ever wrote under that key", o.client, o.key, o.vid)
			continue
		}
		if st.expiring[o.key.duty] {
			continue // expiry deletes asynchronously; only attribution is checked for this duty
		}
		if o.kind == opStore && o.err == "ctx" {
			o.ret = maxSeq // abandoned by its caller: its effect, if any, may come at any later time
		}
		if o.ret == 0 {
			if o.kind == opAwait {
				continue // pending read: no effect
			}
			// pending store; treat as possibly applied
			o.ret = maxSeq
			o.err = "mismatch"
			o.setErr = true
		}
		byKey[o.key] = append(byKey[o.key], porcupine.Operation{ClientId: o.client, Input: in{o.kind, o.vid, o.setErr}, Call: o.call, Output: out{o.vid, o.err}, Return: o.ret})
	}
	for k, ops := range byKey {
		res := porcupine.CheckOperationsTimeout(model, ops, 20*time.Second)
		switch res {
		case porcupine.Illegal:
			c.Violate("C17", "linearizability", "per-key-history-illegal", "history of key %v is not linearizable against the first-write-wins register model: %s", k, render(ops))
		case porcupine.Unknown:
			c.Set("porcupine_unknown", true)
		}
	}
}

func render(ops []porcupine.Operation) string {
	var sb strings.Builder
	for _, o := range ops {
		i, ou := o.Input.(in), o.Output.(out)
		if i.kind == opStore {
			fmt.Fprintf(&sb, "[c%d store(v%d)->%q %d..%d] ", o.ClientId, i.vid, ou.err, o.Call, o.Return)
		} else {
			fmt.Fprintf(&sb, "[c%d await->v%d %q %d..%d] ", o.ClientId, ou.vid, ou.err, o.Call, o.Return)
		}
	}
	return sb.String()
}
