//go:build verif

package c01

// Real-broadcaster mode of a C01 run (seeded, half of the runs; tape value 0 = the recording-only mode):
// every node's core.Broadcaster is
//
//	recorder (cluster.Recorder: the SigAgg output, all oracles of the other files)  ->  the REAL core/bcast.Broadcaster
//
// and the real broadcaster submits to the node's beacon client through submitBeacon, a wrapper of the node's
// simulated beacon node that adds what core/bcast needs and the simulated beacon node lacks: the submission
// endpoints (attestations, proposal, blinded proposal, voluntary exit, aggregate attestations, sync committee
// messages, sync committee contributions) and, for the broadcaster's validator-index repair of Electra
// attestations, CompleteValidators and AttesterDuties answered from the cluster's chain model.
//
// Oracles at the submission endpoints - "handed to the beacon node" is exactly there:
//
//	(s1) every submitted object is one of the objects of the Broadcast call it is submitted in: the same signed
//	     object and the same signature (attestation: version, hash_tree_root(data), signature, aggregation bits,
//	     committee bits; the unsigned validator index may be set or replaced by the broadcaster's repair, which
//	     re-resolves every attestation of a set in which one lacks it: (s2) judges the index handed over),
//	     one submitted object per entry of the call
//	(s2) its signature verifies under the group public key of the validator the beacon node attributes it to
//	     (Electra attestation: the validator named by ValidatorIndex, the attester_index of the SingleAttestation
//	     the eth2 client posts; Deneb attestation: committee index + aggregation bit; aggregate / contribution and
//	     proof: aggregator_index; sync message, exit: validator_index; block: proposer_index), for the object's
//	     own signing root restated from the specification (the helpers of the other files, not core/eth2signeddata.go)
//	(s3) a Broadcast call of a submitted duty type that returned nil handed over exactly as many objects as
//	     its set has entries (objects are counted when handed to the endpoint, whether or not the simulated
//	     beacon node then answers with an error, so DutyExit's "last error only" does not matter)
//
// To make the repair branch of core/bcast reachable (Electra attestations that arrive at Broadcast with a nil
// ValidatorIndex), Electra runs have (a) in a seeded fraction, nodes of an old release: their parsigex messages
// carry attestations in the old wire encoding without the validator index (rewritten on the simulated wire),
// and (b) Byzantine nodes that send valid partial signatures over the decided data without a validator index or
// with a foreign one.

import (
	"bytes"
	"context"
	"fmt"
	"sort"
	"sync"
	"time"

	"github.com/OffchainLabs/go-bitfield"
	eth2api "github.com/attestantio/go-eth2-client/api"
	eth2v1 "github.com/attestantio/go-eth2-client/api/v1"
	eth2spec "github.com/attestantio/go-eth2-client/spec"
	"github.com/attestantio/go-eth2-client/spec/altair"
	"github.com/attestantio/go-eth2-client/spec/electra"
	eth2p0 "github.com/attestantio/go-eth2-client/spec/phase0"
	"github.com/libp2p/go-msgio/pbio"

	"github.com/obolnetwork/charon/app/errors"
	"github.com/obolnetwork/charon/app/eth2wrap"
	"github.com/obolnetwork/charon/core"
	"github.com/obolnetwork/charon/core/bcast"
	pbv1 "github.com/obolnetwork/charon/core/corepb/v1"
	"github.com/obolnetwork/charon/tbls"
	"github.com/obolnetwork/charon/verifrt"

	"verifsim/cluster"
	"verifsim/kernel"
	"verifsim/simnet"
)

// bcastPlan is the per-run choice of this file (part of plan).
type bcastPlan struct {
	realBcast bool   // the nodes' broadcaster is the real core/bcast behind the recorder
	legacy    []bool // Electra runs, per node: an old release whose parsigex attestations carry no validator index
	batch     bool   // validator clients serve all their validators with ONE call per kind (attestations, sync messages, aggregates)
}

// chooseRealBcast draws the mode from "cfg" (tape value 0 = the recording-only broadcaster, no old-release nodes).
func chooseRealBcast(c *kernel.Ctx, cl *cluster.Cluster, pl *plan) {
	pl.realBcast = verifrt.Intn("cfg", 2) == 1
	pl.legacy = make([]bool, cl.Cfg.N)
	if pl.electra {
		switch verifrt.Intn("cfg", 3) {
		case 1: // a mixed-version cluster
			for i := range pl.legacy {
				pl.legacy[i] = verifrt.Intn("cfg", 2) == 1
			}
		case 2: // every node runs the old release
			for i := range pl.legacy {
				pl.legacy[i] = true
			}
		}
	}
	// with one call per validator (the other files) every set that travels through parsigdb, parsigex, sigagg and
	// the broadcaster has one entry; a batching validator client makes them carry all validators of the slot
	pl.batch = verifrt.Intn("cfg", 2) == 1
	if pl.batch && len(cl.Vals) > 1 {
		verifrt.Probe("enabled:batching-validator-clients")
	}
	c.Set("batching_validator_clients", pl.batch && len(cl.Vals) > 1)
	nLegacy := 0
	for _, l := range pl.legacy {
		if l {
			nLegacy++
		}
	}
	if pl.realBcast {
		verifrt.Probe("enabled:real-broadcaster")
	}
	if nLegacy > 0 {
		verifrt.Probe("enabled:old-release-nodes")
	}
	c.Set("real_broadcaster", pl.realBcast)
	c.Set("old_release_nodes", nLegacy)
}

// installRealBcast wires the mode into the cluster (before any node starts).
func installRealBcast(c *kernel.Ctx, cl *cluster.Cluster, pl *plan, firstSlot uint64, nSlots int, beaconErrs bool, isByz []bool) {
	anyLegacy := false
	for _, l := range pl.legacy {
		anyLegacy = anyLegacy || l
	}
	if anyLegacy {
		cl.Net.Tap = func(e *simnet.Envelope) {
			if e.Response || e.Proto != protoParSigEx {
				return
			}
			for i, id := range cl.PeerIDs {
				if id == e.From && pl.legacy[i] {
					if out, ok := stripValidatorIndex(e.Payload); ok {
						e.Payload = out
						verifrt.Fault("old-release-wire:attestation-without-validator-index")
					}
				}
			}
		}
	}
	if !pl.realBcast {
		return
	}
	s := &subOracle{c: c, cl: cl, firstSlot: firstSlot, nSlots: nSlots, beaconErrs: beaconErrs, isByz: isByz, thresholdSets: map[string]attSet{}}
	cl.NewBroadcaster = func(n *cluster.Node, eth2Cl eth2wrap.Client) core.Broadcaster {
		sb := &submitBeacon{Client: eth2Cl, s: s, n: n}
		// registered before core.Wire subscribes SigAgg: the composition of every attester threshold set is known
		// when its aggregate reaches the broadcaster (used to word a violation, never to decide one)
		n.ParSigDB.SubscribeThreshold(func(_ context.Context, duty core.Duty, set map[core.PubKey][]core.ParSignedData) error {
			s.noteThresholdSet(n.Idx, duty, set)
			return nil
		})
		real, err := bcast.New(n.Ctx, sb)
		if err != nil {
			panic(err)
		}
		return &realBroadcaster{rec: cl.Recorder(n), real: real, s: s, n: n}
	}
}

// stripValidatorIndex re-encodes the Electra attestations of a parsigex message the way releases v1.3.0, v1.3.1,
// v1.4.0 and v1.4.1 did: core.VersionedAttestation without the validator index (MarshalSSZTo falls back to that
// encoding for a nil index and UnmarshalSSZ still accepts it).
func stripValidatorIndex(payload []byte) ([]byte, bool) {
	var msg pbv1.ParSigExMsg
	if err := pbio.NewDelimitedReader(bytes.NewReader(payload), 128<<20).ReadMsg(&msg); err != nil {
		return nil, false
	}
	if msg.GetDuty() == nil || core.DutyFromProto(msg.GetDuty()).Type != core.DutyAttester || msg.GetDataSet() == nil {
		return nil, false
	}
	changed := false
	var pks []string
	for pk := range msg.GetDataSet().GetSet() {
		pks = append(pks, pk)
	}
	sort.Strings(pks)
	for _, pk := range pks {
		ps, err := core.ParSignedDataFromProto(core.DutyAttester, msg.GetDataSet().GetSet()[pk])
		if err != nil {
			continue
		}
		att, ok := ps.SignedData.(core.VersionedAttestation)
		if !ok || att.Version < eth2spec.DataVersionElectra || att.ValidatorIndex == nil {
			continue
		}
		att.ValidatorIndex = nil
		ps.SignedData = att
		pb, err := core.ParSignedDataToProto(ps)
		if err != nil {
			panic(err)
		}
		msg.DataSet.Set[pk] = pb
		changed = true
	}
	if !changed {
		return nil, false
	}
	return frame(&msg), true
}

// ---- the broadcaster of the mode ----------------------------------------------------------------------

type callKey struct{}

// bcastCall is one Broadcast call of one node: what the recorder saw (expect) and what the real broadcaster
// handed to the beacon node in the call's context.
type bcastCall struct {
	node int
	duty core.Duty

	mu        sync.Mutex
	expect    []*expected
	submitted int
}

// expected is one entry of the call's set in the form the endpoints compare: kind and key identify the signed
// object and its signature.
type expected struct {
	pk     core.PubKey
	val    *cluster.Validator // nil: a key outside the cluster (the recorder's oracles report that)
	kind   string
	key    string
	valIdx *eth2p0.ValidatorIndex // attestations: the validator index the aggregate carries
	used   bool
}

type realBroadcaster struct {
	rec  core.Broadcaster
	real bcast.Broadcaster
	s    *subOracle
	n    *cluster.Node
}

// submittedDuty: the duty types core/bcast hands to the beacon node.
func submittedDuty(t core.DutyType) bool {
	switch t {
	case core.DutyAttester, core.DutyProposer, core.DutyExit, core.DutyAggregator, core.DutySyncMessage, core.DutySyncContribution:
		return true
	}
	return false
}

func (r *realBroadcaster) Broadcast(ctx context.Context, duty core.Duty, set core.SignedDataSet) error {
	// the recorder first: every oracle of the SigAgg output runs on exactly what the real broadcaster is given
	_ = r.rec.Broadcast(ctx, duty, set)
	call := r.s.newCall(r.n.Idx, duty, set)
	err := r.real.Broadcast(context.WithValue(ctx, callKey{}, call), duty, set)
	call.mu.Lock()
	submitted := call.submitted
	call.mu.Unlock()
	verifrt.Note("n%d real broadcast %s entries %d submitted %d err=%v", r.n.Idx, duty, len(set), submitted, err != nil)
	switch {
	case err != nil:
		verifrt.Probe("real-broadcast:returned-error")
	case !submittedDuty(duty.Type):
		verifrt.Probe("real-broadcast:internal-duty-not-submitted")
		if submitted != 0 {
			r.s.c.Violate("C01", "submitted-not-aggregated", "submission-in-a-call-of-an-internal-duty", "node %d: Broadcast(%s) handed %d objects to the beacon node; this duty type is not submitted", r.n.Idx, duty, submitted)
		}
	case submitted != len(set):
		// (s3) nothing silently dropped, nothing handed over twice
		r.s.c.Violate("C01", "submitted-count", duty.Type.String()+"-submitted-objects-differ-from-set-entries", "node %d: Broadcast(%s) returned nil for a set of %d entries but handed %d objects to the beacon node", r.n.Idx, duty, len(set), submitted)
	default:
		verifrt.Probe("real-broadcast:ok:" + duty.Type.String())
	}
	return err
}

func callOf(ctx context.Context) *bcastCall {
	call, _ := ctx.Value(callKey{}).(*bcastCall)
	return call
}

// ---- what the endpoints compare -------------------------------------------------------------------------

func attKey(a *eth2spec.VersionedAttestation) (string, *eth2p0.AttestationData, eth2p0.BLSSignature, bool) {
	if a == nil || a.IsEmpty() {
		return "", nil, eth2p0.BLSSignature{}, false
	}
	data, err := a.Data()
	if err != nil || data == nil || data.Source == nil || data.Target == nil {
		return "", nil, eth2p0.BLSSignature{}, false
	}
	sig, err := a.Signature()
	if err != nil {
		return "", nil, eth2p0.BLSSignature{}, false
	}
	bits, err := a.AggregationBits()
	if err != nil {
		return "", nil, eth2p0.BLSSignature{}, false
	}
	var cbits []byte
	switch {
	case a.Version == eth2spec.DataVersionElectra && a.Electra != nil:
		cbits = a.Electra.CommitteeBits
	case a.Version == eth2spec.DataVersionFulu && a.Fulu != nil:
		cbits = a.Fulu.CommitteeBits
	}
	root := mustRoot(data.HashTreeRoot())
	return fmt.Sprintf("%s/data %x/sig %x/bits %x/cbits %x", a.Version, root[:], sig[:], []byte(bits), cbits), data, sig, true
}

func proposalKey(in blockInfo) string {
	return fmt.Sprintf("%s/block %x/sig %x/sidecars %x", in.shape, in.root[:], in.sig[:], in.sidecars[:8])
}

// aggInfo is what the endpoints read from a SignedAggregateAndProof of any version.
type aggInfo struct {
	version    eth2spec.DataVersion
	msgRoot    eth2p0.Root
	dataSlot   eth2p0.Slot
	aggregator eth2p0.ValidatorIndex
	sig        eth2p0.BLSSignature
}

func unpackAggAndProof(ap *eth2spec.VersionedSignedAggregateAndProof) (aggInfo, bool) {
	if ap == nil {
		return aggInfo{}, false
	}
	var ph *eth2p0.SignedAggregateAndProof
	var el *electra.SignedAggregateAndProof
	switch ap.Version {
	case eth2spec.DataVersionPhase0:
		ph = ap.Phase0
	case eth2spec.DataVersionAltair:
		ph = ap.Altair
	case eth2spec.DataVersionBellatrix:
		ph = ap.Bellatrix
	case eth2spec.DataVersionCapella:
		ph = ap.Capella
	case eth2spec.DataVersionDeneb:
		ph = ap.Deneb
	case eth2spec.DataVersionElectra:
		el = ap.Electra
	case eth2spec.DataVersionFulu:
		el = ap.Fulu
	}
	switch {
	case ph != nil && ph.Message != nil && ph.Message.Aggregate != nil && ph.Message.Aggregate.Data != nil:
		return aggInfo{version: ap.Version, msgRoot: mustRoot(ph.Message.HashTreeRoot()), dataSlot: ph.Message.Aggregate.Data.Slot, aggregator: ph.Message.AggregatorIndex, sig: ph.Signature}, true
	case el != nil && el.Message != nil && el.Message.Aggregate != nil && el.Message.Aggregate.Data != nil:
		return aggInfo{version: ap.Version, msgRoot: mustRoot(el.Message.HashTreeRoot()), dataSlot: el.Message.Aggregate.Data.Slot, aggregator: el.Message.AggregatorIndex, sig: el.Signature}, true
	}
	return aggInfo{}, false
}

func aggKey(in aggInfo) string {
	return fmt.Sprintf("%s/msg %x/sig %x", in.version, in.msgRoot[:], in.sig[:])
}

func syncMsgKey(m *altair.SyncCommitteeMessage) string {
	return fmt.Sprintf("slot %d/root %x/val %d/sig %x", m.Slot, m.BeaconBlockRoot[:], m.ValidatorIndex, m.Signature[:])
}

func contribKey(s *altair.SignedContributionAndProof) string {
	root := mustRoot(s.Message.HashTreeRoot())
	return fmt.Sprintf("msg %x/sig %x", root[:], s.Signature[:])
}

func exitObjKey(x *eth2p0.SignedVoluntaryExit) string {
	root := mustRoot(x.Message.HashTreeRoot())
	return fmt.Sprintf("msg %x/sig %x", root[:], x.Signature[:])
}

// subOracle holds the oracles of the submission endpoints of a run.
type subOracle struct {
	c          *kernel.Ctx
	cl         *cluster.Cluster
	firstSlot  uint64
	nSlots     int
	beaconErrs bool

	isByz []bool

	mu            sync.Mutex
	calls         map[string]int    // injected endpoint failures per node and endpoint
	thresholdSets map[string]attSet // "<node>/<duty>/<pubkey>": the latest attester threshold set ParSigDB handed to SigAgg
}

// attSet is the composition of an attester threshold set in terms of the unsigned validator index of its partials.
type attSet struct {
	text      string // "share 2: 9999, share 1: none, share 3: 100" in the set's order
	honestNil int    // partials of honest nodes without a validator index (old-release nodes)
	honestIdx map[eth2p0.ValidatorIndex]int
}

func (s *subOracle) noteThresholdSet(node int, duty core.Duty, set map[core.PubKey][]core.ParSignedData) {
	if duty.Type != core.DutyAttester {
		return
	}
	for pk, sigs := range set {
		as := attSet{honestIdx: map[eth2p0.ValidatorIndex]int{}}
		for k, ps := range sigs {
			att, ok := ps.SignedData.(core.VersionedAttestation)
			if !ok {
				continue
			}
			honest := ps.ShareIdx >= 1 && ps.ShareIdx <= len(s.isByz) && !s.isByz[ps.ShareIdx-1]
			idx := "none"
			switch {
			case att.ValidatorIndex != nil:
				idx = fmt.Sprint(*att.ValidatorIndex)
				if honest {
					as.honestIdx[*att.ValidatorIndex]++
				}
			case honest:
				as.honestNil++
			}
			if k > 0 {
				as.text += ", "
			}
			as.text += fmt.Sprintf("share %d: %s", ps.ShareIdx, idx)
			if !honest {
				as.text += " (Byzantine node)"
			}
		}
		s.mu.Lock()
		s.thresholdSets[fmt.Sprintf("%d/%s/%s", node, duty, pk)] = as
		s.mu.Unlock()
	}
}

func (s *subOracle) valByIndex(i eth2p0.ValidatorIndex) *cluster.Validator {
	for _, v := range s.cl.Vals {
		if v.Index == i {
			return v
		}
	}
	return nil
}

// newCall records the set of a Broadcast call in the endpoints' terms, in a deterministic order.
func (s *subOracle) newCall(node int, duty core.Duty, set core.SignedDataSet) *bcastCall {
	call := &bcastCall{node: node, duty: duty}
	var pks []string
	for pk := range set {
		pks = append(pks, string(pk))
	}
	sort.Strings(pks)
	for _, p := range pks {
		pk := core.PubKey(p)
		e := &expected{pk: pk}
		for _, v := range s.cl.Vals {
			if v.CorePK == pk {
				e.val = v
			}
		}
		switch d := set[pk].(type) {
		case core.VersionedAttestation:
			a := d.VersionedAttestation
			key, _, _, ok := attKey(&a)
			if !ok {
				continue
			}
			e.kind, e.key = "attestation", key
			if a.ValidatorIndex != nil {
				vi := *a.ValidatorIndex
				e.valIdx = &vi
			} else if a.Version >= eth2spec.DataVersionElectra {
				verifrt.Probe("real-broadcast:input-electra-attestation-without-validator-index")
			}
		case core.VersionedSignedProposal:
			in, ok := unpackProposal(&d.VersionedSignedProposal)
			if !ok {
				continue
			}
			e.kind, e.key = "proposal", proposalKey(in)
		case core.VersionedSignedAggregateAndProof:
			in, ok := unpackAggAndProof(&d.VersionedSignedAggregateAndProof)
			if !ok {
				continue
			}
			e.kind, e.key = "aggregate-and-proof", aggKey(in)
		case core.SignedSyncMessage:
			m := d.SyncCommitteeMessage
			e.kind, e.key = "sync-message", syncMsgKey(&m)
		case core.SignedSyncContributionAndProof:
			x := d.SignedContributionAndProof
			if x.Message == nil || x.Message.Contribution == nil {
				continue
			}
			e.kind, e.key = "contribution-and-proof", contribKey(&x)
		case core.SignedVoluntaryExit:
			x := d.SignedVoluntaryExit
			if x.Message == nil {
				continue
			}
			e.kind, e.key = "exit", exitObjKey(&x)
		default:
			continue // not a type core/bcast submits
		}
		call.expect = append(call.expect, e)
	}
	return call
}

// match is oracle (s1): the submitted object is an entry of the call, not handed over before. It returns the entry.
func (s *subOracle) match(node int, call *bcastCall, kind, key, what string) *expected {
	if call == nil {
		s.c.Violate("C01", "submitted-not-aggregated", kind+"-submitted-outside-a-broadcast-call", "node %d: %s was handed to the beacon node outside any Broadcast call", node, what)
		return nil
	}
	call.mu.Lock()
	call.submitted++
	var hit, twice *expected
	for _, e := range call.expect {
		if e.kind != kind || e.key != key {
			continue
		}
		if e.used {
			twice = e
			continue
		}
		hit = e
		break
	}
	if hit != nil {
		hit.used = true
	}
	call.mu.Unlock()
	switch {
	case hit != nil:
		return hit
	case twice != nil:
		s.c.Violate("C01", "submitted-not-aggregated", kind+"-submitted-twice-in-one-broadcast-call", "node %d: Broadcast(%s) handed %s to the beacon node twice", node, call.duty, what)
	default:
		s.c.Violate("C01", "submitted-not-aggregated", kind+"-matches-no-object-of-the-broadcast-call", "node %d: Broadcast(%s) handed %s to the beacon node, which is none of the %d objects (signed object root + signature) the call was given", node, call.duty, what, len(call.expect))
	}
	return nil
}

// verify is oracle (s2).
func (s *subOracle) verify(node int, kind, what string, val *cluster.Validator, sr [32]byte, sig eth2p0.BLSSignature, entry *expected) {
	if err := tbls.Verify(val.PubKey, sr[:], tbls.Signature(sig)); err != nil {
		sigID := kind + "-signature-does-not-verify-under-the-attributed-validators-group-key"
		if entry != nil && entry.val != nil && entry.val != val && tbls.Verify(entry.val.PubKey, sr[:], tbls.Signature(sig)) == nil {
			sigID = kind + "-attributed-to-another-validator-than-the-signer"
		}
		s.c.Violate("C01", "submitted-invalid-group-signature", sigID, "node %d handed %s to its beacon node; the beacon node attributes it to validator %d, under whose group public key the signature does not verify for the object's own signing root: %v", node, what, val.Index, err)
	}
}

func (s *subOracle) unknownValidator(node int, kind, what string, idx eth2p0.ValidatorIndex) {
	s.c.Violate("C01", "unknown-validator", kind+"-submitted-for-validator-outside-cluster", "node %d handed %s to its beacon node, which names validator index %d, no cluster validator", node, what, idx)
}

func (s *subOracle) malformed(node int, kind string) {
	s.c.Violate("C01", "broadcast-type", "malformed-"+kind+"-submitted", "node %d handed an incomplete %s to its beacon node", node, kind)
}

// ---- the node's beacon client as core/bcast sees it --------------------------------------------------------

type submitBeacon struct {
	eth2wrap.Client // the node's beacon client (simbeacon): spec, genesis, domains
	s               *subOracle
	n               *cluster.Node
}

func (b *submitBeacon) ClientForAddress(string) eth2wrap.Client { return b }

// fail is the simulated beacon node's answer to a submission (after the objects were recorded): in runs with
// beacon errors the first two calls of an endpoint of a node fail sometimes with a retryable error (the
// production retryer calls Broadcast again).
func (b *submitBeacon) fail(endpoint string) error {
	s := b.s
	if !s.beaconErrs {
		return nil
	}
	k := fmt.Sprintf("%s/%s", b.n.Tag, endpoint)
	s.mu.Lock()
	if s.calls == nil {
		s.calls = map[string]int{}
	}
	s.calls[k]++
	n := s.calls[k]
	s.mu.Unlock()
	if n > 2 {
		return nil
	}
	switch verifrt.Intn("f", 8) {
	case 6:
		verifrt.Fault("beacon-error-submit:" + endpoint)
		return errors.New("simulated beacon node: submission not accepted yet (retryable)")
	case 7:
		if endpoint == "attestations" {
			verifrt.Fault("beacon-prior-attestation-known")
			return errors.New("simulated beacon node: 400 PriorAttestationKnown") // swallowed by core/bcast
		}
	}
	return nil
}

// CompleteValidators: all cluster validators, active since genesis (the validator cache of production holds
// exactly the cluster's validators).
func (b *submitBeacon) CompleteValidators(context.Context) (eth2wrap.CompleteValidators, error) {
	verifrt.Yield()
	out := eth2wrap.CompleteValidators{}
	for _, v := range b.s.cl.Vals {
		out[v.Index] = &eth2v1.Validator{Index: v.Index, Balance: 32_000_000_000, Status: eth2v1.ValidatorStateActiveOngoing, Validator: &eth2p0.Validator{
			PublicKey: eth2p0.BLSPubKey(v.PubKey), EffectiveBalance: 32_000_000_000, ActivationEpoch: 0, ExitEpoch: 1 << 62, WithdrawableEpoch: 1 << 62}}
	}
	return out, nil
}

// AttesterDuties answers from the chain model of the run: every cluster validator attests in every slot of the
// run (cluster.DefSet), so the duties of an epoch are one per requested cluster validator and run slot of that
// epoch, with the definition's committee values. Only the broadcaster's validator-index repair calls it.
func (b *submitBeacon) AttesterDuties(_ context.Context, opts *eth2api.AttesterDutiesOpts) (*eth2api.Response[[]*eth2v1.AttesterDuty], error) {
	verifrt.Yield()
	verifrt.Probe("bcast-repair:attester-duties-requested")
	if b.s.beaconErrs && verifrt.Intn("f", 6) == 5 {
		verifrt.Fault("beacon-error-attester-duties")
		return nil, errors.New("simulated beacon node: duties not ready (retryable)")
	}
	s, cl := b.s, b.s.cl
	asked := map[eth2p0.ValidatorIndex]bool{}
	for _, i := range opts.Indices {
		asked[i] = true
	}
	var data []*eth2v1.AttesterDuty
	for k := 0; k < s.nSlots; k++ {
		slot := s.firstSlot + uint64(k)
		if epochOf(cl, slot) != opts.Epoch {
			continue
		}
		for _, v := range cl.Vals {
			if !asked[v.Index] {
				continue
			}
			data = append(data, &eth2v1.AttesterDuty{PubKey: eth2p0.BLSPubKey(v.PubKey), Slot: eth2p0.Slot(slot), ValidatorIndex: v.Index,
				CommitteeIndex: v.Committee, CommitteeLength: 8, CommitteesAtSlot: 4, ValidatorCommitteeIndex: v.CommPos})
		}
	}
	return &eth2api.Response[[]*eth2v1.AttesterDuty]{Data: data, Metadata: map[string]any{}}, nil
}

func (b *submitBeacon) SubmitAttestations(ctx context.Context, opts *eth2api.SubmitAttestationsOpts) error {
	verifrt.Yield()
	call := callOf(ctx)
	for _, a := range opts.Attestations {
		b.s.onAttestation(b.n.Idx, call, a)
	}
	return b.fail("attestations")
}

func (b *submitBeacon) SubmitProposal(ctx context.Context, opts *eth2api.SubmitProposalOpts) error {
	verifrt.Yield()
	b.s.onProposal(b.n.Idx, callOf(ctx), opts.Proposal, false)
	return b.fail("proposal")
}

func (b *submitBeacon) SubmitBlindedProposal(ctx context.Context, opts *eth2api.SubmitBlindedProposalOpts) error {
	verifrt.Yield()
	var full *eth2api.VersionedSignedProposal
	if p := opts.Proposal; p != nil {
		// the blinded containers the run produces, read through the shapes of unpackProposal
		full = &eth2api.VersionedSignedProposal{Version: p.Version, Blinded: true, BellatrixBlinded: p.Bellatrix, CapellaBlinded: p.Capella, DenebBlinded: p.Deneb, ElectraBlinded: p.Electra, FuluBlinded: p.Fulu}
	}
	b.s.onProposal(b.n.Idx, callOf(ctx), full, true)
	return b.fail("blinded-proposal")
}

func (b *submitBeacon) SubmitVoluntaryExit(ctx context.Context, x *eth2p0.SignedVoluntaryExit) error {
	verifrt.Yield()
	b.s.onExit(b.n.Idx, callOf(ctx), x)
	return b.fail("exit")
}

func (b *submitBeacon) SubmitAggregateAttestations(ctx context.Context, opts *eth2api.SubmitAggregateAttestationsOpts) error {
	verifrt.Yield()
	call := callOf(ctx)
	for _, ap := range opts.SignedAggregateAndProofs {
		b.s.onAggAndProof(b.n.Idx, call, ap)
	}
	return b.fail("aggregate-attestations")
}

func (b *submitBeacon) SubmitSyncCommitteeMessages(ctx context.Context, msgs []*altair.SyncCommitteeMessage) error {
	verifrt.Yield()
	call := callOf(ctx)
	for _, m := range msgs {
		b.s.onSyncMsg(b.n.Idx, call, m)
	}
	return b.fail("sync-messages")
}

func (b *submitBeacon) SubmitSyncCommitteeContributions(ctx context.Context, cs []*altair.SignedContributionAndProof) error {
	verifrt.Yield()
	call := callOf(ctx)
	for _, x := range cs {
		b.s.onContribution(b.n.Idx, call, x)
	}
	return b.fail("sync-contributions")
}

func (b *submitBeacon) SubmitValidatorRegistrations(context.Context, []*eth2api.VersionedSignedValidatorRegistration) error {
	b.s.c.Violate("C01", "submitted-not-aggregated", "registrations-submitted-by-the-broadcaster", "node %d: the broadcaster handed validator registrations to the beacon node (Broadcast is a no-op for DutyBuilderRegistration)", b.n.Idx)
	return nil
}

// ---- the endpoints' oracles ----------------------------------------------------------------------------------

func (s *subOracle) onAttestation(node int, call *bcastCall, a *eth2spec.VersionedAttestation) {
	c, cl := s.c, s.cl
	c.Progress()
	key, data, sig, ok := attKey(a)
	if !ok {
		if call != nil {
			call.mu.Lock()
			call.submitted++
			call.mu.Unlock()
		}
		s.malformed(node, "attestation")
		return
	}
	isElectra := a.Version >= eth2spec.DataVersionElectra
	idxText := "none"
	if a.ValidatorIndex != nil {
		idxText = fmt.Sprint(*a.ValidatorIndex)
	}
	what := fmt.Sprintf("a %s attestation (slot %d, head %x, validator index %s, signature %x)", a.Version, data.Slot, data.BeaconBlockRoot[:3], idxText, sig[:4])
	if isElectra {
		verifrt.Probe("submitted:att-electra")
	} else {
		verifrt.Probe("submitted:att-deneb")
	}
	entry := s.match(node, call, "attestation", key, what)
	if entry != nil && isElectra {
		switch {
		case entry.valIdx != nil && (a.ValidatorIndex == nil || *a.ValidatorIndex != *entry.valIdx):
			// the (unsigned) index is not part of the signed object: once one attestation of a set lacks the index the
			// broadcaster's repair resolves ALL attestations of the set again, also those that came with one (a foreign
			// index is overwritten with the signer's). (s2) judges the index that is handed over, whoever set it
			verifrt.Probe("bcast-repair:validator-index-overwritten")
		case entry.valIdx == nil && a.ValidatorIndex != nil:
			verifrt.Probe("bcast-repair:validator-index-set")
		case entry.valIdx == nil:
			verifrt.Probe("bcast-repair:validator-index-left-nil")
		}
	}
	sr := attSigningRoot(cl, data)
	if isElectra {
		if a.ValidatorIndex == nil {
			// the eth2 client cannot build a SingleAttestation without the attester index: it logs and skips the
			// attestation, nothing reaches the beacon node
			verifrt.Probe("submitted:att-electra-without-validator-index")
			return
		}
		val := s.valByIndex(*a.ValidatorIndex)
		// whose signature it is: the validator of the call's entry (the recorder's oracle (i) verified it there)
		signer := (*cluster.Validator)(nil)
		if entry != nil && entry.val != nil && entry.val != val && tbls.Verify(entry.val.PubKey, sr[:], tbls.Signature(sig)) == nil {
			signer = entry.val
		}
		if signer != nil && signer != val {
			// the beacon node verifies a SingleAttestation under the key of its attester_index
			sigID := "electra-attestation-validator-index-set-by-the-broadcaster-names-another-validator-than-the-signer"
			setText := ""
			if entry.valIdx != nil && *entry.valIdx == *a.ValidatorIndex {
				// the aggregate already carried it: SigAgg took the object from a partial with this index
				sigID = "electra-attestation-aggregated-with-a-foreign-validator-index-handed-to-the-beacon-node"
				s.mu.Lock()
				as, ok := s.thresholdSets[fmt.Sprintf("%d/%s/%s", node, call.duty, entry.pk)]
				s.mu.Unlock()
				if ok {
					setText = "; partial signatures aggregated (validator index each carried): " + as.text
					if as.honestNil > 0 {
						// honest partials of old-release nodes carry no index: the foreign one had no or fewer competitors
						sigID += "-while-honest-partials-carry-none"
					}
				}
			}
			c.Violate("C01", "submitted-invalid-group-signature", sigID, "node %d handed %s to its beacon node: the signature is validator %d's group signature over this data, but the object names validator index %d (cluster validator: %v), under whose key the beacon node verifies it%s", node, what, signer.Index, *a.ValidatorIndex, val != nil, setText)
			return
		}
		if val == nil {
			s.unknownValidator(node, "attestation", what, *a.ValidatorIndex)
			return
		}
		s.verify(node, "attestation", what, val, sr, sig, entry)
		if ci, err := a.CommitteeIndex(); err != nil || ci != val.Committee {
			verifrt.Probe("submitted-attestation-with-foreign-unsigned-committee")
		}
		return
	}
	// before Electra the beacon node finds the attester through data.index and the aggregation bit
	bits, _ := a.AggregationBits()
	var val *cluster.Validator
	if idx := bits.BitIndices(); len(idx) == 1 {
		for _, v := range cl.Vals {
			if v.Committee == data.Index && v.CommPos == uint64(idx[0]) {
				val = v
			}
		}
	}
	if entry != nil && entry.val != nil && entry.val != val && tbls.Verify(entry.val.PubKey, sr[:], tbls.Signature(sig)) == nil {
		sigID := "pre-electra-attestation-attributed-to-another-validator-than-the-signer"
		if cur.electra {
			// the (unsigned) container of an aggregate comes from one of the partials: Electra data (index 0) in a
			// Deneb container is attributed through committee 0
			sigID = "electra-data-aggregated-in-a-pre-electra-container-attributed-to-another-validator-than-the-signer"
		}
		c.Violate("C01", "submitted-invalid-group-signature", sigID, "node %d handed %s to its beacon node: the signature is validator %d's group signature over this data, but committee %d and aggregation bits %x name another attester (cluster validator: %v)", node, what, entry.val.Index, data.Index, []byte(bits), val != nil)
		return
	}
	if val == nil {
		c.Violate("C01", "unknown-validator", "attestation-submitted-for-validator-outside-cluster", "node %d handed %s to its beacon node; committee %d and aggregation bits %x belong to no cluster validator", node, what, data.Index, []byte(bits))
		return
	}
	s.verify(node, "attestation", what, val, sr, sig, entry)
}

func (s *subOracle) onProposal(node int, call *bcastCall, p *eth2api.VersionedSignedProposal, blindedEndpoint bool) {
	s.c.Progress()
	kind := "proposal"
	var (
		in blockInfo
		ok bool
	)
	if p != nil {
		in, ok = unpackProposal(p)
	}
	if !ok {
		if call != nil {
			call.mu.Lock()
			call.submitted++
			call.mu.Unlock()
		}
		s.malformed(node, kind)
		return
	}
	verifrt.Probe("submitted:proposal-" + in.shape)
	what := fmt.Sprintf("a %s block (slot %d, root %x, proposer %d, signature %x)", in.shape, in.slot, in.root[:4], in.proposer, in.sig[:4])
	if blindedEndpoint != (in.shape == "capella-blinded") {
		s.c.Violate("C01", "submitted-not-aggregated", "proposal-submitted-to-the-wrong-endpoint", "node %d handed %s to the beacon node's %s endpoint", node, what, map[bool]string{false: "full block", true: "blinded block"}[blindedEndpoint])
	}
	entry := s.match(node, call, kind, proposalKey(in), what)
	val := s.valByIndex(in.proposer)
	if val == nil {
		s.unknownValidator(node, kind, what, in.proposer)
		return
	}
	s.verify(node, kind, what, val, proposerSigningRoot(s.cl, in.slot, in.root), in.sig, entry)
}

func (s *subOracle) onAggAndProof(node int, call *bcastCall, ap *eth2spec.VersionedSignedAggregateAndProof) {
	s.c.Progress()
	kind := "aggregate-and-proof"
	in, ok := unpackAggAndProof(ap)
	if !ok {
		if call != nil {
			call.mu.Lock()
			call.submitted++
			call.mu.Unlock()
		}
		s.malformed(node, kind)
		return
	}
	verifrt.Probe("submitted:aggregate-and-proof")
	what := fmt.Sprintf("a %s aggregate and proof (slot %d, message %x, aggregator %d, signature %x)", in.version, in.dataSlot, in.msgRoot[:4], in.aggregator, in.sig[:4])
	entry := s.match(node, call, kind, aggKey(in), what)
	val := s.valByIndex(in.aggregator)
	if val == nil {
		s.unknownValidator(node, kind, what, in.aggregator)
		return
	}
	s.verify(node, kind, what, val, aggAndProofSigningRoot(s.cl, in.dataSlot, in.msgRoot), in.sig, entry)
}

func (s *subOracle) onSyncMsg(node int, call *bcastCall, m *altair.SyncCommitteeMessage) {
	s.c.Progress()
	kind := "sync-message"
	if m == nil {
		if call != nil {
			call.mu.Lock()
			call.submitted++
			call.mu.Unlock()
		}
		s.malformed(node, kind)
		return
	}
	verifrt.Probe("submitted:sync-message")
	what := fmt.Sprintf("a sync committee message (slot %d, root %x, validator %d, signature %x)", m.Slot, m.BeaconBlockRoot[:3], m.ValidatorIndex, m.Signature[:4])
	entry := s.match(node, call, kind, syncMsgKey(m), what)
	val := s.valByIndex(m.ValidatorIndex)
	if val == nil {
		s.unknownValidator(node, kind, what, m.ValidatorIndex)
		return
	}
	s.verify(node, kind, what, val, specSigningRoot(s.cl, "DOMAIN_SYNC_COMMITTEE", epochOf(s.cl, uint64(m.Slot)), m.BeaconBlockRoot), m.Signature, entry)
}

func (s *subOracle) onContribution(node int, call *bcastCall, x *altair.SignedContributionAndProof) {
	s.c.Progress()
	kind := "contribution-and-proof"
	if x == nil || x.Message == nil || x.Message.Contribution == nil {
		if call != nil {
			call.mu.Lock()
			call.submitted++
			call.mu.Unlock()
		}
		s.malformed(node, kind)
		return
	}
	verifrt.Probe("submitted:contribution-and-proof")
	ct := x.Message.Contribution
	what := fmt.Sprintf("a contribution and proof (slot %d, subcommittee %d, head %x, aggregator %d, signature %x)", ct.Slot, ct.SubcommitteeIndex, ct.BeaconBlockRoot[:3], x.Message.AggregatorIndex, x.Signature[:4])
	entry := s.match(node, call, kind, contribKey(x), what)
	val := s.valByIndex(x.Message.AggregatorIndex)
	if val == nil {
		s.unknownValidator(node, kind, what, x.Message.AggregatorIndex)
		return
	}
	s.verify(node, kind, what, val, contribAndProofSigningRoot(s.cl, x.Message), x.Signature, entry)
}

func (s *subOracle) onExit(node int, call *bcastCall, x *eth2p0.SignedVoluntaryExit) {
	s.c.Progress()
	kind := "exit"
	if x == nil || x.Message == nil {
		if call != nil {
			call.mu.Lock()
			call.submitted++
			call.mu.Unlock()
		}
		s.malformed(node, kind)
		return
	}
	verifrt.Probe("submitted:exit")
	what := fmt.Sprintf("a voluntary exit (validator %d, epoch %d, signature %x)", x.Message.ValidatorIndex, x.Message.Epoch, x.Signature[:4])
	entry := s.match(node, call, kind, exitObjKey(x), what)
	val := s.valByIndex(x.Message.ValidatorIndex)
	if val == nil {
		s.unknownValidator(node, kind, what, x.Message.ValidatorIndex)
		return
	}
	s.verify(node, kind, what, val, exitSigningRoot(s.cl, x.Message), x.Signature, entry)
}

// ---- Byzantine: valid partials over the decided attestation data with a foreign carrier --------------------------

// byzantineDecidedAtt (Electra runs, half of the Byzantine nodes and slots): the node waits for the cluster's
// decision like its honest stack does and at once sends its - valid - partial signature over the DECIDED
// attestation data, the same message root as every honest partial, with an unsigned validator index that is
// missing (what the old releases sent) or names another validator, or with other (unsigned) committee bits. core/sigagg takes the aggregate's carrier
// object from the first partial that has a validator index.
func byzantineDecidedAtt(ctx context.Context, cl *cluster.Cluster, i int, slot uint64) {
	n := cl.Nodes[i]
	if !cur.electra || n == nil || verifrt.Intn("a", 2) == 0 {
		return
	}
	for k, v := range cl.Vals {
		k, v := k, v
		mode := verifrt.Intn("a", 4)
		verifrt.Go(func() {
			data, err := n.DutyDB.AwaitAttestation(n.Ctx, slot, uint64(v.Committee))
			if err != nil || ctx.Err() != nil || data == nil {
				return
			}
			att := signAtt(cl, v.Shares[i+1], v, data, true)
			name := ""
			switch mode {
			case 0:
				name = "decided-data-without-validator-index"
				att.ValidatorIndex = nil
			case 1:
				name = "decided-data-other-validators-index"
				vi := cl.Vals[(k+1)%len(cl.Vals)].Index
				if vi == v.Index {
					vi = v.Index + 1 // a validator outside the cluster
				}
				att.ValidatorIndex = &vi
			case 2:
				name = "decided-data-unknown-validator-index"
				vi := eth2p0.ValidatorIndex(9999)
				att.ValidatorIndex = &vi
			case 3:
				name = "decided-data-other-committee-bits" // the committee is not part of the signed data either
				att.Electra.CommitteeBits = bitfield.NewBitvector64()
				att.Electra.CommitteeBits.SetBitAt(uint64(v.Committee)+1, true)
			}
			ps, err := core.NewPartialVersionedAttestation(att, i+1)
			if err != nil {
				panic(err)
			}
			inject(cl, i, "byz:att:"+name, []*pbv1.ParSigExMsg{parSigMsg(core.NewAttesterDuty(slot), v.CorePK, ps)}, false)
		})
	}
}

// ---- batching validator clients ---------------------------------------------------------------------------------

func batchVC(cl *cluster.Cluster) bool { return cur.batch && len(cl.Vals) > 1 }

// attestBatch is node i's validator client of a batching run for one attester slot: the agreed data of every
// validator, signed with the node's shares, in ONE SubmitAttestations call (slow / absent / repeated like runVC's callers).
func attestBatch(cl *cluster.Cluster, n *cluster.Node, i int, slot uint64) {
	mode := verifrt.Intn("w", 8)
	if mode == 7 {
		verifrt.Fault("vc-absent")
		return
	}
	submit := func() error {
		var atts []*eth2spec.VersionedAttestation
		for _, v := range cl.Vals {
			comm := v.Committee
			if cur.electra && verifrt.Intn("w", 3) != 2 {
				comm = 0 // Electra validator clients ask for committee index 0; some still ask for their own committee
			}
			resp, err := n.VAPI.AttestationData(n.Ctx, &eth2api.AttestationDataOpts{Slot: eth2p0.Slot(slot), CommitteeIndex: comm})
			if err != nil {
				return err
			}
			if cur.electra {
				atts = append(atts, signAtt(cl, v.Shares[n.Idx+1], v, resp.Data, true))
			} else {
				atts = append(atts, cl.SignAttestation(v.Shares[n.Idx+1], v, resp.Data))
			}
		}
		return n.VAPI.SubmitAttestations(n.Ctx, &eth2api.SubmitAttestationsOpts{Attestations: atts})
	}
	verifrt.Go(func() {
		if mode == 6 {
			verifrt.Fault("vc-slow")
			verifrt.Sleep(time.Duration(1+verifrt.Intn("w", 8)) * time.Second)
		}
		err := submit()
		verifrt.Note("n%d vc slot %d batch of %d err=%v", i, slot, len(cl.Vals), err != nil)
		if err == nil {
			verifrt.Probe("vc-batch:attestations")
		}
		if err == nil && mode == 5 {
			verifrt.Fault("vc-duplicate-submission")
			_ = submit()
		}
	})
}

// syncMessagesBatch: the sync committee messages of all validators of node i's client in one call.
func syncMessagesBatch(cl *cluster.Cluster, n *cluster.Node, i int, slot uint64) {
	verifrt.Sleep(time.Duration(verifrt.Intn("w", 400)) * time.Millisecond)
	view := 0
	if cl.View != nil {
		view = cl.View(i, slot)
	}
	var msgs []*altair.SyncCommitteeMessage
	for _, v := range cl.Vals {
		msgs = append(msgs, syncMessage(cl, v, slot, slot, headRoot(slot, view), v.Shares[i+1]))
	}
	err := n.VAPI.SubmitSyncCommitteeMessages(n.Ctx, msgs)
	verifrt.Note("n%d vc sync-msg slot %d batch of %d view %d err=%v", i, slot, len(msgs), view, err != nil)
	if err == nil {
		verifrt.Probe("vc-batch:sync-messages")
	}
}

// aggregatesBatch: the SignedAggregateAndProofs of all validators of node i's client (for which the node returned an
// aggregated selection proof) in one SubmitAggregateAttestations call.
func aggregatesBatch(cl *cluster.Cluster, n *cluster.Node, i int, slot uint64, sels []*eth2v1.BeaconCommitteeSelection, mode int) {
	submit := func() error {
		var signed []*eth2spec.VersionedSignedAggregateAndProof
		for _, v := range cl.Vals {
			var proof *eth2p0.BLSSignature
			for _, s := range sels {
				if s.ValidatorIndex == v.Index && uint64(s.Slot) == slot {
					proof = &s.SelectionProof
				}
			}
			if proof == nil {
				continue
			}
			comm := v.Committee
			if cur.electra && verifrt.Intn("w", 2) == 0 {
				comm = 0
			}
			dresp, err := n.VAPI.AttestationData(n.Ctx, &eth2api.AttestationDataOpts{Slot: eth2p0.Slot(slot), CommitteeIndex: comm})
			if err != nil {
				return err
			}
			root, err := dresp.Data.HashTreeRoot()
			if err != nil {
				return err
			}
			aresp, err := n.VAPI.AggregateAttestation(n.Ctx, &eth2api.AggregateAttestationOpts{Slot: eth2p0.Slot(slot), AttestationDataRoot: root, CommitteeIndex: v.Committee})
			if err != nil {
				return err
			}
			agg := aresp.Data
			if (cur.electra && (agg.Version != eth2spec.DataVersionElectra || agg.Electra == nil)) || (!cur.electra && (agg.Version != eth2spec.DataVersionDeneb || agg.Deneb == nil)) {
				return errors.New("validator client: unexpected aggregate version")
			}
			signed = append(signed, signedAggAndProof(cl, v.Shares[n.Idx+1], v, agg, *proof))
		}
		if len(signed) == 0 {
			return errors.New("validator client: no selection proofs")
		}
		return n.VAPI.SubmitAggregateAttestations(n.Ctx, &eth2api.SubmitAggregateAttestationsOpts{SignedAggregateAndProofs: signed})
	}
	verifrt.Go(func() {
		verifrt.Sleep(time.Duration(verifrt.Intn("w", 400)) * time.Millisecond)
		err := submit()
		verifrt.Note("n%d vc aggregate slot %d batch err=%v", i, slot, err != nil)
		if err == nil {
			verifrt.Probe("vc-batch:aggregates")
		}
		if err == nil && mode == 5 {
			verifrt.Fault("vc-duplicate-aggregate")
			_ = submit()
		}
	})
}
