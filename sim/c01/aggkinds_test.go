//go:build verif

package c01

// The two aggregation pipelines as further seeded duty kinds of a C01 run:
//
//	DutyPrepareAggregator -> DutyAggregator              (beacon committee selections -> aggregate attestation -> SignedAggregateAndProof)
//	DutyPrepareSyncContribution -> DutySyncContribution  (sync committee selections -> contribution -> SignedContributionAndProof)
//
// What the harness restates from the consensus specification (phase0/altair validator.md; NOT from
// core/eth2signeddata.go) for the objects it signs as a validator client and checks at the broadcaster:
//
//	object                      domain                                   epoch of the fork version                   signed object root
//	slot signature              DOMAIN_SELECTION_PROOF                   compute_epoch_at_slot(slot)                 hash_tree_root(uint64 slot)
//	AggregateAndProof           DOMAIN_AGGREGATE_AND_PROOF               compute_epoch_at_slot(aggregate.data.slot)  hash_tree_root(AggregateAndProof)
//	sync selection proof        DOMAIN_SYNC_COMMITTEE_SELECTION_PROOF    compute_epoch_at_slot(slot)                 hash_tree_root(SyncAggregatorSelectionData{slot, subcommittee_index})
//	ContributionAndProof        DOMAIN_CONTRIBUTION_AND_PROOF            compute_epoch_at_slot(contribution.slot)    hash_tree_root(ContributionAndProof)
//
// is_aggregator: hash(slot_signature)[0:8] % max(1, committee_len / TARGET_AGGREGATORS_PER_COMMITTEE) == 0; the
// simulated beacon nodes serve TARGET_AGGREGATORS_PER_COMMITTEE = 16 with committees of 8, and
// SYNC_COMMITTEE_SIZE 512 / SYNC_COMMITTEE_SUBNET_COUNT 4 / TARGET_AGGREGATORS_PER_SYNC_SUBCOMMITTEE 128, so the
// modulo is 1 and every cluster validator is an aggregator of its committee and of its sync subcommittees.

import (
	"context"
	"fmt"
	"time"

	"github.com/OffchainLabs/go-bitfield"
	eth2api "github.com/attestantio/go-eth2-client/api"
	eth2v1 "github.com/attestantio/go-eth2-client/api/v1"
	eth2spec "github.com/attestantio/go-eth2-client/spec"
	"github.com/attestantio/go-eth2-client/spec/altair"
	"github.com/attestantio/go-eth2-client/spec/electra"
	eth2p0 "github.com/attestantio/go-eth2-client/spec/phase0"

	"github.com/obolnetwork/charon/app/errors"
	"github.com/obolnetwork/charon/core"
	pbv1 "github.com/obolnetwork/charon/core/corepb/v1"
	"github.com/obolnetwork/charon/tbls"
	"github.com/obolnetwork/charon/verifrt"

	"verifsim/cluster"
	"verifsim/kernel"
)

// aggPlan is the per-run choice of the aggregation pipelines (part of plan).
type aggPlan struct {
	aggregator  bool // the aggregator pipeline runs for all validators in aggSlot
	aggSlot     uint64
	contrib     bool // the sync contribution pipeline runs for all validators in contribSlot (needs sync messages)
	contribSlot uint64
	twoSubcomms bool  // validator 0 sits in two sync subcommittees
	av          []int // per node: which of three "aggregation views" its beacon node has (aggregate/contribution content)

	servedAgg     map[eth2p0.Root]string // hash_tree_root(aggregate attestation) a beacon node served -> "n<i>/av<k>"
	servedContrib map[eth2p0.Root]string // hash_tree_root(contribution) a beacon node served -> "n<i>/av<k>"
	groupSigs     map[string]eth2p0.BLSSignature
}

// chooseAggKinds draws the aggregation pipelines from "cfg" (tape value 0 = off). Both are additional to the
// kinds drawn before, none of which becomes rarer; a contribution run switches sync messages on.
func chooseAggKinds(cl *cluster.Cluster, pl *plan, startSlot uint64, nSlots int, syncMsgs *bool) {
	pl.servedAgg, pl.servedContrib, pl.groupSigs = map[eth2p0.Root]string{}, map[eth2p0.Root]string{}, map[string]eth2p0.BLSSignature{}
	pl.aggregator = verifrt.Intn("cfg", 3) == 2
	if pl.aggregator {
		pl.aggSlot = startSlot + uint64(verifrt.Intn("cfg", nSlots))
		verifrt.Probe("enabled:aggregator")
	}
	pl.contrib = verifrt.Intn("cfg", 4) == 3
	if pl.contrib {
		*syncMsgs = true
		pl.contribSlot = startSlot + uint64(verifrt.Intn("cfg", nSlots))
		pl.twoSubcomms = verifrt.Intn("cfg", 2) == 1
		verifrt.Probe("enabled:sync_contribution")
	}
	pl.av = make([]int, cl.Cfg.N)
	if pl.aggregator || pl.contrib {
		for i := range pl.av {
			pl.av[i] = verifrt.Intn("w", 3)
		}
	}
}

// ---- spec formulas ---------------------------------------------------------------------------------

func selectionSigningRoot(cl *cluster.Cluster, slot uint64) [32]byte {
	return specSigningRoot(cl, "DOMAIN_SELECTION_PROOF", epochOf(cl, slot), htrUint64(slot))
}

func syncSelectionSigningRoot(cl *cluster.Cluster, slot, subcomm uint64) [32]byte {
	root, err := (&altair.SyncAggregatorSelectionData{Slot: eth2p0.Slot(slot), SubcommitteeIndex: subcomm}).HashTreeRoot()
	if err != nil {
		panic(err)
	}
	return specSigningRoot(cl, "DOMAIN_SYNC_COMMITTEE_SELECTION_PROOF", epochOf(cl, slot), root)
}

// aggAndProofSigningRoot: DOMAIN_AGGREGATE_AND_PROOF at the epoch of aggregate.data.slot over hash_tree_root(AggregateAndProof).
func aggAndProofSigningRoot(cl *cluster.Cluster, dataSlot eth2p0.Slot, msgRoot eth2p0.Root) [32]byte {
	return specSigningRoot(cl, "DOMAIN_AGGREGATE_AND_PROOF", epochOf(cl, uint64(dataSlot)), msgRoot)
}

func contribAndProofSigningRoot(cl *cluster.Cluster, cp *altair.ContributionAndProof) [32]byte {
	root, err := cp.HashTreeRoot()
	if err != nil {
		panic(err)
	}
	return specSigningRoot(cl, "DOMAIN_CONTRIBUTION_AND_PROOF", epochOf(cl, uint64(cp.Contribution.Slot)), root)
}

// groupSig is THE signature of validator v's group key over a signing root (BLS signatures are unique: any
// threshold of valid partials aggregates to exactly this value); cached per run.
func (p *plan) groupSig(v *cluster.Validator, what string, sr [32]byte) eth2p0.BLSSignature {
	key := fmt.Sprintf("%d/%s/%x", v.Index, what, sr[:8])
	p.mu.Lock()
	s, ok := p.groupSigs[key]
	p.mu.Unlock()
	if ok {
		return s
	}
	s = signRoot(v.Secret, sr)
	p.mu.Lock()
	p.groupSigs[key] = s
	p.mu.Unlock()
	return s
}

func (p *plan) groupSelection(cl *cluster.Cluster, v *cluster.Validator, slot uint64) eth2p0.BLSSignature {
	return p.groupSig(v, "sel", selectionSigningRoot(cl, slot))
}

func (p *plan) groupSyncSelection(cl *cluster.Cluster, v *cluster.Validator, slot, subcomm uint64) eth2p0.BLSSignature {
	return p.groupSig(v, "syncsel", syncSelectionSigningRoot(cl, slot, subcomm))
}

// ---- what the beacon nodes of the run serve ---------------------------------------------------------

// aggSpec are the spec values the aggregation selection rules read (see the header comment).
var aggSpec = map[string]any{
	"TARGET_AGGREGATORS_PER_COMMITTEE":         uint64(16),
	"SYNC_COMMITTEE_SIZE":                      uint64(512),
	"SYNC_COMMITTEE_SUBNET_COUNT":              uint64(4),
	"TARGET_AGGREGATORS_PER_SYNC_SUBCOMMITTEE": uint64(128),
}

const syncSubcommSize = 512 / 4

// servedAttData is the attestation data a beacon node of a view serves in this run's attestation format.
func servedAttData(cl *cluster.Cluster, view int, slot eth2p0.Slot, comm eth2p0.CommitteeIndex) *eth2p0.AttestationData {
	if cur.electra {
		return electraData(cl, view, slot, comm)
	}
	return cl.AttData(view, slot, comm)
}

// viewAggregate is the aggregate attestation a beacon node with aggregation view av holds for data of
// committee comm: the views differ in which committee members they have seen (bits) and so in the signature.
func viewAggregate(av int, data *eth2p0.AttestationData, comm eth2p0.CommitteeIndex, asElectra bool) *eth2spec.VersionedAttestation {
	bits := bitfield.NewBitlist(8)
	bits.SetBitAt(uint64(av%8), true)
	bits.SetBitAt(uint64((av+3)%8), true)
	bits.SetBitAt(7, true)
	sig := sigOf(0xa9, uint64(av)*131+uint64(data.Slot)*7+uint64(comm))
	if !asElectra {
		return &eth2spec.VersionedAttestation{Version: eth2spec.DataVersionDeneb, Deneb: &eth2p0.Attestation{AggregationBits: bits, Data: data, Signature: sig}}
	}
	cbits := bitfield.NewBitvector64()
	cbits.SetBitAt(uint64(comm), true)
	return &eth2spec.VersionedAttestation{Version: eth2spec.DataVersionElectra,
		Electra: &electra.Attestation{AggregationBits: bits, Data: data, Signature: sig, CommitteeBits: cbits}}
}

func aggregateRoot(a *eth2spec.VersionedAttestation) eth2p0.Root {
	var (
		r   [32]byte
		err error
	)
	if a.Electra != nil {
		r, err = a.Electra.HashTreeRoot()
	} else {
		r, err = a.Deneb.HashTreeRoot()
	}
	if err != nil {
		panic(err)
	}
	return r
}

// viewContribution is the sync committee contribution a beacon node with aggregation view av holds.
func viewContribution(av int, slot, subcomm uint64, root eth2p0.Root) *altair.SyncCommitteeContribution {
	c := &altair.SyncCommitteeContribution{Slot: eth2p0.Slot(slot), BeaconBlockRoot: root, SubcommitteeIndex: subcomm,
		AggregationBits: bitfield.NewBitvector128(), Signature: sigOf(0xc5, uint64(av)*17+slot*3+subcomm)}
	c.AggregationBits.SetBitAt(uint64(av), true)
	c.AggregationBits.SetBitAt(uint64(40+av*9), true)
	c.AggregationBits.SetBitAt(127, true)
	return c
}

// subcommsOf are the sync subcommittees of validator k (its position in cl.Vals) and its sync committee indices.
func subcommsOf(p *plan, k int) (subs []uint64, indices []eth2p0.CommitteeIndex) {
	subs = []uint64{uint64(k % 2)}
	indices = []eth2p0.CommitteeIndex{eth2p0.CommitteeIndex(uint64(k%2)*syncSubcommSize + 5 + uint64(k))}
	if k == 0 && p.twoSubcomms {
		subs = append(subs, 3)
		indices = append(indices, 3*syncSubcommSize+7, 3*syncSubcommSize+90) // two seats in subcommittee 3
	}
	return subs, indices
}

func valPos(cl *cluster.Cluster, v *cluster.Validator) int {
	for k, x := range cl.Vals {
		if x == v {
			return k
		}
	}
	panic("validator not of this cluster")
}

func syncDefSet(cl *cluster.Cluster, p *plan) core.DutyDefinitionSet {
	set := core.DutyDefinitionSet{}
	for k, v := range cl.Vals {
		_, idx := subcommsOf(p, k)
		set[v.CorePK] = core.NewSyncCommitteeDefinition(&eth2v1.SyncCommitteeDuty{PubKey: eth2p0.BLSPubKey(v.PubKey), ValidatorIndex: v.Index, ValidatorSyncCommitteeIndices: idx})
	}
	return set
}

// installAggBeacon makes node n's beacon node serve the aggregation endpoints and spec values.
func installAggBeacon(cl *cluster.Cluster, p *plan, n *cluster.Node, beaconErrs bool) {
	if !p.aggregator && !p.contrib {
		return
	}
	n.Beacon.SpecExtra = aggSpec
	aggCalls, contribCalls := 0, 0
	n.Beacon.AggregateAttestationFn = func(_ context.Context, opts *eth2api.AggregateAttestationOpts) (*eth2spec.VersionedAttestation, error) {
		aggCalls++
		if beaconErrs && aggCalls == 1 {
			switch verifrt.Intn("f", 4) {
			case 1:
				verifrt.Fault("beacon-error-aggregate")
				return nil, errors.New("simulated beacon timeout: context deadline exceeded")
			case 2:
				verifrt.Fault("beacon-aggregate-not-found")
				return nil, nil // "not found": the fetcher turns it into a retryable error
			}
		}
		var data *eth2p0.AttestationData
		for view := 0; view < 3 && data == nil; view++ {
			d := servedAttData(cl, view, opts.Slot, opts.CommitteeIndex)
			if r, _ := d.HashTreeRoot(); r == opts.AttestationDataRoot {
				data = d
			}
		}
		if data == nil {
			return nil, nil // this beacon node knows no attestation with that data
		}
		agg := viewAggregate(p.av[n.Idx], data, opts.CommitteeIndex, cur.electra)
		root := aggregateRoot(agg)
		p.mu.Lock()
		if _, ok := p.servedAgg[root]; !ok {
			p.servedAgg[root] = fmt.Sprintf("n%d/av%d", n.Idx, p.av[n.Idx])
		}
		p.mu.Unlock()
		verifrt.Note("n%d beacon aggregate slot %d comm %d av %d root %x", n.Idx, opts.Slot, opts.CommitteeIndex, p.av[n.Idx], root[:4])
		return agg, nil
	}
	n.Beacon.SyncCommitteeContributionFn = func(_ context.Context, opts *eth2api.SyncCommitteeContributionOpts) (*altair.SyncCommitteeContribution, error) {
		contribCalls++
		if beaconErrs && contribCalls == 1 {
			switch verifrt.Intn("f", 4) {
			case 1:
				verifrt.Fault("beacon-error-contribution")
				return nil, errors.New("simulated beacon timeout: context deadline exceeded")
			case 2:
				verifrt.Fault("beacon-contribution-not-found")
				return nil, nil
			}
		}
		known := false
		for view := 0; view < 3; view++ {
			if opts.BeaconBlockRoot == headRoot(uint64(opts.Slot), view) {
				known = true
			}
		}
		if !known {
			return nil, nil
		}
		ct := viewContribution(p.av[n.Idx], uint64(opts.Slot), opts.SubcommitteeIndex, opts.BeaconBlockRoot)
		root, err := ct.HashTreeRoot()
		if err != nil {
			panic(err)
		}
		p.mu.Lock()
		if _, ok := p.servedContrib[root]; !ok {
			p.servedContrib[root] = fmt.Sprintf("n%d/av%d", n.Idx, p.av[n.Idx])
		}
		p.mu.Unlock()
		verifrt.Note("n%d beacon contribution slot %d subcomm %d av %d root %x", n.Idx, opts.Slot, opts.SubcommitteeIndex, p.av[n.Idx], root[:4])
		return ct, nil
	}
}

// ---- validator clients -------------------------------------------------------------------------------

// signedAggAndProof builds the SignedAggregateAndProof of this run's format for an aggregate, signed with key.
func signedAggAndProof(cl *cluster.Cluster, key tbls.PrivateKey, v *cluster.Validator, agg *eth2spec.VersionedAttestation, proof eth2p0.BLSSignature) *eth2spec.VersionedSignedAggregateAndProof {
	if agg.Electra != nil {
		msg := &electra.AggregateAndProof{AggregatorIndex: v.Index, Aggregate: agg.Electra, SelectionProof: proof}
		root, err := msg.HashTreeRoot()
		if err != nil {
			panic(err)
		}
		return &eth2spec.VersionedSignedAggregateAndProof{Version: eth2spec.DataVersionElectra,
			Electra: &electra.SignedAggregateAndProof{Message: msg, Signature: signRoot(key, aggAndProofSigningRoot(cl, agg.Electra.Data.Slot, root))}}
	}
	msg := &eth2p0.AggregateAndProof{AggregatorIndex: v.Index, Aggregate: agg.Deneb, SelectionProof: proof}
	root, err := msg.HashTreeRoot()
	if err != nil {
		panic(err)
	}
	return &eth2spec.VersionedSignedAggregateAndProof{Version: eth2spec.DataVersionDeneb,
		Deneb: &eth2p0.SignedAggregateAndProof{Message: msg, Signature: signRoot(key, aggAndProofSigningRoot(cl, agg.Deneb.Data.Slot, root))}}
}

func signedContribAndProof(cl *cluster.Cluster, key tbls.PrivateKey, v *cluster.Validator, ct *altair.SyncCommitteeContribution, proof eth2p0.BLSSignature) *altair.SignedContributionAndProof {
	msg := &altair.ContributionAndProof{AggregatorIndex: v.Index, Contribution: ct, SelectionProof: proof}
	return &altair.SignedContributionAndProof{Message: msg, Signature: signRoot(key, contribAndProofSigningRoot(cl, msg))}
}

func sleepUntil(t time.Time) {
	if d := time.Until(t); d > 0 {
		verifrt.Sleep(d)
	}
}

// aggregatorAt is node i's part of the aggregator pipeline of the run: its validator client asks for the
// aggregated slot signatures at the start of the slot, the scheduler triggers DutyAggregator at 2/3 of the
// slot, the validator client then fetches the agreed aggregate, signs the AggregateAndProof and submits it.
func aggregatorAt(ctx context.Context, cl *cluster.Cluster, i int, byz bool) {
	p, n := cur, cl.Nodes[i]
	slot := p.aggSlot
	trigger := cl.SlotStart(slot).Add(2 * cl.Cfg.SlotDuration / 3)
	if !time.Now().Before(trigger) {
		return
	}
	sleepUntil(cl.SlotStart(slot))
	jitter := time.Duration(verifrt.Intn("w", 4))
	mode := verifrt.Intn("w", 8)
	verifrt.Go(func() {
		sleepUntil(trigger.Add(jitter * jitter * 40 * time.Millisecond))
		n.Sched.Trigger(n.Ctx, core.NewAggregatorDuty(slot), cl.DefSet(slot))
	})
	if byz {
		verifrt.Go(func() { byzantineAggregator(ctx, cl, i) })
	}
	if mode == 7 {
		verifrt.Fault("vc-absent-aggregator")
		return
	}
	if mode == 6 {
		verifrt.Fault("vc-slow-aggregator")
		verifrt.Sleep(time.Duration(200+verifrt.Intn("w", 9000)) * time.Millisecond)
	} else {
		verifrt.Sleep(time.Duration(verifrt.Intn("w", 300)) * time.Millisecond)
	}
	var sels []*eth2v1.BeaconCommitteeSelection
	for _, v := range cl.Vals {
		sels = append(sels, &eth2v1.BeaconCommitteeSelection{ValidatorIndex: v.Index, Slot: eth2p0.Slot(slot), SelectionProof: signRoot(v.Shares[i+1], selectionSigningRoot(cl, slot))})
	}
	resp, err := n.VAPI.BeaconCommitteeSelections(n.Ctx, &eth2api.BeaconCommitteeSelectionsOpts{Selections: sels})
	verifrt.Note("n%d vc selections slot %d err=%v", i, slot, err != nil)
	if err != nil {
		return
	}
	sleepUntil(trigger)
	if batchVC(cl) {
		// a validator client that submits the aggregates of all its validators with one call (realbcast_test.go)
		aggregatesBatch(cl, n, i, slot, resp.Data, mode)
		return
	}
	for _, v := range cl.Vals {
		v := v
		var proof *eth2p0.BLSSignature
		for _, s := range resp.Data {
			if s.ValidatorIndex == v.Index && uint64(s.Slot) == slot {
				proof = &s.SelectionProof
			}
		}
		if proof == nil {
			continue
		}
		verifrt.Go(func() {
			verifrt.Sleep(time.Duration(verifrt.Intn("w", 400)) * time.Millisecond)
			err := runAggregatorVC(cl, n, slot, v, *proof)
			verifrt.Note("n%d vc aggregate slot %d val %d err=%v", i, slot, v.Index, err != nil)
			if err == nil && mode == 5 {
				verifrt.Fault("vc-duplicate-aggregate")
				_ = runAggregatorVC(cl, n, slot, v, *proof)
			}
		})
	}
}

// runAggregatorVC: the validator client knows the attestation data it attested to (the agreed one), asks the
// node for the aggregate of that data root, wraps it with the aggregated selection proof, signs, submits.
func runAggregatorVC(cl *cluster.Cluster, n *cluster.Node, slot uint64, v *cluster.Validator, proof eth2p0.BLSSignature) error {
	comm := v.Committee
	if cur.electra && verifrt.Intn("w", 2) == 0 {
		comm = 0
	}
	dresp, err := n.VAPI.AttestationData(n.Ctx, &eth2api.AttestationDataOpts{Slot: eth2p0.Slot(slot), CommitteeIndex: comm})
	if err != nil {
		return err
	}
	root, err := dresp.Data.HashTreeRoot()
	if err != nil {
		return err
	}
	aresp, err := n.VAPI.AggregateAttestation(n.Ctx, &eth2api.AggregateAttestationOpts{Slot: eth2p0.Slot(slot), AttestationDataRoot: root, CommitteeIndex: v.Committee})
	if err != nil {
		return err
	}
	agg := aresp.Data
	if (cur.electra && (agg.Version != eth2spec.DataVersionElectra || agg.Electra == nil)) || (!cur.electra && (agg.Version != eth2spec.DataVersionDeneb || agg.Deneb == nil)) {
		return errors.New("validator client: unexpected aggregate version")
	}
	signed := signedAggAndProof(cl, v.Shares[n.Idx+1], v, agg, proof)
	return n.VAPI.SubmitAggregateAttestations(n.Ctx, &eth2api.SubmitAggregateAttestationsOpts{SignedAggregateAndProofs: []*eth2spec.VersionedSignedAggregateAndProof{signed}})
}

// contributionAt is node i's part of the sync contribution pipeline: sync committee selection proofs at the
// start of the slot (one per validator and subcommittee), DutySyncContribution triggered at 2/3 of the slot,
// then per validator and subcommittee the contribution for the head root the validator client signed in its
// sync message, wrapped with the aggregated selection proof, signed and submitted.
func contributionAt(ctx context.Context, cl *cluster.Cluster, i int, byz bool) {
	p, n := cur, cl.Nodes[i]
	slot := p.contribSlot
	trigger := cl.SlotStart(slot).Add(2 * cl.Cfg.SlotDuration / 3)
	if !time.Now().Before(trigger) {
		return
	}
	sleepUntil(cl.SlotStart(slot))
	jitter := time.Duration(verifrt.Intn("w", 4))
	mode := verifrt.Intn("w", 8)
	verifrt.Go(func() {
		sleepUntil(trigger.Add(jitter * jitter * 40 * time.Millisecond))
		n.Sched.Trigger(n.Ctx, core.NewSyncContributionDuty(slot), syncDefSet(cl, p))
	})
	if byz {
		verifrt.Go(func() { byzantineContribution(ctx, cl, i) })
	}
	if mode == 7 {
		verifrt.Fault("vc-absent-contribution")
		return
	}
	if mode == 6 {
		verifrt.Fault("vc-slow-contribution")
		verifrt.Sleep(time.Duration(200+verifrt.Intn("w", 9000)) * time.Millisecond)
	} else {
		verifrt.Sleep(time.Duration(verifrt.Intn("w", 300)) * time.Millisecond)
	}
	var sels []*eth2v1.SyncCommitteeSelection
	for k, v := range cl.Vals {
		subs, _ := subcommsOf(p, k)
		for _, sc := range subs {
			sels = append(sels, &eth2v1.SyncCommitteeSelection{ValidatorIndex: v.Index, Slot: eth2p0.Slot(slot), SubcommitteeIndex: sc,
				SelectionProof: signRoot(v.Shares[i+1], syncSelectionSigningRoot(cl, slot, sc))})
		}
	}
	resp, err := n.VAPI.SyncCommitteeSelections(n.Ctx, &eth2api.SyncCommitteeSelectionsOpts{Selections: sels})
	verifrt.Note("n%d vc sync-selections slot %d err=%v", i, slot, err != nil)
	if err != nil {
		return
	}
	sleepUntil(trigger)
	view := 0
	if cl.View != nil {
		view = cl.View(i, slot)
	}
	head := headRoot(slot, view) // the block root this validator client signed in its sync message
	for _, s := range resp.Data {
		s := s
		var v *cluster.Validator
		for _, x := range cl.Vals {
			if x.Index == s.ValidatorIndex {
				v = x
			}
		}
		if v == nil || uint64(s.Slot) != slot {
			continue
		}
		verifrt.Go(func() {
			verifrt.Sleep(time.Duration(verifrt.Intn("w", 400)) * time.Millisecond)
			err := runContributionVC(cl, n, slot, s.SubcommitteeIndex, head, v, s.SelectionProof)
			verifrt.Note("n%d vc contribution slot %d val %d subcomm %d view %d err=%v", i, slot, v.Index, s.SubcommitteeIndex, view, err != nil)
			if err == nil && mode == 5 {
				verifrt.Fault("vc-duplicate-contribution")
				_ = runContributionVC(cl, n, slot, s.SubcommitteeIndex, head, v, s.SelectionProof)
			}
		})
	}
}

func runContributionVC(cl *cluster.Cluster, n *cluster.Node, slot, subcomm uint64, head eth2p0.Root, v *cluster.Validator, proof eth2p0.BLSSignature) error {
	resp, err := n.VAPI.SyncCommitteeContribution(n.Ctx, &eth2api.SyncCommitteeContributionOpts{Slot: eth2p0.Slot(slot), SubcommitteeIndex: subcomm, BeaconBlockRoot: head})
	if err != nil {
		return err
	}
	signed := signedContribAndProof(cl, v.Shares[n.Idx+1], v, resp.Data, proof)
	return n.VAPI.SubmitSyncCommitteeContributions(n.Ctx, []*altair.SignedContributionAndProof{signed})
}

// startAggKinds starts node i's goroutines of the enabled aggregation pipelines (also after a restart: a
// pipeline whose trigger time has passed is skipped).
func startAggKinds(ctx context.Context, cl *cluster.Cluster, i int, byz bool) {
	n := cl.Nodes[i]
	if n == nil {
		return
	}
	if cur.aggregator {
		verifrt.GoNode(n.Tag, func() { aggregatorAt(ctx, cl, i, byz) })
	}
	if cur.contrib {
		verifrt.GoNode(n.Tag, func() { contributionAt(ctx, cl, i, byz) })
	}
}

// ---- Byzantine partial signatures of the aggregation pipelines ---------------------------------------

func inject(cl *cluster.Cluster, from int, fault string, msgs []*pbv1.ParSigExMsg, split bool) {
	for k, msg := range msgs {
		for to := 0; to < cl.Cfg.N; to++ {
			if to == from || (split && to%2 != k%2 && verifrt.Intn("a", 2) == 0) {
				continue
			}
			verifrt.Fault(fault)
			cl.Net.Inject(cl.PeerIDs[from], cl.PeerIDs[to], protoParSigEx, frame(msg), time.Duration(verifrt.Intn("a", 200))*time.Millisecond)
		}
	}
}

// byzantineAggregator sends, made with node i's own key share, partial signatures of the aggregator pipeline
// over OTHER content straight to peers' parsigex handlers: another aggregation view's aggregate (a legitimate
// candidate of the consensus instance), an aggregate no beacon node serves, an aggregate of another view's
// attestation data, of another slot, equivocating pairs, AggregateAndProofs carrying another selection proof,
// the same message under another version tag or in the unversioned container, slot signatures for another
// slot, objects of the other duty type, other share index, a key that is no share.
func byzantineAggregator(ctx context.Context, cl *cluster.Cluster, i int) {
	p := cur
	slot := p.aggSlot
	aggDuty, prepDuty := core.NewAggregatorDuty(slot), core.NewPrepareAggregatorDuty(slot)
	moves := 1 + verifrt.Intn("a", 4)
	for m := 0; m < moves && ctx.Err() == nil; m++ {
		// aggregates are signed in the last third of the slot; slot signatures from its start
		verifrt.Sleep(time.Duration(verifrt.Intn("a", 4500)) * time.Millisecond)
		v := cl.Vals[verifrt.Intn("a", len(cl.Vals))]
		own := v.Shares[i+1]
		av := 3 + verifrt.Intn("a", 3) // content no honest beacon node serves
		if verifrt.Intn("a", 2) == 0 {
			av = verifrt.Intn("a", 3) // or a legitimate candidate that may differ from the decided one
		}
		dview := verifrt.Intn("a", 3)
		agg := func(av, dview int, dslot uint64, proof eth2p0.BLSSignature, key tbls.PrivateKey, idx int) core.ParSignedData {
			a := viewAggregate(av, servedAttData(cl, dview, eth2p0.Slot(dslot), v.Committee), v.Committee, cur.electra)
			return core.NewPartialVersionedSignedAggregateAndProof(signedAggAndProof(cl, key, v, a, proof), idx)
		}
		sel := func(sslot uint64, key tbls.PrivateKey, idx int) core.ParSignedData {
			return core.NewPartialSignedBeaconCommitteeSelection(&eth2v1.BeaconCommitteeSelection{ValidatorIndex: v.Index, Slot: eth2p0.Slot(sslot),
				SelectionProof: signRoot(key, selectionSigningRoot(cl, sslot))}, idx)
		}
		proof := p.groupSelection(cl, v, slot)
		var msgs []*pbv1.ParSigExMsg
		name, split := "", false
		switch verifrt.Intn("a", 11) {
		case 0:
			name = "other-aggregate"
			msgs = []*pbv1.ParSigExMsg{parSigMsg(aggDuty, v.CorePK, agg(av, dview, slot, proof, own, i+1))}
		case 1:
			name = "other-slot-aggregate" // valid for its own slot (and fork), sent under the honest duty
			other := slot + 1 + uint64(verifrt.Intn("a", 2))
			msgs = []*pbv1.ParSigExMsg{parSigMsg(aggDuty, v.CorePK, agg(av, dview, other, p.groupSelection(cl, v, other), own, i+1))}
		case 2:
			name = "equivocating-aggregates"
			split = true
			msgs = []*pbv1.ParSigExMsg{parSigMsg(aggDuty, v.CorePK, agg(av, dview, slot, proof, own, i+1)), parSigMsg(aggDuty, v.CorePK, agg(av+1, dview, slot, proof, own, i+1))}
		case 3:
			name = "other-selection-proof" // the aggregate with the node's own partial slot signature as the proof
			msgs = []*pbv1.ParSigExMsg{parSigMsg(aggDuty, v.CorePK, agg(av%3, dview, slot, signRoot(own, selectionSigningRoot(cl, slot)), own, i+1))}
		case 4:
			name = "other-slot-selection" // a slot signature valid for its own slot, sent under the honest duty
			msgs = []*pbv1.ParSigExMsg{parSigMsg(prepDuty, v.CorePK, sel(slot+1+uint64(verifrt.Intn("a", int(cl.Cfg.SlotsPerEpoch))), own, i+1))}
		case 5:
			name = "other-share-index"
			idx := 1 + (i+1)%cl.Cfg.N
			msgs = []*pbv1.ParSigExMsg{parSigMsg(aggDuty, v.CorePK, agg(av, dview, slot, proof, own, idx)), parSigMsg(prepDuty, v.CorePK, sel(slot, own, idx))}
		case 6:
			name = "non-share-key"
			rogue := own
			rogue[31] ^= 0x5a
			msgs = []*pbv1.ParSigExMsg{parSigMsg(aggDuty, v.CorePK, agg(av, dview, slot, proof, rogue, i+1)), parSigMsg(prepDuty, v.CorePK, sel(slot, rogue, i+1))}
		case 7:
			name = "selection-as-aggregator-duty" // a slot signature under the aggregator duty, an aggregate under the prepare duty
			msgs = []*pbv1.ParSigExMsg{parSigMsg(aggDuty, v.CorePK, sel(slot, own, i+1)), parSigMsg(prepDuty, v.CorePK, agg(av, dview, slot, proof, own, i+1))}
		case 8:
			name = "other-validator-aggregate" // validly signed as validator v, sent under another validator's key
			w := cl.Vals[(valPos(cl, v)+1)%len(cl.Vals)]
			msgs = []*pbv1.ParSigExMsg{parSigMsg(aggDuty, w.CorePK, agg(av, dview, slot, proof, own, i+1))}
		case 9:
			name = "other-container" // the same kind of message under another version tag / in the unversioned container
			x := signedAggAndProof(cl, own, v, viewAggregate(av, servedAttData(cl, dview, eth2p0.Slot(slot), v.Committee), v.Committee, cur.electra), proof)
			switch {
			case x.Electra != nil:
				x.Version, x.Fulu, x.Electra = eth2spec.DataVersionFulu, x.Electra, nil
				msgs = []*pbv1.ParSigExMsg{parSigMsg(aggDuty, v.CorePK, core.NewPartialVersionedSignedAggregateAndProof(x, i+1))}
			case verifrt.Intn("a", 2) == 0:
				x.Version, x.Capella, x.Deneb = eth2spec.DataVersionCapella, x.Deneb, nil
				msgs = []*pbv1.ParSigExMsg{parSigMsg(aggDuty, v.CorePK, core.NewPartialVersionedSignedAggregateAndProof(x, i+1))}
			default:
				msgs = []*pbv1.ParSigExMsg{parSigMsg(aggDuty, v.CorePK, core.NewPartialSignedAggregateAndProof(x.Deneb, i+1))}
			}
		case 10:
			name = "other-duty-aggregate" // a complete honest-looking partial for another slot's duty
			other := slot + 1 + uint64(verifrt.Intn("a", 2))
			msgs = []*pbv1.ParSigExMsg{parSigMsg(core.NewAggregatorDuty(other), v.CorePK, agg(av, dview, other, p.groupSelection(cl, v, other), own, i+1)),
				parSigMsg(core.NewPrepareAggregatorDuty(other), v.CorePK, sel(other, own, i+1))}
		}
		inject(cl, i, "byz:aggregator:"+name, msgs, split)
	}
}

// byzantineContribution: the same for the sync contribution pipeline (another aggregation view's contribution,
// a contribution nobody serves, for another head root, another subcommittee, another slot, equivocating pairs,
// another selection proof inside, selection proofs for another slot/subcommittee, objects of the other duty
// type, other share index, a key that is no share).
func byzantineContribution(ctx context.Context, cl *cluster.Cluster, i int) {
	p := cur
	slot := p.contribSlot
	conDuty, prepDuty := core.NewSyncContributionDuty(slot), core.NewPrepareSyncContributionDuty(slot)
	moves := 1 + verifrt.Intn("a", 4)
	for m := 0; m < moves && ctx.Err() == nil; m++ {
		verifrt.Sleep(time.Duration(verifrt.Intn("a", 4500)) * time.Millisecond)
		k := verifrt.Intn("a", len(cl.Vals))
		v := cl.Vals[k]
		own := v.Shares[i+1]
		subs, _ := subcommsOf(p, k)
		sc := subs[verifrt.Intn("a", len(subs))]
		av := 3 + verifrt.Intn("a", 3)
		if verifrt.Intn("a", 2) == 0 {
			av = verifrt.Intn("a", 3)
		}
		head := headRoot(slot, verifrt.Intn("a", 3))
		con := func(av int, cslot, sc uint64, head eth2p0.Root, proof eth2p0.BLSSignature, key tbls.PrivateKey, idx int) core.ParSignedData {
			return core.NewPartialSignedSyncContributionAndProof(signedContribAndProof(cl, key, v, viewContribution(av, cslot, sc, head), proof), idx)
		}
		sel := func(sslot, sc uint64, key tbls.PrivateKey, idx int) core.ParSignedData {
			return core.NewPartialSignedSyncCommitteeSelection(&eth2v1.SyncCommitteeSelection{ValidatorIndex: v.Index, Slot: eth2p0.Slot(sslot), SubcommitteeIndex: sc,
				SelectionProof: signRoot(key, syncSelectionSigningRoot(cl, sslot, sc))}, idx)
		}
		proof := p.groupSyncSelection(cl, v, slot, sc)
		var msgs []*pbv1.ParSigExMsg
		name, split := "", false
		switch verifrt.Intn("a", 10) {
		case 0:
			name = "other-contribution"
			msgs = []*pbv1.ParSigExMsg{parSigMsg(conDuty, v.CorePK, con(av, slot, sc, head, proof, own, i+1))}
		case 1:
			name = "other-slot-contribution" // valid for its own slot (and fork), sent under the honest duty
			other := slot + 1 + uint64(verifrt.Intn("a", 2))
			msgs = []*pbv1.ParSigExMsg{parSigMsg(conDuty, v.CorePK, con(av, other, sc, head, p.groupSyncSelection(cl, v, other, sc), own, i+1))}
		case 2:
			name = "equivocating-contributions"
			split = true
			msgs = []*pbv1.ParSigExMsg{parSigMsg(conDuty, v.CorePK, con(av, slot, sc, head, proof, own, i+1)), parSigMsg(conDuty, v.CorePK, con(av+1, slot, sc, head, proof, own, i+1))}
		case 3:
			name = "other-selection-proof"
			msgs = []*pbv1.ParSigExMsg{parSigMsg(conDuty, v.CorePK, con(av%3, slot, sc, head, signRoot(own, syncSelectionSigningRoot(cl, slot, sc)), own, i+1))}
		case 4:
			name = "other-slot-selection"
			msgs = []*pbv1.ParSigExMsg{parSigMsg(prepDuty, v.CorePK, sel(slot+1+uint64(verifrt.Intn("a", int(cl.Cfg.SlotsPerEpoch))), sc, own, i+1))}
		case 5:
			name = "other-subcommittee" // a subcommittee the validator has no seat in: contribution and selection proof
			other := (sc + 1 + uint64(verifrt.Intn("a", 2))) % 4
			msgs = []*pbv1.ParSigExMsg{parSigMsg(conDuty, v.CorePK, con(av, slot, other, head, p.groupSyncSelection(cl, v, slot, other), own, i+1)), parSigMsg(prepDuty, v.CorePK, sel(slot, other, own, i+1))}
		case 6:
			name = "other-share-index"
			idx := 1 + (i+1)%cl.Cfg.N
			msgs = []*pbv1.ParSigExMsg{parSigMsg(conDuty, v.CorePK, con(av, slot, sc, head, proof, own, idx)), parSigMsg(prepDuty, v.CorePK, sel(slot, sc, own, idx))}
		case 7:
			name = "non-share-key"
			rogue := own
			rogue[31] ^= 0x5a
			msgs = []*pbv1.ParSigExMsg{parSigMsg(conDuty, v.CorePK, con(av, slot, sc, head, proof, rogue, i+1)), parSigMsg(prepDuty, v.CorePK, sel(slot, sc, rogue, i+1))}
		case 8:
			name = "selection-as-contribution-duty"
			msgs = []*pbv1.ParSigExMsg{parSigMsg(conDuty, v.CorePK, sel(slot, sc, own, i+1)), parSigMsg(prepDuty, v.CorePK, con(av, slot, sc, head, proof, own, i+1))}
		case 9:
			name = "other-validator-contribution"
			w := cl.Vals[(k+1)%len(cl.Vals)]
			msgs = []*pbv1.ParSigExMsg{parSigMsg(conDuty, w.CorePK, con(av, slot, sc, head, proof, own, i+1))}
		}
		inject(cl, i, "byz:sync_contribution:"+name, msgs, split)
	}
}

// ---- oracles -----------------------------------------------------------------------------------------

// checkSig is oracle (i) for the aggregation kinds; the oracle signature names the kind.
func (o *oracle) checkSig(b cluster.Broadcast, val *cluster.Validator, kind, key string, sr [32]byte, sig eth2p0.BLSSignature) {
	if err := tbls.Verify(val.PubKey, sr[:], tbls.Signature(sig)); err != nil {
		o.c.Violate("C01", "invalid-group-signature", kind+"-signature-does-not-verify-under-group-key", "node %d broadcast %s whose signature does not verify under the validator's group public key for its own signing root: %v", b.Node, key, err)
	}
}

// oneRootOf is oracle (ii) with a kind-specific oracle signature.
func (o *oracle) oneRootOf(b cluster.Broadcast, kind, key string, sr [32]byte) {
	o.mu.Lock()
	prev, ok := o.roots[key]
	f := o.first[key]
	if !ok {
		o.roots[key] = sr
		o.first[key] = b
	}
	o.mu.Unlock()
	if ok && prev != sr {
		o.c.Violate("C01", "two-signing-roots", kind+"-different-signed-objects-for-one-duty-and-validator", "%s: node %d broadcast signing root %x at %v but node %d broadcast %x at %v", key, f.Node, prev[:6], f.At, b.Node, sr[:6], b.At)
	}
}

// onAggKinds handles the broadcast object types of the aggregation pipelines; false = not one of them.
func (o *oracle) onAggKinds(b cluster.Broadcast, key string) bool {
	switch d := b.Data.(type) {
	case core.BeaconCommitteeSelection:
		o.onSelection(b, key, d)
	case core.VersionedSignedAggregateAndProof:
		o.onAggregateAndProof(b, key, &d.VersionedSignedAggregateAndProof, false)
	case core.SignedAggregateAndProof:
		x := d.SignedAggregateAndProof
		o.onAggregateAndProof(b, key, &eth2spec.VersionedSignedAggregateAndProof{Version: eth2spec.DataVersionDeneb, Deneb: &x}, true)
	case core.SyncCommitteeSelection:
		o.onSyncSelection(b, key, d)
	case core.SignedSyncContributionAndProof:
		o.onContributionAndProof(b, key, d)
	default:
		return false
	}
	return true
}

func (o *oracle) onSelection(b cluster.Broadcast, key string, s core.BeaconCommitteeSelection) {
	c, cl := o.c, o.cl
	val := o.validator(b)
	if val == nil {
		return
	}
	sr := selectionSigningRoot(cl, uint64(s.Slot))
	o.checkSig(b, val, "slot-selection", key, sr, s.SelectionProof)
	o.oneRootOf(b, "slot-selection", key, sr)
	if !cur.aggregator || b.Duty.Type != core.DutyPrepareAggregator || b.Duty.Slot != cur.aggSlot || uint64(s.Slot) != b.Duty.Slot || s.ValidatorIndex != val.Index {
		c.Violate("C01", "validity", "selection-never-signed-by-an-honest-validator-client", "%s: node %d broadcast a slot signature for slot %d validator %d, which no honest validator client signed for this duty", key, b.Node, s.Slot, s.ValidatorIndex)
		return
	}
	o.mark("prepare_aggregator")
}

func (o *oracle) onAggregateAndProof(b cluster.Broadcast, key string, ap *eth2spec.VersionedSignedAggregateAndProof, unversioned bool) {
	c, cl := o.c, o.cl
	val := o.validator(b)
	if val == nil {
		return
	}
	var (
		msgRoot, aggRoot [32]byte
		err, err2        error
		data             *eth2p0.AttestationData
		proof, sig       eth2p0.BLSSignature
		aggregator       eth2p0.ValidatorIndex
		isElectra        bool
	)
	var ph *eth2p0.SignedAggregateAndProof
	var el *electra.SignedAggregateAndProof
	switch ap.Version {
	case eth2spec.DataVersionPhase0:
		ph = ap.Phase0
	case eth2spec.DataVersionAltair:
		ph = ap.Altair
	case eth2spec.DataVersionBellatrix:
		ph = ap.Bellatrix
	case eth2spec.DataVersionCapella:
		ph = ap.Capella
	case eth2spec.DataVersionDeneb:
		ph = ap.Deneb
	case eth2spec.DataVersionElectra:
		el = ap.Electra
	case eth2spec.DataVersionFulu:
		el = ap.Fulu
	}
	switch {
	case ph != nil && ph.Message != nil && ph.Message.Aggregate != nil && ph.Message.Aggregate.Data != nil:
		msgRoot, err = ph.Message.HashTreeRoot()
		aggRoot, err2 = ph.Message.Aggregate.HashTreeRoot()
		data, proof, sig, aggregator = ph.Message.Aggregate.Data, ph.Message.SelectionProof, ph.Signature, ph.Message.AggregatorIndex
	case el != nil && el.Message != nil && el.Message.Aggregate != nil && el.Message.Aggregate.Data != nil:
		isElectra = true
		msgRoot, err = el.Message.HashTreeRoot()
		aggRoot, err2 = el.Message.Aggregate.HashTreeRoot()
		data, proof, sig, aggregator = el.Message.Aggregate.Data, el.Message.SelectionProof, el.Signature, el.Message.AggregatorIndex
	default:
		c.Violate("C01", "broadcast-type", "aggregate-and-proof-without-content", "node %d broadcast an empty %s aggregate and proof for %s", b.Node, ap.Version, key)
		return
	}
	if err != nil || err2 != nil {
		panic(fmt.Sprint(err, err2))
	}
	// (i) valid under the group key for the message's own signing root; (ii) one root per duty and validator
	sr := aggAndProofSigningRoot(cl, data.Slot, msgRoot)
	o.checkSig(b, val, "aggregate-and-proof", key, sr, sig)
	o.oneRootOf(b, "aggregate-and-proof", key, sr)
	// (iii) the aggregate is one a node's beacon node served for the agreed attestation data of this duty,
	// wrapped by an honest validator client: the validator's index and its unique group slot signature
	p := cur
	p.mu.Lock()
	from, served := p.servedAgg[aggRoot]
	p.mu.Unlock()
	if !p.aggregator || b.Duty.Type != core.DutyAggregator || b.Duty.Slot != p.aggSlot || uint64(data.Slot) != b.Duty.Slot || !served || isElectra != p.electra {
		c.Violate("C01", "validity", "aggregate-never-served-by-an-honest-beacon-node", "%s: node %d broadcast aggregate %x (slot %d, %s) that no node's beacon node served for this duty", key, b.Node, aggRoot[:4], data.Slot, ap.Version)
		return
	}
	if aggregator != val.Index || proof != p.groupSelection(cl, val, b.Duty.Slot) {
		c.Violate("C01", "validity", "aggregate-and-proof-never-built-by-an-honest-validator-client", "%s: node %d broadcast aggregate %x (from %s) with aggregator index %d and selection proof %x, not the validator's index and slot signature", key, b.Node, aggRoot[:4], from, aggregator, proof[:4])
	}
	okView := false
	for av := 0; av < 3; av++ {
		for view := 0; view < o.views; view++ {
			if aggregateRoot(viewAggregate(av, servedAttData(cl, view, data.Slot, val.Committee), val.Committee, p.electra)) == aggRoot {
				okView = true
			}
		}
	}
	if !okView {
		c.Violate("C01", "validity", "aggregate-never-served-by-an-honest-beacon-node", "%s: node %d broadcast aggregate %x which is not the aggregate of any beacon view of this run for served attestation data", key, b.Node, aggRoot[:4])
	}
	if want := map[bool]eth2spec.DataVersion{false: eth2spec.DataVersionDeneb, true: eth2spec.DataVersionElectra}[p.electra]; unversioned || ap.Version != want {
		verifrt.Probe("broadcast-aggregate-in-foreign-container")
	}
	o.mark("aggregator")
}

func (o *oracle) onSyncSelection(b cluster.Broadcast, key string, s core.SyncCommitteeSelection) {
	c, cl := o.c, o.cl
	val := o.validator(b)
	if val == nil {
		return
	}
	// a validator holds one selection proof per sync subcommittee it has a seat in: the signed object of
	// this duty and validator is per subcommittee
	key = fmt.Sprintf("%s/subcomm%d", key, s.SubcommitteeIndex)
	sr := syncSelectionSigningRoot(cl, uint64(s.Slot), s.SubcommitteeIndex)
	o.checkSig(b, val, "sync-selection", key, sr, s.SelectionProof)
	o.oneRootOf(b, "sync-selection", key, sr)
	seat := false
	subs, _ := subcommsOf(cur, valPos(cl, val))
	for _, sc := range subs {
		seat = seat || sc == s.SubcommitteeIndex
	}
	if !cur.contrib || b.Duty.Type != core.DutyPrepareSyncContribution || b.Duty.Slot != cur.contribSlot || uint64(s.Slot) != b.Duty.Slot || s.ValidatorIndex != val.Index || !seat {
		c.Violate("C01", "validity", "selection-never-signed-by-an-honest-validator-client", "%s: node %d broadcast a sync selection proof for slot %d subcommittee %d validator %d, which no honest validator client signed for this duty", key, b.Node, s.Slot, s.SubcommitteeIndex, s.ValidatorIndex)
		return
	}
	o.mark("prepare_sync_contribution")
}

func (o *oracle) onContributionAndProof(b cluster.Broadcast, key string, s core.SignedSyncContributionAndProof) {
	c, cl := o.c, o.cl
	val := o.validator(b)
	if val == nil {
		return
	}
	if s.Message == nil || s.Message.Contribution == nil {
		c.Violate("C01", "broadcast-type", "contribution-and-proof-without-content", "node %d broadcast an empty contribution and proof for %s", b.Node, key)
		return
	}
	ct := s.Message.Contribution
	key = fmt.Sprintf("%s/subcomm%d", key, ct.SubcommitteeIndex)
	sr := contribAndProofSigningRoot(cl, s.Message)
	o.checkSig(b, val, "contribution-and-proof", key, sr, s.SignedContributionAndProof.Signature)
	o.oneRootOf(b, "contribution-and-proof", key, sr)
	// (iii) a contribution some node's beacon node served for a head root an honest validator client signed,
	// for a subcommittee of the validator, wrapped with the validator's index and unique group selection proof
	ctRoot, err := ct.HashTreeRoot()
	if err != nil {
		panic(err)
	}
	p := cur
	p.mu.Lock()
	from, served := p.servedContrib[ctRoot]
	p.mu.Unlock()
	seat := false
	subs, _ := subcommsOf(p, valPos(cl, val))
	for _, sc := range subs {
		seat = seat || sc == ct.SubcommitteeIndex
	}
	okRoot := false
	for view := 0; view < o.views; view++ {
		okRoot = okRoot || ct.BeaconBlockRoot == headRoot(b.Duty.Slot, view)
	}
	if !p.contrib || b.Duty.Type != core.DutySyncContribution || b.Duty.Slot != p.contribSlot || uint64(ct.Slot) != b.Duty.Slot || !served || !seat || !okRoot {
		c.Violate("C01", "validity", "contribution-never-served-by-an-honest-beacon-node", "%s: node %d broadcast contribution %x (slot %d, subcommittee %d, head %x) that no node's beacon node served for this duty", key, b.Node, ctRoot[:4], ct.Slot, ct.SubcommitteeIndex, ct.BeaconBlockRoot[:3])
		return
	}
	if s.Message.AggregatorIndex != val.Index || s.Message.SelectionProof != p.groupSyncSelection(cl, val, b.Duty.Slot, ct.SubcommitteeIndex) {
		c.Violate("C01", "validity", "contribution-and-proof-never-built-by-an-honest-validator-client", "%s: node %d broadcast contribution %x (from %s) with aggregator index %d and selection proof %x, not the validator's index and selection proof", key, b.Node, ctRoot[:4], from, s.Message.AggregatorIndex, s.Message.SelectionProof[:4])
	}
	okView := false
	for av := 0; av < 3; av++ {
		if r, _ := viewContribution(av, b.Duty.Slot, ct.SubcommitteeIndex, ct.BeaconBlockRoot).HashTreeRoot(); r == ctRoot {
			okView = true
		}
	}
	if !okView {
		c.Violate("C01", "validity", "contribution-never-served-by-an-honest-beacon-node", "%s: node %d broadcast contribution %x which is not the contribution of any beacon view of this run", key, b.Node, ctRoot[:4])
	}
	o.mark("sync_contribution")
}

// aggKindsTotal is the number of (duty, validator[, subcommittee]) objects the enabled aggregation pipelines
// produce when everything completes (with one contribution per validator: the wired fetcher has no
// RegisterSyncContributionV2, so it fetches the lowest subcommittee only).
func aggKindsTotal(cl *cluster.Cluster, p *plan) int {
	total := 0
	if p.aggregator {
		total += 2 * len(cl.Vals)
	}
	if p.contrib {
		for k := range cl.Vals {
			subs, _ := subcommsOf(p, k)
			total += len(subs) + 1
		}
	}
	return total
}

func aggKindsSummary(c *kernel.Ctx, p *plan) {
	c.Set("aggregator_pipeline", p.aggregator)
	c.Set("sync_contribution_pipeline", p.contrib)
}
