//go:build verif

// Harness for C01 (flagship): a simulated cluster of real charon nodes performs attester duties under
// network faults, crashes, restarts with amnesia, late starts, slow/absent validator clients, beacon
// errors and Byzantine nodes sending arbitrary partial signatures made with their own key share.
package c01

import (
	"context"
	"fmt"
	"sync"
	"testing"
	"time"

	eth2spec "github.com/attestantio/go-eth2-client/spec"
	"github.com/attestantio/go-eth2-client/spec/altair"
	eth2p0 "github.com/attestantio/go-eth2-client/spec/phase0"
	"github.com/libp2p/go-msgio/pbio"
	"google.golang.org/protobuf/proto"

	"github.com/obolnetwork/charon/app/errors"
	"github.com/obolnetwork/charon/core"
	pbv1 "github.com/obolnetwork/charon/core/corepb/v1"
	"github.com/obolnetwork/charon/tbls"
	"github.com/obolnetwork/charon/verifrt"

	"verifsim/cluster"
	"verifsim/kernel"
	"verifsim/simbeacon"
	"verifsim/simnet"
)

const protoParSigEx = "/charon/parsigex/2.0.0"

func TestSim(t *testing.T) {
	kernel.Main(t, kernel.Harness{Name: "c01", Horizon: 2 * time.Hour, Body: body, MaxSteps: 4_000_000})
}

type wbuf struct{ b []byte }

func (w *wbuf) Write(p []byte) (int, error) { w.b = append(w.b, p...); return len(p), nil }

func frame(m proto.Message) []byte {
	var w wbuf
	_ = pbio.NewDelimitedWriter(&w).WriteMsg(m)
	return w.b
}

func body(c *kernel.Ctx) {
	ctx, cancel := context.WithCancel(context.Background())
	defer cancel()

	// ---- swarm configuration -------------------------------------------------------------
	n := []int{4, 3, 4, 5, 7}[verifrt.Intn("cfg", 5)]
	if c.Tier != "thorough" && n > 5 {
		n = 4
	}
	cfg := cluster.Config{N: n, Validators: 1 + verifrt.Intn("cfg", 2), SlotsPerEpoch: 16, SlotDuration: 12 * time.Second,
		StartSlot: 64 + uint64(verifrt.Intn("cfg", 16)), AggSigDBV2: verifrt.Intn("cfg", 2) == 1}
	nSlots := 1 + verifrt.Intn("cfg", 2)
	f := (n - 1) / 3
	nByz := 0
	if f > 0 {
		nByz = verifrt.Intn("cfg", f+1)
	}
	nCrash := 0
	if f-nByz > 0 {
		nCrash = verifrt.Intn("f", f-nByz+1)
	}
	views := 1 + verifrt.Intn("cfg", 3) // how many different beacon views exist
	maxDelay := 1 + verifrt.Intn("cfg", 300)
	dropPct := []int{0, 0, 3, 10}[verifrt.Intn("cfg", 4)]
	dupPct := []int{0, 5, 15}[verifrt.Intn("cfg", 3)]
	longPct := []int{0, 5}[verifrt.Intn("cfg", 2)]
	beaconErrs := verifrt.Intn("cfg", 4) == 3

	cl := cluster.New(ctx, c.T, cfg)
	// a fork activates at the next epoch boundary: objects of slots beyond it are signed under another
	// fork version (used by the Byzantine cross-fork partial signature)
	syncMsgs := verifrt.Intn("cfg", 2) == 1
	nextEpoch := eth2p0.Epoch(cfg.StartSlot/cfg.SlotsPerEpoch + 1)
	cl.Chain.Forks = []simbeacon.Fork{{Epoch: nextEpoch, Version: eth2p0.Version{0x00, 0x00, 0x10, 0x21}}}
	// further duty kinds (tape value 0 = off): Electra-format attestations; the proposer pipeline
	// (randao, then the block) for one validator in one slot of the run, in a third of the runs
	pl := &plan{served: map[eth2p0.Root]string{}}
	pl.electra = verifrt.Intn("cfg", 2) == 1
	pl.proposer = verifrt.Intn("cfg", 2) == 1 // half of the runs; half of these keep the full Capella block (chooseMoreKinds)
	if pl.proposer {
		pl.propSlot = cfg.StartSlot + uint64(verifrt.Intn("cfg", nSlots))
		pl.propVal = cl.Vals[verifrt.Intn("cfg", len(cl.Vals))]
		pl.groupRandao = signRoot(pl.propVal.Secret, randaoSigningRoot(cl, epochOf(cl, pl.propSlot)))
		verifrt.Probe("enabled:proposer")
	}
	if pl.electra {
		verifrt.Probe("enabled:att-electra")
	} else {
		verifrt.Probe("enabled:att-deneb")
	}
	// the aggregation pipelines (aggregator; sync contribution, which switches sync messages on)
	chooseAggKinds(cl, pl, cfg.StartSlot, nSlots, &syncMsgs)
	// proposer variants (builder/blinded, Deneb block contents), voluntary exits, builder registrations
	chooseMoreKinds(c, cl, pl, cfg.StartSlot, nSlots)
	// the real core/bcast behind the recorder (half of the runs); old-release nodes in Electra runs (realbcast_test.go)
	chooseRealBcast(c, cl, pl)
	c.Set("sync_messages", syncMsgs)
	aggKindsSummary(c, pl)
	moreKindsSummary(c, pl)
	cur = pl
	installBeacon(cl, pl, beaconErrs)
	c.Set("attestation_format", map[bool]string{false: "deneb", true: "electra"}[pl.electra])
	c.Set("proposer_pipeline", pl.proposer)
	viewOf := make([][]int, n)
	for i := range viewOf {
		viewOf[i] = make([]int, nSlots)
		for s := range viewOf[i] {
			viewOf[i][s] = verifrt.Intn("w", views)
		}
	}
	firstSlot := cfg.StartSlot
	cl.View = func(node int, slot uint64) int {
		if slot < firstSlot || int(slot-firstSlot) >= nSlots {
			return 0
		}
		return viewOf[node][slot-firstSlot]
	}
	if beaconErrs {
		cl.BeaconErr = func(node, call int) error {
			if call <= 2 && verifrt.Intn("f", 3) == 0 {
				return errors.New("simulated beacon timeout: context deadline exceeded") // temporary: retried
			}
			return nil
		}
	}
	cl.Net.Fate = func(e *simnet.Envelope) simnet.Fate {
		fate := simnet.Fate{Delay: time.Duration(verifrt.Intn("n", maxDelay)) * time.Millisecond}
		r := verifrt.Intn("n", 100)
		switch {
		case r >= 100-dropPct:
			fate.Drop = true
			verifrt.Fault("drop")
		case r >= 100-dropPct-dupPct:
			fate.Duplicate = true
			fate.DupDelay = time.Duration(verifrt.Intn("n", 4*maxDelay)) * time.Millisecond
			verifrt.Fault("duplicate")
		case r >= 100-dropPct-dupPct-longPct:
			fate.Delay = time.Duration(verifrt.Intn("n", 6000)) * time.Millisecond
			verifrt.Fault("long-delay")
		}
		return fate
	}

	isByz := make([]bool, n)
	for k := 0; k < nByz; k++ {
		p := verifrt.Intn("cfg", n)
		for isByz[p] {
			p = (p + 1) % n
		}
		isByz[p] = true
	}
	c.Set("n", n)
	c.Set("validators", cfg.Validators)
	c.Set("slots", nSlots)
	c.Set("byzantine", nByz)
	c.Set("crashes", nCrash)
	c.Set("views", views)

	o := &oracle{c: c, cl: cl, roots: map[string][32]byte{}, first: map[string]cluster.Broadcast{}, firstSlot: firstSlot, nSlots: nSlots, views: views}
	runSyncMsgs = syncMsgs
	cl.OnBcast = o.onBroadcast
	installRealBcast(c, cl, pl, firstSlot, nSlots, beaconErrs, isByz)

	// ---- nodes: start (some late), trigger duties, run validator clients -------------------
	var wg sync.WaitGroup
	crashPlan := map[int]time.Duration{}
	for k := 0; k < nCrash; k++ {
		p := verifrt.Intn("f", n)
		for isByz[p] || crashPlan[p] != 0 {
			p = (p + 1) % n
		}
		crashPlan[p] = time.Duration(1+verifrt.Intn("f", 9000)) * time.Millisecond
	}
	for i := 0; i < n; i++ {
		me := i
		late := time.Duration(0)
		if verifrt.Intn("f", 5) == 4 {
			late = time.Duration(verifrt.Intn("f", 6000)) * time.Millisecond
			verifrt.Fault("late-start")
		}
		if late == 0 {
			cl.StartNode(me)
		}
		wg.Add(1)
		verifrt.Go(func() {
			defer wg.Done()
			if late > 0 {
				verifrt.Sleep(late)
				cl.StartNode(me)
			}
			runNode(ctx, c, cl, me, firstSlot, nSlots, isByz[me], &wg)
		})
		if at, ok := crashPlan[me]; ok {
			restart := verifrt.Intn("f", 2) == 1
			back := time.Duration(500+verifrt.Intn("f", 8000)) * time.Millisecond
			wg.Add(1)
			verifrt.Go(func() {
				defer wg.Done()
				verifrt.Sleep(at)
				if cl.Nodes[me] == nil {
					return
				}
				cl.Crash(me)
				verifrt.Note("crash n%d", me)
				if restart {
					verifrt.Sleep(back)
					verifrt.Fault("restart-amnesia")
					cl.Net.Remove(cl.PeerIDs[me])
					cl.StartNode(me)
					verifrt.Note("restart n%d", me)
					// the restarted node only takes part in duties of later slots (the scheduler does not
					// re-trigger the running slot), but it receives peers' partial signatures for all duties
					if cur.proposer && time.Now().Before(cl.SlotStart(cur.propSlot)) {
						wg.Add(1)
						verifrt.GoNode(cl.Nodes[me].Tag, func() { defer wg.Done(); proposerAt(ctx, cl, me, false) })
					}
					startAggKinds(ctx, cl, me, false)
					startMoreKinds(ctx, cl, me, false, true)
					for s := 0; s < nSlots; s++ {
						slot := firstSlot + uint64(s)
						if time.Now().Before(cl.SlotStart(slot).Add(cfg.SlotDuration / 3)) {
							wg.Add(1)
							verifrt.GoNode(cl.Nodes[me].Tag, func() { defer wg.Done(); dutyAt(ctx, c, cl, me, slot, false) })
						}
					}
				}
			})
		}
	}
	// run until the last slot is over and everything in flight has settled (retries back off for
	// seconds); crashed nodes' goroutines never finish, so this is a fixed simulated duration
	_ = &wg
	end := cl.SlotStart(firstSlot + uint64(nSlots)).Add(40 * time.Second)
	verifrt.Sleep(time.Until(end))
	o.final()
	cancel()
}

// runNode triggers node i's duties at their time and runs its validator client.
func runNode(ctx context.Context, c *kernel.Ctx, cl *cluster.Cluster, i int, firstSlot uint64, nSlots int, byz bool, wg *sync.WaitGroup) {
	if n := cl.Nodes[i]; n != nil && cur.proposer {
		wg.Add(1)
		verifrt.GoNode(n.Tag, func() { defer wg.Done(); proposerAt(ctx, cl, i, byz) })
	}
	startAggKinds(ctx, cl, i, byz)
	startMoreKinds(ctx, cl, i, byz, false)
	for s := 0; s < nSlots; s++ {
		slot := firstSlot + uint64(s)
		n := cl.Nodes[i]
		if n == nil {
			return
		}
		wg.Add(1)
		verifrt.GoNode(n.Tag, func() { defer wg.Done(); dutyAt(ctx, c, cl, i, slot, byz) })
	}
}

func dutyAt(ctx context.Context, c *kernel.Ctx, cl *cluster.Cluster, i int, slot uint64, byz bool) {
	n := cl.Nodes[i]
	at := cl.SlotStart(slot).Add(cl.Cfg.SlotDuration / 3)
	if d := time.Until(at); d > 0 {
		verifrt.Sleep(d)
	}
	if j := verifrt.Intn("w", 4); j > 0 {
		verifrt.Sleep(time.Duration(j*j*40) * time.Millisecond) // nodes' clocks and beacon nodes differ a little
	}
	duty := core.NewAttesterDuty(slot)
	n.Sched.Trigger(n.Ctx, duty, cl.DefSet(slot))
	if byz {
		verifrt.Go(func() { byzantine(ctx, cl, i, slot) })
		verifrt.Go(func() { byzantineDecidedAtt(ctx, cl, i, slot) }) // realbcast_test.go
	}
	if runSyncMsgs {
		// sync committee messages need no consensus: every validator client signs the head root of its
		// own beacon view and submits it
		vals := cl.Vals
		if batchVC(cl) {
			// a validator client that serves all its validators with one call (realbcast_test.go)
			vals = nil
			verifrt.Go(func() { syncMessagesBatch(cl, n, i, slot) })
		}
		for _, v := range vals {
			v := v
			verifrt.Go(func() {
				verifrt.Sleep(time.Duration(verifrt.Intn("w", 400)) * time.Millisecond)
				view := 0
				if cl.View != nil {
					view = cl.View(i, slot)
				}
				msg := syncMessage(cl, v, slot, slot, headRoot(slot, view), v.Shares[i+1])
				err := n.VAPI.SubmitSyncCommitteeMessages(n.Ctx, []*altair.SyncCommitteeMessage{msg})
				verifrt.Note("n%d vc sync-msg slot %d val %d view %d err=%v", i, slot, v.Index, view, err != nil)
			})
		}
	}
	// validator client: one request per validator, slow or absent in some runs
	attVals := cl.Vals
	if batchVC(cl) {
		// ... or one request for all validators of the slot (realbcast_test.go)
		attVals = nil
		attestBatch(cl, n, i, slot)
	}
	for _, v := range attVals {
		v := v
		mode := verifrt.Intn("w", 8)
		if mode == 7 {
			verifrt.Fault("vc-absent")
			continue
		}
		verifrt.Go(func() {
			if mode == 6 {
				verifrt.Fault("vc-slow")
				verifrt.Sleep(time.Duration(1+verifrt.Intn("w", 8)) * time.Second)
			}
			err := runVC(cl, n, slot, v)
			verifrt.Note("n%d vc slot %d val %d err=%v", i, slot, v.Index, err != nil)
			if err == nil && mode == 5 {
				verifrt.Fault("vc-duplicate-submission")
				_ = runVC(cl, n, slot, v)
			}
		})
	}
}

// byzantine sends, signed with node i's own key share, partial signatures over other data, for other
// validators, for other duties, duplicates and equivocating pairs, straight to peers' parsigex handlers.
func byzantine(ctx context.Context, cl *cluster.Cluster, i int, slot uint64) {
	moves := 1 + verifrt.Intn("a", 5)
	for m := 0; m < moves && ctx.Err() == nil; m++ {
		verifrt.Sleep(time.Duration(verifrt.Intn("a", 3000)) * time.Millisecond)
		v := cl.Vals[verifrt.Intn("a", len(cl.Vals))]
		view := 3 + verifrt.Intn("a", 3) // data no honest beacon node serves
		if verifrt.Intn("a", 3) == 0 {
			view = verifrt.Intn("a", 3) // or a legitimate candidate that may differ from the decided one
		}
		dslot := slot
		if verifrt.Intn("a", 4) == 0 {
			dslot = slot + uint64(verifrt.Intn("a", 3)) // another duty
		}
		// Electra runs: mostly Electra-format partials over (other) index-0 data; also the same data in a
		// Deneb container (same message root as the honest partials when the view is the decided one),
		// pre-Electra style data (index = committee) in an Electra container, and Electra-format partials
		// whose unsigned validator index is missing (the old releases' wire format) or names another validator
		attFmt := 0
		if cur.electra {
			attFmt = verifrt.Intn("a", 6)
		}
		mk := func(view int, signer tbls.PrivateKey, shareIdx int) *pbv1.ParSigExMsg {
			var att *eth2spec.VersionedAttestation
			switch {
			case !cur.electra:
				att = cl.SignAttestation(signer, v, cl.AttData(view, eth2p0.Slot(dslot), v.Committee))
			case attFmt == 1:
				verifrt.Fault("byz:electra-data-in-deneb-container")
				att = signAtt(cl, signer, v, electraData(cl, view, eth2p0.Slot(dslot), v.Committee), false)
			case attFmt == 2:
				att = signAtt(cl, signer, v, cl.AttData(view, eth2p0.Slot(dslot), v.Committee), true)
			default:
				att = signAtt(cl, signer, v, electraData(cl, view, eth2p0.Slot(dslot), v.Committee), true)
				switch attFmt {
				case 4:
					verifrt.Fault("byz:att-without-validator-index")
					att.ValidatorIndex = nil
				case 5:
					verifrt.Fault("byz:att-foreign-validator-index")
					vi := cl.Vals[(valPos(cl, v)+1)%len(cl.Vals)].Index
					if vi == v.Index {
						vi = 9999
					}
					att.ValidatorIndex = &vi
				}
			}
			ps, err := core.NewPartialVersionedAttestation(att, shareIdx)
			if err != nil {
				panic(err)
			}
			set, err := core.ParSignedDataSetToProto(core.ParSignedDataSet{v.CorePK: ps})
			if err != nil {
				panic(err)
			}
			return &pbv1.ParSigExMsg{Duty: core.DutyToProto(core.NewAttesterDuty(dslot)), DataSet: set}
		}
		own := v.Shares[i+1]
		var msgs []*pbv1.ParSigExMsg
		if runSyncMsgs && verifrt.Intn("a", 3) == 0 {
			// a partial signature that is valid for its own slot and fork - a sync message for the same
			// head root but a slot beyond the fork boundary - sent under the honest duty: it passes the
			// per-partial check and has the same message root as the honest partials
			other := (slot/cl.Cfg.SlotsPerEpoch+1)*cl.Cfg.SlotsPerEpoch + uint64(verifrt.Intn("a", 3))
			m := syncMessage(cl, v, slot, other, headRoot(slot, verifrt.Intn("a", 3)), own)
			set, err := core.ParSignedDataSetToProto(core.ParSignedDataSet{v.CorePK: core.NewPartialSignedSyncMessage(m, i+1)})
			if err != nil {
				panic(err)
			}
			x := &pbv1.ParSigExMsg{Duty: core.DutyToProto(core.NewSyncMessageDuty(slot)), DataSet: set}
			for to := 0; to < cl.Cfg.N; to++ {
				if to != i {
					verifrt.Fault("byz:cross-fork-sync-partial")
					cl.Net.Inject(cl.PeerIDs[i], cl.PeerIDs[to], protoParSigEx, frame(x), time.Duration(verifrt.Intn("a", 200))*time.Millisecond)
				}
			}
			continue
		}
		switch verifrt.Intn("a", 5) {
		case 0: // other data, own share
			msgs = []*pbv1.ParSigExMsg{mk(view, own, i+1)}
		case 1: // equivocating pair
			msgs = []*pbv1.ParSigExMsg{mk(view, own, i+1), mk(view+1, own, i+1)}
		case 2: // own signature claimed under another share index
			msgs = []*pbv1.ParSigExMsg{mk(view, own, 1+(i+1)%cl.Cfg.N)}
		case 3: // duplicate of the same message
			x := mk(view, own, i+1)
			msgs = []*pbv1.ParSigExMsg{x, x}
		case 4: // signature by a key that is no share at all
			rogue := v.Shares[i+1]
			rogue[31] ^= 0x5a // some other scalar: no share of this validator
			msgs = []*pbv1.ParSigExMsg{mk(view, rogue, i+1)}
		}
		for k, msg := range msgs {
			for to := 0; to < cl.Cfg.N; to++ {
				if to == i || (len(msgs) == 2 && to%2 != k%2 && verifrt.Intn("a", 2) == 0) {
					continue
				}
				verifrt.Fault("byz:parsig")
				cl.Net.Inject(cl.PeerIDs[i], cl.PeerIDs[to], protoParSigEx, frame(msg), time.Duration(verifrt.Intn("a", 200))*time.Millisecond)
			}
		}
	}
}

var runSyncMsgs bool

func headRoot(slot uint64, view int) eth2p0.Root { return eth2p0.Root{0xb0, byte(slot), byte(view)} }

// syncMessage builds a sync committee message for msgSlot over root, signed with key under the
// domain of msgSlot's epoch (consensus spec: DOMAIN_SYNC_COMMITTEE, signing root of the block root).
func syncMessage(cl *cluster.Cluster, v *cluster.Validator, _ uint64, msgSlot uint64, root eth2p0.Root, key tbls.PrivateKey) *altair.SyncCommitteeMessage {
	epoch := eth2p0.Epoch(msgSlot / cl.Cfg.SlotsPerEpoch)
	dom := simbeacon.ComputeDomain(simbeacon.DomainTypes["DOMAIN_SYNC_COMMITTEE"], cl.Chain.VersionAt(epoch), cl.Chain.GenesisValidatorsRoot)
	sr := simbeacon.SigningRoot(root, dom)
	sig, err := tbls.Sign(key, sr[:])
	if err != nil {
		panic(err)
	}
	return &altair.SyncCommitteeMessage{Slot: eth2p0.Slot(msgSlot), BeaconBlockRoot: root, ValidatorIndex: v.Index, Signature: eth2p0.BLSSignature(sig)}
}

// ---- oracles ----------------------------------------------------------------------------------

type oracle struct {
	c         *kernel.Ctx
	cl        *cluster.Cluster
	mu        sync.Mutex
	roots     map[string][32]byte
	first     map[string]cluster.Broadcast
	firstSlot uint64
	nSlots    int
	views     int
	done      map[string]bool
	moreKeys  map[string]bool // (duty, validator) keys of broadcast exits and builder registrations
}

func (o *oracle) onBroadcast(b cluster.Broadcast) {
	c, cl := o.c, o.cl
	key := fmt.Sprintf("%s/%s", b.Duty, string(b.PubKey)[:10])
	verifrt.Note("broadcast n%d %s", b.Node, key)
	c.Progress()
	if sm, ok := b.Data.(core.SignedSyncMessage); ok {
		o.onSyncMessage(b, key, sm)
		return
	}
	switch d := b.Data.(type) {
	case core.SignedRandao:
		o.onRandao(b, key, d)
		return
	case core.VersionedSignedProposal:
		o.onProposal(b, key, d)
		return
	}
	if o.onAggKinds(b, key) || o.onMoreKinds(b, key) {
		return
	}
	att, ok := b.Data.(core.VersionedAttestation)
	if !ok {
		c.Violate("C01", "broadcast-type", "unexpected-signed-data-type", "node %d broadcast %T for %s", b.Node, b.Data, key)
		return
	}
	data, err := att.Data()
	if err != nil {
		c.Violate("C01", "broadcast-type", "attestation-without-data", "node %d: %v", b.Node, err)
		return
	}
	// (i) the signature verifies under the validator's group key for the object's own signing root,
	// computed here from the consensus-spec definitions.
	objRoot, err := data.HashTreeRoot()
	if err != nil {
		panic(err)
	}
	// consensus spec: DOMAIN_BEACON_ATTESTER at data.target.epoch (the same for every attestation format)
	if data.Target == nil || data.Source == nil {
		c.Violate("C01", "broadcast-type", "attestation-without-data", "node %d: attestation data without checkpoints", b.Node)
		return
	}
	dom := simbeacon.ComputeDomain(simbeacon.DomainTypes["DOMAIN_BEACON_ATTESTER"], cl.Chain.VersionAt(data.Target.Epoch), cl.Chain.GenesisValidatorsRoot)
	sr := simbeacon.SigningRoot(objRoot, dom)
	var val *cluster.Validator
	for _, v := range cl.Vals {
		if v.CorePK == b.PubKey {
			val = v
		}
	}
	if val == nil {
		c.Violate("C01", "unknown-validator", "broadcast-for-validator-outside-cluster", "node %d broadcast for unknown validator %s", b.Node, b.PubKey)
		return
	}
	sig := att.Signature()
	if err := tbls.Verify(val.PubKey, sr[:], tbls.Signature(sig)); err != nil {
		c.Violate("C01", "invalid-group-signature", "broadcast-signature-does-not-verify-under-group-key", "node %d broadcast %s whose signature does not verify under the validator's group public key for its own signing root: %v", b.Node, key, err)
	}
	// (ii) one signing root per (duty, validator), across nodes and time
	o.mu.Lock()
	if prev, ok := o.roots[key]; ok && prev != sr {
		f := o.first[key]
		o.mu.Unlock()
		c.Violate("C01", "two-signing-roots", "different-signed-objects-for-one-duty-and-validator", "%s: node %d broadcast signing root %x at %v but node %d broadcast %x at %v", key, f.Node, prev[:6], f.At, b.Node, sr[:6], b.At)
		o.mu.Lock()
	} else if !ok {
		o.roots[key] = sr
		o.first[key] = b
	}
	o.mu.Unlock()
	// (iii) the signed content is a datum some honest node's beacon node served
	if b.Duty.Slot != uint64(data.Slot) {
		c.Violate("C01", "validity", "signed-content-for-another-slot", "%s: node %d broadcast attestation data of slot %d", key, b.Node, data.Slot)
	}
	okView := false
	for view := 0; view < o.views; view++ {
		served := cl.AttData(view, data.Slot, val.Committee)
		if cur.electra {
			served = electraData(cl, view, data.Slot, val.Committee) // Electra beacon nodes serve index 0
		}
		r, _ := served.HashTreeRoot()
		if r == objRoot {
			okView = true
		}
	}
	if !okView {
		c.Violate("C01", "validity", "signed-content-never-fetched-by-an-honest-node", "%s: node %d broadcast attestation data (head %x index %d) that no honest node's beacon node served", key, b.Node, data.BeaconBlockRoot[:3], data.Index)
		return
	}
	// reach probes: which format completed, and whether the (unsigned) carrier fields are the honest ones
	switch {
	case att.Version == eth2spec.DataVersionElectra && cur.electra:
		o.mark("att-electra")
		ci, err := att.CommitteeIndex()
		if err != nil || ci != val.Committee || att.ValidatorIndex == nil || *att.ValidatorIndex != val.Index {
			verifrt.Probe("broadcast-attestation-with-foreign-unsigned-fields")
		}
	case att.Version == eth2spec.DataVersionDeneb && !cur.electra:
		o.mark("att-deneb")
	default:
		verifrt.Probe("broadcast-attestation-in-foreign-container")
	}
}

func (o *oracle) onSyncMessage(b cluster.Broadcast, key string, sm core.SignedSyncMessage) {
	c, cl := o.c, o.cl
	var val *cluster.Validator
	for _, v := range cl.Vals {
		if v.CorePK == b.PubKey {
			val = v
		}
	}
	if val == nil {
		c.Violate("C01", "unknown-validator", "broadcast-for-validator-outside-cluster", "node %d broadcast for unknown validator %s", b.Node, b.PubKey)
		return
	}
	// (i) valid under the group key for the object's own signing root, domain and epoch
	epoch := eth2p0.Epoch(uint64(sm.Slot) / cl.Cfg.SlotsPerEpoch)
	dom := simbeacon.ComputeDomain(simbeacon.DomainTypes["DOMAIN_SYNC_COMMITTEE"], cl.Chain.VersionAt(epoch), cl.Chain.GenesisValidatorsRoot)
	sr := simbeacon.SigningRoot(sm.BeaconBlockRoot, dom)
	if err := tbls.Verify(val.PubKey, sr[:], tbls.Signature(sm.SyncCommitteeMessage.Signature)); err != nil {
		c.Violate("C01", "invalid-group-signature", "broadcast-signature-does-not-verify-under-group-key", "node %d broadcast sync message %s (slot %d) whose signature does not verify under the validator's group public key for its own signing root: %v", b.Node, key, sm.Slot, err)
	}
	// (ii) one signing root per (duty, validator)
	o.mu.Lock()
	if prev, ok := o.roots[key]; ok && prev != sr {
		f := o.first[key]
		o.mu.Unlock()
		c.Violate("C01", "two-signing-roots", "different-signed-objects-for-one-duty-and-validator", "%s: node %d broadcast signing root %x at %v but node %d broadcast %x at %v", key, f.Node, prev[:6], f.At, b.Node, sr[:6], b.At)
		o.mu.Lock()
	} else if !ok {
		o.roots[key] = sr
		o.first[key] = b
	}
	o.mu.Unlock()
	// (iii) content is what some honest node's validator client signed: the duty's slot and a served head root
	okRoot := false
	for view := 0; view < o.views; view++ {
		if sm.BeaconBlockRoot == headRoot(b.Duty.Slot, view) {
			okRoot = true
		}
	}
	if !okRoot {
		c.Violate("C01", "validity", "signed-content-never-signed-by-an-honest-validator-client", "%s: node %d broadcast a sync message for slot %d root %x which no honest validator client signed for this duty", key, b.Node, sm.Slot, sm.BeaconBlockRoot[:3])
	} else if uint64(sm.Slot) != b.Duty.Slot {
		// the slot of a sync committee message is not part of its signing root (only its epoch's fork version
		// is): a Byzantine partial for another slot of the same fork and the same head root matches the honest
		// ones, and sigagg takes the carrier object from the first partial. The statement (valid group
		// signature, one signing root) holds; the foreign unsigned field is recorded, like the other carrier fields
		verifrt.Probe("broadcast-sync-message-with-foreign-unsigned-slot")
	}
}

func (o *oracle) final() {
	o.mu.Lock()
	defer o.mu.Unlock()
	o.c.Set("duty_validator_pairs_completed", len(o.roots))
	o.finalMoreKinds()
	total := o.nSlots * len(o.cl.Vals)
	if runSyncMsgs {
		total *= 2
	}
	if cur.proposer {
		total += 2 // randao and block of the proposing validator
	}
	total += aggKindsTotal(o.cl, cur)
	o.c.Set("pairs_total", total)
	if len(o.roots)-len(o.moreKeys) == total { // exits and registrations (moreKeys) have no fixed number of objects
		verifrt.Probe("all-duties-completed")
	}
	for _, kind := range []string{"att-deneb", "att-electra", "randao", "proposer"} {
		if o.done[kind] {
			verifrt.Probe("completed:" + kind)
		}
	}
	// the aggregation pipelines: at least one object of the kind reached a broadcaster (and passed the oracles' type checks)
	for _, kind := range []string{"prepare_aggregator", "aggregator", "prepare_sync_contribution", "sync_contribution"} {
		if o.done[kind] {
			verifrt.Probe("bcast:" + kind)
		}
	}
}
