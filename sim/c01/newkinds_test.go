//go:build verif

package c01

// Further duty kinds of a C01 run: Electra-format attestations and the proposer pipeline
// (DutyRandao -> DutyProposer). What the harness restates from the consensus specification (NOT from
// core/eth2signeddata.go) for the objects it signs as a validator client and checks at the broadcaster:
//
//	object                       domain                    epoch of the fork version        signed object root
//	Attestation (any format)     DOMAIN_BEACON_ATTESTER    data.target.epoch                hash_tree_root(AttestationData)
//	  Electra (EIP-7549): data.index = 0, the committee is carried in committee_bits, the attester in the
//	  SingleAttestation's attester_index; neither is part of the signed AttestationData.
//	randao reveal                DOMAIN_RANDAO             compute_epoch_at_slot(block.slot) hash_tree_root(uint64 epoch)
//	BeaconBlock                  DOMAIN_BEACON_PROPOSER    compute_epoch_at_slot(block.slot) hash_tree_root(BeaconBlock)
//
// signing_root = hash_tree_root(SigningData{object_root, compute_domain(domain_type, fork_version_at(epoch), genesis_validators_root)}).

import (
	"context"
	"encoding/binary"
	"fmt"
	"sync"
	"time"

	"github.com/OffchainLabs/go-bitfield"
	eth2api "github.com/attestantio/go-eth2-client/api"
	eth2v1 "github.com/attestantio/go-eth2-client/api/v1"
	eth2spec "github.com/attestantio/go-eth2-client/spec"
	"github.com/attestantio/go-eth2-client/spec/altair"
	"github.com/attestantio/go-eth2-client/spec/bellatrix"
	"github.com/attestantio/go-eth2-client/spec/capella"
	"github.com/attestantio/go-eth2-client/spec/electra"
	eth2p0 "github.com/attestantio/go-eth2-client/spec/phase0"

	"github.com/obolnetwork/charon/app/errors"
	"github.com/obolnetwork/charon/core"
	pbv1 "github.com/obolnetwork/charon/core/corepb/v1"
	"github.com/obolnetwork/charon/tbls"
	"github.com/obolnetwork/charon/verifrt"

	"verifsim/cluster"
	"verifsim/simbeacon"
)

// plan is the per-run choice of the further duty kinds (runs are sequential in a worker process).
type plan struct {
	electra  bool // attestations of this run are Electra-format (beacon nodes serve data.index = 0)
	proposer bool // one validator proposes in one slot of the run: randao, then the block
	propSlot uint64
	propVal  *cluster.Validator
	// groupRandao is THE randao reveal of propVal for propSlot's epoch: BLS signatures are unique, so any
	// threshold of valid partial reveals aggregates to exactly this value.
	groupRandao eth2p0.BLSSignature

	aggPlan   // the aggregation pipelines (aggkinds_test.go)
	morePlan  // proposer variants (builder/blinded, Deneb block contents), exits, builder registrations (morekinds_test.go)
	bcastPlan // the real core/bcast behind the recorder; old-release nodes (realbcast_test.go)

	mu       sync.Mutex
	served   map[eth2p0.Root]string // blocks the nodes' beacon nodes produced for propSlot: root -> "n<i>/view<v>"
	graffiti *[32]byte              // graffiti of a served block (all nodes request the same default graffiti)
}

var cur = &plan{}

func epochOf(cl *cluster.Cluster, slot uint64) eth2p0.Epoch {
	return eth2p0.Epoch(slot / cl.Cfg.SlotsPerEpoch)
}

// htrUint64 is hash_tree_root of a uint64 basic value: its little-endian bytes padded to one chunk.
func htrUint64(x uint64) (r eth2p0.Root) {
	binary.LittleEndian.PutUint64(r[:8], x)
	return r
}

func specSigningRoot(cl *cluster.Cluster, domain string, epoch eth2p0.Epoch, objRoot eth2p0.Root) [32]byte {
	dom := simbeacon.ComputeDomain(simbeacon.DomainTypes[domain], cl.Chain.VersionAt(epoch), cl.Chain.GenesisValidatorsRoot)
	return simbeacon.SigningRoot(objRoot, dom)
}

func signRoot(key tbls.PrivateKey, sr [32]byte) eth2p0.BLSSignature {
	sig, err := tbls.Sign(key, sr[:])
	if err != nil {
		panic(err)
	}
	return eth2p0.BLSSignature(sig)
}

// ---- attestations, Electra format ----------------------------------------------------------------

// attSigningRoot: DOMAIN_BEACON_ATTESTER at data.target.epoch over hash_tree_root(data).
func attSigningRoot(cl *cluster.Cluster, data *eth2p0.AttestationData) [32]byte {
	root, err := data.HashTreeRoot()
	if err != nil {
		panic(err)
	}
	return specSigningRoot(cl, "DOMAIN_BEACON_ATTESTER", data.Target.Epoch, root)
}

// electraData is the attestation data an Electra beacon node of a view serves: index 0 for every committee.
func electraData(cl *cluster.Cluster, view int, slot eth2p0.Slot, comm eth2p0.CommitteeIndex) *eth2p0.AttestationData {
	d := cl.AttData(view, slot, comm)
	d.Index = 0
	return d
}

// signAtt signs data with key and wraps it the way the validator API receives it from the router:
// Electra = the SingleAttestation converted to an electra.Attestation with one committee bit, empty
// aggregation bits and the attester's validator index beside it; otherwise a Deneb attestation.
func signAtt(cl *cluster.Cluster, key tbls.PrivateKey, v *cluster.Validator, data *eth2p0.AttestationData, asElectra bool) *eth2spec.VersionedAttestation {
	sig := signRoot(key, attSigningRoot(cl, data))
	if !asElectra {
		bits := bitfield.NewBitlist(8)
		bits.SetBitAt(v.CommPos, true)
		return &eth2spec.VersionedAttestation{Version: eth2spec.DataVersionDeneb, Deneb: &eth2p0.Attestation{AggregationBits: bits, Data: data, Signature: sig}}
	}
	cbits := bitfield.NewBitvector64()
	cbits.SetBitAt(uint64(v.Committee), true)
	vi := v.Index
	return &eth2spec.VersionedAttestation{Version: eth2spec.DataVersionElectra, ValidatorIndex: &vi,
		Electra: &electra.Attestation{AggregationBits: bitfield.NewBitlist(0), Data: data, Signature: sig, CommitteeBits: cbits}}
}

// runVC is node i's validator client for one attester slot and validator, in the run's attestation format.
func runVC(cl *cluster.Cluster, n *cluster.Node, slot uint64, v *cluster.Validator) error {
	if !cur.electra {
		return cl.RunVC(n, slot, v)
	}
	// Electra validator clients ask for committee index 0; some still ask for their own committee
	comm := eth2p0.CommitteeIndex(0)
	if verifrt.Intn("w", 3) == 2 {
		comm = v.Committee
	}
	resp, err := n.VAPI.AttestationData(n.Ctx, &eth2api.AttestationDataOpts{Slot: eth2p0.Slot(slot), CommitteeIndex: comm})
	if err != nil {
		return err
	}
	att := signAtt(cl, v.Shares[n.Idx+1], v, resp.Data, true)
	return n.VAPI.SubmitAttestations(n.Ctx, &eth2api.SubmitAttestationsOpts{Attestations: []*eth2spec.VersionedAttestation{att}})
}

// ---- proposer pipeline ---------------------------------------------------------------------------

func randaoSigningRoot(cl *cluster.Cluster, epoch eth2p0.Epoch) [32]byte {
	return specSigningRoot(cl, "DOMAIN_RANDAO", epoch, htrUint64(uint64(epoch)))
}

func blockSigningRoot(cl *cluster.Cluster, blk *capella.BeaconBlock) [32]byte {
	root, err := blk.HashTreeRoot()
	if err != nil {
		panic(err)
	}
	return specSigningRoot(cl, "DOMAIN_BEACON_PROPOSER", epochOf(cl, uint64(blk.Slot)), root)
}

func rootOf(tag byte, a, b uint64) (r eth2p0.Root) {
	r[0] = tag
	binary.LittleEndian.PutUint64(r[1:], a)
	binary.LittleEndian.PutUint64(r[9:], b)
	for i := 17; i < 32; i++ {
		r[i] = byte(int(tag)*7 + i*13 + int(a) + int(b)*3)
	}
	return r
}

func sigOf(tag byte, a uint64) (s eth2p0.BLSSignature) {
	for i := range s {
		s[i] = byte(int(tag) + i*5 + int(a)*11 + 1)
	}
	return s
}

// viewBlock is the complete Capella block the beacon node of a view produces for (slot, randao reveal,
// graffiti): every byte is a function of the arguments, views differ in parent, state, payload, ...
func viewBlock(view int, slot uint64, v *cluster.Validator, randao eth2p0.BLSSignature, graffiti [32]byte) *capella.BeaconBlock {
	salt := uint64(view)
	bytesOf := func(tag byte, a, b uint64) []byte { r := rootOf(tag, a, b); return r[:] }
	ep := &capella.ExecutionPayload{ParentHash: eth2p0.Hash32(rootOf(0xe1, slot, salt)), StateRoot: rootOf(0xe2, slot, salt), ReceiptsRoot: rootOf(0xe3, slot, salt),
		PrevRandao: rootOf(0xe4, slot, salt), BlockNumber: slot, GasLimit: 30_000_000, GasUsed: salt, Timestamp: 1_700_000_000 + slot*12,
		ExtraData: []byte{0xc1, 0x0, byte(salt)}, BaseFeePerGas: rootOf(0xe5, 7, salt), BlockHash: eth2p0.Hash32(rootOf(0xe6, slot, salt)),
		Transactions: []bellatrix.Transaction{{0x02, byte(salt), 0x01}},
		Withdrawals:  []*capella.Withdrawal{{Index: capella.WithdrawalIndex(salt), ValidatorIndex: v.Index, Amount: 1}}}
	copy(ep.FeeRecipient[:], bytesOf(0xe7, slot, salt)[:20])
	sa := &altair.SyncAggregate{SyncCommitteeBits: bitfield.NewBitvector512(), SyncCommitteeSignature: sigOf(0x5a, salt)}
	sa.SyncCommitteeBits.SetBitAt(salt%512, true)
	bits := bitfield.NewBitlist(8)
	bits.SetBitAt(1, true)
	return &capella.BeaconBlock{Slot: eth2p0.Slot(slot), ProposerIndex: v.Index, ParentRoot: rootOf(0xb1, slot, salt), StateRoot: rootOf(0xb2, slot, salt),
		Body: &capella.BeaconBlockBody{RANDAOReveal: randao, ETH1Data: &eth2p0.ETH1Data{DepositRoot: rootOf(0xd0, 1, salt), DepositCount: 3, BlockHash: bytesOf(0xd1, 2, salt)},
			Graffiti: graffiti, ProposerSlashings: []*eth2p0.ProposerSlashing{}, AttesterSlashings: []*eth2p0.AttesterSlashing{},
			Attestations: []*eth2p0.Attestation{{AggregationBits: bits, Data: &eth2p0.AttestationData{Slot: eth2p0.Slot(slot - 1), Index: 1, BeaconBlockRoot: rootOf(0xb3, slot, salt),
				Source: &eth2p0.Checkpoint{Epoch: 1, Root: rootOf(0xb4, 1, 1)}, Target: &eth2p0.Checkpoint{Epoch: 2, Root: rootOf(0xb5, 2, 2)}}, Signature: sigOf(0xa7, salt)}},
			Deposits: []*eth2p0.Deposit{}, VoluntaryExits: []*eth2p0.SignedVoluntaryExit{}, SyncAggregate: sa, ExecutionPayload: ep,
			BLSToExecutionChanges: []*capella.SignedBLSToExecutionChange{}}}
}

func proposerDef(v *cluster.Validator, slot uint64) core.DutyDefinitionSet {
	return core.DutyDefinitionSet{v.CorePK: core.NewProposerDefinition(&eth2v1.ProposerDuty{PubKey: eth2p0.BLSPubKey(v.PubKey), Slot: eth2p0.Slot(slot), ValidatorIndex: v.Index})}
}

// installBeacon makes every node's beacon node serve the run's further endpoints: Electra attestation
// data (index 0) and the node view's block for the proposer slot.
func installBeacon(cl *cluster.Cluster, p *plan, beaconErrs bool) {
	if !p.electra && !p.proposer && !p.aggregator && !p.contrib {
		return
	}
	cl.WithGraffiti = p.proposer
	cl.BeaconSetup = func(n *cluster.Node) {
		installAggBeacon(cl, p, n, beaconErrs)
		if p.electra {
			orig := n.Beacon.AttData
			n.Beacon.AttData = func(ctx context.Context, slot eth2p0.Slot, comm eth2p0.CommitteeIndex) (*eth2p0.AttestationData, error) {
				d, err := orig(ctx, slot, comm)
				if err == nil {
					d.Index = 0
				}
				return d, err
			}
		}
		if !p.proposer {
			return
		}
		calls := 0
		n.Beacon.ProposalFn = func(_ context.Context, opts *eth2api.ProposalOpts) (*eth2api.VersionedProposal, error) {
			calls++
			if beaconErrs && calls == 1 && verifrt.Intn("f", 3) == 0 {
				verifrt.Fault("beacon-error-proposal")
				return nil, errors.New("simulated beacon node: block production not ready (retryable)")
			}
			if uint64(opts.Slot) != p.propSlot {
				return nil, errors.New("simulated beacon node: validator does not propose in this slot")
			}
			view := 0
			if cl.View != nil {
				view = cl.View(n.Idx, uint64(opts.Slot))
			}
			// the run's proposal variant: a full Capella block, or (morekinds_test.go) a blinded Capella
			// block / Deneb block contents
			vp, root := p.viewProposal(n.Idx, view, opts)
			p.mu.Lock()
			g := opts.Graffiti
			p.graffiti = &g
			if _, ok := p.served[root]; !ok {
				p.served[root] = fmt.Sprintf("n%d/view%d", n.Idx, view)
			}
			p.mu.Unlock()
			verifrt.Note("n%d beacon proposal slot %d view %d root %x", n.Idx, opts.Slot, view, root[:4])
			return vp, nil
		}
	}
}

// runProposerVC is node i's validator client for the proposer slot: it reveals randao (partial, with the
// node's share) through the validator API's block production endpoint, which returns the agreed block
// once the cluster has aggregated the reveal, fetched and decided; then signs that block and submits it.
func runProposerVC(cl *cluster.Cluster, n *cluster.Node, p *plan) error {
	share := p.propVal.Shares[n.Idx+1]
	reveal := signRoot(share, randaoSigningRoot(cl, epochOf(cl, p.propSlot)))
	resp, err := n.VAPI.Proposal(n.Ctx, &eth2api.ProposalOpts{Slot: eth2p0.Slot(p.propSlot), RandaoReveal: reveal})
	if err != nil {
		return err
	}
	if p.propKind != propCapella {
		return submitVariantProposal(cl, n, share, resp.Data) // morekinds_test.go
	}
	if resp.Data.Version != eth2spec.DataVersionCapella || resp.Data.Capella == nil || resp.Data.Blinded {
		return errors.New("validator client: unexpected block version")
	}
	blk := resp.Data.Capella
	signed := &eth2api.VersionedSignedProposal{Version: eth2spec.DataVersionCapella,
		Capella: &capella.SignedBeaconBlock{Message: blk, Signature: signRoot(share, blockSigningRoot(cl, blk))}}
	return n.VAPI.SubmitProposal(n.Ctx, &eth2api.SubmitProposalOpts{Proposal: signed})
}

// proposerAt triggers node i's proposer duty at the start of the proposer slot and runs its validator client.
func proposerAt(ctx context.Context, cl *cluster.Cluster, i int, byz bool) {
	p := cur
	n := cl.Nodes[i]
	if d := time.Until(cl.SlotStart(p.propSlot)); d > 0 {
		verifrt.Sleep(d)
	}
	if j := verifrt.Intn("w", 4); j > 0 {
		verifrt.Sleep(time.Duration(j*j*40) * time.Millisecond)
	}
	n.Sched.Trigger(n.Ctx, core.NewProposerDuty(p.propSlot), proposerDef(p.propVal, p.propSlot))
	if byz {
		verifrt.Go(func() { byzantineProposer(ctx, cl, i) })
		if p.propKind == propDeneb {
			verifrt.Go(func() { byzantineDecidedBlobs(ctx, cl, i) }) // morekinds_test.go
		}
	}
	mode := verifrt.Intn("w", 8)
	if mode == 7 {
		verifrt.Fault("vc-absent-proposer")
		return
	}
	verifrt.Go(func() {
		if mode == 6 {
			verifrt.Fault("vc-slow-proposer")
			verifrt.Sleep(time.Duration(200+verifrt.Intn("w", 3000)) * time.Millisecond)
		}
		err := runProposerVC(cl, n, p)
		verifrt.Note("n%d vc proposer slot %d err=%v", i, p.propSlot, err != nil)
		if err == nil && mode == 5 {
			verifrt.Fault("vc-duplicate-proposal")
			_ = runProposerVC(cl, n, p)
		}
	})
}

func parSigMsg(duty core.Duty, pk core.PubKey, ps core.ParSignedData) *pbv1.ParSigExMsg {
	set, err := core.ParSignedDataSetToProto(core.ParSignedDataSet{pk: ps})
	if err != nil {
		panic(err)
	}
	return &pbv1.ParSigExMsg{Duty: core.DutyToProto(duty), DataSet: set}
}

// byzantineProposer sends, made with node i's own key share, partial signatures of the proposer pipeline
// over OTHER data straight to peers' parsigex handlers: another view's block, a block no beacon node
// serves, a block for another slot (under the honest duty, or under its own duty), equivocating pairs,
// randao reveals for another epoch, reveals/blocks claimed under another share index or by a non-share key.
func byzantineProposer(ctx context.Context, cl *cluster.Cluster, i int) {
	p := cur
	v := p.propVal
	own := v.Shares[i+1]
	var graffiti [32]byte
	copy(graffiti[:], "charon/byz")
	moves := 1 + verifrt.Intn("a", 4)
	for m := 0; m < moves && ctx.Err() == nil; m++ {
		verifrt.Sleep(time.Duration(verifrt.Intn("a", 1500)) * time.Millisecond)
		view := 3 + verifrt.Intn("a", 3) // a block no honest beacon node serves
		if verifrt.Intn("a", 2) == 0 {
			view = verifrt.Intn("a", 3) // or a legitimate candidate that may differ from the decided one
		}
		block := func(view int, slot uint64, key tbls.PrivateKey, shareIdx int) core.ParSignedData {
			if p.propKind != propCapella {
				return byzVariantBlock(cl, p, view, slot, key, shareIdx, graffiti) // morekinds_test.go
			}
			blk := viewBlock(view, slot, v, p.groupRandao, graffiti)
			if g := p.anyServedGraffiti(); g != nil {
				blk.Body.Graffiti = *g // exactly what an honest beacon node of that view serves
			}
			ps, err := core.NewPartialVersionedSignedProposal(&eth2api.VersionedSignedProposal{Version: eth2spec.DataVersionCapella,
				Capella: &capella.SignedBeaconBlock{Message: blk, Signature: signRoot(key, blockSigningRoot(cl, blk))}}, shareIdx)
			if err != nil {
				panic(err)
			}
			return ps
		}
		randao := func(epoch eth2p0.Epoch, key tbls.PrivateKey, shareIdx int) core.ParSignedData {
			return core.NewPartialSignedRandao(epoch, signRoot(key, randaoSigningRoot(cl, epoch)), shareIdx)
		}
		propDuty, randaoDuty := core.NewProposerDuty(p.propSlot), core.NewRandaoDuty(p.propSlot)
		ep := epochOf(cl, p.propSlot)
		var msgs []*pbv1.ParSigExMsg
		name := ""
		switch verifrt.Intn("a", 9) {
		case 8:
			// one block, signed with the node's OWN key share, claimed under EVERY share index (enough entries
			// for a threshold), in half of the cases carrying the marker graffiti with which charon's synthetic
			// proposer labels blocks that must never reach a beacon node
			name = "own-share-under-every-share-index"
			marked := verifrt.Intn("a", 2) == 1
			for idx := 1; idx <= cl.Cfg.N; idx++ {
				ps := block(view, p.propSlot, own, idx)
				if marked && p.propKind == propCapella {
					var mg [32]byte
					copy(mg[:], "SYNTHETIC BLOCK: DO NOT SUBMIT")
					blk := viewBlock(view, p.propSlot, v, p.groupRandao, mg)
					var err error
					ps, err = core.NewPartialVersionedSignedProposal(&eth2api.VersionedSignedProposal{Version: eth2spec.DataVersionCapella,
						Capella: &capella.SignedBeaconBlock{Message: blk, Signature: signRoot(own, blockSigningRoot(cl, blk))}}, idx)
					if err != nil {
						panic(err)
					}
					name = "own-share-under-every-share-index-synthetic-marker"
				}
				msgs = append(msgs, parSigMsg(propDuty, v.CorePK, ps))
			}
		case 0:
			name = "other-view-block"
			msgs = []*pbv1.ParSigExMsg{parSigMsg(propDuty, v.CorePK, block(view, p.propSlot, own, i+1))}
		case 1:
			name = "other-slot-block" // valid for its own slot, sent under the honest duty
			other := p.propSlot + 1 + uint64(verifrt.Intn("a", 2))
			msgs = []*pbv1.ParSigExMsg{parSigMsg(propDuty, v.CorePK, block(view, other, own, i+1))}
		case 2:
			name = "other-duty-block"
			other := p.propSlot + 1 + uint64(verifrt.Intn("a", 2))
			msgs = []*pbv1.ParSigExMsg{parSigMsg(core.NewProposerDuty(other), v.CorePK, block(view, other, own, i+1))}
		case 3:
			name = "equivocating-blocks"
			msgs = []*pbv1.ParSigExMsg{parSigMsg(propDuty, v.CorePK, block(view, p.propSlot, own, i+1)), parSigMsg(propDuty, v.CorePK, block(view+1, p.propSlot, own, i+1))}
		case 4:
			name = "other-epoch-randao" // valid for its own epoch (and fork), sent under the honest duty
			msgs = []*pbv1.ParSigExMsg{parSigMsg(randaoDuty, v.CorePK, randao(ep+1+eth2p0.Epoch(verifrt.Intn("a", 2)), own, i+1))}
		case 5:
			name = "other-share-index"
			idx := 1 + (i+1)%cl.Cfg.N
			msgs = []*pbv1.ParSigExMsg{parSigMsg(propDuty, v.CorePK, block(view, p.propSlot, own, idx)), parSigMsg(randaoDuty, v.CorePK, randao(ep, own, idx))}
		case 6:
			name = "non-share-key"
			rogue := own
			rogue[31] ^= 0x5a
			msgs = []*pbv1.ParSigExMsg{parSigMsg(propDuty, v.CorePK, block(view, p.propSlot, rogue, i+1)), parSigMsg(randaoDuty, v.CorePK, randao(ep, rogue, i+1))}
		case 7:
			name = "randao-as-proposer-duty" // a reveal sent under the proposer duty and a block under the randao duty
			msgs = []*pbv1.ParSigExMsg{parSigMsg(propDuty, v.CorePK, randao(ep, own, i+1)), parSigMsg(randaoDuty, v.CorePK, block(view, p.propSlot, own, i+1))}
		}
		for k, msg := range msgs {
			for to := 0; to < cl.Cfg.N; to++ {
				if to == i || (name == "equivocating-blocks" && to%2 != k%2 && verifrt.Intn("a", 2) == 0) {
					continue
				}
				verifrt.Fault("byz:proposer:" + name)
				cl.Net.Inject(cl.PeerIDs[i], cl.PeerIDs[to], protoParSigEx, frame(msg), time.Duration(verifrt.Intn("a", 200))*time.Millisecond)
			}
		}
	}
}

// anyServedGraffiti returns the graffiti of a block some beacon node served (all honest nodes ask for the
// same default graffiti), nil while none was served.
func (p *plan) anyServedGraffiti() *[32]byte {
	p.mu.Lock()
	defer p.mu.Unlock()
	return p.graffiti
}

// ---- oracles for the further kinds ---------------------------------------------------------------

func (o *oracle) validator(b cluster.Broadcast) *cluster.Validator {
	for _, v := range o.cl.Vals {
		if v.CorePK == b.PubKey {
			return v
		}
	}
	o.c.Violate("C01", "unknown-validator", "broadcast-for-validator-outside-cluster", "node %d broadcast for unknown validator %s", b.Node, b.PubKey)
	return nil
}

// oneRoot is oracle (ii): one signing root per (duty, validator), across nodes and time.
func (o *oracle) oneRoot(b cluster.Broadcast, key string, sr [32]byte) {
	o.mu.Lock()
	prev, ok := o.roots[key]
	f := o.first[key]
	if !ok {
		o.roots[key] = sr
		o.first[key] = b
	}
	o.mu.Unlock()
	if ok && prev != sr {
		o.c.Violate("C01", "two-signing-roots", "different-signed-objects-for-one-duty-and-validator", "%s: node %d broadcast signing root %x at %v but node %d broadcast %x at %v", key, f.Node, prev[:6], f.At, b.Node, sr[:6], b.At)
	}
}

func (o *oracle) mark(kind string) {
	o.mu.Lock()
	if o.done == nil {
		o.done = map[string]bool{}
	}
	o.done[kind] = true
	o.mu.Unlock()
}

func (o *oracle) onRandao(b cluster.Broadcast, key string, r core.SignedRandao) {
	c, cl := o.c, o.cl
	val := o.validator(b)
	if val == nil {
		return
	}
	// (i) valid under the group key for the reveal's own signing root (DOMAIN_RANDAO at the revealed epoch)
	sr := randaoSigningRoot(cl, r.SignedEpoch.Epoch)
	if err := tbls.Verify(val.PubKey, sr[:], tbls.Signature(r.SignedEpoch.Signature)); err != nil {
		c.Violate("C01", "invalid-group-signature", "broadcast-signature-does-not-verify-under-group-key", "node %d broadcast randao reveal %s (epoch %d) whose signature does not verify under the validator's group public key for its own signing root: %v", b.Node, key, r.SignedEpoch.Epoch, err)
	}
	// (ii)
	o.oneRoot(b, key, sr)
	// (iii) the reveal an honest validator client makes for this duty: the epoch of the duty's slot, for the proposer
	if !cur.proposer || b.Duty.Slot != cur.propSlot || val != cur.propVal || r.SignedEpoch.Epoch != epochOf(cl, b.Duty.Slot) {
		c.Violate("C01", "validity", "randao-never-revealed-by-an-honest-validator-client", "%s: node %d broadcast a randao reveal for epoch %d, which no honest validator client signed for this duty", key, b.Node, r.SignedEpoch.Epoch)
		return
	}
	o.mark("randao")
}

func (o *oracle) onProposal(b cluster.Broadcast, key string, sp core.VersionedSignedProposal) {
	c, cl := o.c, o.cl
	val := o.validator(b)
	if val == nil {
		return
	}
	if cur.propKind != propCapella {
		o.onVariantProposal(b, key, val, sp) // morekinds_test.go
		return
	}
	if sp.Version != eth2spec.DataVersionCapella || sp.Blinded || sp.Capella == nil || sp.Capella.Message == nil || sp.Capella.Message.Body == nil {
		c.Violate("C01", "validity", "block-never-produced-by-an-honest-beacon-node", "%s: node %d broadcast a %s block (blinded=%v); honest beacon nodes produce full Capella blocks", key, b.Node, sp.Version, sp.Blinded)
		return
	}
	blk := sp.Capella.Message
	// (i) valid under the group key for the block's own signing root (DOMAIN_BEACON_PROPOSER at the epoch of block.slot)
	sr := blockSigningRoot(cl, blk)
	if err := tbls.Verify(val.PubKey, sr[:], tbls.Signature(sp.Capella.Signature)); err != nil {
		c.Violate("C01", "invalid-group-signature", "broadcast-signature-does-not-verify-under-group-key", "node %d broadcast block %s (slot %d) whose signature does not verify under the validator's group public key for its own signing root: %v", b.Node, key, blk.Slot, err)
	}
	// (ii)
	o.oneRoot(b, key, sr)
	// (iii) byte-equal (SSZ root) to a block some node's beacon view produced for this slot, carrying the
	// agreed (unique) randao reveal of the proposer
	if uint64(blk.Slot) != b.Duty.Slot {
		c.Violate("C01", "validity", "signed-content-for-another-slot", "%s: node %d broadcast a block of slot %d", key, b.Node, blk.Slot)
	}
	root, err := blk.HashTreeRoot()
	if err != nil {
		panic(err)
	}
	p := cur
	p.mu.Lock()
	from, served := p.served[root]
	p.mu.Unlock()
	if !p.proposer || b.Duty.Slot != p.propSlot || val != p.propVal || !served {
		c.Violate("C01", "validity", "block-never-produced-by-an-honest-beacon-node", "%s: node %d broadcast block %x (slot %d, proposer %d) that no node's beacon node produced for this duty", key, b.Node, root[:4], blk.Slot, blk.ProposerIndex)
		return
	}
	if blk.Body.RANDAOReveal != p.groupRandao || blk.ProposerIndex != val.Index {
		c.Violate("C01", "validity", "block-without-the-agreed-randao", "%s: node %d broadcast block %x (from %s) whose randao reveal %x is not the validator's reveal for epoch %d", key, b.Node, root[:4], from, blk.Body.RANDAOReveal[:4], epochOf(cl, b.Duty.Slot))
	}
	okView := false
	for view := 0; view < o.views; view++ {
		if r, _ := viewBlock(view, b.Duty.Slot, val, p.groupRandao, blk.Body.Graffiti).HashTreeRoot(); r == root {
			okView = true
		}
	}
	if !okView {
		c.Violate("C01", "validity", "block-never-produced-by-an-honest-beacon-node", "%s: node %d broadcast block %x which is not the block of any beacon view of this run", key, b.Node, root[:4])
	}
	o.mark("proposer")
}
