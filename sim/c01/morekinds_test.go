//go:build verif

package c01

// More seeded duty kinds of a C01 run:
//
//	proposer variants        a builder run (the nodes run with --builder-api: the fetcher asks for builder blocks; beacon
//	                         nodes whose relay answered serve a BLINDED Capella block, the others their local full block;
//	                         the validator client submits the agreed block through SubmitBlindedProposal / SubmitProposal)
//	                         and a Deneb run (block contents: block + KZG proofs + blobs through SubmitProposal)
//	DutyExit                 voluntary exits (no consensus): VC -> validatorapi.SubmitVoluntaryExit -> parsigdb -> parsigex
//	                         -> sigagg -> aggsigdb/broadcaster; the duty never expires ("exempt")
//	DutyBuilderRegistration  builder registrations (no consensus, exempt). validatorapi.SubmitValidatorRegistrations of this
//	                         tree DISCARDS what a validator client submits (it is called and must produce nothing); partial
//	                         registrations therefore enter a node at ParSigDB.StoreInternal - the function core.Wire
//	                         subscribes to the validator API - which models the nodes of a mixed-version cluster whose
//	                         release still forwards them ("legacy validator API"). From there on everything is this tree:
//	                         parsigdb (exempt bookkeeping) -> parsigex (send, receive, verify, gater) -> sigagg -> aggsigdb/broadcaster.
//
// Restated from the specifications (NOT from core/eth2signeddata.go):
//
//	object                       domain                       fork version                                  signed object root
//	BlindedBeaconBlock           DOMAIN_BEACON_PROPOSER       at compute_epoch_at_slot(block.slot)           hash_tree_root(BlindedBeaconBlock)  (builder-specs: signed like the full block)
//	BeaconBlock (Deneb)          DOMAIN_BEACON_PROPOSER       at compute_epoch_at_slot(block.slot)           hash_tree_root(BeaconBlock); KZG proofs and blobs are NOT signed
//	VoluntaryExit                DOMAIN_VOLUNTARY_EXIT        at exit.epoch (*)                              hash_tree_root(VoluntaryExit)
//	ValidatorRegistrationV1      DOMAIN_APPLICATION_BUILDER   GENESIS_FORK_VERSION, zero validators root     hash_tree_root(ValidatorRegistrationV1)  (builder-specs compute_domain defaults)
//
// (*) EIP-7044 pins the exit domain to the Capella fork version; charon implements that in eth2wrap's HTTP client
// (httpwrap.go Domain), which is stubbed here: the simulated beacon node answers get_domain for the exit's own epoch,
// and the harness restates exactly that (as sim/c10 does). The pinning itself is not exercised.
//
// DutyExit's slot is exit.epoch * SLOTS_PER_EPOCH (validatorapi.SubmitVoluntaryExit); a legacy validator API keyed a
// registration by the slot of its timestamp. Honest validator clients of different nodes may be asked to sign
// DIFFERENT objects: an exit for another epoch (another duty), a registration with another fee recipient / gas limit /
// timestamp (the same duty when the timestamp falls into the same slot), and a reconfigured client may sign a second
// registration for the same duty (registrations are not slashable). The cluster must still never emit two different
// group-signed objects for one (duty, validator).

import (
	"context"
	"crypto/sha256"
	"fmt"
	"time"

	eth2api "github.com/attestantio/go-eth2-client/api"
	eth2v1 "github.com/attestantio/go-eth2-client/api/v1"
	apiv1capella "github.com/attestantio/go-eth2-client/api/v1/capella"
	apiv1deneb "github.com/attestantio/go-eth2-client/api/v1/deneb"
	eth2spec "github.com/attestantio/go-eth2-client/spec"
	"github.com/attestantio/go-eth2-client/spec/capella"
	"github.com/attestantio/go-eth2-client/spec/deneb"
	eth2p0 "github.com/attestantio/go-eth2-client/spec/phase0"
	"github.com/holiman/uint256"

	"github.com/obolnetwork/charon/app/errors"
	"github.com/obolnetwork/charon/core"
	pbv1 "github.com/obolnetwork/charon/core/corepb/v1"
	"github.com/obolnetwork/charon/tbls"
	"github.com/obolnetwork/charon/verifrt"

	"verifsim/cluster"
	"verifsim/kernel"
	"verifsim/simbeacon"
)

const (
	propCapella = iota // the full Capella block of newkinds_test.go
	propBuilder        // builder run: blinded Capella blocks, local full Capella blocks where the relay is down
	propDeneb          // Deneb block contents
)

var propKindName = []string{"capella", "builder", "deneb"}

// morePlan is the per-run choice of the kinds of this file (part of plan; the maps are guarded by plan.mu).
type morePlan struct {
	runLen time.Duration // the slots of the run

	propKind  int
	relayDown []bool // builder runs, per node: the beacon node got no builder bid and serves its local block
	// servedSidecars: Deneb runs: block root -> digest of the KZG proofs and blobs a beacon node served with it
	servedSidecars map[eth2p0.Root][32]byte

	exit       bool
	exitVals   []*cluster.Validator // the validators the operators exit in this run
	exitEpoch  eth2p0.Epoch         // the epoch the operators agreed on (single nodes deviate)
	exitSigned map[string]string    // "<validator index>/<epoch>" an honest validator client signed -> "n<i>"

	reg       bool
	regSlot   uint64            // all validator clients stamp their registrations with the start of this slot
	regSigned map[string]string // "<validator index>/<duty slot>/<message root>" an honest validator client signed -> "n<i>"
}

// chooseMoreKinds draws the kinds of this file from "cfg" (tape value 0 = off / the plain Capella block). VERIF_VARIANT=
// nomorekinds consumes the same draws and switches all of them off (a control for the mutants of these paths).
func chooseMoreKinds(c *kernel.Ctx, cl *cluster.Cluster, pl *plan, startSlot uint64, nSlots int) {
	pl.servedSidecars, pl.exitSigned, pl.regSigned = map[eth2p0.Root][32]byte{}, map[string]string{}, map[string]string{}
	pl.runLen = time.Duration(nSlots) * cl.Cfg.SlotDuration
	off := c.Mode == "nomorekinds"
	if pl.proposer {
		pl.propKind = []int{propCapella, propCapella, propBuilder, propDeneb}[verifrt.Intn("cfg", 4)]
		if off {
			pl.propKind = propCapella
		}
		if pl.propKind == propBuilder {
			pl.relayDown = make([]bool, cl.Cfg.N)
			for i := range pl.relayDown {
				pl.relayDown[i] = verifrt.Intn("w", 3) == 2
			}
			cl.Cfg.BuilderAPI = true
		}
		if pl.propKind != propCapella {
			verifrt.Probe("enabled:proposer-" + propKindName[pl.propKind])
		}
	}
	pl.exit = verifrt.Intn("cfg", 3) == 2
	if pl.exit {
		pl.exitEpoch = epochOf(cl, startSlot)
		if k := verifrt.Intn("cfg", len(cl.Vals)+1); k < len(cl.Vals) {
			pl.exitVals = []*cluster.Validator{cl.Vals[k]}
		} else {
			pl.exitVals = append(pl.exitVals, cl.Vals...)
		}
	}
	pl.reg = verifrt.Intn("cfg", 3) == 2
	pl.regSlot = startSlot
	if off {
		pl.exit, pl.exitVals, pl.reg = false, nil, false
	}
	if pl.exit {
		verifrt.Probe("enabled:exit")
	}
	if pl.reg {
		verifrt.Probe("enabled:builder_registration")
	}
}

func moreKindsSummary(c *kernel.Ctx, p *plan) {
	if p.proposer {
		c.Set("proposal_variant", propKindName[p.propKind])
	}
	c.Set("exit_validators", len(p.exitVals))
	c.Set("builder_registrations", p.reg)
}

// startMoreKinds starts node i's validator clients (and Byzantine injectors) of the enabled exempt kinds; after a
// restart with amnesia the operator and the validator client simply do it again.
func startMoreKinds(ctx context.Context, cl *cluster.Cluster, i int, byz, restarted bool) {
	n := cl.Nodes[i]
	if n == nil {
		return
	}
	if cur.exit {
		verifrt.GoNode(n.Tag, func() { exitAt(ctx, cl, i, byz, restarted) })
	}
	if cur.reg {
		verifrt.GoNode(n.Tag, func() { registrationAt(ctx, cl, i, byz, restarted) })
	}
}

// ---- spec formulas -----------------------------------------------------------------------------------

func proposerSigningRoot(cl *cluster.Cluster, slot eth2p0.Slot, blockRoot eth2p0.Root) [32]byte {
	return specSigningRoot(cl, "DOMAIN_BEACON_PROPOSER", epochOf(cl, uint64(slot)), blockRoot)
}

// exitSigningRoot: DOMAIN_VOLUNTARY_EXIT with the fork version at exit.epoch (see (*) in the header).
func exitSigningRoot(cl *cluster.Cluster, x *eth2p0.VoluntaryExit) [32]byte {
	root, err := x.HashTreeRoot()
	if err != nil {
		panic(err)
	}
	return specSigningRoot(cl, "DOMAIN_VOLUNTARY_EXIT", x.Epoch, root)
}

// regSigningRoot: builder-specs compute_domain(DOMAIN_APPLICATION_BUILDER) = the genesis fork version and a zero
// genesis validators root, for every epoch.
func regSigningRoot(cl *cluster.Cluster, r *eth2v1.ValidatorRegistration) [32]byte {
	root, err := r.HashTreeRoot()
	if err != nil {
		panic(err)
	}
	dom := simbeacon.ComputeDomain(simbeacon.DomainTypes["DOMAIN_APPLICATION_BUILDER"], cl.Chain.ForkVersion, eth2p0.Root{})
	return simbeacon.SigningRoot(root, dom)
}

func exitDuty(cl *cluster.Cluster, epoch eth2p0.Epoch) core.Duty {
	return core.NewVoluntaryExit(uint64(epoch) * cl.Cfg.SlotsPerEpoch)
}

// regDutySlot is the slot a legacy validator API keys a registration by: the slot of its timestamp.
func regDutySlot(cl *cluster.Cluster, ts time.Time) uint64 {
	return uint64(ts.Sub(cl.Chain.GenesisTime) / cl.Chain.SlotDuration)
}

// ---- proposer variants: what the beacon nodes serve ---------------------------------------------------

// blindedViewBlock is the blinded Capella block the beacon node of a view gets from its builder: the consensus part
// of the view's block around the header of the builder's payload (another payload than the local one).
func blindedViewBlock(view int, slot uint64, v *cluster.Validator, randao eth2p0.BLSSignature, graffiti [32]byte) *apiv1capella.BlindedBeaconBlock {
	full := viewBlock(view, slot, v, randao, graffiti)
	fb := full.Body
	salt := uint64(view) + 64 // the builder's payload
	h := &capella.ExecutionPayloadHeader{ParentHash: fb.ExecutionPayload.ParentHash, StateRoot: rootOf(0xf2, slot, salt), ReceiptsRoot: rootOf(0xf3, slot, salt),
		PrevRandao: fb.ExecutionPayload.PrevRandao, BlockNumber: slot, GasLimit: 30_000_000, GasUsed: 21_000 * salt, Timestamp: fb.ExecutionPayload.Timestamp,
		ExtraData: []byte{0xb1, 0x1d, byte(view)}, BaseFeePerGas: rootOf(0xf5, 7, salt), BlockHash: eth2p0.Hash32(rootOf(0xf6, slot, salt)),
		TransactionsRoot: rootOf(0xf8, slot, salt), WithdrawalsRoot: rootOf(0xf9, slot, salt)}
	r := rootOf(0xf7, 0, 0) // the builder pays itself
	copy(h.FeeRecipient[:], r[:20])
	return &apiv1capella.BlindedBeaconBlock{Slot: full.Slot, ProposerIndex: full.ProposerIndex, ParentRoot: full.ParentRoot, StateRoot: rootOf(0xf1, slot, salt),
		Body: &apiv1capella.BlindedBeaconBlockBody{RANDAOReveal: fb.RANDAOReveal, ETH1Data: fb.ETH1Data, Graffiti: fb.Graffiti, ProposerSlashings: fb.ProposerSlashings,
			AttesterSlashings: fb.AttesterSlashings, Attestations: fb.Attestations, Deposits: fb.Deposits, VoluntaryExits: fb.VoluntaryExits,
			SyncAggregate: fb.SyncAggregate, ExecutionPayloadHeader: h, BLSToExecutionChanges: fb.BLSToExecutionChanges}}
}

func denebBlobCount(view int) int { return 1 + view%2 }

func bytes48(tag byte, a, b uint64) (out [48]byte) {
	r1, r2 := rootOf(tag, a, b), rootOf(tag+1, b, a)
	copy(out[:32], r1[:])
	copy(out[32:], r2[:16])
	return out
}

// denebViewBlock is the Deneb block of a view: the view's Capella block content in the Deneb containers plus the
// blob gas fields and one KZG commitment per blob of the view.
func denebViewBlock(view int, slot uint64, v *cluster.Validator, randao eth2p0.BLSSignature, graffiti [32]byte) *deneb.BeaconBlock {
	full := viewBlock(view, slot, v, randao, graffiti)
	fb, fp := full.Body, full.Body.ExecutionPayload
	ep := &deneb.ExecutionPayload{ParentHash: fp.ParentHash, FeeRecipient: fp.FeeRecipient, StateRoot: fp.StateRoot, ReceiptsRoot: fp.ReceiptsRoot, LogsBloom: fp.LogsBloom,
		PrevRandao: fp.PrevRandao, BlockNumber: fp.BlockNumber, GasLimit: fp.GasLimit, GasUsed: fp.GasUsed, Timestamp: fp.Timestamp, ExtraData: fp.ExtraData,
		BaseFeePerGas: uint256.NewInt(7 + uint64(view)), BlockHash: fp.BlockHash, Transactions: fp.Transactions, Withdrawals: fp.Withdrawals,
		BlobGasUsed: 131072 * uint64(denebBlobCount(view)), ExcessBlobGas: uint64(view)}
	var comms []deneb.KZGCommitment
	for j := 0; j < denebBlobCount(view); j++ {
		comms = append(comms, deneb.KZGCommitment(bytes48(0xc0, slot, uint64(view*8+j))))
	}
	return &deneb.BeaconBlock{Slot: full.Slot, ProposerIndex: full.ProposerIndex, ParentRoot: full.ParentRoot, StateRoot: full.StateRoot,
		Body: &deneb.BeaconBlockBody{RANDAOReveal: fb.RANDAOReveal, ETH1Data: fb.ETH1Data, Graffiti: fb.Graffiti, ProposerSlashings: fb.ProposerSlashings,
			AttesterSlashings: fb.AttesterSlashings, Attestations: fb.Attestations, Deposits: fb.Deposits, VoluntaryExits: fb.VoluntaryExits,
			SyncAggregate: fb.SyncAggregate, ExecutionPayload: ep, BLSToExecutionChanges: fb.BLSToExecutionChanges, BlobKZGCommitments: comms}}
}

// denebSidecars are the KZG proofs and blobs a beacon node of a view serves beside its block (not part of the
// signed block; blobs are sparse: a head, a tail byte, zeroes between).
func denebSidecars(view int, slot uint64) ([]deneb.KZGProof, []deneb.Blob) {
	k := denebBlobCount(view)
	proofs, blobs := make([]deneb.KZGProof, k), make([]deneb.Blob, k)
	for j := 0; j < k; j++ {
		proofs[j] = deneb.KZGProof(bytes48(0xd4, slot, uint64(view*8+j)))
		head := rootOf(0xbb, slot, uint64(view*8+j))
		copy(blobs[j][:], head[:])
		blobs[j][len(blobs[j])-1] = byte(view + 1)
	}
	return proofs, blobs
}

func sidecarDigest(proofs []deneb.KZGProof, blobs []deneb.Blob) [32]byte {
	h := sha256.New()
	fmt.Fprintf(h, "%d/%d/", len(proofs), len(blobs))
	for i := range proofs {
		h.Write(proofs[i][:])
	}
	for i := range blobs {
		h.Write(blobs[i][:])
	}
	var out [32]byte
	copy(out[:], h.Sum(nil))
	return out
}

func mustRoot(r [32]byte, err error) eth2p0.Root {
	if err != nil {
		panic(err)
	}
	return r
}

// viewProposal is what node i's beacon node (beacon view `view`) produces for the request, in the run's variant.
func (p *plan) viewProposal(i, view int, opts *eth2api.ProposalOpts) (*eth2api.VersionedProposal, eth2p0.Root) {
	slot := uint64(opts.Slot)
	switch p.propKind {
	case propBuilder:
		// produceBlockV3: a builder block only when the caller asked for one (builder_boost_factor > 0) and a relay answered
		if opts.BuilderBoostFactor != nil && *opts.BuilderBoostFactor > 0 && !p.relayDown[i] {
			blk := blindedViewBlock(view, slot, p.propVal, opts.RandaoReveal, opts.Graffiti)
			verifrt.Probe("beacon-served-blinded-block")
			return &eth2api.VersionedProposal{Version: eth2spec.DataVersionCapella, Blinded: true, CapellaBlinded: blk}, mustRoot(blk.HashTreeRoot())
		}
		verifrt.Probe("beacon-served-local-block-in-builder-run")
	case propDeneb:
		blk := denebViewBlock(view, slot, p.propVal, opts.RandaoReveal, opts.Graffiti)
		proofs, blobs := denebSidecars(view, slot)
		root := mustRoot(blk.HashTreeRoot())
		p.mu.Lock()
		p.servedSidecars[root] = sidecarDigest(proofs, blobs)
		p.mu.Unlock()
		return &eth2api.VersionedProposal{Version: eth2spec.DataVersionDeneb, Deneb: &apiv1deneb.BlockContents{Block: blk, KZGProofs: proofs, Blobs: blobs}}, root
	}
	blk := viewBlock(view, slot, p.propVal, opts.RandaoReveal, opts.Graffiti)
	return &eth2api.VersionedProposal{Version: eth2spec.DataVersionCapella, Capella: blk}, mustRoot(blk.HashTreeRoot())
}

// ---- proposer variants: validator client and Byzantine partials ------------------------------------------

func signedBlinded(cl *cluster.Cluster, key tbls.PrivateKey, blk *apiv1capella.BlindedBeaconBlock) *eth2api.VersionedSignedBlindedProposal {
	sig := signRoot(key, proposerSigningRoot(cl, blk.Slot, mustRoot(blk.HashTreeRoot())))
	return &eth2api.VersionedSignedBlindedProposal{Version: eth2spec.DataVersionCapella, Capella: &apiv1capella.SignedBlindedBeaconBlock{Message: blk, Signature: sig}}
}

func signedCapella(cl *cluster.Cluster, key tbls.PrivateKey, blk *capella.BeaconBlock) *eth2api.VersionedSignedProposal {
	return &eth2api.VersionedSignedProposal{Version: eth2spec.DataVersionCapella, Capella: &capella.SignedBeaconBlock{Message: blk, Signature: signRoot(key, blockSigningRoot(cl, blk))}}
}

func signedDeneb(cl *cluster.Cluster, key tbls.PrivateKey, blk *deneb.BeaconBlock, proofs []deneb.KZGProof, blobs []deneb.Blob) *eth2api.VersionedSignedProposal {
	sig := signRoot(key, proposerSigningRoot(cl, blk.Slot, mustRoot(blk.HashTreeRoot())))
	return &eth2api.VersionedSignedProposal{Version: eth2spec.DataVersionDeneb,
		Deneb: &apiv1deneb.SignedBlockContents{SignedBlock: &deneb.SignedBeaconBlock{Message: blk, Signature: sig}, KZGProofs: proofs, Blobs: blobs}}
}

// submitVariantProposal is the validator client's second half in a builder or Deneb run: it signs whatever block the
// node's validator API returned (blinded or full) with the node's share and submits it through the matching endpoint.
func submitVariantProposal(cl *cluster.Cluster, n *cluster.Node, share tbls.PrivateKey, vp *eth2api.VersionedProposal) error {
	switch {
	case vp.Version == eth2spec.DataVersionCapella && vp.Blinded && vp.CapellaBlinded != nil:
		verifrt.Probe("vc-signs-blinded-block")
		return n.VAPI.SubmitBlindedProposal(n.Ctx, &eth2api.SubmitBlindedProposalOpts{Proposal: signedBlinded(cl, share, vp.CapellaBlinded)})
	case vp.Version == eth2spec.DataVersionCapella && !vp.Blinded && vp.Capella != nil && cur.propKind == propBuilder:
		verifrt.Probe("vc-signs-local-block-in-builder-run")
		return n.VAPI.SubmitProposal(n.Ctx, &eth2api.SubmitProposalOpts{Proposal: signedCapella(cl, share, vp.Capella)})
	case vp.Version == eth2spec.DataVersionDeneb && !vp.Blinded && vp.Deneb != nil && vp.Deneb.Block != nil && cur.propKind == propDeneb:
		verifrt.Probe("vc-signs-deneb-block-contents")
		return n.VAPI.SubmitProposal(n.Ctx, &eth2api.SubmitProposalOpts{Proposal: signedDeneb(cl, share, vp.Deneb.Block, vp.Deneb.KZGProofs, vp.Deneb.Blobs)})
	}
	return errors.New("validator client: unexpected block version")
}

// byzVariantBlock is byzantineProposer's block partial in a builder or Deneb run: the block of a view in one of the
// run's containers (builder runs: blinded or full, whichever the Byzantine node likes); in Deneb runs sometimes the
// honest block of the view beside OTHER (unsigned) KZG proofs and blobs.
func byzVariantBlock(cl *cluster.Cluster, p *plan, view int, slot uint64, key tbls.PrivateKey, shareIdx int, graffiti [32]byte) core.ParSignedData {
	if g := p.anyServedGraffiti(); g != nil {
		graffiti = *g
	}
	var (
		ps  core.ParSignedData
		err error
	)
	switch {
	case p.propKind == propDeneb:
		proofs, blobs := denebSidecars(view, slot)
		if verifrt.Intn("a", 3) == 0 {
			verifrt.Fault("byz:proposer:same-block-other-blobs")
			proofs, blobs = denebSidecars(view+6, slot) // the same number of blobs, other content
		}
		ps, err = core.NewPartialVersionedSignedProposal(signedDeneb(cl, key, denebViewBlock(view, slot, p.propVal, p.groupRandao, graffiti), proofs, blobs), shareIdx)
	case verifrt.Intn("a", 2) == 0:
		ps, err = core.NewPartialVersionedSignedBlindedProposal(signedBlinded(cl, key, blindedViewBlock(view, slot, p.propVal, p.groupRandao, graffiti)), shareIdx)
	default:
		ps, err = core.NewPartialVersionedSignedProposal(signedCapella(cl, key, viewBlock(view, slot, p.propVal, p.groupRandao, graffiti)), shareIdx)
	}
	if err != nil {
		panic(err)
	}
	return ps
}

// byzantineDecidedBlobs (Deneb runs, half of the Byzantine nodes): the node waits for the cluster's decision like its
// honest stack does and at once sends its - valid - partial signature over the DECIDED block beside OTHER KZG proofs
// and blobs: the same message root as every honest partial, a foreign unsigned carrier.
func byzantineDecidedBlobs(ctx context.Context, cl *cluster.Cluster, i int) {
	p, n := cur, cl.Nodes[i]
	if verifrt.Intn("a", 4) == 0 {
		return
	}
	vp, err := n.DutyDB.AwaitProposal(n.Ctx, p.propSlot)
	if err != nil || ctx.Err() != nil || vp.Version != eth2spec.DataVersionDeneb || vp.Deneb == nil || vp.Deneb.Block == nil {
		return
	}
	if verifrt.Intn("a", 2) == 1 {
		// ... or its partial signature over the DECIDED block attached to a copy of that block with another body
		// (same slot, proposer, parent root and state root; other graffiti) and the decided sidecars: not a valid
		// partial signature for the object it travels with. It is sent a few times at growing seeded delays, so that it
		// reaches nodes that have and nodes that have not yet verified the authentic block.
		sp := signedDeneb(cl, p.propVal.Shares[i+1], vp.Deneb.Block, vp.Deneb.KZGProofs, vp.Deneb.Blobs)
		blk, body := *vp.Deneb.Block, *vp.Deneb.Block.Body
		copy(body.Graffiti[:], "not the agreed body")
		blk.Body = &body
		sp.Deneb.SignedBlock.Message = &blk
		ps, err := core.NewPartialVersionedSignedProposal(sp, i+1)
		if err != nil {
			panic(err)
		}
		for k := 1 + verifrt.Intn("a", 4); k > 0 && ctx.Err() == nil; k-- { // a few times, at growing seeded delays
			verifrt.Sleep(time.Duration(verifrt.Intn("a", 600)) * time.Millisecond)
			inject(cl, i, "byz:proposer:decided-block-signature-on-another-body", []*pbv1.ParSigExMsg{parSigMsg(core.NewProposerDuty(p.propSlot), p.propVal.CorePK, ps)}, false)
		}
		return
	}
	proofs, blobs := denebSidecars(5+len(vp.Deneb.Blobs), p.propSlot) // the same number of blobs, other content
	ps, err := core.NewPartialVersionedSignedProposal(signedDeneb(cl, p.propVal.Shares[i+1], vp.Deneb.Block, proofs, blobs), i+1)
	if err != nil {
		panic(err)
	}
	inject(cl, i, "byz:proposer:decided-block-other-blobs", []*pbv1.ParSigExMsg{parSigMsg(core.NewProposerDuty(p.propSlot), p.propVal.CorePK, ps)}, false)
}

// ---- exits ---------------------------------------------------------------------------------------------

func exitKey(idx eth2p0.ValidatorIndex, epoch eth2p0.Epoch) string {
	return fmt.Sprintf("%d/%d", idx, epoch)
}

func signedExit(cl *cluster.Cluster, key tbls.PrivateKey, epoch eth2p0.Epoch, idx eth2p0.ValidatorIndex) *eth2p0.SignedVoluntaryExit {
	x := &eth2p0.VoluntaryExit{Epoch: epoch, ValidatorIndex: idx}
	return &eth2p0.SignedVoluntaryExit{Message: x, Signature: signRoot(key, exitSigningRoot(cl, x))}
}

// runExitVC: the operator of node n asks its validator client to exit validator v at an epoch; the client signs with
// the node's share and posts the exit to the node's validator API.
func runExitVC(cl *cluster.Cluster, n *cluster.Node, v *cluster.Validator, epoch eth2p0.Epoch) error {
	p := cur
	p.mu.Lock()
	if _, ok := p.exitSigned[exitKey(v.Index, epoch)]; !ok {
		p.exitSigned[exitKey(v.Index, epoch)] = fmt.Sprintf("n%d", n.Idx)
	}
	p.mu.Unlock()
	return n.VAPI.SubmitVoluntaryExit(n.Ctx, signedExit(cl, v.Shares[n.Idx+1], epoch, v.Index))
}

func runOffset(p *plan, restarted bool) time.Duration {
	span := p.runLen
	if restarted {
		span = 4 * time.Second
	}
	return time.Duration(verifrt.Intn("w", int(span/time.Millisecond))) * time.Millisecond
}

// exitAt is node i's part of the exits of the run: per exiting validator one request at some time of the run (exits
// are not bound to a slot and never expire), mostly for the agreed epoch, sometimes for the epoch before or after it
// (another duty; the epoch after lies beyond the fork boundary), sometimes twice, sometimes for two epochs.
func exitAt(ctx context.Context, cl *cluster.Cluster, i int, byz, restarted bool) {
	p, n := cur, cl.Nodes[i]
	if byz {
		verifrt.Go(func() { byzantineExit(ctx, cl, i) })
	}
	for _, v := range p.exitVals {
		v := v
		mode, at, dev := verifrt.Intn("w", 8), runOffset(p, restarted), verifrt.Intn("w", 6)
		if mode == 7 {
			verifrt.Fault("vc-absent-exit")
			continue
		}
		verifrt.Go(func() {
			verifrt.Sleep(at)
			epoch := p.exitEpoch
			switch dev {
			case 4:
				verifrt.Fault("vc-exit-other-epoch")
				epoch--
			case 5:
				verifrt.Fault("vc-exit-other-epoch")
				epoch++
			}
			err := runExitVC(cl, n, v, epoch)
			verifrt.Note("n%d vc exit val %d epoch %d err=%v", i, v.Index, epoch, err != nil)
			switch {
			case err == nil && mode == 5:
				verifrt.Fault("vc-duplicate-exit")
				_ = runExitVC(cl, n, v, epoch)
			case mode == 6:
				verifrt.Fault("vc-exit-second-epoch") // the operator tries again with another epoch: another duty
				verifrt.Sleep(time.Duration(verifrt.Intn("w", 3000)) * time.Millisecond)
				other := epoch + 1
				if verifrt.Intn("w", 2) == 1 {
					other = epoch - 1
				}
				err := runExitVC(cl, n, v, other)
				verifrt.Note("n%d vc exit val %d epoch %d err=%v", i, v.Index, other, err != nil)
			}
		})
	}
}

// exemptFlood replays one validly signed partial under eleven duty slots (exempt duties are capped per share,
// validator and type: the eleventh evicts this share's oldest entry, the one under the honest duty), then sends
// OTHER content under the honest duty again.
func exemptFlood(cl *cluster.Cluster, i int, fault string, pk core.PubKey, mkDuty func(slot uint64) core.Duty, first uint64, same, other core.ParSignedData) {
	for to := 0; to < cl.Cfg.N; to++ {
		if to == i {
			continue
		}
		verifrt.Fault(fault)
		for k := uint64(0); k <= 10; k++ {
			cl.Net.Inject(cl.PeerIDs[i], cl.PeerIDs[to], protoParSigEx, frame(parSigMsg(mkDuty(first+k), pk, same)), time.Duration(5*k)*time.Millisecond)
		}
		cl.Net.Inject(cl.PeerIDs[i], cl.PeerIDs[to], protoParSigEx, frame(parSigMsg(mkDuty(first), pk, other)), 80*time.Millisecond)
	}
}

// byzantineExit sends, made with node i's own key share, exit partials straight to peers' parsigex handlers: an exit
// for another epoch (valid for its own epoch and fork) under the honest duty, an exit naming another validator index
// under this validator's key, equivocating pairs, an exit for a validator nobody exits, a complete honest-looking
// partial for another epoch's duty, other share index, a key that is no share, an exit under the registration duty,
// and the exempt-duty flood.
func byzantineExit(ctx context.Context, cl *cluster.Cluster, i int) {
	p := cur
	e := p.exitEpoch
	moves := 1 + verifrt.Intn("a", 4)
	for m := 0; m < moves && ctx.Err() == nil; m++ {
		verifrt.Sleep(time.Duration(verifrt.Intn("a", int(p.runLen/time.Millisecond)/2+1)) * time.Millisecond)
		k := verifrt.Intn("a", len(cl.Vals))
		v := cl.Vals[k]
		own := v.Shares[i+1]
		exit := func(epoch eth2p0.Epoch, idx eth2p0.ValidatorIndex, key tbls.PrivateKey, shareIdx int) core.ParSignedData {
			return core.NewPartialSignedVoluntaryExit(signedExit(cl, key, epoch, idx), shareIdx)
		}
		otherEpoch := func() eth2p0.Epoch { return []eth2p0.Epoch{e + 1, e - 1, e + 2}[verifrt.Intn("a", 3)] }
		duty := exitDuty(cl, e)
		var msgs []*pbv1.ParSigExMsg
		name, split := "", false
		switch verifrt.Intn("a", 10) {
		case 0:
			name = "other-epoch-exit" // valid for its own epoch (and fork), sent under the honest duty
			msgs = []*pbv1.ParSigExMsg{parSigMsg(duty, v.CorePK, exit(otherEpoch(), v.Index, own, i+1))}
		case 1:
			name = "other-validator-index" // signed with this validator's share, naming another validator
			idx := eth2p0.ValidatorIndex(9999)
			if verifrt.Intn("a", 2) == 0 {
				idx = cl.Vals[(k+1)%len(cl.Vals)].Index
				if idx == v.Index {
					idx = v.Index + 1
				}
			}
			msgs = []*pbv1.ParSigExMsg{parSigMsg(duty, v.CorePK, exit(e, idx, own, i+1))}
		case 2:
			name, split = "equivocating-exits", true
			msgs = []*pbv1.ParSigExMsg{parSigMsg(duty, v.CorePK, exit(e, v.Index, own, i+1)), parSigMsg(duty, v.CorePK, exit(otherEpoch(), v.Index, own, i+1))}
		case 3:
			name = "unrequested-exit" // a valid partial for whichever validator, also one nobody exits: must never complete alone
			msgs = []*pbv1.ParSigExMsg{parSigMsg(duty, v.CorePK, exit(e, v.Index, own, i+1))}
		case 4:
			name = "other-duty-exit" // a complete honest-looking partial for another epoch's duty
			o := otherEpoch()
			msgs = []*pbv1.ParSigExMsg{parSigMsg(exitDuty(cl, o), v.CorePK, exit(o, v.Index, own, i+1))}
		case 5:
			name = "other-share-index"
			msgs = []*pbv1.ParSigExMsg{parSigMsg(duty, v.CorePK, exit(e, v.Index, own, 1+(i+1)%cl.Cfg.N))}
		case 6:
			name = "non-share-key"
			rogue := own
			rogue[31] ^= 0x5a
			msgs = []*pbv1.ParSigExMsg{parSigMsg(duty, v.CorePK, exit(e, v.Index, rogue, i+1))}
		case 7:
			name = "exit-as-registration-duty" // an exit under the registration duty, a registration under the exit duty
			reg := regPartial(cl, own, regMessage(cl, p, v, 0), i+1)
			msgs = []*pbv1.ParSigExMsg{parSigMsg(core.NewBuilderRegistrationDuty(duty.Slot), v.CorePK, exit(e, v.Index, own, i+1)), parSigMsg(duty, v.CorePK, reg)}
		case 8:
			name = "unaligned-duty-slot" // the honest exit under a duty slot that is not the first of its epoch
			msgs = []*pbv1.ParSigExMsg{parSigMsg(core.NewVoluntaryExit(duty.Slot+1+uint64(verifrt.Intn("a", 3))), v.CorePK, exit(e, v.Index, own, i+1))}
		case 9:
			exemptFlood(cl, i, "byz:exit:exempt-flood", v.CorePK, core.NewVoluntaryExit, duty.Slot, exit(e, v.Index, own, i+1), exit(otherEpoch(), v.Index, own, i+1))
			continue
		}
		inject(cl, i, "byz:exit:"+name, msgs, split)
	}
}

// ---- builder registrations -----------------------------------------------------------------------------

func regTime(cl *cluster.Cluster, p *plan) time.Time { return cl.SlotStart(p.regSlot) }

// regMessage is the registration a validator client of configuration `conf` signs for validator v: 0 = the cluster's
// configuration; 1 = another fee recipient; 2 = another gas limit; 3 = a timestamp one second later (the same slot:
// the same duty, another message); 4 = a timestamp one slot later (another duty).
func regMessage(cl *cluster.Cluster, p *plan, v *cluster.Validator, conf int) *eth2v1.ValidatorRegistration {
	r := &eth2v1.ValidatorRegistration{GasLimit: 30_000_000, Timestamp: regTime(cl, p), Pubkey: eth2p0.BLSPubKey(v.PubKey)}
	fee := rootOf(0xfe, 1, 0)
	switch conf {
	case 1:
		fee = rootOf(0xfe, 2, 0)
	case 2:
		r.GasLimit = 36_000_000
	case 3:
		r.Timestamp = r.Timestamp.Add(time.Second)
	case 4:
		r.Timestamp = r.Timestamp.Add(cl.Chain.SlotDuration)
	}
	copy(r.FeeRecipient[:], fee[:20])
	return r
}

func signedReg(cl *cluster.Cluster, key tbls.PrivateKey, r *eth2v1.ValidatorRegistration) *eth2api.VersionedSignedValidatorRegistration {
	return &eth2api.VersionedSignedValidatorRegistration{Version: eth2spec.BuilderVersionV1,
		V1: &eth2v1.SignedValidatorRegistration{Message: r, Signature: signRoot(key, regSigningRoot(cl, r))}}
}

func regPartial(cl *cluster.Cluster, key tbls.PrivateKey, r *eth2v1.ValidatorRegistration, shareIdx int) core.ParSignedData {
	ps, err := core.NewPartialVersionedSignedValidatorRegistration(signedReg(cl, key, r), shareIdx)
	if err != nil {
		panic(err)
	}
	return ps
}

func regKey(idx eth2p0.ValidatorIndex, dutySlot uint64, root [32]byte) string {
	return fmt.Sprintf("%d/%d/%x", idx, dutySlot, root[:8])
}

// runRegistrationVC: node n's validator client signs a registration with the node's share and posts it to the
// node's validator API, which (this tree) discards it; on a node with a legacy validator API the partial
// registration is stored and exchanged, keyed by the slot of its timestamp.
func runRegistrationVC(cl *cluster.Cluster, n *cluster.Node, v *cluster.Validator, r *eth2v1.ValidatorRegistration, legacy bool) error {
	p := cur
	signed := signedReg(cl, v.Shares[n.Idx+1], r)
	dutySlot := regDutySlot(cl, r.Timestamp)
	p.mu.Lock()
	if k := regKey(v.Index, dutySlot, mustRoot(r.HashTreeRoot())); p.regSigned[k] == "" {
		p.regSigned[k] = fmt.Sprintf("n%d", n.Idx)
	}
	p.mu.Unlock()
	if err := n.VAPI.SubmitValidatorRegistrations(n.Ctx, []*eth2api.VersionedSignedValidatorRegistration{signed}); err != nil {
		return err
	}
	if !legacy {
		verifrt.Probe("vapi-discards-registration")
		return nil
	}
	ps, err := core.NewPartialVersionedSignedValidatorRegistration(signed, n.Idx+1)
	if err != nil {
		return err
	}
	return n.ParSigDB.StoreInternal(n.Ctx, core.NewBuilderRegistrationDuty(dutySlot), core.ParSignedDataSet{v.CorePK: ps})
}

// registrationAt is node i's part of the builder registrations of the run: one registration per validator at some
// time of the run, mostly the cluster's configuration; single nodes' clients are configured differently (for all their
// validators); a reconfigured client signs a second registration with the same timestamp.
func registrationAt(ctx context.Context, cl *cluster.Cluster, i int, byz, restarted bool) {
	p, n := cur, cl.Nodes[i]
	legacy := verifrt.Intn("w", 8) != 7
	if !legacy {
		verifrt.Fault("node-without-legacy-registration-forwarding")
	}
	// one validator client per node: one configuration for all its validators
	conf := 0
	if dev := verifrt.Intn("w", 16); dev >= 12 {
		conf = dev - 11 // 1..4
		verifrt.Fault("vc-registration-other-config")
	}
	if byz {
		verifrt.Go(func() { byzantineRegistration(ctx, cl, i) })
	}
	for _, v := range cl.Vals {
		v := v
		mode, at := verifrt.Intn("w", 8), runOffset(p, restarted)
		if mode == 7 {
			verifrt.Fault("vc-absent-registration")
			continue
		}
		verifrt.Go(func() {
			verifrt.Sleep(at)
			err := runRegistrationVC(cl, n, v, regMessage(cl, p, v, conf), legacy)
			verifrt.Note("n%d vc registration val %d conf %d legacy %v err=%v", i, v.Index, conf, legacy, err != nil)
			switch {
			case err == nil && mode == 5:
				verifrt.Fault("vc-duplicate-registration")
				_ = runRegistrationVC(cl, n, v, regMessage(cl, p, v, conf), legacy)
			case mode == 6:
				verifrt.Fault("vc-reconfigured-registration") // same timestamp (same duty), other fee recipient or back to the cluster's
				verifrt.Sleep(time.Duration(verifrt.Intn("w", 3000)) * time.Millisecond)
				second := 1
				if conf == 1 {
					second = 0
				}
				err := runRegistrationVC(cl, n, v, regMessage(cl, p, v, second), legacy)
				verifrt.Note("n%d vc registration val %d conf %d legacy %v (second) err=%v", i, v.Index, second, legacy, err != nil)
			}
		})
	}
}

// byzantineRegistration: partial registrations made with node i's own share over OTHER content under the honest
// duty (a fee recipient nobody configured or the minority one, another gas limit, the timestamp of another slot,
// another validator's public key inside), equivocating pairs, a complete honest-looking partial for another slot's
// duty, other share index, a key that is no share, and the exempt-duty flood.
func byzantineRegistration(ctx context.Context, cl *cluster.Cluster, i int) {
	p := cur
	moves := 1 + verifrt.Intn("a", 4)
	for m := 0; m < moves && ctx.Err() == nil; m++ {
		verifrt.Sleep(time.Duration(verifrt.Intn("a", int(p.runLen/time.Millisecond)/2+1)) * time.Millisecond)
		k := verifrt.Intn("a", len(cl.Vals))
		v := cl.Vals[k]
		own := v.Shares[i+1]
		duty := core.NewBuilderRegistrationDuty(p.regSlot)
		other := func() *eth2v1.ValidatorRegistration {
			r := regMessage(cl, p, v, 1+verifrt.Intn("a", 2)) // the minority fee recipient or gas limit ...
			if verifrt.Intn("a", 2) == 0 {
				r.FeeRecipient[0] ^= 0x77 // ... or a fee recipient nobody configured
			}
			return r
		}
		var msgs []*pbv1.ParSigExMsg
		name, split := "", false
		switch verifrt.Intn("a", 9) {
		case 0:
			name = "other-registration"
			msgs = []*pbv1.ParSigExMsg{parSigMsg(duty, v.CorePK, regPartial(cl, own, other(), i+1))}
		case 1:
			name = "other-slot-timestamp" // a registration stamped with another slot, sent under the honest duty
			msgs = []*pbv1.ParSigExMsg{parSigMsg(duty, v.CorePK, regPartial(cl, own, regMessage(cl, p, v, 4), i+1))}
		case 2:
			name = "other-pubkey-inside" // signed with this validator's share, registering another validator's key
			r := regMessage(cl, p, v, 0)
			r.Pubkey = eth2p0.BLSPubKey(cl.Vals[(k+1)%len(cl.Vals)].PubKey)
			if len(cl.Vals) == 1 {
				r.Pubkey[47] ^= 1
			}
			msgs = []*pbv1.ParSigExMsg{parSigMsg(duty, v.CorePK, regPartial(cl, own, r, i+1))}
		case 3:
			name, split = "equivocating-registrations", true
			msgs = []*pbv1.ParSigExMsg{parSigMsg(duty, v.CorePK, regPartial(cl, own, regMessage(cl, p, v, 0), i+1)), parSigMsg(duty, v.CorePK, regPartial(cl, own, other(), i+1))}
		case 4:
			name = "other-duty-registration" // a complete honest-looking partial for the next slot's duty
			msgs = []*pbv1.ParSigExMsg{parSigMsg(core.NewBuilderRegistrationDuty(p.regSlot+1), v.CorePK, regPartial(cl, own, regMessage(cl, p, v, 4), i+1))}
		case 5:
			name = "other-share-index"
			msgs = []*pbv1.ParSigExMsg{parSigMsg(duty, v.CorePK, regPartial(cl, own, regMessage(cl, p, v, 0), 1+(i+1)%cl.Cfg.N))}
		case 6:
			name = "non-share-key"
			rogue := own
			rogue[31] ^= 0x5a
			msgs = []*pbv1.ParSigExMsg{parSigMsg(duty, v.CorePK, regPartial(cl, rogue, regMessage(cl, p, v, 0), i+1))}
		case 7:
			name = "other-validator-key" // validly signed as validator v, sent under another validator's key
			msgs = []*pbv1.ParSigExMsg{parSigMsg(duty, cl.Vals[(k+1)%len(cl.Vals)].CorePK, regPartial(cl, own, regMessage(cl, p, v, 0), i+1))}
		case 8:
			exemptFlood(cl, i, "byz:registration:exempt-flood", v.CorePK, core.NewBuilderRegistrationDuty, duty.Slot, regPartial(cl, own, regMessage(cl, p, v, 0), i+1), regPartial(cl, own, other(), i+1))
			continue
		}
		inject(cl, i, "byz:registration:"+name, msgs, split)
	}
}

// ---- oracles -------------------------------------------------------------------------------------------

// onMoreKinds handles the broadcast object types of exits and registrations; false = not one of them.
func (o *oracle) onMoreKinds(b cluster.Broadcast, key string) bool {
	switch d := b.Data.(type) {
	case core.SignedVoluntaryExit:
		o.onExit(b, key, d)
	case core.VersionedSignedValidatorRegistration:
		o.onRegistration(b, key, d)
	default:
		return false
	}
	return true
}

func (o *oracle) moreKey(key string) {
	o.mu.Lock()
	if o.moreKeys == nil {
		o.moreKeys = map[string]bool{}
	}
	o.moreKeys[key] = true
	o.mu.Unlock()
}

func (o *oracle) onExit(b cluster.Broadcast, key string, x core.SignedVoluntaryExit) {
	c, cl, p := o.c, o.cl, cur
	o.moreKey(key)
	val := o.validator(b)
	if val == nil {
		return
	}
	if x.Message == nil {
		c.Violate("C01", "broadcast-type", "exit-without-content", "node %d broadcast an empty exit for %s", b.Node, key)
		return
	}
	// (i) valid under the group key for the exit's own signing root; (ii) one root per duty and validator
	sr := exitSigningRoot(cl, x.Message)
	o.checkSig(b, val, "exit", key, sr, x.SignedVoluntaryExit.Signature)
	o.oneRootOf(b, "exit", key, sr)
	// (iii) an exit an honest validator client signed: this validator, the epoch of the duty
	p.mu.Lock()
	by := p.exitSigned[exitKey(x.Message.ValidatorIndex, x.Message.Epoch)]
	p.mu.Unlock()
	if !p.exit || b.Duty.Type != core.DutyExit || x.Message.ValidatorIndex != val.Index || b.Duty != exitDuty(cl, x.Message.Epoch) || by == "" {
		c.Violate("C01", "validity", "exit-never-signed-by-an-honest-validator-client", "%s: node %d broadcast an exit of validator %d at epoch %d, which no honest validator client signed for this duty and validator", key, b.Node, x.Message.ValidatorIndex, x.Message.Epoch)
		return
	}
	o.mark("exit")
	if x.Message.Epoch == p.exitEpoch {
		o.mark(fmt.Sprintf("exit/%d", val.Index))
	} else {
		verifrt.Probe("bcast:exit-of-a-deviating-epoch")
	}
}

func (o *oracle) onRegistration(b cluster.Broadcast, key string, r core.VersionedSignedValidatorRegistration) {
	c, cl, p := o.c, o.cl, cur
	o.moreKey(key)
	val := o.validator(b)
	if val == nil {
		return
	}
	if r.Version != eth2spec.BuilderVersionV1 || r.V1 == nil || r.V1.Message == nil {
		c.Violate("C01", "broadcast-type", "registration-without-content", "node %d broadcast an empty %s registration for %s", b.Node, r.Version, key)
		return
	}
	msg := r.V1.Message
	// (i) valid under the group key for the registration's own signing root; (ii) one root per duty and validator
	sr := regSigningRoot(cl, msg)
	o.checkSig(b, val, "registration", key, sr, r.V1.Signature)
	o.oneRootOf(b, "registration", key, sr)
	// (iii) a registration an honest validator client signed for this validator, under the duty of its timestamp's slot
	root := mustRoot(msg.HashTreeRoot())
	p.mu.Lock()
	by := p.regSigned[regKey(val.Index, b.Duty.Slot, root)]
	p.mu.Unlock()
	if !p.reg || b.Duty.Type != core.DutyBuilderRegistration || msg.Pubkey != eth2p0.BLSPubKey(val.PubKey) || b.Duty.Slot != regDutySlot(cl, msg.Timestamp) || by == "" {
		c.Violate("C01", "validity", "registration-never-signed-by-an-honest-validator-client", "%s: node %d broadcast a registration (fee recipient %x, gas limit %d, timestamp %d, pubkey %x) which no honest validator client signed for this duty and validator", key, b.Node, msg.FeeRecipient[:4], msg.GasLimit, msg.Timestamp.Unix(), msg.Pubkey[:4])
		return
	}
	o.mark("builder_registration")
	if root == mustRoot(regMessage(cl, p, val, 0).HashTreeRoot()) {
		o.mark(fmt.Sprintf("builder_registration/%d", val.Index))
	} else {
		verifrt.Probe("bcast:registration-of-a-minority-configuration")
	}
}

// blockInfo is what the oracle reads from a broadcast proposal of one of the shapes the variants produce.
type blockInfo struct {
	shape    string // "capella", "capella-blinded", "deneb"
	root     eth2p0.Root
	slot     eth2p0.Slot
	proposer eth2p0.ValidatorIndex
	randao   eth2p0.BLSSignature
	graffiti [32]byte
	sig      eth2p0.BLSSignature
	sidecars [32]byte
}

func unpackProposal(sp *eth2api.VersionedSignedProposal) (blockInfo, bool) {
	switch {
	case sp.Version == eth2spec.DataVersionCapella && !sp.Blinded && sp.Capella != nil && sp.Capella.Message != nil && sp.Capella.Message.Body != nil:
		m := sp.Capella.Message
		return blockInfo{shape: "capella", root: mustRoot(m.HashTreeRoot()), slot: m.Slot, proposer: m.ProposerIndex, randao: m.Body.RANDAOReveal, graffiti: m.Body.Graffiti, sig: sp.Capella.Signature}, true
	case sp.Version == eth2spec.DataVersionCapella && sp.Blinded && sp.CapellaBlinded != nil && sp.CapellaBlinded.Message != nil && sp.CapellaBlinded.Message.Body != nil:
		m := sp.CapellaBlinded.Message
		return blockInfo{shape: "capella-blinded", root: mustRoot(m.HashTreeRoot()), slot: m.Slot, proposer: m.ProposerIndex, randao: m.Body.RANDAOReveal, graffiti: m.Body.Graffiti, sig: sp.CapellaBlinded.Signature}, true
	case sp.Version == eth2spec.DataVersionDeneb && !sp.Blinded && sp.Deneb != nil && sp.Deneb.SignedBlock != nil && sp.Deneb.SignedBlock.Message != nil && sp.Deneb.SignedBlock.Message.Body != nil:
		m := sp.Deneb.SignedBlock.Message
		return blockInfo{shape: "deneb", root: mustRoot(m.HashTreeRoot()), slot: m.Slot, proposer: m.ProposerIndex, randao: m.Body.RANDAOReveal, graffiti: m.Body.Graffiti, sig: sp.Deneb.SignedBlock.Signature,
			sidecars: sidecarDigest(sp.Deneb.KZGProofs, sp.Deneb.Blobs)}, true
	}
	return blockInfo{}, false
}

// onVariantProposal is onProposal for builder and Deneb runs.
func (o *oracle) onVariantProposal(b cluster.Broadcast, key string, val *cluster.Validator, sp core.VersionedSignedProposal) {
	c, cl, p := o.c, o.cl, cur
	in, ok := unpackProposal(&sp.VersionedSignedProposal)
	if ok {
		ok = (p.propKind == propBuilder && in.shape != "deneb") || (p.propKind == propDeneb && in.shape == "deneb")
	}
	if !ok {
		c.Violate("C01", "validity", "block-never-produced-by-an-honest-beacon-node", "%s: node %d broadcast a %s block (blinded=%v); honest beacon nodes of this %s run produce no such block", key, b.Node, sp.Version, sp.Blinded, propKindName[p.propKind])
		return
	}
	// (i) valid under the group key for the block's own signing root (DOMAIN_BEACON_PROPOSER at the epoch of block.slot
	// over the root of the blinded / full block); (ii) one root per duty and validator
	sr := proposerSigningRoot(cl, in.slot, in.root)
	o.checkSig(b, val, "proposal-"+in.shape, key, sr, in.sig)
	o.oneRootOf(b, "proposal", key, sr)
	// (iii) root-equal to a block some node's beacon node produced for this duty, carrying the proposer's group reveal
	if uint64(in.slot) != b.Duty.Slot {
		c.Violate("C01", "validity", "signed-content-for-another-slot", "%s: node %d broadcast a block of slot %d", key, b.Node, in.slot)
	}
	p.mu.Lock()
	from, served := p.served[in.root]
	sidecars := p.servedSidecars[in.root]
	p.mu.Unlock()
	if !p.proposer || b.Duty.Slot != p.propSlot || val != p.propVal || !served {
		c.Violate("C01", "validity", "block-never-produced-by-an-honest-beacon-node", "%s: node %d broadcast %s block %x (slot %d, proposer %d) that no node's beacon node produced for this duty", key, b.Node, in.shape, in.root[:4], in.slot, in.proposer)
		return
	}
	if in.randao != p.groupRandao || in.proposer != val.Index {
		c.Violate("C01", "validity", "block-without-the-agreed-randao", "%s: node %d broadcast %s block %x (from %s) whose randao reveal %x is not the validator's reveal for epoch %d", key, b.Node, in.shape, in.root[:4], from, in.randao[:4], epochOf(cl, b.Duty.Slot))
	}
	okView := false
	for view := 0; view < o.views; view++ {
		var r eth2p0.Root
		switch in.shape {
		case "capella":
			r = mustRoot(viewBlock(view, b.Duty.Slot, val, p.groupRandao, in.graffiti).HashTreeRoot())
		case "capella-blinded":
			r = mustRoot(blindedViewBlock(view, b.Duty.Slot, val, p.groupRandao, in.graffiti).HashTreeRoot())
		case "deneb":
			r = mustRoot(denebViewBlock(view, b.Duty.Slot, val, p.groupRandao, in.graffiti).HashTreeRoot())
		}
		okView = okView || r == in.root
	}
	if !okView {
		c.Violate("C01", "validity", "block-never-produced-by-an-honest-beacon-node", "%s: node %d broadcast %s block %x which is not the block of any beacon view of this run", key, b.Node, in.shape, in.root[:4])
	}
	o.mark("proposer")
	switch in.shape {
	case "capella":
		o.mark("proposer-builder-local")
	case "capella-blinded":
		o.mark("proposer-blinded")
	case "deneb":
		o.mark("proposer-deneb")
		// KZG proofs and blobs are carried beside the signed block, unsigned: the signing root says nothing about them
		if in.sidecars != sidecars {
			verifrt.Probe("broadcast-block-with-foreign-unsigned-blobs")
		}
	}
}

// finalMoreKinds emits the reach probes of the kinds of this file (called with o.mu held).
func (o *oracle) finalMoreKinds() {
	p := cur
	for _, kind := range []string{"exit", "builder_registration", "proposer-blinded", "proposer-builder-local", "proposer-deneb"} {
		if o.done[kind] {
			verifrt.Probe("bcast:" + kind)
		}
	}
	// completed: the agreed exit / the cluster's registration of EVERY validator concerned reached a broadcaster
	if p.exit {
		all := true
		for _, v := range p.exitVals {
			all = all && o.done[fmt.Sprintf("exit/%d", v.Index)]
		}
		if all {
			verifrt.Probe("completed:exit")
		}
	}
	if p.reg {
		all := true
		for _, v := range o.cl.Vals {
			all = all && o.done[fmt.Sprintf("builder_registration/%d", v.Index)]
		}
		if all {
			verifrt.Probe("completed:builder_registration")
		}
	}
	if p.proposer && p.propKind != propCapella && o.done["proposer"] {
		verifrt.Probe("completed:proposer-" + propKindName[p.propKind])
	}
}
