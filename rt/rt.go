//go:build verif

// Package verifrt is the runtime of the deterministic simulator. It is never part of a normal
// build: it is added to the charon module only through a `go build -overlay` file written by
// /verif/tools/instrument, and carries the `verif` build tag.
//
// With S == nil every hook is a pass-through (used to run the repository's own unit tests on
// the transformed sources). With a scheduler installed, exactly one goroutine at a time holds
// the token; all choices are drawn through the run's chooser (see chooser.go).
package verifrt

import (
	"strings"
	"os"
	"bytes"
	"cmp"
	"fmt"
	"iter"
	"runtime"
	"runtime/debug"
	"slices"
	"strconv"
	"sync"
	"testing/synctest"
	"time"
)

type gstate int

const (
	running gstate = iota // holds the token (or is inside a real operation it was allowed to start)
	parked                // waiting for the token in pre/post
	blocked               // durably blocked inside a real operation it started while holding the token
	dead
)

// G is the scheduler's record of one goroutine.
type G struct {
	id     string
	prio   int // PCT mode: scheduling priority (higher runs first)
	node   string
	wake   chan struct{}
	state  gstate
	kind   string
	obj    any
	nchild int
	// preemptible: the scheduler may take this goroutine off the processor at a scheduling point for a
	// simulated interval (inherited by goroutines it starts); until: end of the current interval.
	preemptible bool
	until       time.Time
}

// Config of one simulated run.
type Config struct {
	Seed     uint64
	Replay   Tape          // non-nil: replay mode
	Horizon  time.Duration // bubble time after which the run is torn down
	MaxSteps int           // scheduling steps after which the run is torn down (0 = 5M)
	KeepLog  bool          // keep the event log (otherwise only its hash chain)
	KeepPct  int           // probability (percent) to keep running the current goroutine at a scheduling point; <0: drawn per run from {0,50,90,99}
	// PreemptMax > 0 enables the fault kind "goroutine descheduled while time passes": at a scheduling
	// point a goroutine marked SetPreemptible is, with a per-run probability drawn from {0, 0, 0.2%, 2%},
	// not run for a simulated interval of up to PreemptMax (the clock can advance past timers and deadlines
	// while it is between two of its own statements - what a busy machine, a GC pause or a long wait for a
	// lock do to a real thread).
	PreemptMax time.Duration
}

// Sched is one run's scheduler.
type Sched struct {
	unlockYields bool // this run: Unlock/RUnlock are scheduling points
	mu      sync.Mutex
	cfg     Config
	byGoid  map[int64]*G
	all     []*G
	wakeCh  chan struct{}
	ch      *chooser
	held    map[*sync.Mutex]*G
	rw      map[*sync.RWMutex]*rwst
	crashed map[string]bool
	stalled map[string]time.Time
	dying   bool
	last    *G
	start   time.Time
	pct     bool // priority-based schedule (PCT): highest priority runnable goroutine runs; priorities drop at a few change points
	pctNext int  // step of the next priority change point
	pctLow  int  // lowest priority handed out so far
	preemptPermille int // per-run probability (per mille) of descheduling a preemptible goroutine at a scheduling point

	Steps    int
	hash     uint64
	Log      []string
	Adopted  int
	Stray    int
	Probes   map[string]int
	Faults   map[string]int
	StepCap  bool
	HorizonH bool
	SimTime  time.Duration
	Ready2   int // scheduling points with >= 2 runnable goroutines
	Panics   []string
}

type rwst struct {
	writer  *G
	readers int
}

// S is the active scheduler; nil means inert hooks.
var S *Sched

func goid() int64 {
	var buf [64]byte
	n := runtime.Stack(buf[:], false)
	b := buf[:n]
	b = b[len("goroutine "):]
	i := bytes.IndexByte(b, ' ')
	id, _ := strconv.ParseInt(string(b[:i]), 10, 64)
	return id
}

func (s *Sched) cur() *G {
	id := goid()
	s.mu.Lock()
	g := s.byGoid[id]
	if g == nil {
		s.Adopted++
		g = &G{id: fmt.Sprintf("adopt%d", s.Adopted), wake: make(chan struct{})}
		s.byGoid[id] = g
		s.all = append(s.all, g)
	}
	s.mu.Unlock()
	return g
}

const (
	fnvOff   = 14695981039346656037
	fnvPrime = 1099511628211
)

func (s *Sched) note(ev string) {
	h := s.hash
	for i := 0; i < len(ev); i++ {
		h ^= uint64(ev[i])
		h *= fnvPrime
	}
	h ^= 0xff
	h *= fnvPrime
	s.hash = h
	if s.cfg.KeepLog {
		s.Log = append(s.Log, fmt.Sprintf("%d t=%v %s", s.Steps, time.Since(s.start), ev))
	}
}

func (s *Sched) signal() {
	select {
	case s.wakeCh <- struct{}{}:
	default:
	}
}

// park registers the goroutine as waiting for the token and blocks until granted.
func (s *Sched) park(g *G, kind string, obj any) {
	s.mu.Lock()
	if s.dying {
		s.mu.Unlock()
		return
	}
	g.state, g.kind, g.obj = parked, kind, obj
	s.mu.Unlock()
	s.signal()
	<-g.wake
	if s.dying {
		runtime.Goexit()
	}
}

func pre(kind string, obj any) {
	s := S
	if s == nil {
		return
	}
	g := s.cur()
	s.mu.Lock()
	if g.state == blocked && !s.dying {
		// woke up inside uninstrumented code and ran to here without the token (not counted during the
		// tear-down of a finished run, when every goroutine is released at once)
		s.Stray++
		if os.Getenv("VERIF_STRAY_DEBUG") != "" {
			s.Probes["stray:"+g.kind+"->"+kind]++
			if s.Probes["stray:"+g.kind+"->"+kind] == 1 {
				fmt.Fprintf(os.Stderr, "STRAY %s->%s goroutine %s\n%s\n", g.kind, kind, g.id, debug.Stack())
			}
		}
	}
	s.mu.Unlock()
	s.park(g, kind, obj)
}

func post(kind string) {
	s := S
	if s == nil {
		return
	}
	g := s.cur()
	s.mu.Lock()
	still := g.state == running
	s.mu.Unlock()
	if still {
		return // never lost the token
	}
	s.park(g, "post:"+kind, nil)
}

func (s *Sched) runnable(g *G, now time.Time) bool {
	if g.state != parked {
		return false
	}
	if !g.until.IsZero() {
		if now.Before(g.until) {
			return false
		}
		g.until = time.Time{}
	}
	if g.node != "" {
		if s.crashed[g.node] {
			return false
		}
		if u, ok := s.stalled[g.node]; ok {
			if now.Before(u) {
				return false
			}
			delete(s.stalled, g.node)
		}
	}
	switch g.kind {
	case "lock":
		return s.held[g.obj.(*sync.Mutex)] == nil
	case "wlock":
		st := s.rw[g.obj.(*sync.RWMutex)]
		return st == nil || (st.writer == nil && st.readers == 0)
	case "rlock":
		st := s.rw[g.obj.(*sync.RWMutex)]
		return st == nil || st.writer == nil
	}
	return true
}

// Run executes main under the scheduler inside the current synctest bubble and returns when
// main has returned (remaining goroutines are torn down), or the horizon / step cap is hit.
func Run(cfg Config, main func()) *Sched {
	if cfg.MaxSteps == 0 {
		cfg.MaxSteps = 5_000_000
	}
	if cfg.Horizon == 0 {
		cfg.Horizon = time.Hour
	}
	s := &Sched{cfg: cfg, byGoid: map[int64]*G{}, wakeCh: make(chan struct{}, 1), ch: newChooser(cfg.Seed, cfg.Replay),
		held: map[*sync.Mutex]*G{}, rw: map[*sync.RWMutex]*rwst{}, crashed: map[string]bool{}, stalled: map[string]time.Time{},
		Probes: map[string]int{}, Faults: map[string]int{}, hash: fnvOff, start: time.Now()}
	S = s
	defer func() { S = nil }()
	if cfg.KeepPct < 0 {
		m := s.ch.intn("cfg", 5)
		if m == 4 {
			// PCT-style schedule: random priorities, few change points (finds orderings of a few
			// events that a uniform random walk needs very many runs to hit)
			s.pct = true
			s.pctNext = 1 + s.ch.intn("pc", 300)
			m = 0
		}
		s.cfg.KeepPct = []int{0, 50, 90, 99}[m]
		cfg.KeepPct = s.cfg.KeepPct
	}
	if cfg.PreemptMax > 0 {
		s.preemptPermille = []int{0, 0, 2, 20}[s.ch.intn("cfg", 4)]
	}
	// In half of the runs releasing a lock is a scheduling point too: another goroutine may run between a
	// critical section and the lock-free code that uses what was read in it (check-then-act across an unlock).
	s.unlockYields = s.ch.intn("cfg", 2) == 1
	root := &G{id: "0", wake: make(chan struct{}), state: parked, kind: "start"}
	s.all = append(s.all, root)
	s.spawn(root, main)
	deadline := s.start.Add(cfg.Horizon)
	for {
		synctest.Wait()
		now := time.Now()
		s.mu.Lock()
		for n, u := range s.stalled {
			if !now.Before(u) {
				delete(s.stalled, n)
			}
		}
		var rs []*G
		for _, g := range s.all {
			if g.state == running {
				g.state = blocked // granted the token and now durably blocked in a real operation
				if os.Getenv("VERIF_STRAY_DEBUG") == "2" && g.kind == "post:select" && s.Probes["dbg:blocked-after-post-select"] < 3 {
					s.Probes["dbg:blocked-after-post-select"]++
					var id int64
					for k, v := range s.byGoid {
						if v == g {
							id = k
						}
					}
					buf := make([]byte, 4<<20)
					n := runtime.Stack(buf, true)
					for _, blk := range strings.Split(string(buf[:n]), "\n\n") {
						if strings.HasPrefix(blk, fmt.Sprintf("goroutine %d ", id)) {
							fmt.Fprintf(os.Stderr, "BLOCKED-AFTER-POST-SELECT %s\n%s\n\n", g.id, blk)
						}
					}
				}
			}
			if s.runnable(g, now) {
				rs = append(rs, g)
			}
		}
		if root.state == dead {
			s.mu.Unlock()
			break
		}
		if s.Steps >= cfg.MaxSteps {
			s.StepCap = true
			s.note("stepcap")
			s.mu.Unlock()
			break
		}
		if len(rs) == 0 {
			// compact the goroutine table now and then
			if len(s.all) > 256 {
				s.all = slices.DeleteFunc(s.all, func(g *G) bool { return g.state == dead })
			}
			wakeAt := deadline
			for _, u := range s.stalled {
				if u.Before(wakeAt) {
					wakeAt = u
				}
			}
			for _, g := range s.all {
				if g.state == parked && !g.until.IsZero() && g.until.Before(wakeAt) {
					wakeAt = g.until
				}
			}
			s.mu.Unlock()
			rem := wakeAt.Sub(now)
			if !now.Before(deadline) {
				s.mu.Lock()
				s.HorizonH = true
				s.note("horizon")
				s.mu.Unlock()
				break
			}
			t := time.NewTimer(rem)
			select {
			case <-s.wakeCh:
				t.Stop()
			case <-t.C:
			}
			continue
		}
		slices.SortFunc(rs, func(a, b *G) int { return cmp.Compare(a.id, b.id) })
		var g *G
		if len(rs) == 1 {
			g = rs[0]
		} else if s.pct {
			s.Ready2++
			g = rs[0]
			for _, x := range rs[1:] {
				if x.prio > g.prio {
					g = x
				}
			}
			if s.Steps >= s.pctNext { // change point: the running goroutine drops below everybody
				s.pctLow--
				g.prio = s.pctLow
				s.pctNext = s.Steps + 1 + s.ch.intn("pc", 300)
			}
		} else {
			s.Ready2++
			keep := false
			if s.last != nil && s.last.state == parked && slices.Contains(rs, s.last) && cfg.KeepPct > 0 {
				keep = s.ch.intn("k", 100) < cfg.KeepPct
			}
			if keep {
				g = s.last
			} else {
				g = rs[s.ch.intn("s", len(rs))]
			}
		}
		if s.preemptPermille > 0 && g.preemptible && s.ch.intn("p", 1000) >= 1000-s.preemptPermille {
			// the chosen goroutine is taken off the processor instead: 1/1000 .. 1 of PreemptMax
			unit := cfg.PreemptMax / []time.Duration{1000, 100, 10, 1}[s.ch.intn("p", 4)]
			d := unit * time.Duration(1+s.ch.intn("p", 10)) / 10
			if d <= 0 {
				d = time.Nanosecond
			}
			g.until = now.Add(d)
			s.Faults["goroutine-descheduled"]++
			s.note("fault:deschedule " + g.id + " " + d.String())
			s.mu.Unlock()
			continue
		}
		switch g.kind {
		case "lock":
			s.held[g.obj.(*sync.Mutex)] = g
		case "wlock":
			s.rwOf(g.obj.(*sync.RWMutex)).writer = g
		case "rlock":
			s.rwOf(g.obj.(*sync.RWMutex)).readers++
		}
		g.state = running
		s.last = g
		s.Steps++
		s.note(g.id + ":" + g.kind)
		s.mu.Unlock()
		g.wake <- struct{}{}
	}
	s.SimTime = time.Since(s.start)
	s.teardown()
	return s
}

func (s *Sched) rwOf(m *sync.RWMutex) *rwst {
	st := s.rw[m]
	if st == nil {
		st = &rwst{}
		s.rw[m] = st
	}
	return st
}

func (s *Sched) teardown() {
	s.mu.Lock()
	s.dying = true
	var ps []*G
	for _, g := range s.all {
		if g.state == parked {
			ps = append(ps, g)
		}
	}
	s.mu.Unlock()
	for _, g := range ps {
		g.wake <- struct{}{}
	}
	synctest.Wait()
}

func (s *Sched) spawn(child *G, f func()) {
	go func() {
		id := goid()
		s.mu.Lock()
		s.byGoid[id] = child
		s.mu.Unlock()
		defer func() {
			if r := recover(); r != nil {
				s.mu.Lock()
				if !s.dying {
					s.Panics = append(s.Panics, fmt.Sprintf("goroutine %s node=%q: %v\n%s", child.id, child.node, r, debug.Stack()))
					s.note("panic " + child.id)
				}
				s.mu.Unlock()
			}
			s.mu.Lock()
			child.state = dead
			delete(s.byGoid, id)
			s.mu.Unlock()
			s.signal()
		}()
		s.park(child, "start", nil)
		f()
	}()
}

// Go starts f as a scheduled goroutine (replacement for the go statement).
func Go(f func()) {
	s := S
	if s == nil {
		go f()
		return
	}
	p := s.cur()
	s.mu.Lock()
	if s.dying {
		s.mu.Unlock()
		go f()
		return
	}
	p.nchild++
	child := &G{id: p.id + "." + strconv.Itoa(p.nchild), node: p.node, preemptible: p.preemptible, wake: make(chan struct{}), state: parked, kind: "start"}
	if s.pct {
		child.prio = s.ch.intn("pp", 1<<16)
	}
	s.all = append(s.all, child)
	s.mu.Unlock()
	s.spawn(child, f)
}

// ---- harness-facing API ---------------------------------------------------------------------

// Fingerprint is the digest of the run's hash-chained event log.
func (s *Sched) Fingerprint() uint64 { return s.hash }

// Tape returns the choices actually consumed by the run (normalised: what a replay needs).
func (s *Sched) Tape() Tape { return s.ch.consumed() }

// Draws is the number of recorded choices.
func (s *Sched) Draws() int { return s.ch.draws }

// Note appends an observation to the event log.
func Note(format string, a ...any) {
	if s := S; s != nil {
		ev := format
		if len(a) > 0 {
			ev = fmt.Sprintf(format, a...)
		}
		s.mu.Lock()
		s.note(ev)
		s.mu.Unlock()
	}
}

// Intn draws a value in [0,k) from the named choice stream.
func Intn(stream string, k int) int {
	s := S
	if s == nil {
		return 0
	}
	s.mu.Lock()
	defer s.mu.Unlock()
	return s.ch.intn(stream, k)
}

// Chance returns true with probability num/den; a zero tape value yields false.
func Chance(stream string, num, den int) bool {
	if num <= 0 {
		return false
	}
	return Intn(stream, den) >= den-num
}

// Probe counts a named reach probe.
func Probe(name string) {
	if s := S; s != nil {
		s.mu.Lock()
		s.Probes[name]++
		s.mu.Unlock()
	}
}

// Fault counts a fault that actually fired.
func Fault(name string) {
	if s := S; s != nil {
		s.mu.Lock()
		s.Faults[name]++
		s.note("fault:" + name)
		s.mu.Unlock()
	}
}

// Step is the global scheduling step counter (used to stamp invoke/return events).
func Step() int {
	if s := S; s != nil {
		s.mu.Lock()
		defer s.mu.Unlock()
		return s.Steps
	}
	return 0
}

// Now is the simulated time since the start of the run.
func Now() time.Duration {
	if s := S; s != nil {
		return time.Since(s.start)
	}
	return 0
}

// SetNode tags the calling goroutine (and goroutines it starts later) as belonging to node.
func SetNode(node string) {
	if s := S; s != nil {
		g := s.cur()
		s.mu.Lock()
		g.node = node
		s.mu.Unlock()
	}
}

// SetPreemptible marks the calling goroutine (and goroutines it starts later) as one the scheduler may
// deschedule for a simulated interval at any of its scheduling points (see Config.PreemptMax).
func SetPreemptible(on bool) {
	if s := S; s != nil {
		g := s.cur()
		s.mu.Lock()
		g.preemptible = on
		s.mu.Unlock()
	}
}

// Crash stops every goroutine of node for good at its current scheduling point.
func Crash(node string) {
	if s := S; s != nil {
		s.mu.Lock()
		s.crashed[node] = true
		s.Faults["crash"]++
		s.note("fault:crash " + node)
		s.mu.Unlock()
	}
}

// Crashed reports whether node has been crashed.
func Crashed(node string) bool {
	if s := S; s != nil {
		s.mu.Lock()
		defer s.mu.Unlock()
		return s.crashed[node]
	}
	return false
}

// Stall withholds the token from node's goroutines for d of simulated time.
func Stall(node string, d time.Duration) {
	if s := S; s != nil {
		s.mu.Lock()
		s.stalled[node] = time.Now().Add(d)
		s.Faults["stall"]++
		s.note("fault:stall " + node)
		s.mu.Unlock()
	}
}

// Yield is an explicit scheduling point.
func Yield() { pre("yield", nil) }

// ---- hooks inserted by the instrumenter -----------------------------------------------------

func PreBlock()  {}
func PostBlock() { post("select") }

func Send[T any](ch chan<- T, v T) { pre("send", nil); ch <- v; post("send") }
func Recv[T any](ch <-chan T) T    { pre("recv", nil); v := <-ch; post("recv"); return v }
func Recv2[T any](ch <-chan T) (T, bool) {
	pre("recv", nil)
	v, ok := <-ch
	post("recv")
	return v, ok
}
func Close[T any](ch chan<- T) { pre("close", nil); close(ch) }
func Sleep(d time.Duration)    { pre("sleep", nil); time.Sleep(d); post("sleep") }

// SleepFn brackets a sleeping method (clockwork.Clock.Sleep) with scheduling points.
func SleepFn(f func(time.Duration), d time.Duration) { pre("sleep", nil); f(d); post("sleep") }

func Chan[T any](ch <-chan T) iter.Seq[T] {
	return func(yield func(T) bool) {
		for {
			v, ok := Recv2(ch)
			if !ok || !yield(v) {
				return
			}
		}
	}
}

func TryRecv[T any](ch <-chan T) (v T, ok bool, got bool) {
	select {
	case v, ok = <-ch:
		return v, ok, true
	default:
		return v, false, false
	}
}

func TrySend[T any](ch chan<- T, v T) bool {
	select {
	case ch <- v:
		return true
	default:
		return false
	}
}

func ZeroElem[T any](ch <-chan T) (z T)     { return z }
func ZeroElemSend[T any](ch chan<- T) (z T) { return z }

func perm(stream string, n int) []int {
	p := make([]int, n)
	for i := range p {
		p[i] = i
	}
	if s := S; s != nil && n > 1 {
		s.mu.Lock()
		// Fisher-Yates driven by the chooser; an all-zero tape yields the identity.
		for i := 0; i < n-1; i++ {
			j := i + s.ch.intn(stream, n-i)
			p[i], p[j] = p[j], p[i]
		}
		s.mu.Unlock()
	}
	return p
}

// SelectOrder is a scheduling point followed by the order in which the select's cases are polled.
func SelectOrder(idx ...int) []int {
	if S == nil {
		return idx
	}
	pre("select", nil)
	p := perm("sel", len(idx))
	out := make([]int, len(idx))
	for i, j := range p {
		out[i] = idx[j]
	}
	return out
}

func MLock(m *sync.Mutex) {
	s := S
	if s == nil {
		m.Lock()
		return
	}
	pre("lock", m)
	if s.dying {
		if !m.TryLock() {
			runtime.Goexit()
		}
		return
	}
	m.Lock()
}

func MUnlock(m *sync.Mutex) {
	s := S
	if s != nil {
		s.mu.Lock()
		delete(s.held, m)
		s.mu.Unlock()
	}
	m.Unlock()
	afterUnlock(s)
}

// afterUnlock: a possible switch right after a lock was released (see unlockYields).
func afterUnlock(s *Sched) {
	if s == nil || !s.unlockYields || s.dying {
		return
	}
	pre("unlocked", nil)
}

func RWLock(m *sync.RWMutex) {
	s := S
	if s == nil {
		m.Lock()
		return
	}
	pre("wlock", m)
	if s.dying {
		if !m.TryLock() {
			runtime.Goexit()
		}
		return
	}
	m.Lock()
}

func RWUnlock(m *sync.RWMutex) {
	s := S
	if s != nil {
		s.mu.Lock()
		s.rwOf(m).writer = nil
		s.mu.Unlock()
	}
	m.Unlock()
	afterUnlock(s)
}

func RWRLock(m *sync.RWMutex) {
	s := S
	if s == nil {
		m.RLock()
		return
	}
	pre("rlock", m)
	if s.dying {
		if !m.TryRLock() {
			runtime.Goexit()
		}
		return
	}
	m.RLock()
}

func RWRUnlock(m *sync.RWMutex) {
	s := S
	if s != nil {
		s.mu.Lock()
		s.rwOf(m).readers--
		s.mu.Unlock()
	}
	m.RUnlock()
	afterUnlock(s)
}

func WGWait(w *sync.WaitGroup) { pre("wgwait", nil); w.Wait(); post("wgwait") }

// Map iterates a map in an order drawn from the run's chooser (canonical key order, then a
// seeded permutation). Inert: native iteration.
func Map[M ~map[K]V, K comparable, V any](m M) iter.Seq2[K, V] {
	return func(yield func(K, V) bool) {
		if S == nil {
			for k, v := range m {
				if !yield(k, v) {
					return
				}
			}
			return
		}
		type kv struct {
			s string
			k K
		}
		keys := make([]kv, 0, len(m))
		for k := range m {
			keys = append(keys, kv{fmt.Sprintf("%v", k), k})
		}
		slices.SortFunc(keys, func(a, b kv) int { return cmp.Compare(a.s, b.s) })
		for _, i := range perm("m", len(keys)) {
			k := keys[i].k
			v, ok := m[k]
			if !ok {
				continue
			}
			if !yield(k, v) {
				return
			}
		}
	}
}

func MTryLock(m *sync.Mutex) bool {
	s := S
	if s == nil {
		return m.TryLock()
	}
	pre("trylock", nil)
	ok := m.TryLock()
	if ok {
		g := s.cur()
		s.mu.Lock()
		s.held[m] = g
		s.mu.Unlock()
	}
	return ok
}

func RWTryLock(m *sync.RWMutex) bool {
	s := S
	if s == nil {
		return m.TryLock()
	}
	pre("trylock", nil)
	ok := m.TryLock()
	if ok {
		g := s.cur()
		s.mu.Lock()
		s.rwOf(m).writer = g
		s.mu.Unlock()
	}
	return ok
}

func RWTryRLock(m *sync.RWMutex) bool {
	s := S
	if s == nil {
		return m.TryRLock()
	}
	pre("trylock", nil)
	ok := m.TryRLock()
	if ok {
		s.mu.Lock()
		s.rwOf(m).readers++
		s.mu.Unlock()
	}
	return ok
}

// ---- helpers for harness code (which is not instrumented) -----------------------------------

// GoNode starts f as a scheduled goroutine tagged with node (instead of inheriting the caller's tag).
func GoNode(node string, f func()) {
	Go(func() {
		SetNode(node)
		f()
	})
}

// RecvOrDone is `select { case v := <-ch: …; case <-done: … }` under the scheduler.
func RecvOrDone[T any](ch <-chan T, done <-chan struct{}) (v T, ok bool) {
	pre("select", nil)
	if v, ok, got := TryRecv(ch); got {
		return v, ok
	}
	if _, _, got := TryRecv(done); got {
		return v, false
	}
	select {
	case v, ok = <-ch:
	case <-done:
		ok = false
	}
	post("select")
	return v, ok
}

// SendOrDone is `select { case ch <- v: …; case <-done: … }` under the scheduler; true if sent.
func SendOrDone[T any](ch chan<- T, v T, done <-chan struct{}) bool {
	pre("select", nil)
	if TrySend(ch, v) {
		return true
	}
	if _, _, got := TryRecv(done); got {
		return false
	}
	sent := false
	select {
	case ch <- v:
		sent = true
	case <-done:
	}
	post("select")
	return sent
}

// RecvTimeout waits for a value on ch, for done to be closed, or for d of simulated time (d <= 0:
// no timeout). status: 0 = received, 1 = done, 2 = timeout.
func RecvTimeout[T any](ch <-chan T, done <-chan struct{}, d time.Duration) (v T, status int) {
	pre("select", nil)
	if v, _, got := TryRecv(ch); got {
		return v, 0
	}
	if _, _, got := TryRecv(done); got {
		return v, 1
	}
	var tc <-chan time.Time
	if d > 0 {
		t := time.NewTimer(d)
		defer t.Stop()
		tc = t.C
	}
	select {
	case v = <-ch:
	case <-done:
		status = 1
	case <-tc:
		status = 2
	}
	post("select")
	return v, status
}

// Node returns the calling goroutine's node tag.
func Node() string {
	if s := S; s != nil {
		g := s.cur()
		s.mu.Lock()
		defer s.mu.Unlock()
		return g.node
	}
	return ""
}
