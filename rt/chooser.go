//go:build verif

package verifrt

import (
	"math/rand/v2"
)

// Tape is the record of every choice of a run, one sequence per named stream. Streams keep the
// workload, the scheduler, select polling, map order, network fates and faults independent so
// that the minimiser can simplify one dimension without shifting the others.
type Tape map[string][]uint32

type chooser struct {
	rng    *rand.Rand
	replay Tape
	pos    map[string]int
	used   Tape
	draws  int
}

func newChooser(seed uint64, replay Tape) *chooser {
	c := &chooser{pos: map[string]int{}, used: Tape{}, replay: replay}
	if replay == nil {
		c.rng = rand.New(rand.NewPCG(seed, 0x9e3779b97f4a7c15))
	}
	return c
}

// intn returns a value in [0,k). Generate mode draws from the PRNG; replay mode reads the tape
// (value mod k; past the end: 0). k <= 1 consumes nothing.
func (c *chooser) intn(stream string, k int) int {
	if k <= 1 {
		return 0
	}
	var v uint32
	if c.replay != nil {
		t := c.replay[stream]
		p := c.pos[stream]
		if p < len(t) {
			v = t[p] % uint32(k)
		}
		c.pos[stream] = p + 1
	} else {
		v = uint32(c.rng.IntN(k))
	}
	c.used[stream] = append(c.used[stream], v)
	c.draws++
	return int(v)
}

func (c *chooser) consumed() Tape {
	out := Tape{}
	for k, v := range c.used {
		// trailing zeros are implied
		n := len(v)
		for n > 0 && v[n-1] == 0 {
			n--
		}
		if n > 0 {
			out[k] = append([]uint32(nil), v[:n]...)
		}
	}
	return out
}
