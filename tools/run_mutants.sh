#!/bin/bash
# tools/run_mutants.sh [budget] - run every deliberate breakage under mutants/<prop>/ against its property's check
# (scratch worktrees; /repo untouched) and write mutants/RESULTS.txt
budget=${1:-40}
out=/verif/mutants/RESULTS.txt
: > $out.tmp
for d in ${MUTANT_DIRS:-/verif/mutants/C*/}; do
  prop=$(basename $d)
  for m in $d*.diff; do
    [ -f "$m" ] || continue
    p=$prop
    # a mutant may name other properties to run in a sidecar file <name>.props
    props=$p; [ -f "${m%.diff}.props" ] && props=$(cat "${m%.diff}.props")
    for q in $props; do
      r=$(/verif/tools/mutant.sh $q $m $budget 2>&1 | grep "^MUTANT" | tail -1)
      echo "$prop/$(basename $m) vs $q: ${r##*: }" | tee -a $out.tmp
    done
  done
done
mv $out.tmp $out
