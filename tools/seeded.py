#!/usr/bin/env python3
"""tools/seeded.py <seedout-dir> [--budget S] [--props C02,C03] [--skip-existing-tests] [--prefix W3-]
   tools/seeded.py /verif/seeded/<name> --recheck [--budget S] [--props ...]   (re-run the checks only)

Validates one seeded breaking change produced by an independent sub-agent and records it under
/verif/seeded/<name>/ :
  1. scratch worktree + patch: `go build ./...` succeeds;
  2. the demonstration FAILS with the patch and PASSES without it;
  3. the existing tests of the touched packages still pass with the patch (unless skipped);
  4. the property's check (and optionally others) is run against the patched tree: CAUGHT / MISSED.
/repo is never touched; worktrees are removed afterwards.
"""
import json, os, shutil, subprocess, sys, time

ENV = dict(os.environ, PATH="/opt/veriftools/go1.26.8/bin:" + os.environ["PATH"], GOFLAGS="-mod=mod", GOPROXY="off", GOSUMDB="off", GOTOOLCHAIN="local")


def sh(cmd, cwd=None, timeout=3600):
    p = subprocess.run(cmd, cwd=cwd, env=ENV, shell=isinstance(cmd, str), stdout=subprocess.PIPE, stderr=subprocess.STDOUT, text=True, timeout=timeout)
    return p.returncode, p.stdout


def worktree(tag):
    wt = "/tmp/vseed-%s-%d" % (tag, os.getpid())
    sh(["git", "-C", "/repo", "worktree", "remove", "--force", wt])
    rc, out = sh(["git", "-C", "/repo", "worktree", "add", "-q", "--detach", wt, "HEAD"])
    assert rc == 0, out
    return wt


def rm_worktree(wt):
    sh(["git", "-C", "/repo", "worktree", "remove", "--force", wt])


def copy_demo(src, wt):
    demo = os.path.join(src, "demo")
    files = []
    for root, _, fs in os.walk(demo):
        for f in fs:
            rel = os.path.relpath(os.path.join(root, f), demo)
            os.makedirs(os.path.dirname(os.path.join(wt, rel)), exist_ok=True)
            shutil.copyfile(os.path.join(root, f), os.path.join(wt, rel))
            files.append(rel)
    return files


def main():
    a = sys.argv[1:]
    src = a[0].rstrip("/")
    budget = "40"
    props = None
    skip_tests = "--skip-existing-tests" in a
    if "--budget" in a:
        budget = a[a.index("--budget") + 1]
    if "--props" in a:
        props = a[a.index("--props") + 1].split(",")
    name = os.path.basename(src)
    if "--prefix" in a:
        name = a[a.index("--prefix") + 1] + name
    if "--recheck" in a:
        # only re-run our checks against an already recorded change and update its meta.json
        dst = src if os.path.isfile(os.path.join(src, "patch.diff")) and src.startswith("/verif/seeded") else os.path.join("/verif/seeded", name)
        m = json.load(open(os.path.join(dst, "meta.json")))
        for p in (props or [m["property"]]):
            rc, out = sh(["/verif/tools/mutant.sh", p, os.path.join(dst, "patch.diff"), budget], timeout=7200)
            verdict = [l for l in out.splitlines() if l.startswith("MUTANT")]
            viol = [l.strip()[:300] for l in out.splitlines() if l.strip().startswith("violated")]
            m["checks_run"][p] = {"verdict": (verdict[-1].split(": ")[-1] if verdict else "ERROR"), "violations": viol[:4]}
            print(os.path.basename(dst), p, m["checks_run"][p]["verdict"])
        m["checked_at"] = time.strftime("%Y-%m-%dT%H:%M:%SZ", time.gmtime())
        json.dump(m, open(os.path.join(dst, "meta.json"), "w"), indent=1)
        return
    meta = json.load(open(os.path.join(src, "meta.json")))
    prop = meta["property"]
    props = props or [prop]
    patch = os.path.join(src, "patch.diff")
    res = {"name": name, "property": prop}

    # 1+2: with patch
    wt = worktree(name + "-p")
    rc, out = sh(["git", "apply", patch], cwd=wt)
    if rc != 0:
        print("PATCH DOES NOT APPLY", out); rm_worktree(wt); sys.exit(2)
    rc, out = sh("go build ./...", cwd=wt)
    res["builds_with_change"] = rc == 0
    demo_files = copy_demo(src, wt)
    run = meta["demo"]["run"]
    rc1, out1 = sh(run, cwd=wt, timeout=1800)
    res["demo_fails_with_change"] = rc1 != 0
    # 3: existing tests of touched packages (demo removed)
    for f in demo_files:
        os.remove(os.path.join(wt, f))
    pkgs = sorted({"./" + os.path.dirname(f) for f in meta.get("files_changed", []) if f.endswith(".go")})
    res["existing_tests_cmd"] = "go test -vet=off -count=1 " + " ".join(pkgs)
    if not skip_tests and pkgs:
        rc3, out3 = sh(res["existing_tests_cmd"], cwd=wt, timeout=3600)
        fails = [l for l in out3.splitlines() if l.startswith("--- FAIL") or l.startswith("FAIL")]
        # app/log has 4 tests that fail on the unchanged tree too (baseline always_fail)
        res["existing_tests_pass_with_change"] = rc3 == 0
        res["existing_tests_failures"] = fails[:10]
    rm_worktree(wt)
    # 2b: without patch
    wt = worktree(name + "-c")
    copy_demo(src, wt)
    rc2, out2 = sh(run, cwd=wt, timeout=1800)
    res["demo_passes_without_change"] = rc2 == 0
    rm_worktree(wt)
    # 4: our checks
    res["checks"] = {}
    for p in props:
        rc, out = sh(["/verif/tools/mutant.sh", p, patch, budget], timeout=7200)
        verdict = [l for l in out.splitlines() if l.startswith("MUTANT")]
        viol = [l.strip()[:300] for l in out.splitlines() if l.strip().startswith("violated")]
        res["checks"][p] = {"verdict": (verdict[-1].split(": ")[-1] if verdict else "ERROR"), "violations": viol[:4]}
    # record
    dst = os.path.join("/verif/seeded", name)
    shutil.rmtree(dst, ignore_errors=True)
    os.makedirs(dst)
    shutil.copyfile(patch, os.path.join(dst, "patch.diff"))
    if os.path.isdir(os.path.join(src, "demo")):
        shutil.copytree(os.path.join(src, "demo"), os.path.join(dst, "demo"))
    out_meta = {
        "property": prop,
        "summary": meta.get("summary"), "mechanism": meta.get("mechanism"), "needs_to_manifest": meta.get("needs_to_manifest"),
        "files_changed": meta.get("files_changed"), "demo": meta.get("demo"),
        "author": "independent sub-agent given only the property text and a scratch worktree",
        "confirmed_by_me": {k: res.get(k) for k in ("builds_with_change", "demo_fails_with_change", "demo_passes_without_change", "existing_tests_cmd", "existing_tests_pass_with_change", "existing_tests_failures")},
        "checks_run": res["checks"],
        "checked_at": time.strftime("%Y-%m-%dT%H:%M:%SZ", time.gmtime()),
    }
    json.dump(out_meta, open(os.path.join(dst, "meta.json"), "w"), indent=1)
    print(json.dumps(res, indent=1))


if __name__ == "__main__":
    main()
