#!/usr/bin/env python3
"""prints the markdown table of seeded changes (seeded/*/meta.json) and deliberate breakages (mutants/RESULTS.txt)"""
import json, glob, os
rows = []
for f in sorted(glob.glob('/verif/seeded/*/meta.json')):
    m = json.load(open(f)); name = os.path.basename(os.path.dirname(f))
    checks = m.get('checks_run', {})
    verdict = '; '.join('%s: %s' % (k, v['verdict']) for k, v in checks.items())
    oracles = sorted({v.split('oracle=')[1].split(' ')[0] for c in checks.values() for v in c.get('violations', []) if 'oracle=' in v})
    cb = m.get('confirmed_by_me', {})
    ok = all(cb.get(k) for k in ('builds_with_change', 'demo_fails_with_change', 'demo_passes_without_change'))
    tests = cb.get('existing_tests_pass_with_change')
    summ = (m.get('summary') or '').replace('\n', ' ').replace('|', '/')
    if len(summ) > 170: summ = summ[:167] + '...'
    rows.append('| %s | %s | %s | %s | %s | %s |' % (name, m['property'], summ, 'yes' if ok else 'NO', {True: 'pass', False: 'FAIL', None: 'n/a'}[tests], verdict + (' (' + ', '.join(oracles) + ')' if oracles else '')))
print('| seeded change | property | what it does | build + demo confirmed | existing tests of touched pkgs | check verdict (oracles) |')
print('|---|---|---|---|---|---|')
print('\n'.join(rows))
if os.path.exists('/verif/mutants/RESULTS.txt'):
    print('\nDeliberate breakages (`mutants/`, run with `tools/run_mutants.sh`):\n')
    print('```'); print(open('/verif/mutants/RESULTS.txt').read().strip()); print('```')
