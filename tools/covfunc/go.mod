module covfunc

go 1.26
