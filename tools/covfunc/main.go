// covfunc maps a Go cover profile taken from a harness built with -overlay onto functions of the
// (transformed) repository sources: "which repository functions did the simulated runs execute?".
// Usage: covfunc -overlay <overlay.json> -repo /repo -mod github.com/obolnetwork/charon profile...
package main

import (
	"bufio"
	"encoding/json"
	"flag"
	"fmt"
	"go/ast"
	"go/parser"
	"go/token"
	"os"
	"path/filepath"
	"regexp"
	"sort"
	"strconv"
	"strings"
)

type block struct {
	sl, sc, el, ec, n int
	hit              bool
}

func mustRead(p string) []byte {
	b, err := os.ReadFile(p)
	if err != nil {
		panic(err)
	}
	return b
}

func main() {
	overlay := flag.String("overlay", "", "overlay.json")
	repo := flag.String("repo", "/repo", "repository root")
	mod := flag.String("mod", "github.com/obolnetwork/charon", "module path")
	show := flag.String("show", "", "regexp over file:function; print the source of their uncovered blocks instead of the table")
	flag.Parse()
	var showRe *regexp.Regexp
	if *show != "" {
		showRe = regexp.MustCompile(*show)
	}
	repl := map[string]string{}
	if *overlay != "" {
		var o struct{ Replace map[string]string }
		b, err := os.ReadFile(*overlay)
		if err != nil {
			panic(err)
		}
		if err := json.Unmarshal(b, &o); err != nil {
			panic(err)
		}
		repl = o.Replace
	}
	blocks := map[string]map[string]*block{} // file -> key -> block
	for _, p := range flag.Args() {
		f, err := os.Open(p)
		if err != nil {
			continue
		}
		sc := bufio.NewScanner(f)
		sc.Buffer(make([]byte, 1<<20), 1<<26)
		for sc.Scan() {
			l := sc.Text()
			if strings.HasPrefix(l, "mode:") {
				continue
			}
			i := strings.LastIndex(l, ":")
			if i < 0 {
				continue
			}
			file, rest := l[:i], l[i+1:]
			if !strings.HasPrefix(file, *mod+"/") {
				continue
			}
			parts := strings.Fields(rest)
			if len(parts) != 3 {
				continue
			}
			var b block
			se := strings.Split(parts[0], ",")
			s := strings.Split(se[0], ".")
			e := strings.Split(se[1], ".")
			b.sl, _ = strconv.Atoi(s[0])
			b.sc, _ = strconv.Atoi(s[1])
			b.el, _ = strconv.Atoi(e[0])
			b.ec, _ = strconv.Atoi(e[1])
			b.n, _ = strconv.Atoi(parts[1])
			cnt, _ := strconv.Atoi(parts[2])
			if blocks[file] == nil {
				blocks[file] = map[string]*block{}
			}
			if old, ok := blocks[file][parts[0]]; ok {
				old.hit = old.hit || cnt > 0
			} else {
				b.hit = cnt > 0
				blocks[file][parts[0]] = &b
			}
		}
		f.Close()
	}
	files := make([]string, 0, len(blocks))
	for f := range blocks {
		files = append(files, f)
	}
	sort.Strings(files)
	for _, file := range files {
		rel := strings.TrimPrefix(file, *mod+"/")
		src := filepath.Join(*repo, rel)
		if r, ok := repl[src]; ok {
			src = r
		}
		fset := token.NewFileSet()
		af, err := parser.ParseFile(fset, src, nil, 0)
		if err != nil {
			continue
		}
		for _, d := range af.Decls {
			fd, ok := d.(*ast.FuncDecl)
			if !ok || fd.Body == nil {
				continue
			}
			name := fd.Name.Name
			if fd.Recv != nil && len(fd.Recv.List) > 0 {
				t := fd.Recv.List[0].Type
				if st, ok := t.(*ast.StarExpr); ok {
					t = st.X
				}
				if ix, ok := t.(*ast.IndexExpr); ok {
					t = ix.X
				}
				if id, ok := t.(*ast.Ident); ok {
					name = id.Name + "." + name
				}
			}
			s, e := fset.Position(fd.Body.Lbrace), fset.Position(fd.Body.Rbrace)
			tot, cov := 0, 0
			for _, b := range blocks[file] {
				if (b.sl > s.Line || (b.sl == s.Line && b.sc >= s.Column)) && (b.el < e.Line || (b.el == e.Line && b.ec <= e.Column+1)) {
					tot += b.n
					if b.hit {
						cov += b.n
					}
				}
			}
			if tot == 0 {
				continue
			}
			if showRe != nil {
				if !showRe.MatchString(rel + ":" + name) {
					continue
				}
				lines := strings.Split(string(mustRead(src)), "\n")
				fmt.Printf("== %s %s %d/%d\n", rel, name, cov, tot)
				var unc []*block
				for _, b := range blocks[file] {
					if !b.hit && (b.sl > s.Line || (b.sl == s.Line && b.sc >= s.Column)) && (b.el < e.Line || (b.el == e.Line && b.ec <= e.Column+1)) {
						unc = append(unc, b)
					}
				}
				sort.Slice(unc, func(i, j int) bool { return unc[i].sl < unc[j].sl || (unc[i].sl == unc[j].sl && unc[i].sc < unc[j].sc) })
				for _, b := range unc {
					for l := b.sl; l <= b.el && l <= len(lines); l++ {
						fmt.Printf("  %5d| %s\n", l, lines[l-1])
					}
					fmt.Println("       ---")
				}
				continue
			}
			fmt.Printf("%s\t%s\t%d\t%d\n", rel, name, cov, tot)
		}
	}
}
