#!/usr/bin/env python3
"""tools/update_design_table.py - replaces the seeded-changes table and the mutants block of DESIGN.md (section 11.4)
with the output of tools/catchtable.py"""
import subprocess, re
p = '/verif/DESIGN.md'
s = open(p).read()
tab = subprocess.run(['python3', '/verif/tools/catchtable.py'], stdout=subprocess.PIPE, text=True, check=True).stdout.strip()
start = s.index('| seeded change | property |')
end = s.index('```\n', s.index('Deliberate breakages (`mutants/`', start))  # opening fence
end = s.index('```\n', end + 4) + 4  # closing fence
s = s[:start] + tab + '\n' + s[end:]
open(p, 'w').write(s)
print('table updated: %d seeded rows' % tab.count('\n| '))
