#!/usr/bin/env python3
"""tools/runharness.py <harness> <prop> [budget_s] [workers]  - development aid: build one harness (also an
additional harness that no property names as its primary one) from /repo's (or VERIF_REPO's) tree and run it alone
for <budget_s> seconds; prints the merged summary and every violation (replay files go to VERIF_REPLAYS or build/dev-replays)."""
import sys, os, json, importlib.machinery, importlib.util
V = os.path.dirname(os.path.dirname(os.path.abspath(__file__)))
loader = importlib.machinery.SourceFileLoader("vcheck", os.path.join(V, "check"))
spec = importlib.util.spec_from_loader("vcheck", loader)
ck = importlib.util.module_from_spec(spec)
loader.exec_module(ck)
h, prop = sys.argv[1], sys.argv[2]
budget = int(sys.argv[3]) if len(sys.argv) > 3 else 10
workers = int(sys.argv[4]) if len(sys.argv) > 4 else 4
os.environ.setdefault("VERIF_REPLAYS", os.path.join(V, "build", "dev-replays"))
binp = ck.build_harness(h)
sums = ck.spawn_workers(binp, h, prop, os.environ.get("VERIF_TIER", "quick"), int(os.environ.get("VERIF_SEED", "1")), budget, workers, {}, outdir=os.path.join(V, "build", "out-dev-%s" % h))
m = ck.merge(sums)
print("runs=%d progress=%d nontrivial=%d steps=%d sim_s=%.0f stepcaps=%d horizons=%d stray=%d adopted=%d" % (m["runs"], m["progress_runs"], len(m["nontrivial"]), m["steps"], m["sim_ms"] / 1000, m["stepcaps"], m["horizons"], m["stray"], m["adopted"]))
print("faults", json.dumps(m["faults"], sort_keys=True))
print("probes", json.dumps(m["probes"], sort_keys=True))
for v in m["violations"]:
    print("VIOL", v["prop"], v["oracle"], v["sig"], "count", v.get("count"), "seed", v["seed"], v.get("replay"))
    print("     ", v["detail"][:700])
ck.cleanup()
