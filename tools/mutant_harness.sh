#!/bin/bash
# tools/mutant_harness.sh <harness> <prop> <patch.diff> [budget_s] [workers] - run ONE harness (e.g. an additional harness)
# against a scratch worktree of /repo with the patch applied. Prints "MUTANT <patch> <harness>: CAUGHT|MISSED".
set -u
h=$1; prop=$2; patch=$(readlink -f "$3"); budget=${4:-20}; workers=${5:-4}
wt=/tmp/vmuth-$$-$RANDOM
git -C /repo worktree add -q --detach "$wt" HEAD || exit 2
( cd "$wt" && git apply "$patch" ) || { echo "MUTANT $patch $h: ERROR (patch does not apply)"; git -C /repo worktree remove --force "$wt"; exit 2; }
out=/verif/build/muth-$$; mkdir -p "$out/replays"
VERIF_REPO="$wt" VERIF_REPLAYS="$out/replays" python3 /verif/tools/runharness.py "$h" "$prop" "$budget" "$workers" > "$out/log" 2>&1
grep -E "^runs=|^VIOL" "$out/log" | cut -c1-300 | head -8
if grep -q "^VIOL $prop \|^VIOL \* " "$out/log"; then r=CAUGHT; elif grep -q "^runs=" "$out/log"; then r=MISSED; else r=ERROR; tail -5 "$out/log"; fi
echo "MUTANT $(basename "$patch") $h: $r"
git -C /repo worktree remove --force "$wt"; rm -rf "$out"
