#!/bin/bash
# tools/mutant.sh <prop> <patch.diff> [budget_s]  - run a check against a scratch worktree of /repo with the patch applied.
# Prints the check's tail and "MUTANT <patch> <prop>: CAUGHT|MISSED|ERROR". Leaves /repo, /verif/evidence and /verif/replays untouched.
set -u
prop=$1; patch=$(readlink -f "$2"); budget=${3:-15}
wt=/tmp/vmut-$$-$RANDOM
git -C /repo worktree add -q --detach "$wt" HEAD || exit 2
( cd "$wt" && git apply "$patch" ) || { echo "MUTANT $patch $prop: ERROR (patch does not apply)"; git -C /repo worktree remove --force "$wt"; exit 2; }
out=/verif/build/mut-$$; mkdir -p "$out/replays" "$out/evidence"
VERIF_REPO="$wt" VERIF_REPLAYS="$out/replays" VERIF_EVIDENCE="$out/evidence" VERIF_BUDGET_S=$budget /verif/check "$prop" quick > "$out/log" 2>&1
rc=$?
grep -E "violated|VIOLATION|KNOWN|^check " "$out/log" | cut -c1-400 | head -8
case $rc in 0) r=MISSED;; 1) r=CAUGHT;; *) r="ERROR(exit $rc)"; tail -5 "$out/log";; esac
echo "MUTANT $(basename "$patch") $prop: $r"
git -C /repo worktree remove --force "$wt"; cp "$out/log" /tmp/last_mutant.log 2>/dev/null; rm -rf "$out"
